/-
C05 — model interface: executable model (core Lean only).

Element types are ONNX `TensorProto.DataType` codes.  Names of top-graph values are *structured*
(`Name`): the converter's own input names `in_<i>` / `in_<i>_nchw`, and everything else as an
opaque string; `Name.render` is the string the real code uses (the tie tabulates the real
`_should_always_keep` on rendered strings).

* `policy`          — `numpy_dtype_to_ir_with_float_policy` (reference; the live function is
                       tabulated into `J2O.Gen.C05` and compared on every run)
* `reconcile`       — the Cast/keep decision of `IRContext.add_outputs_from_vars`
* `bindInputs`, `prune`, `alwaysKeep` — input binding and `prune_unused_graph_inputs_ir`
                       (`alwaysKeepOld`/`pruneOld`: the rule before the fix dfda5c9, example only)
* `materialize`     — `_materialize_input_params_on_ir`
* `resolvePositional` — `_resolve_positional_inputs`
* `rename`          — `_apply_custom_io_names_on_ir` with its three collision checks
* `predict`         — the whole interface of an export, used by the correspondence
-/
namespace J2O.C05

/-! ### element types -/

inductive DClass where
  | bool | int | float | complex | other
  deriving DecidableEq, Repr

def classOf : Nat → DClass
  | 9 => .bool
  | 2 => .int | 3 => .int | 4 => .int | 5 => .int | 6 => .int | 7 => .int | 12 => .int | 13 => .int
  | 1 => .float | 10 => .float | 11 => .float | 16 => .float
  | 14 => .complex | 15 => .complex
  | _ => .other

def isFloat (c : Nat) : Bool := classOf c == .float
def isInt (c : Nat) : Bool := classOf c == .int

/-- Reference for `numpy_dtype_to_ir_with_float_policy`: the numpy dtype is identified by the
    ONNX code of its exact counterpart; float32 follows the flag, everything else is kept. -/
def policy (src : Nat) (double : Bool) : Nat :=
  if src = 1 then (if double then 11 else 1) else src

/-- Component type of a complex dtype (exported as a trailing pair of reals). -/
def complexBase : Nat → Nat
  | 14 => 1
  | 15 => 11
  | c => c

/-- Declared element type of an output and whether a Cast is inserted, from the JAX dtype of the
    result (`jaxDt`), the IR dtype of the bound value (`cur`) and the precision flag. -/
def reconcile (jaxDt cur : Nat) (double : Bool) : Nat × Bool :=
  if classOf jaxDt == .complex then (policy (complexBase jaxDt) double, false)
  else
    let target := policy jaxDt double
    if target = cur then (cur, false)
    else if isFloat target && isFloat cur then (cur, false)
    else if isInt target && cur == 7 then (7, false)
    else (target, true)

/-! ### names -/

inductive Name where
  | pos (i : Nat) (nchw : Bool)      -- `in_<i>` / `in_<i>_nchw`
  | other (s : String)               -- any other name (never of the form above)
  deriving DecidableEq, Repr

def Name.render : Name → String
  | .pos i false => "in_" ++ toString i
  | .pos i true => "in_" ++ toString i ++ "_nchw"
  | .other s => s

/-- The rule of `prune_unused_graph_inputs_ir._should_always_keep` (since /repo dfda5c9):
    `in_<digits>` and `in_<digits>_nchw` — every name the input binding gives a positional
    argument — and the empty name. -/
def alwaysKeep : Name → Bool
  | .pos _ _ => true
  | .other s => s.isEmpty

/-- The rule BEFORE dfda5c9 (kept only for the labelled example in `Props/C05.lean`): the NCHW
    spelling was not matched, so an unused NCHW-flagged input was pruned. -/
def alwaysKeepOld : Name → Bool
  | .pos _ false => true
  | .pos _ true => false
  | .other s => s.isEmpty

structure GInput where
  name : Name
  used : Bool          -- consumed by a node or a graph output after optimisation
  deriving DecidableEq, Repr

/-- `_LayoutAdapter.bind_inputs`: positional argument `i` becomes graph input `in_i` or
    `in_i_nchw`; `used i` says whether the traced program reads it. -/
def bindInputsFrom (start : Nat) : List (Bool × Bool) → List GInput
  | [] => []
  | (nchw, used) :: rest => ⟨.pos start nchw, used⟩ :: bindInputsFrom (start + 1) rest

def bindInputs (args : List (Bool × Bool)) : List GInput := bindInputsFrom 0 args

def pruneWith (keep : Name → Bool) (ins : List GInput) : List GInput :=
  ins.filter (fun g => keep g.name || g.used)

def prune : List GInput → List GInput := pruneWith alwaysKeep
def pruneOld : List GInput → List GInput := pruneWith alwaysKeepOld

/-- `_materialize_input_params_on_ir`: a parameter name becomes a graph input (appended, in the
    order of the mapping) iff it is referenced by the graph and is neither an input nor an
    initializer already. -/
def materialize (inputs : List String) (inits referenced : List String) (params : List String) : List String :=
  params.foldl (fun acc p =>
    if p.isEmpty || acc.contains p || inits.contains p || !referenced.contains p then acc
    else acc ++ [p]) inputs

/-- `_resolve_positional_inputs`: indices (into the graph input list) of the `n` positional inputs. -/
def posIndexOf (ins : List Name) (i : Nat) : Option Nat :=
  ins.findIdx? (fun nm => match nm with | .pos j _ => j == i | _ => false)

def resolvePositional (ins : List Name) (n : Nat) : Except String (List Nat) :=
  let found := (List.range n).map (posIndexOf ins)
  if found.all Option.isSome then .ok (found.filterMap id)
  else if ins.length < n then .error "positional inputs were pruned"
  else .ok (List.range n)

/-! ### renaming -/

/-- A top-graph value: identity and current name. -/
structure Val where
  id : Nat
  name : String
  deriving DecidableEq, Repr

def lookupTarget (pairs : List (Nat × String)) (id : Nat) : Option String :=
  (pairs.find? (fun p => p.1 == id)).map (·.2)

/-- check 1: one value must not get two different names -/
def conflictFree : List (Nat × String) → Bool
  | [] => true
  | (id, t) :: rest => rest.all (fun p => p.1 != id || p.2 == t) && conflictFree rest

def dedupPairs : List (Nat × String) → List (Nat × String)
  | [] => []
  | p :: rest => p :: (dedupPairs rest).filter (fun q => q.1 != p.1)

def distinctStr : List String → Bool
  | [] => true
  | x :: xs => !xs.contains x && distinctStr xs

/-- `_apply_custom_io_names_on_ir` on the list of all named top-graph values. -/
def rename (vals : List Val) (pairs : List (Nat × String)) : Except String (List Val) :=
  if !conflictFree pairs then .error "conflicting custom names for one value"
  else
    let tgt := dedupPairs pairs
    let targets := tgt.map (·.2)
    if !distinctStr targets then .error "custom names must be globally unique"
    else
      let others := (vals.filter (fun v => (lookupTarget tgt v.id).isNone)).map (·.name)
      if targets.any (fun t => others.contains t) then .error "custom names collide with existing names"
      else .ok (vals.map (fun v => match lookupTarget tgt v.id with
                                    | some t => { v with name := t }
                                    | none => v))

/-! ### whole-interface prediction (used by the correspondence driver) -/

structure ArgSpec where
  dtype : Nat            -- JAX dtype as ONNX code
  dims : List String     -- "3" or a symbol name
  nchw : Bool
  used : Bool
  deriving Repr

structure PredIn where
  name : String
  dtype : Nat
  dims : List String
  deriving Repr

def permNCHW (d : List String) : List String :=
  match d with
  | [n, h, w, c] => [n, c, h, w]
  | _ => d

/-- `_to_ir_dtype_from_np` (used for NCHW inputs): floats are FLOAT unless float64. -/
def nchwInputDtype (src : Nat) : Nat :=
  if isFloat src then (if src = 11 then 11 else 1) else src

def predictInputsFrom (double : Bool) (start : Nat) : List ArgSpec → List (GInput × PredIn)
  | [] => []
  | a :: rest =>
    let nm : Name := .pos start a.nchw
    (⟨nm, a.used⟩,
     ⟨nm.render, if a.nchw then nchwInputDtype a.dtype else policy a.dtype double,
      if a.nchw then permNCHW a.dims else a.dims⟩) :: predictInputsFrom double (start + 1) rest

/-- Graph inputs after binding and pruning. -/
def predictInputs (double : Bool) (args : List ArgSpec) : List PredIn :=
  ((predictInputsFrom double 0 args).filter (fun p => alwaysKeep p.1.name || p.1.used)).map (·.2)

/-! ### declared outputs: binding, then the optimizer's rewiring history -/

/-- Declared dims of result leaf `j` right after output binding, from the dims of the JAX result
    (`jax.eval_shape`): `outputs_as_nchw` permutes them like the boundary Transpose permutes the
    value (`_LayoutAdapter.bind_output`), a complex result gets the trailing pair dimension
    (`add_outputs_from_vars`). -/
def predictOutDims (dims : List String) (nchw cplx : Bool) : List String :=
  let d := if nchw then permNCHW dims else dims
  if cplx then d ++ ["2"] else d

/-- Declaration of a value: element type code and dims. -/
structure Decl where
  dtype : Nat
  dims : List String
  deriving DecidableEq, Repr

/-- What an optimizer pass can do that is visible at the interface.
    * `rauw old new true`  — `ir.convenience.replace_all_uses_with(old, new, replace_graph_outputs=True)`
    * `rauw old new false` — the same without touching `graph.outputs`
    * `setDecl v d`        — shape/dtype refresh or propagation onto value `v`
    * `remove vs`          — removal of a node whose outputs are `vs` -/
inductive Step where
  | rauw (old new : Nat) (outs : Bool)
  | setDecl (v : Nat) (d : Decl)
  | remove (vs : List Nat)
  deriving Repr

/-- The interface-relevant state of a graph: the ordered list of graph outputs (value ids) and the
    declaration of every value. -/
structure GState where
  outs : List Nat
  decl : Nat → Option Decl

def substOut (old new : Nat) (v : Nat) : Nat := if v = old then new else v

def applyStep (s : GState) : Step → GState
  | .rauw old new true => { s with outs := s.outs.map (substOut old new) }
  | .rauw _ _ false => s
  | .setDecl v d => { s with decl := fun x => if x = v then some d else s.decl x }
  | .remove _ => s

def run (s : GState) (h : List Step) : GState := h.foldl applyStep s

/-- The guard under which a step cannot change the declared interface:
    a value that replaces a graph output is declared like the output it replaces; a declaration
    is only rewritten on a value that is not a graph output (or with what it already says); a
    removed node does not define a graph output. -/
def stepOk (s : GState) : Step → Bool
  | .rauw old new true => !s.outs.contains old || (s.decl new == s.decl old)
  | .rauw _ _ false => true
  | .setDecl v d => !s.outs.contains v || (s.decl v == some d)
  | .remove vs => vs.all (fun v => !s.outs.contains v)

/-- Run a history, stopping at the first step whose guard fails. -/
def runChecked (s : GState) : List Step → Option GState
  | [] => some s
  | st :: rest => if stepOk s st then runChecked (applyStep s st) rest else none

/-- indices of the steps whose guard fails (in the unchecked run) -/
def badSteps (s : GState) : List Step → Nat → List Nat
  | [], _ => []
  | st :: rest, k => (if stepOk s st then [] else [k]) ++ badSteps (applyStep s st) rest (k + 1)

def iface (s : GState) : List (Option Decl) := s.outs.map s.decl

/-- A declaration as the interface property sees it: the element type up to its class (the width
    inside a class is decided by `reconcile` / C09), the dims exactly. -/
def classCode : DClass → Nat
  | .bool => 0 | .int => 1 | .float => 2 | .complex => 3 | .other => 4

def Decl.abstract (d : Decl) : Decl := ⟨classCode (classOf d.dtype), d.dims⟩

def declOfList (l : List (Nat × Decl)) : Nat → Option Decl :=
  fun v => (l.find? (fun p => p.1 == v)).map (·.2)

end J2O.C05
