/-
C12 — layout flags only add boundary transposes: executable model (core Lean only).

`wrap fin fout g` is what exporting with `inputs_as_nchw = fin`, `outputs_as_nchw = fout` must
produce from the plain export `g` (a chain of output terms): every flagged input leaf `i` is
replaced by `Transpose(nchw→nhwc)(leaf i)` (the leaf now denotes the NCHW tensor) and every flagged
output is followed by `Transpose(nhwc→nchw)`.  `validateLayoutIndices` mirrors
`conversion_api._validate_layout_indices`.
-/
import J2O.Model.C02

namespace J2O.C12
open J2O J2O.C02 J2O.C02.Term

/-- hand-written reference for the two boundary permutations (the live constants of /repo are
    regenerated into `J2O.Gen.C12` and compared). -/
def nhwcToNchw : List Nat := [0, 3, 1, 2]
def nchwToNhwc : List Nat := [0, 2, 3, 1]

def permuteDims (p : List Nat) (sh : List Dim) : List Dim := p.map (fun i => sh.getD i Dim.unk)

/-- annotation of the NCHW boundary value derived from the NHWC one -/
def nchwAnn (a : Ann) : Ann := ⟨a.dtype, a.shape.map (permuteDims nhwcToNchw)⟩

/-- replace flagged input leaves -/
def substIn (fin : List Nat) : Term → Term
  | leaf id ann sc =>
    if fin.contains id then
      app (.transpose nchwToNhwc) ann (cons (leaf id (nchwAnn ann) sc) nil)
    else leaf id ann sc
  | boolc b => boolc b
  | app h ann args => app h ann (substIn fin args)
  | nil => nil
  | cons t ts => cons (substIn fin t) (substIn fin ts)

/-- append the boundary transpose to flagged outputs (outputs are the members of the chain) -/
def wrapOut (fout : List Nat) (k : Nat) : Term → Term
  | nil => nil
  | cons t ts =>
    cons (if fout.contains k then app (.transpose nhwcToNchw) Ann.none (cons t nil) else t)
      (wrapOut fout (k + 1) ts)
  | t => t

def wrap (fin fout : List Nat) (g : Term) : Term := wrapOut fout 0 (substIn fin g)

/-! ### index validation -/

inductive RawIdx where
  | int (v : Int)        -- a Python int / numpy integer
  | bool (b : Bool)      -- bool is rejected although it is an int subclass
  | other                -- anything else (float, str, None …)
  deriving Repr, DecidableEq

inductive VErr where
  | notInteger | outOfRange | duplicate
  deriving Repr, DecidableEq

/-- mirror of `_validate_layout_indices(indices, kind, upper_bound)` for `indices is not None` -/
def validateLayoutIndices (upper : Nat) : List RawIdx → List Nat → Except VErr (List Nat)
  | [], acc => .ok acc.reverse
  | .int v :: rest, acc =>
    if v < 0 ∨ v ≥ upper then .error .outOfRange
    else if acc.contains v.toNat then .error .duplicate
    else validateLayoutIndices upper rest (v.toNat :: acc)
  | _ :: _, _ => .error .notInteger

end J2O.C12
