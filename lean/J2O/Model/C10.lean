/-
C10 — JAX transformations commute with export: executable models (core Lean only).

* jaxpr inlining with fresh variables — the mechanism of `JitPlugin._freshen_closed_jaxpr` +
  `JitPlugin.lower` (jaxpr semantics reused from `J2O.Model.C01`);
* `broadcast_batcher_compat` of `plugins/jax/_batching_utils.py` on tensors modelled as
  functions from index lists (unbounded rank), with the numpy-style broadcasting the plugin
  primitives have built in;
* the rule-forwarding policy (allow/block lists) — data comes from `J2O.Gen.C10`.
-/
import J2O.Model.C01
namespace J2O.C10
open J2O.C01

/-! ## jaxpr renaming / inlining -/

def renameAtom {V : Type} (ρ : Nat → Nat) : Atom V → Atom V
  | .var x => .var (ρ x)
  | .lit c => .lit c

def renameEqn {P V : Type} (ρ : Nat → Nat) (e : Eqn P V) : Eqn P V :=
  ⟨e.prim, e.ins.map (renameAtom ρ), e.outs.map (Option.map ρ)⟩

def atomVars {V : Type} : List (Atom V) → List Nat
  | [] => []
  | .var x :: as => x :: atomVars as
  | .lit _ :: as => atomVars as

def outVars : List (Option Nat) → List Nat
  | [] => []
  | some x :: os => x :: outVars os
  | none :: os => outVars os

def eqnVars {P V : Type} (e : Eqn P V) : List Nat := atomVars e.ins ++ outVars e.outs

def eqnsVars {P V : Type} : List (Eqn P V) → List Nat
  | [] => []
  | e :: es => eqnVars e ++ eqnsVars es

/-- All variables of a jaxpr. -/
def jaxprVars {P V : Type} (j : Jaxpr P V) : List Nat :=
  j.constvars ++ j.invars ++ eqnsVars j.eqns ++ atomVars j.outs

/-- What `JitPlugin.lower` does with the freshened body: bind renamed constvars and invars in
    the *shared* environment, evaluate the renamed equations there, bind the outer outvars to
    the values of the renamed outvars. -/
def inlineEval {P V : Type} (sem : P → List V → List V) (env : Env V) (ρ : Nat → Nat)
    (j : Jaxpr P V) (consts : List V) (args : List (Atom V)) (outs : List (Option Nat)) :
    Option (Env V) :=
  match evalAtoms env args with
  | none => none
  | some vals =>
    let env1 := bindVars (bindVars env (j.constvars.map ρ) consts) (j.invars.map ρ) vals
    match evalEqns sem env1 (j.eqns.map (renameEqn ρ)) with
    | none => none
    | some env2 =>
      match evalAtoms env2 (j.outs.map (renameAtom ρ)) with
      | none => none
      | some rs => if rs.length = outs.length then some (bindOuts env2 outs rs) else none

/-- The opaque reading of the same `jit` equation: apply the closed jaxpr as a function. -/
def opaqueEval {P V : Type} (sem : P → List V → List V) (env : Env V)
    (j : Jaxpr P V) (consts : List V) (args : List (Atom V)) (outs : List (Option Nat)) :
    Option (Env V) :=
  match evalAtoms env args with
  | none => none
  | some vals =>
    match evalJaxpr sem j consts vals with
    | none => none
    | some rs => if rs.length = outs.length then some (bindOuts env outs rs) else none

/-- Variables defined (written) by a list of equations — SSA means no duplicates here. -/
def definedVars {P V : Type} : List (Eqn P V) → List Nat
  | [] => []
  | e :: es => outVars e.outs ++ definedVars es

/-! ## tensors as functions from index lists -/

structure Tensor (α : Type) where
  shape : List Nat
  get : List Nat → α

def Tensor.rank {α : Type} (x : Tensor α) : Nat := x.shape.length

def insertAt (k b : Nat) (idx : List Nat) : List Nat := idx.take k ++ b :: idx.drop k
def removeAt (k : Nat) (s : List Nat) : List Nat := s.take k ++ s.drop (k + 1)

/-- Lane `b` of an operand whose batch dimension is `d` (`none` = `NOT_MAPPED`). -/
def lane {α : Type} (x : Tensor α) (d : Option Nat) (b : Nat) : Tensor α :=
  match d with
  | none => x
  | some k => ⟨removeAt k x.shape, fun idx => x.get (insertAt k b idx)⟩

/-- numpy broadcasting, index side: the operand of shape `s` is read at the last `s.length`
    components of the result index, with 0 wherever the operand's dimension is 1. -/
def bidx (s idx : List Nat) : List Nat :=
  List.zipWith (fun d j => if d = 1 then 0 else j) s (idx.drop (idx.length - s.length))

/-- numpy broadcasting, shape side (right-aligned; for compatible shapes). -/
def bshapeRev : List Nat → List Nat → List Nat
  | [], t => t
  | s, [] => s
  | a :: s, b :: t => (if a = 1 then b else a) :: bshapeRev s t
def bshape2 (s t : List Nat) : List Nat := (bshapeRev s.reverse t.reverse).reverse
def bshape : List (List Nat) → List Nat
  | [] => []
  | s :: ss => bshape2 s (bshape ss)

/-- A pointwise primitive `f` of any arity bound to operands with numpy broadcasting (what the
    plugin primitives' `bind` computes). -/
def bindPointwise {α : Type} (f : List α → α) (xs : List (Tensor α)) : Tensor α :=
  ⟨bshape (xs.map (·.shape)), fun idx => f (xs.map fun x => x.get (bidx x.shape idx))⟩

/-- `batching.bdim_at_front(x, d, 1)`: move the batch dimension to the front; an unmapped
    operand gets a leading axis of size 1. -/
def bdimAtFront {α : Type} (x : Tensor α) (d : Option Nat) : Tensor α :=
  match d with
  | some k => ⟨x.shape.getD k 1 :: removeAt k x.shape,
               fun idx => match idx with | b :: r => x.get (insertAt k b r) | [] => x.get []⟩
  | none => ⟨1 :: x.shape, fun idx => x.get idx.tail⟩

/-- `lax.expand_dims(x, range(ndim(x), ndim))`: append trailing axes of size 1. -/
def expandTrailing {α : Type} (ndim : Nat) (x : Tensor α) : Tensor α :=
  ⟨x.shape ++ List.replicate (ndim - x.shape.length) 1, fun idx => x.get (idx.take x.shape.length)⟩

/-- `_handle_scalar_broadcasting`. -/
def handleScalar {α : Type} (ndim : Nat) (x : Tensor α) (d : Option Nat) : Tensor α :=
  if d = none ∨ ndim = x.rank then x else expandTrailing ndim x

def maxRank {α : Type} : List (Tensor α) → Nat
  | [] => 0
  | x :: xs => max x.rank (maxRank xs)

def firstMapped {α : Type} : List (Tensor α × Option Nat) → Option (List Nat × Nat)
  | [] => none
  | (x, some k) :: _ => some (x.shape, k)
  | (_, none) :: rest => firstMapped rest

/-- Mirror of `broadcast_batcher_compat` (single-result primitive).  `none` = the Python code
    raises (`ValueError` for < 2 operands, `StopIteration` when nothing is mapped). -/
def broadcastBatcher {α : Type} (f : List α → α) (args : List (Tensor α × Option Nat)) :
    Option (Tensor α × Nat) :=
  if args.length ≤ 1 then none
  else match firstMapped args with
    | none => none
    | some (shape, dim) =>
      if args.all (fun p => p.1.rank == 0 || (p.1.shape == shape && p.2 == some dim)) then
        some (bindPointwise f (args.map (·.1)), dim)
      else
        let a1 := args.map fun p => if p.1.rank = 0 then p else (bdimAtFront p.1 p.2, p.2)
        let ndim := maxRank (a1.map (·.1))
        let a2 := a1.map fun p => handleScalar ndim p.1 p.2
        some (bindPointwise f a2, 0)


/-! ## reduction batch rule (mirror of `numpy/_reduction_utils.register_reduction_batch_rule`) -/

/-- Per-example reduction axes as the plugin normalises them (`int(ax) % slice_rank`; `None` = all). -/
def normAxes (sliceRank : Nat) (axes : Option (List Int)) : List Nat :=
  match axes with
  | none => List.range sliceRank
  | some l => l.map fun a => (a % (sliceRank : Int)).toNat

/-- What the rule binds the primitive to for a mapped operand: the operand shape after
    `bdim_at_front`, the reduction axes of the batched operand, and the batch dim it reports. -/
def reductionBatchRule (shape : List Nat) (bdim : Nat) (axes : Option (List Int)) :
    List Nat × List Nat × Nat :=
  let moved := shape.getD bdim 1 :: removeAt bdim shape
  (moved, (normAxes (moved.length - 1) axes).map (· + 1), 0)

/-- Shape of a reduction over `axes` (with or without `keepdims`), position `i` onwards. -/
def reduceShapeFrom (keepdims : Bool) (axes : List Nat) : Nat → List Nat → List Nat
  | _, [] => []
  | i, d :: ds =>
    if i ∈ axes then (if keepdims then 1 :: reduceShapeFrom keepdims axes (i + 1) ds
                      else reduceShapeFrom keepdims axes (i + 1) ds)
    else d :: reduceShapeFrom keepdims axes (i + 1) ds
def reduceShape (keepdims : Bool) (axes : List Nat) (s : List Nat) : List Nat :=
  reduceShapeFrom keepdims axes 0 s

/-- The tempting "reduce in place" alternative: keep the batch axis where it is and report
    `bdim − #(reduced axes in front of it)` — right only without `keepdims`. -/
def inPlaceOutDim (bdim : Nat) (axesFull : List Nat) : Nat := bdim - (axesFull.filter (· < bdim)).length

/-! ## rule-forwarding policy (mirror of `register_original_rule_forwarding`) -/

/-- The decision of `register_original_rule_forwarding`: forward iff the pair is allowlisted. -/
def forwardAllowed (allow : List (String × String)) (pair : String × String) : Bool :=
  allow.contains pair

end J2O.C10
