/- JSON → `J2O.C02.Term` (shared by the C02 / C12 / C16 drivers). Trusted parsing code. -/
import Lean.Data.Json
import J2O.Model.C02
open Lean (Json)
open J2O J2O.C02

namespace J2O.TermJson

def parseDim (j : Json) : Dim :=
  match j with
  | .num n => if n.exponent == 0 && n.mantissa ≥ 0 then .known n.mantissa.toNat else .unk
  | .str s => .sym s
  | _ => .unk

def parseAnn (j : Json) : Ann :=
  let dt := match j.getObjVal? "dt" with
    | .ok (.num n) => if n.exponent == 0 && n.mantissa ≥ 0 then some n.mantissa.toNat else none
    | _ => none
  let sh := match j.getObjVal? "sh" with
    | .ok (.arr a) => some (a.toList.map parseDim)
    | _ => none
  ⟨dt, sh⟩

def natList? (j : Json) : Option (List Nat) :=
  match j with
  | .arr a => a.toList.mapM (fun x => match x with
      | .num n => if n.exponent == 0 && n.mantissa ≥ 0 then some n.mantissa.toNat else none
      | _ => none)
  | _ => none

partial def parseTerm (j : Json) : Except String Term := do
  match j.getObjVal? "l" with
  | .ok idj =>
    let id ← idj.getNat?
    let sc := match j.getObjVal? "sc" with | .ok (.bool b) => b | _ => false
    return .leaf id (parseAnn j) sc
  | .error _ =>
  match j.getObjVal? "b" with
  | .ok (.bool b) => return .boolc b
  | _ =>
    let op ← (← j.getObjVal? "op").getStr?
    let dom := match j.getObjVal? "dom" with | .ok (.str s) => s | _ => ""
    let attrs := match j.getObjVal? "attrs" with | .ok (.str s) => s | _ => ""
    let idx := match j.getObjVal? "i" with | .ok v => (v.getNat?.toOption.getD 0) | _ => 0
    let argsJ ← (← j.getObjVal? "a").getArr?
    let args ← argsJ.toList.mapM parseTerm
    let ann := parseAnn j
    let std := dom == ""
    let head : Head :=
      if std && op == "Transpose" then
        match (j.getObjVal? "perm").toOption.bind natList? with
        | some p => .transpose p
        | none => .opq op attrs idx
      else if std && op == "Cast" then
        match (j.getObjVal? "to").toOption.bind (fun v => v.getNat?.toOption) with
        | some t => .cast t
        | none => .opq op attrs idx
      else if std && op.startsWith "Reduce" && args.length == 1 &&
          ((j.getObjVal? "axes").toOption.bind natList?).isSome then
        .reduce (op ++ "|" ++ attrs) (((j.getObjVal? "axes").toOption.bind natList?).getD [])
      else if std && op == "Reshape" && args.length == 2 && attrs == "" then .reshape
      else if std && op == "CastLike" && args.length == 2 then .castLike
      else if std && op == "Identity" && args.length == 1 then .identity
      else if std && pointwiseOps.contains op && idx == 0 then .pw op attrs
      else .opq (dom ++ "::" ++ op) attrs idx
    return .app head ann (Term.ofList args)


end J2O.TermJson
