/-
C14 — the ContextVar save/restore discipline with exception injection (core Lean only).

`plugin_system._IN_FUNCTION_BUILD` (and every other `contextvars.ContextVar` of jax2onnx) is
process-wide (per thread context) state that survives a conversion.  The code writes it only in
the shape

    old = var.get(); var.set(f(old))            tok = var.set(f(var.get()))
    try:   body                          or     try:   body
    finally: var.set(old)                       finally: var.reset(tok)

`Prog` is the language of such computations: arbitrary nesting, sequencing, `try/except`
handlers, reads of the variable (what a later conversion observes), and primitive steps that
raise exactly when the injector `inj` says so — so "every exception point" is a quantifier
over `inj : Nat → Bool`.  `noFinally` is the same write WITHOUT `finally` (restore skipped when the
body raises) and `assign` an undisciplined write; both are outside the discipline.
-/
namespace J2O.C14Ctx

/-- Value of the variable: the names currently being built (`set[str]`, as a list). -/
abbrev Val := List String

inductive Prog where
  | step (k : Nat)                        -- primitive computation no. k; raises iff `inj k`
  | read                                  -- `var.get()` observed (e.g. by the patched wrapper)
  | seq (p q : Prog)
  | withToken (name : String) (body : Prog)  -- tok = set(..); try body finally reset(tok)
  | withSaved (name : String) (body : Prog)   -- old = get(); set(..); try body finally set(old)
  | noFinally (name : String) (body : Prog)    -- tok = set(..); body; reset(tok)      (no finally)
  | handle (p h : Prog)                    -- try: p except: h
  | assign (name : String)                -- var.set(..) and nothing else
  deriving Repr

/-- Result of running a program: did it raise, the variable afterwards, the values read. -/
structure Res where
  raised : Bool
  val : Val
  trace : List Val
  deriving DecidableEq, Repr

def exec (inj : Nat → Bool) : Prog → Val → Res
  | .step k, σ => ⟨inj k, σ, []⟩
  | .read, σ => ⟨false, σ, [σ]⟩
  | .seq p q, σ =>
    let r := exec inj p σ
    if r.raised then r
    else
      let r2 := exec inj q r.val
      ⟨r2.raised, r2.val, r.trace ++ r2.trace⟩
  | .withToken n b, σ =>
    let r := exec inj b (n :: σ)
    ⟨r.raised, σ, r.trace⟩                 -- `reset(tok)` re-installs the value before the `set`
  | .withSaved n b, σ =>
    let r := exec inj b (n :: σ)
    ⟨r.raised, σ, r.trace⟩
  | .noFinally n b, σ =>
    let r := exec inj b (n :: σ)
    if r.raised then r else ⟨false, σ, r.trace⟩
  | .handle p h, σ =>
    let r := exec inj p σ
    if r.raised then
      let r2 := exec inj h r.val
      ⟨r2.raised, r2.val, r.trace ++ r2.trace⟩
    else r
  | .assign n, σ => ⟨false, n :: σ, []⟩

/-- The discipline: every write is bracketed by try/finally. -/
def disciplined : Prog → Bool
  | .step _ => true
  | .read => true
  | .seq p q => disciplined p && disciplined q
  | .withToken _ b => disciplined b
  | .withSaved _ b => disciplined b
  | .noFinally _ _ => false
  | .handle p h => disciplined p && disciplined h
  | .assign _ => false

/-- No undisciplined `assign` (but `noFinally` allowed): what C14-4's change leaves. -/
def noAssign : Prog → Bool
  | .step _ => true
  | .read => true
  | .seq p q => noAssign p && noAssign q
  | .withToken _ b => noAssign b
  | .withSaved _ b => noAssign b
  | .noFinally _ b => noAssign b
  | .handle p h => noAssign p && noAssign h
  | .assign _ => false

/-- A history of conversions: each one runs (and may fail) from the variable the previous left;
    a failed conversion is caught by the caller of `to_onnx`. -/
def afterHist (inj : Nat → Bool) (hist : List Prog) (σ : Val) : Val :=
  hist.foldl (fun s p => (exec inj p s).val) σ

end J2O.C14Ctx
