/-
C16 — failure is loud: executable model of the equation dispatcher's error discipline
(`lowering_dispatch.lower_jaxpr_with_plugins` + `output_binding`) and of the optimizer failure
policy (`conversion_api._optimize_graph_with_failure_policy`).  Core Lean only.

Plugins are abstracted by what they do to the binding state (`Act`); a `nested` plugin lowers the
equation's body jaxpr through the same dispatcher (as the control-flow, jit and function plugins
do) before binding its own outputs.
-/
namespace J2O.C16

abbrev Var := Nat
abbrev Val := Nat

/-- a jaxpr: chain of equations `prim invars outvars body`; `none` outvar = DropVar. -/
inductive Prog where
  | nil
  | cons (prim : String) (invars : List Var) (outvars : List (Option Var)) (body : Prog)
      (rest : Prog)
  deriving Repr, Inhabited

inductive Act where
  | bindConnected        -- binds every non-drop outvar to a fresh graph-connected value
  | nobind               -- returns None and binds nothing
  | bindDisconnected     -- binds outvars to fresh values that no node produces
  | returnAll            -- returns one connected value per non-drop outvar, binds nothing
  | returnN (n : Nat)    -- returns n connected values, binds nothing
  | bindFirstReturnRest  -- binds the first non-drop outvar, returns values for the others
  | raise                -- the plugin raises
  | nested               -- lowers the body jaxpr with the dispatcher, then binds all outputs
  deriving Repr, DecidableEq, Inhabited

inductive Err where
  | unregistered (prim : String)
  | unboundInput (eqn k : Nat)
  | notBound (eqn k : Nat)
  | disconnected (eqn k : Nat)
  | arity (eqn : Nat)
  | plugin (eqn : Nat)
  deriving Repr, DecidableEq, Inhabited

structure St where
  bound : List (Var × Val)     -- latest binding first
  connected : List Val
  next : Val
  deriving Repr, Inhabited

def St.lookup (s : St) (v : Var) : Option Val := (s.bound.find? (·.1 == v)).map (·.2)
def St.isConn (s : St) (x : Val) : Bool := s.connected.contains x
def St.bind (s : St) (v : Var) (x : Val) : St := { s with bound := (v, x) :: s.bound }
def St.freshConn (s : St) : St × Val :=
  ({ s with connected := s.next :: s.connected, next := s.next + 1 }, s.next)
def St.freshLoose (s : St) : St × Val := ({ s with next := s.next + 1 }, s.next)

/-- `_outvar_needs_binding` -/
def needsBinding (s : St) (v : Var) : Bool :=
  match s.lookup v with
  | none => true
  | some x => !s.isConn x

def nonDrop (outs : List (Option Var)) : List Var := outs.filterMap id

def firstUnboundInput (s : St) : List Var → Nat → Option Nat
  | [], _ => none
  | v :: vs, k => if (s.lookup v).isNone then some k else firstUnboundInput s vs (k + 1)

/-- bind each listed var to a fresh value (connected or not) -/
def bindAllFresh (conn : Bool) : List Var → St → St
  | [], s => s
  | v :: vs, s =>
    let (s1, x) := if conn then s.freshConn else s.freshLoose
    bindAllFresh conn vs (s1.bind v x)

def freshConnN : Nat → St → St × List Val
  | 0, s => (s, [])
  | n + 1, s =>
    let (s1, x) := s.freshConn
    let (s2, xs) := freshConnN n s1
    (s2, x :: xs)

/-- bind `vars[i] := vals[i]` for those vars that still need a binding -/
def bindNeeding : List Var → List Val → St → St
  | v :: vs, x :: xs, s => bindNeeding vs xs (if needsBinding s v then s.bind v x else s)
  | _, _, s => s

def bindZip : List Var → List Val → St → St
  | v :: vs, x :: xs, s => bindZip vs xs (s.bind v x)
  | _, _, s => s

/-- `bind_returned_lowering_values` -/
def bindReturned (i : Nat) (outs : List (Option Var)) (ret : Option (List Val)) (s : St) :
    Except Err St :=
  let nd := nonDrop outs
  let unb := nd.filter (needsBinding s)
  if unb.isEmpty then .ok s else
  match ret with
  | none => .ok s
  | some vals =>
    if vals.length == nd.length then .ok (bindNeeding nd vals s)
    else if vals.length == unb.length then .ok (bindZip unb vals s)
    else .error (.arity i)

/-- `assert_eqn_outputs_bound` -/
def checkOutputs (i : Nat) (s : St) : List (Option Var) → Nat → Except Err Unit
  | [], _ => .ok ()
  | none :: rest, k => checkOutputs i s rest (k + 1)
  | some v :: rest, k =>
    match s.lookup v with
    | none => .error (.notBound i k)
    | some x => if s.isConn x then checkOutputs i s rest (k + 1) else .error (.disconnected i k)

/-- the dispatcher: `lower_jaxpr_with_plugins` -/
def lower (reg : String → Option Act) : Prog → St → Nat → Except Err St
  | .nil, s, _ => .ok s
  | .cons prim ins outs body rest, s, i =>
    match reg prim with
    | none => .error (.unregistered prim)
    | some act =>
      match firstUnboundInput s ins 0 with
      | some k => .error (.unboundInput i k)
      | none =>
        let nd := nonDrop outs
        let res : Except Err (St × Option (List Val)) :=
          match act with
          | .bindConnected => .ok (bindAllFresh true nd s, none)
          | .nobind => .ok (s, none)
          | .bindDisconnected => .ok (bindAllFresh false nd s, none)
          | .returnAll => let (s1, xs) := freshConnN nd.length s; .ok (s1, some xs)
          | .returnN n => let (s1, xs) := freshConnN n s; .ok (s1, some xs)
          | .bindFirstReturnRest =>
            match nd with
            | [] => .ok (s, some [])
            | v :: vs =>
              let s1 := bindAllFresh true [v] s
              let (s2, xs) := freshConnN vs.length s1
              .ok (s2, some xs)
          | .raise => .error (.plugin i)
          | .nested =>
            match lower reg body s 0 with
            | .error e => .error e
            | .ok s1 => .ok (bindAllFresh true nd s1, none)
        match res with
        | .error e => .error e
        | .ok (s1, ret) =>
          match bindReturned i outs ret s1 with
          | .error e => .error e
          | .ok s2 =>
            match checkOutputs i s2 outs 0 with
            | .error e => .error e
            | .ok () => lower reg rest s2 (i + 1)

/-- every primitive the dispatcher can reach (the chain, and bodies of `nested` plugins) is
    registered -/
def allRegistered (reg : String → Option Act) : Prog → Bool
  | .nil => true
  | .cons prim _ _ body rest =>
    match reg prim with
    | none => false
    | some act => (if act == .nested then allRegistered reg body else true) && allRegistered reg rest

/-! ### optimizer failure policy -/

/-- Run passes in order; a pass either returns the next model or aborts.  `strict = true`
    re-raises; otherwise the model reached so far is returned. -/
def runPipeline {M E : Type} (passes : List (M → Except E M)) (strict : Bool) (m : M) :
    Except E M :=
  match passes with
  | [] => .ok m
  | p :: ps =>
    match p m with
    | .ok m' => runPipeline ps strict m'
    | .error e => if strict then .error e else .ok m

/-! ### In-place passes and the transactional failure policy

The real passes MUTATE the model; several rewire a pattern in more than one step. A pass that raises
therefore leaves the model in whatever state it had reached, which need not mean anything. `Pass`
models that: the state left behind, and the error if the pass raised. -/

abbrev Pass (M E : Type) := M → M × Option E

/-- run in-place passes until one raises: the state left behind and the error, if any -/
def runInPlace {M E : Type} : List (Pass M E) → M → M × Option E
  | [], m => (m, none)
  | p :: ps, m =>
    match p m with
    | (m', none) => runInPlace ps m'
    | (m', some e) => (m', some e)

/-- the policy of `_optimize_graph_with_failure_policy` BEFORE the repair: on a swallowed failure the
    conversion continues with the model as the failing pass left it -/
def policyInPlace {M E : Type} (ps : List (Pass M E)) (strict : Bool) (m : M) : Except E M :=
  match runInPlace ps m with
  | (m', none) => .ok m'
  | (m', some e) => if strict then .error e else .ok m'

/-- the repaired policy: a snapshot taken before optimization is what a swallowed failure falls back to -/
def policyTx {M E : Type} (ps : List (Pass M E)) (strict : Bool) (m : M) : Except E M :=
  match runInPlace ps m with
  | (m', none) => .ok m'
  | (_, some e) => if strict then .error e else .ok m

end J2O.C16
