/-
C07 — ONNX function boundaries: executable model (core Lean only).

Part A  A small dataflow language with function definitions and call nodes.
        A graph output is a term over the graph inputs; `op` is a primitive operator
        (uninterpreted: its meaning is a parameter `Interp`), `call f args k` is the `k`-th
        output of function `f` applied to `args` (`evalFn` = body applied to arguments).
        Bodies may call other functions to any depth; `fuel` bounds the call depth of one
        evaluation (an evaluation that runs out of fuel is `none`, never a wrong value).
        `inlineE/inlineA/inlineFn` replace every call by its body (substitution).

Part B  The de-duplication machinery of `FunctionPlugin._lower_and_call`:
        `CallSite` = what a call site *is* (target, input signature, every keyword capture
        with its raw bytes, the callee object: identity and full state),
        `mkKey`    = the `FunctionKey` the code builds from it (digests instead of bytes,
                     `id(callee)` in the default mode, state fingerprint with `unique=True`),
        `step/run` = `FunctionRegistry.get/put` + `_allocate_friendly_name` over a history of
                     `enter`/`exit` events of `_lower_and_call` (bodies are traced between the
                     `get` miss and the `put`, so events nest).
-/
namespace J2O.C07

/-! ## Part A — terms, evaluation, inlining -/

abbrev Val := Int

mutual
inductive Expr where
  | var (i : Nat)
  | op (name : String) (args : Args) (k : Nat)
  | call (f : Nat) (args : Args) (k : Nat)
inductive Args where
  | nil
  | cons (e : Expr) (rest : Args)
end

def Args.get? : Args → Nat → Option Expr
  | .nil, _ => none
  | .cons e _, 0 => some e
  | .cons _ r, n+1 => r.get? n

def Args.length : Args → Nat
  | .nil => 0
  | .cons _ r => r.length + 1

/-- Meaning of primitive operators: any function from argument values to output values. -/
abbrev Interp := String → List Val → List Val
/-- Meaning of call nodes: outputs of function `f` on argument values (or failure). -/
abbrev CallSem := Nat → List Val → Option (List Val)

mutual
def evalE (I : Interp) (C : CallSem) : Expr → List Val → Option Val
  | .var i, env => env[i]?
  | .op name as k, env =>
    match evalA I C as env with
    | none => none
    | some vs => (I name vs)[k]?
  | .call f as k, env =>
    match evalA I C as env with
    | none => none
    | some vs =>
      match C f vs with
      | none => none
      | some r => r[k]?
def evalA (I : Interp) (C : CallSem) : Args → List Val → Option (List Val)
  | .nil, _ => some []
  | .cons e r, env =>
    match evalE I C e env with
    | none => none
    | some v =>
      match evalA I C r env with
      | none => none
      | some vs => some (v :: vs)
end

/-- Function table: entry `f` is the list of output terms of function `f` over its inputs. -/
abbrev Defs := List Args

def noCalls : CallSem := fun _ _ => none

/-- `evalFn fuel f vs` — outputs of function `f` on `vs` = its body applied to the arguments;
    calls inside the body nest to depth < `fuel`. -/
def evalFn (I : Interp) (defs : Defs) : Nat → CallSem
  | 0, _, _ => none
  | fuel+1, f, vs =>
    match defs[f]? with
    | none => none
    | some body => evalA I (evalFn I defs fuel) body vs

mutual
def substE (σ : Args) : Expr → Expr
  | .var i => match σ.get? i with | some e => e | none => .var i
  | .op n as k => .op n (substA σ as) k
  | .call f as k => .call f (substA σ as) k
def substA (σ : Args) : Args → Args
  | .nil => .nil
  | .cons e r => .cons (substE σ e) (substA σ r)
end

/-- Inlining table: the call-free body of function `f`, if it could be produced. -/
abbrev InlSem := Nat → Option Args

mutual
def inlineE (L : InlSem) : Expr → Option Expr
  | .var i => some (.var i)
  | .op n as k => match inlineA L as with
    | none => none
    | some as' => some (.op n as' k)
  | .call f as k => match inlineA L as with
    | none => none
    | some as' => match L f with
      | none => none
      | some body => match body.get? k with
        | none => none
        | some e => some (substE as' e)
def inlineA (L : InlSem) : Args → Option Args
  | .nil => some .nil
  | .cons e r => match inlineE L e with
    | none => none
    | some e' => match inlineA L r with
      | none => none
      | some r' => some (.cons e' r')
end

def inlineFn (defs : Defs) : Nat → InlSem
  | 0, _ => none
  | fuel+1, f => match defs[f]? with
    | none => none
    | some body => inlineA (inlineFn defs fuel) body

mutual
def callFreeE : Expr → Bool
  | .var _ => true
  | .op _ as _ => callFreeA as
  | .call _ _ _ => false
def callFreeA : Args → Bool
  | .nil => true
  | .cons e r => callFreeE e && callFreeA r
end

/-! ## Part B — keys, registry, name allocation -/

abbrev Bytes := List Nat

/-- shape tokens (`"3"`, `"B"`, …) and dtype name of one positional input -/
structure TSig where
  shape : List String
  dtype : String
  deriving DecidableEq, Repr

/-- A keyword argument as it reaches `_lower_and_call`, with its full content. -/
inductive CapVal where
  | const (shape : List String) (dtype : String) (bytes : Bytes)   -- static value
  | dynamic (shape : List String) (dtype : String)                 -- traced value (runtime parameter)
  | callInput (shape : List String) (dtype : String)               -- `input_params` entry
  | static (typeName : String)                                     -- value numpy cannot convert
  deriving DecidableEq, Repr

/-- What the key keeps of a keyword argument (`_capture_const` & co). -/
inductive CapKey where
  | const (shape : List String) (dtype : String) (h : Nat)
  | dynamic (shape : List String) (dtype : String)
  | callInput (shape : List String) (dtype : String)
  | static (typeName : String)
  deriving DecidableEq, Repr

def capKey (H : Bytes → Nat) : CapVal → CapKey
  | .const s d b => .const s d (H b)
  | .dynamic s d => .dynamic s d
  | .callInput s d => .callInput s d
  | .static t => .static t

/-- One item of an instance's state (pytree leaf / treedef / attribute), full content. -/
inductive FpVal where
  | none
  | lit (ty repr : String)
  | arr (shape : List String) (dtype : String) (bytes : Bytes)
  | obj (ty repr : String)
  deriving DecidableEq, Repr

/-- `_value_fingerprint` of it. -/
inductive FpKey where
  | none
  | lit (ty repr : String)
  | arr (shape : List String) (dtype : String) (digest : Nat)
  | obj (ty repr : String)
  deriving DecidableEq, Repr

def fpKey (S : Bytes → Nat) : FpVal → FpKey
  | .none => .none
  | .lit t r => .lit t r
  | .arr s d b => .arr s d (S b)
  | .obj t r => .obj t r

inductive Callee where
  | inst (id : Nat) (type : String) (state : List (String × FpVal))
  | func (id : Nat) (module name : String)
  deriving DecidableEq, Repr

def Callee.id : Callee → Nat
  | .inst i _ _ => i
  | .func i _ _ => i

structure CallSite where
  target : String                 -- qualified name of the decorated target
  unique : Bool                   -- `@onnx_function(unique=True)`
  ns : List String                -- namespace parts
  base : String                   -- sanitised friendly base name
  inSig : List TSig
  caps : List (String × CapVal)    -- keyword arguments of THIS call, ground truth
  paramNames : List String        -- names given in `to_onnx(input_params=…)`
  injected : List (String × CapVal)  -- input params the callee's signature accepts although the
                                  -- call site does not pass them (the code threads them in)
  callee : Callee
  nOut : Nat                      -- number of outputs of the call equation
  deriving DecidableEq, Repr

inductive CapSig where
  | byId (id : Nat) (caps : List (String × CapKey))
  | byState (qual : String) (caps : List (String × CapKey)) (type : String)
      (state : List (String × FpKey))
  | byCallable (qual : String) (caps : List (String × CapKey)) (module name : String)
  deriving DecidableEq, Repr

structure Key where
  qname : String
  inSig : List TSig
  capSig : CapSig
  deriving DecidableEq, Repr

/-- How `_lower_and_call` classifies a keyword argument: a static value whose NAME is one of the
    `input_params` is taken for that run-time input, whatever its value. -/
def effCap (names : List String) (p : String × CapVal) : String × CapVal :=
  match p.2 with
  | .const s d _ => if p.1 ∈ names then (p.1, .callInput s d) else p
  | _ => p

/-- The captures as the code sees them: classified by name, plus the auto-injected input params. -/
def effCaps (c : CallSite) : List (String × CapVal) :=
  c.caps.map (effCap c.paramNames) ++ c.injected

def mapSnd {α β : Type} (f : α → β) (l : List (String × α)) : List (String × β) :=
  l.map (fun p => (p.1, f p.2))

/-- `FunctionKey(qualified_name, input_sig, capture_sig)` as `_lower_and_call` builds it. -/
def mkKey (H S : Bytes → Nat) (c : CallSite) : Key :=
  { qname := c.target
    inSig := c.inSig
    capSig :=
      if c.unique then
        match c.callee with
        | .inst _ t st => .byState c.target (mapSnd (capKey H) (effCaps c)) t (mapSnd (fpKey S) st)
        | .func _ m n => .byCallable c.target (mapSnd (capKey H) (effCaps c)) m n
      else .byId c.callee.id (mapSnd (capKey H) (effCaps c)) }

/-- segment of a function domain: text or a decimal counter -/
inductive Seg where
  | s (x : String)
  | n (k : Nat)
  deriving DecidableEq, Repr

/-- counter key of `_allocate_friendly_name`: (namespace, base, "unique"/"shared") -/
structure CKey where
  ns : List String
  base : String
  uniq : Bool
  deriving DecidableEq, Repr

structure Def where
  idx : Nat          -- creation order (ghost)
  ck : CKey
  cnt : Nat          -- value of the counter when allocated
  nIn : Nat
  nOut : Nat
  deriving DecidableEq, Repr

def Def.name (d : Def) : String := d.ck.base

def domainOf (ck : CKey) (cnt : Nat) : List Seg :=
  ck.ns.map Seg.s ++ [Seg.s ck.base] ++
    (if ck.uniq then (if cnt = 1 then [Seg.s "unique"] else [Seg.s "unique", Seg.n cnt])
     else [Seg.n cnt])

def Def.domain (d : Def) : List Seg := domainOf d.ck d.cnt

def isDynKey : CapKey → Bool
  | .dynamic _ _ => true
  | .callInput _ _ => true
  | _ => false

def isDynVal : CapVal → Bool
  | .dynamic _ _ => true
  | .callInput _ _ => true
  | _ => false

def capsOf : CapSig → List (String × CapKey)
  | .byId _ c => c
  | .byState _ c _ _ => c
  | .byCallable _ c _ _ => c

/-- number of inputs of the call node / of the function: positional inputs + runtime parameters -/
def nInOf (c : CallSite) : Nat :=
  c.inSig.length + ((effCaps c).filter (fun p => isDynVal p.2)).length

def nInKey (k : Key) : Nat := k.inSig.length + ((capsOf k.capSig).filter (fun p => isDynKey p.2)).length

def find (k : Key) : List (Key × Def) → Option Def
  | [] => none
  | (k', d) :: r => if k' = k then some d else find k r

def count (ck : CKey) : List (CKey × Nat) → Nat
  | [] => 0
  | (c, n) :: r => if c = ck then n else count ck r

structure Entry where
  site : CallSite
  key : Key
  d : Def
  hit : Bool
  deriving Repr

structure St where
  reg : List (Key × Def) := []
  counters : List (CKey × Nat) := []
  next : Nat := 0
  stack : List (Option (Key × Def)) := []
  log : List Entry := []        -- newest first

inductive Op where
  | enter (c : CallSite)
  | exit

def step (H S : Bytes → Nat) (st : St) : Op → St
  | .enter c =>
    let k := mkKey H S c
    match find k st.reg with
    | some d =>
      { st with stack := none :: st.stack, log := ⟨c, k, d, true⟩ :: st.log }
    | none =>
      let ck : CKey := ⟨c.ns, c.base, c.unique⟩
      let cnt := count ck st.counters + 1
      let d : Def := ⟨st.next, ck, cnt, nInOf c, c.nOut⟩
      { st with counters := (ck, cnt) :: st.counters, next := st.next + 1,
                stack := some (k, d) :: st.stack, log := ⟨c, k, d, false⟩ :: st.log }
  | .exit =>
    match st.stack with
    | [] => st
    | none :: r => { st with stack := r }
    | some (k, d) :: r => { st with stack := r, reg := (k, d) :: st.reg }

def run (H S : Bytes → Nat) (ops : List Op) : St := ops.foldl (step H S) {}

def sitesOf : List Op → List CallSite
  | [] => []
  | .enter c :: r => c :: sitesOf r
  | .exit :: r => sitesOf r

end J2O.C07
