/-
C09 (round 2) — the remaining entry points through which a float constant reaches the model
(core Lean only; the driver imports this file).

1. `Child` / `child` / `descend` — how `FunctionScope(parent)` (an `@onnx_function` body) and
   `make_subgraph_context(parent)` (Loop / If / Scan body) derive their lowering context from the
   parent's: the precision flag is inherited, constants become `Constant` nodes, and
   `_keep_function_float32` is reset (function scope), inherited (subgraph) or switched on (scan).
2. `Src` / `Site` — a constant source at a location = a nesting path below the root context:
   closed-over constants of a function / Loop / If body, scan constants (cast to the aval first),
   literals, static float keywords of an `@onnx_function` (they pass `_capture_const` and are then
   re-traced as weak literals), helper constants of plugin lowerings
   (`add_initializer_from_scalar/_from_array`, `bind_const_for_var(object(), np.asarray(v, dt))`)
   and `const_i64`.
3. `irToNp` / `helperDtype` — the IR-dtype → numpy-dtype side of the dtype map
   (`ir_utils.ir_dtype_to_numpy`) and the helper-constant dtype choice of the lowerings that use it
   (operand's IR type, else the JAX aval).
4. `noSingleOnDoublePath` — the dual scanner of `noDouble` for flag-on exports.
-/
import J2O.Model.C09

namespace J2O.C09

/-! ## 1. Child contexts -/

inductive Child where
  | fnScope        -- FunctionScope(parent).ctx
  | subgraph       -- make_subgraph_context(parent)
  | subgraphKeep   -- make_subgraph_context(parent), then the scan plugin sets keep-float32
  deriving Repr, DecidableEq

def child (c : Ctx) : Child → Ctx
  | .fnScope => { flag := c.flag, fm := true, keep := false }
  | .subgraph => { flag := c.flag, fm := true, keep := c.keep }
  | .subgraphKeep => { flag := c.flag, fm := true, keep := true }

/-- The context reached from `c` along a nesting path (outermost first), any depth. -/
def descend (c : Ctx) : List Child → Ctx
  | [] => c
  | k :: ks => descend (child c k) ks

/-- The root context of a conversion. -/
def rootCtx (flag : Bool) : Ctx := { flag := flag, fm := false, keep := false }

/-! ## 2. Constant sources at a location -/

/-- What a float constant is when it is handed to a lowering context. -/
inductive Src where
  /-- const of a traced body (`closed.consts`): `bind_const_for_var(cv, np.asarray(c))` -/
  | closure (aval : Option FK) (arr : FK)
  /-- scan body const: `np.asarray(c).astype(aval)` first, then `bind_const_for_var` -/
  | scanConst (aval : FK) (arr : FK)
  /-- jaxpr literal -/
  | literal (aval prefer : Option FK) (src : FK)
  /-- static float keyword of an `@onnx_function` call: a Python float (float64) that is
      re-traced inside the body as a weak literal of the operand's dtype -/
  | staticKw (aval : FK)
  /-- plugin helper: `add_initializer_from_scalar` / `add_initializer_from_array` -/
  | helperScalar (src : FK)
  /-- plugin helper: `bind_const_for_var(object(), np.asarray(v, dtype = dt))`, `v` a Python
      float, `dt` chosen by `helperDtype` -/
  | helperBind (dt : FK)
  deriving Repr, DecidableEq

/-- The `Entry` of Model/C09 that the source goes through. -/
def Src.entry : Src → Entry
  | .closure aval arr => .viaBindConst aval arr
  | .scanConst aval _ => .viaBindConst (some aval) aval
  | .literal aval prefer src => .viaLiteral aval prefer src
  | .staticKw aval => .viaLiteral (some aval) none .f64
  | .helperScalar src => .viaInitScalar src
  | .helperBind dt => .viaBindConst none dt

/-- Dtype steps taken BEFORE the entry point is called (source dtype first). -/
def Src.pre : Src → List FK
  | .scanConst _ arr => [arr]
  | .helperBind _ => [.f64]          -- the Python float the helper constant is computed from
  | _ => []

def Src.noF64 : Src → Bool
  | .scanConst aval arr => fkNoF64 aval && fkNoF64 arr
  | .helperBind dt => fkNoF64 dt
  | s => s.entry.noF64

def Src.f64ctx : Src → Bool
  | .scanConst aval _ => aval == .f64
  | .helperBind dt => dt == .f64
  | s => s.entry.f64ctx

/-- A constant source at a location below a root context. -/
structure Site where
  path : List Child
  src : Src
  deriving Repr, DecidableEq

def Site.ctx (flag : Bool) (s : Site) : Ctx := descend (rootCtx flag) s.path

def Site.bound (P : Policy) (flag : Bool) (s : Site) : Option Bound :=
  (s.src.entry.bound P (s.ctx flag)).map (fun b => { b with path := s.src.pre ++ b.path })

def Site.code (P : Policy) (flag : Bool) (s : Site) : Nat := s.src.entry.code P (s.ctx flag)

def Site.stored (P : Policy) (flag : Bool) (s : Site) : Option FK :=
  (s.bound P flag).map (fun b => b.final flag)

/-- `IRBuilder.const_i64`: an int64 array through `add_initializer_from_array`; the float policy
    does not apply, nor does post-processing promotion (only float32 payloads are promoted). -/
def constI64Code (_c : Ctx) : Nat := 7

/-! ## 3. IR dtype → numpy dtype, helper-constant dtype -/

/-- `ir_utils.ir_dtype_to_numpy(dtype, default = d)` on float element types: `ir` is the ONNX code
    of the operand's type when it has one (`none` = the value carries no IR type yet / not a
    dtype); the answer is the numpy dtype of that code, else exactly the default. -/
def irToNp (ir : Option Nat) (default : Option FK) : Option FK :=
  match ir with
  | some 1 => some .f32
  | some 10 => some .f16
  | some 11 => some .f64
  | _ => default

/-- Helper-constant dtype of the lowerings that consult the operand's IR type first and the JAX
    aval second (cbrt, nextafter, reduce_precision, erf_inv, log1p, expm1, erfc, …):
    `ir_dtype_to_numpy(x.type.dtype, default=None) or aval.dtype`. -/
def helperDtype (ir : Option Nat) (aval : FK) : FK := (irToNp ir none).getD aval

/-! ## 4. Dual scanner -/

/-- Flag on, all-float64 program: no FLOAT / FLOAT16 / BFLOAT16 / COMPLEX64 element type anywhere
    in the model tree (tensors, Constant values, Cast targets, value types, dtype attributes). -/
def noSingleOnDoublePath (t : Tree) : Bool := noCodes isNarrowFloat t

end J2O.C09
