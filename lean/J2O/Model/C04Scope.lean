/-
C04 — scope machine for symbolic-dimension origins (core Lean only).

One export lowers into a STACK of lowering contexts (`IRContext`s): the top graph, the body of an
`@onnx_function` (`FunctionScope`), the body graph of a `Loop` / `If` (`make_subgraph_context`).  Each
context owns an origin table (`_sym_origin_str`).  This file models how the tables of nested contexts
come about:

* `SOp.record v dims`   `record_symbolic_dim_origins(dims, v)` in the current context;
* `SOp.enter ins`    `FunctionScope.begin(inputs)`: a NEW context whose table starts empty; for every
                     input `i` (mirrored as the function input `f_in_i`) and every axis whose dim has
                     an origin in the PARENT, the dim is re-bound to `(f_in_i, axis)`; later inputs
                     overwrite earlier ones (Python dict);
* `SOp.sub`          `make_subgraph_context`: the child starts with a COPY of the parent's table
                     (outer-scope values stay visible inside ONNX sub-graphs);
* `SOp.exit`         the current context is finished (`FunctionScope.end`, end of a body graph).

The harness replays the live sequence of these operations of every real export through `Stack.run`
and compares the table of every context, at the moment it is created / left, with the live one.
-/
import J2O.Model.C04
namespace J2O.C04

/-- dims of one tensor as the recording operations see them: `(dim key | none for an integer, axis)` -/
abbrev Dims := List (Option String × Nat)

/-- `FunctionScope.begin(inputs)`: the loop over the inputs (`f_in_i`, dims of the call argument). -/
def OTable.scopeBegin (parent : OTable) : List (String × Dims) → OTable → OTable
  | [], child => child
  | (fin, dims) :: r, child => OTable.scopeBegin parent r (OTable.scopeInput parent child fin dims)

inductive SOp where
  | record (v : String) (dims : Dims)
  | enter (ins : List (String × Dims))
  | sub
  | exit
  deriving Repr

/-- innermost context first -/
abbrev Stack := List OTable

def Stack.step : Stack → SOp → Stack
  | [], _ => []
  | t :: r, .record v dims => t.recordDims v dims :: r
  | t :: r, .enter ins => OTable.scopeBegin t ins [] :: t :: r
  | t :: r, .sub => t :: t :: r
  | _ :: r, .exit => r

def Stack.run : Stack → List SOp → Stack
  | s, [] => s
  | s, op :: r => Stack.run (s.step op) r

/-- the table a function body is lowered against when the function is first called from a context
    with table `parent` on arguments with the given dims -/
def bodyTable (parent : OTable) (ins : List (String × Dims)) : OTable := OTable.scopeBegin parent ins []

/-! ### int64 arithmetic of the emitted chain

ONNX evaluates the chain on `int64` tensors: every node's result wraps modulo 2^64.  `eval64` is that
meaning; `fits` says that no node of the chain leaves the int64 range when computed over the
integers.  `J2O.C04.eval64_eq_eval` (Props/C04Scope.lean): `fits` ⇒ the two meanings coincide.  The
harness evaluates `fits` for every emitted chain on every binding of the lattice. -/

def wrap64 (x : Int) : Int := (x + 9223372036854775808) % 18446744073709551616 - 9223372036854775808

def inInt64 (x : Int) : Bool := decide (-9223372036854775808 ≤ x) && decide (x < 9223372036854775808)

def IntProg.eval64 (shapes : String → Nat → Int) : IntProg → Int
  | .const k => wrap64 k
  | .shape v ax => wrap64 (shapes v ax)
  | .add a b => wrap64 (a.eval64 shapes + b.eval64 shapes)
  | .sub a b => wrap64 (a.eval64 shapes - b.eval64 shapes)
  | .mul a b => wrap64 (a.eval64 shapes * b.eval64 shapes)
  | .pow a b => wrap64 (a.eval64 shapes ^ (b.eval64 shapes).toNat)
  | .div a b => wrap64 (Int.tdiv (a.eval64 shapes) (b.eval64 shapes))
  | .mod a b => wrap64 (OpKind.onnx .mod (a.eval64 shapes) (b.eval64 shapes))
  | .max a b => wrap64 (OpKind.onnx .max (a.eval64 shapes) (b.eval64 shapes))
  | .min a b => wrap64 (OpKind.onnx .min (a.eval64 shapes) (b.eval64 shapes))

/-- every node of the chain, computed over the integers, is an int64 -/
def IntProg.fits (shapes : String → Nat → Int) : IntProg → Bool
  | .const k => inInt64 k
  | .shape v ax => inInt64 (shapes v ax)
  | .add a b => a.fits shapes && b.fits shapes && inInt64 ((IntProg.add a b).eval shapes)
  | .sub a b => a.fits shapes && b.fits shapes && inInt64 ((IntProg.sub a b).eval shapes)
  | .mul a b => a.fits shapes && b.fits shapes && inInt64 ((IntProg.mul a b).eval shapes)
  | .pow a b => a.fits shapes && b.fits shapes && inInt64 ((IntProg.pow a b).eval shapes)
  | .div a b => a.fits shapes && b.fits shapes && inInt64 ((IntProg.div a b).eval shapes)
  | .mod a b => a.fits shapes && b.fits shapes && inInt64 ((IntProg.mod a b).eval shapes)
  | .max a b => a.fits shapes && b.fits shapes && inInt64 ((IntProg.max a b).eval shapes)
  | .min a b => a.fits shapes && b.fits shapes && inInt64 ((IntProg.min a b).eval shapes)

end J2O.C04
