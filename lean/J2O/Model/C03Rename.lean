/-
C03 (round 2) — renaming of a model tree and the contract of onnx_ir's `NameFixPass`
(core Lean only; the driver imports this file).

Part 1.  `renameG ρ g` applies a name map `ρ` to every value name of a graph at every depth
(inputs, initializers, node inputs/outputs, graph outputs, annotation keys).  An exporter works on
value OBJECTS; the serialised model is the object graph with each object replaced by its final
name, i.e. a `renameG` of the graph whose "names" are the object identities.

Part 2.  `NameFixPass` (library code, trusted): values are visited in a fixed order; a value whose
name is not yet used in its scope chain keeps it; otherwise `f"{name}_{k}"` with the first counter
value `k` that is free (`pickName`); unnamed values get the preferred name `v`.  A sub-graph starts
with a COPY of the names used so far in the enclosing graphs, which is dropped on exit (sibling
bodies may reuse names).  `nfRun` is the event machine (enter / exit / visit value), `fixList` the
one-scope special case the theorems in `Props/C03Rename.lean` are stated for.  Both use `pickName`.
-/
import J2O.Model.C03

namespace J2O.C03
open J2O.MT

/-! ## Part 1: renaming -/

mutual
def renameG (ρ : String → String) : Graph → Graph
  | .mk i t ns o v => .mk (i.map ρ) (t.map ρ) (renameNs ρ ns) (o.map ρ) (v.map fun kv => (ρ kv.1, kv.2))
def renameNs (ρ : String → String) : List Node → List Node
  | [] => []
  | n :: rest => renameN ρ n :: renameNs ρ rest
def renameN (ρ : String → String) : Node → Node
  | .mk d o i u a bs => .mk d o (i.map ρ) (u.map ρ) a (renameBs ρ bs)
def renameBs (ρ : String → String) : List Graph → List Graph
  | [] => []
  | b :: bs => renameG ρ b :: renameBs ρ bs
end

/-- a function body is renamed like a closed graph -/
def renameF (ρ : String → String) (f : Func) : Func :=
  { f with inputs := f.inputs.map ρ, outputs := f.outputs.map ρ, inits := f.inits.map ρ,
           nodes := renameNs ρ f.nodes, vinfo := f.vinfo.map fun kv => (ρ kv.1, kv.2) }

/-- the main graph is renamed by `ρ`, the body of function `(domain, name)` by `σ domain name`
    (NameFixPass treats every function on its own) -/
def renameM (ρ : String → String) (σ : String → String → String → String) (m : Model) : Model :=
  { imports := m.imports, graph := renameG ρ m.graph,
    funcs := m.funcs.map fun f => renameF (σ f.domain f.name) f }

/-- finite name map given as an association list (identity elsewhere) – used by the driver -/
def applyMap (tbl : List (String × String)) (x : String) : String :=
  match tbl with
  | [] => x
  | (k, v) :: rest => if k = x then v else applyMap rest x

/-! ## Part 2: the NameFixPass contract -/

abbrev NCounter := List (String × Nat)

def NCounter.get (c : NCounter) (b : String) : Nat :=
  match c with
  | [] => 0
  | (k, v) :: rest => if k = b then v else NCounter.get rest b

def NCounter.set (c : NCounter) (b : String) (n : Nat) : NCounter :=
  match c with
  | [] => [(b, n)]
  | (k, v) :: rest => if k = b then (k, n) :: rest else (k, v) :: NCounter.set rest b n

/-- `f"{pref}_{k}"` -/
def suffixed (pref : String) (k : Nat) : String := pref ++ "_" ++ toString k

/-- the `while new_name in used_names` loop of `_find_and_record_next_unique_name`, with fuel -/
def findFree (pref : String) (used : List String) : Nat → Nat → Option (String × Nat)
  | 0, _ => none
  | fuel + 1, c =>
    if used.contains (suffixed pref (c + 1)) then findFree pref used fuel (c + 1)
    else some (suffixed pref (c + 1), c + 1)

/-- name given to a value whose preferred name is `pref`, and the new counter value of `pref` -/
def pickName (pref : String) (used : List String) (c : Nat) : Option (String × Nat) :=
  if used.contains pref then findFree pref used (used.length + 1) c else some (pref, c)

/-- `SimpleNameGenerator.generate_value_name` -/
def preferred (name : String) : String := if name = "" then "v" else name

/-- one scope, pairwise different values, visited in list order -/
def fixList : List String → NCounter → List String → Option (List String)
  | _, _, [] => some []
  | used, cnt, x :: xs =>
    match pickName (preferred x) used (cnt.get (preferred x)) with
    | none => none
    | some (nm, c) =>
      match fixList (nm :: used) (cnt.set (preferred x) c) xs with
      | none => none
      | some rest => some (nm :: rest)

inductive Ev where
  | enter
  | exit
  | val (id : Nat) (name : String)

structure NF where
  /-- used names per open scope, innermost first -/
  scopes : List (List String)
  cnt : NCounter
  seen : List Nat
  /-- (value id, final name), latest first -/
  out : List (Nat × String)

def nfStep (st : NF) : Ev → Option NF
  | .enter => some { st with scopes := (st.scopes.headD []) :: st.scopes }
  | .exit => some { st with scopes := st.scopes.tail }
  | .val id name =>
    if st.seen.contains id then some st
    else
      let p := preferred name
      match pickName p (st.scopes.headD []) (st.cnt.get p) with
      | none => none
      | some (nm, c) =>
        some { scopes := (nm :: st.scopes.headD []) :: st.scopes.tail, cnt := st.cnt.set p c,
               seen := id :: st.seen, out := (id, nm) :: st.out }

def nfRun : NF → List Ev → Option NF
  | st, [] => some st
  | st, e :: es =>
    match nfStep st e with
    | none => none
    | some st' => nfRun st' es

def nfInit : NF := { scopes := [[]], cnt := [], seen := [], out := [] }

end J2O.C03
