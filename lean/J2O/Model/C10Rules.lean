/-
C10 — executable models of two more transformation rules (core Lean only):

* `FunctionPlugin._batching_rule` (`plugins/plugin_system.py`): vmap of a call to an `@onnx_function`
  — determine the batch size from the first mapped operand, `bdim_at_front(arg, bdim, axis_size)` on
  every operand (an unmapped operand is *broadcast* to the batch size), `jax.vmap` of the original
  callable over axis 0 of all of them, result batched at 0;
* the AD rule registries under `register_original_rule_forwarding` (at plugin import) followed by
  `backfill_missing_transpose_rules` (at conversion): one function from (allow-list, block-list,
  registries before) to the registries after, rule objects modelled by their identity.
-/
import J2O.Model.C10
namespace J2O.C10

/-! ## FunctionPlugin._batching_rule -/

/-- `batching.bdim_at_front(x, d, size)`: a mapped operand gets its batch dimension moved to the
    front; an unmapped one is broadcast to `size` along a new leading axis. -/
def bdimAtFrontB {α : Type} (size : Nat) (x : Tensor α) (d : Option Nat) : Tensor α :=
  match d with
  | some k => ⟨x.shape.getD k 1 :: removeAt k x.shape,
               fun idx => match idx with | b :: r => x.get (insertAt k b r) | [] => x.get []⟩
  | none => ⟨size :: x.shape, fun idx => x.get idx.tail⟩

/-- the `axis_size` loop: extent of the first operand that is mapped at a dimension in range -/
def axisSize {α : Type} : List (Tensor α × Option Nat) → Option Nat
  | [] => none
  | (x, some k) :: rest => if k < x.rank then some (x.shape.getD k 1) else axisSize rest
  | (_, none) :: rest => axisSize rest

/-- `jax.vmap(F)(*xs)` with every operand mapped at axis 0 (batch size `B`), result batched at 0.
    `F` is ANY function of the per-example operands (not necessarily pointwise). -/
def vmapFront {α : Type} (B : Nat) (F : List (Tensor α) → Tensor α) (xs : List (Tensor α)) : Tensor α :=
  ⟨B :: (F (xs.map fun x => lane x (some 0) 0)).shape,
   fun idx => match idx with
     | b :: r => (F (xs.map fun x => lane x (some 0) b)).get r
     | [] => (F (xs.map fun x => lane x (some 0) 0)).get []⟩

/-- Mirror of `FunctionPlugin._batching_rule` for a single-result function: result and its batch dim
    (`none` = `NOT_MAPPED`: nothing was mapped, the original callable is applied as is). -/
def fnBatchRule {α : Type} (F : List (Tensor α) → Tensor α) (args : List (Tensor α × Option Nat)) :
    Tensor α × Option Nat :=
  match axisSize args with
  | none => (F (args.map (·.1)), none)
  | some B => (vmapFront B F (args.map fun p => bdimAtFrontB B p.1 p.2), some 0)

/-! ## AD rule registries: forwarding + backfill -/

/-- Identity of a rule object: the rule written for primitive `owner` (`kind` tells JVP / transpose /
    batching rules of one primitive apart), or the generic `jax.linear_transpose` closure created by
    `register_transpose_via_linear_transpose` for `prim`. -/
inductive Rule where
  | own (owner : String) (kind : Nat)
  | fallback (prim : String)
  deriving DecidableEq, Repr

abbrev Registry := List (String × Rule)

/-- dictionary lookup (the newest entry wins) -/
def lookupRule : Registry → String → Option Rule
  | [], _ => none
  | (q, r) :: rest, p => if q = p then some r else lookupRule rest p

structure Regs where
  jvps : Registry
  transposes : Registry
  batchers : Registry

structure FwdReq where
  orig : String
  new : String
  override : Bool
  forwardBatching : Bool

/-- one registry under `register_original_rule_forwarding`:
    `if orig in reg and (override or new not in reg): reg[new] = reg[orig]` -/
def forwardReg (reg : Registry) (q : FwdReq) : Registry :=
  match lookupRule reg q.orig with
  | none => reg
  | some r => if q.override || (lookupRule reg q.new).isNone then (q.new, r) :: reg else reg

/-- `register_original_rule_forwarding`; `none` = `ValueError` (pair not allow-listed). -/
def forwardOne (allow : List (String × String)) (regs : Regs) (q : FwdReq) : Option Regs :=
  if allow.contains (q.orig, q.new) then
    some ⟨forwardReg regs.jvps q, forwardReg regs.transposes q,
          if q.forwardBatching then forwardReg regs.batchers q else regs.batchers⟩
  else none

def forwardAll (allow : List (String × String)) : Regs → List FwdReq → Option Regs
  | regs, [] => some regs
  | regs, q :: qs =>
    match forwardOne allow regs q with
    | none => none
    | some regs' => forwardAll allow regs' qs

/-- `backfill_missing_transpose_rules` for one primitive: has a JVP rule, no transpose rule, its name
    is on the linear-transpose allow-list and it has a callable `impl` → install the generic fallback. -/
def backfillOne (linAllow impls : List String) (regs : Regs) (p : String) : Regs :=
  if (lookupRule regs.jvps p).isSome && (lookupRule regs.transposes p).isNone
      && linAllow.contains p && impls.contains p then
    { regs with transposes := (p, Rule.fallback p) :: regs.transposes }
  else regs

def backfill (linAllow impls : List String) (regs : Regs) (prims : List String) : Regs :=
  prims.foldl (backfillOne linAllow impls) regs

/-- **The whole decision.**  `_validate_forwarding_policy_sets` (allow/block overlap → `RuntimeError`
    at import, `none` here), every plugin module's forwarding request in import order (a denied one
    raises), then the backfill at conversion time. -/
def adPipeline (allow block : List (String × String)) (linAllow impls : List String)
    (reqs : List FwdReq) (prims : List String) (regs : Regs) : Option Regs :=
  if allow.any block.contains then none
  else match forwardAll allow regs reqs with
    | none => none
    | some regs' => some (backfill linAllow impls regs' prims)

/-! ### operand-shape contracts of the `add` pair (known finding F-C10-add-forwarded-ad-rule) -/

/-- numpy compatibility of two shapes (right-aligned: equal or 1) -/
def compat2 (s t : List Nat) : Bool :=
  (List.zip s.reverse t.reverse).all fun p => p.1 == p.2 || p.1 == 1 || p.2 == 1

/-- `lax.add` (and its JVP/transpose rules) are defined on operands of EQUAL RANK only (or a scalar):
    no rank broadcasting. -/
def laxAddDom (shapes : List (List Nat)) : Bool :=
  match shapes with
  | [s, t] => (s.length == t.length || s.isEmpty || t.isEmpty) && compat2 s t
  | _ => false

/-- the substitute primitive `jax.numpy.add` accepts every pair of broadcast-compatible shapes. -/
def jnpAddDom (shapes : List (List Nat)) : Bool :=
  match shapes with
  | [s, t] => compat2 s t
  | _ => false

end J2O.C10
