/-
C17 — cast round-trip elimination: executable reference model (core Lean only).

`Kind` describes an ONNX element type by the value domain it denotes.
`castOk s m` is the hand-written *reference* decision "every value of `s`
is representable in `m`" (so `s → m → s` is the identity).  The real
decision function of /repo (`_cast_roundtrip_is_value_preserving`) is
tabulated on its whole domain into `J2O.Gen.C17` on every run and shown to be
included in this reference (`J2O.GenProps.C17`).

`rangeBounds` mirrors the Range tail of `_known_integer_value_bounds`;
`knownFit` mirrors `_cast_roundtrip_known_values_fit` once the bounds are known.
-/
namespace J2O.C17

/-- (precision bits incl. hidden bit, exponent of the smallest subnormal,
    exponent of the largest normal binade). -/
structure FloatFmt where
  p : Int
  emin : Int
  emax : Int
  deriving Repr, DecidableEq

inductive Kind where
  | bool
  | int (signed : Bool) (bits : Nat)
  | flt (f : FloatFmt)
  | cplx (f : FloatFmt)
  | other
  deriving Repr, DecidableEq

def f16 : FloatFmt := ⟨11, -24, 15⟩
def bf16 : FloatFmt := ⟨8, -133, 127⟩
def f32 : FloatFmt := ⟨24, -149, 127⟩
def f64 : FloatFmt := ⟨53, -1074, 1023⟩

/-- ONNX `TensorProto.DataType` code → value domain (hand-written from the ONNX
    specification; the four float triples are cross-checked against
    numpy/ml_dtypes `finfo` on every run). Codes not listed (strings, 8/4-bit
    floats, undefined, invalid) are `other`: no round trip through or from them
    is claimed lossless. -/
def kindOf : Nat → Kind
  | 1 => .flt f32
  | 2 => .int false 8
  | 3 => .int true 8
  | 4 => .int false 16
  | 5 => .int true 16
  | 6 => .int true 32
  | 7 => .int true 64
  | 9 => .bool
  | 10 => .flt f16
  | 11 => .flt f64
  | 12 => .int false 32
  | 13 => .int false 64
  | 14 => .cplx f32
  | 15 => .cplx f64
  | 16 => .flt bf16
  | 21 => .int false 4
  | 22 => .int true 4
  | 25 => .int false 2
  | 26 => .int true 2
  | _ => .other

/-- A float format is well formed: at least one precision bit, subnormal
    exponent not above 0 (so that small integers are representable with
    exponent 0). -/
def FloatFmt.wf (f : FloatFmt) : Bool := decide (1 ≤ f.p) && decide (f.emin ≤ 0) && decide (0 ≤ f.emax)

def fitsII (ss : Bool) (sb : Nat) (ts : Bool) (tb : Nat) : Bool :=
  if ss then ts && decide (sb ≤ tb)
  else if ts then decide (sb < tb)
  else decide (sb ≤ tb)

def fitsIF (ss : Bool) (sb : Nat) (t : FloatFmt) : Bool :=
  let req : Int := if ss then (sb : Int) - 1 else (sb : Int)
  decide (req ≤ t.p) && decide ((sb : Int) - 1 ≤ t.emax) && t.wf && decide (1 ≤ sb)

def fitsFF (s t : FloatFmt) : Bool :=
  decide (s.p ≤ t.p) && decide (t.emin ≤ s.emin) && decide (s.emax ≤ t.emax) && s.wf

/-- Reference decision: is `s → m → s` the identity on every value of `s`? -/
def castOk : Kind → Kind → Bool
  | .bool, .bool => true
  | .bool, .int s b => if s then decide (2 ≤ b) else decide (1 ≤ b)
  | .bool, .flt f => f.wf
  | .bool, .cplx f => f.wf
  | .int ss sb, .int ts tb => fitsII ss sb ts tb
  | .int ss sb, .flt f => fitsIF ss sb f
  | .int ss sb, .cplx f => fitsIF ss sb f
  | .flt s, .flt t => fitsFF s t
  | .flt s, .cplx t => fitsFF s t
  | .cplx s, .cplx t => fitsFF s t
  | _, _ => false

/-- Inclusive integer bounds of an integer kind. -/
def intBounds (signed : Bool) (bits : Nat) : Int × Int :=
  if signed then (-(2 ^ (bits - 1) : Int), (2 ^ (bits - 1) : Int) - 1)
  else (0, (2 ^ bits : Int) - 1)

def kindBounds : Kind → Option (Int × Int)
  | .int s b => some (intBounds s b)
  | _ => none

/-- Mirror of the Range tail of `_known_integer_value_bounds` (Python `//` is
    floor division = `Int.fdiv`). `none` = no proof; `(0,-1)` = empty range. -/
def rangeBounds (start limit delta : Int) : Option (Int × Int) :=
  if delta = 0 then none
  else if delta > 0 then
    if start ≥ limit then some (0, -1)
    else some (start, start + (Int.fdiv (limit - start - 1) delta) * delta)
  else
    if start ≤ limit then some (0, -1)
    else some (start + (Int.fdiv (start - limit - 1) (-delta)) * delta, start)

/-- Mirror of `_cast_roundtrip_known_values_fit` given the value bounds. -/
def knownFit (src mid : Kind) (bounds : Option (Int × Int)) : Bool :=
  match kindBounds src, kindBounds mid, bounds with
  | some _, some (tlo, thi), some (lo, hi) =>
      if lo > hi then true else decide (lo ≥ tlo) && decide (hi ≤ thi)
  | _, _, _ => false

/-- The `i`-th value ONNX `Range(start, limit, delta)` emits, if any:
    `start + i*delta` while it stays on the start side of the exclusive limit. -/
def rangeEmits (start limit delta : Int) (v : Int) : Prop :=
  ∃ i : Int, 0 ≤ i ∧ v = start + i * delta ∧
    ((0 < delta ∧ v < limit) ∨ (delta < 0 ∧ limit < v))

end J2O.C17
