/-
C19 — the capture key of a FunctionPlugin (`@onnx_function`) call site: executable model (core Lean only).

`FunctionPlugin._lower_and_call` decides per call site whether a NEW function body is traced or an existing one
is reused, by the key `(callee, input signature, capture items)`.  The capture items carry one entry per keyword
of the call.  What a keyword value *is* decides its entry:

* `traced`  – an array with an abstract value that is a variable of the outer jaxpr: it becomes an INPUT of the
              function; the key records only shape and dtype (`("dynamic", shape, dtype)`),
* `data`    – `np.asarray(value)` has a data dtype (Python scalars, strings, tuples of numbers, constant arrays):
              the value is BAKED INTO the body; the key records shape, dtype and the bytes
              (`("const", shape, dtype, hash(bytes))`; the hash is modelled as the bytes themselves),
* `object`  – `np.asarray(value)` has dtype `object` (None, callables, dtype objects, instances, dicts, tuples
              containing such): baked in; the buffer holds the IDENTITIES of the objects, the key records them.

`classify` is the classification the brief names (traced / static scalar / array constant / object).
`captureKeyTN` is the alternative that keys an object by its TYPE NAME only (`("static", type(value).__name__)`,
the pre-existing generic fallback of the live code); it is the refuted alternative of `Props/C19Key.lean`.

Names (dtypes, type names) and object identities are natural numbers (numbered by first use in the harness).
-/
namespace J2O.C19.Key

inductive Val where
  | traced (dtype : Nat) (shape : List Nat)
  | data (dtype : Nat) (shape : List Nat) (bytes : List Nat)
  | object (tyName : Nat) (shape : List Nat) (ptrs : List Nat)
  deriving DecidableEq, Repr

inductive Class where
  | traced | staticScalar | arrayConst | object
  deriving DecidableEq, Repr

def classify : Val → Class
  | .traced _ _ => .traced
  | .data _ [] _ => .staticScalar
  | .data _ (_ :: _) _ => .arrayConst
  | .object _ _ _ => .object

/-- One capture item.  `dtype = none` is numpy's `object` dtype. -/
inductive Key where
  | dynamic (shape : List Nat) (dtype : Nat)
  | const (shape : List Nat) (dtype : Option Nat) (digest : List Nat)
  | static (tyName : Nat)
  deriving DecidableEq, Repr

/-- The live key (`_capture_dynamic_from_var` / `_capture_const`). -/
def captureKey : Val → Key
  | .traced d s => .dynamic s d
  | .data d s b => .const s (some d) b
  | .object _ s p => .const s none p

/-- The alternative: an object-valued static keyword is keyed by its type name only. -/
def captureKeyTN : Val → Key
  | .traced d s => .dynamic s d
  | .data d s b => .const s (some d) b
  | .object t _ _ => .static t

/-- What the traced function BODY depends on: the abstract value of an input, or the baked-in value. -/
inductive Baked where
  | input (dtype : Nat) (shape : List Nat)
  | value (dtype : Option Nat) (shape : List Nat) (payload : List Nat)
  deriving DecidableEq, Repr

def baked : Val → Baked
  | .traced d s => .input d s
  | .data d s b => .value (some d) s b
  | .object _ s p => .value none s p

/-- An object has ONE type: two object values holding the same identities have the same type name. -/
def Coherent (v w : Val) : Prop :=
  ∀ t s p t' s' p', v = .object t s p → w = .object t' s' p' → p = p' → t = t'

/-- A call site of one `@onnx_function`: the callee (identity), the operand signature, the keywords. -/
structure Site where
  callee : Nat
  inSigs : List (List Nat × Nat)
  kws : List (Nat × Val)
  deriving DecidableEq, Repr

structure FKey where
  callee : Nat
  inSigs : List (List Nat × Nat)
  captures : List (Nat × Key)
  deriving DecidableEq, Repr

def captureItems (key : Val → Key) (kws : List (Nat × Val)) : List (Nat × Key) :=
  kws.map (fun nv => (nv.1, key nv.2))

def fnKeyWith (key : Val → Key) (s : Site) : FKey := ⟨s.callee, s.inSigs, captureItems key s.kws⟩
def fnKey : Site → FKey := fnKeyWith captureKey
def fnKeyTN : Site → FKey := fnKeyWith captureKeyTN

/-- The function registry: the body used for site `s` is the one traced for the FIRST site (in lowering order)
    with the same key. -/
def bodyFor {σ κ : Type} [DecidableEq κ] (key : σ → κ) : List σ → σ → Option σ
  | [], _ => none
  | t :: ts, s => if key t = key s then some t else bodyFor key ts s

/-- Number of distinct bodies a list of call sites uses. -/
def bodies {σ κ : Type} [DecidableEq κ] (key : σ → κ) (sites : List σ) : List κ :=
  (sites.map key).eraseDups

end J2O.C19.Key
