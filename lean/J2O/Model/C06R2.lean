/-
C06, round 2 — executable model (core Lean only), on top of `J2O.Model.C06`.

* TENSOR level of the vmapped while: the carried value of every lane is a tensor of arbitrary rank `r`
  (`Lane α r`, indexed by multi-indices of length `r`); the per-lane freeze is an ONNX `Where` whose
  mask is the `(B,)` predicate `Unsqueeze`d with some `axes` and then BROADCAST (right-aligned, numpy
  rules: `bproj`) against the `(B, d₁ … d_r)` state.  `maskAxes` / `maskShape` = what the plugin must emit.
* scan with an explicit trip count `M` (`scanSchemeM`) and scan without scanned inputs (`scanNoXsScheme`).
* body identity: an export that memoises traced loop bodies under a key (`exportMemo`).
-/
import J2O.Model.C06
namespace J2O.C06

universe u v w

/-! ### broadcasting a mask against a tensor of higher rank -/

/-- index into a mask of shape `ms` that numpy/ONNX broadcasting reads for the tensor index `idx`:
    right-aligned; a mask dimension of extent 1 reads position 0. -/
def bproj (ms idx : List Nat) : List Nat :=
  List.zipWith (fun m i => if m = 1 then 0 else i) ms (idx.drop (idx.length - ms.length))

/-- `Unsqueeze` with ONE axis (position in the result) -/
def unsq1 (shape : List Nat) (ax : Nat) : List Nat := shape.take ax ++ 1 :: shape.drop ax

/-- shape of `Unsqueeze(x, axes)` for ascending `axes` (positions in the result) -/
def unsqueezeShape (shape axes : List Nat) : List Nat := axes.foldl unsq1 shape

/-- index into `x` that `Unsqueeze(x, axes)[idx]` reads: the positions listed in `axes` are dropped -/
def dropAxes (axes : List Nat) : Nat → List Nat → List Nat
  | _, [] => []
  | pos, i :: is => if axes.contains pos then dropAxes axes (pos + 1) is else i :: dropAxes axes (pos + 1) is

/-- the axes the while plugin must unsqueeze: one singleton per trailing state dimension,
    `range(predRank, stateRank)` -/
def maskAxes (predRank stateRank : Nat) : List Nat :=
  (List.range (stateRank - predRank)).map (· + predRank)

/-- … i.e. the mask has the predicate's shape followed by ones up to the state's rank -/
def maskShape (predShape : List Nat) (stateRank : Nat) : List Nat :=
  predShape ++ List.replicate (stateRank - predShape.length) 1

/-- a lane's carried value: a tensor of rank `r` (its extents do not matter for the freeze) -/
abbrev Lane (α : Type u) (r : Nat) := {ri : List Nat // ri.length = r} → α

/-- the predicate tensor `(B,)` unsqueezed with `axes`, as a function of the mask index -/
def maskOf (preds : List Bool) (axes : List Nat) (mi : List Nat) : Bool :=
  match dropAxes axes 0 mi with
  | [j] => preds.getD j false
  | _ => false

/-- ONNX `Where(mask, cand, prev)` on a `(B, d₁ … d_r)` state given lane by lane; the mask of shape `ms`
    is broadcast against the full index `j :: ri`. -/
def whereLanesGo {α : Type u} {r : Nat} (ms : List Nat) (mask : List Nat → Bool) :
    Nat → List (Lane α r) → List (Lane α r) → List (Lane α r)
  | _, [], _ => []
  | _, _ :: _, [] => []
  | j, cl :: cs, pl :: ps =>
    (fun ri => if mask (bproj ms (j :: ri.val)) then cl ri else pl ri) :: whereLanesGo ms mask (j + 1) cs ps

/-- the vmapped while at tensor level, as `_build_loop_body_graph` emits it: candidates = body on every
    lane, mask = `Unsqueeze(pred, axes)`, new state = `Where(mask, candidates, previous)`, per-lane
    predicate on the NEW state, `any` reduction. -/
def whileBatchedTensorScheme {α : Type u} {r : Nat} (M : Nat) (axes : List Nat)
    (c : Lane α r → Bool) (b : Lane α r → Lane α r) (s0 : List (Lane α r)) : List (Lane α r) :=
  (loopO M ((s0.map c).any id)
    (fun _ _ (st : List Bool × List (Lane α r)) =>
      let cand := st.2.map b
      let new := whereLanesGo (unsqueezeShape [st.1.length] axes) (maskOf st.1 axes) 0 cand st.2
      let pred := new.map c
      (pred.any id, (pred, new), ()))
    (s0.map c, s0)).1.2

/-! ### scan with an explicit trip count; scan without scanned inputs -/

/-- the Loop of the scan scheme run with trip count `M` (whatever the plugin passes as `M`) -/
def scanSchemeM {κ : Type u} {χ : Type v} {υ : Type w} [Inhabited χ] (M : Nat) (f : κ → χ → κ × υ) (c0 : κ)
    (xs : List χ) : κ × List υ :=
  let r := loopO M true
    (fun i cin (st : κ × List χ) =>
      let o := f st.1 (st.2.getD i default)
      (cin, (o.1, st.2), o.2))
    (c0, xs)
  (r.1.1, r.2)

/-- scan without xs ↦ `Loop(M = length, cond = true)`, only the carry is carried -/
def scanNoXsScheme {κ : Type u} {υ : Type w} (n : Nat) (f : κ → κ × υ) (c0 : κ) : κ × List υ :=
  loopO n true (fun _ cin c => let o := f c; (cin, o.1, o.2)) c0

/-! ### body identity: memoised tracing of loop bodies -/

def memoLookup {K : Type u} {B : Type v} [DecidableEq K] (k : K) : List (K × B) → Option B
  | [] => none
  | (k', b) :: rest => if k = k' then some b else memoLookup k rest

/-- one body per loop, in order: a loop whose key is in the memo re-uses the stored body, otherwise its
    body is traced (`trace e` = the body function of closure/environment `e`) and stored.  The memo may be
    non-empty on entry (it outlives one export). -/
def exportMemo {E : Type u} {K : Type v} {B : Type w} [DecidableEq K] (key : E → K) (trace : E → B) :
    List (K × B) → List E → List B
  | _, [] => []
  | cache, e :: es =>
    match memoLookup (key e) cache with
    | some b => b :: exportMemo key trace cache es
    | none => trace e :: exportMemo key trace ((key e, trace e) :: cache) es

/-- what the plugins do today: no memo at all, every loop traces its own body -/
def exportBodies {E : Type u} {B : Type w} (trace : E → B) (es : List E) : List B := es.map trace

end J2O.C06
