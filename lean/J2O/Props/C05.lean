/-
C05 — property theorems about the interface model (all universally quantified).

* `dtype_class_preserved`, `float_width_follows_flag`, `requested_width_kept`   — dtype policy
* `reconcile_class_preserved`, `int_kept_or_int64`, `reconcile_faithful`,
  `reconcile_float_keeps_bound_width`                                          — output reconciliation
* `prune_keeps_positional` (full strength), `prune_keeps_each`, `prune_length`, `prune_order`;
  `oldRule_dropped_unused_nchw_input` is a labelled example about the rule before dfda5c9   — input pruning
* `materialize_prefix`                                                         — input_params only append
* `rename_exact`, `rename_injective` (= `rename_exact_and_injective`), `rename_keeps_ids` — custom names
* `run_outs`, `run_outs_length`, `iface_step`, `iface_preserved` — the optimizer's rewiring history keeps count,
  order and (under the per-step guard) every declaration of the graph outputs
* `rename_exact_and_injective_after_history` — custom names after ANY rewiring history
-/
import J2O.Model.C05
set_option linter.unusedSimpArgs false
set_option linter.unusedVariables false

namespace J2O.C05

/-! ### dtype policy -/

/-- The declared type is always in the class of the JAX type. -/
theorem dtype_class_preserved (s : Nat) (double : Bool) : classOf (policy s double) = classOf s := by
  unfold policy
  split
  · rename_i h; subst h; cases double <;> rfl
  · rfl

/-- float32 follows the precision flag … -/
theorem float_width_follows_flag (double : Bool) : policy 1 double = if double then 11 else 1 := by
  cases double <;> rfl

/-- … every other width (float16, bfloat16, float64 requested by the callable; all integer,
    boolean and complex types) is kept exactly. -/
theorem requested_width_kept (s : Nat) (double : Bool) (h : s ≠ 1) : policy s double = s := by
  simp [policy, h]

example : policy 10 true = 10 ∧ policy 11 false = 11 ∧ policy 1 true = 11 ∧ policy 6 true = 6 := by decide

/-! ### output reconciliation -/

theorem classOf_complexBase (j : Nat) (h : classOf j = .complex) : classOf (complexBase j) = .float := by
  unfold classOf at h
  split at h <;> first | (exact absurd h (by decide)) | rfl

/-- The declared output type is in the class of the JAX result (a complex result is declared as
    a float: the trailing pair of reals), whatever type the lowering bound. -/
theorem reconcile_class_preserved (j cur : Nat) (double : Bool) :
    classOf (reconcile j cur double).1 =
      (if classOf j = .complex then .float else classOf j) := by
  unfold reconcile
  by_cases hc : classOf j = .complex
  · simp only [hc, beq_self_eq_true, if_true]
    rw [dtype_class_preserved]; exact classOf_complexBase j hc
  · have hb : (classOf j == DClass.complex) = false := by simpa using hc
    simp only [hb, hc, if_false, Bool.false_eq_true]
    have hp := dtype_class_preserved j double
    split
    · rename_i h; rw [← h]; exact hp
    · split
      · rename_i h
        simp only [isFloat, Bool.and_eq_true, beq_iff_eq] at h
        rw [h.2, ← hp, h.1]
      · split
        · rename_i h
          simp only [isInt, Bool.and_eq_true, beq_iff_eq] at h
          rw [← hp, h.1]; rfl
        · exact hp

/-- Integers keep the JAX type or widen to int64. -/
theorem int_kept_or_int64 (j cur : Nat) (double : Bool) (h : classOf j = .int) :
    (reconcile j cur double).1 = j ∨ (reconcile j cur double).1 = 7 := by
  have hj1 : j ≠ 1 := by intro e; subst e; exact absurd h (by decide)
  have hp : policy j double = j := requested_width_kept j double hj1
  have hb : (classOf j == DClass.complex) = false := by rw [h]; rfl
  unfold reconcile
  simp only [hb, Bool.false_eq_true, if_false, hp]
  split
  · rename_i e; left; exact e.symm
  · split
    · rename_i hf
      simp only [isFloat, h, Bool.and_eq_true, beq_iff_eq] at hf
      exact absurd hf.1 (by decide)
    · split
      · right; rfl
      · left; rfl

/-- When the lowering bound the value with the policy type of its JAX dtype, that type is
    declared and no Cast is inserted. -/
theorem reconcile_faithful (j : Nat) (double : Bool) (h : classOf j ≠ .complex) :
    reconcile j (policy j double) double = (policy j double, false) := by
  have hb : (classOf j == DClass.complex) = false := by simpa using h
  simp [reconcile, hb]

/-- The float width of an output is whatever width the lowering bound (the precision flag is
    honoured by the lowerings, C09; an explicit `astype(float32)` under the double flag stays
    FLOAT): between two float types no Cast is inserted. -/
theorem reconcile_float_keeps_bound_width (j cur : Nat) (double : Bool)
    (hj : classOf j = .float) (hc : classOf cur = .float) :
    reconcile j cur double = (cur, false) := by
  have hb : (classOf j == DClass.complex) = false := by rw [hj]; rfl
  have hp : classOf (policy j double) = .float := by rw [dtype_class_preserved]; exact hj
  unfold reconcile
  simp only [hb, Bool.false_eq_true, if_false]
  split
  · rfl
  · simp [isFloat, hp, hc]

example : reconcile 6 7 false = (7, false) ∧ reconcile 6 3 false = (6, true) ∧
    reconcile 9 1 true = (9, true) ∧ reconcile 14 1 true = (11, false) ∧
    reconcile 1 1 true = (1, false) := by decide

/-! ### pruning of unused graph inputs -/

theorem mem_bindInputsFrom (args : List (Bool × Bool)) :
    ∀ (start i : Nat) (nchw used : Bool), args[i]? = some (nchw, used) →
      (⟨.pos (start + i) nchw, used⟩ : GInput) ∈ bindInputsFrom start args := by
  induction args with
  | nil => intro start i nchw used h; simp at h
  | cons a rest ih =>
    intro start i nchw used h
    obtain ⟨an, au⟩ := a
    cases i with
    | zero =>
      simp only [List.getElem?_cons_zero, Option.some.injEq, Prod.mk.injEq] at h
      obtain ⟨rfl, rfl⟩ := h
      simp [bindInputsFrom]
    | succ i =>
      simp only [List.getElem?_cons_succ] at h
      have := ih (start + 1) i nchw used h
      simp only [bindInputsFrom, List.mem_cons]
      right
      have e : start + 1 + i = start + (i + 1) := by omega
      rw [e] at this; exact this

/-- **Positional inputs are never dropped or reordered**, used or not, NCHW-flagged or not: for
    ALL argument lists pruning leaves the bound inputs exactly as they are.  (Full-strength
    statement; holds for the code since /repo dfda5c9.) -/
theorem prune_keeps_positional (args : List (Bool × Bool)) :
    prune (bindInputs args) = bindInputs args := by
  have key : ∀ start, pruneWith alwaysKeep (bindInputsFrom start args) = bindInputsFrom start args := by
    induction args with
    | nil => intro start; rfl
    | cons a rest ih =>
      intro start
      obtain ⟨n, u⟩ := a
      simp only [bindInputsFrom, pruneWith, List.filter_cons, alwaysKeep, Bool.true_or, if_true]
      congr 1
      exact ih (start + 1)
  exact key 0

/-- Element-wise reading: argument `i` keeps its graph input `in_i` / `in_i_nchw`. -/
theorem prune_keeps_each (args : List (Bool × Bool)) (i : Nat) (nchw used : Bool)
    (h : args[i]? = some (nchw, used)) :
    (⟨.pos i nchw, used⟩ : GInput) ∈ prune (bindInputs args) := by
  rw [prune_keeps_positional]
  have hm := mem_bindInputsFrom args 0 i nchw used h
  simpa [bindInputs] using hm

theorem prune_length (args : List (Bool × Bool)) : (prune (bindInputs args)).length = args.length := by
  rw [prune_keeps_positional]
  have key : ∀ start, (bindInputsFrom start args).length = args.length := by
    induction args with
    | nil => intro _; rfl
    | cons a rest ih => intro start; obtain ⟨n, u⟩ := a; simp [bindInputsFrom, ih (start + 1)]
  exact key 0

/-- Pruning never reorders: the result is a sub-list of the bound inputs (any keep rule). -/
theorem prune_order (keep : Name → Bool) (ins : List GInput) : (pruneWith keep ins).Sublist ins :=
  List.filter_sublist

/-- **Labelled example about the OLD rule (before dfda5c9), not about the code as it is.**  With
    `alwaysKeepOld` the statement above was false: the replayed defect
    `to_onnx(lambda x, y: y*2, [(1,4,4,3),(2,)], inputs_as_nchw=[0])` dropped input 0. -/
theorem oldRule_dropped_unused_nchw_input :
    ¬ ∀ args : List (Bool × Bool), (pruneOld (bindInputs args)).length = args.length := by
  intro h
  have := h [(true, false), (false, true)]
  revert this
  decide

example : pruneOld (bindInputs [(true, false), (false, true)]) = [⟨.pos 1 false, true⟩] := by decide
example : prune (bindInputs [(true, false), (false, true)]) =
    [⟨.pos 0 true, false⟩, ⟨.pos 1 false, true⟩] := by decide
example : (prune (bindInputs [(false, false), (true, true), (false, true)])).length = 3 := by decide

/-! ### runtime parameters -/

/-- Materialising `input_params` only appends: the positional inputs stay where they are. -/
theorem materialize_prefix (inputs inits referenced params : List String) :
    inputs <+: materialize inputs inits referenced params := by
  unfold materialize
  induction params generalizing inputs with
  | nil => exact List.prefix_refl _
  | cons p ps ih =>
    simp only [List.foldl_cons]
    split
    · exact ih inputs
    · exact List.IsPrefix.trans (List.prefix_append _ _) (ih (inputs ++ [p]))

example : materialize ["in_0"] ["w"] ["det", "w", "q"] ["det", "w", "zz", "q"] = ["in_0", "det", "q"] := by
  decide

/-! ### custom names -/

theorem lookup_dedup_of_mem (pairs : List (Nat × String)) :
    conflictFree pairs = true → ∀ id t, (id, t) ∈ pairs → lookupTarget (dedupPairs pairs) id = some t := by
  induction pairs with
  | nil => intro _ id t h; simp at h
  | cons p rest ih =>
    intro hcf id t hmem
    obtain ⟨pid, pt⟩ := p
    simp only [conflictFree, Bool.and_eq_true, List.all_eq_true] at hcf
    by_cases hid : pid = id
    · subst hid
      have : pt = t := by
        rcases List.mem_cons.mp hmem with e | e
        · exact (Prod.mk.inj e).2.symm
        · have := hcf.1 (pid, t) e
          have h2 : t = pt := by simpa using this
          exact h2.symm
      subst this
      simp [lookupTarget, dedupPairs]
    · have hin : (id, t) ∈ rest := by
        rcases List.mem_cons.mp hmem with e | e
        · exact absurd (Prod.mk.inj e).1.symm hid
        · exact e
      have ihh := ih hcf.2 id t hin
      simp only [lookupTarget, dedupPairs, List.find?_cons]
      have hne : ((pid, pt).1 == id) = false := by simpa using hid
      simp only [hne]
      simp only [lookupTarget] at ihh
      -- filtering out the pairs with id `pid ≠ id` does not change the lookup of `id`
      have hf : ∀ l : List (Nat × String),
          (l.filter (fun q => q.1 != pid)).find? (fun p => p.1 == id) = l.find? (fun p => p.1 == id) := by
        intro l
        induction l with
        | nil => rfl
        | cons q qs ihq =>
          by_cases hq : q.1 = pid
          · have h1 : (q.1 != pid) = false := by simp [hq]
            have h2 : (q.1 == id) = false := by rw [hq]; simpa using hid
            simp only [List.filter_cons, h1, List.find?_cons, h2, Bool.false_eq_true, if_false]
            exact ihq
          · have h1 : (q.1 != pid) = true := by simp [hq]
            by_cases hqi : q.1 = id
            · have h2 : (q.1 == id) = true := by simp [hqi]
              simp only [List.filter_cons, h1, List.find?_cons, h2, if_true]
            · have h2 : (q.1 == id) = false := by simp [hqi]
              simp only [List.filter_cons, h1, List.find?_cons, h2, if_true]
              exact ihq
      rw [hf]; exact ihh

/-- **Names are applied exactly.** If renaming succeeds, every value named in a request carries
    exactly the requested name afterwards. -/
theorem rename_exact (vals vals' : List Val) (pairs : List (Nat × String))
    (h : rename vals pairs = .ok vals') :
    ∀ id t, (id, t) ∈ pairs → ∀ v' ∈ vals', v'.id = id → v'.name = t := by
  intro id t hmem v' hv' hid
  unfold rename at h
  split at h
  · exact absurd h (by simp)
  · rename_i hcf
    simp only at h
    split at h
    · exact absurd h (by simp)
    · split at h
      · exact absurd h (by simp)
      · simp only [Except.ok.injEq] at h
        subst h
        obtain ⟨v, _, rfl⟩ := List.mem_map.mp hv'
        have hl := lookup_dedup_of_mem pairs (by simpa using hcf) id t hmem
        by_cases e : v.id = id
        · rw [e, hl]
        · -- v' has id `id`, and renaming keeps ids
          cases hv : lookupTarget (dedupPairs pairs) v.id <;> simp [hv] at hid <;> exact absurd hid e

/-- Renaming never changes which values exist, nor their identities or order. -/
theorem rename_keeps_ids (vals vals' : List Val) (pairs : List (Nat × String))
    (h : rename vals pairs = .ok vals') : vals'.map (·.id) = vals.map (·.id) := by
  unfold rename at h
  split at h
  · exact absurd h (by simp)
  · simp only at h
    split at h
    · exact absurd h (by simp)
    · split at h
      · exact absurd h (by simp)
      · simp only [Except.ok.injEq] at h
        subst h
        simp only [List.map_map]
        apply List.map_congr_left
        intro v _
        simp only [Function.comp]
        cases lookupTarget (dedupPairs pairs) v.id <;> rfl

theorem mem_dedup_of_lookup (l : List (Nat × String)) (id : Nat) (t : String)
    (h : lookupTarget l id = some t) : (id, t) ∈ l := by
  simp only [lookupTarget, Option.map_eq_some_iff] at h
  obtain ⟨p, hp, rfl⟩ := h
  have h1 := List.mem_of_find?_eq_some hp
  have h2 := List.find?_some hp
  simp only [beq_iff_eq] at h2
  rw [← h2]; exact h1

theorem dedup_ids_unique (pairs : List (Nat × String)) :
    ((dedupPairs pairs).map (·.1)).Nodup := by
  induction pairs with
  | nil => simp [dedupPairs]
  | cons p rest ih =>
    simp only [dedupPairs, List.map_cons, List.nodup_cons]
    refine ⟨?_, ?_⟩
    · intro hm
      obtain ⟨q, hq, e⟩ := List.mem_map.mp hm
      simp only [List.mem_filter, bne_iff_ne, ne_eq] at hq
      exact hq.2 e
    · exact List.Nodup.sublist (List.Sublist.map _ List.filter_sublist) ih

theorem distinctStr_nodup (l : List String) (h : distinctStr l = true) : l.Nodup := by
  induction l with
  | nil => exact List.nodup_nil
  | cons x xs ih =>
    simp only [distinctStr, Bool.and_eq_true, Bool.not_eq_true', List.contains_eq_mem,
      decide_eq_false_iff_not] at h
    exact List.nodup_cons.mpr ⟨h.1, ih h.2⟩

theorem eq_of_nodup_map' {γ β : Type} (f : γ → β) :
    ∀ (l : List γ), (l.map f).Nodup → ∀ a ∈ l, ∀ b ∈ l, f a = f b → a = b := by
  intro l
  induction l with
  | nil => intro _ a ha; simp at ha
  | cons x xs ih =>
    intro h a ha b hb hab
    simp only [List.map_cons, List.nodup_cons, List.mem_map, not_exists, not_and] at h
    rcases List.mem_cons.mp ha with rfl | ha' <;> rcases List.mem_cons.mp hb with rfl | hb'
    · rfl
    · exact absurd hab.symm (h.1 b hb')
    · exact absurd hab (h.1 a ha')
    · exact ih h.2 a ha' b hb' hab

/-- **Names never collide.** If the top-graph values had distinct identities and distinct names
    and renaming succeeds, all top-graph names are distinct afterwards; otherwise `rename`
    returns an error (it is a total function into `Except`) — never a silent collision. -/
theorem rename_injective (vals vals' : List Val) (pairs : List (Nat × String))
    (hid : (vals.map (·.id)).Nodup) (hnm : (vals.map (·.name)).Nodup)
    (h : rename vals pairs = .ok vals') : (vals'.map (·.name)).Nodup := by
  unfold rename at h
  split at h
  · exact absurd h (by simp)
  · simp only at h
    split at h
    · exact absurd h (by simp)
    · rename_i hdist
      split at h
      · exact absurd h (by simp)
      · rename_i hcoll
        simp only [Except.ok.injEq] at h
        subst h
        have hdistN : ((dedupPairs pairs).map (·.2)).Nodup :=
          distinctStr_nodup _ (by simpa using hdist)
        have hcoll' : ∀ t ∈ (dedupPairs pairs).map (·.2), ∀ v ∈ vals,
            lookupTarget (dedupPairs pairs) v.id = none → v.name ≠ t := by
          intro t ht v hv hnone e
          apply hcoll
          simp only [List.any_eq_true, List.contains_eq_mem, decide_eq_true_eq]
          refine ⟨t, ht, List.mem_map.mpr ⟨v, List.mem_filter.mpr ⟨hv, by simp [hnone]⟩, e⟩⟩
        -- pairwise argument on `vals`
        have hpw : vals.Pairwise (fun a b => a.id ≠ b.id ∧ a.name ≠ b.name) := by
          have h1 := List.pairwise_map.mp hid
          have h2 := List.pairwise_map.mp hnm
          exact List.Pairwise.and h1 h2 |>.imp (fun h => h)
        simp only [List.map_map]
        apply List.pairwise_map.mpr
        refine List.Pairwise.imp_of_mem ?_ hpw
        intro a b ha hb hab
        obtain ⟨hidab, hnmab⟩ := hab
        simp only [Function.comp]
        cases hla : lookupTarget (dedupPairs pairs) a.id with
        | none =>
          cases hlb : lookupTarget (dedupPairs pairs) b.id with
          | none => simpa using hnmab
          | some tb =>
            have := hcoll' tb (List.mem_map.mpr ⟨(b.id, tb), mem_dedup_of_lookup _ _ _ hlb, rfl⟩) a ha hla
            simpa using this
        | some ta =>
          cases hlb : lookupTarget (dedupPairs pairs) b.id with
          | none =>
            have := hcoll' ta (List.mem_map.mpr ⟨(a.id, ta), mem_dedup_of_lookup _ _ _ hla, rfl⟩) b hb hlb
            simpa using fun e => this e.symm
          | some tb =>
            simp only
            intro e
            have ma := mem_dedup_of_lookup _ _ _ hla
            have mb := mem_dedup_of_lookup _ _ _ hlb
            have := eq_of_nodup_map' (·.2) (dedupPairs pairs) hdistN _ ma _ mb e
            exact hidab (Prod.mk.inj this).1

/-- The statement of the property for custom names, in one piece. -/
theorem rename_exact_and_injective (vals vals' : List Val) (pairs : List (Nat × String))
    (hid : (vals.map (·.id)).Nodup) (hnm : (vals.map (·.name)).Nodup)
    (h : rename vals pairs = .ok vals') :
    (∀ id t, (id, t) ∈ pairs → ∀ v' ∈ vals', v'.id = id → v'.name = t) ∧
    (vals'.map (·.name)).Nodup ∧ vals'.map (·.id) = vals.map (·.id) :=
  ⟨rename_exact vals vals' pairs h, rename_injective vals vals' pairs hid hnm h,
   rename_keeps_ids vals vals' pairs h⟩

-- non-vacuity: a successful renaming, and the three refusals
def errOf (r : Except String (List Val)) : String := match r with | .error e => e | .ok _ => ""
example : (rename [⟨0, "in_0"⟩, ⟨1, "t"⟩, ⟨2, "out"⟩] [(0, "x"), (2, "y")]).toOption =
    some [⟨0, "x"⟩, ⟨1, "t"⟩, ⟨2, "y"⟩] := by decide
example : errOf (rename [⟨0, "in_0"⟩, ⟨2, "out"⟩] [(0, "x"), (0, "y")]) =
    "conflicting custom names for one value" := by decide
example : errOf (rename [⟨0, "in_0"⟩, ⟨2, "out"⟩] [(0, "x"), (2, "x")]) =
    "custom names must be globally unique" := by decide
example : errOf (rename [⟨0, "in_0"⟩, ⟨1, "t"⟩, ⟨2, "out"⟩] [(0, "t")]) =
    "custom names collide with existing names" := by decide

/-! ### the optimizer's rewiring history -/

/-- Where the value that was graph output `v` ends up after a history: the composite of the
    output-replacing substitutions, in order. -/
def chase : List Step → Nat → Nat
  | [], v => v
  | .rauw old new true :: rest, v => chase rest (substOut old new v)
  | .rauw _ _ false :: rest, v => chase rest v
  | .setDecl _ _ :: rest, v => chase rest v
  | .remove _ :: rest, v => chase rest v

theorem applyStep_outs (s : GState) (st : Step) :
    (applyStep s st).outs = s.outs.map (chase [st]) := by
  cases st with
  | rauw old new o => cases o <;> simp [applyStep, chase]
  | setDecl v d => simp [applyStep, chase]
  | remove vs => simp [applyStep, chase]

theorem chase_cons (st : Step) (rest : List Step) (v : Nat) :
    chase (st :: rest) v = chase rest (chase [st] v) := by
  cases st with
  | rauw old new o => cases o <;> simp [chase]
  | setDecl v d => simp [chase]
  | remove vs => simp [chase]

/-- **Order and count of the outputs survive every history**: after an arbitrary sequence of
    `replace_all_uses_with(…, replace_graph_outputs=True)`, re-declarations and node removals,
    output position `j` holds the image of the original `j`-th output — nothing is dropped,
    duplicated into a new position, or reordered. -/
theorem run_outs (h : List Step) : ∀ s : GState, (run s h).outs = s.outs.map (chase h) := by
  induction h with
  | nil => intro s; simp [run, chase]
  | cons st rest ih =>
    intro s
    have := ih (applyStep s st)
    simp only [run, List.foldl_cons] at this ⊢
    rw [this, applyStep_outs, List.map_map]
    apply List.map_congr_left
    intro v _
    simp [Function.comp, chase_cons st rest v]

theorem run_outs_length (s : GState) (h : List Step) : (run s h).outs.length = s.outs.length := by
  rw [run_outs]; simp

/-- One guarded step leaves the declared interface as it is. -/
theorem iface_step (s : GState) (st : Step) (hok : stepOk s st = true) :
    iface (applyStep s st) = iface s := by
  cases st with
  | rauw old new o =>
    cases o with
    | false => rfl
    | true =>
      simp only [stepOk, Bool.or_eq_true, Bool.not_eq_true', beq_iff_eq] at hok
      simp only [iface, applyStep, List.map_map]
      apply List.map_congr_left
      intro v hv
      simp only [Function.comp, substOut]
      split
      · rename_i e
        subst e
        rcases hok with h1 | h2
        · have : s.outs.contains v = true := by simpa using hv
          rw [this] at h1; exact absurd h1 (by simp)
        · exact h2
      · rfl
  | setDecl w d =>
    simp only [stepOk, Bool.or_eq_true, Bool.not_eq_true', beq_iff_eq] at hok
    simp only [iface, applyStep]
    apply List.map_congr_left
    intro v hv
    split
    · rename_i e
      subst e
      rcases hok with h1 | h2
      · have : s.outs.contains v = true := by simpa using hv
        rw [this] at h1; exact absurd h1 (by simp)
      · exact h2.symm
    · rfl
  | remove vs => rfl

/-- **The declared interface is invariant under every guarded history** (any length, any mix of
    steps): if each step passes `stepOk` in the state it is applied to, the list of declarations
    of the graph outputs after the optimizer is, position by position, the list before it. -/
theorem iface_preserved (h : List Step) : ∀ (s s' : GState), runChecked s h = some s' →
    iface s' = iface s ∧ s'.outs = s.outs.map (chase h) := by
  induction h with
  | nil =>
    intro s s' hr
    simp only [runChecked, Option.some.injEq] at hr
    subst hr; simp [chase]
  | cons st rest ih =>
    intro s s' hr
    simp only [runChecked] at hr
    split at hr
    · rename_i hok
      obtain ⟨h1, h2⟩ := ih _ _ hr
      refine ⟨h1.trans (iface_step s st hok), ?_⟩
      rw [h2, applyStep_outs, List.map_map]
      apply List.map_congr_left
      intro v _
      simp [Function.comp, chase_cons st rest v]
    · exact absurd hr (by simp)


example : chase [Step.rauw 10 7 true, Step.setDecl 7 ⟨2, []⟩, Step.rauw 7 5 true] 10 = 5 ∧
    (run ⟨[10, 11, 10], fun _ => none⟩ [Step.rauw 10 7 true, Step.rauw 7 5 true]).outs = [5, 11, 5] := by decide

/-- **Custom output names after an arbitrary rewiring history.**  Whatever the optimizer rewired,
    when `_apply_custom_io_names_on_ir` is then asked for `names` on the (current) outputs —
    together with any requests `inPairs` for inputs — and succeeds, then for EVERY output position
    `j` the value now at that position (the image of the original `j`-th output) carries exactly
    `names[j]`, all top-graph names are distinct and no value appeared or vanished. -/
theorem rename_exact_and_injective_after_history (s : GState) (h : List Step)
    (vals vals' : List Val) (names : List String) (inPairs : List (Nat × String))
    (hlen : names.length = s.outs.length)
    (hid : (vals.map (·.id)).Nodup) (hnm : (vals.map (·.name)).Nodup)
    (hr : rename vals (inPairs ++ (run s h).outs.zip names) = .ok vals') :
    (∀ j (hj : j < s.outs.length) (hj' : j < names.length), ∀ v' ∈ vals',
        v'.id = chase h (s.outs[j]) → v'.name = names[j]) ∧
    (vals'.map (·.name)).Nodup ∧ vals'.map (·.id) = vals.map (·.id) ∧
    (run s h).outs.length = names.length := by
  obtain ⟨hex, hinj, hids⟩ := rename_exact_and_injective vals vals' _ hid hnm hr
  refine ⟨?_, hinj, hids, ?_⟩
  · intro j hj hj' v' hv' hv
    apply hex (chase h (s.outs[j])) (names[j]) ?_ v' hv' hv
    apply List.mem_append_right
    rw [run_outs]
    have hz : j < ((s.outs.map (chase h)).zip names).length := by simp; omega
    have : ((s.outs.map (chase h)).zip names)[j] = (chase h (s.outs[j]), names[j]) := by
      simp [List.getElem_zip]
    rw [← this]
    exact List.getElem_mem hz
  · rw [run_outs]; simp [hlen]

-- non-vacuity: a transpose-pair fold (output 10 replaced by the refreshed chain end 7), a second
-- output untouched, then both outputs named
example :
    let s : GState := ⟨[10, 11], declOfList [(10, ⟨2, ["B", "3", "4", "5"]⟩), (11, ⟨2, ["3"]⟩),
                                            (7, ⟨2, ["B", "4", "5", "3"]⟩)]⟩
    let h := [Step.setDecl 7 ⟨2, ["B", "3", "4", "5"]⟩, Step.rauw 10 7 true, Step.remove [10]]
    (runChecked s h).isSome = true ∧ (run s h).outs = [7, 11] ∧
      iface (run s h) = iface s ∧
      (rename [⟨0, "in_0"⟩, ⟨7, "abs_out"⟩, ⟨11, "sum_out"⟩] ([(0, "x")] ++ (run s h).outs.zip ["a", "b"])).toOption =
        some [⟨0, "x"⟩, ⟨7, "a"⟩, ⟨11, "b"⟩] := by decide

/-- The guard is what fails when a fold forgets to refresh the chain: the seeded change C05-3 in
    miniature (the replacing value still carries the transposed dims). -/
example :
    let s : GState := ⟨[10], declOfList [(10, ⟨2, ["B", "3", "4", "5"]⟩), (7, ⟨2, ["B", "4", "5", "3"]⟩)]⟩
    (runChecked s [Step.rauw 10 7 true]).isNone = true ∧
      iface (run s [Step.rauw 10 7 true]) ≠ iface s := by decide


/-- **Refuted full-strength statement (witness observed on the unchanged /repo, known finding
    F-C05-int-minmax-min).**  Without the guard the invariance is false: in
    `to_onnx(lambda x: jnp.minimum(x, 0.2), [ShapeDtypeStruct((3,), int32)])` the output is bound
    FLOAT `[3]` (class of the JAX result) and the stage `propagate_elementwise_shapes` re-declares
    that graph output INT32 — the step `setDecl 0 ⟨int, ["3"]⟩` on an output, which `stepOk`
    rejects.  `iface_preserved` is the partial statement (guarded histories). -/
theorem iface_preserved_needs_guard :
    ¬ ∀ (s : GState) (st : Step), iface (applyStep s st) = iface s := by
  intro h
  have := h ⟨[0], declOfList [(0, ⟨2, ["3"]⟩)]⟩ (.setDecl 0 ⟨1, ["3"]⟩)
  revert this
  decide

example : stepOk ⟨[0], declOfList [(0, ⟨2, ["3"]⟩)]⟩ (.setDecl 0 ⟨1, ["3"]⟩) = false := by decide

end J2O.C05
