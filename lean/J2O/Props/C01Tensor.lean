/-
C01 (round 2) — property theorems about the tensor-level operator models: semantic facts, for lists
of EVERY length, that the regenerated dataflow recipes are checked against in
`GenProps/C01Tensor.lean` / `GenProps/C01Index.lean`.

  * `onnxRange_eq_iota`            Range(0, n, 1) = iota n
  * `onnxGather_reversed_eq_rev`   Gather(x, n-1-iota) = lax.rev x
  * `onnxPad_eq_jaxPad`            ONNX Pad (constant mode) with pads of either sign = lax.pad, whenever the
                                   crops fit;  `onnxPad_overcrop_refuted`: without that hypothesis it is false
  * `onnxReduceMax/Min_eq_jax`, `onnxReduceSum/Prod_eq_jax` (empty reduction = identity),
    `reduceMin_of_bits_eq_all`, `reduceSum_of_bits_eq_any`  (how /repo lowers `jnp.all` / `jnp.any`);
    `reduceMin_all_needs_bits` the 0/1 hypothesis is needed
  * `onnxTopK_eq_stableSort`       TopK's specification order (value, then lower index) = stable sort by
                                   value, ascending and descending, any k;  `topkValues_eq_sort`
  * `maxPool_prefix_eq_cummax`, `maxPool_suffix_eq_cummax_reverse`, `negMaxPoolNeg_eq_cummin`
                                   MaxPool over prefix / suffix windows = running extremum, every n ≥ 1
  * `slice_no_clamp_refuted`       Slice's own clamping is not dynamic_slice's clamping
-/
import J2O.Lemmas.C01Tensor
set_option linter.unusedSimpArgs false
set_option linter.unusedVariables false
set_option linter.unusedTactic false

namespace J2O.C01

theorem onnxRange_eq_iota (n : Nat) : Onnx.range 0 (n : Int) 1 = some (Jax.iota n) :=
  onnx_range_nat n

example : Onnx.range 0 4 1 = some [0, 1, 2, 3] ∧ Onnx.range 5 0 (-2) = some [5, 3, 1] ∧
    Onnx.range 2 13 2 = some (Jax.arange 2 13 2) := by decide +kernel

/-- /repo lowers `lax.rev` / `jnp.flip` to `Gather(x, (n-1) - Range(0, n, 1))`: that is the reversed
    list, for every length. -/
theorem onnxGather_reversed_eq_rev (l : List Int) :
    Onnx.gather1 l ((List.range l.length).map fun (i : Nat) => (l.length : Int) - 1 - (i : Int)) =
      some (Jax.rev l) := by
  rw [gather1_map l _ _ (by intro x hx; simp at hx; omega)]
  exact congrArg some (map_getD_rev l)

example : Onnx.gather1 [7, 8, 9] [2, 1, 0] = some [9, 8, 7] ∧ Onnx.gather1 [7, 8, 9] [-1] = some [9] ∧
    Onnx.gather1 [7, 8, 9] [3] = none := by decide +kernel

/-- ONNX `Pad` (constant mode; negative amounts crop) = `lax.pad` with zero interior padding, for every
    list, amounts of either sign and every fill value — provided the crops fit. -/
theorem onnxPad_eq_jaxPad (l : List Int) (lo hi v : Int)
    (hlo : -lo ≤ (l.length : Int)) (hhi : -hi ≤ (l.length : Int) + lo) :
    Onnx.pad1 l lo hi v = some (Jax.pad lo hi v l) :=
  pad1_eq_jaxPad l lo hi v hlo hhi

example : Onnx.pad1 [1, 2, 3, 4] (-2) 1 7 = some [3, 4, 7] ∧ Jax.pad (-2) 1 7 [1, 2, 3, 4] = [3, 4, 7] ∧
    Onnx.pad1 [1, 2, 3, 4] 1 (-3) 7 = some [7, 1] := by decide +kernel

/-- … without the hypothesis the statement is false (a front crop longer than the list). -/
theorem onnxPad_overcrop_refuted : Onnx.pad1 [1] (-2) 5 7 ≠ some (Jax.pad (-2) 5 7 [1]) := by
  decide +kernel

theorem onnxReduceMax_eq_jax (x : Int) (xs : List Int) (t : DT) :
    some (Onnx.reduceAll .max t (x :: xs)) = Jax.maxList (x :: xs) := by
  rw [maxList_eq_foldMax]; rfl

theorem onnxReduceMin_eq_jax (x : Int) (xs : List Int) (t : DT) :
    some (Onnx.reduceAll .min t (x :: xs)) = Jax.minList (x :: xs) := by
  rw [minList_eq_foldMin]; rfl

/-- sums and products, the empty reduction included (0 resp. 1 on both sides). -/
theorem onnxReduceSum_eq_jax (l : List Int) (t : DT) : Onnx.reduceAll .sum t l = Jax.sum l :=
  sumList_eq_jaxSum l
theorem onnxReduceProd_eq_jax (l : List Int) (t : DT) : Onnx.reduceAll .prod t l = Jax.prod l :=
  prodList_eq_jaxProd l

example : Onnx.reduceAll .sum .i32 [] = 0 ∧ Onnx.reduceAll .prod .i32 [] = 1 ∧
    Onnx.reduceAll .max .i32 [] = -2147483648 ∧ Onnx.reduceAll .max .i32 [3, -1, 4] = 4 := by decide +kernel

/-- `jnp.all` is lowered to `Cast → ReduceMin → Cast`: on 0/1 data the minimum is non-zero exactly when
    all elements are; for the EMPTY tensor the minimum is the identity (INT64_MAX ≠ 0) = `all([]) = True`. -/
theorem reduceMin_of_bits_eq_all (l : List Int) (h : Bits l) :
    (Onnx.reduceAll .min .i64 l ≠ 0) ↔ Jax.all l = true := by
  have := reduceMin_bits l h
  constructor
  · intro hz
    cases hb : Jax.all l
    · exact absurd (this.mpr hb) hz
    · rfl
  · intro ha hz
    rw [this.mp hz] at ha
    exact absurd ha (by simp)

/-- `jnp.any` is lowered to `Cast → ReduceSum → Cast`: right on 0/1 data. -/
theorem reduceSum_of_bits_eq_any (l : List Int) (h : Bits l) :
    (Onnx.reduceAll .sum .i64 l ≠ 0) ↔ Jax.any l = true := by
  have := (sumList_bits l h).2
  constructor
  · intro hz
    cases hb : Jax.any l
    · exact absurd (this.mpr hb) hz
    · rfl
  · intro ha hz
    rw [this.mp hz] at ha
    exact absurd ha (by simp)

example : Bits [1, 0, 1] := by intro x hx; simp at hx; omega

/-- the 0/1 hypothesis is needed: on `[1, -1, 0]` the minimum is non-zero although an element is zero. -/
theorem reduceMin_all_needs_bits :
    Onnx.reduceAll .min .i64 [1, -1, 0] ≠ 0 ∧ Jax.all [1, -1, 0] = false := by decide +kernel

/-- ONNX `TopK(sorted=1)` orders by value and, "given two equivalent values, the one with the lower index
    appears first"; JAX's `sort` / `argsort` / `top_k` are STABLE sorts by value.  The two orders
    coincide, ascending and descending, for every list and every `k`. -/
theorem onnxTopK_eq_stableSort (largest : Bool) (k : Nat) (l : List Int) :
    Onnx.topk largest k l = (Jax.sortPairs largest l).take k := by
  simp only [Onnx.topk, Jax.sortPairs, sortBy_topk_eq_stable]

/-- … hence the values of `TopK(k = n, largest = 0)` are `lax.sort`. -/
theorem topkValues_eq_sort (l : List Int) (k : Nat) (h : l.length ≤ k) :
    (Onnx.topk false k l).map (·.1) = Jax.sort l := by
  rw [topk_all false k l h]
  exact map_fst_sortPairs 0 l

example : (Onnx.topk true 3 [2, 1, 2, 1, 0, 2]).map (·.2) = [0, 2, 5] ∧
    (Onnx.topk false 6 [2, 1, 2, 1, 0, 2]).map (·.2) = [4, 1, 3, 0, 2, 5] := by decide +kernel

/-- an unstable order (equal values: HIGHER index first) is not what JAX computes. -/
theorem topk_unstable_refuted :
    (Onnx.sortBy (fun p q => decide (p.1 < q.1) || (p.1 == q.1 && decide (p.2 ≥ q.2))) (Onnx.enumFrom 0 [1, 1])).map (·.2)
      ≠ Jax.argsort [1, 1] := by decide +kernel

/-- /repo lowers `lax.cummax` to `MaxPool(kernel = n, pads = [n-1, 0])`: the windows are the prefixes,
    so the result is the running maximum — every non-empty list. -/
theorem maxPool_prefix_eq_cummax (x : Int) (xs : List Int) :
    Onnx.maxPool1 (xs.length + 1) xs.length 0 (x :: xs) = some (Jax.cummax false (x :: xs)) :=
  maxPool1_cummax x xs

/-- `reverse=True`: `pads = [0, n-1]`, the windows are the suffixes. -/
theorem maxPool_suffix_eq_cummax_reverse (x : Int) (xs : List Int) :
    Onnx.maxPool1 (xs.length + 1) 0 xs.length (x :: xs) = some (Jax.cummax true (x :: xs)) :=
  maxPool1_cummax_rev x xs

/-- `lax.cummin` = `Neg ∘ MaxPool ∘ Neg` (over ℤ / floats, where negation is exact). -/
theorem negMaxPoolNeg_eq_cummin (x : Int) (xs : List Int) :
    (Onnx.maxPool1 (xs.length + 1) xs.length 0 ((x :: xs).map fun y => -y)).map (fun r => r.map fun y => -y) =
      some (Jax.cummin false (x :: xs)) :=
  neg_maxPool1_neg_cummin x xs

example : Onnx.maxPool1 4 3 0 [3, -1, 4, 1] = some [3, 3, 4, 4] ∧ Jax.cummax true [3, -1, 4, 1] = [4, 4, 4, 1] ∧
    Jax.cummin false [3, -1, 4, 1] = [3, -1, -1, -1] := by decide +kernel

/-- exchanging the two pads gives the other direction — wrong for `reverse=False`. -/
theorem maxPool_wrong_side_refuted :
    Onnx.maxPool1 3 0 2 [1, 3, 2] ≠ some (Jax.cummax false [1, 3, 2]) := by decide +kernel

/-- ONNX `Slice` clamps `start` and `end` separately into `[0, n]`; `lax.dynamic_slice` clamps the
    START so that the whole slice fits.  They differ as soon as the start needs clamping. -/
theorem slice_no_clamp_refuted :
    Onnx.slice1 [10, 11, 12, 13, 14, 15] 5 (5 + 3) ≠ Jax.dynamicSlice 3 [10, 11, 12, 13, 14, 15] 5 := by
  decide +kernel

end J2O.C01
