/-
C17 — property theorems (nothing but statements + proofs + non-vacuity examples).

* `castOk_dom_subset`  : reference decision ⇒ value domain inclusion
* `castOk_roundtrip`   : ⇒ `cast m s (cast s m v) = v` for every cast semantics that is
                          exact on commonly representable values
* `rangeBounds_sound`  : the Range bounds enclose every emitted value (all integers)
* `knownFit_sound`     : bounds inside the intermediate type ⇒ every emitted value in it
-/
import J2O.Lemmas.C17Dom
set_option linter.unusedSimpArgs false
set_option linter.unusedVariables false
set_option linter.unreachableTactic false
set_option linter.unusedTactic false
set_option linter.unnecessarySeqFocus false

namespace J2O.C17

/-- **Domain inclusion.** If the reference decision accepts `(s, m)`, every value of
    `s` is a value of `m`. -/
theorem castOk_dom_subset (s m : Kind) (h : castOk s m = true) (v : Val) (hv : Dom s v) :
    Dom m v := by
  cases s <;> cases m <;> simp only [castOk, Bool.false_eq_true] at h
  -- bool → bool
  · exact hv
  -- bool → int
  · rename_i ts tb
    obtain ⟨hre, him⟩ := hv
    refine ⟨?_, him⟩
    have h1 : (1:ℤ) ≤ 2 ^ (tb - 1) := by have := pow_pos_int (tb - 1); omega
    have h2 : (2:ℤ) ≤ 2 ^ tb → True := fun _ => trivial
    cases ts <;> simp only [Bool.false_eq_true, if_false, if_true, decide_eq_true_eq] at h
    · have hb : (2:ℤ) ^ 1 ≤ 2 ^ tb := pow_le_pow_right₀ (by norm_num) h
      rcases hre with hre | hre
      · exact ⟨0, hre, 0, by simp, by (simp [intBounds] <;> omega), by (simp [intBounds] <;> omega)⟩
      · exact ⟨1, hre, 1, by simp, by (simp [intBounds] <;> omega), by (simp [intBounds] <;> omega)⟩
    · have hb : (2:ℤ) ^ 1 ≤ 2 ^ (tb - 1) := pow_le_pow_right₀ (by norm_num) (by omega)
      rcases hre with hre | hre
      · exact ⟨0, hre, 0, by simp, by (simp [intBounds] <;> omega), by (simp [intBounds] <;> omega)⟩
      · exact ⟨1, hre, 1, by simp, by (simp [intBounds] <;> omega), by (simp [intBounds] <;> omega)⟩
  -- bool → flt
  · obtain ⟨hre, him⟩ := hv
    refine ⟨?_, him⟩
    rcases hre with hre | hre <;> rw [hre]
    · exact rep_zero _ h
    · exact rep_one _ h
  -- bool → cplx
  · obtain ⟨hre, him⟩ := hv
    refine ⟨?_, by rw [him]; exact rep_zero _ h⟩
    rcases hre with hre | hre <;> rw [hre]
    · exact rep_zero _ h
    · exact rep_one _ h
  -- int → int
  · obtain ⟨⟨q, hre, hq⟩, him⟩ := hv
    exact ⟨⟨q, hre, fitsII_in _ _ _ _ h q hq⟩, him⟩
  -- int → flt
  · obtain ⟨⟨q, hre, hq⟩, him⟩ := hv
    exact ⟨by rw [hre]; exact fitsIF_rep _ _ _ h q hq, him⟩
  -- int → cplx
  · obtain ⟨⟨q, hre, hq⟩, him⟩ := hv
    exact ⟨by rw [hre]; exact fitsIF_rep _ _ _ h q hq,
           by rw [him]; exact rep_zero _ (fitsIF_wf _ _ _ h)⟩
  -- flt → flt
  · exact ⟨fitsFF_repSc _ _ h _ hv.1, hv.2⟩
  -- flt → cplx
  · exact ⟨fitsFF_repSc _ _ h _ hv.1, by rw [hv.2]; exact rep_zero _ (fitsFF_wf _ _ h)⟩
  -- cplx → cplx
  · exact ⟨fitsFF_repSc _ _ h _ hv.1, fitsFF_repSc _ _ h _ hv.2⟩

/-- What is assumed of the runtime's `Cast`: a value of the source type that is also a
    value of the target type is converted exactly.  (IEEE rounding, integer and boolean
    conversion all satisfy this; it is the only fact about them the argument needs.) -/
structure CastSem where
  cast : Kind → Kind → Val → Val
  exact : ∀ s t v, Dom s v → Dom t v → cast s t v = v

/-- **Round trip.** For every cast semantics exact on commonly representable values,
    an accepted pair `(s, m)` makes `Cast(m→s) ∘ Cast(s→m)` the identity on all of `s`. -/
theorem castOk_roundtrip (C : CastSem) (s m : Kind) (h : castOk s m = true) (v : Val)
    (hv : Dom s v) : C.cast m s (C.cast s m v) = v := by
  have hm := castOk_dom_subset s m h v hv
  rw [C.exact s m v hv hm, C.exact m s v hm hv]

/-- Identity cast (`s = m`, any kind, including `other`): trivially the identity. -/
theorem cast_same_roundtrip (C : CastSem) (s : Kind) (v : Val) (hv : Dom s v) :
    C.cast s s (C.cast s s v) = v := by
  rw [C.exact s s v hv hv, C.exact s s v hv hv]

-- non-vacuity: accepted non-trivial pairs exist, and a rejected one
example : castOk (kindOf 1) (kindOf 11) = true := by decide      -- float → double
example : castOk (kindOf 6) (kindOf 11) = true := by decide      -- int32 → double
example : castOk (kindOf 7) (kindOf 11) = false := by decide     -- int64 → double
example : castOk (kindOf 1) (kindOf 10) = false := by decide     -- float → float16
example : Dom (kindOf 3) ⟨.fin (-128), .fin 0⟩ :=
  ⟨⟨-128, rfl, -128, by norm_num, by simp [intBounds], by simp [intBounds]⟩, rfl⟩

/-! ### Range bounds -/

/-- **Range bounds are sound** for all integers: every value ONNX `Range` emits lies
    inside the interval the code computes (an empty interval means nothing is emitted). -/
theorem rangeBounds_sound (start limit delta lo hi : Int)
    (h : rangeBounds start limit delta = some (lo, hi)) (v : Int)
    (hv : rangeEmits start limit delta v) : lo ≤ v ∧ v ≤ hi := by
  obtain ⟨i, hi0, rfl, hdir⟩ := hv
  unfold rangeBounds at h
  split at h
  · exact absurd h (by simp)
  · rename_i hd0
    split at h
    · rename_i hdpos
      split at h
      · -- empty range: nothing is emitted
        rename_i hge
        rcases hdir with ⟨_, hlt⟩ | ⟨hneg, _⟩
        · have := Int.mul_nonneg hi0 (Int.le_of_lt hdpos); omega
        · omega
      · rename_i hlt
        simp only [Option.some.injEq, Prod.mk.injEq] at h
        obtain ⟨rfl, rfl⟩ := h
        rcases hdir with ⟨_, hvlt⟩ | ⟨hneg, _⟩
        · rw [fdiv_pos _ _ hdpos]
          constructor
          · have := Int.mul_nonneg hi0 (Int.le_of_lt hdpos); omega
          · have h1 : i * delta ≤ limit - start - 1 := by omega
            have h2 : i ≤ (limit - start - 1) / delta := (Int.le_ediv_iff_mul_le hdpos).mpr h1
            have h3 := Int.mul_le_mul_of_nonneg_right h2 (Int.le_of_lt hdpos)
            omega
        · omega
    · rename_i hdnpos
      have hdneg : delta < 0 := by omega
      have hnd : 0 < -delta := by omega
      split at h
      · rename_i hle
        rcases hdir with ⟨hpos, _⟩ | ⟨_, hgt⟩
        · omega
        · have := Int.mul_nonpos_of_nonneg_of_nonpos hi0 (Int.le_of_lt hdneg); omega
      · rename_i hgt0
        simp only [Option.some.injEq, Prod.mk.injEq] at h
        obtain ⟨rfl, rfl⟩ := h
        rcases hdir with ⟨hpos, _⟩ | ⟨_, hgt⟩
        · omega
        · rw [fdiv_pos _ _ hnd]
          constructor
          · have e1 : i * (-delta) = -(i * delta) := by rw [Int.mul_neg]
            have h1 : i * (-delta) ≤ start - limit - 1 := by omega
            have h2 : i ≤ (start - limit - 1) / (-delta) := (Int.le_ediv_iff_mul_le hnd).mpr h1
            have h3 := Int.mul_le_mul_of_nonneg_right h2 (Int.le_of_lt hnd)
            have e2 : ((start - limit - 1) / (-delta)) * (-delta)
                = -(((start - limit - 1) / (-delta)) * delta) := by rw [Int.mul_neg]
            omega
          · have := Int.mul_nonpos_of_nonneg_of_nonpos hi0 (Int.le_of_lt hdneg); omega

/-- **Known-range narrowing is sound**: if `knownFit` accepts with the bounds computed for
    a `Range`, every emitted value lies in the intermediate integer type. -/
theorem knownFit_sound (src mid : Kind) (start limit delta : Int)
    (h : knownFit src mid (rangeBounds start limit delta) = true) (v : Int)
    (hv : rangeEmits start limit delta v) :
    ∃ ts tb, mid = .int ts tb ∧ (intBounds ts tb).1 ≤ v ∧ v ≤ (intBounds ts tb).2 := by
  unfold knownFit at h
  split at h
  · rename_i tlo thi lo hi hs hm hb
    cases mid <;> simp only [kindBounds, reduceCtorEq] at hm
    rename_i ts tb
    simp only [Option.some.injEq] at hm
    have := rangeBounds_sound start limit delta lo hi hb v hv
    refine ⟨ts, tb, rfl, ?_⟩
    rw [hm]
    split at h
    · omega
    · simp only [Bool.and_eq_true, decide_eq_true_eq] at h; omega
  · exact absurd h (by simp)

-- non-vacuity
example : rangeBounds 7 (-5) (-3) = some (-2, 7) := by decide
example : rangeEmits 7 (-5) (-3) (-2) := ⟨3, by decide, by decide, Or.inr (by decide)⟩
example : knownFit (kindOf 7) (kindOf 6) (rangeBounds 0 1024 1) = true := by decide
example : knownFit (kindOf 7) (kindOf 6) (rangeBounds 2147483648 2147483650 1) = false := by
  decide

end J2O.C17
