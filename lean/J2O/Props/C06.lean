/-
C06 — property theorems: the converter's control-flow lowering schemes preserve the JAX semantics
for EVERY trip count, branch index, carried state, captured value and body (all are universally
quantified; bodies and conditions are arbitrary functions, so nesting is covered compositionally).

* `while_scheme`          `Loop(M, c s0, λ s. (c (b s), b s))` returns what `lax.while_loop` returns,
                          for every number of iterations `k ≤ M` (`M = 2^63-1` in the plugin)
* `while_trips`           … and runs the body exactly `k` times; `while_zero_trip`
* `whileFuel_res/_of_res` the executable while of the model computes exactly `WhileRes`
* `while_batched_scheme`  the vmapped variant (per-lane predicate, `any` reduction, masked update)
                          returns every lane's own while result
* `fori_scheme`           `Loop(n, true, λ i s. (cond_in, b (lo+i) s))` = `fori_loop(lo, lo+n)`, all `n`
* `scan_scheme`           `Loop(len xs, true, Gather …)` = `lax.scan`, all lengths;
  `scan_stacked_extent`   the stacked output has extent = trip count (0 for the empty scan)
* `cond_scheme`, `switch2_scheme`   `If(idx≠0, then = branches[1], else = branches[0])` = `branches[idx]`
* `reject_iff_unsupported` the plugins accept exactly the variants whose scheme is proved here
* `cond_before_body_differs`, `batched_pred_on_raw_differs`, `swapped_branches_differ`,
  `off_by_one_trip_differs`  the schemes are tight: the classic mis-wirings give different results
  (so the tie can tell them apart)
-/
import J2O.Lemmas.C06
set_option linter.unusedVariables false
namespace J2O.C06
universe u v w

/-! ### while -/

/-- **while ↦ Loop.** If the JAX loop ends after exactly `k` iterations in `y` and `k ≤ M`, the ONNX
    `Loop` of the scheme ends in `y`. -/
theorem while_scheme {σ : Type u} (M : Nat) (c : σ → Bool) (b : σ → σ) (s : σ) (k : Nat) (y : σ)
    (h : WhileRes c b s k y) (hk : k ≤ M) : whileScheme M c b s = y := by
  obtain ⟨ht, hf, rfl⟩ := h
  unfold whileScheme loopO
  have := loopGo_while c b k M 0 s [] hk ht hf
  rw [this]

/-- … and its body ran exactly `k` times. -/
theorem while_trips {σ : Type u} (M : Nat) (c : σ → Bool) (b : σ → σ) (s : σ) (k : Nat) (y : σ)
    (h : WhileRes c b s k y) (hk : k ≤ M) :
    (loopO M (c s) (fun _ _ s => (c (b s), b s, ())) s).2.length = k := by
  obtain ⟨ht, hf, rfl⟩ := h
  unfold loopO
  have := loopGo_while c b k M 0 s [] hk ht hf
  rw [this]; simp

/-- zero iterations: condition false on entry, the initial state is returned, for every `M`. -/
theorem while_zero_trip {σ : Type u} (M : Nat) (c : σ → Bool) (b : σ → σ) (s : σ) (h : c s = false) :
    whileScheme M c b s = s :=
  while_scheme M c b s 0 s ⟨fun i hi => by omega, by simpa [iter] using h, rfl⟩ (Nat.zero_le _)

/-- the executable while of the model (used by the driver) returns `y` only if `WhileRes` holds … -/
theorem whileFuel_res {σ : Type u} (c : σ → Bool) (b : σ → σ) :
    ∀ (fuel : Nat) (s y : σ), whileFuel c b fuel s = some y → ∃ k, k ≤ fuel ∧ WhileRes c b s k y
  | 0, s, y, h => by
    simp only [whileFuel] at h
    split at h
    · cases h
    · rename_i hc
      cases h
      exact ⟨0, Nat.le_refl _, fun i hi => by omega, by simpa [iter] using hc, rfl⟩
  | n + 1, s, y, h => by
    simp only [whileFuel] at h
    split at h
    · rename_i hc
      obtain ⟨k, hk, ht, hf, hy⟩ := whileFuel_res c b n (b s) y h
      refine ⟨k + 1, by omega, ?_, hf, hy⟩
      intro i hi
      cases i with
      | zero => exact hc
      | succ j => exact ht j (by omega)
    · rename_i hc
      cases h
      exact ⟨0, by omega, fun i hi => by omega, by simpa [iter] using hc, rfl⟩

/-- … and always when it holds and the fuel suffices. -/
theorem whileFuel_of_res {σ : Type u} (c : σ → Bool) (b : σ → σ) :
    ∀ (k fuel : Nat) (s y : σ), WhileRes c b s k y → k ≤ fuel → whileFuel c b fuel s = some y
  | 0, fuel, s, y, ⟨_, hf, hy⟩, _ => by
    simp only [iter] at hf hy
    cases fuel <;> simp [whileFuel, hf, hy]
  | k + 1, fuel, s, y, ⟨ht, hf, hy⟩, hle => by
    cases fuel with
    | zero => omega
    | succ n =>
      have h0 : c s = true := ht 0 (by omega)
      simp only [whileFuel, h0, if_true]
      exact whileFuel_of_res c b k n (b s) y ⟨fun i hi => ht (i + 1) (by omega), hf, hy⟩ (by omega)

-- non-vacuity: a data-dependent exit after 3 iterations, and 0 iterations
example : WhileRes (fun s : Nat => decide (s < 5)) (· + 1) 2 3 5 := by
  refine ⟨?_, by decide, by decide⟩
  intro i hi
  have : i = 0 ∨ i = 1 ∨ i = 2 := by omega
  rcases this with rfl | rfl | rfl <;> decide
example : whileScheme maxTrip (fun s : Nat => decide (s < 5)) (· + 1) 2 = 5 :=
  while_scheme _ _ _ 2 3 5 (by
    refine ⟨?_, by decide, by decide⟩
    intro i hi
    have : i = 0 ∨ i = 1 ∨ i = 2 := by omega
    rcases this with rfl | rfl | rfl <;> decide) (by decide)
example : whileScheme 7 (fun s : Nat => decide (s < 5)) (· + 1) 9 = 9 := by decide

/-- **vmapped while.** If every lane's own while loop ends (within `K ≤ M` iterations) in the
    corresponding element of `ys`, the batched scheme returns `ys`. -/
theorem while_batched_scheme {τ : Type u} (M : Nat) (c : τ → Bool) (b : τ → τ) (s0 ys : List τ)
    (K : Nat) (hK : K ≤ M) (h : LanesEnd c b K s0 ys) : whileBatchedScheme M c b s0 = ys := by
  unfold whileBatchedScheme loopO
  have := loopGo_batched c b K M 0 s0 ys [] hK h
  exact congrArg Prod.snd this

example : whileBatchedScheme 10 (fun s : Nat => decide (s < 5)) (· + 2) [0, 4, 7] = [6, 6, 7] := by decide
example : LanesEnd (fun s : Nat => decide (s < 5)) (· + 2) 3 [4, 7] [6, 7] := by
  refine ⟨⟨1, by omega, ?_, by decide, by decide⟩, ⟨0, by omega, ?_, by decide, by decide⟩, trivial⟩
  · intro i hi; have : i = 0 := by omega
    subst this; decide
  · intro i hi; omega

/-! ### fori -/

/-- **fori ↦ Loop** for every trip count `n` (0 included) and every lower bound. -/
theorem fori_scheme {σ : Type u} (b : Int → σ → σ) (lo : Int) (n : Nat) (s : σ) :
    foriScheme b lo n s = foriJ b lo n s := by
  unfold foriScheme loopO
  rw [loopGo_fori b lo n 0 s []]
  simp

theorem fori_zero_trip {σ : Type u} (b : Int → σ → σ) (lo : Int) (s : σ) : foriScheme b lo 0 s = s := by
  rw [fori_scheme]; rfl

example : foriScheme (fun i (s : Int) => s * 10 + i) 2 3 0 = 234 := by decide
example : foriJ (fun i (s : Int) => s * 10 + i) (-1) 3 7 = 6901 := by decide

/-! ### scan -/

/-- **scan ↦ Loop** for every sequence length: final carry and stacked outputs agree. -/
theorem scan_scheme {κ : Type u} {χ : Type v} {υ : Type w} [Inhabited χ] (f : κ → χ → κ × υ) (c0 : κ)
    (xs : List χ) : scanScheme f c0 xs = scanJ f c0 xs := by
  unfold scanScheme loopO
  have h := loopGo_scan f xs [] c0 []
  simp only [List.length_nil, List.nil_append] at h
  rw [h]

/-- the stacked output has extent = trip count = sequence length (0 for the empty scan). -/
theorem scan_stacked_extent {κ : Type u} {χ : Type v} {υ : Type w} [Inhabited χ] (f : κ → χ → κ × υ)
    (c0 : κ) (xs : List χ) : (scanScheme f c0 xs).2.length = xs.length := by
  rw [scan_scheme, scanJ_length]

theorem scan_empty {κ : Type u} {χ : Type v} {υ : Type w} [Inhabited χ] (f : κ → χ → κ × υ) (c0 : κ) :
    scanScheme f c0 ([] : List χ) = (c0, []) := by
  rw [scan_scheme]; rfl

-- two scanned inputs (a list of pairs), two carries, cumulative outputs
example : scanScheme (fun (c : Int × Int) (x : Int × Int) => ((c.1 + x.1, c.2 * x.2), c.1 + c.2))
    (0, 1) [(1, 2), (3, 4), (5, 6)] = ((9, 48), [1, 3, 12]) := by decide

/-! ### cond / switch -/

/-- **cond ↦ If.** `then` is `branches[1]`, `else` is `branches[0]`. -/
theorem cond_scheme {α : Type u} {β : Type v} (idx : Nat) (h : idx < 2) (br0 br1 : α → β) (x : α) :
    condScheme idx br0 br1 x = (if idx = 0 then br0 x else br1 x) := by
  unfold condScheme ifO
  cases idx with
  | zero => simp
  | succ n => simp

/-- two-branch `lax.switch`: the clamped index selects the same branch for every integer. -/
theorem switch2_scheme {α : Type u} {β : Type v} (idx : Int) (br0 br1 : α → β) (x : α) :
    condScheme (clampIdx 2 idx) br0 br1 x = (if idx ≤ 0 then br0 x else br1 x) := by
  have hlt : clampIdx 2 idx < 2 := by
    unfold clampIdx
    split
    · omega
    · split <;> omega
  rw [cond_scheme _ hlt]
  unfold clampIdx
  by_cases h : idx < 0
  · simp [h, Int.le_of_lt h]
  · by_cases h1 : idx = 0
    · subst h1; simp
    · have h2 : ¬ idx ≤ 0 := by omega
      simp only [h, if_false, h2]
      split
      · simp
      · rename_i h4
        have h3 : idx.toNat ≠ 0 := by omega
        simp [h3]

example : condScheme 1 (fun x : Nat => x + 1) (fun x => x * 7) 3 = 21 := by decide
example : condScheme 0 (fun x : Nat => x + 1) (fun x => x * 7) 3 = 4 := by decide

/-! ### accepted vs. rejected variants -/

/-- **The plugins accept exactly the variants whose scheme is proved above**; everything else
    (reverse scan, scan without xs and without static length, stateless while, fori with traced
    bounds or a closed-over traced value, switch with ≠ 2 branches) is rejected at export time. -/
theorem reject_iff_unsupported (v : Variant) : accepts v = supported v := by
  cases v with
  | mk construct reverse nXs staticLength nState dynamicBounds capturesTracer nBranches =>
    cases construct <;> simp only [accepts, supported]
    · by_cases h : nState = 0 <;> simp [h, Nat.pos_of_ne_zero]
    · cases dynamicBounds <;> cases capturesTracer <;> rfl
    · cases reverse <;> cases staticLength <;> by_cases h : nXs = 0 <;> simp [h, Nat.pos_of_ne_zero]
    · by_cases h : nBranches = 2 <;> simp [h]

example : accepts { construct := .scan, reverse := true } = false := by decide
example : accepts { construct := .scan, nXs := 0, staticLength := true } = true := by decide
example : accepts { construct := .cond, nBranches := 3 } = false := by decide

/-! ### the schemes are tight -/

/-- evaluating the condition BEFORE the body (on the old state) is a different loop -/
theorem cond_before_body_differs :
    (loopO 10 true (fun _ _ (s : Nat) => (decide (s < 3), s + 1, ())) 0).1
      ≠ whileScheme 10 (fun s => decide (s < 3)) (· + 1) 0 := by decide

/-- vmapped while with the per-lane predicate evaluated on the RAW body results instead of on the masked
    next state (a finished lane is re-activated when the body of its final state satisfies the
    condition again) -/
def whileBatchedRawPred {τ : Type u} (M : Nat) (c : τ → Bool) (b : τ → τ) (s0 : List τ) : List τ :=
  (loopO M ((s0.map c).any id)
    (fun _ _ (st : List Bool × List τ) =>
      let new := (st.1.zip st.2).map fun ps => if ps.1 then b ps.2 else ps.2
      let pred := (st.2.map b).map c          -- on the un-masked candidates
      (pred.any id, (pred, new), ()))
    (s0.map c, s0)).1.2

/-- … is a different loop as soon as the exit predicate is not monotone and lanes leave at different
    trips (exit when `v % 4 = 3`, lanes 3 and 0): the proved scheme freezes lane 0 at 3, the
    mis-wired one re-activates it. -/
theorem batched_pred_on_raw_differs :
    whileBatchedRawPred 24 (fun v : Nat => decide (v % 4 ≠ 3)) (· + 1) [3, 0]
      ≠ whileBatchedScheme 24 (fun v : Nat => decide (v % 4 ≠ 3)) (· + 1) [3, 0] := by decide

example : whileBatchedScheme 24 (fun v : Nat => decide (v % 4 ≠ 3)) (· + 1) [3, 0] = [3, 3] := by decide

/-- swapping `then` and `else` is a different conditional -/
theorem swapped_branches_differ :
    condScheme 1 (fun x : Nat => x * 7) (fun x => x + 1) 3 ≠ condScheme 1 (fun x : Nat => x + 1) (fun x => x * 7) 3 := by
  decide

/-- one trip more or fewer is a different counted loop -/
theorem off_by_one_trip_differs :
    foriScheme (fun i (s : Int) => s + i) 0 4 0 ≠ foriScheme (fun i (s : Int) => s + i) 0 3 0 := by decide

end J2O.C06
