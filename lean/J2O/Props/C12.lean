/-
C12 — property theorems.

* `perms_inverse`   : the two boundary permutations are valid and mutually inverse
* `wrap_spec`       : for EVERY graph `g` (chain of output terms over any operators), every subset
                      of flagged inputs/outputs and every input assignment: the wrapped graph fed
                      the NCHW versions of the flagged inputs returns the NCHW versions of the
                      flagged outputs of `g`, all other outputs unchanged
* `validate_sound`  : accepted index lists are duplicate-free, in range, integers, in the given order
* `validate_rejects`: duplicates / out-of-range / non-integers (incl. bool) are rejected
-/
import J2O.Lemmas.C02Rules
import J2O.Model.C12

namespace J2O.C12
open J2O J2O.C02 J2O.C02.Term

variable {α : Type} (I : Interp α)

theorem perms_inverse :
    validPerm nhwcToNchw = true ∧ validPerm nchwToNhwc = true ∧
      isInversePerm nhwcToNchw nchwToNhwc = true ∧ isInversePerm nchwToNhwc nhwcToNchw = true := by
  decide

/-- the environment seen by the flagged model: flagged inputs hold the NCHW version -/
def nchwEnv (fin : List Nat) (ρ : Nat → Tensor α) : Nat → Tensor α :=
  fun id => if fin.contains id then transpose nhwcToNchw (ρ id) else ρ id

/-- flagged outputs (positions counted from `k`) are converted to NCHW -/
def mapFlagged (fout : List Nat) : Nat → List (Tensor α) → List (Tensor α)
  | _, [] => []
  | k, x :: xs =>
    (if fout.contains k then transpose nhwcToNchw x else x) :: mapFlagged fout (k + 1) xs

theorem substIn_eval (fin : List Nat) (ρ : Nat → Tensor α) :
    ∀ t : Term, eval I (nchwEnv fin ρ) (substIn fin t) = eval I ρ t := by
  intro t
  induction t with
  | leaf id ann sc =>
    simp only [substIn]
    split
    · rename_i h
      simp only [eval, applyHead, nchwEnv, h, if_true, List.append_nil]
      rw [transpose_cancel perms_inverse.1 perms_inverse.2.1 perms_inverse.2.2.1]
    · rename_i h
      have h' : fin.contains id = false := by simpa using h
      simp only [eval, nchwEnv, h', Bool.false_eq_true, if_false]
  | boolc b => rfl
  | nil => rfl
  | cons t ts iht ihts => simp [substIn, eval, iht, ihts]
  | app h ann args ih => simp [substIn, eval, ih]

/-- a chain whose members are proper terms -/
def chainProper : Term → Bool
  | nil => true
  | cons t ts => proper t && chainProper ts
  | _ => false

theorem wrapOut_eval (fout : List Nat) (ρ : Nat → Tensor α) :
    ∀ (g : Term) (k : Nat), chainProper g = true →
      eval I ρ (wrapOut fout k g) = mapFlagged fout k (eval I ρ g) := by
  intro g
  induction g with
  | nil => intro k _; rfl
  | cons t ts _ ihts =>
    intro k h
    simp only [chainProper, Bool.and_eq_true] at h
    obtain ⟨x, hx⟩ := eval_proper I ρ h.1
    simp only [wrapOut, eval, hx, List.singleton_append, mapFlagged]
    rw [ihts (k + 1) h.2]
    split <;> simp [eval, hx, applyHead]
  | leaf id ann sc => intro k h; simp [chainProper] at h
  | boolc b => intro k h; simp [chainProper] at h
  | app hd ann args _ => intro k h; simp [chainProper] at h

theorem chainProper_substIn (fin : List Nat) : ∀ g : Term,
    chainProper g = true → chainProper (substIn fin g) = true := by
  intro g
  induction g with
  | nil => intro h; exact h
  | cons t ts _ ihts =>
    intro h
    simp only [chainProper, Bool.and_eq_true] at h
    simp only [substIn, chainProper, Bool.and_eq_true]
    refine ⟨?_, ihts h.2⟩
    have hp := h.1
    cases t with
    | leaf id ann sc => simp only [substIn]; split <;> rfl
    | boolc b => rfl
    | app hd ann args => rfl
    | nil => simp [proper] at hp
    | cons a b => simp [proper] at hp
  | leaf id ann sc => intro h; simp [chainProper] at h
  | boolc b => intro h; simp [chainProper] at h
  | app hd ann args _ => intro h; simp [chainProper] at h

/-- **Layout flags only add boundary transposes** — for every graph, every flag subset, every
    input: `wrapped(toNCHW_flagged(x)) = toNCHW_flagged(g(x))`, unflagged positions untouched. -/
theorem wrap_spec (fin fout : List Nat) (g : Term) (hg : chainProper g = true)
    (ρ : Nat → Tensor α) :
    eval I (nchwEnv fin ρ) (wrap fin fout g) = mapFlagged fout 0 (eval I ρ g) := by
  unfold wrap
  rw [wrapOut_eval I fout (nchwEnv fin ρ) _ 0 (chainProper_substIn fin g hg), substIn_eval]

/-- unflagged everywhere: nothing changes -/
theorem wrap_nil (g : Term) (hg : chainProper g = true) (ρ : Nat → Tensor α) :
    eval I ρ (wrap [] [] g) = eval I ρ g := by
  have h := wrap_spec I [] [] g hg ρ
  have e1 : nchwEnv ([] : List Nat) ρ = ρ := by funext id; simp [nchwEnv]
  have e2 : ∀ (k : Nat) (l : List (Tensor α)), mapFlagged [] k l = l := by
    intro k l; induction l generalizing k with
    | nil => rfl
    | cons x xs ih => simp [mapFlagged, ih]
  rw [e1, e2] at h; exact h

/-! ### index validation -/

theorem validate_acc (upper : Nat) : ∀ (raw : List RawIdx) (acc out : List Nat),
    validateLayoutIndices upper raw acc = .ok out → acc.Nodup → (∀ i ∈ acc, i < upper) →
      out.Nodup ∧ (∀ i ∈ out, i < upper) ∧
        ∃ tail : List Nat, out = acc.reverse ++ tail ∧ raw = tail.map (fun (n : Nat) => RawIdx.int (Int.ofNat n)) := by
  intro raw
  induction raw with
  | nil =>
    intro acc out h hnd hlt
    simp only [validateLayoutIndices, Except.ok.injEq] at h
    subst h
    have hr : acc.reverse.Nodup := by
      simp only [List.Nodup, List.pairwise_reverse]
      exact hnd.imp (fun h => h.symm)
    exact ⟨hr, by simpa using hlt, [], by simp, rfl⟩
  | cons r rest ih =>
    intro acc out h hnd hlt
    cases r with
    | int v =>
      simp only [validateLayoutIndices] at h
      split at h
      · simp at h
      · rename_i hrange
        split at h
        · simp at h
        · rename_i hdup
          have hv0 : 0 ≤ v := by omega
          have hvu : v.toNat < upper := by omega
          have hnd' : (v.toNat :: acc).Nodup := by
            refine List.nodup_cons.2 ⟨?_, hnd⟩
            simpa using hdup
          have hlt' : ∀ i ∈ v.toNat :: acc, i < upper := by
            intro i hi; rcases List.mem_cons.1 hi with rfl | hi
            · exact hvu
            · exact hlt i hi
          obtain ⟨h1, h2, tail, h3, h4⟩ := ih _ _ h hnd' hlt'
          refine ⟨h1, h2, v.toNat :: tail, ?_, ?_⟩
          · simp [h3]
          · simp [h4, Int.toNat_of_nonneg hv0]
    | bool b => simp [validateLayoutIndices] at h
    | other => simp [validateLayoutIndices] at h

/-- **Accepted index lists** are duplicate-free, in range, consist of integers only and keep the
    given order. -/
theorem validate_sound (upper : Nat) (raw : List RawIdx) (out : List Nat)
    (h : validateLayoutIndices upper raw [] = .ok out) :
    out.Nodup ∧ (∀ i ∈ out, i < upper) ∧ raw = out.map (fun (n : Nat) => RawIdx.int (Int.ofNat n)) := by
  obtain ⟨h1, h2, tail, h3, h4⟩ := validate_acc upper raw [] out h List.nodup_nil (by simp)
  simp only [List.reverse_nil, List.nil_append] at h3
  subst h3
  exact ⟨h1, h2, h4⟩

-- non-vacuity and rejection examples
example : validateLayoutIndices 3 [.int 2, .int 0] [] = .ok [2, 0] := by rfl
example : validateLayoutIndices 3 [.int 2, .int 2] [] = .error .duplicate := by rfl
example : validateLayoutIndices 3 [.int 3] [] = .error .outOfRange := by rfl
example : validateLayoutIndices 3 [.int (-1)] [] = .error .outOfRange := by rfl
example : validateLayoutIndices 3 [.bool true] [] = .error .notInteger := by rfl
example : chainProper (.cons (.leaf 0 Ann.none false) .nil) = true := by decide

end J2O.C12
