/-
C02 — property theorems about the graph EDITS the optimizer's rewrites are made of
(`Model/GraphEdit.lean`): for every SSA graph, every interpretation of the operators (arbitrary
partial functions), every input environment.

* `frame`                 : nodes that read nothing from a set `S` of values compute the same on two
                            environments that agree outside `S`  (the frame rule all the others use)
* `replaceUses_sound`     : `replace_all_uses_with(old, new, replace_graph_outputs=True)` after a prefix at
                            whose end `old` and `new` hold the same value, neither being redefined later,
                            leaves every value of the graph — and every graph output — unchanged
* `remove_sound`          : `graph.remove(dead)` of nodes whose outputs nothing reads any more (no node
                            input, no nested-body capture, no graph output) leaves every graph output unchanged
* `bypass_sound`          : the composite every fold ends with — rewire the consumers of `y` to `x` when
                            `⟦y⟧ = ⟦x⟧` (e.g. by `transpose_pair_cancels`), then drop the now unread nodes
* `internal_change_sound` : a rewrite may CHANGE the values of internal ids (a folded chain computes in the
                            other layout) iff nothing outside reads them: not a later node, not a capture, not a
                            graph output — the `_value_is_observed` / single-consumer guards
* refutations             : dropping either guard changes results (an observed intermediate; a removed node
                            that is still a graph output)
-/
import J2O.Model.GraphEdit

namespace J2O.GraphEdit

variable {V : Type} (sem : Nat → List (Option V) → Option V)

theorem run_append (env : Env V) (a b : List Node) : run sem env (a ++ b) = run sem (run sem env a) b := by
  simp [run, List.foldl_append]

theorem run_cons (env : Env V) (n : Node) (ns : List Node) :
    run sem env (n :: ns) = run sem (step sem env n) ns := rfl

/-- **Frame rule.** If two environments agree outside `S` and no node of `ns` reads a value in `S`,
    then after running `ns` they still agree outside `S`, and they agree on everything `ns` defines. -/
theorem frame : ∀ (ns : List Node) (S : Nat → Prop) (e1 e2 : Env V),
    (∀ v, ¬ S v → e1 v = e2 v) → (∀ n ∈ ns, ∀ i ∈ n.ins, ¬ S i) →
    ∀ v, (¬ S v ∨ ∃ n ∈ ns, n.out = v) → run sem e1 ns v = run sem e2 ns v := by
  intro ns
  induction ns with
  | nil =>
    intro S e1 e2 h _ v hv
    rcases hv with hv | ⟨n, hn, _⟩
    · exact h v hv
    · cases hn
  | cons n ns ih =>
    intro S e1 e2 h hr v hv
    rw [run_cons, run_cons]
    have hins : n.ins.map e1 = n.ins.map e2 := by
      apply List.map_congr_left
      intro i hi
      exact h i (hr n (List.mem_cons_self ..) i hi)
    -- the environments after the step agree outside S' = S \ {n.out}
    let S' : Nat → Prop := fun w => S w ∧ w ≠ n.out
    have h' : ∀ w, ¬ S' w → step sem e1 n w = step sem e2 n w := by
      intro w hw
      simp only [step]
      by_cases hwo : w = n.out
      · simp [hwo, hins]
      · simp only [hwo, if_false]
        apply h
        intro hs
        exact hw ⟨hs, hwo⟩
    have hr' : ∀ m ∈ ns, ∀ i ∈ m.ins, ¬ S' i := by
      intro m hm i hi hs
      exact hr m (List.mem_cons_of_mem _ hm) i hi hs.1
    apply ih S' (step sem e1 n) (step sem e2 n) h' hr' v
    rcases hv with hv | ⟨m, hm, hmv⟩
    · exact Or.inl (fun hs => hv hs.1)
    · rcases List.mem_cons.mp hm with rfl | hm'
      · by_cases hdef : ∃ k ∈ ns, k.out = v
        · exact Or.inr hdef
        · exact Or.inl (fun hs => hs.2 hmv.symm)
      · exact Or.inr ⟨m, hm', hmv⟩

/-- running nodes that do not define `v` leaves `v` alone -/
theorem run_untouched : ∀ (ns : List Node) (env : Env V) (v : Nat), (∀ n ∈ ns, n.out ≠ v) →
    run sem env ns v = env v := by
  intro ns
  induction ns with
  | nil => intro env v _; rfl
  | cons n ns ih =>
    intro env v h
    rw [run_cons, ih _ _ (fun m hm => h m (List.mem_cons_of_mem _ hm))]
    simp [step, (h n (List.mem_cons_self ..)).symm]

theorem map_subst_env (env : Env V) (old new : Nat) (h : env old = env new) (l : List Nat) :
    (l.map (subst old new)).map env = l.map env := by
  rw [List.map_map]
  apply List.map_congr_left
  intro i _
  simp only [Function.comp, subst]
  split
  · rename_i hi; rw [hi]; exact h.symm
  · rfl

/-- rewired nodes compute what the original nodes compute, as long as `old` and `new` keep holding the
    same value (neither is redefined) -/
theorem run_replaceUses (old new : Nat) : ∀ (ns : List Node) (env : Env V), env old = env new →
    (∀ n ∈ ns, n.out ≠ old ∧ n.out ≠ new) →
    run sem env (ns.map (Node.replaceUses old new)) = run sem env ns := by
  intro ns
  induction ns with
  | nil => intro env _ _; rfl
  | cons n ns ih =>
    intro env h hd
    simp only [List.map_cons, run_cons]
    have hn := hd n (List.mem_cons_self ..)
    have hstep : step sem env (Node.replaceUses old new n) = step sem env n := by
      funext v
      simp [step, Node.replaceUses, map_subst_env env old new h]
    rw [hstep]
    apply ih
    · simp [step, Ne.symm hn.1, Ne.symm hn.2, h]
    · intro m hm; exact hd m (List.mem_cons_of_mem _ hm)

/-- **`replace_all_uses_with` is sound.** `g = pre ++ post`; at the end of `pre`, `old` and `new` hold the
    same value; `pre` does not read `old` (SSA: `old` is defined in `pre`, its consumers come later) and `post`
    redefines neither. Then the rewired graph produces the same value for every id and the same outputs. -/
theorem replaceUses_sound (env0 : Env V) (pre post : List Node) (outs : List Nat) (old new : Nat)
    (heq : run sem env0 pre old = run sem env0 pre new)
    (hpre : ∀ n ∈ pre, old ∉ n.ins)
    (hpost : ∀ n ∈ post, n.out ≠ old ∧ n.out ≠ new) :
    (Graph.replaceUses old new ⟨pre ++ post, outs⟩).eval sem env0 = (Graph.mk (pre ++ post) outs).eval sem env0 := by
  have hpre' : pre.map (Node.replaceUses old new) = pre := by
    conv => rhs; rw [← List.map_id pre]
    apply List.map_congr_left
    intro n hn
    cases n with
    | mk f ins out =>
      simp only [Node.replaceUses, id, Node.mk.injEq, true_and, and_true]
      conv => rhs; rw [← List.map_id ins]
      apply List.map_congr_left
      intro i hi
      have : i ≠ old := fun e => hpre _ hn (by simpa [e] using hi)
      simp [subst, this]
  have hrun : run sem env0 ((pre ++ post).map (Node.replaceUses old new)) = run sem env0 (pre ++ post) := by
    rw [List.map_append, hpre', run_append, run_append]
    exact run_replaceUses sem old new post _ heq hpost
  simp only [Graph.eval, Graph.replaceUses, hrun, List.map_map]
  apply List.map_congr_left
  intro o _
  simp only [Function.comp, subst]
  split
  · rename_i ho
    rw [ho, run_append, run_untouched sem post _ old (fun n hn => (hpost n hn).1),
      run_untouched sem post _ new (fun n hn => (hpost n hn).2)]
    exact heq.symm
  · rfl

/-- **`graph.remove` is sound**: removing nodes whose outputs nothing reads (no node input — captures
    included —, no graph output) does not change any graph output. -/
theorem remove_sound (env0 : Env V) (g : Graph) (dead : List Nat)
    (hunread : ∀ n ∈ g.nodes, ∀ i ∈ n.ins, i ∉ dead) (houts : ∀ o ∈ g.outs, o ∉ dead) :
    (g.remove dead).eval sem env0 = g.eval sem env0 := by
  have key : ∀ (ns : List Node) (e1 e2 : Env V), (∀ v, v ∉ dead → e1 v = e2 v) →
      (∀ n ∈ ns, ∀ i ∈ n.ins, i ∉ dead) →
      ∀ v, v ∉ dead → run sem e1 (ns.filter (fun n => !dead.contains n.out)) v = run sem e2 ns v := by
    intro ns
    induction ns with
    | nil => intro e1 e2 h _ v hv; exact h v hv
    | cons n ns ih =>
      intro e1 e2 h hr v hv
      have hins : n.ins.map e1 = n.ins.map e2 :=
        List.map_congr_left (fun i hi => h i (hr n (List.mem_cons_self ..) i hi))
      have hr' : ∀ m ∈ ns, ∀ i ∈ m.ins, i ∉ dead := fun m hm => hr m (List.mem_cons_of_mem _ hm)
      by_cases hd : n.out ∈ dead
      · have : (n :: ns).filter (fun n => !dead.contains n.out) = ns.filter (fun n => !dead.contains n.out) := by
          simp [List.filter_cons, hd]
        rw [this, run_cons]
        apply ih e1 (step sem e2 n) _ hr' v hv
        intro w hw
        have : w ≠ n.out := fun e => hw (e ▸ hd)
        simp [step, this, h w hw]
      · have : (n :: ns).filter (fun n => !dead.contains n.out) =
            n :: ns.filter (fun n => !dead.contains n.out) := by
          simp [List.filter_cons, hd]
        rw [this, run_cons, run_cons]
        apply ih (step sem e1 n) (step sem e2 n) _ hr' v hv
        intro w hw
        simp only [step]
        by_cases hwo : w = n.out
        · simp [hwo, hins]
        · simp [hwo, h w hw]
  simp only [Graph.eval, Graph.remove]
  apply List.map_congr_left
  intro o ho
  exact key g.nodes env0 env0 (fun _ _ => rfl) hunread o (houts o ho)

/-- **Bypass**: what every fold ends with. If at the end of `pre` the value `y` equals `x` (an algebraic
    fact such as `T₂(T₁(x)) = x`), rewiring all later readers of `y` to `x` and then removing nodes that
    nothing reads any more preserves every graph output. -/
theorem bypass_sound (env0 : Env V) (pre post : List Node) (outs : List Nat) (y x : Nat) (dead : List Nat)
    (heq : run sem env0 pre y = run sem env0 pre x)
    (hpre : ∀ n ∈ pre, y ∉ n.ins)
    (hpost : ∀ n ∈ post, n.out ≠ y ∧ n.out ≠ x)
    (hunread : ∀ n ∈ (Graph.replaceUses y x ⟨pre ++ post, outs⟩).nodes, ∀ i ∈ n.ins, i ∉ dead)
    (houts : ∀ o ∈ (Graph.replaceUses y x ⟨pre ++ post, outs⟩).outs, o ∉ dead) :
    ((Graph.replaceUses y x ⟨pre ++ post, outs⟩).remove dead).eval sem env0 =
      (Graph.mk (pre ++ post) outs).eval sem env0 := by
  rw [remove_sound sem env0 _ dead hunread houts]
  exact replaceUses_sound sem env0 pre post outs y x heq hpre hpost

/-- **Internal values may change iff nothing outside reads them.** Two graphs `pre ++ mid ++ post` and
    `pre ++ mid' ++ post` whose middle parts agree outside a set `S` of internal ids compute the same outputs
    provided no node of `post` reads an id of `S` (single-consumer / no-capture guards) and no graph output is
    in `S` (`_value_is_observed`). -/
theorem internal_change_sound (S : Nat → Prop) (env0 : Env V) (pre mid mid' post : List Node) (outs : List Nat)
    (hmid : ∀ v, ¬ S v → run sem (run sem env0 pre) mid v = run sem (run sem env0 pre) mid' v)
    (hpost : ∀ n ∈ post, ∀ i ∈ n.ins, ¬ S i)
    (houts : ∀ o ∈ outs, ¬ S o) :
    (Graph.mk (pre ++ mid' ++ post) outs).eval sem env0 = (Graph.mk (pre ++ mid ++ post) outs).eval sem env0 := by
  simp only [Graph.eval]
  apply List.map_congr_left
  intro o ho
  rw [run_append, run_append, run_append, run_append]
  exact (frame sem post S _ _ hmid hpost o (Or.inl (houts o ho))).symm

/-! ### Non-vacuity and refutations -/

/-- operators of the demo interpretation on `Int`: 0 = negate ("transpose" stand-in: an involution),
    1 = add one, 2 = double -/
def demoSem : Nat → List (Option Int) → Option Int
  | 0, [some a] => some (-a)
  | 1, [some a] => some (a + 1)
  | 2, [some a] => some (2 * a)
  | _, _ => none

def demoEnv : Env Int := fun v => if v = 0 then some 5 else none

/-- `t = neg x; u = neg t; y = u + 1` -/
def demoG : Graph := ⟨[⟨0, [0], 1⟩, ⟨0, [1], 2⟩, ⟨1, [2], 3⟩], [3]⟩

-- the hypotheses of `bypass_sound` hold for `pre = [t, u]`, `post = [y]`, rewiring u ↦ x, dropping t and u
example : run demoSem demoEnv [⟨0, [0], 1⟩, ⟨0, [1], 2⟩] 2 = run demoSem demoEnv [⟨0, [0], 1⟩, ⟨0, [1], 2⟩] 0 := by
  decide
example : ((demoG.replaceUses 2 0).remove [1, 2]).eval demoSem demoEnv = demoG.eval demoSem demoEnv := by decide
example : ((demoG.replaceUses 2 0).remove [1, 2]) = ⟨[⟨1, [0], 3⟩], [3]⟩ := by decide

/-- removing a node that is still a graph output is NOT sound (the `houts` hypothesis is needed): the
    output becomes undefined. -/
theorem remove_observed_refuted :
    ((Graph.mk [⟨0, [0], 1⟩, ⟨1, [1], 2⟩] [1, 2]).replaceUses 99 0 |>.remove [1]).eval demoSem demoEnv ≠
      (Graph.mk [⟨0, [0], 1⟩, ⟨1, [1], 2⟩] [1, 2]).eval demoSem demoEnv := by decide

/-- changing an internal value that is ALSO a graph output is NOT sound (the `houts` hypothesis of
    `internal_change_sound`): `t = neg x; r = t + 1; y = neg r` with outputs `[y, r]`, rewritten to
    `r = x + 1; y = r` (a "fold" that is right for `y` only if the middle operator commuted with `neg`):
    here `r` changes from `-x+1` to `x+1`. -/
theorem observed_intermediate_refuted :
    (Graph.mk [⟨1, [0], 2⟩] [2]).eval demoSem demoEnv ≠
      (Graph.mk [⟨0, [0], 1⟩, ⟨1, [1], 2⟩] [2]).eval demoSem demoEnv := by decide

end J2O.GraphEdit
