/-
C03 — property theorems (statements + proofs + non-vacuity examples only).

Specification (no accumulator, no recursion over the tree):
* `scopeAt? p outer g`  the scope reached from `g` by path `p` together with the names visible
                         from its enclosing scopes (outer names, then – per step – the inputs,
                         initializers and the outputs of the nodes *before* the owning node);
* `LocalOK vis g`       positional facts about ONE scope: every name defined exactly once, none
                         shadows a visible outer name, graph outputs are defined locally, every
                         node input is visible from outside or defined by an earlier node;
* `CallOK`              a node's domain is imported; outside the default domain it is a call of a
                         defined function; arities agree with the definition;
* `WellScoped m`        `LocalOK`/`CallOK` for EVERY scope at EVERY depth of the main graph and of
                         every function body, function bodies closed (`outer = []`) and without
                         initializers, function keys unique, function domains imported.

Theorems:
* `checkScopes_sound`      checkScopes m = true → WellScoped m            (unbounded nesting)
* `visible_names_unique`   … and along every scope chain no name is defined twice
* `renderB_injective`, `renderC_injective` (format level), `fresh_injective` (a whole call sequence
  on one counter dictionary mints pairwise distinct names), `child_names_disjoint`,
  `root_child_disjoint`, `sibling_prefixes_distinct`; limits shown by `example`s.
-/
import J2O.Lemmas.C03Lists
set_option linter.unusedSimpArgs false
set_option linter.unusedVariables false

namespace J2O.C03
open J2O.MT

/-! ## Specification -/

/-- The scope at path `p` and the names visible from its enclosing scopes. -/
def scopeAt? : List (Nat × Nat) → List String → Graph → Option (List String × Graph)
  | [], vis, g => some (vis, g)
  | (i, j) :: p, vis, g =>
    match g.sub? i j with
    | none => none
    | some b => scopeAt? p (vis ++ (g.inputs ++ g.inits) ++ definedBy (g.nodes.take i)) b

/-- Names defined in a scope: inputs, initializers, node outputs. -/
def localDefs (g : Graph) : List String := g.inputs ++ g.inits ++ definedBy g.nodes

structure LocalOK (vis : List String) (g : Graph) : Prop where
  /-- each name is defined exactly once in its scope -/
  defs_nodup : (localDefs g).Nodup
  /-- no local definition re-defines a name visible from an enclosing scope -/
  no_shadow : ∀ x ∈ localDefs g, x ∉ vis
  /-- graph outputs are defined in the graph itself -/
  outputs_defined : ∀ o ∈ g.outputs, o ∈ localDefs g
  /-- definition before use: input `x` of node `i` is visible from an enclosing scope, or a graph
      input / initializer, or an output of one of the nodes `0..i-1` -/
  def_before_use : ∀ i n, g.nodes[i]? = some n → ∀ x ∈ n.ins, x ≠ "" →
      x ∈ vis ∨ x ∈ g.inputs ∨ x ∈ g.inits ∨ x ∈ definedBy (g.nodes.take i)

structure CallOK (imports : List String) (funcs : List Func) (n : Node) : Prop where
  domain_imported : n.domain ∈ imports
  resolves : n.domain ≠ "" → ∃ f ∈ funcs, f.domain = n.domain ∧ f.name = n.op
  arity : ∀ f ∈ funcs, f.domain = n.domain → f.name = n.op →
      f.inputs.length = n.ins.length ∧ f.outputs.length = n.outsRaw.length

structure FuncOK (m : Model) (f : Func) : Prop where
  no_initializers : f.inits = []
  domain_imported : f.domain ∈ importDomains m.imports
  /-- closed: the body is checked with NO outer names -/
  scopes : ∀ p vis g, scopeAt? p [] f.asGraph = some (vis, g) → LocalOK vis g
  calls : ∀ p g, f.asGraph.at? p = some g → ∀ n ∈ g.nodes, CallOK (importDomains f.imports) m.funcs n

structure WellScoped (m : Model) : Prop where
  scopes : ∀ p vis g, scopeAt? p [] m.graph = some (vis, g) → LocalOK vis g
  calls : ∀ p g, m.graph.at? p = some g → ∀ n ∈ g.nodes, CallOK (importDomains m.imports) m.funcs n
  funcs_unique : (funcKeys m.funcs).Nodup
  funcs : ∀ f ∈ m.funcs, FuncOK m f

/-! ## Soundness of the checker -/

theorem checkNode_sound (vis : List String) (n : Node) (h : checkNode vis n = true) :
    (∀ x ∈ n.ins, x ≠ "" → x ∈ vis) ∧ n.outs.Nodup ∧ (∀ x ∈ n.outs, x ∉ vis) ∧
      checkBodies vis n.bodies = true := by
  cases n with
  | mk d o ins outs a bs =>
    simp only [checkNode, Bool.and_eq_true] at h
    obtain ⟨⟨⟨h1, h2⟩, h3⟩, h4⟩ := h
    refine ⟨?_, nodupB_sound _ h2, disjointB_sound _ _ h3, h4⟩
    intro x hx hne
    have := (List.all_eq_true.mp h1) x hx
    simp only [Bool.or_eq_true, beq_iff_eq] at this
    rcases this with h | h
    · exact absurd h hne
    · exact contains_mem.mp h

/-- Invariant of the node walk. -/
theorem checkNodes_sound : ∀ (ns : List Node) (vis : List String), checkNodes vis ns = true →
    (definedBy ns).Nodup ∧ (∀ x ∈ definedBy ns, x ∉ vis) ∧
    (∀ i n, ns[i]? = some n →
        (∀ x ∈ n.ins, x ≠ "" → x ∈ vis ++ definedBy (ns.take i)) ∧
        checkBodies (vis ++ definedBy (ns.take i)) n.bodies = true)
  | [], vis, _ => by
    refine ⟨by simp [definedBy_nil], by simp [definedBy_nil], ?_⟩
    intro i n hn; simp at hn
  | m :: rest, vis, h => by
    simp only [checkNodes, Bool.and_eq_true] at h
    obtain ⟨hm, hrest⟩ := h
    obtain ⟨m1, m2, m3, m4⟩ := checkNode_sound vis m hm
    obtain ⟨r1, r2, r3⟩ := checkNodes_sound rest (vis ++ m.outs) hrest
    refine ⟨?_, ?_, ?_⟩
    · rw [definedBy_cons]
      refine List.nodup_append.mpr ⟨m2, r1, ?_⟩
      intro a ha b hb hab
      subst hab
      exact r2 a hb (List.mem_append_right _ ha)
    · intro x hx
      rw [definedBy_cons] at hx
      rcases List.mem_append.mp hx with hx | hx
      · exact m3 x hx
      · intro hv; exact r2 x hx (List.mem_append_left _ hv)
    · intro i n hn
      cases i with
      | zero =>
        simp only [List.getElem?_cons_zero, Option.some.injEq] at hn
        subst hn
        simp only [List.take_zero, definedBy_nil, List.append_nil]
        exact ⟨m1, m4⟩
      | succ k =>
        simp only [List.getElem?_cons_succ] at hn
        have := r3 k n hn
        simp only [List.take_succ_cons, definedBy_cons, ← List.append_assoc]
        exact this

theorem checkGraph_sound (outer : List String) (g : Graph) (h : checkGraph outer g = true) :
    LocalOK outer g ∧
    ∀ i n, g.nodes[i]? = some n →
      checkBodies (outer ++ (g.inputs ++ g.inits) ++ definedBy (g.nodes.take i)) n.bodies = true := by
  cases g with
  | mk inputs inits nodes outputs vinfo =>
    simp only [checkGraph, Bool.and_eq_true] at h
    obtain ⟨⟨⟨h1, h2⟩, h3⟩, h4⟩ := h
    have b1 := nodupB_sound _ h1
    have b2 := disjointB_sound _ _ h2
    obtain ⟨n1, n2, n3⟩ := checkNodes_sound nodes (outer ++ (inputs ++ inits)) h3
    refine ⟨⟨?_, ?_, ?_, ?_⟩, ?_⟩
    · show (inputs ++ inits ++ definedBy nodes).Nodup
      refine List.nodup_append.mpr ⟨b1, n1, ?_⟩
      intro a ha b hb hab
      subst hab
      exact n2 a hb (List.mem_append_right _ ha)
    · intro x hx
      rcases List.mem_append.mp hx with hx | hx
      · exact b2 x hx
      · intro hv; exact n2 x hx (List.mem_append_left _ hv)
    · intro o ho
      exact contains_mem.mp ((List.all_eq_true.mp h4) o ho)
    · intro i n hn x hx hne
      have := (n3 i n hn).1 x hx hne
      simp only [List.mem_append] at this
      simp only [Graph.inputs, Graph.inits, Graph.nodes]
      rcases this with (h | h | h) | h
      · exact Or.inl h
      · exact Or.inr (Or.inl h)
      · exact Or.inr (Or.inr (Or.inl h))
      · exact Or.inr (Or.inr (Or.inr h))
    · intro i n hn
      exact (n3 i n hn).2

/-- One step down keeps the checker's verdict, with exactly the visible names of `scopeAt?`. -/
theorem checkGraph_sub (outer : List String) (g b : Graph) (i j : Nat)
    (h : checkGraph outer g = true) (hs : g.sub? i j = some b) :
    checkGraph (outer ++ (g.inputs ++ g.inits) ++ definedBy (g.nodes.take i)) b = true := by
  unfold Graph.sub? at hs
  split at hs
  · cases hs
  · rename_i n hn
    exact checkBodies_mem _ _ ((checkGraph_sound outer g h).2 i n hn) b (List.mem_of_getElem? hs)

/-- Every scope at every depth is locally well formed. -/
theorem checkGraph_deep : ∀ (p : List (Nat × Nat)) (outer : List String) (g : Graph),
    checkGraph outer g = true → ∀ vis g', scopeAt? p outer g = some (vis, g') → LocalOK vis g'
  | [], outer, g, h, vis, g', hs => by
    simp only [scopeAt?, Option.some.injEq, Prod.mk.injEq] at hs
    obtain ⟨rfl, rfl⟩ := hs
    exact (checkGraph_sound outer g h).1
  | (i, j) :: p, outer, g, h, vis, g', hs => by
    simp only [scopeAt?] at hs
    split at hs
    · cases hs
    · rename_i b hb
      exact checkGraph_deep p _ b (checkGraph_sub outer g b i j h hb) vis g' hs

theorem callOK_sound (imports : List String) (funcs : List Func) (n : Node)
    (h : callOK imports funcs n = true) : CallOK imports funcs n := by
  simp only [callOK, Bool.and_eq_true, Bool.or_eq_true, beq_iff_eq] at h
  obtain ⟨⟨h1, h2⟩, h3⟩ := h
  refine ⟨contains_mem.mp h1, ?_, ?_⟩
  · intro hne
    rcases h2 with h2 | h2
    · exact absurd h2 hne
    · obtain ⟨f, hf, hd⟩ := List.any_eq_true.mp h2
      simp only [defines, Bool.and_eq_true, beq_iff_eq] at hd
      exact ⟨f, hf, hd.1, hd.2⟩
  · intro f hf hd hn
    have := (List.all_eq_true.mp h3) f hf
    simp only [defines, hd, hn, beq_self_eq_true, Bool.and_self, Bool.not_true, Bool.false_or,
      Bool.and_eq_true, beq_iff_eq] at this
    exact this

/-- **Soundness of the checker, for unbounded nesting.** -/
theorem checkScopes_sound (m : Model) (h : checkScopes m = true) : WellScoped m := by
  simp only [checkScopes, Bool.and_eq_true] at h
  obtain ⟨⟨⟨h1, h2⟩, h3⟩, h4⟩ := h
  refine ⟨?_, ?_, nodupKeys_sound _ h3, ?_⟩
  · intro p vis g hs
    exact checkGraph_deep p [] m.graph h1 vis g hs
  · intro p g hg n hn
    exact callOK_sound _ _ n (allNodes_sound _ m.graph h2 p g hg n hn)
  · intro f hf
    have := (List.all_eq_true.mp h4) f hf
    simp only [checkFunc, Bool.and_eq_true, List.isEmpty_iff] at this
    obtain ⟨⟨⟨f1, f2⟩, f3⟩, f4⟩ := this
    refine ⟨f1, contains_mem.mp f2, ?_, ?_⟩
    · intro p vis g hs
      exact checkGraph_deep p [] f.asGraph f3 vis g hs
    · intro p g hg n hn
      exact callOK_sound _ _ n (allNodes_sound _ f.asGraph f4 p g hg n hn)

/-! ### along every scope chain no name is defined twice -/

theorem visible_names_unique_aux : ∀ (p : List (Nat × Nat)) (outer : List String) (g : Graph),
    outer.Nodup → checkGraph outer g = true →
    ∀ vis g', scopeAt? p outer g = some (vis, g') → (vis ++ localDefs g').Nodup
  | [], outer, g, ho, h, vis, g', hs => by
    simp only [scopeAt?, Option.some.injEq, Prod.mk.injEq] at hs
    obtain ⟨rfl, rfl⟩ := hs
    have ok := (checkGraph_sound outer g h).1
    refine List.nodup_append.mpr ⟨ho, ok.defs_nodup, ?_⟩
    intro a ha b hb hab
    subst hab
    exact ok.no_shadow a hb ha
  | (i, j) :: p, outer, g, ho, h, vis, g', hs => by
    simp only [scopeAt?] at hs
    split at hs
    · cases hs
    · rename_i b hb
      have ok := (checkGraph_sound outer g h).1
      have hall : (outer ++ localDefs g).Nodup := by
        refine List.nodup_append.mpr ⟨ho, ok.defs_nodup, ?_⟩
        intro a ha c hc hac
        subst hac
        exact ok.no_shadow a hc ha
      have hsub : (outer ++ (g.inputs ++ g.inits) ++ definedBy (g.nodes.take i)).Sublist
          (outer ++ localDefs g) := by
        unfold localDefs
        rw [List.append_assoc]
        exact List.Sublist.append (List.Sublist.refl _)
          (List.Sublist.append (List.Sublist.refl _) (definedBy_take_sublist _ _))
      exact visible_names_unique_aux p _ b (hsub.nodup hall)
        (checkGraph_sub outer g b i j h hb) vis g' hs

/-- In an accepted model, the names visible in any scope at any depth (all enclosing definitions
    before the owning nodes, plus the scope's own definitions) are pairwise distinct: a use can
    never be ambiguous. -/
theorem visible_names_unique (m : Model) (h : checkScopes m = true) :
    ∀ p vis g, scopeAt? p [] m.graph = some (vis, g) → (vis ++ localDefs g).Nodup := by
  simp only [checkScopes, Bool.and_eq_true] at h
  intro p vis g hs
  exact visible_names_unique_aux p [] m.graph List.nodup_nil h.1.1.1 vis g hs

/-! ### non-vacuity: an accepted two-level model with a function, and rejected variants -/

def exBody : Graph :=
  .mk ["loop_body_0/i", "loop_body_0/c", "loop_body_0/x"] []
    [.mk "" "Add" ["loop_body_0/x", "y"] ["loop_body_0/s"] [] [],
     .mk "custom" "g" ["loop_body_0/s"] ["loop_body_0/r"] [] [],
     .mk "" "Identity" ["loop_body_0/c"] ["loop_body_0/c_out"] [] []]
    ["loop_body_0/c_out", "loop_body_0/r"] []

def exFunc : Func :=
  { domain := "custom", name := "g", inputs := ["f_in_0"], outputs := ["out"], inits := [],
    imports := [("", 23)], nodes := [.mk "" "Tanh" ["f_in_0"] ["out"] [] []], vinfo := [] }

def exModel : Model :=
  { imports := [("", 23), ("custom", 1)],
    graph := .mk ["x"] ["k"] [.mk "" "Mul" ["x", "k"] ["y"] [] [],
                              .mk "" "Loop" ["", "k", "x"] ["z"] ["body"] [exBody]] ["z"] [],
    funcs := [exFunc] }

example : checkScopes exModel = true := by decide
example : WellScoped exModel := checkScopes_sound _ (by decide)
-- the body sees `y` (defined before the Loop) but the Loop's own output `z` is not visible in it
example : (scopeAt? [(1, 0)] [] exModel.graph).map (·.1) = some ["x", "k", "y"] := by decide
-- use before definition
example : checkScopes { exModel with graph := (Graph.mk ["x"] ["k"]
    [.mk "" "Loop" ["", "k", "x"] ["z"] ["body"] [exBody], .mk "" "Mul" ["x", "k"] ["y"] [] []] ["z"] []) }
    = false := by decide
-- a body re-defining an outer name
example : checkScopes { exModel with graph := (Graph.mk ["x"] ["k"] [.mk "" "Mul" ["x", "k"] ["y"] [] [],
    .mk "" "If" ["k"] ["z"] ["then_branch"] [.mk [] [] [.mk "" "Identity" ["x"] ["y"] [] []] ["y"] []]]
    ["z"] []) } = false := by decide
-- function not defined / domain not imported / arity mismatch / function owning an initializer
example : checkScopes { exModel with funcs := [] } = false := by decide
example : checkScopes { exModel with imports := [("", 23)] } = false := by decide
example : checkScopes { exModel with funcs := [{ exFunc with inputs := ["f_in_0", "f_in_1"] }] } = false := by
  decide
example : checkScopes { exModel with funcs := [{ exFunc with inits := ["w"] }] } = false := by decide
-- a function body that is not closed (uses a main-graph name)
example : checkScopes { exModel with funcs := [{ exFunc with
    nodes := [.mk "" "Add" ["f_in_0", "k"] ["out"] [] []] }] } = false := by decide

/-! ## The `fresh_name` schemes -/

def noDigit (c : Char) : Prop := ¬ (isDigit c = true)

/-- `f"{base}_{i}"` is injective in (base, i) — for ALL bases. -/
theorem renderB_injective (b₁ b₂ : Str) (i j : Nat) (h : renderB b₁ i = renderB b₂ j) :
    b₁ = b₂ ∧ i = j := by
  unfold renderB at h
  have := split_last (fun c => isDigit c = true) b₁ b₂ (digits i) (digits j) '_' '_'
    (digits_isDigit i) (digits_isDigit j) underscore_not_digit underscore_not_digit h
  exact ⟨this.1, digits_inj i j this.2.2⟩

/-- a base "ends in `_`" -/
def endsUnderscore (b : Str) : Prop := b.getLast? = some '_'

theorem endsSep_split (b : Str) (h : endsSep b = true) :
    ∃ x c, b = x ++ [c] ∧ (c = '_' ∨ c = '/') := by
  unfold endsSep at h
  split at h
  · rename_i c hc
    obtain ⟨x, hx⟩ := snoc_of_getLast? b c hc
    refine ⟨x, c, hx, ?_⟩
    simp only [Bool.or_eq_true, beq_iff_eq] at h
    exact h
  · cases h

/-- Every `renderC` name has the shape `X ++ s :: digits i` with `s ∈ {_, /}`, and the base is
    recovered from `(X, s)` as `X ++ [s]` (separator was part of the base) or `X`. -/
theorem renderC_shape (b : Str) (i : Nat) :
    ∃ X s, renderC b i = X ++ s :: digits i ∧ (s = '_' ∨ s = '/') ∧
      ((endsSep b = true ∧ b = X ++ [s]) ∨ (endsSep b = false ∧ b = X ∧ s = '_')) := by
  unfold renderC
  by_cases h : endsSep b = true
  · obtain ⟨x, c, hb, hc⟩ := endsSep_split b h
    refine ⟨x, c, ?_, hc, Or.inl ⟨h, hb⟩⟩
    rw [if_pos h, hb]; simp
  · have h' : endsSep b = false := by simpa using h
    exact ⟨b, '_', by simp [h'], Or.inl rfl, Or.inr ⟨h', rfl, rfl⟩⟩

theorem endsSep_of_snoc_underscore (X : Str) : endsSep (X ++ ['_']) = true := by
  simp [endsSep]

theorem getLast?_snoc (X : Str) (c : Char) : (X ++ [c]).getLast? = some c := by simp

/-- `IRContext.fresh_name`'s format is injective in (base, i) for bases that do not end in `_`.
    (Without the hypothesis it is not: see the `example` below.) -/
theorem renderC_injective (b₁ b₂ : Str) (i j : Nat) (h1 : ¬ endsUnderscore b₁)
    (h2 : ¬ endsUnderscore b₂) (h : renderC b₁ i = renderC b₂ j) : b₁ = b₂ ∧ i = j := by
  obtain ⟨X₁, s₁, e₁, hs₁, c₁⟩ := renderC_shape b₁ i
  obtain ⟨X₂, s₂, e₂, hs₂, c₂⟩ := renderC_shape b₂ j
  rw [e₁, e₂] at h
  have nd : ∀ s, (s = '_' ∨ s = '/') → ¬ (isDigit s = true) := by
    intro s hs; rcases hs with rfl | rfl
    · exact underscore_not_digit
    · exact slash_not_digit
  obtain ⟨hX, hs, hd⟩ := split_last (fun c => isDigit c = true) X₁ X₂ (digits i) (digits j) s₁ s₂
    (digits_isDigit i) (digits_isDigit j) (nd s₁ hs₁) (nd s₂ hs₂) h
  refine ⟨?_, digits_inj i j hd⟩
  subst hX; subst hs
  rcases c₁ with ⟨_, hb₁⟩ | ⟨_, hb₁, hu₁⟩ <;> rcases c₂ with ⟨_, hb₂⟩ | ⟨_, hb₂, hu₂⟩
  · rw [hb₁, hb₂]
  · -- b₁ = X ++ "_" ends in an underscore: excluded
    subst hu₂
    exact absurd (by rw [hb₁]; exact getLast?_snoc _ _) h1
  · subst hu₁
    exact absurd (by rw [hb₂]; exact getLast?_snoc _ _) h2
  · rw [hb₁, hb₂]

/-! ### a whole call sequence on one counter dictionary -/

theorem get_bump_self (c : Counters) (b : Str) : (c.bump b).get b = c.get b + 1 := by
  induction c with
  | nil => simp [Counters.bump, Counters.get]
  | cons kv rest ih =>
    obtain ⟨k, v⟩ := kv
    by_cases hk : k = b
    · simp [Counters.bump, Counters.get, hk]
    · simp [Counters.bump, Counters.get, hk, ih]

theorem get_bump_other (c : Counters) (b b' : Str) (h : b' ≠ b) : (c.bump b).get b' = c.get b' := by
  induction c with
  | nil => simp [Counters.bump, Counters.get, h.symm]
  | cons kv rest ih =>
    obtain ⟨k, v⟩ := kv
    by_cases hk : k = b
    · subst hk
      have : ¬ k = b' := fun e => h e.symm
      simp [Counters.bump, Counters.get, this]
    · by_cases hk' : k = b'
      · subst hk'
        simp [Counters.bump, Counters.get, hk]
      · simp [Counters.bump, Counters.get, hk, hk', ih]

theorem get_bump_le (c : Counters) (b b' : Str) : c.get b' ≤ (c.bump b).get b' := by
  by_cases h : b' = b
  · subst h; rw [get_bump_self]; omega
  · rw [get_bump_other c b b' h]; omega

/-- every name minted from state `c` carries a counter value not below the state's -/
theorem mintAll_mem (render : Str → Nat → Str) : ∀ (bs : List Str) (c : Counters) (nm : Str),
    nm ∈ mintAll render c bs → ∃ b ∈ bs, ∃ i, c.get b ≤ i ∧ nm = render b i
  | [], _, nm, h => by simp [mintAll] at h
  | b :: bs, c, nm, h => by
    simp only [mintAll, fresh, List.mem_cons] at h
    rcases h with h | h
    · exact ⟨b, List.mem_cons_self, c.get b, Nat.le_refl _, h⟩
    · obtain ⟨b', hb', i, hi, hn⟩ := mintAll_mem render bs (c.bump b) nm h
      exact ⟨b', List.mem_cons_of_mem _ hb', i, Nat.le_trans (get_bump_le c b b') hi, hn⟩

/-- **Names minted from one counter dictionary are pairwise distinct**, for any call sequence and
    any starting state, provided the format is injective on the bases used. -/
theorem fresh_injective (render : Str → Nat → Str) (bs : List Str)
    (hinj : ∀ b₁ ∈ bs, ∀ b₂ ∈ bs, ∀ i j, render b₁ i = render b₂ j → b₁ = b₂ ∧ i = j) :
    ∀ c : Counters, (mintAll render c bs).Nodup := by
  induction bs with
  | nil => intro c; simp [mintAll]
  | cons b bs ih =>
    intro c
    simp only [mintAll, fresh]
    refine List.nodup_cons.mpr ⟨?_, ih (fun b₁ h₁ b₂ h₂ => hinj b₁ (List.mem_cons_of_mem _ h₁) b₂
      (List.mem_cons_of_mem _ h₂)) _⟩
    intro hmem
    obtain ⟨b', hb', i, hi, hn⟩ := mintAll_mem render bs (c.bump b) _ hmem
    obtain ⟨hb, hij⟩ := hinj b List.mem_cons_self b' (List.mem_cons_of_mem _ hb') _ _ hn
    subst hb
    rw [get_bump_self] at hi
    omega

/-- builder scheme: no hypothesis on the bases at all -/
theorem fresh_injective_builder (bs : List Str) (c : Counters) : (mintAll renderB c bs).Nodup :=
  fresh_injective renderB bs (fun b₁ _ b₂ _ i j h => renderB_injective b₁ b₂ i j h) c

/-- context scheme: bases must not end in `_` -/
theorem fresh_injective_context (bs : List Str) (hb : ∀ b ∈ bs, ¬ endsUnderscore b) (c : Counters) :
    (mintAll renderC c bs).Nodup :=
  fresh_injective renderC bs
    (fun b₁ h₁ b₂ h₂ i j h => renderC_injective b₁ b₂ i j (hb b₁ h₁) (hb b₂ h₂) h) c

/-! ### `make_subgraph_context`: the prefix discipline -/

def noSlash (s : Str) : Prop := ∀ c ∈ s, c ≠ '/'

theorem digits_noSlash (i : Nat) : noSlash (digits i) := by
  intro c hc he
  subst he
  exact slash_not_digit (digits_isDigit i _ hc)

/-- a child name is `prefix ++ "/" ++ (slash-free suffix)` when the base is slash-free -/
theorem child_name_shape (pref base : Str) (i : Nat) (hb : noSlash base) :
    ∃ suf, renderC (childBase pref base) i = pref ++ '/' :: suf ∧ noSlash suf := by
  unfold renderC childBase
  split
  · refine ⟨base ++ digits i, by simp, ?_⟩
    intro c hc
    rcases List.mem_append.mp hc with hc | hc
    · exact hb c hc
    · exact digits_noSlash i c hc
  · refine ⟨base ++ '_' :: digits i, by simp, ?_⟩
    intro c hc
    rcases List.mem_append.mp hc with hc | hc
    · exact hb c hc
    · rcases List.mem_cons.mp hc with hc | hc
      · subst hc; decide
      · exact digits_noSlash i c hc

/-- **Names minted in child contexts with different prefixes never collide** (bases free of `/`;
    nothing is assumed about the prefixes, which may themselves be nested `a_0/b_1`). -/
theorem child_names_disjoint (p q b₁ b₂ : Str) (i j : Nat) (hpq : p ≠ q)
    (h₁ : noSlash b₁) (h₂ : noSlash b₂) :
    renderC (childBase p b₁) i ≠ renderC (childBase q b₂) j := by
  intro h
  obtain ⟨s₁, e₁, n₁⟩ := child_name_shape p b₁ i h₁
  obtain ⟨s₂, e₂, n₂⟩ := child_name_shape q b₂ j h₂
  rw [e₁, e₂] at h
  have := split_last (fun c => c ≠ '/') p q s₁ s₂ '/' '/' n₁ n₂ (by simp) (by simp) h
  exact hpq this.1

/-- names of the root context (slash-free bases) never collide with names of any child context -/
theorem root_child_disjoint (p b₁ b₂ : Str) (i j : Nat) (h₁ : noSlash b₁) :
    renderC b₁ i ≠ renderC (childBase p b₂) j := by
  intro h
  have hl : noSlash (renderC b₁ i) := by
    unfold renderC
    split
    · intro c hc
      rcases List.mem_append.mp hc with hc | hc
      · exact h₁ c hc
      · exact digits_noSlash i c hc
    · intro c hc
      rcases List.mem_append.mp hc with hc | hc
      · exact h₁ c hc
      · rcases List.mem_cons.mp hc with hc | hc
        · subst hc; decide
        · exact digits_noSlash i c hc
  have hr : '/' ∈ renderC (childBase p b₂) j := by
    unfold renderC childBase
    split <;> simp
  rw [← h] at hr
  exact hl '/' hr rfl

/-- the prefixes of two children created from one parent counter are different: they are two
    mints of `parent.fresh_name(prefix)` -/
theorem sibling_prefixes_distinct (bs : List Str) (hb : ∀ b ∈ bs, ¬ endsUnderscore b)
    (c : Counters) : (mintAll renderC c bs).Nodup := fresh_injective_context bs hb c

/-! ### non-vacuity and the stated limits -/

example : renderB "Add".toList 12 = "Add_12".toList := by decide
example : renderC "in".toList 0 = "in_0".toList := by decide
example : renderC "loop_body_0/".toList 3 = "loop_body_0/3".toList := by decide
example : renderC (childBase "loop_body_0".toList "v".toList) 7 = "loop_body_0/v_7".toList := by decide
example : mintAll renderC [] ["a".toList, "b".toList, "a".toList] =
    ["a_0".toList, "b_0".toList, "a_1".toList] := by decide
example : ¬ endsUnderscore "loop_body".toList := by unfold endsUnderscore; decide
example : noSlash "loop_body".toList := by unfold noSlash; decide
/-- LIMIT 1: a base ending in `_` collides with the same base without it (context scheme). -/
example : renderC "x".toList 5 = renderC "x_".toList 5 := by decide
/-- LIMIT 2: the two schemes use separate counters but the same format, so `builder.fresh_name`
    and `ctx.fresh_name` mint the same name; uniqueness in the final model therefore rests on
    onnx_ir's `NameFixPass` (library code), and explicit `_outputs=[…]`/`name_hint` names bypass
    the counters altogether. -/
example : renderB "v".toList 0 = renderC "v".toList 0 := by decide
/-- LIMIT 3: a base containing `/` in a parent can collide with a name of a nested child. -/
example : renderC (childBase "a_0".toList "b_0/c".toList) 0 =
    renderC (childBase "a_0/b_0".toList "c".toList) 0 := by decide

end J2O.C03
