/-
C03 (round 2) — no recursion among the model-local functions: property theorems.

* `callDepthOK_sound`  accepted with fuel `k` ⇒ every chain of calls starting at `f` is shorter than `k`
* `acyclic_sound`      accepted model ⇒ every chain of calls between model-local functions is shorter than the
                       number of functions
* `no_self_call`       … in particular no function calls itself (a self call yields chains of any length)
-/
import J2O.Props.C03Calls
import J2O.Model.C03Acyclic
set_option linter.unusedSimpArgs false
set_option linter.unusedVariables false
namespace J2O.C03
open J2O.MT

/-- `f` contains (at some depth of its body) a call that resolves to the model-local function `g` -/
def Calls (funcs : List Func) (f g : Func) : Prop :=
  g ∈ funcs ∧ ∃ p gr, f.asGraph.at? p = some gr ∧ ∃ n ∈ gr.nodes, g.domain = n.domain ∧ g.name = n.op

/-- a chain of calls `f → l₀ → l₁ → …` -/
inductive Chain (funcs : List Func) : Func → List Func → Prop where
  | nil (f : Func) : Chain funcs f []
  | cons {f g : Func} {l : List Func} : Calls funcs f g → Chain funcs g l → Chain funcs f (g :: l)

theorem callDepthOK_sound (funcs : List Func) : ∀ (k : Nat) (f : Func), callDepthOK funcs k f = true →
    ∀ l, Chain funcs f l → l.length < k
  | 0, f, h, _, _ => by simp [callDepthOK] at h
  | k + 1, f, h, l, hc => by
    cases hc with
    | nil => simp
    | cons hcall hrest =>
      rename_i g l'
      obtain ⟨hg, p, gr, hp, n, hn, hd, ho⟩ := hcall
      simp only [callDepthOK] at h
      have := allNodes_sound _ f.asGraph h p gr hp n hn
      have := (List.all_eq_true.mp this) g hg
      simp only [defines, hd, ho, beq_self_eq_true, Bool.and_self, Bool.not_true, Bool.false_or] at this
      have := callDepthOK_sound funcs k g this l' hrest
      simp only [List.length_cons]
      omega

/-- **No recursion among the functions of an accepted model**: every chain of calls between model-local
    functions is shorter than the number of functions … -/
theorem acyclic_sound (m : Model) (h : acyclic m = true) :
    ∀ f ∈ m.funcs, ∀ l, Chain m.funcs f l → l.length < m.funcs.length := by
  intro f hf l hc
  exact callDepthOK_sound m.funcs _ f ((List.all_eq_true.mp h) f hf) l hc

theorem chain_replicate (funcs : List Func) (f : Func) (h : Calls funcs f f) :
    ∀ k, Chain funcs f (List.replicate k f)
  | 0 => Chain.nil f
  | k + 1 => by
    rw [List.replicate_succ]
    exact Chain.cons h (chain_replicate funcs f h k)

/-- … in particular no function calls itself -/
theorem no_self_call (m : Model) (h : acyclic m = true) : ∀ f ∈ m.funcs, ¬ Calls m.funcs f f := by
  intro f hf hc
  have := acyclic_sound m h f hf _ (chain_replicate m.funcs f hc m.funcs.length)
  simp at this

def exRec : Func := { exF2 with nodes := [.mk "custom" "Block" ["a", "b"] ["out"] [] []] }
example : acyclic (exCall ["x", "x"]) = true := by decide
example : acyclic { exCall ["x", "x"] with funcs := [exRec] } = false := by decide
-- two functions calling each other
example : acyclic { exCall ["x", "x"] with funcs :=
    [{ exF2 with nodes := [.mk "custom" "Other" ["a", "b"] ["out"] [] []] },
     { exF2 with name := "Other", nodes := [.mk "custom" "Block" ["a", "b"] ["out"] [] []] }] } = false := by decide
example : Calls [exRec] exRec exRec :=
  ⟨List.mem_cons_self, [], _, rfl, _, List.mem_cons_self, rfl, rfl⟩
example : Chain [exF2] exF2 [] := Chain.nil _

end J2O.C03
