/-
C18 — property theorems for the `allclose` decision model (`J2O.Model.C18`).

Specification (definitions in Lemmas/C18.lean).  `Agrees cfg es gs`: the expected outputs `es` (what `fn` returned) and the
outputs `gs` ONNX Runtime produced have the same count, and for every output i — after the
layout handling the caller asked for and the exact (re,im) repack of a complex result — the
shapes are equal and every element pair is `Close`:
     finite:      |e − g| ≤ atol + rtol·|g|          (numpy's asymmetric test, exact arithmetic)
     non-finite:  the same infinity, or NaN on both sides
No cast is applied in the specification.

* `allclose_sound_same_dtype` FULL STRENGTH for outputs whose dtype equals the expected dtype (after the
                             complex repack): match ⇒ Agrees, no hypothesis on the values
* `allclose_sound_partial`   match ∧ NoLossyCast ⇒ Agrees  (all inputs, all tolerances ≥ 0).  Since fix
                             61b87cb `NoLossyCast` only says that numpy's own promotion
                             (`can_cast "safe"` / `result_type`) changes no value
* `allclose_sound_refuted`   RESIDUAL: without it the statement is still false — numpy promotes 64-bit
                             integers to float64 (replayed on the real code with rtol = atol = 0:
                             int64 2⁵³+1 against float64 2⁵³; uint64 2⁶³ against int64 2⁶³−1)
* `w1_fixed` … `w5_fixed`    regression: the five former witnesses (int64 = expected + 2³² against
                             int32, float 5.7 against int 5, int 2 against bool True, 1e300 against
                             float32 inf, (2, inf) pair against complex nan+5j) matched under the
                             pre-fix decision (`decideAllOld`) and are mismatches now
* `agreesB_iff`              the executable specification the driver prints is `Agrees`
* `mismatch_reported_partial` contrapositive form: ¬Agrees ∧ NoLossyCast ⇒ verdict ≠ match
* `tmp_restores`, `x64_restored_allclose`, `x64_restored_to_onnx`, `x64_history_restored`:
                             the global x64 flag is restored for every body (arbitrary nesting,
                             flag writes and exceptions inside), and for every history of calls
* `x64_restored_to_onnx_whole_call`, `flagFree_restoring`: … including the emit stage after the guarded
                             block, as long as that stage does not write the flag itself
* `force_alone_not_restoring` (information) `_force_jax_x64` alone would not have this property
-/
import J2O.Lemmas.C18
set_option linter.unusedSimpArgs false
set_option linter.unusedVariables false

namespace J2O.C18

/-! ### the property -/

/-- **Soundness (partial).** For all tolerances ≥ 0, all output lists, all layout flags: if the
    decision sequence of `_run_allclose` reports a match and the promotion of the two operands to
    one dtype changes no value, then the outputs really agree (count, shapes, every element within
    tolerance, NaN/inf placement).
    *Partial*: `NoLossyCast` is still needed because numpy's `can_cast(…, "safe")`/`result_type`
    send 64-bit integers to float64 — see `allclose_sound_refuted`. -/
theorem allclose_sound_partial (cfg : Cfg) (hr : 0 ≤ cfg.rtol) (ha : 0 ≤ cfg.atol)
    (es gs : List Tn) (hc : NoLossyCast cfg es gs) (h : decideAll cfg es gs = .isMatch) :
    Agrees cfg es gs := by
  unfold decideAll at h
  split at h
  · exact absurd h (by simp)
  · rename_i hl
    have hl' : es.length = gs.length := by
      by_cases hh : es.length = gs.length
      · exact hh
      · exact absurd hh hl
    refine ⟨hl', ?_⟩
    intro i h₁ h₂
    have := decideFrom_sound cfg hr ha es gs 0 hl'
      (by intro j h₁ h₂; simpa using hc j h₁ h₂) h i h₁ h₂
    simpa using this

/-- Contrapositive reading used in the property text: a model whose outputs deviate (beyond
    tolerance, in shape, in count, in NaN/inf placement) is reported as a mismatch — as long
    as the cast is lossless. -/
theorem mismatch_reported_partial (cfg : Cfg) (hr : 0 ≤ cfg.rtol) (ha : 0 ≤ cfg.atol)
    (es gs : List Tn) (hc : NoLossyCast cfg es gs) (h : ¬ Agrees cfg es gs) :
    decideAll cfg es gs ≠ .isMatch :=
  fun hm => h (allclose_sound_partial cfg hr ha es gs hc hm)

/-! ### the executable specification is the specification -/

theorem agreesB_iff (cfg : Cfg) (es gs : List Tn) : agreesB cfg es gs = true ↔ Agrees cfg es gs := by
  unfold agreesB Agrees
  rw [agreesFrom_iff]
  simp

/-! ### full strength where the dtypes agree -/

/-- **Soundness, full strength, same dtype.** If every output ONNX Runtime returns has the dtype of
    the expected output (after the complex repack), a match means the outputs agree — no
    hypothesis on the values. -/
theorem allclose_sound_same_dtype (cfg : Cfg) (hr : 0 ≤ cfg.rtol) (ha : 0 ≤ cfg.atol)
    (es gs : List Tn)
    (hk : ∀ i (h₁ : i < es.length) (h₂ : i < gs.length), (normExact cfg i es[i] gs[i]).kind = es[i].kind)
    (h : decideAll cfg es gs = .isMatch) : Agrees cfg es gs := by
  apply allclose_sound_partial cfg hr ha es gs _ h
  intro i h₁ h₂
  simp [operands, hk i h₁ h₂]

/-! ### residual: numpy's promotion of 64-bit integers to float64 -/

def dflt : Cfg := ⟨1/1000, 1/100000, []⟩
def exact0 : Cfg := ⟨0, 0, []⟩
def i32 : Kind := .int true 32
def i64 : Kind := .int true 64
def u64 : Kind := .int false 64

/-- replayed on the real code (rtol = atol = 0): expected float64 [2⁵³], model output int64 [2⁵³+1]
    → match (`np.can_cast(int64, float64, "safe")` is True, the cast rounds) -/
def r1e : Tn := ⟨.flt f64, [1], [El.ofRat (2 ^ 53)]⟩
def r1g : Tn := ⟨i64, [1], [El.ofRat (2 ^ 53 + 1)]⟩
/-- expected int64 [2⁶³−1], model output uint64 [2⁶³] → match (`result_type` is float64) -/
def r2e : Tn := ⟨i64, [1], [El.ofRat (2 ^ 63 - 1)]⟩
def r2g : Tn := ⟨u64, [1], [El.ofRat (2 ^ 63)]⟩

theorem r1_match : decideAll exact0 [r1e] [r1g] = .isMatch ∧ agreesB exact0 [r1e] [r1g] = false := by
  decide +kernel
theorem r2_match : decideAll exact0 [r2e] [r2g] = .isMatch ∧ agreesB exact0 [r2e] [r2g] = false := by
  decide +kernel

/-- **The unrestricted soundness statement is still refuted** (residual after fix 61b87cb). -/
theorem allclose_sound_refuted :
    ¬ (∀ (cfg : Cfg) (es gs : List Tn), 0 ≤ cfg.rtol → 0 ≤ cfg.atol →
        decideAll cfg es gs = .isMatch → Agrees cfg es gs) := by
  intro h
  have hm := h exact0 [r1e] [r1g] (by decide +kernel) (by decide +kernel) r1_match.1
  have := (agreesB_iff exact0 [r1e] [r1g]).mpr hm
  rw [r1_match.2] at this
  exact absurd this (by simp)

/-! ### regression: the witnesses of the pre-fix defect (cast of `got` to the expected dtype) -/

/-- expected int32 [5, 7], model output int64 [5 + 2³², 7] -/
def w1e : Tn := ⟨i32, [2], [El.ofRat 5, El.ofRat 7]⟩
def w1g : Tn := ⟨i64, [2], [El.ofRat (5 + 2 ^ 32), El.ofRat 7]⟩
/-- expected int32 [5], model output float32 [5.7] -/
def w2e : Tn := ⟨i32, [1], [El.ofRat 5]⟩
def w2g : Tn := ⟨.flt f32, [1], [El.ofRat (11953767 / 2097152)]⟩   -- float32(5.7)
/-- expected bool [True], model output int32 [2] -/
def w3e : Tn := ⟨.bool, [1], [El.ofRat 1]⟩
def w3g : Tn := ⟨i32, [1], [El.ofRat 2]⟩
/-- expected float32 [inf], model output float64 [1e300] -/
def w4e : Tn := ⟨.flt f32, [1], [⟨.pinf, zero⟩]⟩
def w4g : Tn := ⟨.flt f64, [1], [El.ofRat (10 ^ 300)]⟩
/-- expected complex64 [nan+5j], model output float32 [[2, inf]] -/
def w5e : Tn := ⟨.cplx f32, [1], [⟨.nan, .fin 5⟩]⟩
def w5g : Tn := ⟨.flt f32, [1, 2], [El.ofRat 2, ⟨.pinf, zero⟩]⟩

theorem w1_fixed : decideAllOld dflt [w1e] [w1g] = .isMatch ∧ decideAll dflt [w1e] [w1g] = .nonfloat 0 ∧
    agreesB dflt [w1e] [w1g] = false := by decide +kernel
theorem w2_fixed : decideAllOld dflt [w2e] [w2g] = .isMatch ∧ decideAll dflt [w2e] [w2g] = .value 0 ∧
    agreesB dflt [w2e] [w2g] = false := by decide +kernel
theorem w3_fixed : decideAllOld dflt [w3e] [w3g] = .isMatch ∧ decideAll dflt [w3e] [w3g] = .nonfloat 0 ∧
    agreesB dflt [w3e] [w3g] = false := by decide +kernel
theorem w4_fixed : decideAllOld dflt [w4e] [w4g] = .isMatch ∧ decideAll dflt [w4e] [w4g] = .value 0 ∧
    agreesB dflt [w4e] [w4g] = false := by decide +kernel
theorem w5_fixed : decideAllOld dflt [w5e] [w5g] = .isMatch ∧ decideAll dflt [w5e] [w5g] = .value 0 ∧
    agreesB dflt [w5e] [w5g] = false := by decide +kernel

-- non-vacuity of `allclose_sound_partial`: a matching pair with a widening promotion, a
-- just-outside-tolerance pair; the hypothesis now HOLDS on the old witnesses (the promotion is
-- exact there) and fails exactly on the residual ones
example : decideAll dflt [⟨.flt f64, [2], [El.ofRat (1/2), ⟨.nan, zero⟩]⟩]
    [⟨.flt f32, [2], [El.ofRat (1/2 + 1/2048), ⟨.nan, zero⟩]⟩] = .isMatch := by decide +kernel
example : noLossyB dflt [⟨.flt f64, [2], [El.ofRat (1/2), ⟨.nan, zero⟩]⟩]
    [⟨.flt f32, [2], [El.ofRat (1/2 + 1/2048), ⟨.nan, zero⟩]⟩] = true := by decide +kernel
example : decideAll dflt [⟨.flt f32, [1], [El.ofRat 1]⟩] [⟨.flt f32, [1], [El.ofRat (1 + 1/512)]⟩]
    = .value 0 := by decide +kernel
example : noLossyB dflt [w1e] [w1g] = true ∧ noLossyB dflt [w2e] [w2g] = true ∧
    noLossyB dflt [w3e] [w3g] = true ∧ noLossyB dflt [w4e] [w4g] = true ∧
    noLossyB dflt [w5e] [w5g] = true := by decide +kernel
example : noLossyB exact0 [r1e] [r1g] = false ∧ noLossyB exact0 [r2e] [r2g] = false := by decide +kernel

/-- the executable hypothesis check the driver prints is `NoLossyCast` -/
theorem noLossyB_iff (cfg : Cfg) (es gs : List Tn) :
    noLossyB cfg es gs = true ↔ NoLossyCast cfg es gs := by
  unfold noLossyB NoLossyCast
  rw [noLossyFrom_iff]
  simp

/-! ### x64 flag restoration -/

/-- **`_temporary_x64` restores the flag** for every body: arbitrary nesting of further
    `_temporary_x64` / `_force_jax_x64` blocks, arbitrary flag writes, an exception at any point. -/
theorem tmp_restores (en : Bool) (body : XP) (f : Bool) : (xrun (.tmp en body) f).1 = f := by
  simp only [xrun]
  exact ite_restore _ _

/-- `allclose(..., enable_double_precision=en)` = `with _temporary_x64(en): body`; `body` covers
    `fn` raising, `fn` toggling the flag, ORT raising. -/
theorem x64_restored_allclose (en : Bool) (body : XP) (f : Bool) :
    (xrun (.tmp en body) f).1 = f := tmp_restores en body f

/-- `to_onnx` = `_temporary_x64(en)` around `_force_jax_x64(en)` around tracing/lowering
    (any `pre`/`post` code inside the outer block, e.g. `postprocess_ir_model`). -/
theorem x64_restored_to_onnx (en : Bool) (pre body post : XP) (f : Bool) :
    (xrun (.tmp en (.seq pre (.seq (.force en body) post))) f).1 = f := tmp_restores en _ f

/-- a program that leaves the flag as found, whatever happens inside -/
def Restoring (p : XP) : Prop := ∀ f, (xrun p f).1 = f

theorem restoring_seq (a b : XP) (ha : Restoring a) (hb : Restoring b) : Restoring (.seq a b) := by
  intro f
  simp only [xrun]
  split
  · rw [hb, ha]
  · exact ha f

theorem restoring_catch (a : XP) (ha : Restoring a) : Restoring (.catch a) := by
  intro f; simp only [xrun]; exact ha f

/-- code that never writes the flag except inside a `_temporary_x64` block (which restores it) -/
def XP.flagFree : XP → Bool
  | .skip => true
  | .raise => true
  | .raiseBase => true
  | .set _ => false
  | .seq a b => a.flagFree && b.flagFree
  | .tmp _ _ => true
  | .force _ b => b.flagFree
  | .catch b => b.flagFree

theorem flagFree_restoring : ∀ (p : XP), p.flagFree = true → Restoring p := by
  intro p
  induction p with
  | skip => intro _ f; rfl
  | raise => intro _ f; rfl
  | raiseBase => intro _ f; rfl
  | set b => intro h; simp [XP.flagFree] at h
  | seq a b iha ihb =>
    intro h
    simp only [XP.flagFree, Bool.and_eq_true] at h
    exact restoring_seq a b (iha h.1) (ihb h.2)
  | tmp en body _ => intro _; exact tmp_restores en body
  | force en body ih =>
    intro h f
    simp only [XP.flagFree] at h
    simp only [xrun]
    rw [ih h]
    cases f <;> cases en <;> rfl
  | «catch» body ih =>
    intro h
    simp only [XP.flagFree] at h
    exact restoring_catch body (ih h)

/-- the whole `to_onnx` call: the guarded block, then the emit stage (materialise parameters, custom
    names, `to_proto`, save) — which must not write the flag: whether any stage returns or raises, the
    flag is as found -/
theorem x64_restored_to_onnx_whole_call (en : Bool) (pre body post emit : XP) (f : Bool)
    (h : emit.flagFree = true) :
    (xrun (.seq (.tmp en (.seq pre (.seq (.force en body) post))) emit) f).1 = f :=
  restoring_seq _ _ (tmp_restores en _) (flagFree_restoring emit h) f

/-- a history of calls: each entry is (precision flag, body, is the exception caught by the
    caller?) -/
def history : List (Bool × XP × Bool) → XP
  | [] => .skip
  | (en, body, caught) :: rest =>
    .seq (if caught then .catch (.tmp en body) else .tmp en body) (history rest)

/-- **Every history** of `allclose` / `to_onnx` calls (succeeding, failing, alternating
    precision flags, bodies toggling the flag) leaves the flag as found. -/
theorem x64_history_restored (h : List (Bool × XP × Bool)) : Restoring (history h) := by
  induction h with
  | nil => intro f; rfl
  | cons c rest ih =>
    obtain ⟨en, body, caught⟩ := c
    unfold history
    apply restoring_seq _ _ _ ih
    cases caught
    · exact tmp_restores en body
    · exact restoring_catch _ (tmp_restores en body)

/-- information: `_force_jax_x64` alone restores only when *it* changed the flag; a body that
    flips the flag inside an already-matching block leaks it. The outer `_temporary_x64` in
    `to_onnx` is what makes the property hold. -/
theorem force_alone_not_restoring : ¬ (∀ en body, Restoring (.force en body)) := by
  intro h
  have := h false (.set true) false
  simp [xrun] at this

-- non-vacuity: nested blocks with a raise after a flag flip
example : xrun (.tmp true (.seq (.force true (.seq (.set false) .raise)) .skip)) false
    = (false, .exc) := by decide
example : xrun (.tmp true (.seq (.set false) (.tmp false .raise))) true = (true, .exc) := by decide

/-! ### every exit of the block, including `BaseException`s (round 2) -/

/-- **Every exit.** Whatever way the block is left — normally, by an `Exception`, or by a
    `BaseException` outside `Exception` (KeyboardInterrupt / SystemExit / GeneratorExit) raised at any
    point of any body — the flag is as found, and the block does not swallow the exit. -/
theorem x64_restored_every_exit (en : Bool) (body : XP) (f : Bool) :
    (xrun (.tmp en body) f).1 = f ∧
      (xrun (.tmp en body) f).2 = (xrun body (if en != f then en else f)).2 := by
  refine ⟨tmp_restores en body f, ?_⟩
  simp only [xrun]

/-- `except Exception` around `fn(*args)` (as `_run_allclose` has it) does not stop a `BaseException`:
    it leaves the block — and the flag is still restored. -/
theorem x64_restored_allclose_base_in_fn (en : Bool) (pre post : XP) (f : Bool)
    (hpre : (xrun pre (if en != f then en else f)).2 = .normal) :
    xrun (.tmp en (.seq pre (.seq (.catch .raiseBase) post))) f = (f, .base) := by
  have h1 := (x64_restored_every_exit en (.seq pre (.seq (.catch .raiseBase) post)) f)
  have h2 : (xrun (.seq pre (.seq (.catch .raiseBase) post)) (if en != f then en else f)).2 = .base := by
    simp only [xrun, hpre, ↓reduceIte]
    simp
  exact Prod.ext h1.1 (h1.2.trans h2)

/-- **An interrupt at every point.** For every body, every position `n`, every interrupt program `inj`
    (e.g. `raiseBase`), injecting `inj` before the `n`-th atomic step of the body keeps the flag restored. -/
theorem x64_restored_under_injection (en : Bool) (body inj : XP) (n : Nat) (f : Bool) :
    (xrun (.tmp en (injectAt inj body (some n)).1) f).1 = f := tmp_restores en _ f

/-- … and the same for the `to_onnx` nesting and for whole histories of interrupted calls -/
theorem x64_restored_to_onnx_under_injection (en : Bool) (pre body post inj : XP) (n : Nat) (f : Bool) :
    (xrun (injectAt inj (.tmp en (.seq pre (.seq (.force en body) post))) (some n)).1 f).1 = f := by
  simp only [injectAt]
  exact tmp_restores en _ f

/-- REFUTED VARIANT: a `_temporary_x64` that restores on the normal path and under `except Exception`
    only is NOT restoring — a `BaseException` while the flag is toggled leaks it. -/
theorem tmpExcOnly_not_restoring : ¬ (∀ en body f, (tmpExcOnly en body f).1 = f) := by
  intro h
  have := h true .raiseBase false
  simp [tmpExcOnly, xrun] at this

/-- … and it leaks exactly then: the flag is restored iff the body is not left by a `BaseException`
    with the flag different from the one found. -/
theorem tmpExcOnly_restores_iff (en : Bool) (body : XP) (f : Bool) :
    (tmpExcOnly en body f).1 = f ↔
      ((xrun body (if en != f then en else f)).2 ≠ .base ∨
        (xrun body (if en != f then en else f)).1 = f) := by
  unfold tmpExcOnly
  simp only
  generalize xrun body (if (en != f) = true then en else f) = r
  obtain ⟨r1, r2⟩ := r
  cases r2 <;> cases r1 <;> cases f <;> simp

-- non-vacuity: an interrupt inside fn (under the `except Exception`), after the flag was toggled;
-- the injection really lands inside the body; the refuted variant leaks on it
example : xrun (.tmp true (.seq .skip (.seq (.catch .raiseBase) .skip))) false = (false, .base) := by decide
example : (injectAt .raiseBase (.seq .skip (.seq (.catch (.set false)) .skip)) (some 1)).1
    = .seq .skip (.seq (.catch (.seq .raiseBase (.set false))) .skip) := by simp [injectAt]
example : xrun (.tmp true (injectAt .raiseBase (.seq .skip (.seq (.catch (.set false)) .skip)) (some 1)).1) false
    = (false, .base) := by decide
example : tmpExcOnly true (.catch .raiseBase) false = (true, .base) := by decide
example : tmpExcOnly true (.catch .raise) false = (false, .normal) := by decide

end J2O.C18
