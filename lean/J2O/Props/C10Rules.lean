/-
C10 — property theorems about `FunctionPlugin._batching_rule` and about the AD rule registries.

* `fn_batch_rule_correct`       vmap of an `@onnx_function` call: for ANY per-example function `F` (not only
                                pointwise), any arity, any ranks, any placement of batch dims incl. unmapped
                                operands: lane `b` of what the rule returns is `F` on lane `b` of every
                                operand, the result is batched at 0 and has shape `B :: shape(F(lanes))`
* `fn_batch_rule_unmapped`      nothing mapped → the callable is applied as is, result `NOT_MAPPED`
* `ad_pipeline_provenance`      forwarding at import + backfill at conversion, as one function of
                                (allow-list, block-list, registries before): afterwards every JVP / transpose /
                                batching entry of a primitive is its own rule, or the ORIGINAL's rule object of
                                an allow-listed and not block-listed pair, or (transposes only) the generic
                                fallback for an allow-listed name with a callable impl
* `orig_rule_only_if_allowlisted`  corollary in the form of the brief
* `backfill_keeps_existing`     the backfill never replaces a transpose rule that is present (forwarded ones
                                included)
* `forwarded_rule_defined_on_new_domain`  if every allow-listed pair satisfies the operand contract
                                (dom new ⊆ dom orig) then every rule a primitive ends with is defined on that
                                primitive's whole domain;
  `forwarded_rule_total_refuted`  … and WITHOUT the contract this is false on the live pair
                                (`add`, `jax.numpy.add`): shapes `(4,3),(3,)` (F-C10-add-forwarded-ad-rule)
-/
import J2O.Lemmas.C10
import J2O.Model.C10Rules
set_option linter.unusedSimpArgs false
set_option linter.unusedVariables false
set_option linter.unreachableTactic false
set_option linter.unusedTactic false
set_option linter.unnecessarySeqFocus false

namespace J2O.C10

/-! ## FunctionPlugin._batching_rule -/

theorem lane_bdimAtFrontB {α : Type} (B : Nat) (x : Tensor α) (d : Option Nat) (b : Nat) :
    lane (bdimAtFrontB B x d) (some 0) b = lane x d b := by
  cases d with
  | none =>
    cases x with
    | mk s g => simp [lane, bdimAtFrontB, removeAt_zero, insertAt_zero]
  | some k =>
    simp only [lane, bdimAtFrontB, removeAt_zero, insertAt_zero]

theorem axisSize_eq {α : Type} (args : List (Tensor α × Option Nat)) (B : Nat)
    (hwf : ∀ p ∈ args, ∀ k, p.2 = some k → k < p.1.rank ∧ p.1.shape.getD k 1 = B)
    (hm : ∃ p ∈ args, p.2 ≠ none) : axisSize args = some B := by
  induction args with
  | nil => obtain ⟨p, hp, _⟩ := hm; simp at hp
  | cons p ps ih =>
    obtain ⟨x, d⟩ := p
    cases d with
    | none =>
      simp only [axisSize]
      apply ih (fun q hq => hwf q (by simp [hq]))
      obtain ⟨q, hq, hne⟩ := hm
      rcases List.mem_cons.mp hq with rfl | h
      · exact absurd rfl hne
      · exact ⟨q, h, hne⟩
    | some k =>
      obtain ⟨hk, hB⟩ := hwf (x, some k) (by simp) k rfl
      simp only [axisSize, hk, if_true, hB]

/-- **Correctness of `FunctionPlugin._batching_rule`.**  `F` is any function of the per-example operands,
    `args` the operands with their batch dimensions.  If at least one operand is mapped and the mapped
    ones have their batch dimension in range with common size `B`, the rule returns a result batched
    at 0 whose lane `b` is `F` applied to lane `b` of every operand (unmapped operands as they are),
    for every `b`; its shape is `B` in front of the shape of `F` on the lanes. -/
theorem fn_batch_rule_correct {α : Type} (F : List (Tensor α) → Tensor α)
    (args : List (Tensor α × Option Nat)) (B : Nat)
    (hwf : ∀ p ∈ args, ∀ k, p.2 = some k → k < p.1.rank ∧ p.1.shape.getD k 1 = B)
    (hm : ∃ p ∈ args, p.2 ≠ none) :
    ∃ out, fnBatchRule F args = (out, some 0) ∧
      (∀ b idx, (lane out (some 0) b).get idx = (F (args.map fun p => lane p.1 p.2 b)).get idx) ∧
      out.shape = B :: (F (args.map fun p => lane p.1 p.2 0)).shape := by
  have hl : ∀ b, ((args.map fun p => bdimAtFrontB B p.1 p.2).map fun x => lane x (some 0) b) =
      args.map fun p => lane p.1 p.2 b := by
    intro b
    rw [List.map_map]
    apply List.map_congr_left
    intro p _
    exact lane_bdimAtFrontB B p.1 p.2 b
  refine ⟨vmapFront B F (args.map fun p => bdimAtFrontB B p.1 p.2),
    by simp only [fnBatchRule, axisSize_eq args B hwf hm], ?_, ?_⟩
  · intro b idx
    show (F ((args.map fun p => bdimAtFrontB B p.1 p.2).map fun x => lane x (some 0) b)).get idx = _
    rw [hl b]
  · show B :: (F ((args.map fun p => bdimAtFrontB B p.1 p.2).map fun x => lane x (some 0) 0)).shape = _
    rw [hl 0]

/-- nothing mapped: the original callable is applied to the operands as they are -/
theorem fn_batch_rule_unmapped {α : Type} (F : List (Tensor α) → Tensor α)
    (args : List (Tensor α × Option Nat)) (h : ∀ p ∈ args, p.2 = none) :
    fnBatchRule F args = (F (args.map (·.1)), none) := by
  have : axisSize args = none := by
    induction args with
    | nil => rfl
    | cons p ps ih =>
      obtain ⟨x, d⟩ := p
      have hd : d = none := h (x, d) (by simp)
      subst hd
      simp only [axisSize]
      exact ih (fun q hq => h q (by simp [hq]))
  simp only [fnBatchRule, this]

section Examples
def encR (shape : List Nat) (off : Nat) : Tensor Nat := ⟨shape, fun idx => idx.foldl (fun a i => 10 * a + i) off⟩
/-- a NON-pointwise per-example function: reverse the (only) axis of the first operand and add the
    element `[0]` of the second -/
def revAdd : List (Tensor Nat) → Tensor Nat
  | [x, y] => ⟨x.shape, fun idx => match idx with
      | [i] => x.get [x.shape.getD 0 1 - 1 - i] + 1000 * y.get [0]
      | _ => 0⟩
  | _ => ⟨[], fun _ => 0⟩

-- non-vacuity: x:(3,2) mapped at axis 1 (B = 2), y:(4,) unmapped
example : (∀ p ∈ [(encR [3, 2] 0, some 1), (encR [4] 7, none)], ∀ k, p.2 = some k →
    k < p.1.rank ∧ p.1.shape.getD k 1 = 2) ∧ ∃ p ∈ [(encR [3, 2] 0, some 1), (encR [4] 7, none)], p.2 ≠ none := by
  refine ⟨?_, ⟨_, List.mem_cons_self, by simp⟩⟩
  intro p hp k hk
  simp only [List.mem_cons, List.mem_nil_iff, or_false] at hp
  rcases hp with rfl | rfl
  · simp only [Option.some.injEq] at hk; subst hk; decide
  · simp at hk
example : ((fnBatchRule revAdd [(encR [3, 2] 0, some 1), (encR [4] 7, none)]).1.shape,
           (fnBatchRule revAdd [(encR [3, 2] 0, some 1), (encR [4] 7, none)]).1.get [1, 0],
           (fnBatchRule revAdd [(encR [3, 2] 0, some 1), (encR [4] 7, none)]).2) = ([2, 3], 70021, some 0) := by
  decide
end Examples

/-! ## AD rule registries -/

/-- every entry is the primitive's own rule -/
def Owned (reg : Registry) : Prop := ∀ e ∈ reg, ∃ k, e.2 = Rule.own e.1 k

/-- provenance of a registry entry: the primitive's own rule, or the rule object of the original of an
    allow-listed, not block-listed pair -/
def Prov (allow block : List (String × String)) (e : String × Rule) : Prop :=
  (∃ k, e.2 = Rule.own e.1 k) ∨ ∃ o k, e.2 = Rule.own o k ∧ (o, e.1) ∈ allow ∧ (o, e.1) ∉ block

/-- no target of an allow-listed pair is the source of another one (no chains of forwarding) -/
def NoChain (allow : List (String × String)) : Prop := ∀ p ∈ allow, ∀ q ∈ allow, p.2 ≠ q.1

theorem lookupRule_mem (reg : Registry) (p : String) (r : Rule) (h : lookupRule reg p = some r) :
    (p, r) ∈ reg := by
  induction reg with
  | nil => simp [lookupRule] at h
  | cons e es ih =>
    obtain ⟨q, s⟩ := e
    simp only [lookupRule] at h
    split at h
    · next hq => simp only [Option.some.injEq] at h; subst h; subst hq; simp
    · exact List.mem_cons_of_mem _ (ih h)

theorem forwardReg_prov (allow block : List (String × String)) (hnb : ∀ p ∈ allow, p ∉ block)
    (hnc : NoChain allow) (reg : Registry) (q : FwdReq) (hq : (q.orig, q.new) ∈ allow)
    (h : ∀ e ∈ reg, Prov allow block e) : ∀ e ∈ forwardReg reg q, Prov allow block e := by
  unfold forwardReg
  cases hl : lookupRule reg q.orig with
  | none => exact h
  | some r =>
    dsimp only
    split
    · intro e he
      rcases List.mem_cons.mp he with rfl | he'
      · rcases h _ (lookupRule_mem reg q.orig r hl) with ⟨k, hk⟩ | ⟨o, k, hk, ha, _⟩
        · exact Or.inr ⟨q.orig, k, hk, hq, hnb _ hq⟩
        · exact absurd rfl (hnc (o, q.orig) ha (q.orig, q.new) hq)
      · exact h e he'
    · exact h

/-- all three registries -/
def ProvRegs (allow block : List (String × String)) (regs : Regs) : Prop :=
  (∀ e ∈ regs.jvps, Prov allow block e) ∧ (∀ e ∈ regs.transposes, Prov allow block e) ∧
    (∀ e ∈ regs.batchers, Prov allow block e)

theorem forwardAll_prov (allow block : List (String × String)) (hnb : ∀ p ∈ allow, p ∉ block)
    (hnc : NoChain allow) (reqs : List FwdReq) (regs regs' : Regs) (h : ProvRegs allow block regs)
    (hrun : forwardAll allow regs reqs = some regs') : ProvRegs allow block regs' := by
  induction reqs generalizing regs with
  | nil => simp only [forwardAll, Option.some.injEq] at hrun; subst hrun; exact h
  | cons q qs ih =>
    simp only [forwardAll] at hrun
    cases h1 : forwardOne allow regs q with
    | none => rw [h1] at hrun; exact absurd hrun (by simp)
    | some r1 =>
      rw [h1] at hrun
      apply ih r1 _ hrun
      unfold forwardOne at h1
      split at h1
      · next hc =>
        have hq : (q.orig, q.new) ∈ allow := by simpa using hc
        simp only [Option.some.injEq] at h1
        subst h1
        refine ⟨forwardReg_prov allow block hnb hnc _ q hq h.1,
                forwardReg_prov allow block hnb hnc _ q hq h.2.1, ?_⟩
        dsimp only
        split
        · exact forwardReg_prov allow block hnb hnc _ q hq h.2.2
        · exact h.2.2
      · exact absurd h1 (by simp)

/-- what a transpose entry may be after the backfill -/
def ProvT (allow block : List (String × String)) (linAllow impls : List String) (e : String × Rule) : Prop :=
  Prov allow block e ∨ (e.2 = Rule.fallback e.1 ∧ e.1 ∈ linAllow ∧ e.1 ∈ impls)

theorem backfill_prov (allow block : List (String × String)) (linAllow impls : List String)
    (prims : List String) (regs : Regs)
    (hj : ∀ e ∈ regs.jvps, Prov allow block e) (ht : ∀ e ∈ regs.transposes, ProvT allow block linAllow impls e)
    (hb : ∀ e ∈ regs.batchers, Prov allow block e) :
    (∀ e ∈ (backfill linAllow impls regs prims).jvps, Prov allow block e) ∧
    (∀ e ∈ (backfill linAllow impls regs prims).transposes, ProvT allow block linAllow impls e) ∧
    (∀ e ∈ (backfill linAllow impls regs prims).batchers, Prov allow block e) := by
  induction prims generalizing regs with
  | nil => exact ⟨hj, ht, hb⟩
  | cons p ps ih =>
    simp only [backfill, List.foldl_cons]
    apply ih
    · unfold backfillOne; split <;> exact hj
    · unfold backfillOne
      split
      · next hc =>
        simp only [Bool.and_eq_true, List.contains_iff_mem] at hc
        intro e he
        rcases List.mem_cons.mp he with rfl | he'
        · exact Or.inr ⟨rfl, by simpa using hc.1.2, by simpa using hc.2⟩
        · exact ht e he'
      · exact ht
    · unfold backfillOne; split <;> exact hb

/-- **Provenance of every rule after forwarding + backfill.**  Start from registries in which every
    primitive has its own rules; run the policy check, all forwarding requests (any order, any
    `override` / `forward_batching` flags) and the backfill.  If nothing raised, then
    every JVP and batching entry is the primitive's own rule or the ORIGINAL's rule object of an
    allow-listed and not block-listed pair, and every transpose entry is one of those or the generic
    fallback installed for an allow-listed name with a callable impl. -/
theorem ad_pipeline_provenance (allow block : List (String × String)) (linAllow impls : List String)
    (reqs : List FwdReq) (prims : List String) (regs regs' : Regs)
    (hown : Owned regs.jvps ∧ Owned regs.transposes ∧ Owned regs.batchers) (hnc : NoChain allow)
    (hrun : adPipeline allow block linAllow impls reqs prims regs = some regs') :
    (∀ e ∈ regs'.jvps, Prov allow block e) ∧
    (∀ e ∈ regs'.transposes, ProvT allow block linAllow impls e) ∧
    (∀ e ∈ regs'.batchers, Prov allow block e) := by
  unfold adPipeline at hrun
  split at hrun
  · exact absurd hrun (by simp)
  · next hov =>
    have hnb : ∀ p ∈ allow, p ∉ block := by
      intro p hp hpb
      apply hov
      simp only [List.any_eq_true]
      exact ⟨p, hp, by simpa using hpb⟩
    cases hf : forwardAll allow regs reqs with
    | none => rw [hf] at hrun; exact absurd hrun (by simp)
    | some r1 =>
      rw [hf] at hrun
      simp only [Option.some.injEq] at hrun
      subst hrun
      have h0 : ProvRegs allow block regs :=
        ⟨fun e he => Or.inl (hown.1 e he), fun e he => Or.inl (hown.2.1 e he),
         fun e he => Or.inl (hown.2.2 e he)⟩
      have h1 := forwardAll_prov allow block hnb hnc reqs regs r1 h0 hf
      exact backfill_prov allow block linAllow impls prims r1 h1.1 (fun e he => Or.inl (h1.2.1 e he)) h1.2.2

/-- **A plugin primitive ends with the ORIGINAL's rule object only if the pair is allow-listed**
    (and not block-listed) — JVP registry; the same holds for transposes and batchers. -/
theorem orig_rule_only_if_allowlisted (allow block : List (String × String)) (linAllow impls : List String)
    (reqs : List FwdReq) (prims : List String) (regs regs' : Regs)
    (hown : Owned regs.jvps ∧ Owned regs.transposes ∧ Owned regs.batchers) (hnc : NoChain allow)
    (hrun : adPipeline allow block linAllow impls reqs prims regs = some regs')
    (orig new : String) (k : Nat) (hne : orig ≠ new)
    (hl : lookupRule regs'.jvps new = some (Rule.own orig k) ∨
          lookupRule regs'.transposes new = some (Rule.own orig k)) :
    (orig, new) ∈ allow ∧ (orig, new) ∉ block := by
  obtain ⟨hj, ht, _⟩ := ad_pipeline_provenance allow block linAllow impls reqs prims regs regs' hown hnc hrun
  have hp : Prov allow block (new, Rule.own orig k) := by
    rcases hl with h | h
    · exact hj _ (lookupRule_mem _ _ _ h)
    · rcases ht _ (lookupRule_mem _ _ _ h) with h' | ⟨h', _⟩
      · exact h'
      · exact absurd h' (by simp)
  rcases hp with ⟨k', hk⟩ | ⟨o, k', hk, ha, hb⟩
  · simp only [Rule.own.injEq] at hk; exact absurd hk.1 hne
  · simp only [Rule.own.injEq] at hk
    obtain ⟨rfl, _⟩ := hk
    exact ⟨ha, hb⟩

theorem backfillOne_keeps (linAllow impls : List String) (regs : Regs) (p q : String) (r : Rule)
    (h : lookupRule regs.transposes q = some r) :
    lookupRule (backfillOne linAllow impls regs p).transposes q = some r := by
  unfold backfillOne
  split
  · next hc =>
    simp only [Bool.and_eq_true] at hc
    have hnone : lookupRule regs.transposes p = none := by simpa using hc.1.1.2
    have hpq : p ≠ q := by
      intro he; subst he; rw [hnone] at h; exact absurd h (by simp)
    simp only [lookupRule, hpq, if_false, h]
  · exact h

/-- the backfill never replaces a transpose rule that is already present (a forwarded one included) -/
theorem backfill_keeps_existing (linAllow impls : List String) (prims : List String) (regs : Regs)
    (q : String) (r : Rule) (h : lookupRule regs.transposes q = some r) :
    lookupRule (backfill linAllow impls regs prims).transposes q = some r := by
  induction prims generalizing regs with
  | nil => exact h
  | cons p ps ih =>
    simp only [backfill, List.foldl_cons]
    exact ih _ (backfillOne_keeps linAllow impls regs p q r h)

/-- **Forwarded rules are defined on the plugin primitive's whole domain — under the contract.**
    `dom p` is the set of operand-shape lists primitive `p` (and the rules written for it) accepts.
    Contract: for every allow-listed pair, `dom new ⊆ dom orig` (same arity, no extra broadcasting).
    Then every JVP / transpose rule a primitive ends with that was written for some primitive `o` is
    defined wherever the primitive itself is. -/
theorem forwarded_rule_defined_on_new_domain (dom : String → List (List Nat) → Bool)
    (allow block : List (String × String)) (linAllow impls : List String)
    (reqs : List FwdReq) (prims : List String) (regs regs' : Regs)
    (hown : Owned regs.jvps ∧ Owned regs.transposes ∧ Owned regs.batchers) (hnc : NoChain allow)
    (hcontract : ∀ p ∈ allow, ∀ s, dom p.2 s = true → dom p.1 s = true)
    (hrun : adPipeline allow block linAllow impls reqs prims regs = some regs')
    (e : String × Rule) (he : e ∈ regs'.jvps ∨ e ∈ regs'.transposes) (o : String) (k : Nat)
    (hr : e.2 = Rule.own o k) (s : List (List Nat)) (hs : dom e.1 s = true) : dom o s = true := by
  obtain ⟨hj, ht, _⟩ := ad_pipeline_provenance allow block linAllow impls reqs prims regs regs' hown hnc hrun
  have hp : Prov allow block e := by
    rcases he with h | h
    · exact hj e h
    · rcases ht e h with h' | ⟨h', _⟩
      · exact h'
      · rw [hr] at h'; exact absurd h' (by simp)
  rcases hp with ⟨k', hk⟩ | ⟨o', k', hk, ha, _⟩
  · rw [hr] at hk; simp only [Rule.own.injEq] at hk; rw [hk.1]; exact hs
  · rw [hr] at hk; simp only [Rule.own.injEq] at hk
    rw [hk.1]
    exact hcontract (o', e.1) ha s hs

section Examples
def regs0 : Regs := ⟨[("add", .own "add" 0), ("jax.numpy.take", .own "jax.numpy.take" 0)],
                     [("add", .own "add" 1)], []⟩
-- non-vacuity: own registries, an allow-list without chains, a run that forwards and backfills
example : Owned regs0.jvps ∧ Owned regs0.transposes ∧ Owned regs0.batchers := by
  refine ⟨?_, ?_, ?_⟩ <;> intro e he <;> simp [regs0] at he
  · rcases he with rfl | rfl <;> exact ⟨0, rfl⟩
  · subst he; exact ⟨1, rfl⟩
example : NoChain [("add", "jax.numpy.add")] := by
  intro p hp q hq
  simp only [List.mem_cons, List.mem_nil_iff, or_false] at hp hq
  subst hp; subst hq; decide
example : (adPipeline [("add", "jax.numpy.add")] [("gather", "jax.numpy.take")] ["jax.numpy.take"] ["jax.numpy.take"]
      [⟨"add", "jax.numpy.add", false, false⟩] ["jax.numpy.add", "jax.numpy.take"] regs0).map
      (fun r => (lookupRule r.jvps "jax.numpy.add", lookupRule r.transposes "jax.numpy.add",
                 lookupRule r.transposes "jax.numpy.take")) =
    some (some (.own "add" 0), some (.own "add" 1), some (.fallback "jax.numpy.take")) := by decide
-- a denied pair raises
example : adPipeline [("add", "jax.numpy.add")] [] [] [] [⟨"gather", "jax.numpy.take", false, false⟩] [] regs0 = none := by
  decide

/-- The contract hypothesis cannot be dropped, and the live allow-list violates it: the pair
    (`add`, `jax.numpy.add`) is forwarded, `jax.numpy.add` accepts the broadcast-compatible shapes
    `(4,3),(3,)`, `lax.add`'s rules do not (F-C10-add-forwarded-ad-rule: `TypeError: add: arrays must have
    the same number of dimensions` when the forwarded rule runs). -/
theorem forwarded_rule_total_refuted :
    ∃ regs', adPipeline [("add", "jax.numpy.add")] [] [] [] [⟨"add", "jax.numpy.add", false, false⟩] [] regs0
        = some regs' ∧
      lookupRule regs'.jvps "jax.numpy.add" = some (.own "add" 0) ∧
      ∃ s, jnpAddDom s = true ∧ laxAddDom s = false :=
  ⟨_, rfl, by decide, [[4, 3], [3]], by decide, by decide⟩
end Examples

end J2O.C10
