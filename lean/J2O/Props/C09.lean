/-
C09 — property theorems (nothing but statements + proofs + non-vacuity examples).

Policy
* `refP_ok`, `refPolicy_single_double_names`, `refPolicy_double`
Constant paths, flag off (for EVERY policy satisfying `Policy.ok`, in particular the table
regenerated from /repo — `J2O.GenProps.C09.genP_ok`)
* `single_no_double`          flag off ∧ no float64 handed in ⇒ no DOUBLE type, no float64 payload
* `initScalar_never_double`, `allocValue_never_double`   these two are immune even to float64
* `bindConst_double_iff`, `inputValue_double_iff`        exactly when the others yield DOUBLE
Constant paths, flag on
* `no_detour_paths`           all-float64 context ⇒ every dtype step widens, stored dtype ⊒ source
* `double_no_f32_detour`      ⇒ the stored value IS the source value, for every cast semantics
Scanner
* `noCodes_sound` / `noCodes_complete`, `noDouble_sound` / `noDouble_complete`,
  `firstBad_none_iff`, `firstBad_some_bad`
x64 flag
* `temp_restores`, `x64_restored`, `public_restored_partial`, `public_runs_under_flag`
* `force_restored_refuted`, `public_restored_full_refuted`, `public_override_final`
-/
import J2O.Lemmas.C09
set_option linter.unusedSimpArgs false
set_option linter.unusedVariables false

namespace J2O.C09

/-! ### 1. The dtype policy -/

/-- The hand-written reference satisfies the policy facts used below. -/
theorem refP_ok : refP.ok := by
  constructor
  · intro k h
    cases k with
    | none => simp [refP, refPolicy, isDouble] at h
    | some f => cases f <;> simp [refP, refPolicy, isDouble] at h ⊢
  all_goals rfl

def optDouble : Option Nat → Bool
  | some c => isDouble c
  | none => false

/-- Flag off: over ALL dtype names, the reference yields a double-precision element type only
    for `float64` and `complex128`. -/
theorem refPolicy_single_double_names (name : String)
    (h : optDouble (refPolicy (classify name) false) = true) :
    name = "float64" ∨ name = "complex128" := by
  unfold classify at h
  split at h <;> simp_all [refPolicy, optDouble, isDouble]

/-- Flag on: unspecified, float32, float64 and wider floats all become DOUBLE. -/
theorem refPolicy_double (k : DKind) (flag : Bool)
    (h : k = .unspecified ∨ k = .flt .f32 ∨ k = .flt .f64 ∨ k = .wide) (hf : flag = true) :
    refPolicy k flag = some 11 := by
  subst hf
  rcases h with h | h | h | h <;> subst h <;> rfl

-- non-vacuity: float64 really is double with the flag off, float32 is not
example : optDouble (refPolicy (classify "float64") false) = true := by decide
example : optDouble (refPolicy (classify "float32") false) = false := by decide
example : refPolicy (classify "float16") true = some 10 := by decide

/-! ### 2. Constant paths, flag off -/

/-- **Single precision stays single.** For every policy with `Policy.ok`, every context with
    the flag off (top graph, function / loop body, keep-float32 on or off) and every entry point:
    if no float64 dtype is handed in (what JAX guarantees while x64 is off), neither the declared
    element type is double precision nor is the stored payload float64. -/
theorem single_no_double (P : Policy) (hP : P.ok) (c : Ctx) (hflag : c.flag = false)
    (e : Entry) (h : e.noF64 = true) :
    isDouble (e.code P c) = false ∧ e.stored P c ≠ some .f64 := by
  have hs : ∀ k, k ≠ some FK.f64 → isDouble (P.ty k false) = false := by
    intro k hk
    cases hd : isDouble (P.ty k false) with
    | false => rfl
    | true => exact absurd (hP.single k hd) hk
  obtain ⟨flag, fm, keep⟩ := c
  simp only at hflag
  subst hflag
  cases e with
  | viaBindConst aval arr =>
    cases fm <;> cases keep <;> rcases aval with _ | (_ | _ | _) <;> cases arr <;>
      simp_all [Entry.noF64, optNoF64, fkNoF64, Entry.code, Entry.stored, Entry.bound, bindConst,
        narrowAval, promote, Bound.final, postPromote, List.getLastD]
  | viaLiteral aval prefer src =>
    cases fm <;> cases keep <;> rcases aval with _ | (_ | _ | _) <;>
      rcases prefer with _ | (_ | _ | _) <;> cases src <;>
      simp_all [Entry.noF64, optNoF64, fkNoF64, Entry.code, Entry.stored, Entry.bound, bindLiteral,
        bindConst, narrowAval, promote, Bound.final, postPromote, List.getLastD]
  | viaInitScalar src =>
    cases fm <;> cases src <;>
      simp_all [Entry.noF64, fkNoF64, Entry.code, Entry.stored, Entry.bound, initScalar,
        Bound.final, postPromote, List.getLastD, FK.code, isDouble]
  | viaClosedConst aval src =>
    rcases aval with _ | (_ | _ | _) <;> cases src <;>
      simp_all [Entry.noF64, optNoF64, fkNoF64, Entry.code, Entry.stored, Entry.bound, closedConst,
        bindConst, narrowAval, promote, Bound.final, postPromote, List.getLastD, defaultFloat]
  | viaAlloc aval =>
    cases fm <;> cases keep <;> cases aval <;>
      simp_all [Entry.noF64, fkNoF64, Entry.code, Entry.stored, Entry.bound, allocValue]
  | viaInput aval =>
    cases fm <;> cases keep <;> cases aval <;>
      simp_all [Entry.noF64, fkNoF64, Entry.code, Entry.stored, Entry.bound, inputValue]

-- non-vacuity: the hypotheses are met by a python-float literal in a loop body …
example : (Entry.viaLiteral (some .f32) none .f64).noF64 = true := by decide
example : (Entry.viaLiteral (some .f32) none .f64).stored refP ⟨false, true, true⟩ = some .f32 := by
  decide
-- … and the conclusion genuinely fails once a float64 array is handed in (flag off!)
example : isDouble ((Entry.viaBindConst none .f64).code refP ⟨false, false, false⟩) = true := by decide
example : (Entry.viaClosedConst (some .f64) .f64).stored refP ⟨false, false, false⟩ = some .f64 := by
  decide

/-- The hypothesis "no float64 is handed in" cannot be dropped: the unconditional statement is
    FALSE (a float64 aval reaching `add_input_for_invar`, or a float64 array reaching
    `bind_const_for_var`, is typed DOUBLE with the flag off).  On the real code the hypothesis
    used to be violated by plugin abstract-evaluation rules that promoted (float32, Python int)
    with numpy's lattice (F-C09-intpromote-*, fixed by /repo commit 8efd0fe; the harness keeps
    those programs as a permanent corpus) and is still violated under a thread-local x64
    override (known finding F-C09-x64-override-double). -/
theorem single_no_double_unconditional_refuted :
    ¬ (∀ (c : Ctx) (e : Entry), c.flag = false →
        isDouble (e.code refP c) = false ∧ e.stored refP c ≠ some .f64) := by
  intro h
  have := (h ⟨false, false, false⟩ (.viaBindConst none .f64) rfl).1
  revert this
  decide

/-- `add_initializer_from_scalar` is immune: with the flag off it downcasts every float,
    float64 included. -/
theorem initScalar_never_double (P : Policy) (hP : P.ok) (c : Ctx) (hflag : c.flag = false)
    (src : FK) :
    isDouble (initScalar P c src).code = false ∧ (initScalar P c src).final false = .f32 := by
  obtain ⟨flag, fm, keep⟩ := c
  simp only at hflag
  subst hflag
  have := hP.sgl_f32
  cases fm <;> cases src <;>
    simp_all [initScalar, Bound.final, postPromote, List.getLastD, FK.code, isDouble]

example : (initScalar refP ⟨false, true, false⟩ .f64).path = [.f64, .f32] := by decide

/-- `allocate_value_for_var` is immune: with the flag off every float intermediate is FLOAT. -/
theorem allocValue_never_double (P : Policy) (hP : P.ok) (c : Ctx) (hflag : c.flag = false)
    (aval : FK) : allocValue P c aval = 1 := by
  obtain ⟨flag, fm, keep⟩ := c
  simp only at hflag
  subst hflag
  have := hP.sgl_f32
  cases fm <;> cases keep <;> cases aval <;> simp_all [allocValue]

example : allocValue refP ⟨false, true, true⟩ .f64 = 1 := by decide

/-- Exactly when `bind_const_for_var` yields a float64 payload / DOUBLE type with the flag
    off: the array handed in is float64 and the keep-float32 branch does not apply. -/
theorem bindConst_double_iff (c : Ctx) (hflag : c.flag = false) (aval : Option FK) (arr : FK) :
    ((bindConst refP c aval arr).final false = .f64 ∨
        isDouble (bindConst refP c aval arr).code = true)
      ↔ (arr = .f64 ∧
          ¬ (c.fm = true ∧ c.keep = true ∧ (aval = some .f16 ∨ aval = some .f32))) := by
  obtain ⟨flag, fm, keep⟩ := c
  simp only at hflag
  subst hflag
  cases fm <;> cases keep <;> rcases aval with _ | (_ | _ | _) <;> cases arr <;>
    simp [bindConst, narrowAval, promote, Bound.final, postPromote, List.getLastD, refP,
      refPolicy, isDouble]

/-- Exactly when `add_input_for_invar` declares a DOUBLE input with the flag off. -/
theorem inputValue_double_iff (c : Ctx) (hflag : c.flag = false) (aval : FK) :
    isDouble (inputValue refP c aval) = true ↔ aval = .f64 := by
  obtain ⟨flag, fm, keep⟩ := c
  simp only at hflag
  subst hflag
  cases fm <;> cases keep <;> cases aval <;> simp [inputValue, refP, refPolicy, isDouble]

example : isDouble (inputValue refP ⟨false, false, false⟩ .f64) = true := by decide

/-! ### 3. Constant paths, flag on -/

/-- **No narrowing step.** Flag on, all-float64 context: every bound constant's dtype path
    (source → … → stored → post-processed) only widens, ends at or above the source dtype,
    and — except for float16 scalars kept by `add_initializer_from_scalar` — at float64. -/
theorem no_detour_paths (P : Policy) (hP : P.ok) (c : Ctx) (hflag : c.flag = true) (e : Entry)
    (hctx : e.f64ctx = true) (b : Bound) (hb : e.bound P c = some b) :
    widening (b.fullPath true) = true ∧
      (∀ src, b.path.head? = some src → src.le (b.final true) = true) := by
  obtain ⟨flag, fm, keep⟩ := c
  simp only at hflag
  subst hflag
  cases e with
  | viaBindConst aval arr =>
    simp only [Entry.bound, Option.some.injEq] at hb
    subst hb
    cases fm <;> cases keep <;> rcases aval with _ | (_ | _ | _) <;> cases arr <;>
      simp_all [Entry.f64ctx, optF64orNone, bindConst, narrowAval, promote, Bound.final,
        Bound.fullPath, postPromote, List.getLastD, widening, FK.le, FK.rank]
  | viaLiteral aval prefer src =>
    simp only [Entry.bound, Option.some.injEq] at hb
    subst hb
    cases fm <;> cases keep <;> rcases aval with _ | (_ | _ | _) <;>
      rcases prefer with _ | (_ | _ | _) <;> cases src <;>
      simp_all [Entry.f64ctx, optF64orNone, bindLiteral, bindConst, narrowAval, promote,
        Bound.final, Bound.fullPath, postPromote, List.getLastD, widening, FK.le, FK.rank]
  | viaInitScalar src =>
    simp only [Entry.bound, Option.some.injEq] at hb
    subst hb
    cases fm <;> cases src <;>
      simp_all [initScalar, Bound.final, Bound.fullPath, postPromote, List.getLastD, widening,
        FK.le, FK.rank]
  | viaClosedConst aval src =>
    simp only [Entry.bound, Option.some.injEq] at hb
    subst hb
    rcases aval with _ | (_ | _ | _) <;> cases src <;>
      simp_all [Entry.f64ctx, optF64orNone, closedConst, bindConst, narrowAval, promote,
        Bound.final, Bound.fullPath, postPromote, List.getLastD, widening, FK.le, FK.rank,
        defaultFloat]
  | viaAlloc aval => simp [Entry.bound] at hb
  | viaInput aval => simp [Entry.bound] at hb

/-- **No hidden single-precision round trip on the constant paths.** Flag on, all-float64
    context, any cast semantics that is exact between formats representing the value: the value
    stored in the model is the source value itself. -/
theorem double_no_f32_detour {V : Type} (C : CastSem V) (P : Policy) (hP : P.ok) (c : Ctx)
    (hflag : c.flag = true) (e : Entry) (hctx : e.f64ctx = true) (b : Bound)
    (hb : e.bound P c = some b) (v : V)
    (hv : ∀ src, (b.fullPath true).head? = some src → C.rep src v) :
    runPath C (b.fullPath true) v = v :=
  widening_exact C _ (no_detour_paths P hP c hflag e hctx b hb).1 v hv

/-- A concrete cast semantics for non-vacuity: a value is the number of significand bits it
    needs; a format represents it iff it has that many; casting truncates. -/
def bitsSem : CastSem Nat where
  rep k v := v ≤ (match k with | .f16 => 11 | .f32 => 24 | .f64 => 53)
  cast _ b v := min v (match b with | .f16 => 11 | .f32 => 24 | .f64 => 53)
  rep_mono a b v h hv := by
    cases a <;> cases b <;> simp_all [FK.le, FK.rank] <;> omega
  exact a b v ha hb := by
    cases b <;> simp_all <;> omega

-- non-vacuity: a Python float (53 bits) bound as a literal inside a keep-float32 loop body of an
-- all-float64 program keeps all its bits …
example : runPath bitsSem ((bindLiteral refP ⟨true, true, true⟩ (some .f64) none .f64).fullPath true) 53
    = 53 := by decide
-- … whereas in a float32-typed body (aval float32: JAX itself computes in float32 there, so the
-- hypothesis `f64ctx` fails) it is cut to 24 bits: the theorem's hypothesis is what excludes it.
example : runPath bitsSem ((bindLiteral refP ⟨true, true, true⟩ (some .f32) none .f64).fullPath true) 53
    = 24 := by decide
example : (Entry.viaLiteral (some .f32) none .f64).f64ctx = false := by decide

/-! ### 4. The scanner -/

/-- **Soundness** for any set of forbidden codes: accepted ⇒ no occurrence anywhere in the tree
    (any depth: subgraphs of subgraphs, function bodies, …) carries a forbidden code. -/
theorem noCodes_sound (bad : Nat → Bool) (t : Tree) (h : noCodes bad t = true) (o : Occ)
    (ho : Occurs o t) : bad o.code = false :=
  noCodes_sound_aux bad t h o ho

/-- **Completeness**: rejected ⇒ some occurrence in the tree carries a forbidden code. -/
theorem noCodes_complete (bad : Nat → Bool) (t : Tree) (h : noCodes bad t = false) :
    ∃ o, Occurs o t ∧ bad o.code = true :=
  noCodes_complete_aux bad t h

/-- **`noDouble` is sound**: accepted ⇒ no initializer, Constant attribute, Cast target, value
    type or dtype attribute anywhere in the model tree is DOUBLE (11) or COMPLEX128 (15). -/
theorem noDouble_sound (t : Tree) (h : noDouble t = true) (o : Occ) (ho : Occurs o t) :
    o.code ≠ 11 ∧ o.code ≠ 15 := by
  have := noCodes_sound_aux isDouble t h o ho
  simp [isDouble] at this
  exact this

theorem noDouble_complete (t : Tree) (h : noDouble t = false) :
    ∃ o, Occurs o t ∧ (o.code = 11 ∨ o.code = 15) := by
  obtain ⟨o, ho, hb⟩ := noCodes_complete_aux isDouble t h
  refine ⟨o, ho, ?_⟩
  simpa [isDouble] using hb

/-- The diagnostic search agrees with the scanner … -/
theorem firstBad_none_iff (bad : Nat → Bool) (t : Tree) :
    firstBad bad t = none ↔ noCodes bad t = true :=
  firstBad_none_aux bad t

/-- … and what it reports is a real forbidden occurrence of the tree. -/
theorem firstBad_some_bad (bad : Nat → Bool) (t : Tree) (p : List String) (o : Occ)
    (h : firstBad bad t = some (p, o)) : Occurs o t ∧ bad o.code = true :=
  firstBad_some_aux bad t p o h

/-- A model with a Loop whose body contains an If whose branch holds a DOUBLE Constant. -/
def exampleTree : Tree :=
  .node "model" [] [
    .node "graph" [⟨"value", 1⟩, ⟨"init", 1⟩] [
      .node "Loop" [] [
        .node "graph" [⟨"value", 1⟩] [
          .node "If" [] [
            .node "graph" [] [.node "Constant" [⟨"attr_tensor", 11⟩] []],
            .node "graph" [] [.node "Cast" [⟨"cast_to", 1⟩] []]]]]],
    .node "function" [⟨"value", 1⟩] []]

-- non-vacuity: rejected with the right path; accepted once the constant is FLOAT
example : noDouble exampleTree = false := by decide
example : firstBad isDouble exampleTree =
    some (["model", "graph", "Loop", "graph", "If", "graph", "Constant"], ⟨"attr_tensor", 11⟩) := by
  decide
example : noDouble (.node "model" [] [.node "graph" [⟨"value", 1⟩, ⟨"init", 10⟩]
    [.node "Cast" [⟨"cast_to", 1⟩] []]]) = true := by decide
example : Occurs ⟨"attr_tensor", 11⟩ exampleTree := by
  unfold exampleTree
  exact .inKid List.mem_cons_self (.inKid List.mem_cons_self (.inKid List.mem_cons_self
    (.inKid List.mem_cons_self (.inKid List.mem_cons_self (.inKid List.mem_cons_self
      (.atRoot List.mem_cons_self))))))

/-! ### 5. The x64 flag -/

/-- `_temporary_x64` restores the process-wide value for EVERY body — also one that flips the
    flag itself or raises at any point — provided no thread-local override is active. -/
theorem temp_restores (e : Bool) (body : Prog) (s : Cfg) (hl : s.loc = none) :
    (run (.withCm (.temp e) body) s).cfg = s := by
  obtain ⟨g, l⟩ := s
  simp only at hl
  subst hl
  simp only [run]
  generalize hs1 :
    (if (e != Cfg.read ⟨g, none⟩) = true then Cfg.update ⟨g, none⟩ e else ⟨g, none⟩) = s1
  have hl1 : s1.loc = none := by subst hs1; split <;> rfl
  have hl2 : (run body s1).cfg.loc = none := by rw [run_loc]; exact hl1
  generalize (run body s1).cfg = c at hl2 ⊢
  obtain ⟨cg, cl⟩ := c
  simp only at hl2
  subst hl2
  cases cg <;> cases g <;> simp [Cfg.read, Cfg.update]

/-- **The flag is restored** for every initial value, every nesting of the two context managers
    with any requested values and every exception point, for code that does not itself call
    `jax.config.update` — provided no thread-local override is active. -/
theorem x64_restored (p : Prog) :
    ∀ (s : Cfg), s.loc = none → p.noSet = true → (run p s).cfg = s := by
  induction p with
  | skip => intro s _ _; rfl
  | raise => intro s _ _; rfl
  | set v => intro s _ h; simp [Prog.noSet] at h
  | seq a b iha ihb =>
    intro s hl h
    simp only [Prog.noSet, Bool.and_eq_true] at h
    simp only [run]
    split
    · exact iha s hl h.1
    · simp only []
      rw [iha s hl h.1]
      exact ihb s hl h.2
  | withCm c body ih =>
    intro s hl h
    simp only [Prog.noSet] at h
    cases c with
    | temp e => exact temp_restores e body s hl
    | force t =>
      simp only [run]
      have hr : s.read = s.glob := read_of_loc_none s hl
      split
      · rename_i hne
        have hl1 : (s.update t).loc = none := by simp [Cfg.update, hl]
        rw [ih (s.update t) hl1 h]
        apply cfg_ext <;> simp [Cfg.update, hr]
      · exact ih s hl h

-- non-vacuity: three levels of nesting with opposite requests and an exception in the middle
example : (run (.withCm (.temp true) (.seq (.withCm (.force false) (.withCm (.temp true)
    (.seq .skip .raise))) .skip)) ⟨false, none⟩) = ⟨⟨false, none⟩, true, [true]⟩ := by decide

/-- **Public entry** (`user_interface.to_onnx`: `_temporary_x64` outermost). PARTIAL: holds for
    every body and post-processing step — flag-flipping user code and exceptions anywhere
    included — but only when no thread-local `jax.enable_x64(..)` override is active around
    the call; with an override the statement is false (`public_restored_full_refuted`). -/
theorem public_restored_partial (flag : Bool) (body post : Prog) (s : Cfg) (hl : s.loc = none) :
    (run (publicToOnnx flag body post) s).cfg = s :=
  temp_restores flag _ s hl

example : (run (publicToOnnx false (.seq (.set true) .raise) .skip) ⟨false, none⟩).cfg
    = ⟨false, none⟩ := by decide

/-- The conversion really runs with x64 equal to the flag (so `single_no_double`'s hypothesis
    "no float64 enters" is what JAX provides) — without an override. -/
theorem public_runs_under_flag (flag : Bool) (s : Cfg) (hl : s.loc = none) :
    (run (publicToOnnx flag .skip .skip) s).seen = [flag, flag] := by
  obtain ⟨g, l⟩ := s
  simp only at hl
  subst hl
  cases flag <;> cases g <;> decide

/-- `_force_jax_x64` alone is NOT robust against a body that flips the flag: refuted. (Not
    reachable through the public entry, where `_temporary_x64` is outermost.) -/
theorem force_restored_refuted :
    ¬ (∀ (t : Bool) (body : Prog) (s : Cfg), s.loc = none →
        (run (.withCm (.force t) body) s).cfg = s) := by
  intro h
  have := h false (.set true) ⟨false, none⟩ rfl
  revert this
  decide

/-- The full-strength statement of the property for the public entry — "the process-wide
    setting is the same after the call as before", for every configuration — is FALSE in the
    model: witness = process-wide value off, thread-local override on, flag off, trivial body.
    (Replayed on the real code: known finding F-C09-x64-override.) -/
theorem public_restored_full_refuted :
    ¬ (∀ (flag : Bool) (body post : Prog) (s : Cfg), body.noSet = true → post.noSet = true →
        (run (publicToOnnx flag body post) s).cfg = s) := by
  intro h
  have := h false .skip .skip ⟨false, some true⟩ rfl rfl
  revert this
  decide

/-- What happens instead under an override `v`: the process-wide value ends up as `v` whenever
    the requested flag differs from `v`, whatever it was before; and the conversion sees `v`,
    not the flag. -/
theorem public_override_final (flag v g : Bool) (body post : Prog)
    (hb : body.plain = true) (hp : post.plain = true) :
    (run (publicToOnnx flag body post) ⟨g, some v⟩).cfg.glob = (if flag = v then g else v) := by
  simp only [publicToOnnx, run]
  cases flag <;> cases v <;> cases g <;>
    simp [Cfg.read, Cfg.update, run_plain body _ hb, run_plain post _ hp] <;>
    split <;> simp [run_plain body _ hb, run_plain post _ hp]

example : (run (publicToOnnx false .skip .skip) ⟨false, some true⟩).seen = [true, true] := by decide
example : (run (publicToOnnx false .skip .skip) ⟨false, some true⟩).cfg.glob = true := by decide

end J2O.C09
