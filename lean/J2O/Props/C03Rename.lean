/-
C03 (round 2) — renaming and the NameFixPass contract: property theorems.

* `rename_preserves_scopes`  an accepted graph stays accepted under ANY renaming of its values that is
                             injective on the names visible in each scope chain (`InjG`, per scope:
                             sibling bodies may be mapped to the same names), keeps "" (= absent) and
                             maps no name to "".  Unbounded nesting (mutual structural induction).
* `rename_preserves_scopes_paths`  the same with the hypothesis in specification form (`PathInj`: injective on
                             `vis ++ localDefs` of every scope reached by `scopeAt?`), via `injG_of_paths`.
* `rename_wellScoped`        … hence every scope at every depth of the renamed graph is `LocalOK`.
* `injG_of_injective`        a globally injective map satisfies `InjG` for every graph.
* `renameM_preserves`        model level: `checkScopes` is preserved when the main graph and every function body
                             are renamed by (their own) per-scope injective maps; the call discipline only looks
                             at domains, operator names and slot counts (`callOK_rename`, `allNodes_rename`).
* `pickName_fresh`, `pickName_keep`, `fixList_sound`, `fixList_keep`, `fixList_head`
                             the NameFixPass contract on the model `fixList`/`pickName`: the names given
                             to the values of a scope are pairwise distinct and distinct from the names
                             already used; a name that is free is KEPT (renames only to make names
                             unique); the first visited value (graph inputs, then outputs) keeps its name.
* `nfRun_fixList`            the event machine the driver runs (`nfRun`) assigns, on every run of pairwise different
                             values inside one scope, exactly the names `fixList` computes.
Not proved: that the fuel of `findFree` always suffices (pigeonhole on `used.length + 1` candidates);
the driver reports `fuel` if it ever does not.
-/
import J2O.Props.C03
import J2O.Model.C03Rename
set_option linter.unusedSimpArgs false
set_option linter.unusedVariables false

namespace J2O.C03
open J2O.MT

/-! ## renaming -/

/-- `ρ` is injective on the names of the list -/
def InjOnL (ρ : String → String) (l : List String) : Prop := ∀ x ∈ l, ∀ y ∈ l, ρ x = ρ y → x = y

mutual
/-- `ρ` is injective on the names visible in every scope chain of the graph (`outer` = names visible
    from the enclosing scopes); the accumulator mirrors `checkGraph`. -/
def InjG (ρ : String → String) (outer : List String) : Graph → Prop
  | .mk inputs inits nodes _ _ => InjNs ρ (outer ++ (inputs ++ inits)) nodes
def InjNs (ρ : String → String) (vis : List String) : List Node → Prop
  | [] => InjOnL ρ vis
  | n :: rest => InjN ρ vis n ∧ InjNs ρ (vis ++ n.outs) rest
def InjN (ρ : String → String) (vis : List String) : Node → Prop
  | .mk _ _ _ _ _ bodies => InjBs ρ vis bodies
def InjBs (ρ : String → String) (vis : List String) : List Graph → Prop
  | [] => True
  | b :: bs => InjG ρ vis b ∧ InjBs ρ vis bs
end

theorem InjOnL_mono {ρ : String → String} {l l' : List String} (hs : ∀ x ∈ l', x ∈ l)
    (h : InjOnL ρ l) : InjOnL ρ l' :=
  fun x hx y hy e => h x (hs x hx) y (hs y hy) e

theorem InjNs_final (ρ : String → String) : ∀ (ns : List Node) (vis : List String),
    InjNs ρ vis ns → InjOnL ρ (vis ++ definedBy ns)
  | [], vis, h => by simpa [InjNs, definedBy_nil] using h
  | n :: rest, vis, h => by
    simp only [InjNs] at h
    have := InjNs_final ρ rest (vis ++ n.outs) h.2
    rw [definedBy_cons, ← List.append_assoc]
    exact this

theorem not_mem_map_of_inj {ρ : String → String} {l ys : List String} {x : String}
    (h : InjOnL ρ l) (hx : x ∈ l) (hy : ∀ y ∈ ys, y ∈ l) (hn : x ∉ ys) : ρ x ∉ ys.map ρ := by
  intro hc
  obtain ⟨b, hb, hab⟩ := List.mem_map.mp hc
  have := h x hx b (hy b hb) hab.symm
  subst this
  exact hn hb

theorem nodup_map_of_inj {ρ : String → String} : ∀ (l : List String), InjOnL ρ l → l.Nodup →
    (l.map ρ).Nodup
  | [], _, _ => by simp
  | x :: xs, h, hn => by
    rw [List.nodup_cons] at hn
    rw [List.map_cons, List.nodup_cons]
    refine ⟨?_, nodup_map_of_inj xs (InjOnL_mono (fun y hy => List.mem_cons_of_mem _ hy) h) hn.2⟩
    exact not_mem_map_of_inj h List.mem_cons_self (fun y hy => List.mem_cons_of_mem _ hy) hn.1

theorem nodupB_complete : ∀ l : List String, l.Nodup → nodupB l = true
  | [], _ => rfl
  | x :: xs, h => by
    rw [List.nodup_cons] at h
    simp only [nodupB, Bool.and_eq_true, Bool.not_eq_true']
    refine ⟨?_, nodupB_complete xs h.2⟩
    cases hc : xs.contains x with
    | false => rfl
    | true => exact absurd (contains_mem.mp hc) h.1

theorem disjointB_complete (xs ys : List String) (h : ∀ x ∈ xs, x ∉ ys) : disjointB xs ys = true := by
  unfold disjointB
  rw [List.all_eq_true]
  intro x hx
  cases hc : ys.contains x with
  | false => rfl
  | true => exact absurd (contains_mem.mp hc) (h x hx)

theorem filter_map_ne (ρ : String → String) (h0 : ρ "" = "") (hne : ∀ x, x ≠ "" → ρ x ≠ "") :
    ∀ l : List String, (l.map ρ).filter (· ≠ "") = (l.filter (· ≠ "")).map ρ
  | [] => rfl
  | x :: xs => by
    have ih := filter_map_ne ρ h0 hne xs
    simp only [ne_eq, decide_not] at ih
    by_cases hx : x = ""
    · subst hx
      simp [List.filter_cons, h0, ih]
    · have := hne x hx
      simp [List.filter_cons, hx, this, ih]

theorem outs_rename (ρ : String → String) (h0 : ρ "" = "") (hne : ∀ x, x ≠ "" → ρ x ≠ "") (n : Node) :
    (renameN ρ n).outs = n.outs.map ρ := by
  cases n with
  | mk d o i u a bs =>
    simp only [renameN, Node.outs]
    exact filter_map_ne ρ h0 hne u

theorem definedBy_rename (ρ : String → String) (h0 : ρ "" = "") (hne : ∀ x, x ≠ "" → ρ x ≠ "") :
    ∀ ns : List Node, definedBy (renameNs ρ ns) = (definedBy ns).map ρ
  | [] => by simp [renameNs, definedBy_nil]
  | n :: rest => by
    rw [renameNs, definedBy_cons, definedBy_cons, List.map_append, outs_rename ρ h0 hne,
      definedBy_rename ρ h0 hne rest]

mutual
theorem checkGraph_rename (ρ : String → String) (h0 : ρ "" = "") (hne : ∀ x, x ≠ "" → ρ x ≠ "") :
    ∀ (g : Graph) (outer : List String), checkGraph outer g = true → InjG ρ outer g →
      checkGraph (outer.map ρ) (renameG ρ g) = true
  | .mk i t ns o v, outer, h, hi => by
    simp only [checkGraph, Bool.and_eq_true] at h
    obtain ⟨⟨⟨h1, h2⟩, h3⟩, h4⟩ := h
    simp only [InjG] at hi
    have hfin := InjNs_final ρ ns _ hi
    have hsub : ∀ x ∈ i ++ t, x ∈ outer ++ (i ++ t) ++ definedBy ns := fun x hx =>
      List.mem_append_left _ (List.mem_append_right _ hx)
    have hsubo : ∀ x ∈ outer, x ∈ outer ++ (i ++ t) ++ definedBy ns := fun x hx =>
      List.mem_append_left _ (List.mem_append_left _ hx)
    simp only [renameG, checkGraph, Bool.and_eq_true]
    refine ⟨⟨⟨?_, ?_⟩, ?_⟩, ?_⟩
    · rw [← List.map_append]
      exact nodupB_complete _ (nodup_map_of_inj _ (InjOnL_mono hsub hfin) (nodupB_sound _ h1))
    · rw [← List.map_append]
      apply disjointB_complete
      intro x hx
      obtain ⟨a, ha, rfl⟩ := List.mem_map.mp hx
      exact not_mem_map_of_inj hfin (hsub a ha) hsubo (disjointB_sound _ _ h2 a ha)
    · have := checkNodes_rename ρ h0 hne ns (outer ++ (i ++ t)) h3 hi
      simpa [List.map_append] using this
    · rw [definedBy_rename ρ h0 hne, ← List.map_append, ← List.map_append, List.all_eq_true]
      intro x hx
      obtain ⟨a, ha, rfl⟩ := List.mem_map.mp hx
      have := contains_mem.mp ((List.all_eq_true.mp h4) a ha)
      exact contains_mem.mpr (List.mem_map.mpr ⟨a, this, rfl⟩)
theorem checkNodes_rename (ρ : String → String) (h0 : ρ "" = "") (hne : ∀ x, x ≠ "" → ρ x ≠ "") :
    ∀ (ns : List Node) (vis : List String), checkNodes vis ns = true → InjNs ρ vis ns →
      checkNodes (vis.map ρ) (renameNs ρ ns) = true
  | [], vis, _, _ => by simp [renameNs, checkNodes]
  | n :: rest, vis, h, hi => by
    simp only [checkNodes, Bool.and_eq_true] at h
    simp only [InjNs] at hi
    have hfin := InjNs_final ρ rest _ hi.2
    simp only [renameNs, checkNodes, Bool.and_eq_true]
    refine ⟨?_, ?_⟩
    · exact checkNode_rename ρ h0 hne n vis h.1
        (InjOnL_mono (fun x hx => List.mem_append_left _ hx) hfin) hi.1
    · have := checkNodes_rename ρ h0 hne rest (vis ++ n.outs) h.2 hi.2
      rw [List.map_append, ← outs_rename ρ h0 hne] at this
      exact this
theorem checkNode_rename (ρ : String → String) (h0 : ρ "" = "") (hne : ∀ x, x ≠ "" → ρ x ≠ "") :
    ∀ (n : Node) (vis : List String), checkNode vis n = true → InjOnL ρ (vis ++ n.outs) →
      InjN ρ vis n → checkNode (vis.map ρ) (renameN ρ n) = true
  | .mk d o ins outs a bs, vis, h, hinj, hi => by
    simp only [checkNode, Bool.and_eq_true] at h
    obtain ⟨⟨⟨h1, h2⟩, h3⟩, h4⟩ := h
    simp only [InjN] at hi
    simp only [Node.outs] at hinj
    simp only [renameN, checkNode, Bool.and_eq_true]
    refine ⟨⟨⟨?_, ?_⟩, ?_⟩, ?_⟩
    · rw [List.all_eq_true]
      intro x hx
      obtain ⟨b, hb, rfl⟩ := List.mem_map.mp hx
      have := (List.all_eq_true.mp h1) b hb
      simp only [Bool.or_eq_true, beq_iff_eq] at this ⊢
      rcases this with e | e
      · left; rw [e, h0]
      · right; exact contains_mem.mpr (List.mem_map.mpr ⟨b, contains_mem.mp e, rfl⟩)
    · rw [filter_map_ne ρ h0 hne]
      exact nodupB_complete _ (nodup_map_of_inj _
        (InjOnL_mono (fun x hx => List.mem_append_right _ hx) hinj) (nodupB_sound _ h2))
    · rw [filter_map_ne ρ h0 hne]
      apply disjointB_complete
      intro x hx
      obtain ⟨b, hb, rfl⟩ := List.mem_map.mp hx
      exact not_mem_map_of_inj hinj (List.mem_append_right _ hb)
        (fun y hy => List.mem_append_left _ hy) (disjointB_sound _ _ h3 b hb)
    · exact checkBodies_rename ρ h0 hne bs vis h4 hi
theorem checkBodies_rename (ρ : String → String) (h0 : ρ "" = "") (hne : ∀ x, x ≠ "" → ρ x ≠ "") :
    ∀ (bs : List Graph) (vis : List String), checkBodies vis bs = true → InjBs ρ vis bs →
      checkBodies (vis.map ρ) (renameBs ρ bs) = true
  | [], vis, _, _ => by simp [renameBs, checkBodies]
  | b :: rest, vis, h, hi => by
    simp only [checkBodies, Bool.and_eq_true] at h
    simp only [InjBs] at hi
    simp only [renameBs, checkBodies, Bool.and_eq_true]
    exact ⟨checkGraph_rename ρ h0 hne b vis h.1 hi.1, checkBodies_rename ρ h0 hne rest vis h.2 hi.2⟩
end

/-- **An accepted graph stays accepted under any renaming that is injective per scope chain**, keeps
    the marker of an absent operand and invents no absent operand.  (Top level: `outer = []`.) -/
theorem rename_preserves_scopes (ρ : String → String) (h0 : ρ "" = "") (hne : ∀ x, x ≠ "" → ρ x ≠ "")
    (g : Graph) (h : checkGraph [] g = true) (hi : InjG ρ [] g) : checkGraph [] (renameG ρ g) = true := by
  simpa using checkGraph_rename ρ h0 hne g [] h hi

/-- … hence every scope at every depth of the renamed graph is locally well formed. -/
theorem rename_wellScoped (ρ : String → String) (h0 : ρ "" = "") (hne : ∀ x, x ≠ "" → ρ x ≠ "")
    (g : Graph) (h : checkGraph [] g = true) (hi : InjG ρ [] g) :
    ∀ p vis g', scopeAt? p [] (renameG ρ g) = some (vis, g') → LocalOK vis g' :=
  fun p vis g' hs => checkGraph_deep p [] _ (rename_preserves_scopes ρ h0 hne g h hi) vis g' hs

mutual
theorem injG_of_injective (ρ : String → String) (hρ : ∀ x y, ρ x = ρ y → x = y) :
    ∀ (g : Graph) (outer : List String), InjG ρ outer g
  | .mk i t ns o v, outer => by
    simp only [InjG]; exact injNs_of_injective ρ hρ ns _
theorem injNs_of_injective (ρ : String → String) (hρ : ∀ x y, ρ x = ρ y → x = y) :
    ∀ (ns : List Node) (vis : List String), InjNs ρ vis ns
  | [], vis => by simp only [InjNs]; exact fun x _ y _ e => hρ x y e
  | n :: rest, vis => by
    simp only [InjNs]
    exact ⟨injN_of_injective ρ hρ n vis, injNs_of_injective ρ hρ rest _⟩
theorem injN_of_injective (ρ : String → String) (hρ : ∀ x y, ρ x = ρ y → x = y) :
    ∀ (n : Node) (vis : List String), InjN ρ vis n
  | .mk d o i u a bs, vis => by simp only [InjN]; exact injBs_of_injective ρ hρ bs vis
theorem injBs_of_injective (ρ : String → String) (hρ : ∀ x y, ρ x = ρ y → x = y) :
    ∀ (bs : List Graph) (vis : List String), InjBs ρ vis bs
  | [], vis => by simp only [InjBs]
  | b :: rest, vis => by
    simp only [InjBs]
    exact ⟨injG_of_injective ρ hρ b vis, injBs_of_injective ρ hρ rest vis⟩
end

/-! ### non-vacuity: sibling bodies mapped to the SAME names (not globally injective), still accepted;
    a map that merges two names visible in one scope chain breaks the model -/

def exIf : Graph :=
  .mk ["x"] [] [.mk "" "If" ["x"] ["z"] ["then_branch", "else_branch"]
      [.mk [] [] [.mk "" "Neg" ["x"] ["id7"] [] []] ["id7"] [],
       .mk [] [] [.mk "" "Abs" ["x"] ["id9"] [] []] ["id9"] []]] ["z"] []

/-- both branch-local values are called `y` in the serialised model -/
def exRho : String → String := applyMap [("id7", "y"), ("id9", "y")]

example : checkGraph [] exIf = true := by decide
example : exRho "id7" = exRho "id9" := by decide
example : InjG exRho [] exIf := by
  simp only [exIf, InjG, InjNs, InjN, InjBs, InjOnL, Node.outs]
  decide
example : checkGraph [] (renameG exRho exIf) = true := by decide
-- merging a body-local name with an outer name is not injective on that scope chain, and is rejected
example : checkGraph [] (renameG (applyMap [("id7", "x")]) exIf) = false := by decide
example : ¬ InjOnL (applyMap [("id7", "x")]) ["x", "id7"] := by
  intro h
  have := h "x" (by simp) "id7" (by simp) (by decide)
  exact absurd this (by decide)

/-! ### model level -/

mutual
theorem allNodes_rename (ρ : String → String) (f f' : Node → Bool)
    (hf : ∀ d o i u a bs bs', f (.mk d o (i.map ρ) (u.map ρ) a bs') = f' (.mk d o i u a bs)) :
    ∀ g : Graph, allNodes f (renameG ρ g) = allNodes f' g
  | .mk i t ns o v => by
    simp only [renameG, allNodes]; exact allNodesL_rename ρ f f' hf ns
theorem allNodesL_rename (ρ : String → String) (f f' : Node → Bool)
    (hf : ∀ d o i u a bs bs', f (.mk d o (i.map ρ) (u.map ρ) a bs') = f' (.mk d o i u a bs)) :
    ∀ ns : List Node, allNodesL f (renameNs ρ ns) = allNodesL f' ns
  | [] => by simp [renameNs, allNodesL]
  | n :: rest => by
    simp only [renameNs, allNodesL, allNodesN_rename ρ f f' hf n, allNodesL_rename ρ f f' hf rest]
theorem allNodesN_rename (ρ : String → String) (f f' : Node → Bool)
    (hf : ∀ d o i u a bs bs', f (.mk d o (i.map ρ) (u.map ρ) a bs') = f' (.mk d o i u a bs)) :
    ∀ n : Node, allNodesN f (renameN ρ n) = allNodesN f' n
  | .mk d o i u a bs => by
    simp only [renameN, allNodesN, allNodesB_rename ρ f f' hf bs]
    rw [hf d o i u a bs (renameBs ρ bs)]
theorem allNodesB_rename (ρ : String → String) (f f' : Node → Bool)
    (hf : ∀ d o i u a bs bs', f (.mk d o (i.map ρ) (u.map ρ) a bs') = f' (.mk d o i u a bs)) :
    ∀ bs : List Graph, allNodesB f (renameBs ρ bs) = allNodesB f' bs
  | [] => by simp [renameBs, allNodesB]
  | b :: rest => by
    simp only [renameBs, allNodesB, allNodes_rename ρ f f' hf b, allNodesB_rename ρ f f' hf rest]
end

/-- the call discipline looks at domains, operator names and slot COUNTS only -/
theorem callOK_rename (ρ : String → String) (imps : List String) (funcs : List Func) (g : Func → Func)
    (hd : ∀ f, (g f).domain = f.domain) (hn : ∀ f, (g f).name = f.name)
    (hi : ∀ f, (g f).inputs.length = f.inputs.length) (ho : ∀ f, (g f).outputs.length = f.outputs.length)
    (d o : String) (i u a : List String) (bs bs' : List Graph) :
    callOK imps (funcs.map g) (.mk d o (i.map ρ) (u.map ρ) a bs') = callOK imps funcs (.mk d o i u a bs) := by
  simp only [callOK, Node.domain, Node.op, Node.ins, Node.outsRaw, List.any_map, List.all_map,
    List.length_map, Function.comp_def, defines, hd, hn, hi, ho]

theorem asGraph_renameF (ρ : String → String) (f : Func) : (renameF ρ f).asGraph = renameG ρ f.asGraph := by
  simp [Func.asGraph, renameF, renameG]

/-- **Model level**: an accepted model stays accepted when the main graph and every function body are renamed by
    maps that are injective per scope chain (each function by its own map, as NameFixPass does). -/
theorem renameM_preserves (ρ : String → String) (σ : String → String → String → String)
    (h0 : ρ "" = "") (hne : ∀ x, x ≠ "" → ρ x ≠ "")
    (s0 : ∀ d n, σ d n "" = "") (sne : ∀ d n x, x ≠ "" → σ d n x ≠ "")
    (m : Model) (h : checkScopes m = true) (hi : InjG ρ [] m.graph)
    (hf : ∀ f ∈ m.funcs, InjG (σ f.domain f.name) [] f.asGraph) :
    checkScopes (renameM ρ σ m) = true := by
  simp only [checkScopes, Bool.and_eq_true] at h
  obtain ⟨⟨⟨h1, h2⟩, h3⟩, h4⟩ := h
  have hcall : ∀ (τ : String → String) (imps : List String) (g : Graph),
      allNodes (callOK imps (m.funcs.map fun f => renameF (σ f.domain f.name) f)) (renameG τ g)
        = allNodes (callOK imps m.funcs) g := by
    intro τ imps g
    apply allNodes_rename
    intro d o i u a bs bs'
    exact callOK_rename τ imps m.funcs (fun f => renameF (σ f.domain f.name) f) (fun f => rfl) (fun f => rfl)
      (fun f => by simp [renameF]) (fun f => by simp [renameF]) d o i u a bs bs'
  simp only [checkScopes, renameM, Bool.and_eq_true]
  refine ⟨⟨⟨rename_preserves_scopes ρ h0 hne _ h1 hi, ?_⟩, ?_⟩, ?_⟩
  · rw [hcall]; exact h2
  · have : funcKeys (m.funcs.map fun f => renameF (σ f.domain f.name) f) = funcKeys m.funcs := by
      simp [funcKeys, List.map_map, Function.comp_def, renameF]
    rw [this]; exact h3
  · rw [List.all_eq_true]
    intro f' hf'
    obtain ⟨f, hfm, rfl⟩ := List.mem_map.mp hf'
    have hc := (List.all_eq_true.mp h4) f hfm
    simp only [checkFunc, Bool.and_eq_true] at hc ⊢
    obtain ⟨⟨⟨c1, c2⟩, c3⟩, c4⟩ := hc
    refine ⟨⟨⟨?_, ?_⟩, ?_⟩, ?_⟩
    · simpa [renameF] using c1
    · simpa [renameF] using c2
    · rw [asGraph_renameF]
      exact rename_preserves_scopes _ (s0 _ _) (sne _ _) _ c3 (hf f hfm)
    · rw [asGraph_renameF]
      have : (renameF (σ f.domain f.name) f).imports = f.imports := rfl
      rw [this, hcall]; exact c4

/-- non-vacuity: the accepted two-level model of `Props/C03.lean` under a map that renames an outer value, a
    body-local value and a formal input of the function -/
def exRhoM : String → String := applyMap [("y", "y_1"), ("loop_body_0/s", "loop_body_0/y"), ("f_in_0", "x")]

example : InjG exRhoM [] exModel.graph := by
  simp only [exModel, exBody, InjG, InjNs, InjN, InjBs, InjOnL, Node.outs]
  decide
example : InjG exRhoM [] exFunc.asGraph := by
  simp only [exFunc, Func.asGraph, InjG, InjNs, InjN, InjBs, InjOnL, Node.outs]
  decide
example : checkScopes (renameM exRhoM (fun _ _ => exRhoM) exModel) = true := by decide

/-! ## the NameFixPass contract -/

theorem findFree_fresh (pref : String) (used : List String) : ∀ (fuel c : Nat) (nm : String) (c' : Nat),
    findFree pref used fuel c = some (nm, c') → nm ∉ used ∧ c < c' ∧ nm = suffixed pref c'
  | 0, _, _, _, h => by simp [findFree] at h
  | fuel + 1, c, nm, c', h => by
    simp only [findFree] at h
    split at h
    · obtain ⟨a, b, e⟩ := findFree_fresh pref used fuel (c + 1) nm c' h
      exact ⟨a, by omega, e⟩
    · rename_i hc
      simp only [Option.some.injEq, Prod.mk.injEq] at h
      obtain ⟨rfl, rfl⟩ := h
      refine ⟨?_, by omega, rfl⟩
      intro hm
      exact hc (contains_mem.mpr hm)

/-- whatever name is picked is not in use -/
theorem pickName_fresh (pref : String) (used : List String) (c : Nat) (nm : String) (c' : Nat)
    (h : pickName pref used c = some (nm, c')) : nm ∉ used := by
  unfold pickName at h
  split at h
  · exact (findFree_fresh pref used _ c nm c' h).1
  · rename_i hc
    simp only [Option.some.injEq, Prod.mk.injEq] at h
    obtain ⟨rfl, rfl⟩ := h
    intro hm
    exact hc (contains_mem.mpr hm)

/-- a free name is kept and its counter is not touched (renames happen ONLY to make names unique) -/
theorem pickName_keep (pref : String) (used : List String) (c : Nat) (h : pref ∉ used) :
    pickName pref used c = some (pref, c) := by
  unfold pickName
  have : used.contains pref = false := by
    cases hc : used.contains pref with
    | false => rfl
    | true => exact absurd (contains_mem.mp hc) h
  rw [if_neg (by rw [this]; exact Bool.false_ne_true)]

/-- a renamed value gets `f"{name}_{k}"` with a counter value never handed out before for that name -/
theorem pickName_renamed (pref : String) (used : List String) (c : Nat) (nm : String) (c' : Nat)
    (hu : pref ∈ used) (h : pickName pref used c = some (nm, c')) : nm = suffixed pref c' ∧ c < c' := by
  unfold pickName at h
  rw [if_pos (contains_mem.mpr hu)] at h
  obtain ⟨_, a, b⟩ := findFree_fresh pref used _ c nm c' h
  exact ⟨b, a⟩

/-- **After the pass the names of one scope are pairwise distinct and distinct from every name that was
    in use before**, one name per value. -/
theorem fixList_sound : ∀ (xs used : List String) (cnt : NCounter) (out : List String),
    fixList used cnt xs = some out → out.Nodup ∧ (∀ x ∈ out, x ∉ used) ∧ out.length = xs.length
  | [], used, cnt, out, h => by
    simp only [fixList, Option.some.injEq] at h
    subst h
    simp
  | x :: xs, used, cnt, out, h => by
    simp only [fixList] at h
    split at h
    · cases h
    · rename_i nm c hp
      split at h
      · cases h
      · rename_i rest hr
        simp only [Option.some.injEq] at h
        subst h
        obtain ⟨r1, r2, r3⟩ := fixList_sound xs (nm :: used) _ rest hr
        refine ⟨List.nodup_cons.mpr ⟨?_, r1⟩, ?_, by simp [r3]⟩
        · intro hm
          exact r2 nm hm List.mem_cons_self
        · intro y hy
          rcases List.mem_cons.mp hy with e | e
          · subst e; exact pickName_fresh _ _ _ _ _ hp
          · intro hu; exact r2 y e (List.mem_cons_of_mem _ hu)

/-- **Names that are already unique and present are all kept.** -/
theorem fixList_keep : ∀ (xs used : List String) (cnt : NCounter), xs.Nodup →
    (∀ x ∈ xs, x ∉ used ∧ x ≠ "") → fixList used cnt xs = some xs
  | [], _, _, _, _ => rfl
  | x :: xs, used, cnt, hn, hx => by
    rw [List.nodup_cons] at hn
    have hx0 := hx x List.mem_cons_self
    have hp : preferred x = x := by simp [preferred, hx0.2]
    simp only [fixList, hp, pickName_keep x used _ hx0.1]
    rw [fixList_keep xs (x :: used) _ hn.2]
    intro y hy
    refine ⟨?_, (hx y (List.mem_cons_of_mem _ hy)).2⟩
    intro hm
    rcases List.mem_cons.mp hm with e | e
    · subst e; exact hn.1 hy
    · exact (hx y (List.mem_cons_of_mem _ hy)).1 e

/-- **Precedence**: the value visited first (graph inputs, then graph outputs) keeps its name. -/
theorem fixList_head (x : String) (xs used : List String) (cnt : NCounter) (out : List String)
    (hx : x ≠ "") (hu : x ∉ used) (h : fixList used cnt (x :: xs) = some out) : out.head? = some x := by
  have hp : preferred x = x := by simp [preferred, hx]
  simp only [fixList, hp, pickName_keep x used _ hu] at h
  split at h
  · cases h
  · simp only [Option.some.injEq] at h
    subst h
    rfl

/-! ### non-vacuity -/

example : fixList [] [] ["a", "b", "a", "", "a", "a_1", ""] =
    some ["a", "b", "a_1", "v", "a_2", "a_1_1", "v_1"] := by decide
example : fixList ["x"] [] ["y", "z"] = some ["y", "z"] := by decide
example : pickName "x" ["x", "x_1"] 0 = some ("x_2", 2) := by decide
/-- a sub-graph starts from a copy of the enclosing names; siblings may reuse a name; counters are global -/
example : (nfRun nfInit [.enter, .val 0 "x", .val 1 "y", .enter, .val 2 "x", .val 3 "t", .exit,
    .enter, .val 4 "t", .val 0 "x", .val 5 "x", .exit, .val 6 "t", .exit]).map (·.out.reverse) =
    some [(0, "x"), (1, "y"), (2, "x_1"), (3, "t"), (4, "t"), (5, "x_2"), (6, "t")] := by decide

/-! ### the driver's event machine and `fixList` -/

/-- **The event machine the driver runs is `fixList` on every run of pairwise different values inside one scope**:
    the names it assigns (latest first) are the names `fixList` computes, whatever the enclosing scopes, the
    counters, the values seen before and the names assigned before. -/
theorem nfRun_fixList : ∀ (xs : List String) (ids : List Nat) (used : List String) (rest : List (List String))
    (cnt : NCounter) (seen : List Nat) (out : List (Nat × String)),
    ids.length = xs.length → ids.Nodup → (∀ i ∈ ids, i ∉ seen) →
    (nfRun ⟨used :: rest, cnt, seen, out⟩ (List.zipWith Ev.val ids xs)).map (fun st => st.out.map (·.2)) =
      (fixList used cnt xs).map (fun names => names.reverse ++ out.map (·.2))
  | [], ids, used, rest, cnt, seen, out, hl, _, _ => by
    have : ids = [] := List.eq_nil_of_length_eq_zero (by simpa using hl)
    subst this
    simp [nfRun, fixList]
  | x :: xs, [], _, _, _, _, _, hl, _, _ => by simp at hl
  | x :: xs, id :: ids, used, rest, cnt, seen, out, hl, hn, hs => by
    rw [List.nodup_cons] at hn
    have hid : seen.contains id = false := by
      cases hc : seen.contains id with
      | false => rfl
      | true =>
        exact absurd (List.contains_iff_mem.mp hc) (hs id List.mem_cons_self)
    simp only [List.zipWith_cons_cons, nfRun, nfStep, hid, List.headD_cons, List.tail_cons, fixList]
    cases hp : pickName (preferred x) used (cnt.get (preferred x)) with
    | none => simp
    | some r =>
      obtain ⟨nm, c⟩ := r
      simp only [Bool.false_eq_true, ↓reduceIte]
      have ih := nfRun_fixList xs ids (nm :: used) rest (cnt.set (preferred x) c) (id :: seen) ((id, nm) :: out)
        (by simpa using hl) hn.2
        (by
          intro i hi hm
          rcases List.mem_cons.mp hm with e | e
          · subst e; exact hn.1 hi
          · exact hs i (List.mem_cons_of_mem _ hi) e)
      rw [ih]
      cases fixList (nm :: used) (cnt.set (preferred x) c) xs with
      | none => simp
      | some names => simp

example : (nfRun nfInit [.enter, .val 0 "a", .val 1 "b", .val 2 "a"]).map (fun st => st.out.map (·.2)) =
    (fixList [] [] ["a", "b", "a"]).map List.reverse := by decide

/-! ### the per-scope hypothesis in specification form (`scopeAt?`, no accumulator) -/

/-- "`ρ` is injective per scope", stated with the specification's own `scopeAt?` (no accumulator): for every scope
    at every depth, `ρ` is injective on the names visible from the enclosing scopes plus the scope's own definitions -/
def PathInj (ρ : String → String) (outer : List String) (g : Graph) : Prop :=
  ∀ p vis g', scopeAt? p outer g = some (vis, g') → InjOnL ρ (vis ++ localDefs g')

theorem injNs_of_parts (ρ : String → String) : ∀ (ns : List Node) (vis : List String),
    InjOnL ρ (vis ++ definedBy ns) →
    (∀ (k : Nat) (n : Node), ns[k]? = some n → InjN ρ (vis ++ definedBy (ns.take k)) n) → InjNs ρ vis ns
  | [], vis, h, _ => by simpa [InjNs, definedBy_nil] using h
  | n :: rest, vis, h, hk => by
    simp only [InjNs]
    refine ⟨?_, injNs_of_parts ρ rest (vis ++ n.outs) ?_ ?_⟩
    · have := hk 0 n (by simp)
      simpa [definedBy_nil] using this
    · rw [definedBy_cons, ← List.append_assoc] at h; exact h
    · intro k m hm
      have := hk (k + 1) m (by simpa using hm)
      simpa [List.take_succ_cons, definedBy_cons, List.append_assoc] using this

theorem injBs_of_mem (ρ : String → String) (vis : List String) : ∀ bs : List Graph,
    (∀ b ∈ bs, InjG ρ vis b) → InjBs ρ vis bs
  | [], _ => by simp only [InjBs]
  | b :: rest, h => by
    simp only [InjBs]
    exact ⟨h b List.mem_cons_self, injBs_of_mem ρ vis rest (fun c hc => h c (List.mem_cons_of_mem _ hc))⟩

theorem injN_of_bodies (ρ : String → String) (vis : List String) (n : Node)
    (h : ∀ b ∈ n.bodies, InjG ρ vis b) : InjN ρ vis n := by
  cases n with
  | mk d o i u a bs => simp only [InjN]; exact injBs_of_mem ρ vis bs h

theorem injG_of_parts (ρ : String → String) (g : Graph) (outer : List String)
    (h1 : InjOnL ρ (outer ++ localDefs g))
    (h2 : ∀ i j b, g.sub? i j = some b →
      InjG ρ (outer ++ (g.inputs ++ g.inits) ++ definedBy (g.nodes.take i)) b) : InjG ρ outer g := by
  cases g with
  | mk i t ns o v =>
    simp only [InjG]
    apply injNs_of_parts
    · have : outer ++ (i ++ t) ++ definedBy ns = outer ++ localDefs (.mk i t ns o v) := by
        simp [localDefs, Graph.inputs, Graph.inits, Graph.nodes, List.append_assoc]
      rw [this]; exact h1
    · intro k n hn
      apply injN_of_bodies
      intro b hb
      obtain ⟨j, hj⟩ := List.getElem?_of_mem hb
      exact h2 k j b (by simp [Graph.sub?, Graph.nodes, hn, hj])

mutual
theorem injG_of_paths (ρ : String → String) : ∀ (g : Graph) (outer : List String),
    PathInj ρ outer g → InjG ρ outer g
  | .mk i t ns o v, outer, h => by
    apply injG_of_parts
    · exact h [] outer _ rfl
    · intro k j b hb
      have hb0 := hb
      simp only [Graph.sub?, Graph.nodes] at hb
      split at hb
      · cases hb
      · rename_i n hn
        refine injNs_of_paths ρ ns n (List.mem_of_getElem? hn) b (List.mem_of_getElem? hb) _ ?_
        intro p vis g' hs
        exact h ((k, j) :: p) vis g' (by simp only [scopeAt?, hb0]; exact hs)
theorem injNs_of_paths (ρ : String → String) : ∀ (ns : List Node), ∀ n ∈ ns, ∀ b ∈ n.bodies,
    ∀ outer, PathInj ρ outer b → InjG ρ outer b
  | [], n, hn => by cases hn
  | m :: rest, n, hn => by
    rcases List.mem_cons.mp hn with e | e
    · rw [e]; exact injN_of_paths ρ m
    · exact injNs_of_paths ρ rest n e
theorem injN_of_paths (ρ : String → String) : ∀ (n : Node), ∀ b ∈ n.bodies,
    ∀ outer, PathInj ρ outer b → InjG ρ outer b
  | .mk d o i u a bs => by
    simp only [Node.bodies]; exact injBs_of_paths ρ bs
theorem injBs_of_paths (ρ : String → String) : ∀ (bs : List Graph), ∀ b ∈ bs,
    ∀ outer, PathInj ρ outer b → InjG ρ outer b
  | [], b, hb => by cases hb
  | c :: rest, b, hb => by
    rcases List.mem_cons.mp hb with e | e
    · rw [e]; exact injG_of_paths ρ c
    · exact injBs_of_paths ρ rest b e
end

/-- **`rename_preserves_scopes` with the hypothesis in specification form**: an accepted graph stays accepted under
    any renaming that is injective on `vis ++ localDefs` of every scope at every depth (exactly the list that
    `visible_names_unique` shows to be duplicate-free). -/
theorem rename_preserves_scopes_paths (ρ : String → String) (h0 : ρ "" = "") (hne : ∀ x, x ≠ "" → ρ x ≠ "")
    (g : Graph) (h : checkGraph [] g = true) (hi : PathInj ρ [] g) : checkGraph [] (renameG ρ g) = true :=
  rename_preserves_scopes ρ h0 hne g h (injG_of_paths ρ g [] hi)

example : PathInj exRho [] exIf := by
  intro p vis g' hs
  rcases p with _ | ⟨⟨i, j⟩, p'⟩
  · simp only [scopeAt?, Option.some.injEq, Prod.mk.injEq] at hs
    obtain ⟨rfl, rfl⟩ := hs
    simp only [exIf, localDefs, Graph.inputs, Graph.inits, Graph.nodes, definedBy, InjOnL]; decide
  · rcases i with _ | i
    · rcases j with _ | _ | j
      · rcases p' with _ | ⟨⟨i', j'⟩, p''⟩
        · simp [scopeAt?, exIf, Graph.sub?, Graph.nodes, Node.bodies, Graph.inputs, Graph.inits, definedBy] at hs
          obtain ⟨rfl, rfl⟩ := hs
          simp only [localDefs, Graph.inputs, Graph.inits, Graph.nodes, definedBy, InjOnL]; decide
        · rcases i' with _ | i' <;>
            simp [scopeAt?, exIf, Graph.sub?, Graph.nodes, Node.bodies, Graph.inputs, Graph.inits, definedBy] at hs
      · rcases p' with _ | ⟨⟨i', j'⟩, p''⟩
        · simp [scopeAt?, exIf, Graph.sub?, Graph.nodes, Node.bodies, Graph.inputs, Graph.inits, definedBy] at hs
          obtain ⟨rfl, rfl⟩ := hs
          simp only [localDefs, Graph.inputs, Graph.inits, Graph.nodes, definedBy, InjOnL]; decide
        · rcases i' with _ | i' <;>
            simp [scopeAt?, exIf, Graph.sub?, Graph.nodes, Node.bodies, Graph.inputs, Graph.inits, definedBy] at hs
      · simp [scopeAt?, exIf, Graph.sub?, Graph.nodes, Node.bodies] at hs
    · simp [scopeAt?, exIf, Graph.sub?, Graph.nodes, Node.bodies] at hs

end J2O.C03
