/-
C14 — export is deterministic and independent of history: property theorems
(nothing but statements + proofs + non-vacuity examples).

Set iteration (every enumeration order of a Python set is a legal behaviour):
* `fold_perm_invariant`            commuting edits ⇒ the fold does not depend on the order (general)
* `removeAll_perm_invariant`       `graph.remove(list(S))`
* `substUses_perm_invariant`       `for t in S: replace_all_uses_with(out t, in t)` (distinct keys,
                                   targets are not keys)
* `collect_perm_invariant`         `for x in S: acc.add(…)` (membership of the accumulated set)
* `permLoop_perm_invariant`        the all-equal check with `break` (order-insensitive reduction)
* `assocInsert_perm_invariant`     `for t in S: d[k t] = v t` for distinct keys, only looked up
* `ownSlot_perm_invariant`         `for n in S: n.replace_input_with(…)` (each member edits its own slot)
* `reduction_perm_invariant`       `all(…)`/`any(…)`/flag loops with `break`
* `inGraphOrder_perm_invariant`    `for n in nodes: if n in S` (membership only)
* `inRefOrder_perm_invariant`      the same for any reference sequence
* `sorted_perm_invariant`          `sorted(S)` (order restored by sorting)
* `append_perm_invariant_partial`  `for p in S: out.append(…)` when S has at most one member
* `append_perm_invariant_refuted`  the full statement for appending loops over a set is FALSE — genuine defect
                                   F-C14-2 of /repo (`for pname in call_param_names`), demonstrated on the real
                                   code and fixed there by 8f5c416; the fixed loop (`for pname in literal_map:
                                   if pname not in call_param_names: continue`) is `inRefOrder_perm_invariant`
* `append_refOrder_invariant`      full strength for the fixed code: appending in reference order
* `refresh_perm_invariant_partial` the shape refresh, when no visited node feeds a visited node
* `refresh_perm_invariant_refuted` the full statement for the shape refresh in SET order is FALSE (two-level
                                   DAG, two orders, two annotations) — genuine defect F-C14-1 of /repo,
                                   demonstrated on the real code and fixed there by 4ccbe6a
* `refresh_graph_order_invariant`  full strength for the fixed code (`for n in nodes: if n in elem_nodes`)
History / hashing:
* `memo_transparent`               a consistent memo cache never changes an answer, for all histories
* `hash_not_in_output`             keys that reach the registry through any two injective encodings
                                   give identical output (partition into definitions + names)
* `fresh_context_independent`      the outcome of a conversion is the same after every history of
                                   earlier (successful or failing) conversions
* `registry_order_irrelevant`      … and for every insertion (= import) order of the plugin registry
* `bracketed_restores`             try/finally around the function-body build restores `_IN_FUNCTION_BUILD` for
                                   every body and every failure point
* `build_flag_history_independent` hence emitted-as-function / failed is the same after every history
* `unbracketed_restore_refuted`, `build_flag_unbracketed_refuted`  a restore after a bare `yield` leaks the flag:
                                   after a conversion that failed inside the body build the same call is inlined
-/
import J2O.Lemmas.C14
set_option linter.unusedSimpArgs false
set_option linter.unusedVariables false

namespace J2O.C14

/-! ## Set iteration -/

/-- **General lemma.** If the edits performed for the members of `l` commute pairwise, visiting
    them in any other order `l'` (a permutation) produces the same state. Unbounded lists. -/
theorem fold_perm_invariant {α σ : Type} (step : α → σ → σ) (l l' : List α) (s : σ)
    (comm : ∀ a ∈ l, ∀ b ∈ l, ∀ s, step a (step b s) = step b (step a s))
    (h : l.Perm l') : visit step s l = visit step s l' := by
  unfold visit
  exact List.Perm.foldl_eq' h (fun x hx y hy z => comm y hy x hx z) s

example : visit removeNode [⟨0, 10, []⟩, ⟨1, 11, [10]⟩, ⟨2, 12, [11]⟩] [2, 0]
        = visit removeNode [⟨0, 10, []⟩, ⟨1, 11, [10]⟩, ⟨2, 12, [11]⟩] [0, 2] := by decide

/-- `graph.remove(list(S))`: the remaining graph (content *and* order) does not depend on the
    order in which the set was enumerated; it is the filter by non-membership. -/
theorem removeAll_perm_invariant (l l' : List Nat) (g : Graph) (h : l.Perm l') :
    visit removeNode g l = visit removeNode g l' ∧ visit removeNode g l = removeAll l g := by
  refine ⟨?_, visit_removeNode l g⟩
  exact fold_perm_invariant removeNode l l' g (fun a _ b _ s => removeNode_comm a b s) h

example : removeAll [2, 0] [⟨0, 10, []⟩, ⟨1, 11, [10]⟩, ⟨2, 12, [11]⟩] = [⟨1, 11, [10]⟩] := by decide

/-- Guard of the use-replacement loops: two different members replace different values and
    nobody's replacement is somebody's replaced value (a removed transpose's output is replaced
    by the output of an elementwise node, which is never the output of a removed transpose). -/
def SubstGuard (l : List (Nat × Nat)) : Prop :=
  ∀ p ∈ l, ∀ q ∈ l, p = q ∨ (p.1 ≠ q.1 ∧ p.2 ≠ q.1 ∧ q.2 ≠ p.1)

/-- `for t in S: replace_all_uses_with(t_out, t_in)` under `SubstGuard`. -/
theorem substUses_perm_invariant (l l' : List (Nat × Nat)) (u : Uses) (hg : SubstGuard l)
    (h : l.Perm l') : visit substUses u l = visit substUses u l' := by
  apply fold_perm_invariant substUses l l' u _ h
  intro a ha b hb s
  rcases hg a ha b hb with rfl | ⟨h1, h2, h3⟩
  · rfl
  · simp only [substUses, List.map_map]
    apply List.map_congr_left
    intro v _
    exact subst_comm a.1 a.2 b.1 b.2 v h1 h2 h3

example : SubstGuard [(20, 11), (21, 12)] ∧
    visit substUses [20, 21, 5] [(20, 11), (21, 12)] = [11, 12, 5] := by
  refine ⟨?_, by decide⟩
  intro p hp q hq
  simp only [List.mem_cons, List.not_mem_nil, or_false] at hp hq
  rcases hp with rfl | rfl <;> rcases hq with rfl | rfl <;> simp

/-- `for x in S: for y in f x: acc.add(y)`: the accumulated *set* is the same. -/
theorem collect_perm_invariant {α β : Type} (f : α → List β) (l l' : List α) (acc : List β)
    (h : l.Perm l') (x : β) :
    x ∈ visit (collectStep f) acc l ↔ x ∈ visit (collectStep f) acc l' := by
  rw [mem_visit_collect, mem_visit_collect]
  constructor
  · rintro (hx | ⟨a, ha, hx⟩)
    · exact Or.inl hx
    · exact Or.inr ⟨a, h.mem_iff.mp ha, hx⟩
  · rintro (hx | ⟨a, ha, hx⟩)
    · exact Or.inl hx
    · exact Or.inr ⟨a, h.mem_iff.mpr ha, hx⟩

example : (7 : Nat) ∈ visit (collectStep (fun a : Nat => [a + 1, a + 2])) [] [3, 5] := by decide

/-- The all-equal check with early `break` (`for t_node in transpose_nodes: …`): both the
    verdict and the agreed permutation are independent of the enumeration order. -/
theorem permLoop_perm_invariant {β : Type} [DecidableEq β] (l l' : List (Option β))
    (h : l.Perm l') : ∀ acc, permLoop l acc = permLoop l' acc := by
  induction h with
  | nil => intro _; rfl
  | cons x _ ih =>
    intro acc
    cases x <;> cases acc <;> simp only [permLoop, ih]
  | swap x y l => intro acc; exact permLoop_swap y x l acc
  | trans _ _ ih1 ih2 => intro acc; rw [ih1, ih2]

example : permLoop [some [0, 2, 1], some [0, 2, 1]] none = some (some [0, 2, 1]) ∧
    permLoop [some [0, 2, 1], some [0, 1, 2]] none = none ∧
    permLoop [some [0, 2, 1], (none : Option (List Nat))] none = none := by decide

/-- A dict filled in a set loop with distinct keys answers every lookup identically. -/
theorem assocInsert_perm_invariant {κ ν : Type} [BEq κ] [LawfulBEq κ] (l l' : List (κ × ν))
    (hk : (l.map Prod.fst).Nodup) (h : l.Perm l') (k : κ) :
    (visit assocInsert [] l).lookup k = (visit assocInsert [] l').lookup k := by
  rw [visit_assocInsert, visit_assocInsert, List.append_nil, List.append_nil]
  have hr : l.reverse.Perm l'.reverse :=
    (List.reverse_perm l).trans (h.trans (List.reverse_perm l').symm)
  apply lookup_perm hr
  exact (List.Perm.nodup_iff ((List.reverse_perm l).map Prod.fst)).mpr hk

example : (visit assocInsert [] [(1, 10), (2, 20)]).lookup 2 = some 20 := by decide

/-- `for n in S: <edit n's own inputs>`: members with distinct identities edit disjoint slots. -/
theorem ownSlot_perm_invariant {β : Type} (l l' : List (Nat × β)) (s : Nat → β)
    (hk : (l.map Prod.fst).Nodup) (h : l.Perm l') : visit ownSlot s l = visit ownSlot s l' := by
  apply fold_perm_invariant ownSlot l l' s _ h
  intro a ha b hb s
  by_cases e : a = b
  · subst e; rfl
  · have hne : a.1 ≠ b.1 := fun h1 => e (eq_of_nodup_keys l hk a b ha hb h1)
    funext w
    simp only [ownSlot]
    by_cases h1 : w = a.1 <;> by_cases h2 : w = b.1
    · exact absurd (h1.symm.trans h2) hne
    · subst h1; simp [hne]
    · subst h2; simp [h1]
    · simp [h1, h2]

example : visit ownSlot (fun _ => 0) [(1, 5), (2, 7)] 2 = 7 := by decide

/-- `ok = all(check x for x in S)` / `any(…)` / the flag loops with `break`: the verdict is a
    conjunction (disjunction) over the members. -/
theorem reduction_perm_invariant {α : Type} (p : α → Bool) (l l' : List α) (h : l.Perm l') :
    l.all p = l'.all p ∧ l.any p = l'.any p := ⟨h.all_eq, h.any_eq⟩

example : [1, 2, 3].all (fun n => decide (n < 4)) = true ∧ [1, 2, 3].any (fun n => decide (n > 2)) = true := by
  decide

/-- `for n in nodes: if n in S`: only membership in `S` is used, the order comes from the graph. -/
theorem inGraphOrder_perm_invariant (g : Graph) (s s' : List Nat) (h : s.Perm s') :
    inGraphOrder g s = inGraphOrder g s' := by
  unfold inGraphOrder
  apply List.filter_congr
  intro n _
  exact h.contains_eq

example : inGraphOrder [⟨0, 10, []⟩, ⟨1, 11, [10]⟩, ⟨2, 12, [11]⟩] [2, 0]
        = [⟨0, 10, []⟩, ⟨2, 12, [11]⟩] := by decide

/-- The same for any reference sequence (`for k in literal_map: if k in call_param_names`). -/
theorem inRefOrder_perm_invariant {α : Type} [BEq α] (ref s s' : List α) (h : s.Perm s') :
    inRefOrder ref s = inRefOrder ref s' := by
  unfold inRefOrder
  apply List.filter_congr
  intro n _
  exact h.contains_eq

example : inRefOrder ["alpha", "beta", "gamma"] ["gamma", "alpha"] = ["alpha", "gamma"] := by decide

/-- `sorted(S)`: sorting by a total order restores one order for every enumeration. -/
theorem sorted_perm_invariant {α : Type} (le : α → α → Bool)
    (tr : ∀ a b c, le a b = true → le b c = true → le a c = true)
    (tot : ∀ a b, (le a b || le b a) = true)
    (anti : ∀ a b, le a b = true → le b a = true → a = b)
    (l l' : List α) (h : l.Perm l') : l.mergeSort le = l'.mergeSort le := by
  apply List.Perm.eq_of_pairwise (le := fun a b => le a b = true)
  · intro a b _ _ h1 h2; exact anti a b h1 h2
  · exact List.pairwise_mergeSort tr tot l
  · exact List.pairwise_mergeSort tr tot l'
  · exact (List.mergeSort_perm l le).trans (h.trans (List.mergeSort_perm l' le).symm)

example : [3, 1, 2].mergeSort (fun a b => decide (a ≤ b)) =
    [1, 3, 2].mergeSort (fun a b => decide (a ≤ b)) :=
  sorted_perm_invariant _ (by intro a b c; simp; omega) (by intro a b; simp; omega)
    (by intro a b; simp; omega) _ _ (List.Perm.swap 1 3 [2])

/-! ## Appending in set order (function inputs from `call_param_names`) -/

/-- **Partial.** `for pname in call_param_names: dynamic_entries.append(…)` is independent of
    the enumeration order when at most one parameter is appended.
    Missing for the full statement: two or more parameters (see the refutation — the code as it
    is orders the added function/graph inputs by string hash). -/
theorem append_perm_invariant_partial {α β : Type} (f : α → β) (l l' : List α) (acc : List β)
    (h1 : l.length ≤ 1) (h : l.Perm l') :
    visit (appendStep f) acc l = visit (appendStep f) acc l' := by
  match l, h1, h with
  | [], _, h => rw [List.Perm.eq_nil (h.symm)]
  | [a], _, h => rw [List.perm_singleton.mp h.symm]

example : visit (appendStep (fun s : String => s ++ "!")) ["x"] ["alpha"] = ["x", "alpha!"] := by decide

/-- **Refuted full statement.** Appending in enumeration order is order-dependent: this is the
    behaviour of /repo up to dfda5c9 for `call_param_names` (finding F-C14-2: the order of the
    graph inputs added for call parameters followed the string hash seed; fixed by 8f5c416). -/
theorem append_perm_invariant_refuted :
    ¬ (∀ (l l' : List String) (acc : List String), l.Perm l' →
        visit (appendStep id) acc l = visit (appendStep id) acc l') := by
  intro hall
  have h := hall ["alpha", "beta"] ["beta", "alpha"] [] (List.Perm.swap _ _ _)
  revert h
  decide

/-- **Full strength for the fixed code (8f5c416).** `for pname in literal_map: if pname in
    call_param_names: out.append(…)`: the appended sequence does not depend on how the set
    enumerates, for any number of parameters. -/
theorem append_refOrder_invariant {α β : Type} [BEq α] (f : α → β) (ref s s' : List α) (acc : List β)
    (h : s.Perm s') :
    visit (appendStep f) acc (inRefOrder ref s) = visit (appendStep f) acc (inRefOrder ref s') := by
  rw [inRefOrder_perm_invariant ref s s' h]

example : visit (appendStep id) ["in_0"] (inRefOrder ["deterministic", "training"] ["training", "deterministic"])
    = ["in_0", "deterministic", "training"] := by decide

/-! ## The shape refresh of the multi-transpose fold -/

/-- One-level guard: no visited node consumes the output of a visited node, and different
    visited nodes write different outputs. -/
def OneLevel (l : List Node) : Prop :=
  ∀ a ∈ l, ∀ b ∈ l, b.out ∉ a.ins ∧ (a = b ∨ a.out ≠ b.out)

/-- **Partial.** The refresh loop `for node in elem_nodes: … _refresh_elementwise_output_shape(node)`
    is independent of the enumeration order *when the visited nodes form one level*.
    Missing for the full statement: nodes that consume other visited nodes (see the refutation
    below — the full statement is false for the code as it is). -/
theorem refresh_perm_invariant_partial (l l' : List Node) (ann : Ann) (hg : OneLevel l)
    (h : l.Perm l') : refreshAll l ann = refreshAll l' ann := by
  apply fold_perm_invariant refresh l l' ann _ h
  intro a ha b hb s
  obtain ⟨h1, h3⟩ := hg a ha b hb
  obtain ⟨h2, _⟩ := hg b hb a ha
  rcases h3 with rfl | h3
  · rfl
  · exact refresh_comm a b s h1 h2 h3

example : OneLevel [⟨0, 10, [1, 2]⟩, ⟨1, 11, [3]⟩] ∧
    refreshAll [⟨0, 10, [1, 2]⟩, ⟨1, 11, [3]⟩]
      (annOf [(1, [2, 3, 4]), (2, [2, 3, 4]), (3, [2, 3, 4]), (10, [2, 4, 3]), (11, [2, 4, 3])]) 10
      = some [2, 3, 4] := by
  refine ⟨?_, by decide⟩
  intro a ha b hb
  simp only [List.mem_cons, List.not_mem_nil, or_false] at ha hb
  rcases ha with rfl | rfl <;> rcases hb with rfl | rfl <;> simp

/-- Witness graph `T(a)·T(s) → Mul(id 0) → Exp(id 1) → T⁻¹` after the inputs were replaced by the
    un-transposed sources: values 1, 2 carry `(2,3,4)`; `Mul.out = 10` and `Exp.out = 11` still
    carry the transposed `(2,4,3)`. -/
def witnessAnn : Ann :=
  annOf [(1, [2, 3, 4]), (2, [2, 3, 4]), (10, [2, 4, 3]), (11, [2, 4, 3])]
def witnessMul : Node := ⟨0, 10, [1, 2]⟩
def witnessExp : Node := ⟨1, 11, [10]⟩

/-- **Refuted full statement.** `fold_perm_invariant` does *not* hold for the refresh step on
    multi-level DAGs: visiting `Exp` before `Mul` leaves the stale transposed shape on `Exp`'s
    output. This was the behaviour of /repo up to 823e012 (finding F-C14-1, fixed by 4ccbe6a). -/
theorem refresh_perm_invariant_refuted :
    ¬ (∀ (l l' : List Node) (ann : Ann), l.Perm l' → refreshAll l ann = refreshAll l' ann) := by
  intro hall
  have h := hall [witnessMul, witnessExp] [witnessExp, witnessMul] witnessAnn (List.Perm.swap _ _ _)
  have h11 := congrFun h 11
  revert h11
  decide

example : refreshAll [witnessMul, witnessExp] witnessAnn 11 = some [2, 3, 4] ∧
    refreshAll [witnessExp, witnessMul] witnessAnn 11 = some [2, 4, 3] := by decide

/-- **Full strength for the fixed code (4ccbe6a).** Visiting the members in graph order
    (`for n in nodes: if n in elem_nodes`) makes the refresh independent of how the set enumerates,
    for every DAG. -/
theorem refresh_graph_order_invariant (g : Graph) (s s' : List Nat) (ann : Ann) (h : s.Perm s') :
    refreshAll (inGraphOrder g s) ann = refreshAll (inGraphOrder g s') ann := by
  rw [inGraphOrder_perm_invariant g s s' h]

example : refreshAll (inGraphOrder [witnessMul, witnessExp] [1, 0]) witnessAnn 11 = some [2, 3, 4] := by
  decide

/-! ## Memo cache -/

/-- **Memo transparency.** Starting from any cache that only holds true answers, every request
    history is answered exactly as by the pure function, and the cache stays consistent. -/
theorem memo_transparent {κ ν : Type} [BEq κ] [LawfulBEq κ] (f : κ → ν) (cache : List (κ × ν))
    (h : MemoOK f cache) (ks : List κ) :
    (memoRun f cache ks).1 = ks.map f ∧ MemoOK f (memoRun f cache ks).2 := by
  induction ks generalizing cache with
  | nil => exact ⟨rfl, h⟩
  | cons k ks ih =>
    have hv := memoCall_val f cache h k
    have hc := memoCall_ok f cache h k
    obtain ⟨i1, i2⟩ := ih (memoCall f cache k).2 hc
    simp only [memoRun, List.map_cons]
    exact ⟨by rw [hv, i1], i2⟩

example : (memoRun (fun n : Nat => n % 2 == 0) [] [4, 7, 4]).1 = [true, false, true] ∧
    (memoRun (fun n : Nat => n % 2 == 0) [] [4, 7, 4]).2.length = 2 := by decide

/-! ## Hashes inside keys -/

/-- **Hash not in output.** If function keys reach the registry through an injective encoding
    (`FunctionKey` holding `hash(arr.tobytes())`, `id(callee)`), the outcome of a conversion —
    emitted names, partition of call sites into definitions, errors, and the process-wide state
    left behind — is the one obtained with the keys themselves. -/
theorem hash_transparent {κ κ' : Type} [DecidableEq κ] [DecidableEq κ'] (enc : κ → κ')
    (inj : Function.Injective enc) (sig : Nat → Bool) (g : Global) (r : Request κ) :
    convert sig g (r.map (Op.mapKey enc)) = convert sig g r := by
  unfold convert
  have := runOps_mapKey enc inj sig r g Ctx.fresh
  simpa [Ctx.mapKey, Ctx.fresh] using this

/-- Any two injective hash functions (two `PYTHONHASHSEED`s, two address layouts) give the same
    outcome. -/
theorem hash_not_in_output {κ κ₁ κ₂ : Type} [DecidableEq κ] [DecidableEq κ₁] [DecidableEq κ₂]
    (h₁ : κ → κ₁) (h₂ : κ → κ₂) (i₁ : Function.Injective h₁) (i₂ : Function.Injective h₂)
    (sig : Nat → Bool) (g : Global) (r : Request κ) :
    convert sig g (r.map (Op.mapKey h₁)) = convert sig g (r.map (Op.mapKey h₂)) := by
  rw [hash_transparent h₁ i₁, hash_transparent h₂ i₂]

/-- The encoding used by the code — constants of the capture signature hashed pointwise — is
    injective whenever the hash is (no collisions among the constants that occur). -/
theorem pointwise_hash_injective {α β γ : Type} (h : β → γ) (inj : Function.Injective h) :
    Function.Injective (fun (k : α × List β) => (k.1, k.2.map h)) :=
  encode_injective h inj

example : (convert (fun _ => true) ⟨[], [], []⟩
      [Op.call (3 : Nat) "custom" "Block" false, Op.call 5 "custom" "Block" false,
       Op.call 3 "custom" "Block" false]).1
    = .ok ["def Block custom.Block.1", "call Block custom.Block.1 Block_0",
           "def Block custom.Block.2", "call Block custom.Block.2 Block_1",
           "call Block custom.Block.1 Block_2"] := by decide +kernel

/-! ## Histories -/

/-- The outcome of a request is the same from any two process-wide states that agree on plugin
    *lookups* and whose memo caches are consistent. -/
theorem convert_global_irrelevant {κ : Type} [BEq κ] (sig : Nat → Bool) (g g' : Global)
    (hp : ∀ p, g.plugins.lookup p = g'.plugins.lookup p) (hg : GlobalOK sig g)
    (hg' : GlobalOK sig g') (r : Request κ) (hr : wellScoped [] r = true) :
    (convert sig g r).1 = (convert sig g' r).1 :=
  runOps_rel sig r [] g g' Ctx.fresh ⟨hp, hg, hg', fun _ hk => absurd hk List.not_mem_nil⟩ hr

/-- **Fresh context / history independence.** After *every* history of earlier conversions
    (successful or failing, each leaving memo entries and instance-map entries behind), a
    request has the same outcome as in the initial state. Counters cannot leak because they
    live in `Ctx`, which `convert` creates fresh. -/
theorem fresh_context_independent {κ : Type} [BEq κ] (sig : Nat → Bool) (g : Global)
    (hg : GlobalOK sig g) (hist : List (Request κ)) (r : Request κ) (hr : wellScoped [] r = true) :
    (convert sig (after sig g hist) r).1 = (convert sig g r).1 := by
  obtain ⟨hp, hk⟩ := after_preserves sig hist g hg
  exact convert_global_irrelevant sig _ g (fun p => by rw [hp]) hk hg r hr

/-- **Plugin import order.** A registry with the same entries inserted in another order (and
    no primitive registered twice) gives the same outcome. -/
theorem registry_order_irrelevant {κ : Type} [BEq κ] (sig : Nat → Bool) (g : Global)
    (plugins' : List (Nat × Nat)) (hperm : g.plugins.Perm plugins')
    (hnd : (g.plugins.map Prod.fst).Nodup) (hg : GlobalOK sig g) (r : Request κ)
    (hr : wellScoped [] r = true) :
    (convert sig { g with plugins := plugins' } r).1 = (convert sig g r).1 :=
  convert_global_irrelevant sig { g with plugins := plugins' } g
    (fun p => (lookup_perm hperm hnd p).symm) hg hg r hr

/-- Non-vacuity: a history with a failing conversion and a repeated request. -/
example :
    let sig : Nat → Bool := fun n => n % 2 == 0
    let g : Global := ⟨[(1, 4), (2, 7)], [], []⟩
    let r : Request Nat := [.bind 9 1, .fresh "x", .lower 2, .resolve 9, .call 0 "custom" "F" true,
                            .call 1 "custom" "F" true, .bfresh "F"]
    let bad : Request Nat := [.lower 1, .fresh "x", .fail]
    GlobalOK sig g ∧ wellScoped [] r = true ∧
    (convert sig (after sig g [r, bad, r]) r).1 =
      .ok ["x_0", "lower 2 false", "callee 1", "def F custom.F.unique", "call F custom.F.unique F_0",
           "def F custom.F.unique.2", "call F custom.F.unique.2 F_1", "F_2"] ∧
    (after sig g [r, bad, r]).memo.length = 2 := by
  refine ⟨?_, by decide, by decide +kernel, by decide +kernel⟩
  intro k v h
  simp at h

/-! ## The function-build flag -/

/-- **Bracketed save/restore.** Whatever the body does with the flag and wherever it fails, the
    flag after the build is the flag before it. -/
theorem bracketed_restores {ε α : Type} (name : String)
    (body : List String → Except ε α × List String) (flag : List String) :
    (bracketed name body flag).2 = flag := rfl

example : bracketed "F" (fun f => ((.error "IndexError" : Except String Unit), "G" :: f)) ["H"]
    = (.error "IndexError", ["H"]) := by decide

theorem buildConv_flag (r : BuildReq) (flag : List String) : (buildConv true r flag).2 = flag := by
  unfold buildConv
  split <;> rfl

theorem flagAfter_bracketed (hist : List BuildReq) (flag : List String) :
    flagAfter true hist flag = flag := by
  induction hist generalizing flag with
  | nil => rfl
  | cons r hist ih =>
    show flagAfter true hist (buildConv true r flag).2 = flag
    rw [buildConv_flag, ih]

/-- **History independence of function emission.** With the bracketed build, whether a call of a
    decorated function becomes an ONNX function is the same after every history of conversions,
    including conversions that failed inside a function-body build. -/
theorem build_flag_history_independent (hist : List BuildReq) (r : BuildReq) :
    (buildConv true r (flagAfter true hist [])).1 = (buildConv true r []).1 := by
  rw [flagAfter_bracketed]

example : (buildConv true ⟨"SBlock", false⟩ (flagAfter true [⟨"SBlock", false⟩, ⟨"SBlock", true⟩] [])).1
    = .function := by decide

/-- **Refuted.** Restoring after a bare `yield` does not restore the flag when the body raises. -/
theorem unbracketed_restore_refuted :
    ¬ (∀ (name : String) (body : List String → Except String Unit × List String) (flag : List String),
        (unbracketed name body flag).2 = flag) := by
  intro h
  have := h "F" (fun f => (.error "raised", f)) []
  revert this
  decide

/-- **Refuted.** With the unbracketed variant the outcome of a request depends on history: after a
    conversion that failed inside the body build of `SBlock`, the same good request is inlined. -/
theorem build_flag_unbracketed_refuted :
    ¬ (∀ (hist : List BuildReq) (r : BuildReq),
        (buildConv false r (flagAfter false hist [])).1 = (buildConv false r []).1) := by
  intro h
  have := h [⟨"SBlock", true⟩] ⟨"SBlock", false⟩
  revert this
  decide

end J2O.C14
