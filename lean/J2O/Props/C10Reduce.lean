/-
C10 — lane-wise correctness of the reduction batch rule (`register_reduction_batch_rule`) on the shared
tensor model, for sums over ANY commutative monoid (sum, product, max/min with a neutral element, and/or),
all tensors, all ranks, all axis lists, every position of the batch axis, with and without keepdims.

* `reduction_batch_rule_lanewise`       lane `b` (at the batch dim the rule reports) of the reduction the rule
                                        binds — operand moved to the front, normalised axes shifted by one —
                                        is the per-example reduction of lane `b` of the operand (keepdims)
* `reduction_batch_rule_lanewise_drop`  the same without keepdims (reduced axes squeezed)
* `normAxes_canonical`                  `int(ax) % rank` is numpy's normalisation of a negative axis
* `sumAxisL_eq`, `sumAxesL_eq`          the executable sum of the driver is `sumAxis` / `sumAxes` (ℕ)
-/
import J2O.Lemmas.Reduce
import J2O.Lemmas.C10
import J2O.Model.C10Tensor
set_option linter.unusedSimpArgs false
set_option linter.unusedVariables false
set_option linter.unusedTactic false

namespace J2O.C10R
open Finset J2O

variable {α : Type}

theorem lane_moveFront (d b : Nat) (t : J2O.Tensor α) : laneT 0 b (moveFront d t) = laneT d b t := by
  apply Tensor.ext'
  · rfl
  · rfl
  · funext k
    simp only [laneT, moveFront, Nat.not_lt_zero, if_false, Nat.add_one_ne_zero, Nat.add_sub_cancel]
    by_cases h : k < d
    · have : k + 1 ≤ d := h
      simp [h, this]
    · have : ¬ k + 1 ≤ d := by omega
      simp [h, this]
  · funext i
    simp only [laneT, moveFront, Nat.not_lt_zero, if_false, if_true, Nat.add_one_ne_zero, Nat.add_sub_cancel]
    congr 1
    funext m
    by_cases h1 : m = d
    · subst h1; simp
    · by_cases h2 : m < d
      · simp [h1, h2]
      · have : m ≠ 0 := by omega
        simp [h1, h2, this]

theorem lane_lane (a b c : Nat) (u : J2O.Tensor α) :
    laneT 0 b (laneT (a + 1) c u) = laneT a c (laneT 0 b u) := by
  apply Tensor.ext'
  · rfl
  · rfl
  · funext k
    simp only [laneT, Nat.not_lt_zero, if_false]
    by_cases h : k < a
    · have : k + 1 < a + 1 := by omega
      simp [h, this]
    · have : ¬ k + 1 < a + 1 := by omega
      simp [h, this]
  · funext i
    simp only [laneT, Nat.not_lt_zero, if_false]
    congr 1
    funext m
    by_cases h0 : m = 0
    · subst h0; simp
    · by_cases h1 : m < a + 1
      · have : m - 1 < a := by omega
        simp [h0, h1, this]
      · by_cases h2 : m = a + 1
        · subst h2; simp
        · have h3 : ¬ m - 1 < a := by omega
          have h4 : m - 1 ≠ a := by omega
          have h5 : m - 1 ≠ 0 := by omega
          simp [h0, h1, h2, h3, h4, h5]

section Monoid
variable [AddCommMonoid α]

theorem lane_sumAxis (a b : Nat) (u : J2O.Tensor α) :
    laneT 0 b (sumAxis (a + 1) u) = sumAxis a (laneT 0 b u) := by
  apply Tensor.ext'
  · rfl
  · rfl
  · funext k
    simp only [laneT, sumAxis, Nat.not_lt_zero, if_false, Nat.add_right_cancel_iff]
  · funext i
    simp only [laneT, sumAxis, Nat.not_lt_zero, if_false]
    apply Finset.sum_congr rfl
    intro j _
    congr 1
    funext m
    simp only [upd]
    by_cases h0 : m = 0
    · subst h0; simp
    · by_cases h1 : m = a + 1
      · subst h1; simp
      · have : m - 1 ≠ a := by omega
        simp [h0, h1, this]

theorem lane_sumAxes (axes : List Nat) (b : Nat) :
    ∀ u : J2O.Tensor α, laneT 0 b (sumAxes (axes.map (· + 1)) u) = sumAxes axes (laneT 0 b u) := by
  induction axes with
  | nil => intro u; rfl
  | cons a as ih =>
    intro u
    simp only [sumAxes, List.map_cons, List.foldl_cons] at ih ⊢
    rw [ih (sumAxis (a + 1) u), lane_sumAxis]

/-- reduction without keepdims: every reduced axis is squeezed right away -/
def sumAxesDrop (axes : List Nat) (t : J2O.Tensor α) : J2O.Tensor α :=
  axes.foldl (fun acc a => laneT a 0 (sumAxis a acc)) t

theorem lane_sumAxesDrop (axes : List Nat) (b : Nat) :
    ∀ u : J2O.Tensor α, laneT 0 b (sumAxesDrop (axes.map (· + 1)) u) = sumAxesDrop axes (laneT 0 b u) := by
  induction axes with
  | nil => intro u; rfl
  | cons a as ih =>
    intro u
    simp only [sumAxesDrop, List.map_cons, List.foldl_cons] at ih ⊢
    rw [ih (laneT (a + 1) 0 (sumAxis (a + 1) u)), lane_lane, lane_sumAxis]

theorem rule_axes (shape : List Nat) (bdim : Nat) (axes : Option (List Int)) (hb : bdim < shape.length) :
    (C10.reductionBatchRule shape bdim axes).2.1 = (C10.normAxes (shape.length - 1) axes).map (· + 1) ∧
    (C10.reductionBatchRule shape bdim axes).2.2 = 0 := by
  simp only [C10.reductionBatchRule, List.length_cons, C10.removeAt_length bdim shape hb, and_true]
  have : shape.length - 1 + 1 - 1 = shape.length - 1 := by omega
  rw [this]

/-- **Lane-wise correctness of the reduction batch rule (keepdims).**  `t` is the batched operand of shape
    `shape` with the batch axis at `bdim`; the rule binds the reduction to `moveFront bdim t` with the
    axes `r.2.1` and reports batch dim `r.2.2`.  For every lane `b`: that lane of the bound reduction is
    the reduction, over the per-example axes as the plugin normalises them, of lane `b` of the operand. -/
theorem reduction_batch_rule_lanewise (t : J2O.Tensor α) (shape : List Nat) (bdim : Nat)
    (axes : Option (List Int)) (b : Nat) (hb : bdim < shape.length) :
    laneT (C10.reductionBatchRule shape bdim axes).2.2 b
        (sumAxes (C10.reductionBatchRule shape bdim axes).2.1 (moveFront bdim t)) =
      sumAxes (C10.normAxes (shape.length - 1) axes) (laneT bdim b t) := by
  obtain ⟨h1, h2⟩ := rule_axes shape bdim axes hb
  rw [h1, h2, lane_sumAxes, lane_moveFront]

/-- … and without keepdims. -/
theorem reduction_batch_rule_lanewise_drop (t : J2O.Tensor α) (shape : List Nat) (bdim : Nat)
    (axes : Option (List Int)) (b : Nat) (hb : bdim < shape.length) :
    laneT (C10.reductionBatchRule shape bdim axes).2.2 b
        (sumAxesDrop (C10.reductionBatchRule shape bdim axes).2.1 (moveFront bdim t)) =
      sumAxesDrop (C10.normAxes (shape.length - 1) axes) (laneT bdim b t) := by
  obtain ⟨h1, h2⟩ := rule_axes shape bdim axes hb
  rw [h1, h2, lane_sumAxesDrop, lane_moveFront]

end Monoid

/-- `int(ax) % slice_rank` is numpy's normalisation of an axis in `[-rank, rank)`. -/
theorem normAxes_canonical (r : Nat) (a : Int) (h1 : -(r : Int) ≤ a) (h2 : a < r) :
    (a % (r : Int)).toNat = (if a < 0 then a + r else a).toNat := by
  by_cases h : a < 0
  · have e : a % (r : Int) = a + r := by
      rw [← Int.add_emod_right a r]
      exact Int.emod_eq_of_lt (by omega) (by omega)
    simp [h, e]
  · have e : a % (r : Int) = a := Int.emod_eq_of_lt (by omega) h2
    simp [h, e]

example : C10.normAxes 3 (some [-1, 0, -3]) = [2, 0, 0] := by decide
example : C10.reductionBatchRule [4, 2, 3] 1 (some [-1]) = ([2, 4, 3], [2], 0) := by decide

/-! ### the executable sum of the driver -/

theorem foldl_range_eq_sum (n : Nat) (f : Nat → Nat) :
    (List.range n).foldl (fun s j => s + f j) 0 = ∑ j ∈ range n, f j := by
  induction n with
  | zero => simp
  | succ n ih => rw [List.range_succ, List.foldl_append, ih, Finset.sum_range_succ]; rfl

theorem sumAxisL_eq (a : Nat) (t : J2O.Tensor Nat) : sumAxisL a t = sumAxis a t := by
  apply Tensor.ext'
  · rfl
  · rfl
  · rfl
  · funext i
    simp only [sumAxisL, sumAxis]
    rw [foldl_range_eq_sum]
    rfl

theorem sumAxesL_eq (axes : List Nat) : ∀ t : J2O.Tensor Nat, sumAxesL axes t = sumAxes axes t := by
  induction axes with
  | nil => intro t; rfl
  | cons a as ih =>
    intro t
    simp only [sumAxesL, sumAxes, List.foldl_cons] at ih ⊢
    rw [sumAxisL_eq]; exact ih _

theorem sumAxesDropL_eq (axes : List Nat) : ∀ t : J2O.Tensor Nat, sumAxesDropL axes t = sumAxesDrop axes t := by
  induction axes with
  | nil => intro t; rfl
  | cons a as ih =>
    intro t
    simp only [sumAxesDropL, sumAxesDrop, List.foldl_cons] at ih ⊢
    rw [sumAxisL_eq]; exact ih _

/-- non-vacuity on a concrete tensor: `t[i,j,k] = 100 i + 10 j + k` of shape `(4,2,3)`, batch axis 1,
    per-example axis −1, lane 1, element `[2,0]` of the keepdims result: Σ_k t[2,1,k] = 3·210 + 3 -/
def tEx : J2O.Tensor Nat := ⟨0, 3, fun k => [4, 2, 3].getD k 1, fun i => 100 * i 0 + 10 * i 1 + i 2⟩
example : (laneT 0 1 (sumAxesL (C10.reductionBatchRule [4, 2, 3] 1 (some [-1])).2.1 (moveFront 1 tEx))).get
    (fun m => [2, 0].getD m 0) = 633 := by decide

end J2O.C10R
