/-
C09 (round 2) — property theorems for the remaining constant entry points.

Child contexts (any nesting depth of function scopes and Loop / If / Scan bodies)
* `descend_flag`, `descend_fm`          the flag is inherited along EVERY nesting path; below the
                                        root every constant is a `Constant` node
* `descend_append`                      paths compose
Sites = constant source x location
* `single_no_double_sites`              flag off ∧ no float64 handed in ⇒ no DOUBLE, no float64
                                        payload — closure consts, scan consts, literals, static
                                        float keywords, plugin helper constants, at every location
* `double_no_f32_detour_sites`          flag on ∧ all-float64 context ⇒ stored value = source value
* `staticKw_exact`                      a static float keyword keeps all its bits (flag on, f64)
* `constI64_never_float`                `const_i64` is INT64 in every context, both flags
Helper-constant dtype (IR type first, aval second)
* `irToNp_missing_is_default`, `irToNp_float_roundtrip`
* `helper_dtype_f64`, `helper_no_detour`
* `helper_detour_if_missing_maps_to_f32` (refuted variant: why the default must stay `none`)
Dual scanner
* `noSingle_sound`, `noSingle_complete`
-/
import J2O.Props.C09
import J2O.Model.C09Scope
set_option linter.unusedSimpArgs false
set_option linter.unusedVariables false

namespace J2O.C09

/-! ### 1. Child contexts -/

theorem child_flag (c : Ctx) (k : Child) : (child c k).flag = c.flag := by
  cases k <;> rfl

theorem child_fm (c : Ctx) (k : Child) : (child c k).fm = true := by
  cases k <;> rfl

/-- **The precision flag is inherited along every nesting path** (function scope inside a Loop
    body inside a function scope …, any depth). -/
theorem descend_flag (ks : List Child) : ∀ c : Ctx, (descend c ks).flag = c.flag := by
  induction ks with
  | nil => intro c; rfl
  | cons k ks ih => intro c; simp only [descend]; rw [ih, child_flag]

/-- Below the root every context is in function / body mode (constants are `Constant` nodes). -/
theorem descend_fm (ks : List Child) (h : ks ≠ []) : ∀ c : Ctx, (descend c ks).fm = true := by
  induction ks with
  | nil => exact absurd rfl h
  | cons k ks ih =>
    intro c
    cases ks with
    | nil => simp only [descend]; exact child_fm c k
    | cons k2 ks2 => simp only [descend] at ih ⊢; exact ih (by simp) (child c k)

theorem descend_append (ks1 ks2 : List Child) :
    ∀ c : Ctx, descend c (ks1 ++ ks2) = descend (descend c ks1) ks2 := by
  induction ks1 with
  | nil => intro c; rfl
  | cons k ks ih => intro c; simp only [List.cons_append, descend]; exact ih _

-- non-vacuity: a scan body (keep-float32) inside a function scope inside a fori body
example : descend (rootCtx true) [.subgraph, .fnScope, .subgraphKeep] = ⟨true, true, true⟩ := by
  decide
example : descend (rootCtx true) [.subgraphKeep, .fnScope] = ⟨true, true, false⟩ := by decide

/-! ### 2. Sites, flag off -/

theorem src_noF64_entry (s : Src) (h : s.noF64 = true) : s.entry.noF64 = true := by
  cases s with
  | scanConst aval arr =>
    cases aval <;> cases arr <;> simp_all [Src.noF64, Src.entry, Entry.noF64, optNoF64, fkNoF64]
  | helperBind dt => cases dt <;> simp_all [Src.noF64, Src.entry, Entry.noF64, optNoF64, fkNoF64]
  | closure aval arr => exact h
  | literal aval prefer src => exact h
  | staticKw aval => exact h
  | helperScalar src => exact h

theorem getLastD_ne_nil (l : List FK) (a d : FK) (h : l ≠ []) : l.getLastD a = l.getLastD d := by
  cases l with
  | nil => exact absurd rfl h
  | cons x xs => rw [List.getLastD_cons, List.getLastD_cons]

theorem getLastD_append_ne (l1 l2 : List FK) (h : l2 ≠ []) :
    ∀ d, (l1 ++ l2).getLastD d = l2.getLastD d := by
  induction l1 with
  | nil => intro d; rfl
  | cons a l ih =>
    intro d
    rw [List.cons_append, List.getLastD_cons, ih a]
    exact getLastD_ne_nil l2 a d h

theorem site_ctx_flag (flag : Bool) (s : Site) : (s.ctx flag).flag = flag := by
  unfold Site.ctx; rw [descend_flag]; rfl

theorem entry_bound_path_ne (P : Policy) (c : Ctx) (e : Entry) (b : Bound)
    (hb : e.bound P c = some b) : b.path ≠ [] := by
  cases e <;> simp only [Entry.bound, Option.some.injEq] at hb <;> try (exact absurd hb (by simp))
  all_goals subst hb
  all_goals simp [bindConst, bindLiteral, initScalar, closedConst]
  all_goals (try split) <;> simp

theorem site_stored_eq (P : Policy) (flag : Bool) (s : Site) :
    s.stored P flag = s.src.entry.stored P (s.ctx flag) := by
  unfold Site.stored Site.bound Entry.stored
  rw [site_ctx_flag]
  cases hb : s.src.entry.bound P (s.ctx flag) with
  | none => rfl
  | some b =>
    have hpath := entry_bound_path_ne P _ _ b hb
    simp only [Option.map, Bound.final, getLastD_append_ne _ _ hpath]

/-- **Single precision stays single at every location.** Flag off at the root, any nesting path
    of function scopes / Loop / If / Scan bodies, any constant source: if no float64 dtype is handed
    in, the declared element type is not double precision and the stored payload is not float64. -/
theorem single_no_double_sites (P : Policy) (hP : P.ok) (s : Site) (h : s.src.noF64 = true) :
    isDouble (s.code P false) = false ∧ s.stored P false ≠ some .f64 := by
  have hflag : (s.ctx false).flag = false := by
    unfold Site.ctx; rw [descend_flag]; rfl
  have := single_no_double P hP (s.ctx false) hflag s.src.entry (src_noF64_entry s.src h)
  rw [site_stored_eq]
  exact this

-- non-vacuity: a static float keyword of an @onnx_function called inside a scan body
example : (Site.mk [.subgraphKeep, .fnScope] (.staticKw .f32)).src.noF64 = true := by decide
example : (Site.mk [.subgraphKeep, .fnScope] (.staticKw .f32)).stored refP false = some .f32 := by
  decide
-- … and the hypothesis matters: a float64 closure constant at the same place is stored as float64
example : (Site.mk [.subgraph, .fnScope] (.closure none .f64)).stored refP false = some .f64 := by
  decide

/-! ### 3. Sites, flag on -/

theorem src_f64ctx_entry (s : Src) (h : s.f64ctx = true) : s.entry.f64ctx = true := by
  cases s with
  | scanConst aval arr => cases aval <;> simp_all [Src.f64ctx, Src.entry, Entry.f64ctx, optF64orNone]
  | helperBind dt => simp [Src.entry, Entry.f64ctx, optF64orNone]
  | closure aval arr => exact h
  | literal aval prefer src => exact h
  | staticKw aval => exact h
  | helperScalar src => exact h

/-- Flag on, all-float64 context: the whole dtype path of the constant at the site — including the
    steps taken before the entry point (scan's `astype(aval)`, the helper's `np.asarray(v, dt)`) —
    only widens. -/
theorem no_detour_sites (P : Policy) (hP : P.ok) (s : Site) (hctx : s.src.f64ctx = true)
    (b : Bound) (hb : s.bound P true = some b) : widening (b.fullPath true) = true := by
  obtain ⟨path, src⟩ := s
  have hflag : (descend (rootCtx true) path).flag = true := by rw [descend_flag]; rfl
  generalize hc : descend (rootCtx true) path = c at hflag
  obtain ⟨flag, fm, keep⟩ := c
  simp only at hflag
  subst hflag
  simp only [Site.bound, Site.ctx, hc] at hb
  cases src with
  | scanConst aval arr =>
    cases aval <;> simp [Src.f64ctx] at hctx
    simp only [Src.entry, Src.pre, Entry.bound, Option.map, Option.some.injEq] at hb
    subst hb
    cases fm <;> cases keep <;> cases arr <;>
      simp [bindConst, narrowAval, promote, Bound.final, Bound.fullPath, postPromote,
        List.getLastD, widening, FK.le, FK.rank]
  | helperBind dt =>
    cases dt <;> simp [Src.f64ctx] at hctx
    simp only [Src.entry, Src.pre, Entry.bound, Option.map, Option.some.injEq] at hb
    subst hb
    cases fm <;> cases keep <;>
      simp [bindConst, narrowAval, promote, Bound.final, Bound.fullPath, postPromote,
        List.getLastD, widening, FK.le, FK.rank]
  | closure aval arr =>
    cases hb' : (Entry.viaBindConst aval arr).bound P ⟨true, fm, keep⟩ with
    | none => simp [Src.entry, hb'] at hb
    | some b' =>
      simp only [Src.entry, Src.pre, hb', Option.map, Option.some.injEq, List.nil_append] at hb
      subst hb
      exact (no_detour_paths P hP ⟨true, fm, keep⟩ rfl _ (src_f64ctx_entry _ hctx) b' hb').1
  | literal aval prefer src =>
    cases hb' : (Entry.viaLiteral aval prefer src).bound P ⟨true, fm, keep⟩ with
    | none => simp [Src.entry, hb'] at hb
    | some b' =>
      simp only [Src.entry, Src.pre, hb', Option.map, Option.some.injEq, List.nil_append] at hb
      subst hb
      exact (no_detour_paths P hP ⟨true, fm, keep⟩ rfl _ (src_f64ctx_entry _ hctx) b' hb').1
  | staticKw aval =>
    cases hb' : (Entry.viaLiteral (some aval) none .f64).bound P ⟨true, fm, keep⟩ with
    | none => simp [Src.entry, hb'] at hb
    | some b' =>
      simp only [Src.entry, Src.pre, hb', Option.map, Option.some.injEq, List.nil_append] at hb
      subst hb
      exact (no_detour_paths P hP ⟨true, fm, keep⟩ rfl _ (src_f64ctx_entry _ hctx) b' hb').1
  | helperScalar src =>
    cases hb' : (Entry.viaInitScalar src).bound P ⟨true, fm, keep⟩ with
    | none => simp [Src.entry, hb'] at hb
    | some b' =>
      simp only [Src.entry, Src.pre, hb', Option.map, Option.some.injEq, List.nil_append] at hb
      subst hb
      exact (no_detour_paths P hP ⟨true, fm, keep⟩ rfl _ (src_f64ctx_entry _ hctx) b' hb').1

/-- **No hidden single-precision round trip at any location.** Flag on, all-float64 context, any
    nesting path, any constant source, any exact cast semantics: the value stored in the model is
    the source value. -/
theorem double_no_f32_detour_sites {V : Type} (C : CastSem V) (P : Policy) (hP : P.ok) (s : Site)
    (hctx : s.src.f64ctx = true) (b : Bound) (hb : s.bound P true = some b) (v : V)
    (hv : ∀ src, (b.fullPath true).head? = some src → C.rep src v) :
    runPath C (b.fullPath true) v = v :=
  widening_exact C _ (no_detour_sites P hP s hctx b hb) v hv

/-- A static float keyword of an `@onnx_function` (a Python float, 53 significand bits) keeps all
    its bits at every location when the body computes in float64 — and is cut to 24 bits when the
    body computes in float32 (then JAX does the same: `f64ctx` fails). -/
theorem staticKw_exact (path : List Child) :
    ∀ b, (Site.mk path (.staticKw .f64)).bound refP true = some b →
      runPath bitsSem (b.fullPath true) 53 = 53 := by
  intro b hb
  apply double_no_f32_detour_sites bitsSem refP refP_ok _ rfl b hb
  intro src hs
  simp only [Site.bound, Src.entry, Src.pre, Entry.bound, Option.map, Option.some.injEq] at hb
  subst hb
  simp [bindLiteral, Bound.fullPath] at hs
  subst hs
  simp [bitsSem]

example : ∃ b, (Site.mk [.fnScope] (.staticKw .f64)).bound refP true = some b ∧
    b.fullPath true = [.f64, .f64, .f64, .f64] := ⟨_, rfl, by decide⟩
example : ∃ b, (Site.mk [.subgraphKeep] (.staticKw .f32)).bound refP true = some b ∧
    runPath bitsSem (b.fullPath true) 53 = 24 := ⟨_, rfl, by decide⟩

/-- `const_i64` is INT64 whatever the flag and the location. -/
theorem constI64_never_float (flag : Bool) (path : List Child) :
    constI64Code (descend (rootCtx flag) path) = 7 ∧ isDouble 7 = false ∧ isNarrowFloat 7 = false := by
  exact ⟨rfl, by decide, by decide⟩

/-! ### 4. Helper-constant dtype -/

/-- A value without an IR type (or with a non-float one) yields exactly the caller's default — in
    particular `none` stays `none`, so that the caller consults the JAX aval. -/
theorem irToNp_missing_is_default (d : Option FK) : irToNp none d = d := rfl

/-- Float element types map to the numpy dtype of the same width, whatever the default. -/
theorem irToNp_float_roundtrip (k : FK) (d : Option FK) : irToNp (some k.code) d = some k := by
  cases k <;> rfl

/-- In an all-float64 program (operand typed DOUBLE or not typed yet, aval float64) the helper
    constant is built in float64. -/
theorem helper_dtype_f64 (ir : Option Nat) (h : ir = none ∨ ir = some 11) :
    helperDtype ir .f64 = .f64 := by
  rcases h with h | h <;> subst h <;> rfl

/-- … hence it takes no float32 detour, at any location, for any exact cast semantics. -/
theorem helper_no_detour {V : Type} (C : CastSem V) (P : Policy) (hP : P.ok) (path : List Child)
    (ir : Option Nat) (h : ir = none ∨ ir = some 11) (b : Bound)
    (hb : (Site.mk path (.helperBind (helperDtype ir .f64))).bound P true = some b) (v : V)
    (hv : ∀ src, (b.fullPath true).head? = some src → C.rep src v) :
    runPath C (b.fullPath true) v = v := by
  rw [helper_dtype_f64 ir h] at hb
  exact double_no_f32_detour_sites C P hP _ rfl b hb v hv

example : ∃ b, (Site.mk [.subgraph] (.helperBind (helperDtype none .f64))).bound refP true = some b ∧
    b.fullPath true = [.f64, .f64, .f64, .f64] := ⟨_, rfl, by decide⟩

/-- Why the answer for a missing IR type must be the default and not float32: with such a map the
    helper constant 1/3 (53 bits) is cut to 24 bits although the model type-checks as DOUBLE. -/
theorem helper_detour_if_missing_maps_to_f32 :
    ∃ b, (Site.mk [] (.helperBind .f32)).bound refP true = some b ∧ b.code = 11 ∧
      b.final true = .f64 ∧ runPath bitsSem (b.fullPath true) 53 = 24 :=
  ⟨_, rfl, by decide, by decide, by decide⟩

/-! ### 5. Dual scanner -/

/-- **`noSingleOnDoublePath` is sound**: accepted ⇒ no tensor, Constant value, Cast target, value
    type or dtype attribute anywhere in the model tree (any nesting depth, function bodies
    included) is FLOAT (1), FLOAT16 (10), COMPLEX64 (14) or BFLOAT16 (16). -/
theorem noSingle_sound (t : Tree) (h : noSingleOnDoublePath t = true) (o : Occ) (ho : Occurs o t) :
    o.code ≠ 1 ∧ o.code ≠ 10 ∧ o.code ≠ 14 ∧ o.code ≠ 16 := by
  have := noCodes_sound_aux isNarrowFloat t h o ho
  simp [isNarrowFloat] at this
  omega

theorem noSingle_complete (t : Tree) (h : noSingleOnDoublePath t = false) :
    ∃ o, Occurs o t ∧ (o.code = 1 ∨ o.code = 10 ∨ o.code = 16 ∨ o.code = 14) := by
  obtain ⟨o, ho, hb⟩ := noCodes_complete_aux isNarrowFloat t h
  refine ⟨o, ho, ?_⟩
  simp [isNarrowFloat] at hb
  omega

-- non-vacuity: the example tree of Props/C09 (a Cast to FLOAT deep inside) is rejected; an
-- all-DOUBLE model with INT64 shape constants is accepted
example : noSingleOnDoublePath exampleTree = false := by decide
example : noSingleOnDoublePath (.node "model" [] [.node "graph" [⟨"value", 11⟩, ⟨"init", 7⟩]
    [.node "Constant" [⟨"attr_tensor", 11⟩] [], .node "Cast" [⟨"cast_to", 11⟩] []]]) = true := by
  decide

end J2O.C09
