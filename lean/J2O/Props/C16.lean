/-
C16 — property theorems.

* `lower_ok_allRegistered` / `unregistered_raises` : the dispatcher succeeds only if every primitive
  it reaches — at any nesting depth — is registered; otherwise it returns an error
* `unbound_input_raises`  : an equation whose input is unbound makes the dispatcher fail
* `lower_step_never_partial` : whenever the dispatcher gets past an equation, every non-dropped
  output of that equation is bound to a graph-connected value
* `pipeline_nonstrict_total`, `pipeline_prefix_preserves`, `pipeline_strict_reraises` : the optimizer
  failure policy — default: the result is the model after the longest successful prefix of passes
  and has the meaning of the input if every pass preserves meaning; strict: the error is re-raised
-/
import J2O.Model.C16

namespace J2O.C16

theorem lower_ok_allRegistered (reg : String → Option Act) :
    ∀ (p : Prog) (s s' : St) (i : Nat), lower reg p s i = .ok s' → allRegistered reg p = true := by
  intro p
  induction p with
  | nil => intro s s' i _; rfl
  | cons prim ins outs body rest ihb ihr =>
    intro s s' i h
    simp only [lower] at h
    simp only [allRegistered]
    split at h
    · simp at h
    · rename_i act hreg
      split at h
      · simp at h
      · simp only [Bool.and_eq_true]
        -- analyse the plugin's action
        split at h
        · simp at h
        · rename_i s1 ret hres
          split at h
          · simp at h
          · rename_i s2 hb
            split at h
            · simp at h
            · refine ⟨?_, ihr _ _ _ h⟩
              split
              · rename_i hn
                simp only [beq_iff_eq] at hn
                subst hn
                simp only at hres
                split at hres
                · simp at hres
                · rename_i s1' hbody
                  exact ihb _ _ _ hbody
              · rfl

/-- **An unregistered primitive anywhere the dispatcher reaches makes it fail** (never a model). -/
theorem unregistered_raises (reg : String → Option Act) (p : Prog)
    (h : allRegistered reg p = false) (s : St) (i : Nat) : ∃ e, lower reg p s i = .error e := by
  cases hl : lower reg p s i with
  | error e => exact ⟨e, rfl⟩
  | ok s' =>
    have := lower_ok_allRegistered reg p s s' i hl
    rw [this] at h; cases h

theorem unbound_input_raises (reg : String → Option Act) (prim : String) (ins : List Var)
    (outs : List (Option Var)) (body rest : Prog) (s : St) (i k : Nat) (act : Act)
    (hreg : reg prim = some act) (hk : firstUnboundInput s ins 0 = some k) :
    lower reg (.cons prim ins outs body rest) s i = .error (.unboundInput i k) := by
  simp [lower, hreg, hk]

theorem checkOutputs_ok (i : Nat) (s : St) : ∀ (outs : List (Option Var)) (k : Nat),
    checkOutputs i s outs k = .ok () →
      ∀ v ∈ nonDrop outs, ∃ x, s.lookup v = some x ∧ s.isConn x = true := by
  intro outs
  induction outs with
  | nil => intro k _ v hv; simp [nonDrop] at hv
  | cons o rest ih =>
    intro k h v hv
    cases o with
    | none =>
      simp only [checkOutputs] at h
      exact ih (k + 1) h v (by simpa [nonDrop] using hv)
    | some w =>
      simp only [checkOutputs] at h
      split at h
      · simp at h
      · rename_i x hx
        split at h
        · rename_i hc
          have hv' : v = w ∨ v ∈ nonDrop rest := by
            simpa [nonDrop] using hv
          rcases hv' with hvw | hv'
          · subst hvw; exact ⟨x, hx, hc⟩
          · exact ih (k + 1) h v hv'
        · simp at h

/-- **Never partial**: if the dispatcher gets past an equation then, in the state it continues
    with, every non-dropped output of that equation is bound to a graph-connected value (and all
    its inputs were bound). -/
theorem lower_step_never_partial (reg : String → Option Act) (prim : String) (ins : List Var)
    (outs : List (Option Var)) (body rest : Prog) (s s' : St) (i : Nat)
    (h : lower reg (.cons prim ins outs body rest) s i = .ok s') :
    firstUnboundInput s ins 0 = none ∧
    ∃ s2, (∀ v ∈ nonDrop outs, ∃ x, s2.lookup v = some x ∧ s2.isConn x = true) ∧
      lower reg rest s2 (i + 1) = .ok s' := by
  simp only [lower] at h
  split at h
  · simp at h
  · split at h
    · simp at h
    · rename_i hin
      refine ⟨hin, ?_⟩
      split at h
      · simp at h
      · split at h
        · simp at h
        · rename_i s2 hb
          split at h
          · simp at h
          · rename_i hc
            exact ⟨s2, checkOutputs_ok i s2 outs 0 hc, h⟩

/-! ### optimizer failure policy -/

variable {M E : Type}

/-- the model after the longest prefix of passes that succeed -/
def prefixResult : List (M → Except E M) → M → M
  | [], m => m
  | p :: ps, m => match p m with
    | .ok m' => prefixResult ps m'
    | .error _ => m

/-- Default policy: conversion always gets a model back, namely the one reached by the passes
    that completed before the first abort. -/
theorem pipeline_nonstrict_total (ps : List (M → Except E M)) (m : M) :
    runPipeline ps false m = .ok (prefixResult ps m) := by
  induction ps generalizing m with
  | nil => rfl
  | cons p ps ih =>
    simp only [runPipeline, prefixResult]
    cases hp : p m with
    | ok m' => simp only; exact ih m'
    | error e => simp

/-- If every pass preserves the meaning `sem` of the model whenever it completes, the model
    returned under the default policy — after an abort at ANY pass index — means what the input
    meant. -/
theorem pipeline_prefix_preserves {S : Type} (sem : M → S) (ps : List (M → Except E M))
    (hp : ∀ p ∈ ps, ∀ m m', p m = .ok m' → sem m' = sem m) (m : M) :
    sem (prefixResult ps m) = sem m := by
  induction ps generalizing m with
  | nil => rfl
  | cons p ps ih =>
    simp only [prefixResult]
    split
    · rename_i m' hm
      rw [ih (fun q hq => hp q (List.mem_cons_of_mem _ hq)) m']
      exact hp p (List.mem_cons_self ..) m m' hm
    · rfl

/-- the error of the first pass that aborts, if any -/
def firstError : List (M → Except E M) → M → Option E
  | [], _ => none
  | p :: ps, m => match p m with
    | .ok m' => firstError ps m'
    | .error e => some e

/-- Strict policy: the first abort is re-raised (no model is returned); without an abort the
    fully optimised model is returned. -/
theorem pipeline_strict_reraises (ps : List (M → Except E M)) (m : M) :
    runPipeline ps true m =
      match firstError ps m with
      | some e => .error e
      | none => .ok (prefixResult ps m) := by
  induction ps generalizing m with
  | nil => rfl
  | cons p ps ih =>
    simp only [runPipeline, prefixResult, firstError]
    cases hp : p m with
    | ok m' => simp only; exact ih m'
    | error e => simp

/-- Both policies agree when nothing aborts. -/
theorem pipeline_no_abort (ps : List (M → Except E M)) (m : M) (h : firstError ps m = none) :
    runPipeline ps true m = runPipeline ps false m := by
  rw [pipeline_strict_reraises, pipeline_nonstrict_total, h]

/-! ### mid-pass aborts: in-place passes and the transactional policy -/

/-- if every pass that COMPLETES preserves the meaning, a run without error preserves it -/
theorem runInPlace_preserves {S : Type} (sem : M → S) (ps : List (Pass M E))
    (hp : ∀ p ∈ ps, ∀ m, (p m).2 = none → sem (p m).1 = sem m) (m : M)
    (h : (runInPlace ps m).2 = none) : sem (runInPlace ps m).1 = sem m := by
  induction ps generalizing m with
  | nil => rfl
  | cons p ps ih =>
    simp only [runInPlace] at h ⊢
    cases hpm : p m with
    | mk m' oe =>
      cases oe with
      | none =>
        simp only [hpm] at h ⊢
        rw [ih (fun q hq => hp q (List.mem_cons_of_mem _ hq)) m' h]
        have := hp p (List.mem_cons_self ..) m (by simp [hpm])
        simpa [hpm] using this
      | some e => simp [hpm] at h

/-- **Transactional policy is sound for aborts at ANY point, also INSIDE a pass**: whatever a raising
    pass left behind, the model returned under the default policy means what the input meant — provided
    only that passes which complete preserve the meaning (C02). -/
theorem policyTx_sound {S : Type} (sem : M → S) (ps : List (Pass M E))
    (hp : ∀ p ∈ ps, ∀ m, (p m).2 = none → sem (p m).1 = sem m) (m m' : M)
    (h : policyTx ps false m = .ok m') : sem m' = sem m := by
  unfold policyTx at h
  cases hr : runInPlace ps m with
  | mk r oe =>
    cases oe with
    | none =>
      simp only [hr, Except.ok.injEq] at h
      subst h
      have := runInPlace_preserves sem ps hp m (by simp [hr])
      simpa [hr] using this
    | some e =>
      simp only [hr, Bool.false_eq_true, if_false, Except.ok.injEq] at h
      subst h; rfl

/-- the default policy never raises; the strict policy re-raises the first error -/
theorem policyTx_nonstrict_total (ps : List (Pass M E)) (m : M) : ∃ m', policyTx ps false m = .ok m' := by
  unfold policyTx
  cases runInPlace ps m with
  | mk r oe => cases oe <;> simp

theorem policyTx_strict_reraises (ps : List (Pass M E)) (m : M) (e : E) (r : M)
    (h : runInPlace ps m = (r, some e)) : policyTx ps true m = .error e := by
  simp [policyTx, h]

/-- a pass that rewires in two steps and raises between them: first it corrupts the model (meaning
    changes), then it would repair it -/
def halfPass : Pass Nat String := fun m => (m + 1, some "raised between the two rewiring steps")

/-- **The in-place policy (before the repair) is NOT sound for aborts inside a pass**: the hypothesis of
    `policyTx_sound` holds (the only pass never completes), yet the returned model means something
    else. This is the former finding F-C16-midpass-*. -/
theorem policyInPlace_unsound :
    (∀ p ∈ [halfPass], ∀ m, (p m).2 = none → id (p m).1 = id m) ∧
    policyInPlace [halfPass] false 5 = .ok 6 ∧ policyTx [halfPass] false 5 = .ok 5 := by
  refine ⟨?_, rfl, rfl⟩
  intro p hp m h
  simp only [List.mem_singleton] at hp
  subst hp
  simp [halfPass] at h

-- non-vacuity of `policyTx_sound`: a completing pass followed by a raising one
example : policyTx [(fun m => (m, none)), halfPass] false 5 = .ok 5 := rfl
example : policyTx [(fun m : Nat => (m, (none : Option String)))] false 5 = .ok 5 := rfl

def errOf {A : Type} : Except Err A → Option Err
  | .error e => some e
  | .ok _ => none

-- non-vacuity: a nested unregistered primitive is caught; a well-behaved program passes
def demoReg : String → Option Act
  | "add" => some .bindConnected
  | "while" => some .nested
  | "ret" => some .returnAll
  | _ => none

example : errOf (lower demoReg (.cons "while" [0] [some 1] (.cons "mystery" [0] [some 2] .nil .nil) .nil)
    ⟨[(0, 0)], [0], 1⟩ 0) = some (.unregistered "mystery") := by decide
example : errOf (lower demoReg (.cons "add" [0] [some 1] .nil (.cons "ret" [1] [some 2, none] .nil .nil))
    ⟨[(0, 0)], [0], 1⟩ 0) = none := by decide

end J2O.C16
