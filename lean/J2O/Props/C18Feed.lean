/-
C18 — feed construction (`_build_ort_inputs` / `_to_numpy_input`, model: `bindFeeds` / `coerce` in
Model/C18.lean): what ONNX Runtime is fed is what `fn` receives.

* `feeds_sound`         every graph input is fed exactly once, in graph order, under its own name; the inputs
                        that are not keywords of `input_params` receive the positional values IN ORDER, each
                        exactly once, all of them (`Zip2`: same length, same order); a keyword input receives the value given
                        under that keyword; each value only goes through `_to_numpy_input`'s dtype coercion
* `fnArgs_is_untyped_binding`, `feeds_eq_fnArgs_of_same_kinds`
                        `fn(*xs, **params)` receives the same binding without coercion; when no dtype differs
                        the feeds ARE fn's arguments (same names, order, values)
* `coerce_exact`        the coercion changes a value only when the dtypes differ
* `coerced_feed_differs` (REFUTATION of the unconditional statement) with a dtype difference the feed is not
                        fn's argument: float32 5.7 for an int32 graph input is fed as 5 — replayed on the real
                        code (known finding F-C18-coerced-feed)
* `bindFeeds_tooMany`, `bindFeeds_tooFew`   surplus / missing positional values are errors, never silently
                        dropped or repeated
-/
import J2O.Model.C18
set_option linter.unusedSimpArgs false
set_option linter.unusedVariables false

namespace J2O.C18

def isParam (ps : List (String × Tn)) (n : String) : Bool := (lookup ps n).isSome

/-- the feeds of the graph inputs that are not keywords of `input_params` -/
def posFeeds (ps : List (String × Tn)) (fd : List (String × Tn)) : List (String × Tn) :=
  fd.filter fun p => !isParam ps p.1

/-- same-length, same-order pointwise relation of two lists -/
inductive Zip2 {α β : Type} (R : α → β → Prop) : List α → List β → Prop
  | nil : Zip2 R [] []
  | cons {a b as bs} : R a b → Zip2 R as bs → Zip2 R (a :: as) (b :: bs)

theorem Zip2.length_eq {α β : Type} {R : α → β → Prop} {xs : List α} {ys : List β} (h : Zip2 R xs ys) :
    xs.length = ys.length := by
  induction h with
  | nil => rfl
  | cons _ _ ih => simp [ih]

theorem ok_of_toOption {ε α : Type} {x : Except ε α} {a : α} (h : x.toOption = some a) : x = .ok a := by
  cases x with
  | error e => simp [Except.toOption] at h
  | ok v => simp [Except.toOption] at h; rw [h]

theorem coerce_exact (n : String) (k : Option Kind) (t c : Tn) (h : coerce n k t = .ok c)
    (hk : c.kind = t.kind) : c = t := by
  unfold coerce at h
  cases k with
  | none => simp at h; exact h.symm
  | some k =>
    simp only at h
    by_cases hkk : t.kind = k
    · simp [hkk] at h; exact h.symm
    · simp only [hkk, if_false] at h
      split at h
      · simp at h
      · split at h
        · injection h with h
          subst h
          simp at hk
          exact absurd hk.symm hkk
        · simp at h

theorem coerce_same_kind (n : String) (t : Tn) : coerce n (some t.kind) t = .ok t := by
  simp [coerce]

/-- **Binding soundness.** -/
theorem feeds_sound (ps : List (String × Tn)) :
    ∀ (ms : List InMeta) (xs : List Tn) (fd : List (String × Tn)), bindFeeds ms xs ps = .ok fd →
      fd.map (·.1) = ms.map (·.name) ∧
      Zip2 (fun (p : String × Tn) (x : Tn) => ∃ k, coerce p.1 k x = .ok p.2) (posFeeds ps fd) xs ∧
      ∀ p ∈ fd, ∀ w, lookup ps p.1 = some w → ∃ k, coerce p.1 k w = .ok p.2 := by
  intro ms
  induction ms with
  | nil =>
    intro xs fd h
    cases xs with
    | nil =>
      simp only [bindFeeds] at h
      injection h with h
      subst h
      exact ⟨rfl, by simp [posFeeds]; exact Zip2.nil, by simp⟩
    | cons x xs => simp [bindFeeds] at h
  | cons m ms ih =>
    intro xs fd h
    unfold bindFeeds at h
    split at h
    · rename_i v hv
      split at h
      · rename_i c rest hc hrest
        injection h with h
        subst h
        obtain ⟨i1, i2, i3⟩ := ih xs rest hrest
        refine ⟨by simp [i1], ?_, ?_⟩
        · have : posFeeds ps ((m.name, c) :: rest) = posFeeds ps rest := by
            simp [posFeeds, isParam, hv]
          rw [this]; exact i2
        · intro p hp w hw
          rcases List.mem_cons.mp hp with rfl | hp
          · simp only at hw
            rw [hv] at hw
            injection hw with hw
            subst hw
            exact ⟨m.kind, hc⟩
          · exact i3 p hp w hw
      · simp at h
      · simp at h
    · rename_i hv
      split at h
      · simp at h
      · rename_i x xs'
        split at h
        · rename_i c rest hc hrest
          injection h with h
          subst h
          obtain ⟨i1, i2, i3⟩ := ih xs' rest hrest
          refine ⟨by simp [i1], ?_, ?_⟩
          · have : posFeeds ps ((m.name, c) :: rest) = (m.name, c) :: posFeeds ps rest := by
              simp [posFeeds, isParam, hv]
            rw [this]
            exact Zip2.cons ⟨m.kind, hc⟩ i2
          · intro p hp w hw
            rcases List.mem_cons.mp hp with rfl | hp
            · simp only at hw
              rw [hv] at hw
              simp at hw
            · exact i3 p hp w hw
        · simp at h
        · simp at h

/-- a surplus positional value is an error (never silently dropped) -/
theorem bindFeeds_tooMany (ps : List (String × Tn)) (x : Tn) (xs : List Tn) :
    bindFeeds [] (x :: xs) ps = .error .tooMany := rfl

/-- a missing positional value is an error (no value is used twice) -/
theorem bindFeeds_tooFew (ps : List (String × Tn)) (m : InMeta) (ms : List InMeta)
    (h : lookup ps m.name = none) : bindFeeds (m :: ms) [] ps = .error (.tooFew m.name) := by
  unfold bindFeeds
  simp [h]

/-- the binding without any dtype table = what `fn(*xs, **params)` receives, in graph-input order -/
def untyped (ms : List InMeta) : List InMeta := ms.map fun m => ⟨m.name, none⟩

theorem fnArgs_is_untyped_binding (ps : List (String × Tn)) :
    ∀ (ms : List InMeta) (xs : List Tn), fnArgs ms xs ps = (bindFeeds (untyped ms) xs ps).toOption := by
  intro ms
  induction ms with
  | nil => intro xs; cases xs <;> simp [fnArgs, bindFeeds, untyped, Except.toOption]
  | cons m ms ih =>
    intro xs
    unfold fnArgs untyped
    simp only [List.map_cons]
    unfold bindFeeds
    simp only
    cases hv : lookup ps m.name with
    | some v =>
      simp only [coerce]
      have := ih xs
      unfold untyped at this
      rw [this]
      cases bindFeeds (List.map (fun m => ({ name := m.name, kind := none } : InMeta)) ms) xs ps <;>
        simp [Except.toOption]
    | none =>
      cases xs with
      | nil => simp [Except.toOption]
      | cons x xs' =>
        simp only [coerce]
        have := ih xs'
        unfold untyped at this
        rw [this]
        cases bindFeeds (List.map (fun m => ({ name := m.name, kind := none } : InMeta)) ms) xs' ps <;>
          simp [Except.toOption]

/-- **When no dtype differs the feeds are fn's arguments** (same names, same order, same values). -/
theorem feeds_eq_fnArgs_of_same_kinds (ps : List (String × Tn)) :
    ∀ (ms : List InMeta) (xs : List Tn) (fd fa : List (String × Tn)),
      bindFeeds ms xs ps = .ok fd → fnArgs ms xs ps = some fa →
      fd.map (·.2.kind) = fa.map (·.2.kind) → fd = fa := by
  intro ms
  induction ms with
  | nil =>
    intro xs fd fa h1 h2 _
    cases xs with
    | nil => simp [bindFeeds] at h1; simp [fnArgs] at h2; rw [h1, h2]
    | cons x xs => simp [bindFeeds] at h1
  | cons m ms ih =>
    intro xs fd fa h1 h2 hk
    unfold bindFeeds at h1
    unfold fnArgs at h2
    split at h1
    · rename_i v hv
      rw [hv] at h2
      simp only [Option.map_eq_some_iff] at h2
      obtain ⟨ra, hra, rfl⟩ := h2
      split at h1
      · rename_i c rest hc hrest
        injection h1 with h1
        subst h1
        simp only [List.map_cons, List.cons.injEq] at hk
        have := ih xs rest ra hrest hra hk.2
        subst this
        have := coerce_exact _ _ _ _ hc hk.1
        subst this
        rfl
      · simp at h1
      · simp at h1
    · rename_i hv
      rw [hv] at h2
      split at h1
      · simp at h1
      · rename_i x xs'
        simp only [Option.map_eq_some_iff] at h2
        obtain ⟨ra, hra, rfl⟩ := h2
        split at h1
        · rename_i c rest hc hrest
          injection h1 with h1
          subst h1
          simp only [List.map_cons, List.cons.injEq] at hk
          have := ih xs' rest ra hrest hra hk.2
          subst this
          have := coerce_exact _ _ _ _ hc hk.1
          subst this
          rfl
        · simp at h1
        · simp at h1

/-! ### refutation of the unconditional statement: a coerced feed is not fn's argument -/

def cfM : List InMeta := [⟨"x", some (.int true 32)⟩]
def cfX : List Tn := [⟨.flt f32, [1], [El.ofRat (11953767 / 2097152)]⟩]     -- float32(5.7)

/-- float32 5.7 given for an int32 graph input: ORT is fed int32 5, fn receives 5.7 (replayed on the real
    code: `allclose(jnp.floor, Cast(int32→float) model, [5.7])` is a match although ORT never saw 5.7) -/
theorem coerced_feed_differs :
    (bindFeeds cfM cfX []).toOption = some [("x", ⟨.int true 32, [1], [El.ofRat 5]⟩)] ∧
    fnArgs cfM cfX [] = some [("x", ⟨.flt f32, [1], [El.ofRat (11953767 / 2097152)]⟩)] := by
  decide +kernel

theorem feeds_eq_fnArgs_refuted :
    ¬ (∀ ms xs ps fd fa, bindFeeds ms xs ps = .ok fd → fnArgs ms xs ps = some fa → fd = fa) := by
  intro h
  have := h cfM cfX [] _ _ (ok_of_toOption coerced_feed_differs.1) coerced_feed_differs.2
  revert this
  decide +kernel

-- non-vacuity: two graph inputs, `b` given by keyword, `a` positional; wiring by name, not by position
example : (bindFeeds [⟨"b", some (.flt f32)⟩, ⟨"a", some (.flt f32)⟩]
    [⟨.flt f32, [1], [El.ofRat 1]⟩] [("b", ⟨.flt f32, [1], [El.ofRat 3]⟩)]).toOption
    = some [("b", ⟨.flt f32, [1], [El.ofRat 3]⟩), ("a", ⟨.flt f32, [1], [El.ofRat 1]⟩)] := by decide +kernel
example : fnArgs [⟨"b", some (.flt f32)⟩, ⟨"a", some (.flt f32)⟩]
    [⟨.flt f32, [1], [El.ofRat 1]⟩] [("b", ⟨.flt f32, [1], [El.ofRat 3]⟩)]
    = some [("b", ⟨.flt f32, [1], [El.ofRat 3]⟩), ("a", ⟨.flt f32, [1], [El.ofRat 1]⟩)] := by decide +kernel
example : bindFeeds [⟨"a", none⟩] [] [] = .error (.tooFew "a") := bindFeeds_tooFew [] _ _ rfl
example : (coerce "x" (some (.flt f64)) ⟨.flt f32, [1], [El.ofRat (1/2)]⟩).toOption
    = some ⟨.flt f64, [1], [El.ofRat (1/2)]⟩ := by decide +kernel

end J2O.C18
