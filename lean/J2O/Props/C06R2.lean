/-
C06, round 2 — property theorems (all universally quantified; the `…_differs` theorems are refutations of the
corresponding mis-lowering on a concrete witness).

vmapped while at TENSOR level (carried tensors of every per-example rank `r`, extents arbitrary)
* `mask_shape_prescribed`         `Unsqueeze(pred, range(p, n))` has shape `pred.shape ++ [1]*(n-p)`
* `where_prescribed_mask_is_lane_select`  `Where(Unsqueeze(pred, range(1,1+r)), cand, prev)` freezes exactly the
                                  lanes whose predicate is false — for every rank `r`, batch size and extents
* `while_batched_tensor_eq_lanes` the tensor-level Loop of the plugin = the lane-level scheme of round 1
* `while_batched_tensor_scheme`   … hence returns every lane's own `lax.while_loop` result
* `right_aligned_mask_differs`    a `(B,1)` mask against a `(B,N,M)` state with `B = N` is a different loop

scan
* `scanM_stacked_extent`          the Loop run with trip count `M` stacks exactly `M` outputs — for EVERY body
* `scan_trip_iff_length`          the scheme equals `lax.scan` for every body/carry/xs IFF `M = len xs`
                                  (so `M` may not be taken from any extent that occurs inside the body)
* `scan_trip_from_body_extent_differs`  trip count 2 (a scatter window) on 3 scanned elements: different
* `scan_noxs_scheme`, `scan_noxs_extent`  scan without xs = `Loop(length)`, all lengths

body identity (step factories: one code object, different closures)
* `fori_one_trip_is_body`, `fori_body_determined`   the counted loop exposes its body: equal one-trip loops
                                  for all bounds and states ⇒ equal body FUNCTIONS (closure included)
* `memo_sound`                    memoised body tracing returns every loop's own body whenever the memo key
                                  determines the traced body — also with a memo that outlives exports
* `fori_export_faithful`          … and then every exported Loop computes its own `fori_loop`
* `memo_by_code_only_differs`     a key that ignores the closure gives the second loop the first loop's body
-/
import J2O.Props.C06
import J2O.Lemmas.C06R2
set_option linter.unusedVariables false
namespace J2O.C06
universe u v w

/-! ### vmapped while, tensor level -/

/-- the prescribed unsqueeze axes produce the prescribed mask shape, for every predicate shape and state rank -/
theorem mask_shape_prescribed (ps : List Nat) (r : Nat) :
    unsqueezeShape ps (maskAxes ps.length (ps.length + r)) = maskShape ps (ps.length + r) :=
  unsqueezeShape_maskAxes_gen ps r

example : unsqueezeShape [4] (maskAxes 1 3) = [4, 1, 1] := by decide
example : maskShape [2, 3] 4 = [2, 3, 1, 1] := by decide

/-- **Where with the prescribed mask = per-lane select**, for carried tensors of every rank `r` (their
    extents are arbitrary: a `Lane α r` is any function of rank-`r` indices). -/
theorem where_prescribed_mask_is_lane_select {α : Type u} {r : Nat} (preds : List Bool)
    (cand prev : List (Lane α r)) (h : cand.length = preds.length) :
    whereLanesGo (unsqueezeShape [preds.length] (maskAxes 1 (1 + r))) (maskOf preds (maskAxes 1 (1 + r))) 0 cand prev
      = selectLanes preds cand prev := by
  rw [unsqueezeShape_maskAxes]
  exact whereLanesGo_lane preds [] cand prev h

-- rank 2, lanes 0 and 1: lane 1 is frozen
example : (whereLanesGo (α := Nat) (r := 2) [2, 1, 1] (maskOf [true, false] (maskAxes 1 3)) 0
      [fun _ => 10, fun _ => 11] [fun _ => 0, fun _ => 1]).map (· ⟨[1, 0], rfl⟩) = [10, 1] := by decide

/-- the tensor-level Loop the plugin emits equals the lane-level scheme proved in round 1 -/
theorem while_batched_tensor_eq_lanes {α : Type u} {r : Nat} (M : Nat) (c : Lane α r → Bool)
    (b : Lane α r → Lane α r) (s0 : List (Lane α r)) :
    whileBatchedTensorScheme M (maskAxes 1 (1 + r)) c b s0 = whileBatchedScheme M c b s0 := by
  unfold whileBatchedTensorScheme whileBatchedScheme loopO
  have key := loopGo_congr_inv (υ := Unit)
    (fun (st : List Bool × List (Lane α r)) => st.1.length = st.2.length)
    (fun _ _ (st : List Bool × List (Lane α r)) =>
      let cand := st.2.map b
      let new := whereLanesGo (unsqueezeShape [st.1.length] (maskAxes 1 (1 + r))) (maskOf st.1 (maskAxes 1 (1 + r))) 0 cand st.2
      let pred := new.map c
      (pred.any id, (pred, new), ()))
    (fun _ _ (st : List Bool × List (Lane α r)) =>
      let new := (st.1.zip st.2).map fun ps => if ps.1 then b ps.2 else ps.2
      let pred := new.map c
      (pred.any id, (pred, new), ()))
    (by
      intro i cnd st hst
      have h1 := where_prescribed_mask_is_lane_select st.1 (st.2.map b) st.2 (by simp [hst])
      simp only [h1, selectLanes_map])
    (by intro i cnd st hst; simp)
    M 0 ((s0.map c).any id) (s0.map c, s0) [] (by simp)
  rw [key]

/-- **vmapped while, carried tensors of any rank.** If every lane's own while loop ends (within `K ≤ M`
    iterations) in the corresponding element of `ys`, the tensor-level Loop returns `ys`. -/
theorem while_batched_tensor_scheme {α : Type u} {r : Nat} (M : Nat) (c : Lane α r → Bool)
    (b : Lane α r → Lane α r) (s0 ys : List (Lane α r)) (K : Nat) (hK : K ≤ M) (h : LanesEnd c b K s0 ys) :
    whileBatchedTensorScheme M (maskAxes 1 (1 + r)) c b s0 = ys := by
  rw [while_batched_tensor_eq_lanes]
  exact while_batched_scheme M c b s0 ys K hK h

/-- witness lanes: 2×1 matrices (rank 2), lane 0 starts at 0 (two trips), lane 1 at 5 (zero trips) -/
def witC : Lane Nat 2 → Bool := fun l => decide (l ⟨[0, 0], rfl⟩ < 2)
def witB : Lane Nat 2 → Lane Nat 2 := fun l ri => l ri + 1
def witS : List (Lane Nat 2) := [fun _ => 0, fun _ => 5]

example : (whileBatchedTensorScheme 10 (maskAxes 1 3) witC witB witS).map (· ⟨[0, 0], rfl⟩) = [2, 5] := by decide
-- the hypotheses of `while_batched_tensor_scheme` are met by these matrix lanes (2 trips and 0 trips)
example : LanesEnd witC witB 2 witS [fun _ => 2, fun _ => 5] := by
  refine ⟨⟨2, by omega, ?_, by decide, rfl⟩, ⟨0, by omega, ?_, by decide, rfl⟩, trivial⟩
  · intro i hi
    have : i = 0 ∨ i = 1 := by omega
    rcases this with rfl | rfl <;> decide
  · intro i hi; omega

/-- **refutation**: unsqueezing ONE axis only (mask `(B,1)`) against a `(B,N,M)` state with `B = N = 2`
    — right-aligned broadcasting reads the predicate of lane `n` for element `(j,n,m)` — is a different
    loop: the finished lane 1 keeps being updated. -/
theorem right_aligned_mask_differs :
    (whileBatchedTensorScheme 10 [1] witC witB witS).map (· ⟨[0, 0], rfl⟩)
      ≠ (whileBatchedScheme 10 witC witB witS).map (· ⟨[0, 0], rfl⟩) := by decide

/-! ### scan: the trip count is the sequence length, whatever the body contains -/

/-- the Loop of the scan scheme run with trip count `M` stacks exactly `M` outputs, for every body -/
theorem scanM_stacked_extent {κ : Type u} {χ : Type v} {υ : Type w} [Inhabited χ] (M : Nat)
    (f : κ → χ → κ × υ) (c0 : κ) (xs : List χ) : (scanSchemeM M f c0 xs).2.length = M := by
  unfold scanSchemeM loopO
  have := loopGo_pass_length
    (fun i cin (st : κ × List χ) => let o := f st.1 (st.2.getD i default); (cin, (o.1, st.2), o.2))
    (by intro i c s; rfl) M 0 (c0, xs) []
  simpa using this

/-- **the scan Loop equals `lax.scan` iff its trip count is the length of the scanned inputs** — for every
    body `f` (whatever static extents its primitives carry), carry and sequence. -/
theorem scan_trip_iff_length {κ : Type u} {χ : Type v} {υ : Type w} [Inhabited χ] (M : Nat)
    (f : κ → χ → κ × υ) (c0 : κ) (xs : List χ) :
    scanSchemeM M f c0 xs = scanJ f c0 xs ↔ M = xs.length := by
  constructor
  · intro h
    have h1 := scanM_stacked_extent M f c0 xs
    rw [h, scanJ_length] at h1
    exact h1.symm
  · rintro rfl
    exact scan_scheme f c0 xs

example : scanSchemeM 3 (fun (c : Int) (x : Int) => (c + x, c)) 0 [1, 2, 3] = (6, [0, 1, 3]) := by decide

/-- trip count taken from an extent inside the body (2, a scatter window) on 3 scanned elements -/
theorem scan_trip_from_body_extent_differs :
    scanSchemeM 2 (fun (c : Int) (x : Int) => (c + x, c)) 0 [1, 2, 3]
      ≠ scanJ (fun (c : Int) (x : Int) => (c + x, c)) 0 [1, 2, 3] := by decide

/-- **scan without scanned inputs ↦ Loop(length)** for every static length -/
theorem scan_noxs_scheme {κ : Type u} {υ : Type w} (n : Nat) (f : κ → κ × υ) (c0 : κ) :
    scanNoXsScheme n f c0 = scanJ (fun c (_ : Unit) => f c) c0 (List.replicate n ()) := by
  unfold scanNoXsScheme loopO
  rw [loopGo_noxs f n 0 c0 []]
  simp

theorem scan_noxs_extent {κ : Type u} {υ : Type w} (n : Nat) (f : κ → κ × υ) (c0 : κ) :
    (scanNoXsScheme n f c0).2.length = n := by
  rw [scan_noxs_scheme, scanJ_length]; simp

example : scanNoXsScheme 3 (fun c : Nat => (c * 2 + 1, c)) 1 = (15, [1, 3, 7]) := by decide
example : scanNoXsScheme 0 (fun c : Nat => (c * 2 + 1, c)) 1 = (1, []) := by decide

/-! ### body identity -/

/-- a one-trip counted loop IS its body -/
theorem fori_one_trip_is_body {σ : Type u} (b : Int → σ → σ) (lo : Int) (s : σ) :
    foriScheme b lo 1 s = b lo s := by
  rw [fori_scheme]; rfl

/-- two loops that agree for one trip on all bounds and states have the same body FUNCTION — the exported
    Loop depends on the whole closure, not on the code object -/
theorem fori_body_determined {σ : Type u} (b1 b2 : Int → σ → σ)
    (h : ∀ lo s, foriScheme b1 lo 1 s = foriScheme b2 lo 1 s) : b1 = b2 := by
  funext lo s
  have := h lo s
  rwa [fori_one_trip_is_body, fori_one_trip_is_body] at this

example : foriScheme (fun i (s : Int) => s * 2 + 2001 + i) 0 1 1 ≠ foriScheme (fun i (s : Int) => s * 2 + 2002 + i) 0 1 1 := by
  decide

/-- **memoised tracing is sound when the key determines the traced body**: every loop gets its own
    body, for every list of loops and every (sound) memo content on entry. -/
theorem memo_sound {E : Type u} {K : Type v} {B : Type w} [DecidableEq K] (key : E → K) (trace : E → B)
    (hkey : ∀ e e', key e = key e' → trace e = trace e') :
    ∀ (es : List E) (cache : List (K × B)), (∀ kb ∈ cache, ∀ e', key e' = kb.1 → trace e' = kb.2) →
      exportMemo key trace cache es = exportBodies trace es
  | [], _, _ => rfl
  | e :: es, cache, hc => by
    simp only [exportMemo, exportBodies, List.map_cons]
    split
    · rename_i b hb
      rw [memoLookup_ok key trace e cache b hc hb]
      exact congrArg _ (memo_sound key trace hkey es cache hc)
    · refine congrArg _ (memo_sound key trace hkey es _ ?_)
      intro kb hkb e' he'
      simp only [List.mem_cons] at hkb
      rcases hkb with rfl | hkb
      · exact hkey e' e he'
      · exact hc kb hkb e' he'

/-- … and then every exported counted loop computes its own `fori_loop` -/
theorem fori_export_faithful {E : Type u} {K : Type v} {σ : Type w} [DecidableEq K] (key : E → K)
    (trace : E → Int → σ → σ) (hkey : ∀ e e', key e = key e' → trace e = trace e')
    (es : List E) (lo : Int) (n : Nat) (s : σ) :
    (exportMemo key trace [] es).map (fun b => foriScheme b lo n s) = es.map (fun e => foriJ (trace e) lo n s) := by
  rw [memo_sound key trace hkey es [] (by simp), exportBodies, List.map_map]
  congr 1
  funext e
  exact fori_scheme _ _ _ _

-- key = (code object, closed-over constant): two loops from one step factory keep their own constants
example : exportMemo (fun e : Nat × Int => e) (fun e => e.2) [] [(0, 2001), (0, 2002), (0, 2001)] = [2001, 2002, 2001] := by
  decide

/-- **refutation**: a memo keyed by the code object alone hands the first loop's body to the second -/
theorem memo_by_code_only_differs :
    exportMemo (fun e : Nat × Int => e.1) (fun e => e.2) [] [(0, 2001), (0, 2002)]
      ≠ exportBodies (fun e : Nat × Int => e.2) [(0, 2001), (0, 2002)] := by decide

end J2O.C06
