/-
C04 — property theorems: symbolic dimension arithmetic is evaluated at run time with the integer
result JAX computes, for every binding of the symbols.  (Model of /repo ≥ 31efd88: floordiv is
emitted as `Div(Sub(a, Mod(a, b)), b)`, memo keys are tagged by kind.)

Proved for ALL expressions (structural induction over `_DimExpr`), ALL bindings (positive or not),
all memo states, all sequences of origin recordings:

* `lower_correct`              the chain `LowerDimExpr` emits has the value JAX computes — no proviso
* `floordiv_nodes_floor`, `ops_agree`   `Div(Sub(a, Mod(a,b)), b)` = Python `//` for every sign
                               combination; relied upon: integer `Div` truncates, integer `Mod`
                               with fmod = 0 has the sign of the divisor (both compared with ONNX
                               Runtime on a box each run)
* `cache_transparent`          memoisation does not change any value of a whole sequence of
                               `__call__`s, for the keys the code really uses, PROVIDED the
                               decidable check `keysConsistent` accepts them — the harness runs the
                               check on the live keys of every export (no assumption about `str`)
* `cache_transparent_of_faithful`, `call_transparent_of_faithful`   the underlying general statement
* `origin_sound`, `origin_lookup_sound`, `orgSound_of_table`   invariant of the origin table
* `export_dim_correct`         composition: run-time value of the memoised chain = JAX value
* regression (labelled OLD): `old_div_off_by_one`, `old_div_lowering_refuted`,
  `old_keys_inconsistent`, `old_keys_memo_wrong` — what the lowering before 31efd88 got wrong;
  `new_keys_consistent` — the same expression with the tagged keys passes the check
-/
import J2O.Lemmas.C04
set_option linter.unusedVariables false

namespace J2O.C04

/-! ### Witness expressions (serialised from the live `_DimExpr` objects, keys included) -/

/-- `(B - 5)//2 + 10` as JAX stores it. -/
def exFloordiv : Expr :=
  .mk "floordiv(B - 5, 2) + 10"
    (.cons "term*coeff:(floordiv(B - 5, 2), 1)" "floordiv(B - 5, 2)"
      (.mul "factor^power:(floordiv(B - 5, 2), 1)"
        (.op "floordiv#(B - 5, 2)" .floordiv
          (.mk "B - 5" (.cons "term*coeff:(B, 1)" "B" (.mul "factor^power:(B, 1)" (.var "B") 1 .one) 1
                        (.cons "term*coeff:(, -5)" "" .one (-5) .nil)))
          (.mk "2" (.cons "term*coeff:(, 2)" "" .one 2 .nil))) 1 .one) 1
      (.cons "term*coeff:(, 10)" "" .one 10 .nil))

/-- `B*B + 2*B` as JAX stores it (`B^2 + 2*B`), with the keys of /repo ≥ 31efd88. -/
def exCollide : Expr :=
  .mk "B^2 + 2*B"
    (.cons "term*coeff:(B^2, 1)" "B^2" (.mul "factor^power:(B, 2)" (.var "B") 2 .one) 1
      (.cons "term*coeff:(B, 2)" "B" (.mul "factor^power:(B, 1)" (.var "B") 1 .one) 2 .nil))

/-- OLD: the same expression with the untagged keys `str((factor, power))`, `str((term, coeff))`. -/
def exCollideOldKeys : Expr :=
  .mk "B^2 + 2*B"
    (.cons "(B^2, 1)" "B^2" (.mul "(B, 2)" (.var "B") 2 .one) 1
      (.cons "(B, 2)" "B" (.mul "(B, 1)" (.var "B") 1 .one) 2 .nil))

/-- `(B*N + 3)//2`. -/
def exSafe : Expr :=
  .mk "floordiv(B*N + 3, 2)"
    (.cons "term*coeff:(floordiv(B*N + 3, 2), 1)" "floordiv(B*N + 3, 2)"
      (.mul "factor^power:(floordiv(B*N + 3, 2), 1)"
        (.op "floordiv#(B*N + 3, 2)" .floordiv
          (.mk "B*N + 3" (.cons "term*coeff:(B*N, 1)" "B*N"
              (.mul "factor^power:(N, 1)" (.var "N") 1 (.mul "factor^power:(B, 1)" (.var "B") 1 .one)) 1
              (.cons "term*coeff:(, 3)" "" .one 3 .nil)))
          (.mk "2" (.cons "term*coeff:(, 2)" "" .one 2 .nil))) 1 .one) 1 .nil)

/-- graph input 0 has shape `(B,)`, input 1 has shape `(N, 4)` -/
def exOrg : Org := fun n => if n = "B" then ("in_0", 0) else ("in_1", 0)
def exSigma (b n : Int) : String → Int := fun s => if s = "B" then b else n
def exShapes (b n : Int) : String → Nat → Int := fun v ax =>
  if v = "in_0" then b else if ax = 0 then n else 4

/-! ### Dimension arithmetic -/

/-- `Div(Sub(a, Mod(a, b)), b)` with truncating `Div` and divisor-signed `Mod` is Python's `//`,
    for all integers. -/
theorem floordiv_nodes_floor (x y : Int) : OpKind.onnx .floordiv x y = OpKind.jax .floordiv x y :=
  tdiv_sub_fmod x y

/-- every operation's nodes mean what JAX means, for all integers -/
theorem ops_agree (o : OpKind) (x y : Int) : OpKind.onnx o x y = OpKind.jax o x y := by
  rw [onnx_eq_jax]

/-- **Lowering is correct** for every expression, every binding `σ` (positive or not) and every origin
    assignment that is sound for the symbols of the expression: the ONNX value of the emitted chain
    is the value JAX computes. -/
theorem lower_correct (org : Org) (sh : String → Nat → Int) (σ : String → Int) (e : Expr)
    (ho : OrgSound org sh σ e.vars) : (lowerExpr org e).eval sh = e.evalJax σ := by
  rw [lowerExpr_eval org sh σ e ho]
  show e.evalWith OpKind.onnx σ = e.evalWith OpKind.jax σ
  rw [onnx_eq_jax]

-- non-vacuity, and the former counterexample now evaluates to the JAX value
example : OrgSound exOrg (exShapes 3 5) (exSigma 3 5) exSafe.vars := by unfold OrgSound; decide
example : (lowerExpr exOrg exSafe).eval (exShapes 3 5) = 9 := by decide
example : (lowerExpr exOrg exFloordiv).eval (exShapes 2 1) = 8 := by decide
example : exFloordiv.evalJax (exSigma 2 1) = 8 := by decide
example : (lowerExpr exOrg exFloordiv).render
    = "Add(Div(Sub(Add(S(in_0,0),-5),Mod(Add(S(in_0,0),-5),2)),2),10)" := by decide

/-! ### The memo -/

/-- **General form.** `D` gives every key one value; if every key occurring in `e` is used for a
    sub-expression of that value (`Faithful`) and the memo is coherent on entry, the memoised walk
    returns a chain with the value of the un-memoised one and leaves the memo coherent. -/
theorem cache_transparent_of_faithful (D : Key → Int) (org : Org) (sh : String → Nat → Int)
    (σ : String → Int) (hD : ∀ k, D (.num k) = k) (e : Expr) (c : Cache)
    (hf : e.Faithful D σ) (ho : OrgSound org sh σ e.vars) (hc : CacheOK D sh c) :
    (lowerExprC org e c).1.eval sh = (lowerExpr org e).eval sh ∧ CacheOK D sh (lowerExprC org e c).2 := by
  have h := lowerExprC_good D org sh σ hD e c hf ho hc
  exact ⟨by rw [h.1, lowerExpr_eval org sh σ e ho], h.2⟩

theorem call_transparent_of_faithful (D : Key → Int) (org : Org) (sh : String → Nat → Int)
    (σ : String → Int) (hD : ∀ k, D (.num k) = k) :
    ∀ (es : List Expr) (c : Cache),
      (∀ e ∈ es, e.Faithful D σ ∧ OrgSound org sh σ e.vars) → CacheOK D sh c →
      (lowerCallC org es c).1.map (·.eval sh) = es.map (fun e => (lowerExpr org e).eval sh)
        ∧ CacheOK D sh (lowerCallC org es c).2
  | [], c, _, hc => ⟨rfl, hc⟩
  | e :: es, c, h, hc => by
    have he := h e (List.mem_cons_self ..)
    have h1 := cache_transparent_of_faithful D org sh σ hD e c he.1 he.2 hc
    have h2 := call_transparent_of_faithful D org sh σ hD es _ (fun e' he' => h e' (List.mem_cons_of_mem _ he')) h1.2
    simp only [lowerCallC, List.map_cons, h1.1, h2.1]
    exact ⟨trivial, h2.2⟩

/-- **Memoisation is transparent for checked keys.** `es` = everything lowered through one
    `LowerDimExpr` (one memo, starting empty). If the key check accepts the keys, then for EVERY
    binding the memoised chains have the values of the un-memoised ones. -/
theorem cache_transparent (org : Org) (sh : String → Nat → Int) (σ : String → Int) (es : List Expr)
    (hk : keysConsistent es = true) (ho : ∀ e ∈ es, OrgSound org sh σ e.vars) :
    (lowerCallC org es []).1.map (·.eval sh) = es.map (fun e => (lowerExpr org e).eval sh) :=
  (call_transparent_of_faithful (Dof (allItems es) σ) org sh σ (fun _ => rfl) es []
    (fun e he => ⟨faithful_of_consistent es σ hk e he, ho e he⟩) (cacheOK_nil _ _)).1

-- the keys the repaired code computes for the witnesses pass the check; the chain is right
theorem new_keys_consistent : keysConsistent [exCollide, exFloordiv, exSafe] = true := by decide +kernel
example : (lowerExprC exOrg exCollide []).1.eval (exShapes 3 1) = 15 := by decide
example : exCollide.evalJax (exSigma 3 1) = 15 := by decide

/-! ### Origins -/

/-- every recorded origin `(value, axis)` really has the recorded dimension at that axis;
    `M` is the run-time meaning of a dimension text under the current binding. -/
def TableSound (M : String → Int) (sh : String → Nat → Int) (t : OTable) : Prop :=
  ∀ k o, (k, o) ∈ t → sh o.v o.axis = M k

/-- premise of a recording operation: the tensor has the annotated extents (C08's subject). -/
def DimsTrue (M : String → Int) (sh : String → Nat → Int) (v : String)
    (dims : List (Option String × Nat)) : Prop :=
  ∀ k ax, (some k, ax) ∈ dims → sh v ax = M k

def OOp.WellShaped (M : String → Int) (sh : String → Nat → Int) : OOp → Prop
  | .bind v dims => DimsTrue M sh v dims
  | .scope _ fin dims => DimsTrue M sh fin dims

theorem recordDims_sound (M sh) (v : String) : ∀ (dims : List (Option String × Nat)) (t : OTable),
    TableSound M sh t → DimsTrue M sh v dims → TableSound M sh (t.recordDims v dims)
  | [], t, ht, _ => ht
  | (d, ax) :: r, t, ht, hd => by
    simp only [OTable.recordDims]
    refine recordDims_sound M sh v r _ ?_ (fun k a h => hd k a (List.mem_cons_of_mem _ h))
    cases d with
    | none => exact ht
    | some k =>
      intro k' o h
      simp only [OTable.record, List.mem_cons, Prod.mk.injEq] at h
      rcases h with ⟨rfl, rfl⟩ | h
      · exact hd k' ax (List.mem_cons_self ..)
      · exact ht k' o h

theorem scopeInput_sound (M sh) (parent : OTable) (fin : String) :
    ∀ (dims : List (Option String × Nat)) (t : OTable),
    TableSound M sh t → DimsTrue M sh fin dims → TableSound M sh (OTable.scopeInput parent t fin dims)
  | [], t, ht, _ => ht
  | (none, ax) :: r, t, ht, hd => by
    simp only [OTable.scopeInput]
    exact scopeInput_sound M sh parent fin r t ht (fun k a h => hd k a (List.mem_cons_of_mem _ h))
  | (some k, ax) :: r, t, ht, hd => by
    simp only [OTable.scopeInput]
    split
    · exact scopeInput_sound M sh parent fin r t ht (fun k a h => hd k a (List.mem_cons_of_mem _ h))
    · refine scopeInput_sound M sh parent fin r _ ?_ (fun k a h => hd k a (List.mem_cons_of_mem _ h))
      intro k' o h
      simp only [List.mem_cons, Prod.mk.injEq] at h
      rcases h with ⟨rfl, rfl⟩ | h
      · exact hd k' ax (List.mem_cons_self ..)
      · exact ht k' o h

/-- **Origin invariant.** Over every sequence of origin-recording operations whose tensors have
    the annotated extents, every entry of the table is true at run time. -/
theorem origin_sound (M : String → Int) (sh : String → Nat → Int) :
    ∀ (ops : List OOp) (t : OTable), TableSound M sh t → (∀ op ∈ ops, op.WellShaped M sh) →
      TableSound M sh (t.applyAll ops)
  | [], t, ht, _ => ht
  | op :: r, t, ht, h => by
    simp only [OTable.applyAll]
    refine origin_sound M sh r _ ?_ (fun o ho => h o (List.mem_cons_of_mem _ ho))
    have hw := h op (List.mem_cons_self ..)
    cases op with
    | bind v dims => exact recordDims_sound M sh v dims t ht hw
    | scope parent fin dims => exact scopeInput_sound M sh parent fin dims t ht hw

theorem tableSound_nil (M sh) : TableSound M sh [] := by intro k o h; cases h

theorem lookup_mem : ∀ (t : OTable) (k : String) (o : Origin), t.lookup k = some o → (k, o) ∈ t
  | [], _, _, h => by simp [OTable.lookup] at h
  | (k', o') :: r, k, o, h => by
    simp only [OTable.lookup] at h
    split at h
    · rename_i he; cases h; subst he; exact List.mem_cons_self ..
    · exact List.mem_cons_of_mem _ (lookup_mem r k o h)

/-- what `get_symbolic_dim_origin` returns is true at run time -/
theorem origin_lookup_sound (M sh) (t : OTable) (ht : TableSound M sh t) (k : String) (o : Origin)
    (h : t.lookup k = some o) : sh o.v o.axis = M k :=
  ht k o (lookup_mem t k o h)

/-- a sound table that knows every symbol of `vars` gives the lowerer sound origins -/
theorem orgSound_of_table (M sh) (σ : String → Int) (t : OTable) (ht : TableSound M sh t)
    (vars : List String) (hv : ∀ n ∈ vars, M n = σ n ∧ t.lookup n ≠ none) :
    OrgSound t.org sh σ vars := by
  intro n hn
  obtain ⟨hm, hl⟩ := hv n hn
  unfold OTable.org
  cases h : t.lookup n with
  | none => exact absurd h hl
  | some o => simp only []; rw [origin_lookup_sound M sh t ht n o h, hm]

-- non-vacuity: two recordings (graph input, then a re-binding to a later value of shape (B, N))
def exOps : List OOp :=
  [.bind "in_0" [(some "B", 0)], .bind "in_1" [(some "N", 0), (none, 1)],
   .bind "mul_out" [(some "B", 0), (some "N", 1)]]
example : (OTable.applyAll [] exOps).lookup "N" = some ⟨"mul_out", 1⟩ := by decide
example : ∀ op ∈ exOps, op.WellShaped (exSigma 3 5)
    (fun v ax => if v = "mul_out" then (if ax = 0 then 3 else 5) else exShapes 3 5 v ax) := by
  intro op h
  simp only [exOps, List.mem_cons, List.not_mem_nil, or_false] at h
  rcases h with rfl | rfl | rfl <;> (intro k ax hk; revert hk; simp only [List.mem_cons, List.not_mem_nil,
    Prod.mk.injEq, Option.some.injEq, or_false]) <;> intro hk
  · obtain ⟨rfl, rfl⟩ := hk; decide
  · rcases hk with ⟨rfl, rfl⟩ | ⟨h, _⟩
    · decide
    · cases h
  · rcases hk with ⟨rfl, rfl⟩ | ⟨rfl, rfl⟩ <;> decide

/-! ### Composition -/

/-- **End to end.** Start from the empty origin table, apply any sequence of well-shaped recordings,
    lower the expressions `es` through one memo whose keys pass the check: if every symbol has an
    origin, the run-time value of every emitted chain is the integer JAX computes, for every
    binding `σ`. -/
theorem export_dim_correct (sh : String → Nat → Int) (σ : String → Int) (M : String → Int)
    (ops : List OOp) (es : List Expr)
    (hops : ∀ op ∈ ops, op.WellShaped M sh)
    (hv : ∀ e ∈ es, ∀ n ∈ e.vars, M n = σ n ∧ (OTable.applyAll [] ops).lookup n ≠ none)
    (hk : keysConsistent es = true) :
    (lowerCallC (OTable.applyAll [] ops).org es []).1.map (·.eval sh) = es.map (·.evalJax σ) := by
  have ht := origin_sound M sh ops [] (tableSound_nil M sh) hops
  have ho : ∀ e ∈ es, OrgSound (OTable.applyAll [] ops).org sh σ e.vars :=
    fun e he => orgSound_of_table M sh σ _ ht e.vars (hv e he)
  rw [cache_transparent _ sh σ es hk ho]
  apply List.map_congr_left
  intro e he
  exact lower_correct _ sh σ e (ho e he)

/-! ### Regression: what the lowering before /repo 31efd88 got wrong (labelled OLD) -/

/-- OLD: a single truncating `Div` is one above Python's `//` for a negative numerator, positive
    denominator and non-zero remainder. -/
theorem old_div_off_by_one (x y : Int) (hx : x < 0) (hy : 0 < y) (hd : ¬ y ∣ x) :
    OpKind.onnxOld .floordiv x y = OpKind.jax .floordiv x y + 1 :=
  tdiv_eq_fdiv_add_one hx hy hd

/-- OLD: `(B-5)//2 + 10` at `B = 2` was 9 with the single `Div`, JAX computes 8
    (finding F-C04-floordiv, fixed by 31efd88). -/
theorem old_div_lowering_refuted :
    exFloordiv.evalWith OpKind.onnxOld (exSigma 2 1) = 9 ∧ exFloordiv.evalJax (exSigma 2 1) = 8 := by
  decide

/-- OLD: with untagged keys `str((B, 2))` named both B² and 2·B: the check rejects them … -/
theorem old_keys_inconsistent : keysConsistent [exCollideOldKeys] = false := by decide +kernel

/-- … and the memo really returned the wrong chain: 18 instead of 15 at `B = 3`
    (finding F-C04-cachekey, fixed by 31efd88); the hypothesis of `cache_transparent` is needed. -/
theorem old_keys_memo_wrong :
    (lowerExprC exOrg exCollideOldKeys []).1.eval (exShapes 3 1) = 18
      ∧ (lowerExpr exOrg exCollideOldKeys).eval (exShapes 3 1) = 15 := by decide

end J2O.C04
