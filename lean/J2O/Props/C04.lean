/-
C04 — property theorems: symbolic dimension arithmetic is evaluated at run time with the integer
result JAX computes, for every binding of the symbols.

Proved for ALL expressions (structural induction over `_DimExpr`), all bindings, all memo states:

* `lower_correct_partial`        chain of `LowerDimExpr` = JAX value, PROVIDED every `floordiv`
                                 divides exactly or has operands of equal sign (`SafeDiv`)
* `floordiv_off_by_one`          outside that proviso the emitted `Div` is exactly one too large
* `lower_correct_refuted`        the full statement (no proviso) is FALSE: `(B-5)//2 + 10` at `B = 2`
* `cache_transparent_partial`    memoisation does not change the value, PROVIDED the text keys are
                                 faithful (equal key ⇒ equal value)
* `cache_transparent_refuted`    the full statement is FALSE for the keys the code really uses:
                                 `B^2 + 2*B` — `str((B, 2))` is both "factor B to the power 2" and
                                 "term B with coefficient 2"
* `call_transparent_partial`     the same for any sequence of `LowerDimExpr.__call__`s on one memo
* `origin_sound`                 invariant of the origin table over all sequences of recording
                                 operations; `origin_lookup_sound`, `orgSound_of_table`
* `export_dim_correct_partial`   composition: table built by well-shaped recordings + faithful keys
                                 + `SafeDiv` ⇒ run-time value of the memoised chain = JAX value
-/
import J2O.Lemmas.C04
set_option linter.unusedVariables false

namespace J2O.C04

/-! ### Witness expressions (serialised from the live `_DimExpr` objects, keys included) -/

/-- `(B - 5)//2 + 10` as JAX stores it. -/
def exFloordiv : Expr :=
  .mk "floordiv(B - 5, 2) + 10"
    (.cons "(floordiv(B - 5, 2), 1)" "floordiv(B - 5, 2)"
      (.mul "(floordiv(B - 5, 2), 1)"
        (.op "floordiv#(B - 5, 2)" .floordiv
          (.mk "B - 5" (.cons "(B, 1)" "B" (.mul "(B, 1)" (.var "B") 1 .one) 1
                        (.cons "(, -5)" "" .one (-5) .nil)))
          (.mk "2" (.cons "(, 2)" "" .one 2 .nil))) 1 .one) 1
      (.cons "(, 10)" "" .one 10 .nil))

/-- `B*B + 2*B` as JAX stores it (`B^2 + 2*B`). -/
def exCollide : Expr :=
  .mk "B^2 + 2*B"
    (.cons "(B^2, 1)" "B^2" (.mul "(B, 2)" (.var "B") 2 .one) 1
      (.cons "(B, 2)" "B" (.mul "(B, 1)" (.var "B") 1 .one) 2 .nil))

/-- `(B*N + 3)//2` — a floordiv that is always safe for positive sizes. -/
def exSafe : Expr :=
  .mk "floordiv(B*N + 3, 2)"
    (.cons "(floordiv(B*N + 3, 2), 1)" "floordiv(B*N + 3, 2)"
      (.mul "(floordiv(B*N + 3, 2), 1)"
        (.op "floordiv#(B*N + 3, 2)" .floordiv
          (.mk "B*N + 3" (.cons "(B*N, 1)" "B*N"
              (.mul "(N, 1)" (.var "N") 1 (.mul "(B, 1)" (.var "B") 1 .one)) 1
              (.cons "(, 3)" "" .one 3 .nil)))
          (.mk "2" (.cons "(, 2)" "" .one 2 .nil))) 1 .one) 1 .nil)

/-- graph input 0 has shape `(B,)`, input 1 has shape `(N, 4)` -/
def exOrg : Org := fun n => if n = "B" then ("in_0", 0) else ("in_1", 0)
def exSigma (b n : Int) : String → Int := fun s => if s = "B" then b else n
def exShapes (b n : Int) : String → Nat → Int := fun v ax =>
  if v = "in_0" then b else if ax = 0 then n else 4

/-! ### Dimension arithmetic -/

/-- **Lowering is correct wherever truncation and flooring agree.** For every expression, every
    binding `σ` (positive or not), every origin assignment that is sound for the symbols of the
    expression: the ONNX value of the emitted chain is the value JAX computes. -/
theorem lower_correct_partial (org : Org) (sh : String → Nat → Int) (σ : String → Int) (e : Expr)
    (ho : OrgSound org sh σ e.vars) (hs : e.SafeDiv σ) :
    (lowerExpr org e).eval sh = e.evalJax σ := by
  rw [lowerExpr_eval org sh σ e ho]
  exact Expr.evalO_eq σ e hs

-- non-vacuity: a floordiv expression that satisfies the hypotheses at B = 3, N = 5
example : OrgSound exOrg (exShapes 3 5) (exSigma 3 5) exSafe.vars := by unfold OrgSound; decide
example : exSafe.SafeDiv (exSigma 3 5) := by
  simp only [exSafe, Expr.SafeDiv, Terms.SafeDiv, Term.SafeDiv, Factor.SafeDiv, true_and, and_true]
  intro _; exact Or.inr (Or.inl (by decide))
example : (lowerExpr exOrg exSafe).eval (exShapes 3 5) = 9 := by decide

/-- Sharpness of the proviso: with a negative numerator, a positive denominator and a non-zero
    remainder, ONNX `Div` returns exactly one more than Python's `//`. -/
theorem floordiv_off_by_one (x y : Int) (hx : x < 0) (hy : 0 < y) (hd : ¬ y ∣ x) :
    OpKind.onnx .floordiv x y = OpKind.jax .floordiv x y + 1 :=
  tdiv_eq_fdiv_add_one hx hy hd

example : (-3 : Int) < 0 ∧ (0 : Int) < 2 ∧ ¬ (2 : Int) ∣ -3 := by decide

/-- All other operations agree for all integers (`Mod` with fmod = 0 follows the divisor, like `%`). -/
theorem other_ops_agree (o : OpKind) (h : o ≠ .floordiv) (x y : Int) :
    OpKind.onnx o x y = OpKind.jax o x y := by
  cases o <;> first | rfl | exact absurd rfl h

/-- The full-strength statement: for positive sizes the chain always equals the JAX value. -/
def LowerCorrectFull : Prop :=
  ∀ (org : Org) (sh : String → Nat → Int) (σ : String → Int) (e : Expr),
    (∀ n, 0 < σ n) → OrgSound org sh σ e.vars → (lowerExpr org e).eval sh = e.evalJax σ

/-- **It is false** (genuine defect of /repo, finding F-C04-floordiv): `(B-5)//2 + 10` at `B = 2`
    is 8 in JAX, the emitted `Div` chain gives 9. -/
theorem lower_correct_refuted : ¬ LowerCorrectFull := by
  intro h
  have := h exOrg (exShapes 2 1) (exSigma 2 1) exFloordiv
    (by intro n; unfold exSigma; split <;> decide) (by unfold OrgSound; decide)
  revert this
  decide

example : (lowerExpr exOrg exFloordiv).eval (exShapes 2 1) = 9 := by decide
example : exFloordiv.evalJax (exSigma 2 1) = 8 := by decide

/-! ### The memo -/

/-- **Memoisation is transparent when keys are faithful.** `D` gives every key one value;
    if every key occurring in `e` is used for a sub-expression of that value (`Faithful`) and the
    memo is coherent on entry, the memoised walk returns a chain with the value of the un-memoised
    one and leaves the memo coherent — whatever the memo already contains. -/
theorem cache_transparent_partial (D : Key → Int) (org : Org) (sh : String → Nat → Int)
    (σ : String → Int) (hD : ∀ k, D (.num k) = k) (e : Expr) (c : Cache)
    (hf : e.Faithful D σ) (ho : OrgSound org sh σ e.vars) (hc : CacheOK D sh c) :
    (lowerExprC org e c).1.eval sh = (lowerExpr org e).eval sh ∧ CacheOK D sh (lowerExprC org e c).2 := by
  have h := lowerExprC_good D org sh σ hD e c hf ho hc
  exact ⟨by rw [h.1, lowerExpr_eval org sh σ e ho], h.2⟩

/-- The same for one `LowerDimExpr.__call__` on a list of expressions. -/
theorem call_transparent_partial (D : Key → Int) (org : Org) (sh : String → Nat → Int)
    (σ : String → Int) (hD : ∀ k, D (.num k) = k) :
    ∀ (es : List Expr) (c : Cache),
      (∀ e ∈ es, e.Faithful D σ ∧ OrgSound org sh σ e.vars) → CacheOK D sh c →
      (lowerCallC org es c).1.map (·.eval sh) = es.map (fun e => (lowerExpr org e).eval sh)
        ∧ CacheOK D sh (lowerCallC org es c).2
  | [], c, _, hc => ⟨rfl, hc⟩
  | e :: es, c, h, hc => by
    have he := h e (List.mem_cons_self ..)
    have h1 := cache_transparent_partial D org sh σ hD e c he.1 he.2 hc
    have h2 := call_transparent_partial D org sh σ hD es _ (fun e' he' => h e' (List.mem_cons_of_mem _ he')) h1.2
    simp only [lowerCallC, List.map_cons, h1.1, h2.1]
    exact ⟨trivial, h2.2⟩

/-- faithful keys for `exSafe` at B = 3, N = 5 (non-vacuity of `Faithful`) -/
def exD : Key → Int
  | .num k => k
  | .txt s =>
    if s = "B" ∨ s = "(B, 1)" then 3 else if s = "N" ∨ s = "(N, 1)" then 5
    else if s = "B*N" ∨ s = "(B*N, 1)" then 15 else if s = "B*N + 3" then 18
    else if s = "" then 1 else if s = "(, 3)" then 3 else if s = "(, 2)" ∨ s = "2" then 2
    else 9
example : exSafe.Faithful exD (exSigma 3 5) := by
  simp only [exSafe, Expr.Faithful, Terms.Faithful, Term.Faithful, Factor.Faithful]
  decide
example : (lowerExprC exOrg exSafe []).1.eval (exShapes 3 5) = 9 := by decide

/-- The full-strength statement: the memo never changes the value (no assumption on keys). -/
def CacheTransparentFull : Prop :=
  ∀ (org : Org) (sh : String → Nat → Int) (e : Expr),
    (lowerExprC org e []).1.eval sh = (lowerExpr org e).eval sh

/-- **It is false for the keys the code really uses** (genuine defect of /repo, finding
    F-C04-cachekey): in `B^2 + 2*B` the factor `(B, 2)` (= B²) and the term-with-coefficient
    `(B, 2)` (= 2·B) have the same `str`, so the second is served from the memo: at `B = 3` the
    chain gives 18, JAX 15.  (At `B = 2`, the only size the repository's tests bind, 2² = 2·2.) -/
theorem cache_transparent_refuted : ¬ CacheTransparentFull := by
  intro h
  have := h exOrg (exShapes 3 1) exCollide
  revert this
  decide

example : (lowerExprC exOrg exCollide []).1.eval (exShapes 3 1) = 18 := by decide
example : exCollide.evalJax (exSigma 3 1) = 15 := by decide
example : (lowerExprC exOrg exCollide []).1.eval (exShapes 2 1) = exCollide.evalJax (exSigma 2 1) := by decide

/-! ### Origins -/

/-- every recorded origin `(value, axis)` really has the recorded dimension at that axis;
    `M` is the run-time meaning of a dimension text under the current binding. -/
def TableSound (M : String → Int) (sh : String → Nat → Int) (t : OTable) : Prop :=
  ∀ k o, (k, o) ∈ t → sh o.v o.axis = M k

/-- premise of a recording operation: the tensor has the annotated extents (C08's subject). -/
def DimsTrue (M : String → Int) (sh : String → Nat → Int) (v : String)
    (dims : List (Option String × Nat)) : Prop :=
  ∀ k ax, (some k, ax) ∈ dims → sh v ax = M k

def OOp.WellShaped (M : String → Int) (sh : String → Nat → Int) : OOp → Prop
  | .bind v dims => DimsTrue M sh v dims
  | .scope _ fin dims => DimsTrue M sh fin dims

theorem recordDims_sound (M sh) (v : String) : ∀ (dims : List (Option String × Nat)) (t : OTable),
    TableSound M sh t → DimsTrue M sh v dims → TableSound M sh (t.recordDims v dims)
  | [], t, ht, _ => ht
  | (d, ax) :: r, t, ht, hd => by
    simp only [OTable.recordDims]
    refine recordDims_sound M sh v r _ ?_ (fun k a h => hd k a (List.mem_cons_of_mem _ h))
    cases d with
    | none => exact ht
    | some k =>
      intro k' o h
      simp only [OTable.record, List.mem_cons, Prod.mk.injEq] at h
      rcases h with ⟨rfl, rfl⟩ | h
      · exact hd k' ax (List.mem_cons_self ..)
      · exact ht k' o h

theorem scopeInput_sound (M sh) (parent : OTable) (fin : String) :
    ∀ (dims : List (Option String × Nat)) (t : OTable),
    TableSound M sh t → DimsTrue M sh fin dims → TableSound M sh (OTable.scopeInput parent t fin dims)
  | [], t, ht, _ => ht
  | (none, ax) :: r, t, ht, hd => by
    simp only [OTable.scopeInput]
    exact scopeInput_sound M sh parent fin r t ht (fun k a h => hd k a (List.mem_cons_of_mem _ h))
  | (some k, ax) :: r, t, ht, hd => by
    simp only [OTable.scopeInput]
    split
    · exact scopeInput_sound M sh parent fin r t ht (fun k a h => hd k a (List.mem_cons_of_mem _ h))
    · refine scopeInput_sound M sh parent fin r _ ?_ (fun k a h => hd k a (List.mem_cons_of_mem _ h))
      intro k' o h
      simp only [List.mem_cons, Prod.mk.injEq] at h
      rcases h with ⟨rfl, rfl⟩ | h
      · exact hd k' ax (List.mem_cons_self ..)
      · exact ht k' o h

/-- **Origin invariant.** Over every sequence of origin-recording operations whose tensors have
    the annotated extents, every entry of the table is true at run time. -/
theorem origin_sound (M : String → Int) (sh : String → Nat → Int) :
    ∀ (ops : List OOp) (t : OTable), TableSound M sh t → (∀ op ∈ ops, op.WellShaped M sh) →
      TableSound M sh (t.applyAll ops)
  | [], t, ht, _ => ht
  | op :: r, t, ht, h => by
    simp only [OTable.applyAll]
    refine origin_sound M sh r _ ?_ (fun o ho => h o (List.mem_cons_of_mem _ ho))
    have hw := h op (List.mem_cons_self ..)
    cases op with
    | bind v dims => exact recordDims_sound M sh v dims t ht hw
    | scope parent fin dims => exact scopeInput_sound M sh parent fin dims t ht hw

theorem tableSound_nil (M sh) : TableSound M sh [] := by intro k o h; cases h

theorem lookup_mem : ∀ (t : OTable) (k : String) (o : Origin), t.lookup k = some o → (k, o) ∈ t
  | [], _, _, h => by simp [OTable.lookup] at h
  | (k', o') :: r, k, o, h => by
    simp only [OTable.lookup] at h
    split at h
    · rename_i he; cases h; subst he; exact List.mem_cons_self ..
    · exact List.mem_cons_of_mem _ (lookup_mem r k o h)

/-- what `get_symbolic_dim_origin` returns is true at run time -/
theorem origin_lookup_sound (M sh) (t : OTable) (ht : TableSound M sh t) (k : String) (o : Origin)
    (h : t.lookup k = some o) : sh o.v o.axis = M k :=
  ht k o (lookup_mem t k o h)

/-- a sound table that knows every symbol of `vars` gives the lowerer sound origins -/
theorem orgSound_of_table (M sh) (σ : String → Int) (t : OTable) (ht : TableSound M sh t)
    (vars : List String) (hv : ∀ n ∈ vars, M n = σ n ∧ t.lookup n ≠ none) :
    OrgSound t.org sh σ vars := by
  intro n hn
  obtain ⟨hm, hl⟩ := hv n hn
  unfold OTable.org
  cases h : t.lookup n with
  | none => exact absurd h hl
  | some o => simp only []; rw [origin_lookup_sound M sh t ht n o h, hm]

-- non-vacuity: two recordings (graph input, then a re-binding to a later value of shape (B, N))
def exOps : List OOp :=
  [.bind "in_0" [(some "B", 0)], .bind "in_1" [(some "N", 0), (none, 1)],
   .bind "mul_out" [(some "B", 0), (some "N", 1)]]
example : (OTable.applyAll [] exOps).lookup "N" = some ⟨"mul_out", 1⟩ := by decide
example : ∀ op ∈ exOps, op.WellShaped (exSigma 3 5)
    (fun v ax => if v = "mul_out" then (if ax = 0 then 3 else 5) else exShapes 3 5 v ax) := by
  intro op h
  simp only [exOps, List.mem_cons, List.not_mem_nil, or_false] at h
  rcases h with rfl | rfl | rfl <;> (intro k ax hk; revert hk; simp only [List.mem_cons, List.not_mem_nil,
    Prod.mk.injEq, Option.some.injEq, or_false]) <;> intro hk
  · obtain ⟨rfl, rfl⟩ := hk; decide
  · rcases hk with ⟨rfl, rfl⟩ | ⟨h, _⟩
    · decide
    · cases h
  · rcases hk with ⟨rfl, rfl⟩ | ⟨rfl, rfl⟩ <;> decide

/-! ### Composition -/

/-- **End to end for one dimension expression.** Start from the empty origin table, apply any
    sequence of well-shaped recordings, lower `e` through a coherent memo with faithful keys: if
    every symbol of `e` has an origin and every floordiv is safe, the run-time value of the
    emitted chain is the integer JAX computes for the binding `σ`. -/
theorem export_dim_correct_partial (D : Key → Int) (sh : String → Nat → Int) (σ : String → Int)
    (M : String → Int) (ops : List OOp) (e : Expr) (c : Cache)
    (hD : ∀ k, D (.num k) = k)
    (hops : ∀ op ∈ ops, op.WellShaped M sh)
    (hv : ∀ n ∈ e.vars, M n = σ n ∧ (OTable.applyAll [] ops).lookup n ≠ none)
    (hf : e.Faithful D σ) (hc : CacheOK D sh c) (hs : e.SafeDiv σ) :
    (lowerExprC (OTable.applyAll [] ops).org e c).1.eval sh = e.evalJax σ := by
  have ht := origin_sound M sh ops [] (tableSound_nil M sh) hops
  have ho := orgSound_of_table M sh σ _ ht e.vars hv
  rw [(cache_transparent_partial D _ sh σ hD e c hf ho hc).1]
  exact lower_correct_partial _ sh σ e ho hs

end J2O.C04
