/-
C18 — the cross-dtype case at FULL strength on every non-complex row of the regenerated promotion table on which
numpy's promotion is exact (round 2).

* `allclose_sound_exact_rows`  for all tolerances ≥ 0, output lists, layout flags and all well-typed values: if every
                               (expected, got) dtype pair is one of the 124 rows of the 12 × 12 non-complex table that
                               do not bring a 64-bit integer to float64 (`promoLossy64 = false`), match ⇒ `Agrees` —
                               no `NoLossyCast` hypothesis.  Subsumes `allclose_sound_int_promotion` and
                               `allclose_sound_float_widening`; adds bool/int8/16/32 × float16/32/64, int64 × int,
                               uint64 × unsigned, …
* `exact_rows_count`           124 of 144 rows (kernel-evaluated); the other 20 are refuted row-class-wise in
                               Props/C18Promo.lean (`promotion_lossy_rows_refuted`: uint64 × int64, float64 × int64,
                               int64 × float32)
Rows with a complex side (expected complex, incl. the (re, im) repack) still need `NoLossyCast`.
-/
import J2O.Lemmas.C18Exact
import J2O.Props.C18
set_option linter.unusedSimpArgs false
set_option linter.unusedVariables false

namespace J2O.C18

/-- **Soundness, full strength, every non-complex row of the promotion table on which numpy's promotion is
    exact** (12 × 12 dtype pairs minus the rows that bring a 64-bit integer to float64). -/
theorem allclose_sound_exact_rows (cfg : Cfg) (hr : 0 ≤ cfg.rtol) (ha : 0 ≤ cfg.atol)
    (es gs : List Tn)
    (hk : ∀ i (h₁ : i < es.length) (h₂ : i < gs.length),
      es[i].kind ∈ realKinds ∧ gs[i].kind ∈ realKinds ∧ promoLossy64 es[i].kind gs[i].kind = false ∧
        WellTypedR es[i] ∧ WellTypedR gs[i])
    (h : decideAll cfg es gs = .isMatch) : Agrees cfg es gs := by
  apply allclose_sound_partial cfg hr ha es gs _ h
  intro i h₁ h₂
  obtain ⟨k1, k2, kx, w1, w2⟩ := hk i h₁ h₂
  obtain ⟨nk, nv⟩ := normExact_noncomplex cfg i es[i] gs[i] (real_not_complex _ k1)
  rw [nk]
  apply operands_exact_R _ _ k1 k2 kx _ _ w1
  intro v hv
  rcases nv v hv with hmem | rfl
  · exact w2 v hmem
  · exact inVal_zero _ k2

/-- how many of the 144 non-complex rows are covered (kernel-evaluated) -/
theorem exact_rows_count :
    ((realKinds.flatMap fun e => realKinds.map fun g => (e, g)).filter
      fun p => !promoLossy64 p.1 p.2).length = 124 := by decide +kernel


-- non-vacuity: an int32 expectation against a float64 model output (5 vs 5.0 matches, 5 vs 5.5 does not); the
-- hypotheses hold for both
def x1e : Tn := ⟨.int true 32, [1], [El.ofRat 5]⟩
def x1g : Tn := ⟨.flt f64, [1], [El.ofRat 5]⟩
def x1h : Tn := ⟨.flt f64, [1], [El.ofRat (11/2)]⟩
example : x1e.kind ∈ realKinds ∧ x1g.kind ∈ realKinds ∧ promoLossy64 x1e.kind x1g.kind = false := by
  decide +kernel
example : WellTypedR x1e ∧ WellTypedR x1g ∧ WellTypedR x1h := by
  refine ⟨?_, ?_, ?_⟩ <;> intro v hv <;> simp [x1e, x1g, x1h] at hv <;> subst hv
  · exact ⟨5, by simp [El.ofRat, zero], by decide⟩
  · exact ⟨by unfold RepSc; decide +kernel, rfl⟩
  · exact ⟨by unfold RepSc; decide +kernel, rfl⟩
example : decideAll dflt [x1e] [x1g] = .isMatch ∧ decideAll dflt [x1e] [x1h] = .value 0 := by decide +kernel

end J2O.C18
