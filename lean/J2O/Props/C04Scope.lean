/-
C04 — symbol identity survives every scoping mechanism (function bodies, sub-graph bodies, reuse of a
function body at several call sites), and the int64 side condition of the dimension chains.

All statements are universally quantified: over every sequence of scope entries / exits and
origin-recording operations, every nesting depth, every binding `M` of the dimension texts, every
shape environment.

* `scopeBegin_sound`          `FunctionScope.begin`: the body's table is true for any shape environment
                              in which the function inputs have the dims of the call arguments
* `call_inputs_wellShaped`    … which holds at a call site when formal input = actual argument (ONNX
                              function call) and the caller's annotations of the arguments are true
* `scoped_origin_sound`       the invariant over ALL runs of the scope machine (`record / enter / sub / exit`):
                              in every live context every recorded origin `(value, axis)` of a dim `s`
                              denotes an axis whose run-time extent is `M s`
* `shared_origin_forces_equal` two dims share an origin in a sound table only under bindings that
                              give them the same value — two different symbols are never conflated
* `scope_reuse_sound`         a body lowered for one call site is correct at ANY other call site whose
                              arguments carry the same dims (what an exact dedup key guarantees) …
* `wildcard_key_reuse_unsound` … and NOT when the key forgets the symbol names: a body traced for
                              `g(x:(B,), x:(B,))` reused for `g(x:(B,), y:(N,))` reads N where B is meant,
                              for EVERY binding with B ≠ N (the table is unsound, the chain of `B` is N)
* `scoped_export_dim_correct` composition with `lower_correct` / `cache_transparent` in the current context
* `labels_consistent_of_meaning`, `arange_shared_label_refuted`   `dim_param` labels: consistent when they
                              mean something; REFUTED for the shared label of dynamic `jnp.arange` lengths
* `eval64_eq_eval`            int64 (wrapping) meaning of a chain = integer meaning whenever no node
                              leaves the int64 range (`fits`, evaluated by the harness on the lattice)
-/
import J2O.Props.C04
import J2O.Model.C04Scope
set_option linter.unusedVariables false

namespace J2O.C04

abbrev Sh := String → Nat → Int

/-! ### `FunctionScope.begin` -/

theorem scopeBegin_sound (M : String → Int) (sh : Sh) (parent : OTable) :
    ∀ (ins : List (String × Dims)) (child : OTable), TableSound M sh child →
      (∀ p ∈ ins, DimsTrue M sh p.1 p.2) → TableSound M sh (OTable.scopeBegin parent ins child)
  | [], child, hc, _ => hc
  | (fin, dims) :: r, child, hc, h => by
    simp only [OTable.scopeBegin]
    exact scopeBegin_sound M sh parent r _
      (scopeInput_sound M sh parent fin dims child hc (h (fin, dims) (List.mem_cons_self ..)))
      (fun p hp => h p (List.mem_cons_of_mem _ hp))

/-- a call site: per function input `(f_in_i, actual argument, dims the caller annotates on it)` -/
abbrev Site := List (String × String × Dims)

def Site.ins (s : Site) : List (String × Dims) := s.map fun x => (x.1, x.2.2)

/-- ONNX function call: inside the body the formal input IS the actual argument. If the caller's
    annotations of the arguments are true (C08's subject; checked by the harness against ONNX
    Runtime), the function inputs have those dims. -/
theorem call_inputs_wellShaped (M : String → Int) (shP shC : Sh) (site : Site)
    (hcall : ∀ x ∈ site, ∀ ax, shC x.1 ax = shP x.2.1 ax)
    (hann : ∀ x ∈ site, DimsTrue M shP x.2.1 x.2.2) :
    ∀ p ∈ site.ins, DimsTrue M shC p.1 p.2 := by
  intro p hp
  simp only [Site.ins, List.mem_map] at hp
  obtain ⟨x, hx, rfl⟩ := hp
  intro k ax hk
  rw [hcall x hx ax]
  exact hann x hx k ax hk

/-! ### The scope machine -/

def StackSound (M : String → Int) : List Sh → Stack → Prop
  | [], [] => True
  | sh :: shs, t :: ts => TableSound M sh t ∧ StackSound M shs ts
  | _, _ => False

/-- shape environments of the live contexts; `n` = environment of the context an `enter`/`sub` opens -/
def stepSh : List Sh → SOp → Sh → List Sh
  | [], _, _ => []
  | sh :: r, .record _ _, _ => sh :: r
  | sh :: r, .enter _, n => n :: sh :: r
  | sh :: r, .sub, n => n :: sh :: r
  | _ :: r, .exit, _ => r

/-- premise of one step. `record`: the tensor has the annotated extents; `enter`: the function inputs
    have the dims of the call arguments (`call_inputs_wellShaped`); `sub`: the values the parent
    reads its dims from are visible, unchanged, inside the sub-graph. -/
def SOp.Ok (M : String → Int) : List Sh → Stack → SOp → Sh → Prop
  | sh :: _, _ :: _, .record v dims, _ => DimsTrue M sh v dims
  | _ :: _, _ :: _, .enter ins, n => ∀ p ∈ ins, DimsTrue M n p.1 p.2
  | shP :: _, t :: _, .sub, n => ∀ k o, (k, o) ∈ t → n o.v o.axis = shP o.v o.axis
  | _, _, _, _ => True

theorem step_sound (M : String → Int) : ∀ (shs : List Sh) (st : Stack) (op : SOp) (n : Sh),
    StackSound M shs st → op.Ok M shs st n → StackSound M (stepSh shs op n) (st.step op)
  | [], [], op, n, _, _ => by cases op <;> simp [stepSh, Stack.step, StackSound]
  | [], _ :: _, _, _, h, _ => by simp [StackSound] at h
  | _ :: _, [], _, _, h, _ => by simp [StackSound] at h
  | sh :: shs, t :: ts, .record v dims, n, h, hop => by
    simp only [stepSh, Stack.step, StackSound]
    exact ⟨recordDims_sound M sh v dims t h.1 hop, h.2⟩
  | sh :: shs, t :: ts, .enter ins, n, h, hop => by
    simp only [stepSh, Stack.step, StackSound]
    exact ⟨scopeBegin_sound M n t ins [] (tableSound_nil M n) hop, h.1, h.2⟩
  | sh :: shs, t :: ts, .sub, n, h, hop => by
    simp only [stepSh, Stack.step, StackSound]
    refine ⟨?_, h.1, h.2⟩
    intro k o hm
    rw [hop k o hm]
    exact h.1 k o hm
  | sh :: shs, t :: ts, .exit, n, h, _ => by
    simp only [stepSh, Stack.step]
    exact h.2

def runSh : List Sh → List (SOp × Sh) → List Sh
  | s, [] => s
  | s, (op, n) :: r => runSh (stepSh s op n) r

def RunOk (M : String → Int) : List Sh → Stack → List (SOp × Sh) → Prop
  | _, _, [] => True
  | shs, st, (op, n) :: r => op.Ok M shs st n ∧ RunOk M (stepSh shs op n) (st.step op) r

/-- **Origin invariant over scopes.** For every sequence of scope entries, exits and recordings
    (any nesting, any length) whose steps meet their premises, every table of every live context is
    true at run time in that context's shape environment. -/
theorem scoped_origin_sound (M : String → Int) : ∀ (ops : List (SOp × Sh)) (shs : List Sh) (st : Stack),
    StackSound M shs st → RunOk M shs st ops →
      StackSound M (runSh shs ops) (Stack.run st (ops.map (·.1)))
  | [], shs, st, h, _ => h
  | (op, n) :: r, shs, st, h, hr => by
    simp only [runSh, List.map_cons, Stack.run]
    exact scoped_origin_sound M r _ _ (step_sound M shs st op n h hr.1) hr.2

/-- **No conflation.** In a sound table two dims can share an origin only under bindings that give
    them the same value: whenever `M k₁ ≠ M k₂` their origins are different tensors/axes. -/
theorem shared_origin_forces_equal (M : String → Int) (sh : Sh) (t : OTable) (ht : TableSound M sh t)
    (k₁ k₂ : String) (o : Origin) (h₁ : (k₁, o) ∈ t) (h₂ : (k₂, o) ∈ t) : M k₁ = M k₂ := by
  rw [← ht k₁ o h₁, ← ht k₂ o h₂]

/-! ### Reuse of one body at several call sites -/

/-- **Reuse under an exact key.** The table a body was lowered against at its first call site is
    true at ANY call site (shape environment `shC'`, arguments `site'`) whose arguments carry the
    same dims per input — which is what a dedup key containing the symbolic shapes guarantees. -/
theorem scope_reuse_sound (M : String → Int) (parent : OTable) (ins : List (String × Dims))
    (shP' shC' : Sh) (site' : Site) (hkey : site'.ins = ins)
    (hcall : ∀ x ∈ site', ∀ ax, shC' x.1 ax = shP' x.2.1 ax)
    (hann : ∀ x ∈ site', DimsTrue M shP' x.2.1 x.2.2) :
    TableSound M shC' (bodyTable parent ins) := by
  unfold bodyTable
  refine scopeBegin_sound M shC' parent ins [] (tableSound_nil M shC') ?_
  rw [← hkey]
  exact call_inputs_wellShaped M shP' shC' site' hcall hann

/-- the first call site `g(x, x)` with `x : (B,)`, seen from a top graph with inputs `x : (B,)`, `y : (N,)` -/
def exParent : OTable := [("N", ⟨"in_1", 0⟩), ("B", ⟨"in_0", 0⟩)]
def exInsXX : List (String × Dims) := [("f_in_0", [(some "B", 0)]), ("f_in_1", [(some "B", 0)])]
/-- the second call site `g(x, y)` -/
def exSiteXY : Site := [("f_in_0", "in_0", [(some "B", 0)]), ("f_in_1", "in_1", [(some "N", 0)])]
/-- run-time shapes: top graph `in_0 : (b,)`, `in_1 : (n,)`; inside the call `g(x, y)`: `f_in_0 = x`, `f_in_1 = y` -/
def exShTop (b n : Int) : Sh := fun v _ => if v = "in_0" then b else n
def exShXY (b n : Int) : Sh := fun v _ => if v = "f_in_0" then b else n
/-- the dimension expression `B` -/
def exB : Expr := .mk "B" (.cons "term*coeff:(B, 1)" "B" (.mul "factor^power:(B, 1)" (.var "B") 1 .one) 1 .nil)

-- non-vacuity of `scope_reuse_sound`: the site g(x, y) against a body traced for (B,),(N,)
example : exSiteXY.ins = [("f_in_0", [(some "B", 0)]), ("f_in_1", [(some "N", 0)])] := by decide
example : ∀ x ∈ exSiteXY, ∀ ax, exShXY 3 5 x.1 ax = exShTop 3 5 x.2.1 ax := by
  intro x hx ax
  simp only [exSiteXY, List.mem_cons, List.not_mem_nil, or_false] at hx
  rcases hx with rfl | rfl <;> simp [exShXY, exShTop]
example : ∀ x ∈ exSiteXY, DimsTrue (exSigma 3 5) (exShTop 3 5) x.2.1 x.2.2 := by
  intro x hx k ax hk
  simp only [exSiteXY, List.mem_cons, List.not_mem_nil, or_false] at hx
  rcases hx with rfl | rfl <;>
    (simp only [List.mem_cons, List.not_mem_nil, or_false, Prod.mk.injEq, Option.some.injEq] at hk
     obtain ⟨rfl, rfl⟩ := hk; decide)
example : (bodyTable exParent exSiteXY.ins).lookup "N" = some ⟨"f_in_1", 0⟩ := by decide

/-- the body traced at `g(x, x)` binds `B` to the SECOND input (later inputs overwrite) -/
theorem body_xx_reads_second_input : (bodyTable exParent exInsXX).org "B" = ("f_in_1", 0) := by decide

/-- **Reuse under a wildcard key is unsound.** A key that only tells static from dynamic extents
    identifies the sites `g(x, x)` and `g(x, y)` (`(?,),(?,)`). The body traced at `g(x, x)`, used at
    `g(x, y)`: its table is false and the chain it emits for `B` evaluates to `N`, for EVERY binding
    with `B ≠ N` (and is right exactly when `B = N`) — the hypothesis `hkey` of `scope_reuse_sound`
    is needed. -/
theorem wildcard_key_reuse_unsound (b n : Int) (h : b ≠ n) :
    ¬ TableSound (exSigma b n) (exShXY b n) (bodyTable exParent exInsXX)
    ∧ (lowerExpr (bodyTable exParent exInsXX).org exB).eval (exShXY b n) = n
    ∧ exB.evalJax (exSigma b n) = b := by
  refine ⟨?_, ?_, ?_⟩
  · intro ht
    have := ht "B" ⟨"f_in_1", 0⟩ (by decide)
    simp [exShXY, exSigma] at this
    exact h this.symm
  · simp [lowerExpr, lowerTC, lowerTermsAcc, lowerTermAcc, lowerFactor, withPow, withCoeff, exB,
      body_xx_reads_second_input, IntProg.eval, exShXY]
  · simp [exB, Expr.evalJax, Expr.evalWith, Terms.evalWith, Term.evalWith, Factor.evalWith, exSigma, Int.pow_succ]

example : (3 : Int) ≠ 5 := by decide

/-! ### Composition in the current context -/

/-- after ANY run of the scope machine that met its premises: in the current context (table `t`,
    shapes `sh`) the memoised chains of checked keys evaluate to the JAX values, for every binding. -/
theorem scoped_export_dim_correct (M σ : String → Int) (ops : List (SOp × Sh)) (sh : Sh) (shs : List Sh)
    (t : OTable) (ts : Stack) (es : List Expr)
    (hrun : RunOk M [fun _ _ => 0] [[]] ops)
    (hsh : runSh [fun _ _ => 0] ops = sh :: shs)
    (hst : Stack.run [[]] (ops.map (·.1)) = t :: ts)
    (hv : ∀ e ∈ es, ∀ n ∈ e.vars, M n = σ n ∧ t.lookup n ≠ none)
    (hk : keysConsistent es = true) :
    (lowerCallC t.org es []).1.map (·.eval sh) = es.map (·.evalJax σ) := by
  have h0 : StackSound M [fun _ _ => 0] [[]] := ⟨tableSound_nil M _, trivial⟩
  have hs := scoped_origin_sound M ops _ _ h0 hrun
  rw [hsh, hst] at hs
  have ho : ∀ e ∈ es, OrgSound t.org sh σ e.vars :=
    fun e he => orgSound_of_table M sh σ t hs.1 e.vars (hv e he)
  rw [cache_transparent _ sh σ es hk ho]
  apply List.map_congr_left
  intro e he
  exact lower_correct _ sh σ e (ho e he)

-- non-vacuity: top graph records x:(B,), y:(N,); enter g(x, y); inside, `B` is read from f_in_0
def exRun : List (SOp × Sh) :=
  [(.record "in_0" [(some "B", 0)], exShTop 3 5), (.record "in_1" [(some "N", 0)], exShTop 3 5),
   (.enter exSiteXY.ins, exShXY 3 5)]
example : Stack.run [[]] (exRun.map (·.1)) =
    [[("N", ⟨"f_in_1", 0⟩), ("B", ⟨"f_in_0", 0⟩)], [("N", ⟨"in_1", 0⟩), ("B", ⟨"in_0", 0⟩)]] := by decide
example : (lowerExpr (bodyTable exParent exSiteXY.ins).org exB).eval (exShXY 3 5) = 3 := by decide

/-! ### Annotation labels (`dim_param`)

ONNX reads dims that carry the same `dim_param` as ONE extent (ONNX Runtime plans buffers on it). -/

/-- `(label, run-time extent)` of every annotated dim of a model at one binding -/
def LabelsConsistent (ann : List (String × Int)) : Prop :=
  ∀ l a b, (l, a) ∈ ann → (l, b) ∈ ann → a = b

/-- labels that MEAN something (each annotated extent is the value of its label under the binding —
    what a sound origin table gives) are consistent, for every binding -/
theorem labels_consistent_of_meaning (M : String → Int) (ann : List (String × Int))
    (h : ∀ l a, (l, a) ∈ ann → a = M l) : LabelsConsistent ann := by
  intro l a b ha hb
  rw [h l a ha, h l b hb]

example : ∀ l a, (l, a) ∈ [("B", (3 : Int)), ("N", 5), ("B", 3)] → a = exSigma 3 5 l := by
  intro l a h
  simp only [List.mem_cons, List.not_mem_nil, or_false, Prod.mk.injEq] at h
  rcases h with ⟨rfl, rfl⟩ | ⟨rfl, rfl⟩ | ⟨rfl, rfl⟩ <;> decide

/-- REFUTED on the unchanged /repo (finding F-C04-arange-label): "the annotations of every export are
    consistent for every binding". `jnp.arange(3*B)` and `jnp.arange(B + 2*N)` in one graph both get the
    label `JAX2ONNX_DYNAMIC_DIM_SENTINEL`; the annotation is inconsistent for EVERY binding with
    `3*B ≠ B + 2*N` (ONNX Runtime rejects the model at B = 2, N = 1). -/
theorem arange_shared_label_refuted (b n : Int) (h : 3 * b ≠ b + 2 * n) :
    ¬ LabelsConsistent [("JAX2ONNX_DYNAMIC_DIM_SENTINEL", 3 * b), ("JAX2ONNX_DYNAMIC_DIM_SENTINEL", b + 2 * n)] := by
  intro hc
  exact h (hc _ _ _ (List.mem_cons_self ..) (List.mem_cons_of_mem _ (List.mem_cons_self ..)))

example : (3 : Int) * 2 ≠ 2 + 2 * 1 := by decide

/-! ### int64 side condition -/

theorem wrap64_of_in (x : Int) (h : inInt64 x = true) : wrap64 x = x := by
  simp only [inInt64, Bool.and_eq_true, decide_eq_true_eq] at h
  unfold wrap64
  omega

/-- **No-overflow side condition, explicit.** If no node of the chain leaves the int64 range when
    computed over the integers (`fits`), ONNX's wrapping int64 evaluation is the integer evaluation
    the other theorems speak about. -/
theorem eval64_eq_eval (sh : Sh) : ∀ (p : IntProg), p.fits sh = true → p.eval64 sh = p.eval sh
  | .const k, h => wrap64_of_in k h
  | .shape v ax, h => wrap64_of_in _ h
  | .add a b, h => by
    simp only [IntProg.fits, Bool.and_eq_true] at h
    simp only [IntProg.eval64, eval64_eq_eval sh a h.1.1, eval64_eq_eval sh b h.1.2]
    exact wrap64_of_in _ h.2
  | .sub a b, h => by
    simp only [IntProg.fits, Bool.and_eq_true] at h
    simp only [IntProg.eval64, eval64_eq_eval sh a h.1.1, eval64_eq_eval sh b h.1.2]
    exact wrap64_of_in _ h.2
  | .mul a b, h => by
    simp only [IntProg.fits, Bool.and_eq_true] at h
    simp only [IntProg.eval64, eval64_eq_eval sh a h.1.1, eval64_eq_eval sh b h.1.2]
    exact wrap64_of_in _ h.2
  | .pow a b, h => by
    simp only [IntProg.fits, Bool.and_eq_true] at h
    simp only [IntProg.eval64, eval64_eq_eval sh a h.1.1, eval64_eq_eval sh b h.1.2]
    exact wrap64_of_in _ h.2
  | .div a b, h => by
    simp only [IntProg.fits, Bool.and_eq_true] at h
    simp only [IntProg.eval64, eval64_eq_eval sh a h.1.1, eval64_eq_eval sh b h.1.2]
    exact wrap64_of_in _ h.2
  | .mod a b, h => by
    simp only [IntProg.fits, Bool.and_eq_true] at h
    simp only [IntProg.eval64, eval64_eq_eval sh a h.1.1, eval64_eq_eval sh b h.1.2]
    exact wrap64_of_in _ h.2
  | .max a b, h => by
    simp only [IntProg.fits, Bool.and_eq_true] at h
    simp only [IntProg.eval64, eval64_eq_eval sh a h.1.1, eval64_eq_eval sh b h.1.2]
    exact wrap64_of_in _ h.2
  | .min a b, h => by
    simp only [IntProg.fits, Bool.and_eq_true] at h
    simp only [IntProg.eval64, eval64_eq_eval sh a h.1.1, eval64_eq_eval sh b h.1.2]
    exact wrap64_of_in _ h.2

-- non-vacuity: the chain of `(B - 5)//2 + 10` fits at B = 2; a 2^62 * 4 product does not
example : (lowerExpr exOrg exFloordiv).fits (exShapes 2 1) = true := by decide
example : (IntProg.mul (.const 4611686018427387904) (.const 4)).fits (fun _ _ => 0) = false := by decide
example : (IntProg.mul (.const 4611686018427387904) (.const 4)).eval64 (fun _ _ => 0) = 0 := by decide

end J2O.C04
