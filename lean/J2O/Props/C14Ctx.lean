/-
C14 — ContextVar reset discipline: property theorems.

`contextvar_restored`            every disciplined program, every nesting, every exception point:
                                 the variable after = the variable before
`contextvar_history_independent` what a conversion reads of the variable (and whether it raises) is
                                 the same after every history of disciplined conversions, failed ones
                                 included
`bare_restored_partial`          without `finally` the restore still happens when nothing raises
                                 (why a test suite without failing bodies cannot see the difference)
`bare_restore_refuted`           … and does not when the body raises (the class of seeded C14-2 / C14-4)
`bare_history_refuted`           a later conversion then reads a different value (→ function inlined)
-/
import J2O.Model.C14Ctx

namespace J2O.C14Ctx

/-- **ContextVar restored.** For every program in which each write is bracketed by try/finally
    (`withToken` = token/reset, `withSaved` = get/set-back), for every nesting depth, every handler
    structure and every choice of raising steps, the variable is left exactly as it was found. -/
theorem contextvar_restored (inj : Nat → Bool) (p : Prog) (σ : Val) (h : disciplined p = true) :
    (exec inj p σ).val = σ := by
  induction p generalizing σ with
  | step k => rfl
  | read => rfl
  | seq p q ihp ihq =>
    simp only [disciplined, Bool.and_eq_true] at h
    simp only [exec]
    split
    · exact ihp σ h.1
    · simp only [ihp σ h.1]; exact ihq σ h.2
  | withToken n b _ => rfl
  | withSaved n b _ => rfl
  | noFinally n b _ => simp [disciplined] at h
  | handle p q ihp ihq =>
    simp only [disciplined, Bool.and_eq_true] at h
    simp only [exec]
    split
    · simp only [ihp σ h.1]; exact ihq σ h.2
    · exact ihp σ h.1
  | assign n => simp [disciplined] at h

/-- non-trivial instance: a build of `Outer` whose nested build of `Alpha` raises at step 1, the
    failure is handled at the top, a second nested build follows; three reads see three values. -/
example :
    let p := Prog.handle (.withToken "Outer" (.seq .read (.seq (.withSaved "Alpha" (.seq .read (.step 1))) .read)))
                        (.seq (.withToken "Beta" .read) .read)
    disciplined p = true ∧
    exec (fun k => k == 1) p ["X"] = ⟨false, ["X"], [["Outer", "X"], ["Alpha", "Outer", "X"], ["Beta", "X"], ["X"]]⟩ := by
  decide

theorem afterHist_disciplined (inj : Nat → Bool) (hist : List Prog) (σ : Val)
    (h : ∀ p ∈ hist, disciplined p = true) : afterHist inj hist σ = σ := by
  induction hist generalizing σ with
  | nil => rfl
  | cons p hist ih =>
    show afterHist inj hist (exec inj p σ).val = σ
    rw [contextvar_restored inj p σ (h p (List.mem_cons_self ..))]
    exact ih σ (fun q hq => h q (List.mem_cons_of_mem _ hq))

/-- **History independence.** After any history of disciplined conversions (any of which may have
    failed at any point), a conversion behaves — raises, reads, leaves — exactly as from the initial
    state. -/
theorem contextvar_history_independent (inj : Nat → Bool) (hist : List Prog) (p : Prog) (σ : Val)
    (h : ∀ q ∈ hist, disciplined q = true) :
    exec inj p (afterHist inj hist σ) = exec inj p σ := by
  rw [afterHist_disciplined inj hist σ h]

example :
    let fails := Prog.withToken "SBlock" (.seq .read (.step 7))
    let good := Prog.withToken "SBlock" .read
    (exec (fun k => k == 7) fails []).raised = true ∧
    exec (fun k => k == 7) good (afterHist (fun k => k == 7) [good, fails] []) = ⟨false, [], [["SBlock"]]⟩ := by
  decide

/-- **Partial** (what is missing: raising bodies). Without `finally` the variable is still restored
    when no step raises — on every successful path `noFinally` and `withToken` agree. -/
theorem bare_restored_partial (p : Prog) (σ : Val) (h : noAssign p = true) :
    (exec (fun _ => false) p σ).val = σ ∧ (exec (fun _ => false) p σ).raised = false := by
  induction p generalizing σ with
  | step k => exact ⟨rfl, rfl⟩
  | read => exact ⟨rfl, rfl⟩
  | seq p q ihp ihq =>
    simp only [noAssign, Bool.and_eq_true] at h
    have hp := ihp σ h.1
    simp only [exec, hp.2, Bool.false_eq_true, if_false, hp.1]
    exact ihq σ h.2
  | withToken n b ih =>
    simp only [noAssign] at h
    exact ⟨rfl, (ih (n :: σ) h).2⟩
  | withSaved n b ih =>
    simp only [noAssign] at h
    exact ⟨rfl, (ih (n :: σ) h).2⟩
  | noFinally n b ih =>
    simp only [noAssign] at h
    have hb := ih (n :: σ) h
    simp [exec, hb.2]
  | handle p q ihp _ =>
    simp only [noAssign, Bool.and_eq_true] at h
    have hp := ihp σ h.1
    simp [exec, hp.2, hp.1]
  | assign n => simp [noAssign] at h

example : noAssign (.noFinally "F" (.seq .read (.step 0))) = true ∧
    exec (fun _ => false) (.noFinally "F" (.seq .read (.step 0))) ["G"] = ⟨false, ["G"], [["F", "G"]]⟩ := by decide

/-- **Refuted.** `tok = set(..); body; reset(tok)` does not restore the variable for every
    exception point. -/
theorem bare_restore_refuted :
    ¬ (∀ (inj : Nat → Bool) (p : Prog) (σ : Val), noAssign p = true → (exec inj p σ).val = σ) := by
  intro h
  have := h (fun _ => true) (.noFinally "F" (.step 0)) [] rfl
  revert this
  decide

/-- **Refuted.** … and a later conversion reads the stale value. -/
theorem bare_history_refuted :
    ¬ (∀ (inj : Nat → Bool) (hist : List Prog) (p : Prog) (σ : Val), (∀ q ∈ hist, noAssign q = true) →
        exec inj p (afterHist inj hist σ) = exec inj p σ) := by
  intro h
  have := h (fun k => k == 0) [.noFinally "F" (.step 0)] .read [] (by intro q hq; simp at hq; subst hq; rfl)
  revert this
  decide

/-! ## Scratch variables (`_ONNX_FN_HITS`) -/

/-- A conversion that first clears a scratch variable (`_consume_onnx_function_hits()` at the start of
    `to_onnx`), then runs any body that reads and writes it, raising or not. -/
def clearedConv {σ α : Type} (init : σ) (body : σ → α × σ) (_incoming : σ) : α × σ := body init

/-- **Scratch cleared first ⇒ independent of what earlier conversions left.** For every history of such
    conversions (each leaving anything at all, e.g. hits of a failed conversion), the outcome of the next
    one is the outcome from the initial value. -/
theorem scratch_cleared_independent {σ α : Type} (init : σ) (body : σ → α × σ)
    (hist : List (σ → α × σ)) (s : σ) :
    (clearedConv init body (hist.foldl (fun s b => (clearedConv init b s).2) s)).1 = (body init).1 := rfl

example : (clearedConv ([] : List String) (fun h => (h.length, "Block" :: h)) ["stale_hit"]).1 = 0 := by decide

end J2O.C14Ctx
