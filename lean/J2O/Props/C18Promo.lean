/-
C18 — the cross-dtype case at full strength on the regenerated promotion table (round 2).

`allclose_sound_partial` needs `NoLossyCast` (numpy's promotion changes no value).  On the rows of the
regenerated table (`J2O.Gen.C18.promoTable`, proved equal to the model's rules in GenProps/C18.lean) where the
promotion stays inside the integer dtypes (`promoExactInt`: 73 of the 81 bool/integer rows — every pair except
uint64 against a signed integer), that hypothesis is PROVED for all well-typed values:

* `operands_exact_int`            `_comparison_operands` changes no value on such a row
* `allclose_sound_int_promotion`  FULL STRENGTH: match ⇒ Agrees for every list of outputs whose (expected, got)
                                  dtypes form such rows — e.g. an int64 model output against an int32 expectation
                                  (x + 2³² is a mismatch), uint8 against int16, bool against int32 … no hypothesis on
                                  the values beyond being values of their dtype
* `promotion_lossy_rows_refuted`  explicit refutations on the rows where numpy's promotion is NOT exact:
                                  uint64 against int64 (an integer row outside `promoExactInt`), int64 against
                                  float64, float32 against int64 — match although the outputs do not agree
* `narrowing_would_be_unsound`    the same int32/int64 row under a cast of the model output DOWN to the expected
                                  dtype (`decideAllOld`, what a `same_kind` guard does) matches x + 2³²

Not proved at full strength: rows that bring an operand to a FLOAT dtype exactly (int8/16/32 → float, float16 →
float32 → float64, float → complex): that needs exactness of `roundFmt` on representable values (see notes).
-/
import J2O.Lemmas.C18Promo
import J2O.Props.C18
set_option linter.unusedSimpArgs false
set_option linter.unusedVariables false

namespace J2O.C18

/-- on an exact integer row `_comparison_operands` returns both value lists unchanged -/
theorem operands_exact_int (ek gk : Kind) (hek : ek ∈ stdKinds) (hgk : gk ∈ stdKinds)
    (hx : promoExactInt ek gk = true) (evals gvals : List El)
    (he : ∀ v ∈ evals, InKind ek v) (hg : ∀ v ∈ gvals, InKind gk v) :
    operands ek evals gk gvals = some (evals, gvals) := by
  have hemb := exact_rows_embed ek hek gk hgk hx
  unfold operands
  by_cases h1 : gk = ek
  · simp [h1]
  · simp only [h1, if_false]
    by_cases h2 : canCastSafe gk ek = true
    · simp only [h2, if_true]
      have hk : operandKinds ek gk = (ek, ek) := by simp [operandKinds, h1, h2]
      rw [hk] at hemb
      rw [castList_exact_std gk ek hek hemb.2 gvals hg]
      rfl
    · simp only [h2]
      have hk : operandKinds ek gk = (resultKind ek gk, resultKind ek gk) := by
        simp [operandKinds, h1, h2]
      rw [hk] at hemb
      have hc := resultKind_std ek hek gk hgk
      simp only [Bool.false_eq_true, if_false]
      rw [castList_exact_std ek _ hc hemb.1 evals he, castList_exact_std gk _ hc hemb.2 gvals hg]

/-- **Soundness, full strength, exact integer rows of the promotion table.** -/
theorem allclose_sound_int_promotion (cfg : Cfg) (hr : 0 ≤ cfg.rtol) (ha : 0 ≤ cfg.atol)
    (es gs : List Tn)
    (hk : ∀ i (h₁ : i < es.length) (h₂ : i < gs.length),
      es[i].kind ∈ stdKinds ∧ gs[i].kind ∈ stdKinds ∧ promoExactInt es[i].kind gs[i].kind = true ∧
        WellTyped es[i] ∧ WellTyped gs[i])
    (h : decideAll cfg es gs = .isMatch) : Agrees cfg es gs := by
  apply allclose_sound_partial cfg hr ha es gs _ h
  intro i h₁ h₂
  obtain ⟨k1, k2, kx, w1, w2⟩ := hk i h₁ h₂
  have hint : es[i].kind.isIntLike = true ∧ gs[i].kind.isIntLike = true := by
    simp only [promoExactInt, Bool.and_eq_true] at kx
    exact ⟨kx.1.1, kx.1.2⟩
  have hnc : es[i].kind.isComplex = false := by
    cases hkk : es[i].kind <;> simp [hkk, Kind.isIntLike, Kind.isComplex] at hint ⊢
  obtain ⟨nk, nv⟩ := normExact_noncomplex cfg i es[i] gs[i] hnc
  rw [nk]
  apply operands_exact_int _ _ k1 k2 kx _ _ w1
  intro v hv
  rcases nv v hv with hmem | rfl
  · exact w2 v hmem
  · exact inKind_zero _ k2 hint.2

/-! ### the rows where numpy's promotion is not exact: explicit refutations -/

def u64e : Tn := ⟨u64, [1], [El.ofRat (2 ^ 63)]⟩
def i64g : Tn := ⟨i64, [1], [El.ofRat (2 ^ 63 - 1)]⟩
/-- expected int64 [2⁵³+1], model output float32 [2⁵³] (`result_type(int64, float32)` = float64) -/
def r3e : Tn := ⟨i64, [1], [El.ofRat (2 ^ 53 + 1)]⟩
def r3g : Tn := ⟨.flt f32, [1], [El.ofRat (2 ^ 53)]⟩

theorem promotion_lossy_rows_refuted :
    -- uint64 against int64: an integer row that is not `promoExactInt`
    (promoExactInt u64 i64 = false ∧ decideAll exact0 [u64e] [i64g] = .isMatch ∧
        agreesB exact0 [u64e] [i64g] = false) ∧
    -- float64 against int64, int64 against uint64 (r1, r2 of Props/C18.lean), int64 against float32
    (promoLossy64 (.flt f64) i64 = true ∧ decideAll exact0 [r1e] [r1g] = .isMatch ∧
        agreesB exact0 [r1e] [r1g] = false) ∧
    (promoLossy64 i64 (.flt f32) = true ∧ decideAll exact0 [r3e] [r3g] = .isMatch ∧
        agreesB exact0 [r3e] [r3g] = false) := by
  decide +kernel

/-- the hypotheses of `allclose_sound_int_promotion` cannot be weakened to "both integer": the uint64/int64
    witness is well typed -/
theorem int_promotion_needs_exact_row :
    ¬ (∀ (cfg : Cfg) (es gs : List Tn), 0 ≤ cfg.rtol → 0 ≤ cfg.atol →
        (∀ i (h₁ : i < es.length) (h₂ : i < gs.length),
          es[i].kind.isIntLike = true ∧ gs[i].kind.isIntLike = true) →
        decideAll cfg es gs = .isMatch → Agrees cfg es gs) := by
  intro h
  have hm := h exact0 [u64e] [i64g] (by decide +kernel) (by decide +kernel)
    (by intro i h₁ h₂; simp at h₁; subst h₁; exact ⟨rfl, rfl⟩) promotion_lossy_rows_refuted.1.2.1
  have := (agreesB_iff exact0 [u64e] [i64g]).mpr hm
  rw [promotion_lossy_rows_refuted.1.2.2] at this
  exact absurd this (by simp)

/-- the int32/int64 row: exact under the code's promotion, unsound under a narrowing cast of the model output
    (`decideAllOld` = cast to the expected dtype, what `can_cast(…, "same_kind")` would allow) -/
theorem narrowing_would_be_unsound :
    promoExactInt i32 i64 = true ∧ decideAllOld dflt [w1e] [w1g] = .isMatch ∧
      decideAll dflt [w1e] [w1g] = .nonfloat 0 ∧ agreesB dflt [w1e] [w1g] = false := by
  decide +kernel

-- non-vacuity of `allclose_sound_int_promotion`: an int64 output equal to the int32 expectation matches, the
-- hypotheses hold for it (and for the x + 2³² witness, which is therefore reported as a mismatch)
example : decideAll dflt [w1e] [⟨i64, [2], [El.ofRat 5, El.ofRat 7]⟩] = .isMatch := by decide +kernel
example : i32 ∈ stdKinds ∧ i64 ∈ stdKinds ∧ promoExactInt i32 i64 = true := by decide +kernel
example : WellTyped w1e ∧ WellTyped w1g := by
  constructor <;> intro v hv <;> simp [w1e, w1g] at hv
  · rcases hv with rfl | rfl
    · exact ⟨5, by simp [El.ofRat, zero], by decide⟩
    · exact ⟨7, by simp [El.ofRat, zero], by decide⟩
  · rcases hv with rfl | rfl
    · exact ⟨5 + 2 ^ 32, by simp [El.ofRat, zero]; norm_cast, by decide⟩
    · exact ⟨7, by simp [El.ofRat, zero], by decide⟩
example : operands i32 w1e.vals i64 w1g.vals = some (w1e.vals, w1g.vals) := by decide +kernel

end J2O.C18
