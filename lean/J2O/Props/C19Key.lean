/-
C19 — property theorems about the capture key of a FunctionPlugin call site (`J2O.Model.C19Key`).

"No keyword argument of an `@onnx_function` call is silently ignored by function sharing": two call sites may
share one traced body only when everything the body depends on is the same.

* `capture_key_baked`            : equal keys ⇒ equal baked-in content (all classes, no side condition)
* `capture_key_class`            : equal keys ⇒ same class (traced / static scalar / array constant / object)
* `capture_key_injective`        : equal keys ⇒ equal values (an object has one type: `Coherent`)
* `different_values_different_keys` : the contrapositive the brief asks for
* `capture_items_injective`, `function_key_injective` : the same for whole keyword lists / whole call sites
* `bodyFor_own`, `registry_own_arguments` : in ANY sequence of call sites every site gets the body traced for
                                   exactly its own callee, operand signature and keyword values
* `type_name_key_not_injective`, `type_name_registry_reuses_wrong_body` : the alternative that keys an object by
                                   its type name (`("static", type(value).__name__)`) is REFUTED
-/
import J2O.Model.C19Key

namespace J2O.C19.Key

/-- Equal capture keys: the function body depends on the same thing. -/
theorem capture_key_baked (v w : Val) (h : captureKey v = captureKey w) : baked v = baked w := by
  cases v with
  | traced d s => cases w <;> simp_all [captureKey, baked]
  | data d s b => cases w <;> simp_all [captureKey, baked]
  | object t s p => cases w <;> simp_all [captureKey, baked]

example : captureKey (.data 3 [2] [1, 0, 2, 0]) = captureKey (.data 3 [2] [1, 0, 2, 0]) := rfl

/-- Equal capture keys: same class of value. -/
theorem capture_key_class (v w : Val) (h : captureKey v = captureKey w) : classify v = classify w := by
  cases v with
  | traced d s => cases w <;> simp_all [captureKey, classify]
  | data d s b =>
    cases w with
    | traced d' s' => simp [captureKey] at h
    | data d' s' b' =>
      simp only [captureKey, Key.const.injEq] at h
      obtain ⟨hs, _, _⟩ := h
      subst hs
      cases s <;> rfl
    | object t' s' p' => simp [captureKey] at h
  | object t s p => cases w <;> simp_all [captureKey, classify]

example : classify (.data 1 [] [5]) = .staticScalar ∧ classify (.data 1 [2] [5, 6]) = .arrayConst ∧
    classify (.object 4 [] [0]) = .object ∧ classify (.traced 1 [2, 3]) = .traced := by decide

/-- **The capture key is injective**: two keyword values with the same key are the same value. -/
theorem capture_key_injective (v w : Val) (hc : Coherent v w) (h : captureKey v = captureKey w) : v = w := by
  cases v with
  | traced d s => cases w <;> simp_all [captureKey]
  | data d s b => cases w <;> simp_all [captureKey]
  | object t s p =>
    cases w with
    | traced d' s' => simp [captureKey] at h
    | data d' s' b' => simp [captureKey] at h
    | object t' s' p' =>
      simp only [captureKey, Key.const.injEq, true_and] at h
      obtain ⟨h1, h3⟩ := h
      have ht : t = t' := hc t s p t' s' p' rfl rfl h3
      subst h1 h3 ht; rfl

/-- hypotheses are satisfiable: two different callables of the same type are coherent and get different keys -/
example : Coherent (.object 7 [] [1]) (.object 7 [] [2]) ∧
    captureKey (.object 7 [] [1]) ≠ captureKey (.object 7 [] [2]) := by
  refine ⟨?_, by decide⟩
  intro t s p t' s' p' h1 h2 hp
  cases h1; cases h2; rfl

/-- Two calls whose keyword values differ — in any class — get different keys. -/
theorem different_values_different_keys (v w : Val) (hc : Coherent v w) (hne : v ≠ w) :
    captureKey v ≠ captureKey w :=
  fun h => hne (capture_key_injective v w hc h)

example : captureKey (.data 0 [] [2, 0]) ≠ captureKey (.data 0 [] [3, 0]) := by decide

/-- Pairwise coherence of two keyword lists. -/
def CoherentKws (k1 k2 : List (Nat × Val)) : Prop := ∀ a ∈ k1, ∀ b ∈ k2, Coherent a.2 b.2

theorem capture_items_injective (k1 k2 : List (Nat × Val)) (hc : CoherentKws k1 k2)
    (h : captureItems captureKey k1 = captureItems captureKey k2) : k1 = k2 := by
  induction k1 generalizing k2 with
  | nil =>
    cases k2 with
    | nil => rfl
    | cons b bs => simp [captureItems] at h
  | cons a as ih =>
    cases k2 with
    | nil => simp [captureItems] at h
    | cons b bs =>
      simp only [captureItems, List.map_cons, List.cons.injEq, Prod.mk.injEq] at h
      obtain ⟨⟨hn, hk⟩, hrest⟩ := h
      have hab : a.2 = b.2 :=
        capture_key_injective a.2 b.2 (hc a (List.mem_cons_self ..) b (List.mem_cons_self ..)) hk
      have hrest' : as = bs :=
        ih bs (fun x hx y hy => hc x (List.mem_cons_of_mem _ hx) y (List.mem_cons_of_mem _ hy)) hrest
      obtain ⟨a1, a2⟩ := a
      obtain ⟨b1, b2⟩ := b
      simp only at hn hab
      subst hn hab hrest'
      rfl

example : CoherentKws [(0, .data 1 [] [2])] [(0, .data 1 [] [3])] := by
  intro a ha b hb t s p t' s' p' h1 h2 _
  simp only [List.mem_singleton] at ha hb
  subst ha hb
  cases h1

/-- **Whole call sites**: equal function keys ⇒ same callee, same operand signature, same keyword names with
    the same values. -/
theorem function_key_injective (a b : Site) (hc : CoherentKws a.kws b.kws) (h : fnKey a = fnKey b) : a = b := by
  obtain ⟨ca, ia, ka⟩ := a
  obtain ⟨cb, ib, kb⟩ := b
  simp only [fnKey, fnKeyWith, FKey.mk.injEq] at h
  obtain ⟨h1, h2, h3⟩ := h
  have := capture_items_injective ka kb hc h3
  subst h1 h2 this
  rfl

example : fnKey ⟨1, [([2, 3], 0)], [(5, .object 7 [] [1])]⟩ ≠ fnKey ⟨1, [([2, 3], 0)], [(5, .object 7 [] [2])]⟩ := by
  decide

/-- With a key that is injective on the sites of an export, the registry hands every site its own body. -/
theorem bodyFor_own {σ κ : Type} [DecidableEq κ] (key : σ → κ) (sites : List σ) (s : σ)
    (hinj : ∀ a ∈ sites, key a = key s → a = s) (hs : s ∈ sites) : bodyFor key sites s = some s := by
  induction sites with
  | nil => cases hs
  | cons t ts ih =>
    simp only [bodyFor]
    by_cases hk : key t = key s
    · simp only [hk, if_true]
      rw [hinj t (List.mem_cons_self ..) hk]
    · simp only [hk, if_false]
      have hs' : s ∈ ts := by
        rcases List.mem_cons.mp hs with h | h
        · subst h; exact absurd rfl hk
        · exact h
      exact ih (fun a ha => hinj a (List.mem_cons_of_mem _ ha)) hs'

/-- **Every call site of an export executes the body traced for ITS OWN arguments**, for any number of call
    sites in any order, any keyword names and any values of any class. -/
theorem registry_own_arguments (sites : List Site) (s : Site) (hs : s ∈ sites)
    (hc : ∀ a ∈ sites, CoherentKws a.kws s.kws) : bodyFor fnKey sites s = some s :=
  bodyFor_own fnKey sites s (fun a ha h => function_key_injective a s (hc a ha) h) hs

/-- non-vacuous: `gated(x, act=sin) ; gated(x, act=cos)` – the second site gets its own body -/
example : bodyFor fnKey [⟨1, [([2, 3], 0)], [(5, .object 7 [] [1])]⟩, ⟨1, [([2, 3], 0)], [(5, .object 7 [] [2])]⟩]
    ⟨1, [([2, 3], 0)], [(5, .object 7 [] [2])]⟩ = some ⟨1, [([2, 3], 0)], [(5, .object 7 [] [2])]⟩ := by decide

/-- REFUTED alternative: keyed by type name, two different objects of one type collide. -/
theorem type_name_key_not_injective :
    ∃ v w : Val, classify v = classify w ∧ v ≠ w ∧ baked v ≠ baked w ∧ captureKeyTN v = captureKeyTN w :=
  ⟨.object 7 [] [1], .object 7 [] [2], by decide⟩

/-- REFUTED alternative, at the level of the registry: the second call site reuses the body traced for the first
    one although its keyword value is a different object — its argument is ignored. -/
theorem type_name_registry_reuses_wrong_body :
    ∃ (sites : List Site) (s t : Site), s ∈ sites ∧ bodyFor fnKeyTN sites s = some t ∧ t ≠ s ∧
      t.kws.map (fun nv => baked nv.2) ≠ s.kws.map (fun nv => baked nv.2) :=
  ⟨[⟨1, [([2, 3], 0)], [(5, .object 7 [] [1])]⟩, ⟨1, [([2, 3], 0)], [(5, .object 7 [] [2])]⟩],
   ⟨1, [([2, 3], 0)], [(5, .object 7 [] [2])]⟩, ⟨1, [([2, 3], 0)], [(5, .object 7 [] [1])]⟩, by decide⟩

/-- The type-name key is still injective on everything that is not an object (that part of the alternative is
    fine; the live fallback is reached only for values numpy cannot convert at all). -/
theorem type_name_key_injective_off_objects (v w : Val) (hv : classify v ≠ .object)
    (h : captureKeyTN v = captureKeyTN w) : v = w := by
  cases v with
  | traced d s => cases w <;> simp_all [captureKeyTN]
  | data d s b => cases w <;> simp_all [captureKeyTN]
  | object t s p => exact absurd rfl hv

example : classify (.data 2 [] [1]) ≠ .object := by decide

end J2O.C19.Key
