/-
C07 — property theorems (statements + proofs + non-vacuity examples only).

* `inline_sound`              replacing every call by its body preserves evaluation (any nesting depth,
                              every interpretation of the primitive operators)
* `key_injective`             equal `FunctionKey`s ⇒ equal target, input shapes/dtypes, every keyword
                              capture as the code classifies it (full bytes), same instance (default) /
                              equal type and full state (unique)   [digests assumed injective]
* `key_injective_kwargs_partial`  … ⇒ identical keyword arguments, for call sites without a static
                              keyword named like an `input_params` entry and without auto-injection
* `kwargs_in_key_refuted`     the unrestricted statement is false (name-based capture) — known finding
* `shared_only_if_equal_key`, `shared_only_if_equal_components`   over every history of call sites
* `shared_only_if_equal_state_partial`  … ⇒ equal callee state when no instance changes state inside
                              the history; `key_determines_state_refuted`: false otherwise — known finding
* `arity_agrees`, `arity_agrees_out`   call node arity = definition arity
* `domain_name_unique`        distinct definitions get distinct (domain, name), namespaces of equal depth
* `domain_name_unique_any_depth_refuted`  without the depth condition two counters collide — known finding
-/
import J2O.Lemmas.C07
set_option linter.unusedSimpArgs false
set_option linter.unusedVariables false

namespace J2O.C07

/-! ### Transparency of function boundaries -/

/-- **Inlining is sound.** If the outputs `outs` of a graph evaluate to `vs` with calls meaning
    "body applied to arguments" (`evalFn`, nesting depth bounded by any `fuel`), then inlining
    succeeds, yields call-free outputs, and these evaluate to the same `vs` under *every* call
    semantics — for every interpretation `I` of the primitive operators. -/
theorem inline_sound (I : Interp) (defs : Defs) (fuel : Nat) (outs : Args) (env vs : List Val)
    (h : evalA I (evalFn I defs fuel) outs env = some vs) :
    ∃ outs', inlineA (inlineFn defs fuel) outs = some outs' ∧ callFreeA outs' = true ∧
      ∀ C', evalA I C' outs' env = some vs := by
  obtain ⟨o, h1, h2, h3⟩ := inline_soundA I _ _ (agree_fuel I defs fuel) outs env vs h
  exact ⟨o, h1, h2, fun C' => by rw [callFree_indepA I C' noCalls o env h2]; exact h3⟩

/-- `evalCall` is "body applied to arguments". -/
theorem evalFn_unfold (I : Interp) (defs : Defs) (fuel f : Nat) (body : Args) (vs : List Val)
    (hb : defs[f]? = some body) :
    evalFn I defs (fuel + 1) f vs = evalA I (evalFn I defs fuel) body vs := by
  simp [evalFn, hb]

-- non-vacuity: f0(a) = neg a ; f1(a,b) = add(f0(a), b) ; graph: f1(x, f0(x)) with nesting depth 2
section
def exI : Interp := fun n vs =>
  match n, vs with
  | "neg", [a] => [-a]
  | "add", [a, b] => [a + b]
  | _, _ => []
def exDefs : Defs :=
  [ .cons (.op "neg" (.cons (.var 0) .nil) 0) .nil,
    .cons (.op "add" (.cons (.call 0 (.cons (.var 0) .nil) 0) (.cons (.var 1) .nil)) 0) .nil ]
def exOuts : Args :=
  .cons (.call 1 (.cons (.var 0) (.cons (.call 0 (.cons (.var 0) .nil) 0) .nil)) 0) .nil
example : evalA exI (evalFn exI exDefs 2) exOuts [5] = some [-10] := by decide
example : (inlineA (inlineFn exDefs 2) exOuts).map callFreeA = some true := by decide
example : (inlineA (inlineFn exDefs 2) exOuts).bind (fun o => evalA exI noCalls o [5]) = some [-10] := by
  decide
-- too little fuel is a failure, never a different value
example : evalA exI (evalFn exI exDefs 1) exOuts [5] = none := by decide
end

/-! ### Key injectivity -/

/-- What equal keys say about the callee, per mode. -/
def calleeAgrees (c1 c2 : CallSite) : Prop :=
  if c1.unique then
    match c1.callee, c2.callee with
    | .inst _ t1 s1, .inst _ t2 s2 => t1 = t2 ∧ s1 = s2
    | .func _ m1 n1, .func _ m2 n2 => m1 = m2 ∧ n1 = n2
    | _, _ => False
  else c1.callee.id = c2.callee.id

/-- **Key injectivity.** With injective digests (`H` = `hash(bytes)`, `S` = SHA-1), two call sites
    with equal keys have the same target, the same input shapes and dtypes, identical keyword
    captures as the code classifies them (`effCaps`: *including the full bytes of every static
    value*), the same mode, and the same instance (default mode) or the same instance type and
    full state (`unique=True`). -/
theorem key_injective (H S : Bytes → Nat) (hH : ∀ a b, H a = H b → a = b)
    (hS : ∀ a b, S a = S b → a = b) (c1 c2 : CallSite) (h : mkKey H S c1 = mkKey H S c2) :
    c1.target = c2.target ∧ c1.inSig = c2.inSig ∧ effCaps c1 = effCaps c2 ∧
      c1.unique = c2.unique ∧ calleeAgrees c1 c2 := by
  have hcap := mapSnd_inj (capKey H) (capKey_inj H hH)
  have hfp := mapSnd_inj (fpKey S) (fpKey_inj S hS)
  unfold mkKey at h
  simp only [Key.mk.injEq] at h
  obtain ⟨ht, hi, hc⟩ := h
  refine ⟨ht, hi, ?_⟩
  unfold calleeAgrees
  cases hu1 : c1.unique <;> cases hu2 : c2.unique <;> simp only [hu1, hu2, Bool.false_eq_true,
    if_false, if_true] at hc ⊢
  · simp only [CapSig.byId.injEq] at hc
    exact ⟨hcap _ _ hc.2, trivial, hc.1⟩
  · cases hc2 : c2.callee <;> simp [hc2] at hc
  · cases hc1 : c1.callee <;> simp [hc1] at hc
  · cases hc1 : c1.callee <;> cases hc2 : c2.callee <;>
      simp only [hc1, hc2, CapSig.byState.injEq, CapSig.byCallable.injEq, reduceCtorEq] at hc ⊢
    · exact ⟨hcap _ _ hc.2.1, trivial, hc.2.2.1, hfp _ _ hc.2.2.2⟩
    · exact ⟨hcap _ _ hc.2.1, trivial, hc.2.2.1, hc.2.2.2⟩

-- non-vacuity: injective digests exist; differing weight bytes / kwarg bytes / dtype give different keys
section
def exH : Bytes → Nat := fun b => b.foldl (fun a x => a * 256 + (x % 256) + 1) 0
def exSite (w : Bytes) (kw : Bytes) (dt : String) (u : Bool) (id : Nat) : CallSite :=
  { target := "m.Blk", unique := u, ns := ["custom"], base := "Blk",
    inSig := [⟨["2", "3"], dt⟩], caps := [("k", .const [] "float32" kw)],
    paramNames := ["deterministic"], injected := [],
    callee := .inst id "m.Blk" [("leaf0", .arr ["3"] "float32" w)], nOut := 1 }
example : mkKey exH exH (exSite [1,2] [7] "float32" true 1) = mkKey exH exH (exSite [1,2] [7] "float32" true 2) := by
  decide
example : mkKey exH exH (exSite [1,2] [7] "float32" true 1) ≠ mkKey exH exH (exSite [1,3] [7] "float32" true 1) := by
  decide
example : mkKey exH exH (exSite [1,2] [7] "float32" false 1) ≠ mkKey exH exH (exSite [1,2] [8] "float32" false 1) := by
  decide
example : mkKey exH exH (exSite [1,2] [7] "float32" false 1) ≠ mkKey exH exH (exSite [1,2] [7] "float64" false 1) := by
  decide
example : mkKey exH exH (exSite [1,2] [7] "float32" false 1) ≠ mkKey exH exH (exSite [1,2] [7] "float32" false 2) := by
  decide
end

/-- **Keyword arguments are in the key** (partial: call sites where no static keyword argument is
    named like an `input_params` entry and no input param is threaded in automatically):
    equal keys ⇒ identical keyword arguments, value bytes included. -/
theorem key_injective_kwargs_partial (H S : Bytes → Nat) (hH : ∀ a b, H a = H b → a = b)
    (hS : ∀ a b, S a = S b → a = b) (c1 c2 : CallSite) (h1 : NoShadow c1) (h2 : NoShadow c2)
    (h : mkKey H S c1 = mkKey H S c2) : c1.caps = c2.caps := by
  have := (key_injective H S hH hS c1 c2 h).2.2.1
  rwa [effCaps_of_noShadow c1 h1, effCaps_of_noShadow c2 h2] at this

/-- The full-strength statement "equal keys ⇒ equal keyword arguments" is FALSE: a static keyword
    argument whose *name* is an `input_params` name enters the key as `("call_input", shape, dtype)`
    without its value, so `blk(x, deterministic=<the input param>)` and
    `blk(x, deterministic=False)` get one definition.
    (Replayed on the real code: known finding F-C07-input-param-name-capture.) -/
theorem kwargs_in_key_refuted :
    ¬ (∀ (c1 c2 : CallSite), (∀ H S : Bytes → Nat, mkKey H S c1 = mkKey H S c2) →
        c1.caps = c2.caps) := by
  intro hall
  have := hall { exSite [1] [7] "f" false 1 with caps := [("deterministic", .const [] "bool" [1])] }
    { exSite [1] [7] "f" false 1 with caps := [("deterministic", .const [] "bool" [0])] }
    (fun H S => rfl)
  exact absurd this (by decide)

example : NoShadow (exSite [1] [7] "f" false 1) := by
  refine ⟨rfl, ?_⟩
  intro p hp hmem
  simp [exSite] at hp
  subst hp
  simp [exSite] at hmem

/-! ### Sharing over all call histories -/

/-- **Shared only if equal key.** For every history of `enter`/`exit` events (any nesting, any
    length), two call sites that use the same definition have equal keys. -/
theorem shared_only_if_equal_key (H S : Bytes → Nat) (ops : List Op) (e1 e2 : Entry)
    (h1 : e1 ∈ (run H S ops).log) (h2 : e2 ∈ (run H S ops).log) (h : e1.d.idx = e2.d.idx) :
    mkKey H S e1.site = mkKey H S e2.site := by
  have hI := inv_run H S ops
  have := (hI.idxKey e1 h1 e2 h2 h).1
  rw [hI.keyOk e1 h1, hI.keyOk e2 h2] at this
  exact this

/-- … hence equal components (digests assumed injective). -/
theorem shared_only_if_equal_components (H S : Bytes → Nat) (hH : ∀ a b, H a = H b → a = b)
    (hS : ∀ a b, S a = S b → a = b) (ops : List Op) (e1 e2 : Entry)
    (h1 : e1 ∈ (run H S ops).log) (h2 : e2 ∈ (run H S ops).log) (h : e1.d.idx = e2.d.idx) :
    e1.site.target = e2.site.target ∧ e1.site.inSig = e2.site.inSig ∧
      effCaps e1.site = effCaps e2.site ∧ e1.site.unique = e2.site.unique ∧
      calleeAgrees e1.site e2.site :=
  key_injective H S hH hS _ _ (shared_only_if_equal_key H S ops e1 e2 h1 h2 h)

/-- The same object has the same state at all its call sites of the history. -/
def StableInstances (ops : List Op) : Prop :=
  ∀ c1 ∈ sitesOf ops, ∀ c2 ∈ sitesOf ops, c1.callee.id = c2.callee.id → c1.callee = c2.callee

/-- **Shared only if equal state** (partial: histories in which no instance changes state between
    its call sites). Two call sites of class targets that share a definition have callees with
    the same type and the same full state — in both modes. -/
theorem shared_only_if_equal_state_partial (H S : Bytes → Nat) (hH : ∀ a b, H a = H b → a = b)
    (hS : ∀ a b, S a = S b → a = b) (ops : List Op) (hst : StableInstances ops) (e1 e2 : Entry)
    (h1 : e1 ∈ (run H S ops).log) (h2 : e2 ∈ (run H S ops).log) (h : e1.d.idx = e2.d.idx)
    (i1 i2 : Nat) (t1 t2 : String) (s1 s2 : List (String × FpVal))
    (hc1 : e1.site.callee = .inst i1 t1 s1) (hc2 : e2.site.callee = .inst i2 t2 s2) :
    t1 = t2 ∧ s1 = s2 := by
  obtain ⟨_, _, _, hu, hag⟩ := shared_only_if_equal_components H S hH hS ops e1 e2 h1 h2 h
  unfold calleeAgrees at hag
  cases hu1 : e1.site.unique <;> simp only [hu1, Bool.false_eq_true, if_false, if_true] at hag
  · have m1 : e1.site ∈ sitesOf ops := by
      rcases foldl_log_sites H S ops {} e1 h1 with h' | h'
      · simp at h'
      · exact h'
    have m2 : e2.site ∈ sitesOf ops := by
      rcases foldl_log_sites H S ops {} e2 h2 with h' | h'
      · simp at h'
      · exact h'
    have := hst _ m1 _ m2 hag
    rw [hc1, hc2] at this
    simp only [Callee.inst.injEq] at this
    exact ⟨this.2.1, this.2.2⟩
  · rw [hc1, hc2] at hag; exact hag

/-- The full-strength statement "equal keys ⇒ equal callee state" is FALSE in the default mode:
    the key holds only `id(callee)`, so one object whose weights are changed between two calls
    yields equal keys (under every choice of digests) with different state.
    (Replayed on the real code: known finding F-C07-mutated-instance.) -/
theorem key_determines_state_refuted :
    ¬ (∀ (c1 c2 : CallSite), (∀ H S : Bytes → Nat, mkKey H S c1 = mkKey H S c2) →
        c1.callee = c2.callee) := by
  intro hall
  have := hall (exSite [1] [7] "f" false 1) (exSite [2] [7] "f" false 1) (fun H S => rfl)
  exact absurd this (by decide)

/-! ### Arity -/

/-- **Arity agrees (inputs).** In every history, every call node has exactly as many inputs
    (positional inputs + runtime parameters of *this* site) as the definition it uses. -/
theorem arity_agrees (H S : Bytes → Nat) (ops : List Op) (e : Entry)
    (he : e ∈ (run H S ops).log) : e.d.nIn = nInOf e.site := by
  have hI := inv_run H S ops
  rw [hI.nInOk e he, hI.keyOk e he, ← nInOf_eq_nInKey]

/-- **Arity agrees (outputs)**, for callees whose number of outputs is a function `outOf` of the
    key (i.e. of target, avals and captures). -/
theorem arity_agrees_out (H S : Bytes → Nat) (outOf : Key → Nat) (ops : List Op)
    (hout : ∀ c ∈ sitesOf ops, c.nOut = outOf (mkKey H S c)) (e : Entry)
    (he : e ∈ (run H S ops).log) : e.d.nOut = e.site.nOut := by
  have hI := inv_run H S ops
  have hops : ∀ op ∈ ops, opOutOk H S outOf op := by
    intro op hop
    cases op with
    | exit => trivial
    | enter c =>
      apply hout
      clear hout he hI
      induction ops with
      | nil => simp at hop
      | cons o r ih =>
        simp only [List.mem_cons] at hop
        rcases hop with rfl | hop
        · simp [sitesOf]
        · cases o <;> simp [sitesOf, ih hop]
  have hO := out_foldl H S outOf ops {} (inv_init H S) (by intro e he; simp at he) hops
  have hk := hI.keyOk e he
  have m : e.site ∈ sitesOf ops := by
    rcases foldl_log_sites H S ops {} e he with h' | h'
    · simp at h'
    · exact h'
  rw [hO e he, hk, ← hout _ m]

-- non-vacuity: a history with a nested miss, a hit, and a runtime parameter
section
def exDyn : CallSite :=
  { exSite [1] [7] "float32" false 1 with caps := [("k", .const [] "float32" [7]), ("t", .dynamic [] "float32")] }
def exOps : List Op :=
  [.enter exDyn, .enter (exSite [1] [7] "float32" true 5), .exit, .exit, .enter exDyn, .exit,
   .enter (exSite [1] [7] "float32" true 6), .exit, .enter (exSite [9] [7] "float32" true 7), .exit]
example : ((run exH exH exOps).log.map (fun e => (e.d.idx, e.hit, e.d.nIn))).reverse
    = [(0, false, 2), (1, false, 1), (0, true, 2), (1, true, 1), (2, false, 1)] := by decide
example : StableInstances exOps := by unfold StableInstances; decide
end

/-! ### Names -/

/-- **(domain, name) unique.** In every history, two different definitions whose namespaces have
    the same number of parts never get the same (domain, name) pair. -/
theorem domain_name_unique (H S : Bytes → Nat) (ops : List Op) (e1 e2 : Entry)
    (h1 : e1 ∈ (run H S ops).log) (h2 : e2 ∈ (run H S ops).log)
    (hdepth : e1.d.ck.ns.length = e2.d.ck.ns.length) (hne : e1.d.idx ≠ e2.d.idx) :
    (e1.d.name, e1.d.domain) ≠ (e2.d.name, e2.d.domain) := by
  have hI := inv_run H S ops
  intro heq
  simp only [Prod.mk.injEq, Def.name, Def.domain] at heq
  obtain ⟨hck, hcnt⟩ := domainOf_inj _ _ _ _ hdepth heq.1 (hI.cntOk e1 h1).1 (hI.cntOk e2 h2).1 heq.2
  exact hne (hI.cntInj e1 h1 e2 h2 hck hcnt)

/-- Without the depth condition the statement is false: the `unique` counter of class `unique` in
    namespace `a` and the shared counter of class `unique` in namespace `a.unique` collide at 2.
    (Needs two decorated classes literally named `unique`; not met in practice, recorded as a
    limit of the naming scheme.) -/
theorem domain_name_unique_any_depth_refuted :
    ¬ (∀ (ck1 ck2 : CKey) (n1 n2 : Nat), 1 ≤ n1 → 1 ≤ n2 → ck1.base = ck2.base →
        domainOf ck1 n1 = domainOf ck2 n2 → ck1 = ck2 ∧ n1 = n2) := by
  intro hall
  have := hall ⟨["a"], "unique", true⟩ ⟨["a", "unique"], "unique", false⟩ 2 2 (by decide) (by decide)
    rfl (by decide)
  exact absurd this.1 (by decide)

example : ((run exH exH exOps).log.map (fun e => (e.d.name, e.d.domain))).reverse
    = [("Blk", [.s "custom", .s "Blk", .n 1]), ("Blk", [.s "custom", .s "Blk", .s "unique"]),
       ("Blk", [.s "custom", .s "Blk", .n 1]), ("Blk", [.s "custom", .s "Blk", .s "unique"]),
       ("Blk", [.s "custom", .s "Blk", .s "unique", .n 2])] := by decide

end J2O.C07
