/-
C03 (round 2) — function signatures with optional / absent operands: property theorems.

* `unusedIn_sound`     the recursive test ⇒ the name is read nowhere in the graph, at any depth
* `argsOK_sound`       accepted ⇒ `ArgsBound`: slot counts within the signature, and every formal input the body
                       reads is bound to a PRESENT actual (`""` is the absent operand)
* `callsBound_sound`   accepted model ⇒ `ArgsBound` for every call node at every depth of the main graph and of
                       every function body (calls from inside other function bodies), for every definition the
                       call resolves to
* `strict_call_bound`  together with `checkScopes` (equal slot counts): every formal input that is read is bound.
Closedness of function bodies (a body may not reference outer values) is `FuncOK.scopes` of `checkScopes_sound`
(the body is checked with NO visible outer names); restated here as `func_body_closed`.
-/
import J2O.Props.C03
import J2O.Model.C03Calls
set_option linter.unusedSimpArgs false
set_option linter.unusedVariables false

namespace J2O.C03
open J2O.MT

/-- `x` is read in the graph: it is a graph output, or an input of some node at some depth -/
def UsedAt (x : String) (g : Graph) : Prop :=
  x ∈ g.outputs ∨ ∃ p g', g.at? p = some g' ∧ ∃ n ∈ g'.nodes, x ∈ n.ins

theorem unusedIn_sound (x : String) (g : Graph) (h : unusedIn x g = true) : ¬ UsedAt x g := by
  simp only [unusedIn, Bool.and_eq_true, Bool.not_eq_true'] at h
  intro hu
  rcases hu with ho | ⟨p, g', hg, n, hn, hx⟩
  · exact absurd ho (by simpa using h.2)
  · have := allNodes_sound _ g h.1 p g' hg n hn
    simp only [Bool.not_eq_true'] at this
    exact absurd hx (by simpa using this)

structure ArgsBound (f : Func) (n : Node) : Prop where
  ins_le : n.ins.length ≤ f.inputs.length
  outs_le : n.outsRaw.length ≤ f.outputs.length
  /-- a formal input that the body reads is bound to a present actual -/
  used_present : ∀ (i : Nat) (x : String), f.inputs[i]? = some x → UsedAt x f.asGraph → ∃ a, n.ins[i]? = some a ∧ a ≠ ""

theorem argsOK_sound (f : Func) (n : Node) (h : argsOK f n = true) : ArgsBound f n := by
  simp only [argsOK, Bool.and_eq_true, decide_eq_true_eq] at h
  obtain ⟨⟨h1, h2⟩, h3⟩ := h
  refine ⟨h1, h2, ?_⟩
  intro i x hx hu
  have hi : i < f.inputs.length := by
    rcases Nat.lt_or_ge i f.inputs.length with hlt | hge
    · exact hlt
    · rw [List.getElem?_eq_none hge] at hx; cases hx
  have := (List.all_eq_true.mp h3) i (List.mem_range.mpr hi)
  simp only [Bool.or_eq_true, bne_iff_ne, ne_eq] at this
  rcases this with hp | hun
  · cases ha : n.ins[i]? with
    | none =>
      exfalso; apply hp
      simp [List.getD_eq_getElem?_getD, ha]
    | some a =>
      refine ⟨a, rfl, ?_⟩
      intro e
      apply hp
      simp [List.getD_eq_getElem?_getD, ha, e]
  · have hx' : f.inputs.getD i "" = x := by simp [List.getD_eq_getElem?_getD, hx]
    rw [hx'] at hun
    exact absurd hu (unusedIn_sound x _ hun)

theorem callArgs_sound (funcs : List Func) (n : Node) (h : callArgs funcs n = true) :
    ∀ f ∈ funcs, f.domain = n.domain → f.name = n.op → ArgsBound f n := by
  intro f hf hd hn
  have := (List.all_eq_true.mp h) f hf
  simp only [defines, hd, hn, beq_self_eq_true, Bool.and_self, Bool.not_true, Bool.false_or] at this
  exact argsOK_sound f n this

/-- **Every call at every depth – in the main graph and inside every function body – binds every formal input
    that the callee reads.** -/
theorem callsBound_sound (m : Model) (h : callsBound m = true) :
    (∀ p g, m.graph.at? p = some g → ∀ n ∈ g.nodes, ∀ f ∈ m.funcs, f.domain = n.domain → f.name = n.op →
        ArgsBound f n) ∧
    (∀ caller ∈ m.funcs, ∀ p g, caller.asGraph.at? p = some g → ∀ n ∈ g.nodes, ∀ f ∈ m.funcs,
        f.domain = n.domain → f.name = n.op → ArgsBound f n) := by
  simp only [callsBound, Bool.and_eq_true] at h
  refine ⟨?_, ?_⟩
  · intro p g hg n hn
    exact callArgs_sound _ n (allNodes_sound _ m.graph h.1 p g hg n hn)
  · intro caller hc p g hg n hn
    have := (List.all_eq_true.mp h.2) caller hc
    exact callArgs_sound _ n (allNodes_sound _ caller.asGraph this p g hg n hn)

/-- with the strict slot counts of `checkScopes`: the actual list has exactly one slot per formal, and the slots of
    the formals that are read are present -/
theorem strict_call_bound (m : Model) (h1 : checkScopes m = true) (h2 : callsBound m = true) :
    ∀ p g, m.graph.at? p = some g → ∀ n ∈ g.nodes, ∀ f ∈ m.funcs, f.domain = n.domain → f.name = n.op →
      f.inputs.length = n.ins.length ∧
      ∀ (i : Nat) (x : String), f.inputs[i]? = some x → UsedAt x f.asGraph → ∃ a, n.ins[i]? = some a ∧ a ≠ "" := by
  intro p g hg n hn f hf hd ho
  have w := checkScopes_sound m h1
  exact ⟨((w.calls p g hg n hn).arity f hf hd ho).1,
    ((callsBound_sound m h2).1 p g hg n hn f hf hd ho).used_present⟩

/-- closedness, restated: in an accepted model every name read by a node of a function body (top level of the body)
    is a formal input or the output of an earlier node of the body – never a value of the caller or of the main graph -/
theorem func_body_closed (m : Model) (h : checkScopes m = true) :
    ∀ f ∈ m.funcs, ∀ (i : Nat) (n : Node), f.nodes[i]? = some n → ∀ x ∈ n.ins, x ≠ "" →
      x ∈ f.inputs ∨ x ∈ definedBy (f.nodes.take i) := by
  intro f hf i n hn x hx hne
  have w := (checkScopes_sound m h).funcs f hf
  have ok := w.scopes [] [] f.asGraph rfl
  have hi : f.inits = [] := w.no_initializers
  have := ok.def_before_use i n hn x hx hne
  simp only [Func.asGraph, Graph.inputs, Graph.inits, Graph.nodes, hi] at this
  rcases this with h | h | h | h
  · cases h
  · exact Or.inl h
  · cases h
  · exact Or.inr h

/-! ### non-vacuity -/

def exF2 : Func :=
  { domain := "custom", name := "Block", inputs := ["a", "b"], outputs := ["out"], inits := [],
    imports := [("", 23)], nodes := [.mk "" "Mul" ["a", "b"] ["out"] [] []], vinfo := [] }

/-- second formal never read (not even in a nested body) -/
def exF2' : Func := { exF2 with nodes := [.mk "" "If" ["a"] ["out"] ["then_branch"]
    [.mk [] [] [.mk "" "Neg" ["a"] ["t"] [] []] ["t"] []]] }

def exCall (ins : List String) : Model :=
  { imports := [("", 23), ("custom", 1)],
    graph := .mk ["x"] [] [.mk "custom" "Block" ins ["y"] [] []] ["y"] [], funcs := [exF2] }

example : callsBound (exCall ["x", "x"]) = true := by decide
example : checkScopes (exCall ["x", "x"]) = true := by decide
-- the slot count is right, the proven count check accepts – but the second operand is absent and the body reads `b`
example : checkScopes (exCall ["x", ""]) = true := by decide
example : callsBound (exCall ["x", ""]) = false := by decide
-- absent operand for a formal that is never read: fine
example : callsBound { exCall ["x", ""] with funcs := [exF2'] } = true := by decide
-- a call from inside another function body is checked as well
example : callsBound { exCall ["x", "x"] with funcs := [exF2,
    { exF2 with name := "Outer", inputs := ["p"], nodes := [.mk "custom" "Block" ["p", ""] ["out"] [] []] }] }
    = false := by decide
example : UsedAt "b" exF2.asGraph := Or.inr ⟨[], _, rfl, _, List.mem_cons_self, by decide⟩

end J2O.C03
