/-
C13 — property theorems for the patch machine (`J2O.Model.C13`, the code after fix 21b5229).

What "as found" means here: the own-attribute table of every target (hence what `getattr` and
`inspect.getattr_static` resolve for every (target, attribute)), and the refcount table
`_PATCH_STATE`, are *equal* after the program to what they were before — whether the program
returns or raises.

* `run_restores`              FULL STRENGTH: for every program (arbitrary nesting of apply_patches /
      apply_monkey_patches contexts, sequencing, swallowed exceptions), every hierarchy (any MROs,
      diamonds included), every registry, every start state with a well-formed `_PATCH_STATE`, and
      every exception point (spec resolution, getattr, make_value / patch_fn, setattr — in
      apply_patches AND in the entry loop of apply_monkey_patches —, the body, nested bodies):
      the own table and `_PATCH_STATE` are restored exactly.  No hypothesis on the patched keys:
      own, inherited, metaclass-provided/missing, descriptor or not.
      Remaining hypothesis `PSwf`: reference counts in the initial `_PATCH_STATE` are ≥ 1; this is an
      invariant of the code itself (entries are removed at 0), true of the empty table
      (`run_restores_from_clean`), and needed only because the statement quantifies over arbitrary
      start states.
* `applyPatches_restores`, `monkey_restores`, `patchState_empty_after`, `lookup_restored`
      the named instances / corollaries (all full strength)
* `x64_restored`, `x64_restored_whole_call`  `to_onnx` leaves the global x64 flag as found, the emit
      stage after the guarded block included (model shared with C18)
      Exception points never distinguish exception classes (any BaseException).
* regression, about the machine BEFORE the fix (`J2O.Model.C13Old`): `old_capture_leaks`,
  `old_entry_fault_leaks` (the two former refutation witnesses) next to `capture_restored`,
  `entry_fault_restored` (the same programs on the repaired machine)
-/
import J2O.Lemmas.C13
import J2O.Props.C18
import J2O.Model.C13Old
set_option linter.unusedSimpArgs false
set_option linter.unusedVariables false

namespace J2O.C13

/-- **Restoration.** -/
theorem run_restores (H : Hier) (reg : List Site) :
    ∀ (p : Prog) (st : St), PSwf st.ps →
      (run H reg p st).st.own = st.own ∧ (run H reg p st).st.ps = st.ps := by
  intro p
  induction p with
  | skip => intro st _; exact ⟨rfl, rfl⟩
  | raise => intro st _; exact ⟨rfl, rfl⟩
  | seq a b iha ihb =>
    intro st hwf
    simp only [run]
    have h1 := iha st hwf
    cases hr : (run H reg a st).raised with
    | true => simp only [↓reduceIte]; exact h1
    | false =>
      simp only [Bool.false_eq_true, ↓reduceIte]
      have h2 := ihb (run H reg a st).st (by rw [h1.2]; exact hwf)
      exact ⟨h2.1.trans h1.1, h2.2.trans h1.2⟩
  | patches specs body ih =>
    intro st hwf
    simp only [run]
    have hu := enter_unwind H specs st.own []
    simp only [unwind] at hu
    cases hr : (enter H st.own specs []).raised with
    | true => simp only [↓reduceIte]; exact ⟨hu, trivial⟩
    | false =>
      simp only [Bool.false_eq_true, ↓reduceIte]
      have h1 := ih ⟨(enter H st.own specs []).own, st.ps⟩ hwf
      simp only at h1
      exact ⟨by rw [h1.1]; exact hu, h1.2⟩
  | monkey faults body ih =>
    intro st hwf
    simp only [run]
    have hm := menter_mexit H reg st faults [] hwf
    simp only [mexit] at hm
    cases hr : (menter H st reg faults []).raised with
    | true => simp only [↓reduceIte]; rw [hm]; exact ⟨rfl, rfl⟩
    | false =>
      simp only [Bool.false_eq_true, ↓reduceIte]
      have h1 := ih (menter H st reg faults []).st (menter_wf H reg st faults [] hwf)
      have hst : (run H reg body (menter H st reg faults []).st).st = (menter H st reg faults []).st :=
        st_eq _ _ h1.1 h1.2
      rw [hst, hm]
      exact ⟨rfl, rfl⟩
  | «catch» body ih =>
    intro st hwf
    simp only [run]
    exact ih st hwf

theorem PSwf_empty : PSwf (fun _ _ => none) := by
  intro t a o w c h; simp at h

/-- from a process in which no conversion is running (`_PATCH_STATE` empty): no hypothesis at all -/
theorem run_restores_from_clean (H : Hier) (reg : List Site) (p : Prog) (own : Own) :
    (run H reg p ⟨own, fun _ _ => none⟩).st.own = own ∧
    (run H reg p ⟨own, fun _ _ => none⟩).st.ps = fun _ _ => none :=
  run_restores H reg p ⟨own, fun _ _ => none⟩ PSwf_empty

/-- `apply_patches(specs)` around any body (nested contexts, exceptions at any step): own table
    restored, for every spec list — duplicates on one key, inherited keys, missing keys. -/
theorem applyPatches_restores (H : Hier) (reg : List Site) (specs : List Spec) (body : Prog) (st : St)
    (hwf : PSwf st.ps) : (run H reg (.patches specs body) st).st.own = st.own :=
  (run_restores H reg _ st hwf).1

/-- `apply_monkey_patches()` around any body, any nesting depth, any exception point — the entry
    loop included. -/
theorem monkey_restores (H : Hier) (reg : List Site) (faults : List Fault) (body : Prog) (st : St)
    (hwf : PSwf st.ps) :
    (run H reg (.monkey faults body) st).st.own = st.own ∧
      (run H reg (.monkey faults body) st).st.ps = st.ps :=
  run_restores H reg _ st hwf

/-- `_PATCH_STATE` is empty after every program that found it empty. -/
theorem patchState_empty_after (H : Hier) (reg : List Site) (p : Prog) (own : Own) :
    (run H reg p ⟨own, fun _ _ => none⟩).st.ps = fun _ _ => none :=
  (run_restores_from_clean H reg p own).2

/-- `getattr` resolves every (target, attribute) as before. -/
theorem lookup_restored (H : Hier) (reg : List Site) (p : Prog) (st : St) (hwf : PSwf st.ps)
    (t : Tgt) (a : Attr) : lookup H (run H reg p st).st.own t a = lookup H st.own t a := by
  rw [(run_restores H reg p st hwf).1]

/-! ### the former counterexamples, on the repaired machine -/

/-- two classes: 0 = base (defines attribute 0), 1 = subclass of 0 without own attribute -/
def H2 : Hier := ⟨fun t => if t = 1 then [1, 0] else [t], fun _ => true⟩
def own2 : Own := fun t a => if t = 0 ∧ a = 0 then some (.tok 7) else none
def st2 : St := ⟨own2, fun _ _ => none⟩

/-- base patched first, then the subclass — the shape of the MultiHeadDotProductAttention /
    MultiHeadAttention plugins entered one after the other by `_activate_plugin_worlds` -/
def capture : Prog :=
  .patches [⟨0, 0, .monkey 1, .none⟩] (.patches [⟨1, 0, .monkey 2, .none⟩] .skip)

theorem capture_restored :
    (run H2 [] capture st2).st.own 0 0 = some (.tok 7) ∧ (run H2 [] capture st2).st.own 1 0 = none ∧
    lookup H2 (run H2 [] capture st2).st.own 1 0 = lookup H2 st2.own 1 0 := by decide

/-- registry of two sites; the second target lacks the attribute (→ AttributeError in the
    entry loop), like `@onnx_function` on a function that is not a module attribute -/
def reg3 : List Site := [⟨0, 0, 1⟩, ⟨2, 0, 2⟩]

theorem entry_fault_restored :
    (run H2 reg3 (.monkey [] .skip) st2).raised = true ∧
    (run H2 reg3 (.monkey [] .skip) st2).st.own 0 0 = some (.tok 7) ∧
    (run H2 reg3 (.monkey [] .skip) st2).st.ps 0 0 = none := by decide

/-! ### regression: the machine before fix 21b5229 (`J2O.C13Old`) leaked on exactly these programs -/

def oldH2 : C13Old.Hier := ⟨fun t => if t = 1 then [1, 0] else [t], fun _ => true⟩
def oldSt2 : C13Old.St := ⟨fun t a => if t = 0 ∧ a = 0 then some (.tok 7) else none, fun _ _ => none⟩
def oldCapture : C13Old.Prog :=
  .patches [⟨0, 0, .monkey 1, .none⟩] (.patches [⟨1, 0, .monkey 2, .none⟩] .skip)

/-- OLD machine: the subclass ends up owning the base's *patched* value (was replayed on the real
    code as flax.linen.MultiHeadAttention.__call__ after any to_onnx) -/
theorem old_capture_leaks :
    (C13Old.run oldH2 [] oldCapture oldSt2).st.own 1 0 = some (.wrap 1 (.tok 7)) ∧
    C13Old.lookup oldH2 (C13Old.run oldH2 [] oldCapture oldSt2).st.own 1 0
      ≠ C13Old.lookup oldH2 oldSt2.own 1 0 := by decide

/-- OLD machine: an exception in the entry loop left the first site patched and its
    `_PATCH_STATE` entry behind (was replayed as @onnx_function on a nested function) -/
theorem old_entry_fault_leaks :
    (C13Old.run oldH2 [⟨0, 0, 1⟩, ⟨2, 0, 2⟩] (.monkey [] .skip) oldSt2).st.own 0 0
      = some (.wrap 1 (.tok 7)) ∧
    (C13Old.run oldH2 [⟨0, 0, 1⟩, ⟨2, 0, 2⟩] (.monkey [] .skip) oldSt2).st.ps 0 0
      = some (.tok 7, 1) := by decide

/-! ### non-vacuity: a busy run with exceptions at every kind of injection point -/

def own4 : Own := fun t a =>
  if t = 0 ∧ a = 0 then some (.tok 7) else if t = 1 ∧ a = 0 then some (.static 8) else
  if t = 2 ∧ a = 1 then some (.tok 9) else none
def st4 : St := ⟨own4, fun _ _ => none⟩
def reg4 : List Site := [⟨0, 0, 1⟩, ⟨1, 0, 2⟩, ⟨0, 0, 3⟩, ⟨3, 3, 4⟩]
/-- outer world (monkey whose 4th site has no such attribute → raises in the entry loop, swallowed),
    then monkey with a failing patch_fn, binding contexts incl. a missing attribute, a
    staticmethod, a duplicate key, a nested re-activation failing in make_value, then the trace raises -/
def busy : Prog :=
  .seq (.catch (.monkey [] .skip))
    (.seq (.catch (.monkey [.none, .make] .skip))
      (.patches [⟨2, 1, .monkey 4, .none⟩, ⟨2, 5, .assign (.tok 11), .none⟩, ⟨1, 0, .monkey 5, .none⟩,
                 ⟨2, 1, .monkey 5, .none⟩]
        (.seq (.catch (.patches [⟨2, 1, .monkey 6, .none⟩, ⟨2, 5, .monkey 7, .make⟩] .skip))
          (.seq (.patches [⟨1, 0, .assign (.tok 12), .set⟩] .skip) .raise))))

example : (run H2 reg4 busy st4).raised = true ∧
    (run H2 reg4 busy st4).st.own 2 1 = some (.tok 9) ∧ (run H2 reg4 busy st4).st.own 2 5 = none ∧
    (run H2 reg4 busy st4).st.own 1 0 = some (.static 8) ∧ (run H2 reg4 busy st4).st.own 0 0 = some (.tok 7) ∧
    (run H2 reg4 busy st4).st.ps 0 0 = none := by decide

/-! ### the x64 flag -/

open J2O.C18 in
/-- `to_onnx(…, enable_double_precision=en)` = `_temporary_x64(en)` around (`_force_jax_x64(en)`
    around tracing and lowering, then post-processing): for every body — nested conversions,
    flag writes, an exception at any point — the flag is left as found. -/
theorem x64_restored (en : Bool) (pre body post : XP) (f : Bool) :
    (xrun (.tmp en (.seq pre (.seq (.force en body) post))) f).1 = f := by
  simp only [xrun]
  exact ite_restore _ _

open J2O.C18 in
/-- … and the whole call, including the emit stage that follows the guarded block (input_params,
    custom names, `to_proto`, file save), which does not write the flag: returns or raises, in any
    stage, with any exception class — flag as found. -/
theorem x64_restored_whole_call (en : Bool) (pre body post emit : XP) (f : Bool)
    (h : emit.flagFree = true) :
    (xrun (.seq (.tmp en (.seq pre (.seq (.force en body) post))) emit) f).1 = f :=
  x64_restored_to_onnx_whole_call en pre body post emit f h

end J2O.C13
