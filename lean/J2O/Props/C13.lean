/-
C13 — property theorems for the patch machine (`J2O.Model.C13`).

What "as found" means here: the own-attribute table of every target (hence what `getattr` and
`inspect.getattr_static` resolve for every (target, attribute)), and the refcount table
`_PATCH_STATE`, are *equal* after the program to what they were before — whether the program
returns or raises.

* `run_restores_partial`        for every program (arbitrary nesting of apply_patches /
      apply_monkey_patches contexts, sequencing, swallowed exceptions), every hierarchy, every
      registry, every start state and every exception point inside a `try` (spec resolution,
      make_value, setattr, the body, nested bodies): if the two monitors are true, the own table
      and `_PATCH_STATE` are restored exactly.
      *Partial* in two ways, both shown necessary below:
        `good`    every patched key had an own plain value or was missing on the whole MRO
        `entryOk` no exception inside the entry loop of apply_monkey_patches
* `applyPatches_restores_partial`, `monkey_restores_partial`, `patchState_empty_after_partial`,
  `lookup_restored_partial`   the named instances / corollaries
* `applyPatches_restores_refuted`  the statement without `good` is FALSE: a base class patched
      before a subclass that has no own attribute leaves the *patched* value in the subclass
      (replayed on the real code: flax.linen.MultiHeadAttention.__call__ after any to_onnx)
* `monkey_restores_refuted`     the statement without `entryOk` is FALSE: an exception in the
      entry loop leaves the earlier sites patched and `_PATCH_STATE` non-empty (replayed on the
      real code: @onnx_function on a function that is not a module attribute)
* `inherited_ownCopy_partial`   the benign case outside `good` (flax.linen Conv/ConvLocal): an
      inherited attribute whose provider is not patched ends as an own copy, `getattr` unchanged
* `x64_restored`                `to_onnx` leaves the global x64 flag as found (model of
      `_temporary_x64` / `_force_jax_x64` shared with C18)
-/
import J2O.Lemmas.C13
import J2O.Lemmas.C18
set_option linter.unusedSimpArgs false
set_option linter.unusedVariables false

namespace J2O.C13

/-- **Restoration (partial).** -/
theorem run_restores_partial (H : Hier) (hH : H.SelfFirst) (reg : List Site) :
    ∀ (p : Prog) (st : St), (run H reg p st).good = true → (run H reg p st).entryOk = true →
      (run H reg p st).st.own = st.own ∧ (run H reg p st).st.ps = st.ps := by
  intro p
  induction p with
  | skip => intro st _ _; exact ⟨rfl, rfl⟩
  | raise => intro st _ _; exact ⟨rfl, rfl⟩
  | seq a b iha ihb =>
    intro st hg he
    simp only [run] at hg he ⊢
    cases hr : (run H reg a st).raised with
    | true =>
      simp only [hr, ↓reduceIte] at hg he ⊢
      exact iha st hg he
    | false =>
      simp only [hr, Bool.false_eq_true, ↓reduceIte, Bool.and_eq_true] at hg he ⊢
      have h1 := iha st hg.1 he.1
      have h2 := ihb _ hg.2 he.2
      exact ⟨h2.1.trans h1.1, h2.2.trans h1.2⟩
  | patches specs body ih =>
    intro st hg he
    simp only [run] at hg he ⊢
    cases hr : (enter H st.own specs [] true).raised with
    | true =>
      simp only [hr, ↓reduceIte] at hg ⊢
      have := enter_unwind H hH specs st.own [] true hg
      simp only [unwind] at this
      exact ⟨this, trivial⟩
    | false =>
      simp only [hr, Bool.false_eq_true, ↓reduceIte, Bool.and_eq_true] at hg he ⊢
      have h1 := ih _ hg.2 he
      simp only at h1
      refine ⟨?_, h1.2⟩
      rw [h1.1]
      have := enter_unwind H hH specs st.own [] true hg.1
      simpa [unwind] using this
  | monkey faults body ih =>
    intro st hg he
    simp only [run] at hg he ⊢
    cases hr : (menter H st reg faults [] true).raised with
    | true =>
      simp only [hr, ↓reduceIte] at he
      exact absurd he (by simp)
    | false =>
      simp only [hr, Bool.false_eq_true, ↓reduceIte, Bool.and_eq_true] at hg he ⊢
      have h1 := ih _ hg.2 he
      have hst : (run H reg body (menter H st reg faults [] true).st).st
          = (menter H st reg faults [] true).st := st_eq _ _ h1.1 h1.2
      rw [hst]
      have := menter_mexit H hH reg st faults [] true hg.1 hr
      simp only [mexit] at this
      rw [this]
      exact ⟨rfl, rfl⟩
  | «catch» body ih =>
    intro st hg he
    simp only [run] at hg he ⊢
    exact ih st hg he

/-- `apply_patches(specs)` around any body (nested contexts, exceptions): own table restored. -/
theorem applyPatches_restores_partial (H : Hier) (hH : H.SelfFirst) (reg : List Site)
    (specs : List Spec) (body : Prog) (st : St)
    (hg : (run H reg (.patches specs body) st).good = true)
    (he : (run H reg (.patches specs body) st).entryOk = true) :
    (run H reg (.patches specs body) st).st.own = st.own :=
  (run_restores_partial H hH reg _ st hg he).1

/-- `apply_monkey_patches()` around any body, any nesting depth (`body` may contain further
    `monkey` contexts), any exception point after the entry loop. -/
theorem monkey_restores_partial (H : Hier) (hH : H.SelfFirst) (reg : List Site)
    (faults : List Fault) (body : Prog) (st : St)
    (hg : (run H reg (.monkey faults body) st).good = true)
    (he : (run H reg (.monkey faults body) st).entryOk = true) :
    (run H reg (.monkey faults body) st).st.own = st.own ∧
      (run H reg (.monkey faults body) st).st.ps = st.ps :=
  run_restores_partial H hH reg _ st hg he

/-- `_PATCH_STATE` is empty after every program that found it empty. -/
theorem patchState_empty_after_partial (H : Hier) (hH : H.SelfFirst) (reg : List Site) (p : Prog)
    (st : St) (h0 : st.ps = fun _ _ => none)
    (hg : (run H reg p st).good = true) (he : (run H reg p st).entryOk = true) :
    (run H reg p st).st.ps = fun _ _ => none := by
  rw [(run_restores_partial H hH reg p st hg he).2, h0]

/-- `getattr` resolves every (target, attribute) as before. -/
theorem lookup_restored_partial (H : Hier) (hH : H.SelfFirst) (reg : List Site) (p : Prog) (st : St)
    (hg : (run H reg p st).good = true) (he : (run H reg p st).entryOk = true) (t : Tgt) (a : Attr) :
    lookup H (run H reg p st).st.own t a = lookup H st.own t a := by
  rw [(run_restores_partial H hH reg p st hg he).1]

/-! ### the two hypotheses are necessary: the full-strength statements are false -/

/-- two classes: 0 = base (defines attribute 0), 1 = subclass of 0 without own attribute -/
def H2 : Hier := ⟨fun t => if t = 1 then [1, 0] else [t], fun _ => true⟩
def own2 : Own := fun t a => if t = 0 ∧ a = 0 then some (.tok 7) else none
def st2 : St := ⟨own2, fun _ _ => none⟩

theorem H2_selfFirst : H2.SelfFirst := by
  intro t
  by_cases h : t = 1
  · exact ⟨[0], by simp [H2, h]⟩
  · exact ⟨[], by simp [H2, h]⟩

/-- base patched first, then the subclass — the shape of the MultiHeadDotProductAttention /
    MultiHeadAttention plugins entered one after the other by `_activate_plugin_worlds` -/
def capture : Prog :=
  .patches [⟨0, 0, .monkey 1, .none⟩] (.patches [⟨1, 0, .monkey 2, .none⟩] .skip)

theorem capture_leaks :
    (run H2 [] capture st2).entryOk = true ∧ (run H2 [] capture st2).raised = false ∧
    (run H2 [] capture st2).st.own 0 0 = some (.tok 7) ∧               -- the base is restored
    st2.own 1 0 = none ∧                                              -- the subclass had no own attribute
    (run H2 [] capture st2).st.own 1 0 = some (.wrap 1 (.tok 7)) ∧     -- … and now owns the base's *patched* value
    lookup H2 (run H2 [] capture st2).st.own 1 0 ≠ lookup H2 st2.own 1 0 := by
  decide

/-- **Full-strength `applyPatches_restores` (no `good` hypothesis) is refuted.** -/
theorem applyPatches_restores_refuted :
    ¬ (∀ (H : Hier) (reg : List Site) (specs : List Spec) (body : Prog) (st : St) (t : Tgt) (a : Attr),
        H.SelfFirst → (run H reg (.patches specs body) st).entryOk = true →
        lookup H (run H reg (.patches specs body) st).st.own t a = lookup H st.own t a) := by
  intro h
  exact capture_leaks.2.2.2.2.2 (h H2 [] _ _ st2 1 0 H2_selfFirst capture_leaks.1)

/-- registry of two sites; the second target lacks the attribute (→ AttributeError in the
    entry loop), like `@onnx_function` on a function that is not a module attribute -/
def reg3 : List Site := [⟨0, 0, 1⟩, ⟨2, 0, 2⟩]

theorem entry_fault_leaks :
    (run H2 reg3 (.monkey [] .skip) st2).good = true ∧
    (run H2 reg3 (.monkey [] .skip) st2).raised = true ∧
    (run H2 reg3 (.monkey [] .skip) st2).st.own 0 0 = some (.wrap 1 (.tok 7)) ∧   -- still patched
    (run H2 reg3 (.monkey [] .skip) st2).st.ps 0 0 = some (.tok 7, 1) ∧           -- entry kept forever
    -- a later conversion whose entry loop succeeds does not repair it: the count never reaches 0
    (run H2 [⟨0, 0, 1⟩] (.monkey [] .skip) (run H2 reg3 (.monkey [] .skip) st2).st).st.own 0 0
      = some (.wrap 1 (.tok 7)) := by
  decide

/-- **Full-strength `monkey_restores` (exception anywhere, entry loop included) is refuted.** -/
theorem monkey_restores_refuted :
    ¬ (∀ (H : Hier) (reg : List Site) (faults : List Fault) (body : Prog) (st : St),
        H.SelfFirst → (run H reg (.monkey faults body) st).good = true →
        (run H reg (.monkey faults body) st).st.own = st.own ∧
          (run H reg (.monkey faults body) st).st.ps = st.ps) := by
  intro h
  have := (h H2 reg3 [] .skip st2 H2_selfFirst entry_fault_leaks.1).1
  have h0 := congrFun (congrFun this 0) 0
  rw [entry_fault_leaks.2.2.1] at h0
  exact absurd h0 (by decide)

/-! ### non-vacuity: both monitors are true on non-trivial runs with exceptions at every kind
    of injection point -/

def own4 : Own := fun t a =>
  if t = 0 ∧ a = 0 then some (.tok 7) else if t = 1 ∧ a = 0 then some (.tok 8) else
  if t = 2 ∧ a = 1 then some (.tok 9) else none
def st4 : St := ⟨own4, fun _ _ => none⟩
def reg4 : List Site := [⟨0, 0, 1⟩, ⟨1, 0, 2⟩, ⟨0, 0, 3⟩]
/-- outer world (monkey + two binding contexts incl. a missing attribute and a duplicate key), a
    nested re-activation whose second binding fails in make_value and is swallowed, then the
    trace raises -/
def busy : Prog :=
  .monkey [] (.patches [⟨2, 1, .monkey 4, .none⟩, ⟨2, 5, .assign (.tok 11), .none⟩, ⟨2, 1, .monkey 5, .none⟩]
    (.seq (.catch (.monkey [] (.patches [⟨2, 1, .monkey 6, .none⟩, ⟨2, 5, .monkey 7, .make⟩] .skip)))
      (.seq (.patches [⟨1, 0, .assign (.tok 12), .set⟩] .skip) .raise)))

example : (run H2 reg4 busy st4).good = true ∧ (run H2 reg4 busy st4).entryOk = true ∧
    (run H2 reg4 busy st4).raised = true ∧
    (run H2 reg4 busy st4).st.own 2 1 = some (.tok 9) ∧ (run H2 reg4 busy st4).st.own 2 5 = none ∧
    (run H2 reg4 busy st4).st.ps 0 0 = none := by decide

/-! ### the benign case outside `good`: an inherited attribute whose provider is not patched -/

/-- **Own copy, same resolution (partial).** `apply_patches` on a key that the target only
    inherits (flax.linen `Conv.__call__`, `ConvLocal.__call__` from `_Conv`), around any body that
    restores the own table (in particular: the provider is not left patched), leaves exactly one
    difference — the target now OWNS a copy of the inherited value — and, in a hierarchy without
    diamonds, `getattr` resolves every (target, attribute) as before.  This is weaker than
    own-table identity (`vars(cls)` differs) and the statement says so. -/
theorem inherited_ownCopy_partial (H : Hier) (hH : H.SelfFirst) (hL : H.Linear) (reg : List Site)
    (s : Spec) (body : Prog) (st : St) (v : Val)
    (hnone : st.own s.tgt s.attr = none) (hv : firstOwn st.own s.attr (H.mro s.tgt) = some v)
    (hplain : descGet H s.tgt v = v) (hf : s.faults = false)
    (hbody : ∀ st', (run H reg body st').st.own = st'.own) :
    (run H reg (.patches [s] body) st).st.own = setOwn st.own s.tgt s.attr (some v) ∧
    ∀ t a, lookup H (run H reg (.patches [s] body) st).st.own t a = lookup H st.own t a := by
  have hlk : lookup H st.own s.tgt s.attr = some v := by
    unfold lookup; rw [hv]; simp [hplain]
  have hown : (run H reg (.patches [s] body) st).st.own = setOwn st.own s.tgt s.attr (some v) := by
    simp only [run, enter, hf, Bool.false_eq_true, if_false, hbody, unwind, hlk, setOwn_setOwn]
  refine ⟨hown, ?_⟩
  intro t a
  rw [hown]
  exact ownCopy_invisible H hH hL st.own s.tgt s.attr v hnone hv t a

theorem H2_linear : H2.Linear := by
  intro s t h
  by_cases hs : s = 1
  · subst hs
    simp [H2] at h
    rcases h with rfl | rfl
    · exact ⟨[], by simp [H2], by simp⟩
    · exact ⟨[1], by simp [H2], by simp⟩
  · simp [H2, hs] at h
    subst h
    exact ⟨[], by simp [H2, hs], by simp⟩

-- non-vacuity: the subclass alone is patched (its base is not): it ends with an own copy of the
-- inherited value and resolves as before
example : (run H2 [] (.patches [⟨1, 0, .monkey 2, .none⟩] .raise) st2).st.own 1 0 = some (.tok 7) ∧
    lookup H2 (run H2 [] (.patches [⟨1, 0, .monkey 2, .none⟩] .raise) st2).st.own 1 0
      = lookup H2 st2.own 1 0 ∧
    (run H2 [] (.patches [⟨1, 0, .monkey 2, .none⟩] .raise) st2).good = false := by decide

/-! ### the x64 flag -/

open J2O.C18 in
/-- `to_onnx(…, enable_double_precision=en)` = `_temporary_x64(en)` around (`_force_jax_x64(en)`
    around tracing and lowering, then post-processing): for every body — nested conversions,
    flag writes, an exception at any point — the flag is left as found. -/
theorem x64_restored (en : Bool) (pre body post : XP) (f : Bool) :
    (xrun (.tmp en (.seq pre (.seq (.force en body) post))) f).1 = f := by
  simp only [xrun]
  exact ite_restore _ _

end J2O.C13
