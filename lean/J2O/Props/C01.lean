/-
C01 — property theorems (statements + proofs + non-vacuity examples only).

(a) composition
  * `dispatch_compositional`   per-equation correctness of the emitted sub-graphs ⇒ the lowered
                               node list computes what the jaxpr's equations compute (any number of
                               equations, any primitive semantics, nested bodies abstract)
  * `lowered_outputs_correct`  … hence every jaxpr output variable is read back from the graph
  * `bind_returned_correct`    both arity cases of `bind_returned_lowering_values` bind every
                               non-drop outvar to the value that computes it
(b) catalogue (semantic facts the regenerated recipes are checked against in `GenProps/C01*.lean`)
  * `fixed_eq_ideal_of_noOverflow`  the wrap-around (ORT) evaluation of a recipe equals the ideal
                               ℤ evaluation whenever no intermediate result leaves its dtype —
                               this is the "no-overflow hypothesis" of the ℤ-statements, made formal
  * `onnxRound_eq_jaxRoundEven` ONNX Round = `lax.round(TO_NEAREST_EVEN)` on all of ℚ
  * `onnxRound_eq_jaxRoundAway_partial` … = AWAY_FROM_ZERO off the ties;  the full statement is
                               REFUTED: `onnxRound_ne_jaxRoundAway_witness` (x = 1/2, 5/2, −1/2)
  * `roundAwayFix_correct`     the candidate repair (notes/C01-round-fix.diff) is AWAY_FROM_ZERO
  * `onnxArgMax_eq_jaxArgmax`, `onnxArgMin_eq_jaxArgmin` tie-breaking (first index) for all lists;
    `argMax_selectLast_refuted` the other attribute value is wrong
  * `onnxCumSum_eq_jaxCumsum`   CumSum(exclusive=0, reverse=r) = lax.cumsum(reverse=r), all lists;
    `cumSum_exclusive_refuted`
  * `oneHot_agree_partial` / `oneHot_negative_refuted`  ONNX OneHot wraps negative indices,
                               jax.nn.one_hot does not
-/
import J2O.Lemmas.C01
set_option linter.unusedSimpArgs false
set_option linter.unusedVariables false
set_option linter.unreachableTactic false
set_option linter.unusedTactic false
set_option linter.unnecessarySeqFocus false

namespace J2O.C01

/-! ## (a) composition -/

/-- **Compositionality of plugin dispatch.**  If every equation's emitted sub-graph computes its
    primitive on the bound inputs (`EqnLowered`, one hypothesis per equation, packaged by
    `Lowered`), then running the whole lowered node list from any graph environment that agrees
    with the jaxpr environment — and in which the names the node list defines are fresh (SSA) —
    succeeds, agrees with the jaxpr environment after all equations, and has overwritten
    nothing.  Unbounded number of equations; `sem`/`osem` arbitrary (nested bodies abstract). -/
theorem dispatch_compositional {P O V : Type} (sem : P → List V → List V) (osem : O → List V → List V)
    {m m' : Nat → Option Nat} {eqns : List (Eqn P V)} {nodes : List (GNode O)}
    (h : Lowered sem osem m eqns nodes m') :
    ∀ (jenv g : Env V), Agree jenv g m → FreshFor g nodes →
      ∀ jenv', evalEqns sem jenv eqns = some jenv' →
      ∃ g', runNodes osem g nodes = some g' ∧ Agree jenv' g' m' ∧ Extends g g' := by
  induction h with
  | nil m =>
    intro jenv g hag _ jenv' hev
    simp only [evalEqns, Option.some.injEq] at hev
    subst hev
    exact ⟨g, rfl, hag, fun _ _ h => h⟩
  | @cons m m1 m' e es new rest hl _ ih =>
    intro jenv g hag hfresh jenv' hev
    simp only [evalEqns] at hev
    obtain ⟨hnd, hfr⟩ := hfresh
    rw [outNames_append] at hnd hfr
    cases hj : evalEqn sem jenv e with
    | none => rw [hj] at hev; exact absurd hev (by simp)
    | some jenv1 =>
      rw [hj] at hev
      obtain ⟨g1, hrun1, hag1, hext1⟩ := eqn_step sem osem hl jenv g hag
        (fun n hn => hfr n (List.mem_append_left _ hn)) jenv1 hj
      have hfresh1 : FreshFor g1 rest := by
        refine ⟨(List.nodup_append.mp hnd).2.1, ?_⟩
        intro n hn
        have hnot : n ∉ outNames new := fun hm =>
          (List.nodup_append.mp hnd).2.2 n hm n hn rfl
        rw [runNodes_frame osem new g g1 hrun1 n hnot]
        exact hfr n (List.mem_append_right _ hn)
      obtain ⟨g2, hrun2, hag2, hext2⟩ := ih jenv1 g1 hag1 hfresh1 jenv' hev
      exact ⟨g2, by rw [runNodes_append, hrun1]; exact hrun2, hag2,
        fun n a h => hext2 n a (hext1 n a h)⟩

/-- Every output *variable* of the jaxpr is read back from the lowered graph with the value the
    jaxpr computes (graph inputs/constants bound as `Agree` says at the start). -/
theorem lowered_outputs_correct {P O V : Type} (sem : P → List V → List V) (osem : O → List V → List V)
    {m m' : Nat → Option Nat} {eqns : List (Eqn P V)} {nodes : List (GNode O)}
    (h : Lowered sem osem m eqns nodes m') (jenv g : Env V) (hag : Agree jenv g m)
    (hfresh : FreshFor g nodes)
    (jenv' : Env V) (hev : evalEqns sem jenv eqns = some jenv') (x : Nat) (a : V)
    (hx : evalAtom jenv' (.var x) = some a) :
    ∃ g' n, runNodes osem g nodes = some g' ∧ m' x = some n ∧ g' n = some a := by
  obtain ⟨g', hrun, hag', _⟩ := dispatch_compositional sem osem h jenv g hag hfresh jenv' hev
  obtain ⟨n, hm, hg⟩ := hag' x a hx
  exact ⟨g', n, hrun, hm, hg⟩

-- non-vacuity: the one-equation program `y = neg x` over ℤ lowered to one `neg` node satisfies
-- the per-equation hypothesis, hence `Lowered`.
section Example
def semEx : String → List Int → List Int
  | "neg", [a] => [-a]
  | _, _ => []
def e1 : Eqn String Int := ⟨"neg", [.var 0], [some 1]⟩
def n1 : GNode String := ⟨"neg", [10], [11]⟩
def m0 : Nat → Option Nat := fun x => if x = 0 then some 10 else none
def m1 : Nat → Option Nat := fun x => if x = 1 then some 11 else m0 x

theorem example_eqn_lowered : EqnLowered semEx semEx e1 m0 [n1] m1 := by
  refine ⟨?_, ?_⟩
  · intro g vals hb _
    match vals, hb with
    | [v], ⟨⟨n, hn, hg⟩, _⟩ =>
      have hn10 : n = 10 := by
        simp only [m0, if_true, Option.some.injEq] at hn; exact hn.symm
      subst hn10
      refine ⟨bindVars g [11] [-v], ?_, ?_⟩
      · simp [runNodes, runNode, n1, lookupAll, hg, semEx]
      · intro x a hx
        simp only [e1, semEx, bindOuts, Env.set, Env.empty] at hx
        split at hx
        · next h1 =>
          subst h1
          simp only [Option.some.injEq] at hx
          subst hx
          exact ⟨11, by simp [m1], by simp [bindVars, Env.set]⟩
        · exact absurd hx (by simp)
  · intro x hx
    have : x ≠ 1 := by
      intro h; subst h; exact hx (by simp [e1])
    simp [m1, this]

example : Lowered semEx semEx m0 [e1] ([n1] ++ []) m1 := .cons example_eqn_lowered (.nil m1)
end Example

/-! ### `bind_returned_lowering_values` -/

/-- **Returned-value binding is correct in both arity cases.**  `want i` is the graph value
    that computes output `i` of the equation.  If every already-bound non-drop outvar is bound
    correctly (`pre`) and the plugin returned either one value per non-drop outvar or one value
    per still-unbound outvar, each being the wanted one, then after `bindReturned` every non-drop
    outvar is bound to its wanted value, and the rule does not raise. -/
theorem bind_returned_correct {N : Type} (outs : List OutVar) (want : Nat → N)
    (vals : List N)
    (hcase : (vals.length = (nonDropIdx outs).length ∧
                ∀ k (hk : k < vals.length), vals[k] = want ((nonDropIdx outs).getD k 0)) ∨
             (vals.length ≠ (nonDropIdx outs).length ∧ vals.length = (unboundIdx outs).length ∧
                ∀ k (hk : k < vals.length), vals[k] = want ((unboundIdx outs).getD k 0))) :
    match bindReturned outs (some vals) with
    | .error => False
    | .unchanged => unboundIdx outs = []
    | .bound bs =>
        (∀ p ∈ bs, p.2 = want p.1 ∧ p.1 ∈ unboundIdx outs) ∧
        (∀ i ∈ unboundIdx outs, ∃ p ∈ bs, p.1 = i) :=
  bindReturned_spec outs want vals hcase

example :  -- case 1: two outvars, the second already bound by the plugin, two values returned
    bindReturned [⟨false, true⟩, ⟨false, false⟩] (some ["a", "b"]) = .bound [(0, "a")] := by decide
example :  -- case 2: a drop-var, a pre-bound and an unbound outvar, one value returned
    bindReturned [⟨true, false⟩, ⟨false, false⟩, ⟨false, true⟩] (some ["c"]) = .bound [(2, "c")] := by
  decide
example : bindReturned [⟨false, true⟩, ⟨false, true⟩] (some ["a", "b", "c"]) =
    (.error : BindResult String) := by decide

/-! ## (b) catalogue: semantic facts -/

/-- **No-overflow ⇒ wrap-around evaluation = ideal evaluation.**  For every recipe over the
    vocabulary and every input list: if no intermediate integer result of the ideal (ℤ)
    evaluation leaves the range of its node's dtype, ONNX Runtime's fixed-width evaluation
    produces exactly the ideal values.  (This is what "ℤ under a no-overflow hypothesis" means in
    the catalogue statements of `GenProps/C01.lean`.) -/
theorem fixed_eq_ideal_of_noOverflow (nodes : List Node) (env : List Val)
    (h : noOverflow env nodes = true) : evalNodes .fixed env nodes = evalNodes .ideal env nodes :=
  evalNodes_fixed_eq_ideal nodes env h

example : noOverflow [.i 7, .i (-2)]
    [⟨.div, .i32, .i32, [0, 1]⟩, ⟨.mul, .i32, .i32, [2, 1]⟩, ⟨.sub, .i32, .i32, [0, 3]⟩] = true := by
  decide
example : noOverflow [.i 2147483647, .i 1] [⟨.add, .i32, .i32, [0, 1]⟩] = false := by decide

/-- ONNX `Round` (half to even) is `lax.round(·, TO_NEAREST_EVEN)` on every rational. -/
theorem onnxRound_eq_jaxRoundEven (x : ℚ) : roundHalfEven x = Jax.round .toNearestEven x :=
  roundHalfEven_eq_jax x

/-- Off the ties ONNX `Round` also agrees with `lax.round`'s default AWAY_FROM_ZERO …
    (partial: the hypothesis excludes exactly the half-integers). -/
theorem onnxRound_eq_jaxRoundAway_partial (x : ℚ) (h : x - (x.floor : ℚ) ≠ 1 / 2) :
    roundHalfEven x = Jax.round .awayFromZero x :=
  roundHalfEven_eq_away_of_not_tie x h

/-- … but the full statement `∀ x, roundHalfEven x = Jax.round .awayFromZero x` is FALSE — a fact about
    ONNX `Round` alone.  (Until commit 3e0a3fd /repo lowered `lax.round` to a bare `Round` and ignored
    `rounding_method`; the repaired recipe is proved in `GenProps/C01.lean::round_away_f32_correct`.) -/
theorem onnxRound_ne_jaxRoundAway_witness :
    roundHalfEven (1 / 2) = 0 ∧ Jax.round .awayFromZero (1 / 2) = 1 ∧
    roundHalfEven (5 / 2) = 2 ∧ Jax.round .awayFromZero (5 / 2) = 3 ∧
    roundHalfEven (-1 / 2) = 0 ∧ Jax.round .awayFromZero (-1 / 2) = -1 := by
  decide +kernel

theorem onnxRound_eq_jaxRoundAway_refuted :
    ¬ ∀ x : ℚ, roundHalfEven x = Jax.round .awayFromZero x := by
  intro h
  have := h (1 / 2)
  revert this
  decide +kernel

/-- The repair `Sign(x) · (Floor|x| + [|x| − Floor|x| ≥ ½])` (now in /repo) is AWAY_FROM_ZERO. -/
theorem roundAwayFix_correct (x : ℚ) : roundAwayFix x = Jax.round .awayFromZero x :=
  roundAwayFix_eq x

example : Jax.round .toNearestEven (5 / 2) = 2 ∧ Jax.round .toNearestEven (7 / 2) = 4 ∧
    Jax.round .toNearestEven (-5 / 2) = -2 := by decide +kernel

/-- ONNX `ArgMax(select_last_index=0)` = `lax.argmax` (first maximal index), every list. -/
theorem onnxArgMax_eq_jaxArgmax (l : List Int) : Onnx.argMax false l = Jax.argmax l :=
  argMax_first_eq l

theorem onnxArgMin_eq_jaxArgmin (l : List Int) : Onnx.argMin false l = Jax.argmin l :=
  argMin_first_eq l

/-- With `select_last_index=1` the tie-breaking is wrong. -/
theorem argMax_selectLast_refuted : ¬ ∀ l : List Int, Onnx.argMax true l = Jax.argmax l := by
  intro h
  have := h [3, 1, 3]
  revert this
  decide

example : Onnx.argMax false [1, 3, 3, 2, 3] = some 1 ∧ Jax.argmax [1, 3, 3, 2, 3] = some 1 := by
  decide

/-- ONNX `CumSum(exclusive=0, reverse=r)` (by its index specification) = `lax.cumsum(reverse=r)`
    (a running scan), for every list and both directions. -/
theorem onnxCumSum_eq_jaxCumsum (reverse : Bool) (l : List Int) :
    Onnx.cumSum false reverse l = Jax.cumsum reverse l :=
  cumSum_eq reverse l

theorem cumSum_exclusive_refuted : ¬ ∀ l : List Int, Onnx.cumSum true false l = Jax.cumsum false l := by
  intro h
  have := h [1]
  revert this
  decide

example : Onnx.cumSum false true [1, 2, 3] = [6, 5, 3] ∧ Jax.cumsum true [1, 2, 3] = [6, 5, 3] := by
  decide

/-- `jax.nn.one_hot` and ONNX `OneHot` agree for every non-negative index (in range or not) and
    every depth … (partial: the hypothesis excludes negative indices). -/
theorem oneHot_agree_partial (depth : Nat) (i : Int) (h : 0 ≤ i) :
    Onnx.oneHot depth i = Jax.oneHot depth i := by
  simp only [Onnx.oneHot, Jax.oneHot]
  have : ¬ i < 0 := by omega
  simp [this]

/-- … the full statement is FALSE: ONNX wraps `-1` to the last class. -/
theorem oneHot_negative_refuted : ¬ ∀ (depth : Nat) (i : Int), Onnx.oneHot depth i = Jax.oneHot depth i := by
  intro h
  have := h 5 (-1)
  revert this
  decide

end J2O.C01
