/-
C08 — theorems for the extended vocabulary, for call sites of model-local functions and for the
rank-only treatment of Loop/Scan bodies.

* `XSem ρ n y k`      what ONNX says the run time does at a node of kind `k` (dtype and shape of the output `y`
                      as a relation to the inputs' runtime dtypes/shapes) — the specification the rules are
                      proved against; the harness validates it against ONNX Runtime on every observed node
                      (driver op `infer` on the runtime shapes, exact agreement required).
* `infer_sound`       for EVERY binding σ: true input annotations + `XSem` ⇒ the inferred element type is the
                      runtime element type and every inferred dim is true of the runtime shape.
* `nodeConsistentX_sound`, `nodeOk_sound`, `annotConsistentX_sound`: the checker over both vocabularies.
* `callSite_sound`    the checker applied to a function body AT a call site (actual argument annotations):
                      accepted ⇒ every annotation declared in the body — formals included — is true for the
                      tensors that call site passes.
* `loosen_rankOnly`   inside a Loop/Scan body (at any depth below it) every non-I/O node output and
                      initializer keeps ONLY dtype and rank; `loosen_body_mode`: bodies of other operators
                      inherit the mode of their scope.
-/
import J2O.Props.C08
import J2O.Model.C08Ops
set_option linter.unusedSimpArgs false
set_option linter.unusedVariables false

namespace J2O.C08
open J2O.MT

/-! ## list helpers -/

theorem forall₂_get {α β : Type} {R : α → β → Prop} {l : List α} {s : List β} (h : Forall₂ R l s) :
    ∀ (i : Nat) (a : α) (b : β), l[i]? = some a → s[i]? = some b → R a b := by
  induction h with
  | nil => intro i a b ha; simp at ha
  | cons h1 _ ih =>
    intro i a b ha hb
    cases i with
    | zero =>
      simp only [List.getElem?_cons_zero, Option.some.injEq] at ha hb
      subst ha; subst hb; exact h1
    | succ i =>
      simp only [List.getElem?_cons_succ] at ha hb
      exact ih i a b ha hb

theorem forall₂_take {α β : Type} {R : α → β → Prop} {l : List α} {s : List β} (h : Forall₂ R l s) :
    ∀ k : Nat, Forall₂ R (l.take k) (s.take k) := by
  induction h with
  | nil => intro k; simp; exact .nil
  | cons h1 _ ih =>
    intro k
    cases k with
    | zero => simp; exact .nil
    | succ k => simp only [List.take_succ_cons]; exact .cons h1 (ih k)

theorem forall₂_drop {α β : Type} {R : α → β → Prop} {l : List α} {s : List β} (h : Forall₂ R l s) :
    ∀ k : Nat, Forall₂ R (l.drop k) (s.drop k) := by
  induction h with
  | nil => intro k; simp; exact .nil
  | cons h1 h2 ih =>
    intro k
    cases k with
    | zero => simp; exact .cons h1 h2
    | succ k => simp only [List.drop_succ_cons]; exact ih k

theorem known_hold (σ : Binding) : ∀ t : List Nat, Forall₂ (dimHolds σ) (t.map Dim.known) t
  | [] => .nil
  | a :: t => .cons rfl (known_hold σ t)

theorem pick_hold {α β : Type} {R : α → β → Prop} {l : List α} {s : List β} (h : Forall₂ R l s) :
    ∀ (p : List Nat) (l' : List α) (s' : List β), pick l p = some l' → pick s p = some s' → Forall₂ R l' s'
  | [], l', s', hl, hs => by
    simp only [pick, Option.some.injEq] at hl hs
    subst hl; subst hs; exact .nil
  | i :: is, l', s', hl, hs => by
    simp only [pick] at hl hs
    cases ha : l[i]? with
    | none => rw [ha] at hl; simp at hl
    | some a =>
      cases hr : pick l is with
      | none => rw [ha, hr] at hl; simp at hl
      | some r =>
        cases hb : s[i]? with
        | none => rw [hb] at hs; simp at hs
        | some b =>
          cases hq : pick s is with
          | none => rw [hb, hq] at hs; simp at hs
          | some q =>
            rw [ha, hr] at hl
            rw [hb, hq] at hs
            simp only [Option.some.injEq] at hl hs
            subst hl; subst hs
            exact .cons (forall₂_get h i a b ha hb) (pick_hold h is r q hr hq)

/-! ## semantics of the extended vocabulary (ONNX operator specifications, shape/type part) -/

def shapesOf (ρ : String → RT) (xs : List String) : List (List Nat) := xs.map (fun x => (ρ x).shape)

/-- run-time extent of a concatenation along axis `k` -/
def axisSum (k : Nat) : List (List Nat) → Nat
  | [] => 0
  | s :: ss => (s[k]?).getD 0 + axisSum k ss

theorem sumAxis_hold (σ : Binding) (k : Nat) {ls : List (List Dim)} {cs : List (List Nat)}
    (h : Forall₂ (Forall₂ (dimHolds σ)) ls cs) : dimHolds σ (sumAxis k ls) (axisSum k cs) := by
  induction h with
  | nil => simp [sumAxis, axisSum, dimHolds]
  | @cons l c ls cs h1 _ ih =>
    simp only [sumAxis]
    split
    · rename_i a b hl hb
      rw [hb] at ih
      simp only [dimHolds] at ih ⊢
      have hlt : k < l.length := (List.getElem?_eq_some_iff.mp hl).1
      have hk : k < c.length := by have := h1.length_eq; omega
      have hc : c[k]? = some c[k] := List.getElem?_eq_getElem hk
      have hd := forall₂_get h1 k _ _ hl hc
      simp only [dimHolds] at hd
      simp only [axisSum, hc, Option.getD_some, hd, ih]
    · trivial

def XSem (ρ : String → RT) (n : Node) (y : String) : XKind → Prop
  | .bcastT k => (∀ x, n.ins[k]? = some x → (ρ y).dtype = (ρ x).dtype) ∧ NpBroadcast (shapesOf ρ n.ins) (ρ y).shape
  | .bcastFixed d => (ρ y).dtype = d ∧ NpBroadcast (shapesOf ρ n.ins) (ρ y).shape
  | .cast d => (ρ y).dtype = d ∧ ∀ x, n.ins.head? = some x → (ρ y).shape = (ρ x).shape
  | .shapeOf => (ρ y).dtype = INT64 ∧ ∀ x, n.ins.head? = some x → (ρ y).shape = [(ρ x).shape.length]
  | .transpose p => ∀ x, n.ins.head? = some x →
      (ρ y).dtype = (ρ x).dtype ∧ pick (ρ x).shape p = some (ρ y).shape
  | .expand t => ∀ x, n.ins.head? = some x →
      (ρ y).dtype = (ρ x).dtype ∧ NpBroadcast [(ρ x).shape, t] (ρ y).shape
  | .reshapeTo t => (ρ y).shape = t ∧ ∀ x, n.ins.head? = some x → (ρ y).dtype = (ρ x).dtype
  | .const d s => (ρ y).dtype = d ∧ (ρ y).shape = s
  | .gather a => (∀ x, n.ins.head? = some x → (ρ y).dtype = (ρ x).dtype) ∧
      ∀ d i, n.ins = [d, i] → ∀ k, normAxis a (ρ d).shape.length = some k →
        (ρ y).shape = (ρ d).shape.take k ++ (ρ i).shape ++ (ρ d).shape.drop (k + 1)
  | .unsqueeze1 a => ∀ x, n.ins.head? = some x → (ρ y).dtype = (ρ x).dtype ∧
      ∀ k, normAxis a ((ρ x).shape.length + 1) = some k →
        (ρ y).shape = (ρ x).shape.take k ++ [1] ++ (ρ x).shape.drop k
  | .squeeze1 a => ∀ x, n.ins.head? = some x → (ρ y).dtype = (ρ x).dtype ∧
      ∀ k, normAxis a (ρ x).shape.length = some k →
        (ρ y).shape = (ρ x).shape.take k ++ (ρ x).shape.drop (k + 1)
  | .reduce1 a keep => ∀ x, n.ins.head? = some x → (ρ y).dtype = (ρ x).dtype ∧
      ∀ k, normAxis a (ρ x).shape.length = some k →
        (ρ y).shape = (ρ x).shape.take k ++ (if keep then [1] else []) ++ (ρ x).shape.drop (k + 1)
  | .concat a => (∀ x, n.ins.head? = some x → (ρ y).dtype = (ρ x).dtype) ∧
      ∀ x, n.ins.head? = some x → ∀ k, normAxis a (ρ x).shape.length = some k →
        (ρ y).shape = (ρ x).shape.take k ++ [axisSum k (shapesOf ρ n.ins)] ++ (ρ x).shape.drop (k + 1)
  | .none => True

theorem dimsAll_hold (σ : Binding) (ρ : String → RT) (vi : List (String × Annot)) :
    ∀ (xs : List String) (ls : List (List Dim)), dimsAll vi xs = some ls →
      (∀ x ∈ xs, holdsAt σ ρ vi x) → Forall₂ (Forall₂ (dimHolds σ)) ls (shapesOf ρ xs)
  | [], ls, h, _ => by
    simp only [dimsAll, Option.some.injEq] at h
    subst h; exact .nil
  | x :: xs, ls, h, hin => by
    simp only [dimsAll] at h
    cases hl : (annotOf vi x).dims with
    | none => rw [hl] at h; simp at h
    | some l =>
      cases hr : dimsAll vi xs with
      | none => rw [hl, hr] at h; simp at h
      | some r =>
        rw [hl, hr] at h
        simp only [Option.some.injEq] at h
        subst h
        exact .cons ((hin x List.mem_cons_self).2 l hl)
          (dimsAll_hold σ ρ vi xs r hr (fun z hz => hin z (List.mem_cons_of_mem _ hz)))

theorem in0Dims_some {vi : List (String × Annot)} {n : Node} {l : List Dim} (h : in0Dims vi n = some l) :
    ∃ x, n.ins.head? = some x ∧ x ∈ n.ins ∧ (annotOf vi x).dims = some l := by
  unfold in0Dims at h
  cases hi : n.ins with
  | nil => rw [hi] at h; simp at h
  | cons x xs =>
    rw [hi] at h
    exact ⟨x, rfl, List.mem_cons_self, by simpa using h⟩

theorem in0Dt_some {vi : List (String × Annot)} {n : Node} {d : Nat} (h : in0Dt vi n = some d) :
    ∃ x, n.ins.head? = some x ∧ x ∈ n.ins ∧ (annotOf vi x).dtype = some d := by
  unfold in0Dt at h
  cases hi : n.ins with
  | nil => rw [hi] at h; simp at h
  | cons x xs =>
    rw [hi] at h
    exact ⟨x, rfl, List.mem_cons_self, by simpa using h⟩

/-- dtype rule shared by the kinds whose output has the element type of input 0 -/
theorem in0Dt_sound (σ : Binding) (ρ : String → RT) (vi : List (String × Annot)) (n : Node) (y : String)
    (hin : ∀ x ∈ n.ins, holdsAt σ ρ vi x)
    (hs : ∀ x, n.ins.head? = some x → (ρ y).dtype = (ρ x).dtype) :
    ∀ d, in0Dt vi n = some d → (ρ y).dtype = d := by
  intro d hd
  obtain ⟨x, hx, hm, hdt⟩ := in0Dt_some hd
  rw [hs x hx]
  exact (hin x hm).1 d hdt

theorem normAxis_len {a : Int} {r r' : Nat} (h : r = r') : normAxis a r = normAxis a r' := by rw [h]

/-- **Soundness of the inference rules**, for every symbol binding: if the input annotations are true and
    the run time behaves as the operator specification says, the inferred element type is the runtime one
    and every inferred dim is true of the runtime shape (in particular the rank is right). -/
theorem infer_sound (σ : Binding) (ρ : String → RT) (vi : List (String × Annot)) (n : Node) (y : String)
    (k : XKind) (hs : XSem ρ n y k) (hin : ∀ x ∈ n.ins, holdsAt σ ρ vi x) :
    (∀ d, inferDt vi n k = some d → (ρ y).dtype = d) ∧
    (∀ r, inferDims vi n k = some r → Forall₂ (dimHolds σ) r (ρ y).shape) := by
  cases k with
  | bcastT j =>
    obtain ⟨hd, hb⟩ := hs
    refine ⟨?_, ?_⟩
    · intro d h
      simp only [inferDt] at h
      cases hx : n.ins[j]? with
      | none => rw [hx] at h; simp at h
      | some x =>
        rw [hx] at h
        rw [hd x hx]
        exact (hin x (List.mem_of_getElem? hx)).1 d h
    · intro r h
      simp only [inferDims] at h
      cases hl : dimsAll vi n.ins with
      | none => rw [hl] at h; simp at h
      | some ls =>
        rw [hl] at h
        exact broadcastDims_sound σ ls _ r _ (dimsAll_hold σ ρ vi n.ins ls hl hin) hb h
  | bcastFixed d0 =>
    obtain ⟨hd, hb⟩ := hs
    refine ⟨?_, ?_⟩
    · intro d h
      simp only [inferDt, Option.some.injEq] at h
      rw [hd, h]
    · intro r h
      simp only [inferDims] at h
      cases hl : dimsAll vi n.ins with
      | none => rw [hl] at h; simp at h
      | some ls =>
        rw [hl] at h
        exact broadcastDims_sound σ ls _ r _ (dimsAll_hold σ ρ vi n.ins ls hl hin) hb h
  | cast d0 =>
    obtain ⟨hd, hsh⟩ := hs
    refine ⟨?_, ?_⟩
    · intro d h
      simp only [inferDt, Option.some.injEq] at h
      rw [hd, h]
    · intro r h
      simp only [inferDims] at h
      obtain ⟨x, hx, hm, hl⟩ := in0Dims_some h
      rw [hsh x hx]
      exact (hin x hm).2 r hl
  | shapeOf =>
    obtain ⟨hd, hsh⟩ := hs
    refine ⟨?_, ?_⟩
    · intro d h
      simp only [inferDt, Option.some.injEq] at h
      rw [hd, h]
    · intro r h
      simp only [inferDims] at h
      cases hl : in0Dims vi n with
      | none => rw [hl] at h; simp at h
      | some l =>
        rw [hl] at h
        simp only [Option.some.injEq] at h
        subst h
        obtain ⟨x, hx, hm, hl'⟩ := in0Dims_some hl
        rw [hsh x hx]
        have := ((hin x hm).2 l hl').length_eq
        exact .cons (by simp only [dimHolds]; omega) .nil
  | transpose p =>
    refine ⟨in0Dt_sound σ ρ vi n y hin (fun x hx => (hs x hx).1), ?_⟩
    intro r h
    simp only [inferDims] at h
    cases hl : in0Dims vi n with
    | none => rw [hl] at h; simp at h
    | some l =>
      rw [hl] at h
      simp only at h
      split at h
      · obtain ⟨x, hx, hm, hl'⟩ := in0Dims_some hl
        exact pick_hold ((hin x hm).2 l hl') p r _ h (hs x hx).2
      · cases h
  | expand t =>
    refine ⟨in0Dt_sound σ ρ vi n y hin (fun x hx => (hs x hx).1), ?_⟩
    intro r h
    simp only [inferDims] at h
    cases hl : in0Dims vi n with
    | none => rw [hl] at h; simp at h
    | some l =>
      rw [hl] at h
      obtain ⟨x, hx, hm, hl'⟩ := in0Dims_some hl
      have H1 : Forall₂ (Forall₂ (dimHolds σ)) [l, t.map Dim.known] [(ρ x).shape, t] :=
        .cons ((hin x hm).2 l hl') (.cons (known_hold σ t) .nil)
      exact broadcastDims_sound σ _ _ r _ H1 (hs x hx).2 h
  | reshapeTo t =>
    obtain ⟨hsh, hd⟩ := hs
    refine ⟨in0Dt_sound σ ρ vi n y hin hd, ?_⟩
    intro r h
    simp only [inferDims, Option.some.injEq] at h
    subst h
    rw [hsh]
    exact known_hold σ t
  | const d0 s =>
    obtain ⟨hd, hsh⟩ := hs
    refine ⟨?_, ?_⟩
    · intro d h
      simp only [inferDt, Option.some.injEq] at h
      rw [hd, h]
    · intro r h
      simp only [inferDims, Option.some.injEq] at h
      subst h
      rw [hsh]
      exact known_hold σ s
  | gather a =>
    obtain ⟨hd, hsh⟩ := hs
    refine ⟨in0Dt_sound σ ρ vi n y hin hd, ?_⟩
    intro r h
    simp only [inferDims] at h
    split at h
    · rename_i d1 i1 hi
      cases hld : (annotOf vi d1).dims with
      | none => rw [hld] at h; simp at h
      | some ld =>
        cases hli : (annotOf vi i1).dims with
        | none => rw [hld, hli] at h; simp at h
        | some li =>
          rw [hld, hli] at h
          simp only at h
          cases hk : normAxis a ld.length with
          | none => rw [hk] at h; simp at h
          | some k =>
            rw [hk] at h
            simp only [Option.some.injEq] at h
            subst h
            have hD := (hin d1 (by rw [hi]; simp)).2 ld hld
            have hI := (hin i1 (by rw [hi]; simp)).2 li hli
            have hk' : normAxis a (ρ d1).shape.length = some k := by rw [← hD.length_eq]; exact hk
            rw [hsh d1 i1 hi k hk']
            exact forall₂_append _ (forall₂_append _ (forall₂_take hD k) hI) (forall₂_drop hD (k + 1))
    · cases h
  | unsqueeze1 a =>
    refine ⟨in0Dt_sound σ ρ vi n y hin (fun x hx => (hs x hx).1), ?_⟩
    intro r h
    simp only [inferDims] at h
    cases hl : in0Dims vi n with
    | none => rw [hl] at h; simp at h
    | some l =>
      rw [hl] at h
      simp only at h
      cases hk : normAxis a (l.length + 1) with
      | none => rw [hk] at h; simp at h
      | some k =>
        rw [hk] at h
        simp only [Option.some.injEq] at h
        subst h
        obtain ⟨x, hx, hm, hl'⟩ := in0Dims_some hl
        have hX := (hin x hm).2 l hl'
        have hk' : normAxis a ((ρ x).shape.length + 1) = some k := by rw [← hX.length_eq]; exact hk
        rw [(hs x hx).2 k hk']
        exact forall₂_append _ (forall₂_append _ (forall₂_take hX k) (.cons (show dimHolds σ (Dim.known 1) 1 from rfl) .nil)) (forall₂_drop hX k)
  | squeeze1 a =>
    refine ⟨in0Dt_sound σ ρ vi n y hin (fun x hx => (hs x hx).1), ?_⟩
    intro r h
    simp only [inferDims] at h
    cases hl : in0Dims vi n with
    | none => rw [hl] at h; simp at h
    | some l =>
      rw [hl] at h
      simp only at h
      cases hk : normAxis a l.length with
      | none => rw [hk] at h; simp at h
      | some k =>
        rw [hk] at h
        simp only [Option.some.injEq] at h
        subst h
        obtain ⟨x, hx, hm, hl'⟩ := in0Dims_some hl
        have hX := (hin x hm).2 l hl'
        have hk' : normAxis a (ρ x).shape.length = some k := by rw [← hX.length_eq]; exact hk
        rw [(hs x hx).2 k hk']
        exact forall₂_append _ (forall₂_take hX k) (forall₂_drop hX (k + 1))
  | reduce1 a keep =>
    refine ⟨in0Dt_sound σ ρ vi n y hin (fun x hx => (hs x hx).1), ?_⟩
    intro r h
    simp only [inferDims] at h
    cases hl : in0Dims vi n with
    | none => rw [hl] at h; simp at h
    | some l =>
      rw [hl] at h
      simp only at h
      cases hk : normAxis a l.length with
      | none => rw [hk] at h; simp at h
      | some k =>
        rw [hk] at h
        simp only [Option.some.injEq] at h
        subst h
        obtain ⟨x, hx, hm, hl'⟩ := in0Dims_some hl
        have hX := (hin x hm).2 l hl'
        have hk' : normAxis a (ρ x).shape.length = some k := by rw [← hX.length_eq]; exact hk
        rw [(hs x hx).2 k hk']
        refine forall₂_append _ (forall₂_append _ (forall₂_take hX k) ?_) (forall₂_drop hX (k + 1))
        cases keep
        · exact .nil
        · exact .cons rfl .nil
  | concat a =>
    obtain ⟨hd, hsh⟩ := hs
    refine ⟨in0Dt_sound σ ρ vi n y hin hd, ?_⟩
    intro r h
    simp only [inferDims] at h
    cases hl : dimsAll vi n.ins with
    | none => rw [hl] at h; simp at h
    | some lls =>
      rw [hl] at h
      have hall := dimsAll_hold σ ρ vi n.ins lls hl hin
      cases lls with
      | nil => simp at h
      | cons l ls =>
        simp only at h
        cases hk : normAxis a l.length with
        | none => rw [hk] at h; simp at h
        | some k =>
          rw [hk] at h
          simp only [Option.some.injEq] at h
          subst h
          cases hi : n.ins with
          | nil => rw [hi] at hall; cases hall
          | cons x xs =>
            rw [hi] at hall
            have hall' := hall
            cases hall with
            | cons hX _ =>
              have hk' : normAxis a (ρ x).shape.length = some k := by rw [← hX.length_eq]; exact hk
              have hx : n.ins.head? = some x := by rw [hi]; rfl
              rw [hsh x hx k hk', hi]
              exact forall₂_append _ (forall₂_append _ (forall₂_take hX k) (.cons (sumAxis_hold σ k hall') .nil))
                (forall₂_drop hX (k + 1))
  | none =>
    refine ⟨?_, ?_⟩
    · intro d h; simp [inferDt] at h
    · intro r h; simp [inferDims] at h


/-! ## the checker over both vocabularies -/

/-- one accepted node of the extended vocabulary -/
theorem nodeConsistentK_sound (σ : Binding) (ρ : String → RT) (vi : List (String × Annot)) (n : Node)
    (k : XKind) (hc : nodeConsistentK vi n k = true)
    (hs : ∀ y, n.outsRaw = [y] → XSem ρ n y k)
    (hin : ∀ x ∈ n.ins, holdsAt σ ρ vi x) : ∀ y ∈ n.outsRaw, holdsAt σ ρ vi y := by
  unfold nodeConsistentK at hc
  split at hc
  · rename_i y ho
    intro y' hy'
    rw [ho] at hy'
    simp only [List.mem_singleton] at hy'
    subst hy'
    obtain ⟨hdt, hdims⟩ := infer_sound σ ρ vi n y' k (hs y' ho) hin
    simp only [Bool.and_eq_true, Bool.or_eq_true] at hc
    refine ⟨?_, ?_⟩
    · intro d hd
      rcases hc.1 with h1 | h1
      · rw [hd] at h1; simp at h1
      · have e : (annotOf vi y').dtype = inferDt vi n k := by simpa using h1
        exact hdt d (e ▸ hd)
    · intro ds hds
      have h2 := hc.2
      rw [hds] at h2
      simp only at h2
      cases hr : inferDims vi n k with
      | none => rw [hr] at h2; simp at h2
      | some r =>
        rw [hr] at h2
        exact forall₂_dimLe_sound σ (dimsLeB_sound ds r h2) _ (hdims r hr)
  · cases hc

theorem nodeConsistentX_sound (σ : Binding) (ρ : String → RT) (vi : List (String × Annot)) (n : Node)
    (hc : nodeConsistentX vi n = true)
    (hs : ∀ y, n.outsRaw = [y] → XSem ρ n y (xKind n))
    (hin : ∀ x ∈ n.ins, holdsAt σ ρ vi x) : ∀ y ∈ n.outsRaw, holdsAt σ ρ vi y :=
  nodeConsistentK_sound σ ρ vi n (xKind n) hc hs hin

/-- run-time behaviour assumed at a node of either vocabulary -/
def NodeSemAll (ρ : String → RT) (n : Node) : Prop :=
  if inVocab n then NodeSem ρ n else ∀ y, n.outsRaw = [y] → XSem ρ n y (xKind n)

theorem nodeOk_sound (σ : Binding) (ρ : String → RT) (vi : List (String × Annot)) (n : Node)
    (hc : nodeOk vi n = true) (hv : inVocabAll n = true) (hs : NodeSemAll ρ n)
    (hin : ∀ x ∈ n.ins, holdsAt σ ρ vi x) : ∀ y ∈ n.outsRaw, holdsAt σ ρ vi y := by
  unfold nodeOk at hc
  unfold NodeSemAll at hs
  by_cases h1 : inVocab n = true
  · simp only [h1, if_true] at hc hs
    exact nodeConsistent_sound σ ρ vi n hc h1 hs hin
  · simp only [h1, if_false] at hc hs
    have h2 : inVocabX n = true := by
      simp only [inVocabAll, Bool.or_eq_true] at hv
      rcases hv with h | h
      · exact absurd h h1
      · exact h
    simp only [h2, if_true] at hc
    exact nodeConsistentX_sound σ ρ vi n hc hs hin

/-- **Soundness of the checker over both vocabularies** (one scope).  Hypotheses as in
    `annotConsistent_sound`; `hext` is only needed for the values that nodes of the scope actually read. -/
theorem annotConsistentX_sound (σ : Binding) (ρ : String → RT) (g : Graph)
    (hc : annotConsistentX g = true)
    (hsem : ∀ n ∈ g.nodes, NodeSemAll ρ n)
    (hext : ∀ n ∈ g.nodes, ∀ x ∈ n.ins, x ∉ definedBy g.nodes → holdsAt σ ρ g.vinfo x)
    (hother : ∀ n ∈ g.nodes, inVocabAll n = false → ∀ y ∈ n.outs, holdsAt σ ρ g.vinfo y)
    (htopo : ∀ i n, g.nodes[i]? = some n → ∀ x ∈ n.ins, x ∈ definedBy g.nodes →
        x ∈ definedBy (g.nodes.take i)) :
    ∀ y ∈ definedBy g.nodes, holdsAt σ ρ g.vinfo y := by
  have key : ∀ k, ∀ y ∈ definedBy (g.nodes.take k), holdsAt σ ρ g.vinfo y := by
    intro k
    induction k with
    | zero => intro y hy; simp [definedBy] at hy
    | succ k ih =>
      intro y hy
      cases hn : g.nodes[k]? with
      | none =>
        have hlen : g.nodes.length ≤ k := by
          rcases Nat.lt_or_ge k g.nodes.length with h | h
          · have := List.getElem?_eq_getElem h; rw [this] at hn; cases hn
          · exact h
        rw [List.take_of_length_le (by omega)] at hy
        rw [List.take_of_length_le hlen] at ih
        exact ih y hy
      | some n =>
        have hk : k < g.nodes.length := by
          rcases Nat.lt_or_ge k g.nodes.length with h | h
          · exact h
          · have := List.getElem?_eq_none h; rw [this] at hn; cases hn
        have htake : g.nodes.take (k + 1) = g.nodes.take k ++ [n] := by
          rw [List.take_add_one, hn]; rfl
        rw [htake, definedBy_append] at hy
        rcases List.mem_append.mp hy with hy | hy
        · exact ih y hy
        · have hy' : y ∈ n.outs := by simpa [definedBy] using hy
          have hmem : n ∈ g.nodes := List.mem_of_getElem? hn
          by_cases hv : inVocabAll n = true
          · have hcn : nodeOk g.vinfo n = true := (List.all_eq_true.mp hc) n hmem
            refine nodeOk_sound σ ρ g.vinfo n hcn hv (hsem n hmem) ?_ y (outs_sub_outsRaw n y hy')
            intro x hx
            by_cases hd : x ∈ definedBy g.nodes
            · exact ih x (htopo k n hn x hx hd)
            · exact hext n hmem x hx hd
          · have hv' : inVocabAll n = false := by simpa using hv
            exact hother n hmem hv' y hy'
  intro y hy
  have := key g.nodes.length y (by rw [List.take_length]; exact hy)
  exact this

/-! ## one call site of a model-local function -/

theorem formalsOk_get (vi : List (String × Annot)) : ∀ (xs : List String) (as : List Annot),
    formalsOk vi xs as = true → ∀ (i : Nat) (x : String), xs[i]? = some x →
      ∃ a : Annot, as[i]? = some a ∧ annotWeakerB (annotOf vi x) a = true
  | [], _, _, i, x, hx => by simp at hx
  | _ :: _, [], h, _, _, _ => by simp [formalsOk] at h
  | x0 :: xs, a0 :: as, h, i, x, hx => by
    simp only [formalsOk, Bool.and_eq_true] at h
    cases i with
    | zero =>
      simp only [List.getElem?_cons_zero, Option.some.injEq] at hx
      subst hx
      exact ⟨a0, rfl, h.1⟩
    | succ i =>
      simp only [List.getElem?_cons_succ] at hx ⊢
      exact formalsOk_get vi xs as h.2 i x hx

/-- **The checker applied at a call site is sound.**  `args` are the annotations the CALL SITE has for the
    actual arguments; `ρ` is the valuation of the body's values in the instantiation of the body for this call
    (formal number `i` is bound to the tensor passed as actual number `i`, which satisfies the call site's
    annotation: `hargs`).  If `callSiteConsistent` accepts, every annotation the function declares for its
    formals and for the outputs of its nodes is true in this instantiation — whatever the other call sites
    pass.  (`hclosed`: the body reads only formals and node outputs, property C03.) -/
theorem callSite_sound (σ : Binding) (ρ : String → RT) (f : Func) (args : List Annot)
    (hc : callSiteConsistent f args = true)
    (hargs : ∀ (i : Nat) (x : String) (a : Annot), f.inputs[i]? = some x → args[i]? = some a →
        annotHolds σ a (ρ x))
    (hclosed : ∀ n ∈ f.nodes, ∀ x ∈ n.ins, x ∈ f.inputs ∨ x ∈ definedBy f.nodes)
    (hsem : ∀ n ∈ f.nodes, NodeSemAll ρ n)
    (hother : ∀ n ∈ f.nodes, inVocabAll n = false → ∀ y ∈ n.outs, holdsAt σ ρ f.vinfo y)
    (htopo : ∀ i n, f.nodes[i]? = some n → ∀ x ∈ n.ins, x ∈ definedBy f.nodes →
        x ∈ definedBy (f.nodes.take i)) :
    ∀ y ∈ f.inputs ++ definedBy f.nodes, holdsAt σ ρ f.vinfo y := by
  simp only [callSiteConsistent, Bool.and_eq_true] at hc
  obtain ⟨⟨hform, _⟩, hbody⟩ := hc
  have hformal : ∀ x ∈ f.inputs, holdsAt σ ρ f.vinfo x := by
    intro x hx
    obtain ⟨i, hi⟩ := List.getElem?_of_mem hx
    obtain ⟨a, ha, hw⟩ := formalsOk_get f.vinfo f.inputs args hform i x hi
    exact annotWeakerB_sound σ _ a _ hw (hargs i x a hi ha)
  have hdef := annotConsistentX_sound σ ρ f.asGraph hbody hsem
    (by
      intro n hn x hx hnd
      rcases hclosed n hn x hx with h | h
      · exact hformal x h
      · exact absurd h hnd)
    hother htopo
  intro y hy
  rcases List.mem_append.mp hy with h | h
  · exact hformal y h
  · exact hdef y h

/-! ## Loop / Scan bodies are processed rank-only, function bodies and other bodies are not -/

theorem loosen_sub_eq (r : Bool) (g b : Graph) (i j : Nat) (n : Node) (hn : g.nodes[i]? = some n)
    (hb : n.bodies[j]? = some b) :
    (loosenGraph r g).sub? i j = some (loosenGraph (r || forcesRankOnly n.op) b) := by
  unfold Graph.sub?
  rw [loosenGraph_nodes, loosenNodes_get, hn]
  simp only [Option.map_some, loosenNode_bodies, loosenBodies_get, hb]

/-- once rank-only, every scope below is rank-only -/
theorem loosen_at_true : ∀ (p : List (Nat × Nat)) (b g' : Graph), b.at? p = some g' →
    (loosenGraph true b).at? p = some (loosenGraph true g')
  | [], b, g', h => by
    simp only [Graph.at?, Option.some.injEq] at h ⊢
    subst h; rfl
  | (i, j) :: p, b, g', h => by
    simp only [Graph.at?] at h ⊢
    cases hs : b.sub? i j with
    | none => rw [hs] at h; cases h
    | some c =>
      rw [hs] at h
      unfold Graph.sub? at hs
      cases hn : b.nodes[i]? with
      | none => rw [hn] at hs; cases hs
      | some n =>
        rw [hn] at hs
        rw [loosen_sub_eq true b c i j n hn hs]
        simp only [Bool.true_or]
        exact loosen_at_true p c g' h

/-- **Every scope at or below a body of a `Loop` / `Scan` node is processed in rank-only mode**, whatever the
    mode of the enclosing scope (mirror of `_process_graph(..., rank_only=True)` for these two operators). -/
theorem loop_body_rank_only (r : Bool) (g b g' : Graph) (i j : Nat) (n : Node) (p : List (Nat × Nat))
    (hn : g.nodes[i]? = some n) (hop : forcesRankOnly n.op = true) (hb : n.bodies[j]? = some b)
    (hp : b.at? p = some g') :
    (loosenGraph r g).at? ((i, j) :: p) = some (loosenGraph true g') := by
  simp only [Graph.at?]
  rw [loosen_sub_eq r g b i j n hn hb, hop, Bool.or_true]
  exact loosen_at_true p b g' hp

/-- bodies of every other operator (If, …) inherit the mode of their scope -/
theorem other_body_inherits (r : Bool) (g b : Graph) (i j : Nat) (n : Node)
    (hn : g.nodes[i]? = some n) (hop : forcesRankOnly n.op = false) (hb : n.bodies[j]? = some b) :
    (loosenGraph r g).sub? i j = some (loosenGraph r b) := by
  rw [loosen_sub_eq r g b i j n hn hb, hop, Bool.or_false]

def rankOnlyAnnot (a : Annot) : Annot := ⟨a.dtype, a.dims.map (fun ds => ds.map (fun _ => Dim.unk))⟩

/-- what rank-only mode does to a scope: every non-I/O node output and initializer keeps dtype and rank only -/
theorem rankOnly_vinfo (g : Graph) :
    (loosenGraph true g).vinfo = g.vinfo.map (fun e =>
      if (touched g.inputs g.inits g.nodes g.outputs true).contains e.1 then (e.1, rankOnlyAnnot e.2) else e) := by
  have hd : loosenDim true = fun _ => Dim.unk := by
    funext d; simp [loosenDim]
  cases g with
  | mk i t ns o vi =>
    show loosenVinfo true (touched i t ns o true) vi = _
    unfold loosenVinfo
    apply List.map_congr_left
    intro e _
    by_cases hc : (touched i t ns o true).contains e.1 = true
    · simp only [hc, if_true, Graph.inputs, Graph.inits, Graph.nodes, Graph.outputs, loosenAnnot, rankOnlyAnnot, hd]
    · simp only [hc, Graph.inputs, Graph.inits, Graph.nodes, Graph.outputs, if_false, Bool.false_eq_true]

/-- … and a function body is processed like the main graph (mode `false`) -/
theorem func_body_mode (f : Func) : (loosenFunc f).asGraph = loosenGraph false f.asGraph := by
  simp only [loosenFunc, Func.asGraph, loosenGraph, Graph.nodes, Graph.vinfo]

/-! ## non-vacuity -/

def exX : Graph :=
  .mk ["x", "i"] ["shp"]
    [.mk "" "Transpose" ["x"] ["t"] ["perm=0,2,1"] [],
     .mk "" "Cast" ["t"] ["c"] ["to=6"] [],
     .mk "" "Gather" ["c", "i"] ["g"] ["axis=-1"] [],
     .mk "" "ReduceSum" ["g", "ax"] ["r"] ["keepdims=0", "in1=1"] [],
     .mk "" "Unsqueeze" ["r", "ax0"] ["u"] ["in1=0"] [],
     .mk "" "Greater" ["u", "u"] ["b"] [] [],
     .mk "" "Where" ["b", "u", "u"] ["w"] [] [],
     .mk "" "Shape" ["w"] ["s"] [] [],
     .mk "" "Expand" ["w", "shp"] ["e"] ["in1=2,1,1,1"] [],
     .mk "" "Reshape" ["e", "shp2"] ["z"] ["in1=4,7"] [],
     .mk "" "Pow" ["z", "z"] ["q"] [] []] ["q"]
    [("x", ⟨some 1, some [.sym "B", .known 3, .known 4]⟩), ("i", ⟨some 7, some [.known 5, .known 2]⟩),
     ("t", ⟨some 1, some [.sym "B", .known 4, .known 3]⟩), ("c", ⟨some 6, some [.sym "B", .known 4, .known 3]⟩),
     ("g", ⟨some 6, some [.sym "B", .known 4, .known 5, .known 2]⟩),
     ("r", ⟨some 6, some [.sym "B", .known 5, .known 2]⟩),
     ("u", ⟨some 6, some [.known 1, .sym "B", .known 5, .known 2]⟩),
     ("b", ⟨some 9, some [.known 1, .sym "B", .unk, .known 2]⟩),
     ("w", ⟨some 6, some [.known 1, .sym "B", .known 5, .known 2]⟩),
     ("s", ⟨some 7, some [.known 4]⟩),
     ("e", ⟨some 6, some [.known 2, .sym "B", .known 5, .known 2]⟩),
     ("z", ⟨some 6, some [.known 4, .known 7]⟩), ("q", ⟨some 6, some [.known 4, .unk]⟩)]

/-- the kinds of the nodes of `exX` (what `xKind` computes from the attribute strings; the string parsing
    itself does not reduce in the kernel, the drivers evaluate it) -/
def exKinds : List XKind :=
  [.transpose [0, 2, 1], .cast 6, .gather (-1), .reduce1 1 false, .unsqueeze1 0, .bcastFixed BOOL, .bcastT 1,
   .shapeOf, .expand [2, 1, 1, 1], .reshapeTo [4, 7], .bcastT 0]

example : (exX.nodes.zip exKinds).all (fun p => nodeConsistentK exX.vinfo p.1 p.2) = true := by decide
private def rd (m : List (String × List Int)) (k : String) : Option (List Int) :=
  (m.find? (fun e => e.1 == k)).map (·.2)
example : xKindOf "Transpose" 1 (rd [("perm", [0, 2, 1])]) (fun _ => false) = .transpose [0, 2, 1] := by decide
example : xKindOf "Reshape" 2 (rd [("in1", [-1, 7])]) (fun _ => false) = .none := by decide
example : xKindOf "Reshape" 2 (rd [("in1", [4, 7])]) (fun _ => false) = .reshapeTo [4, 7] := by decide
example : xKindOf "ReduceSum" 2 (rd [("in1", [1]), ("keepdims", [0])]) (fun _ => false) = .reduce1 1 false := by decide
example : xKindOf "ReduceMax" 1 (rd [("axes", [-1])]) (fun _ => false) = .reduce1 (-1) true := by decide
example : xKindOf "Shape" 1 (rd []) (fun k => k == "start") = .none := by decide
example : xKindOf "Concat" 3 (rd [("axis", [-1])]) (fun _ => false) = .concat (-1) := by decide
example : inferDims [("a", ⟨some 1, some [.sym "B", .known 3]⟩), ("b", ⟨some 1, some [.sym "B", .known 4]⟩)]
    (.mk "" "Concat" ["a", "b"] ["c"] ["axis=-1"] []) (.concat (-1)) = some [.sym "B", .known 7] := by decide
example : inferDims [("a", ⟨some 1, some [.sym "B", .known 3]⟩), ("b", ⟨some 1, some [.known 2, .known 3]⟩)]
    (.mk "" "Concat" ["a", "b"] ["c"] ["axis=0"] []) (.concat 0) = some [.unk, .known 3] := by decide
example : xKind (.mk "" "Pow" ["z", "z"] ["q"] [] []) = .bcastT 0 := by decide
example : xKind (.mk "" "Gather" ["d", "i"] ["g"] [] []) = .gather 0 := by decide
-- a stale (un-permuted) Transpose annotation, a wrong Cast type and a wrong Gather rank are rejected
example : nodeConsistentK [("x", ⟨some 1, some [.known 2, .known 3]⟩), ("t", ⟨some 1, some [.known 2, .known 3]⟩)]
    (.mk "" "Transpose" ["x"] ["t"] ["perm=1,0"] []) (.transpose [1, 0]) = false := by decide
example : nodeConsistentK [("x", ⟨some 1, some [.known 2]⟩), ("c", ⟨some 1, some [.known 2]⟩)]
    (.mk "" "Cast" ["x"] ["c"] ["to=6"] []) (.cast 6) = false := by decide
example : nodeConsistentX [("d", ⟨some 1, some [.known 2, .known 3]⟩), ("i", ⟨some 7, some [.known 4]⟩),
      ("g", ⟨some 1, some [.known 4]⟩)]
    (.mk "" "Gather" ["d", "i"] ["g"] [] []) = false := by decide
-- `XSem` is satisfiable: a Transpose of a (2,3) tensor
example : XSem (fun v => if v = "x" then ⟨1, [2, 3]⟩ else ⟨1, [3, 2]⟩) (.mk "" "Transpose" ["x"] ["t"] ["perm=1,0"] [])
    "t" (.transpose [1, 0]) := by
  intro x hx
  simp only [Node.ins, List.head?_cons, Option.some.injEq] at hx
  subst hx
  exact ⟨rfl, rfl⟩

/-! Known finding F-C08-transpose-chain-castlike-stale-shape (unchanged tree): the real `optimize_graph` folds
    `Transpose[1,2,0] → Elu → CastLike(·, like) → Transpose[2,0,1]` on an input of shape (3,6,2) and leaves the
    Elu / CastLike outputs — and the graph output — declared `[6,2,3]`; ONNX Runtime returns (3,6,2).  The
    full-strength statement "every annotation of an optimized graph holds" is refuted by this witness, and the
    proven checker rejects the optimized graph. -/
theorem transpose_chain_stale_refuted :
    ¬ ∃ σ : Binding, annotHolds σ ⟨some 1, some [.known 6, .known 2, .known 3]⟩ ⟨1, [3, 6, 2]⟩ := by
  rintro ⟨σ, h⟩
  have a := h.2 _ rfl
  cases a with
  | cons ha _ => simp only [dimHolds] at ha; omega

example : annotConsistent (.mk ["in_0", "in_1"] []
    [.mk "" "Elu" ["in_0"] ["elu3"] ["alpha"] [], .mk "" "CastLike" ["elu3", "in_1"] ["cast5"] [] []] ["cast5"]
    [("in_0", ⟨some 1, some [.known 3, .known 6, .known 2]⟩), ("in_1", ⟨some 1, some [.known 6, .known 2, .known 3]⟩),
     ("elu3", ⟨some 1, some [.known 6, .known 2, .known 3]⟩),
     ("cast5", ⟨some 1, some [.known 6, .known 2, .known 3]⟩)]) = false := by decide

/-- a polymorphic function body stamped for FLOAT operands … -/
def exFn : Func :=
  { domain := "custom.f.1", name := "f", inputs := ["a"], outputs := ["m"], inits := [], imports := [("", 23)],
    nodes := [.mk "" "Neg" ["a"] ["n"] [] [], .mk "" "Mul" ["n", "a"] ["m"] [] []],
    vinfo := [("a", ⟨some 1, some [.known 4, .known 3]⟩), ("n", ⟨some 1, some [.known 4, .known 3]⟩),
              ("m", ⟨some 1, some [.known 4, .known 3]⟩)] }

-- … is consistent at a FLOAT call site and NOT at an INT32 call site of the same shape, nor at a (4,5) one
example : callSiteConsistent exFn [⟨some 1, some [.known 4, .known 3]⟩] = true := by decide
example : callSiteConsistent exFn [⟨some 6, some [.known 4, .known 3]⟩] = false := by decide
example : callSiteConsistent exFn [⟨some 1, some [.known 4, .known 5]⟩] = false := by decide
example : callSiteConsistent exFn [] = false := by decide

-- rank-only below a Loop: the Add output inside the body of `exLoop` keeps only dtype and rank
example : ((loosenGraph false exLoop).at? [(0, 0)]).map (fun g => lookup "t" g.vinfo) =
    some (some ⟨some 1, some [.unk, .unk]⟩) := by decide
example : forcesRankOnly "Loop" = true ∧ forcesRankOnly "Scan" = true ∧ forcesRankOnly "If" = false := by decide

end J2O.C08
