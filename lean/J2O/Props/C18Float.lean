/-
C18 — the float × float rows of the promotion table at full strength (round 2).

* `operands_exact_float`          `_comparison_operands` changes no value when expected and model output are real
                                  float tensors of the table's formats (float16 / float32 / float64, all 9 rows):
                                  the narrower side is widened, and IEEE rounding is the identity on every value of a
                                  narrower format (`roundFmt_widen`, Lemmas/C18Float.lean)
* `allclose_sound_float_widening` FULL STRENGTH: match ⇒ Agrees on those rows, for all well-typed values, NaN/±inf
                                  included, all tolerances ≥ 0 — e.g. a float64 model output against a float32
                                  expectation: finite 1e60 against +inf is a mismatch
* `float_narrowing_would_be_unsound`  the same float32/float64 row under a cast of the model output DOWN to the
                                  expected dtype (`decideAllOld`) matches finite 2²⁰⁰ against +inf
-/
import J2O.Lemmas.C18Float
import J2O.Props.C18
set_option linter.unusedSimpArgs false
set_option linter.unusedVariables false

namespace J2O.C18

theorem operands_exact_float (fe fg : Fmt) (he : fe ∈ stdFmts) (hg : fg ∈ stdFmts) (evals gvals : List El)
    (we : ∀ v ∈ evals, InFlt (.flt fe) v) (wg : ∀ v ∈ gvals, InFlt (.flt fg) v) :
    operands (.flt fe) evals (.flt fg) gvals = some (evals, gvals) := by
  unfold operands
  by_cases h1 : Kind.flt fg = Kind.flt fe
  · simp [h1]
  · simp only [h1, if_false]
    by_cases h2 : fg.p ≤ fe.p
    · simp only [canCastSafe, h2, decide_true, if_true]
      rw [castList_widen_std fg fe hg he h2 gvals wg]
      rfl
    · have h3 : fe.p ≤ fg.p := by omega
      simp only [canCastSafe, h2, decide_false, Bool.false_eq_true, if_false, resultKind, maxFmt, h3, if_true]
      rw [castList_widen_std fe fg he hg h3 evals we]
      have : castList (.flt fg) (.flt fg) gvals = some gvals := by
        clear wg
        induction gvals with
        | nil => rfl
        | cons v vs ih => simp [castList, castEl, ih]
      rw [this]

/-- **Soundness, full strength, float × float rows.** -/
theorem allclose_sound_float_widening (cfg : Cfg) (hr : 0 ≤ cfg.rtol) (ha : 0 ≤ cfg.atol)
    (es gs : List Tn)
    (hk : ∀ i (h₁ : i < es.length) (h₂ : i < gs.length),
      ∃ fe ∈ stdFmts, ∃ fg ∈ stdFmts, es[i].kind = .flt fe ∧ gs[i].kind = .flt fg ∧
        WellTypedF es[i] ∧ WellTypedF gs[i])
    (h : decideAll cfg es gs = .isMatch) : Agrees cfg es gs := by
  apply allclose_sound_partial cfg hr ha es gs _ h
  intro i h₁ h₂
  obtain ⟨fe, hfe, fg, hfg, ke, kg, w1, w2⟩ := hk i h₁ h₂
  have hnc : es[i].kind.isComplex = false := by simp [ke, Kind.isComplex]
  obtain ⟨nk, nv⟩ := normExact_noncomplex cfg i es[i] gs[i] hnc
  rw [nk, ke, kg]
  apply operands_exact_float fe fg hfe hfg
  · intro v hv
    have := w1 v hv
    rwa [ke] at this
  · intro v hv
    rcases nv v hv with hmem | rfl
    · have := w2 v hmem
      rwa [kg] at this
    · exact inFlt_zero fg

/-- expected float32 [+inf], model output float64 [2²⁰⁰] (finite, beyond the float32 range) -/
def n1e : Tn := ⟨.flt f32, [1], [⟨.pinf, zero⟩]⟩
def n1g : Tn := ⟨.flt f64, [1], [El.ofRat (2 ^ 200)]⟩

/-- the float32/float64 row is exact under promotion and unsound under a narrowing cast of the model output -/
theorem float_narrowing_would_be_unsound :
    decideAllOld dflt [n1e] [n1g] = .isMatch ∧ decideAll dflt [n1e] [n1g] = .value 0 ∧
      agreesB dflt [n1e] [n1g] = false := by
  decide +kernel

-- non-vacuity: float32 expectation [1/2, NaN], float64 output [1/2 + 2^-30, NaN] (not a float32 value): the
-- hypotheses hold and the verdict is a match under the default tolerances
example : f32 ∈ stdFmts ∧ f64 ∈ stdFmts := by decide
example : WellTypedF ⟨.flt f32, [2], [El.ofRat (1/2), ⟨.nan, zero⟩]⟩ ∧
    WellTypedF ⟨.flt f64, [2], [El.ofRat (1/2 + 1/1073741824), ⟨.nan, zero⟩]⟩ := by
  constructor <;> intro v hv <;> simp at hv <;> rcases hv with rfl | rfl <;>
    exact ⟨by unfold RepSc; decide +kernel, rfl⟩
example : decideAll dflt [⟨.flt f32, [2], [El.ofRat (1/2), ⟨.nan, zero⟩]⟩]
    [⟨.flt f64, [2], [El.ofRat (1/2 + 1/1073741824), ⟨.nan, zero⟩]⟩] = .isMatch := by decide +kernel
example : WellTypedF n1e ∧ WellTypedF n1g := by
  constructor <;> intro v hv <;> simp [n1e, n1g] at hv <;> subst hv <;>
    exact ⟨by unfold RepSc; decide +kernel, rfl⟩

end J2O.C18
