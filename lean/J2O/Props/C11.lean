/-
C11 — property theorems.

Specification:
* `InForce sigs v s`   `s` is THE signature of the operator at opset `v`: it is listed, `since ≤ v`,
                       and no other listed version `≤ v` is newer;
* `NodeLegal S v n`    the operator of `n` exists in the table, has a signature in force at `v`
                       (so: nothing newer than the declared opset), that signature is not
                       deprecated, admits `n`'s input and output counts and every attribute name;
* `ScopeHonours`       every node, at every nesting depth, of a graph: domain imported; default
                       domain ⇒ `NodeLegal`; otherwise a call of a function defined in the model;
* `OpsetHonoured S m`  the model declares a default-domain opset `v`; `ScopeHonours … v` for the
                       main graph; every function declares `fv ≤ v` and honours `fv` with its OWN
                       import list.

Theorems: `sigAt_inForce`, `nodeLegalB_sound`, `opsetLegal_sound` (unbounded nesting),
`function_imports_complete`, `inForce_unique`.
-/
import J2O.Model.C11
set_option linter.unusedSimpArgs false
set_option linter.unusedVariables false

namespace J2O.C11
open J2O.MT

structure InForce (sigs : List Sig) (v : Nat) (s : Sig) : Prop where
  listed : s ∈ sigs
  not_newer : s.since ≤ v
  latest : ∀ s' ∈ sigs, s'.since ≤ v → s'.since ≤ s.since

structure NodeLegal (S : Schemas) (v : Nat) (n : Node) : Prop where
  legal : ∃ sigs s, lookupOp S n.op = some sigs ∧ InForce sigs v s ∧ s.deprecated = false ∧
      s.minIn ≤ n.ins.length ∧ n.ins.length ≤ s.maxIn ∧
      s.minOut ≤ n.outsRaw.length ∧ n.outsRaw.length ≤ s.maxOut ∧
      ∀ a ∈ n.attrs, attrName a ∈ s.attrs

structure NodeHonours (S : Schemas) (v : Nat) (imports : List String) (funcs : List Func)
    (n : Node) : Prop where
  domain_imported : n.domain ∈ imports
  default_legal : n.domain = "" → NodeLegal S v n
  other_is_call : n.domain ≠ "" → ∃ f ∈ funcs, f.domain = n.domain ∧ f.name = n.op

def ScopeHonours (S : Schemas) (v : Nat) (imports : List String) (funcs : List Func) (g : Graph) : Prop :=
  ∀ p g', g.at? p = some g' → ∀ n ∈ g'.nodes, NodeHonours S v imports funcs n

structure OpsetHonoured (S : Schemas) (m : Model) : Prop where
  honoured : ∃ v, importVersion "" m.imports = some v ∧
    ScopeHonours S v (domainsOf m.imports) m.funcs m.graph ∧
    ∀ f ∈ m.funcs, ∃ fv, importVersion "" f.imports = some fv ∧ fv ≤ v ∧
      ScopeHonours S fv (domainsOf f.imports) m.funcs f.asGraph

/-! ### the signature in force -/

theorem pick_inv (sigs : List Sig) (v : Nat) (best : Option Sig) (s : Sig) (seen : List Sig)
    (hb : ∀ b, best = some b → b ∈ seen ∧ b.since ≤ v ∧ ∀ s' ∈ seen, s'.since ≤ v → s'.since ≤ b.since)
    (hn : best = none → ∀ s' ∈ seen, ¬ s'.since ≤ v) :
    (∀ b, pick best s v = some b → b ∈ s :: seen ∧ b.since ≤ v ∧
        ∀ s' ∈ s :: seen, s'.since ≤ v → s'.since ≤ b.since) ∧
    (pick best s v = none → ∀ s' ∈ s :: seen, ¬ s'.since ≤ v) := by
  unfold pick
  by_cases hs : s.since ≤ v
  · simp only [hs, if_true]
    cases best with
    | none =>
      refine ⟨?_, by simp⟩
      intro b hb'
      simp only [Option.some.injEq] at hb'
      subst hb'
      refine ⟨List.mem_cons_self, hs, ?_⟩
      intro s' hs' hle
      rcases List.mem_cons.mp hs' with h | h
      · subst h; exact Nat.le_refl _
      · exact absurd hle (hn rfl s' h)
    | some b0 =>
      obtain ⟨b1, b2, b3⟩ := hb b0 rfl
      by_cases hc : b0.since ≤ s.since
      · simp only [hc, if_true]
        refine ⟨?_, by simp⟩
        intro b hb'
        simp only [Option.some.injEq] at hb'
        subst hb'
        refine ⟨List.mem_cons_self, hs, ?_⟩
        intro s' hs' hle
        rcases List.mem_cons.mp hs' with h | h
        · subst h; exact Nat.le_refl _
        · exact Nat.le_trans (b3 s' h hle) hc
      · simp only [hc, if_false]
        refine ⟨?_, by simp⟩
        intro b hb'
        simp only [Option.some.injEq] at hb'
        subst hb'
        refine ⟨List.mem_cons_of_mem _ b1, b2, ?_⟩
        intro s' hs' hle
        rcases List.mem_cons.mp hs' with h | h
        · subst h; omega
        · exact b3 s' h hle
  · simp only [hs, if_false]
    refine ⟨?_, ?_⟩
    · intro b hb'
      obtain ⟨b1, b2, b3⟩ := hb b hb'
      refine ⟨List.mem_cons_of_mem _ b1, b2, ?_⟩
      intro s' hs' hle
      rcases List.mem_cons.mp hs' with h | h
      · subst h; exact absurd hle hs
      · exact b3 s' h hle
    · intro hbn s' hs'
      rcases List.mem_cons.mp hs' with h | h
      · subst h; exact hs
      · exact hn hbn s' h

theorem sigAtFrom_inv (v : Nat) : ∀ (rest : List Sig) (best : Option Sig) (seen : List Sig),
    (∀ b, best = some b → b ∈ seen ∧ b.since ≤ v ∧ ∀ s' ∈ seen, s'.since ≤ v → s'.since ≤ b.since) →
    (best = none → ∀ s' ∈ seen, ¬ s'.since ≤ v) →
    ∀ r, sigAtFrom best v rest = some r →
      (r ∈ seen ∨ r ∈ rest) ∧ r.since ≤ v ∧
      ∀ s', (s' ∈ seen ∨ s' ∈ rest) → s'.since ≤ v → s'.since ≤ r.since
  | [], best, seen, hb, hn, r, hr => by
    simp only [sigAtFrom] at hr
    obtain ⟨b1, b2, b3⟩ := hb r hr
    refine ⟨Or.inl b1, b2, ?_⟩
    intro s' hs' hle
    rcases hs' with h | h
    · exact b3 s' h hle
    · cases h
  | s :: rest, best, seen, hb, hn, r, hr => by
    simp only [sigAtFrom] at hr
    obtain ⟨p1, p2⟩ := pick_inv [] v best s seen hb hn
    obtain ⟨q1, q2, q3⟩ := sigAtFrom_inv v rest (pick best s v) (s :: seen) p1 p2 r hr
    refine ⟨?_, q2, ?_⟩
    · rcases q1 with h | h
      · rcases List.mem_cons.mp h with h | h
        · subst h; exact Or.inr List.mem_cons_self
        · exact Or.inl h
      · exact Or.inr (List.mem_cons_of_mem _ h)
    · intro s' hs' hle
      apply q3 s' _ hle
      rcases hs' with h | h
      · exact Or.inl (List.mem_cons_of_mem _ h)
      · rcases List.mem_cons.mp h with h | h
        · subst h; exact Or.inl List.mem_cons_self
        · exact Or.inr h

/-- `sigAt` returns the signature in force. -/
theorem sigAt_inForce (sigs : List Sig) (v : Nat) (s : Sig) (h : sigAt sigs v = some s) :
    InForce sigs v s := by
  unfold sigAt at h
  obtain ⟨h1, h2, h3⟩ := sigAtFrom_inv v sigs none [] (by intro b hb; cases hb) (by intro _ s' hs'; cases hs') s h
  refine ⟨?_, h2, ?_⟩
  · rcases h1 with h | h
    · cases h
    · exact h
  · intro s' hs' hle
    exact h3 s' (Or.inr hs') hle

/-- Two signatures in force at the same opset have the same version number. -/
theorem inForce_unique (sigs : List Sig) (v : Nat) (s t : Sig) (hs : InForce sigs v s)
    (ht : InForce sigs v t) : s.since = t.since := by
  have h1 := hs.latest t ht.listed ht.not_newer
  have h2 := ht.latest s hs.listed hs.not_newer
  omega

theorem nodeLegalB_sound (S : Schemas) (v : Nat) (n : Node) (h : nodeLegalB S v n = true) :
    NodeLegal S v n := by
  unfold nodeLegalB at h
  split at h
  · cases h
  · rename_i sigs hl
    split at h
    · cases h
    · rename_i s hs
      simp only [sigAdmits, Bool.and_eq_true, Bool.not_eq_true', decide_eq_true_eq] at h
      obtain ⟨⟨⟨⟨⟨h1, h2⟩, h3⟩, h4⟩, h5⟩, h6⟩ := h
      refine ⟨sigs, s, hl, sigAt_inForce sigs v s hs, h1, h2, h3, h4, h5, ?_⟩
      intro a ha
      exact List.contains_iff_mem.mp ((List.all_eq_true.mp h6) a ha)

theorem nodeOK_sound (S : Schemas) (v : Nat) (imports : List String) (funcs : List Func) (n : Node)
    (h : nodeOK S v imports funcs n = true) : NodeHonours S v imports funcs n := by
  simp only [nodeOK, Bool.and_eq_true] at h
  obtain ⟨h1, h2⟩ := h
  refine ⟨List.contains_iff_mem.mp h1, ?_, ?_⟩
  · intro hd
    simp only [hd, beq_self_eq_true, if_true] at h2
    exact nodeLegalB_sound S v n h2
  · intro hd
    have : (n.domain == "") = false := by simpa using hd
    simp only [this, Bool.false_eq_true, if_false, isCallOf] at h2
    obtain ⟨f, hf, hfd⟩ := List.any_eq_true.mp h2
    simp only [Bool.and_eq_true, beq_iff_eq] at hfd
    exact ⟨f, hf, hfd.1, hfd.2⟩

theorem scope_sound (S : Schemas) (v : Nat) (imports : List String) (funcs : List Func) (g : Graph)
    (h : allNodes (nodeOK S v imports funcs) g = true) : ScopeHonours S v imports funcs g := by
  intro p g' hg n hn
  exact nodeOK_sound S v imports funcs n (allNodes_sound _ g h p g' hg n hn)

/-- **Soundness of the legality checker**, for every nesting depth and every function body. -/
theorem opsetLegal_sound (S : Schemas) (m : Model) (h : opsetLegal S m = true) :
    OpsetHonoured S m := by
  unfold opsetLegal at h
  split at h
  · cases h
  · rename_i v hv
    simp only [Bool.and_eq_true] at h
    refine ⟨v, hv, scope_sound S v _ _ _ h.1, ?_⟩
    intro f hf
    have hfl := (List.all_eq_true.mp h.2) f hf
    unfold funcLegal at hfl
    split at hfl
    · cases hfl
    · rename_i fv hfv
      simp only [Bool.and_eq_true, decide_eq_true_eq] at hfl
      exact ⟨fv, hfv, hfl.1, scope_sound S fv _ _ _ hfl.2⟩

/-- **Function imports are complete**: in an accepted model every domain used by any node at any
    depth of a function body is declared in that function's own `opset_import`, the function
    declares a default-domain opset, and that opset is not newer than the model's. -/
theorem function_imports_complete (S : Schemas) (m : Model) (h : opsetLegal S m = true) :
    ∃ v, importVersion "" m.imports = some v ∧ ∀ f ∈ m.funcs,
      (∃ fv, importVersion "" f.imports = some fv ∧ fv ≤ v) ∧
      ∀ p g, f.asGraph.at? p = some g → ∀ n ∈ g.nodes, n.domain ∈ domainsOf f.imports := by
  obtain ⟨v, hv, _, hf⟩ := (opsetLegal_sound S m h).honoured
  refine ⟨v, hv, ?_⟩
  intro f hfm
  obtain ⟨fv, h1, h2, h3⟩ := hf f hfm
  exact ⟨⟨fv, h1, h2⟩, fun p g hg n hn => (h3 p g hg n hn).domain_imported⟩

/-! ### nested functions: a function called from a function body, to any call depth -/

/-- some node at some depth of `g` calls `(d, nm)` (a non-default domain) -/
def CalledFrom (g : Graph) (d nm : String) : Prop :=
  ∃ p g', g.at? p = some g' ∧ ∃ n ∈ g'.nodes, n.domain = d ∧ n.op = nm ∧ d ≠ ""

/-- `(d, nm)` is reached from the main graph through a chain of calls of any length: called from the main
    graph (any depth), or called from the body (any depth) of a DEFINITION of a reached name. -/
inductive Reached (m : Model) : String → String → Prop where
  | main {d nm : String} : CalledFrom m.graph d nm → Reached m d nm
  | nested {d nm d' nm' : String} (f : Func) : Reached m d nm → f ∈ m.funcs → f.domain = d → f.name = nm →
      CalledFrom f.asGraph d' nm' → Reached m d' nm'

/-- what an accepted model guarantees about a function definition -/
structure FuncHonours (S : Schemas) (v : Nat) (m : Model) (f : Func) : Prop where
  defined : f ∈ m.funcs
  honours : ∃ fv, importVersion "" f.imports = some fv ∧ fv ≤ v ∧
    ScopeHonours S fv (domainsOf f.imports) m.funcs f.asGraph

/-- **Nested function calls resolve and honour the opset, to any call depth.** In an accepted model every
    name reached from the main graph through a call chain of any length (function called from a function
    body called from …, each call at any nesting depth of Loop/If/Scan bodies) has a definition in the
    model; that definition declares a default opset not newer than the model's, its body honours that
    opset with its OWN import list, and the CALLER's import list (the model's for a call from the main
    graph, the calling function's own otherwise) contains the callee's domain. -/
theorem nested_functions_honour (S : Schemas) (m : Model) (h : opsetLegal S m = true) :
    ∃ v, importVersion "" m.imports = some v ∧
      ∀ d nm, Reached m d nm → ∃ f, f.domain = d ∧ f.name = nm ∧ FuncHonours S v m f := by
  obtain ⟨v, hv, hmain, hf⟩ := (opsetLegal_sound S m h).honoured
  refine ⟨v, hv, ?_⟩
  intro d nm hr
  cases hr with
  | main hc =>
    obtain ⟨p, g', hg, n, hn, hd, ho, hne⟩ := hc
    obtain ⟨f, hfm, hfd, hfn⟩ := (hmain p g' hg n hn).other_is_call (by rw [hd]; exact hne)
    exact ⟨f, by rw [hfd, hd], by rw [hfn, ho], hfm, hf f hfm⟩
  | nested c _ hcm _ _ hc =>
    obtain ⟨p, g', hg, n, hn, hd, ho, hne⟩ := hc
    obtain ⟨_, _, _, hcs⟩ := hf c hcm
    obtain ⟨f, hfm, hfd, hfn⟩ := (hcs p g' hg n hn).other_is_call (by rw [hd]; exact hne)
    exact ⟨f, by rw [hfd, hd], by rw [hfn, ho], hfm, hf f hfm⟩

/-- the caller side of a nested call: the calling function imports the callee's domain -/
theorem nested_call_domain_imported (S : Schemas) (m : Model) (h : opsetLegal S m = true) :
    ∀ c ∈ m.funcs, ∀ d nm, CalledFrom c.asGraph d nm →
      d ∈ domainsOf c.imports ∧ ∃ f ∈ m.funcs, f.domain = d ∧ f.name = nm := by
  obtain ⟨v, hv, _, hf⟩ := (opsetLegal_sound S m h).honoured
  intro c hc d nm hcall
  obtain ⟨p, g', hg, n, hn, hd, ho, hne⟩ := hcall
  obtain ⟨_, _, _, hcs⟩ := hf c hc
  have hh := hcs p g' hg n hn
  obtain ⟨f, hfm, hfd, hfn⟩ := hh.other_is_call (by rw [hd]; exact hne)
  exact ⟨hd ▸ hh.domain_imported, f, hfm, by rw [hfd, hd], by rw [hfn, ho]⟩

/-! ### element types against the type constraints -/

/-- The declared element types of the inputs of a default-domain node satisfy the type constraints of
    the signature in force: each annotated input has an admitted element type, and annotated inputs
    bound to one type variable (`T`) have one element type. -/
structure NodeTyped (S : Schemas) (v : Nat) (vis : List (String × Annot)) (n : Node) : Prop where
  typed : n.domain = "" → ∀ sigs s, lookupOp S n.op = some sigs → sigAt sigs v = some s →
    (∀ k x d, n.ins[k]? = some x → x ≠ "" → dtypeOf vis x = some d →
        allowedAt s k = [] ∨ d ∈ allowedAt s k) ∧
    (∀ k₁ k₂ x₁ x₂ d₁ d₂, n.ins[k₁]? = some x₁ → n.ins[k₂]? = some x₂ → x₁ ≠ "" → x₂ ≠ "" →
        dtypeOf vis x₁ = some d₁ → dtypeOf vis x₂ = some d₂ →
        varAt s k₁ ≠ 0 → varAt s k₁ = varAt s k₂ → d₁ = d₂) ∧
    -- each annotated output has an admitted element type
    (∀ k y d, n.outsRaw[k]? = some y → y ≠ "" → dtypeOf vis y = some d →
        allowedOutAt s k = [] ∨ d ∈ allowedOutAt s k) ∧
    -- an annotated output and an annotated input bound to one type variable have one element type
    (∀ k j y x d e, n.outsRaw[k]? = some y → n.ins[j]? = some x → y ≠ "" → x ≠ "" →
        dtypeOf vis y = some d → dtypeOf vis x = some e →
        varOutAt s k ≠ 0 → varOutAt s k = varAt s j → e = d) ∧
    -- an attribute whose type the model records has the type onnx.defs declares for that name
    (∀ a ∈ n.attrs, ∀ k t, attrKind a = some k → lookupTy (attrName a) s.attrTy = some t → k = t) ∧
    -- every attribute onnx.defs marks `required` is present
    (∀ r ∈ s.required, ∃ a ∈ n.attrs, attrName a = r)

structure TypesHonoured (S : Schemas) (m : Model) : Prop where
  honoured : ∃ v, importVersion "" m.imports = some v ∧
    (∀ p vis g, m.graph.atV? p [] = some (vis, g) → ∀ n ∈ g.nodes, NodeTyped S v vis n) ∧
    ∀ f ∈ m.funcs, ∃ fv, importVersion "" f.imports = some fv ∧
      ∀ p vis g, f.asGraph.atV? p [] = some (vis, g) → ∀ n ∈ g.nodes, NodeTyped S fv vis n

theorem inputFacts_mem (s : Sig) (vis : List (String × Annot)) :
    ∀ (ins : List String) (k0 k : Nat) (x : String) (d : Nat), ins[k]? = some x → x ≠ "" →
      dtypeOf vis x = some d → (k0 + k, d) ∈ inputFacts s vis ins k0
  | [], _, k, _, _, h, _, _ => by simp at h
  | y :: rest, k0, 0, x, d, h, hne, hd => by
    simp only [List.getElem?_cons_zero, Option.some.injEq] at h
    subst h
    have : (y == "") = false := by simpa using hne
    simp only [inputFacts, this, Bool.false_eq_true, if_false, hd, Nat.add_zero]
    exact List.mem_cons_self
  | y :: rest, k0, k + 1, x, d, h, hne, hd => by
    simp only [List.getElem?_cons_succ] at h
    have ih := inputFacts_mem s vis rest (k0 + 1) k x d h hne hd
    have e : k0 + 1 + k = k0 + (k + 1) := by omega
    rw [e] at ih
    simp only [inputFacts]
    split
    · exact ih
    · exact List.mem_cons_of_mem _ ih

theorem pairsOK_sound (s : Sig) : ∀ (l : List (Nat × Nat)), pairsOK s l = true →
    ∀ f ∈ l, ∀ g ∈ l, varAt s f.1 ≠ 0 → varAt s f.1 = varAt s g.1 → f.2 = g.2
  | [], _, f, hf, _, _, _, _ => by cases hf
  | x :: rest, h, f, hf, g, hg, hv, he => by
    simp only [pairsOK, Bool.and_eq_true] at h
    have hall := List.all_eq_true.mp h.1
    rcases List.mem_cons.mp hf with rfl | hf' <;> rcases List.mem_cons.mp hg with rfl | hg'
    · rfl
    · have := hall g hg'
      simp only [pairOK, Bool.or_eq_true, beq_iff_eq, bne_iff_ne, ne_eq] at this
      rcases this with (h0 | hne) | heq
      · exact absurd h0 hv
      · exact absurd he hne
      · exact heq
    · have := hall f hf'
      simp only [pairOK, Bool.or_eq_true, beq_iff_eq, bne_iff_ne, ne_eq] at this
      rcases this with (h0 | hne) | heq
      · exact absurd (he ▸ h0) hv
      · exact absurd he.symm hne
      · exact heq.symm
    · exact pairsOK_sound s rest h.2 f hf' g hg' hv he

theorem nodeTypedB_sound (S : Schemas) (v : Nat) (vis : List (String × Annot)) (n : Node)
    (h : nodeTypedB S v vis n = true) : NodeTyped S v vis n := by
  constructor
  intro hd sigs s hl hs
  have hdom : (n.domain != "") = false := by simp [hd]
  simp only [nodeTypedB, hdom, Bool.false_eq_true, if_false, hl, hs, sigTyped, Bool.and_eq_true] at h
  obtain ⟨⟨⟨⟨⟨h1, h2⟩, h3⟩, h4⟩, h5⟩, h6⟩ := h
  refine ⟨?_, ?_, ?_, ?_, ?_, ?_⟩
  · intro k x d hk hne hdt
    have hm := inputFacts_mem s vis n.ins 0 k x d hk hne hdt
    rw [Nat.zero_add] at hm
    have := (List.all_eq_true.mp h1) _ hm
    simp only [factOK, Bool.or_eq_true, List.isEmpty_iff] at this
    rcases this with h | h
    · exact Or.inl h
    · exact Or.inr (List.contains_iff_mem.mp h)
  · intro k₁ k₂ x₁ x₂ d₁ d₂ hk₁ hk₂ hn₁ hn₂ hd₁ hd₂ hv he
    have m₁ := inputFacts_mem s vis n.ins 0 k₁ x₁ d₁ hk₁ hn₁ hd₁
    have m₂ := inputFacts_mem s vis n.ins 0 k₂ x₂ d₂ hk₂ hn₂ hd₂
    rw [Nat.zero_add] at m₁ m₂
    exact pairsOK_sound s _ h2 _ m₁ _ m₂ hv he
  · intro k y d hk hne hdt
    have hm := inputFacts_mem s vis n.outsRaw 0 k y d hk hne hdt
    rw [Nat.zero_add] at hm
    have := (List.all_eq_true.mp h3) _ hm
    simp only [outFactOK, Bool.or_eq_true, List.isEmpty_iff] at this
    rcases this with h | h
    · exact Or.inl h
    · exact Or.inr (List.contains_iff_mem.mp h)
  · intro k j y x d e hk hj hny hnx hdy hdx hv he
    have mo := inputFacts_mem s vis n.outsRaw 0 k y d hk hny hdy
    have mi := inputFacts_mem s vis n.ins 0 j x e hj hnx hdx
    rw [Nat.zero_add] at mo mi
    have := (List.all_eq_true.mp ((List.all_eq_true.mp h4) _ mo)) _ mi
    simp only [linkOK, Bool.or_eq_true, beq_iff_eq, bne_iff_ne, ne_eq] at this
    rcases this with (h0 | hne) | heq
    · exact absurd h0 hv
    · exact absurd he hne
    · exact heq
  · intro a ha k t hk ht
    have := (List.all_eq_true.mp h5) a ha
    simp only [attrTypedOK, hk, ht, beq_iff_eq] at this
    exact this
  · intro r hr
    have := (List.all_eq_true.mp h6) r hr
    obtain ⟨a, ha, hae⟩ := List.any_eq_true.mp this
    exact ⟨a, ha, by simpa using hae⟩

/-- **Soundness of the element-type check**, every scope at every depth (annotations visible in a
    scope: its own, then those of the enclosing scopes), function bodies included. -/
theorem typesLegal_sound (S : Schemas) (m : Model) (h : typesLegal S m = true) : TypesHonoured S m := by
  unfold typesLegal at h
  split at h
  · cases h
  · rename_i v hv
    simp only [Bool.and_eq_true] at h
    refine ⟨v, hv, ?_, ?_⟩
    · intro p vis g hg n hn
      exact nodeTypedB_sound S v vis n (allNodesV_sound _ p [] m.graph h.1 vis g hg n hn)
    · intro f hf
      have hfl := (List.all_eq_true.mp h.2) f hf
      split at hfl
      · cases hfl
      · rename_i fv hfv
        refine ⟨fv, hfv, ?_⟩
        intro p vis g hg n hn
        exact nodeTypedB_sound S fv vis n (allNodesV_sound _ p [] f.asGraph hfl vis g hg n hn)

/-! ### non-vacuity (a hand-written two-operator table) -/

def exS : Schemas :=
  [("ReduceMean", [⟨1, 1, 1, 1, 1, false, ["axes", "keepdims"], [], [], false, [], [], [], [], false⟩, ⟨13, 1, 1, 1, 1, false, ["axes", "keepdims"], [], [], false, [], [], [], [], false⟩,
                   ⟨18, 1, 2, 1, 1, false, ["keepdims", "noop_with_empty_axes"], [], [], false, [], [], [], [], false⟩]),
   ("Swish", [⟨24, 1, 1, 1, 1, false, ["alpha"], [], [], false, [], [], [], [], false⟩]),
   ("Loop", [⟨21, 2, 1000, 1, 1000, false, ["body"], [], [], false, [], [], [], [], false⟩])]

def exM (v : Nat) (nodes : List Node) : Model :=
  { imports := [("", v)], graph := .mk ["x", "ax"] [] nodes ["y"] [], funcs := [] }

example : opsetLegal exS (exM 21 [.mk "" "ReduceMean" ["x", "ax"] ["y"] ["keepdims"] []]) = true := by decide
example : OpsetHonoured exS (exM 21 [.mk "" "ReduceMean" ["x", "ax"] ["y"] ["keepdims"] []]) :=
  opsetLegal_sound _ _ (by decide)
-- the axes attribute no longer exists at 18+
example : opsetLegal exS (exM 21 [.mk "" "ReduceMean" ["x"] ["y"] ["axes"] []]) = false := by decide
-- the axes input does not exist before 18
example : opsetLegal exS (exM 17 [.mk "" "ReduceMean" ["x", "ax"] ["y"] ["keepdims"] []]) = false := by decide
-- an operator newer than the declared opset, also when hidden in a loop body
example : opsetLegal exS (exM 23 [.mk "" "Swish" ["x"] ["y"] [] []]) = false := by decide
example : opsetLegal exS (exM 23 [.mk "" "Loop" ["x", "ax"] ["y"] ["body"]
    [.mk [] [] [.mk "" "Swish" ["x"] ["z"] [] []] ["z"] []]]) = false := by decide
example : opsetLegal exS (exM 24 [.mk "" "Loop" ["x", "ax"] ["y"] ["body"]
    [.mk [] [] [.mk "" "Swish" ["x"] ["z"] [] []] ["z"] []]]) = true := by decide
example : sigAt [⟨1, 1, 1, 1, 1, false, [], [], [], false, [], [], [], [], false⟩, ⟨18, 1, 2, 1, 1, false, [], [], [], false, [], [], [], [], false⟩, ⟨13, 1, 1, 1, 1, false, [], [], [], false, [], [], [], [], false⟩] 17
    = some ⟨13, 1, 1, 1, 1, false, [], [], [], false, [], [], [], [], false⟩ := by decide


def exT : Schemas :=
  [("Range", [⟨11, 3, 3, 1, 1, false, [], [[1, 11, 5, 6, 7], [1, 11, 5, 6, 7], [1, 11, 5, 6, 7]], [1, 1, 1], false, [], [], [], [], false⟩,
              ⟨27, 3, 3, 1, 1, false, [], [[1, 11, 5, 6, 7, 10, 16], [1, 11, 5, 6, 7, 10, 16], [1, 11, 5, 6, 7, 10, 16]], [1, 1, 1], false, [], [], [], [], false⟩]),
   ("Add", [⟨14, 2, 2, 1, 1, false, [], [[1, 11, 6, 7, 10, 16], [1, 11, 6, 7, 10, 16]], [1, 1], false, [], [], [], [], false⟩])]

def exTM (v : Nat) (nodes : List Node) (vi : List (String × Annot)) : Model :=
  { imports := [("", v)], graph := .mk ["a", "b", "c"] [] nodes ["y"] vi, funcs := [] }

-- bfloat16 (16) operands of Range: not admitted at opset 26, admitted at 27
example : typesLegal exT (exTM 26 [.mk "" "Range" ["a", "b", "c"] ["y"] [] []]
    [("a", ⟨some 16, some []⟩), ("b", ⟨some 16, some []⟩), ("c", ⟨some 16, some []⟩)]) = false := by decide
example : typesLegal exT (exTM 27 [.mk "" "Range" ["a", "b", "c"] ["y"] [] []]
    [("a", ⟨some 16, some []⟩), ("b", ⟨some 16, some []⟩), ("c", ⟨some 16, some []⟩)]) = true := by decide
-- Add(int32, int64): one type variable, two element types – also inside a loop body that captures `a`
example : typesLegal exT (exTM 23 [.mk "" "Add" ["a", "b"] ["y"] [] []]
    [("a", ⟨some 6, none⟩), ("b", ⟨some 7, none⟩)]) = false := by decide
example : typesLegal exT (exTM 23 [.mk "" "Loop" ["c"] ["y"] ["body"]
    [.mk ["i"] [] [.mk "" "Add" ["i", "a"] ["z"] [] []] ["z"] [("i", ⟨some 7, none⟩)]]]
    [("a", ⟨some 6, none⟩)]) = false := by decide
example : TypesHonoured exT (exTM 23 [.mk "" "Add" ["a", "b"] ["y"] [] []]
    [("a", ⟨some 6, none⟩), ("b", ⟨some 6, none⟩)]) := typesLegal_sound _ _ (by decide)

/-! nested functions: `outer` calls `inner` from inside a Loop body; `inner` uses Swish (since 24) -/
def exInner (fv : Nat) : Func :=
  { domain := "custom.inner", name := "inner", inputs := ["a"], outputs := ["b"], inits := [],
    imports := [("", fv)], nodes := [.mk "" "Swish" ["a"] ["b"] [] []], vinfo := [] }
def exOuter (imps : List (String × Nat)) : Func :=
  { domain := "custom.outer", name := "outer", inputs := ["a"], outputs := ["b"], inits := [],
    imports := imps,
    nodes := [.mk "" "Loop" ["a", "a"] ["b"] ["body"]
      [.mk ["i"] [] [.mk "custom.inner" "inner" ["i"] ["z"] [] []] ["z"] []]], vinfo := [] }
def exNested (v fv : Nat) (imps : List (String × Nat)) : Model :=
  { imports := [("", v), ("custom.outer", 1), ("custom.inner", 1)],
    graph := .mk ["x"] [] [.mk "custom.outer" "outer" ["x"] ["y"] [] []] ["y"] [],
    funcs := [exOuter imps, exInner fv] }

example : opsetLegal exS (exNested 24 24 [("", 24), ("custom.inner", 1)]) = true := by decide
-- the nested function is reached through a call chain of length two
example : Reached (exNested 24 24 [("", 24), ("custom.inner", 1)]) "custom.inner" "inner" :=
  .nested (exOuter [("", 24), ("custom.inner", 1)])
    (.main ⟨[], _, rfl, _, List.mem_cons_self, rfl, rfl, by decide⟩) List.mem_cons_self rfl rfl
    ⟨[(0, 0)], _, rfl, _, List.mem_cons_self, rfl, rfl, by decide⟩
example : ∃ f, f.domain = "custom.inner" ∧ f.name = "inner" ∧
    FuncHonours exS 24 (exNested 24 24 [("", 24), ("custom.inner", 1)]) f := by
  obtain ⟨v, hv, h⟩ := nested_functions_honour exS (exNested 24 24 [("", 24), ("custom.inner", 1)]) (by decide)
  have : v = 24 := by simpa [exNested, importVersion] using hv.symm
  subst this
  exact h _ _ (.nested (exOuter [("", 24), ("custom.inner", 1)])
    (.main ⟨[], _, rfl, _, List.mem_cons_self, rfl, rfl, by decide⟩) List.mem_cons_self rfl rfl
    ⟨[(0, 0)], _, rfl, _, List.mem_cons_self, rfl, rfl, by decide⟩)
-- the nested function's body is too new for ITS declared opset / the caller forgets the callee's domain
example : opsetLegal exS (exNested 24 23 [("", 24), ("custom.inner", 1)]) = false := by decide
example : opsetLegal exS (exNested 24 24 [("", 24)]) = false := by decide
-- a nested function may not declare a newer opset than the model
example : opsetLegal exS (exNested 23 24 [("", 23), ("custom.inner", 1)]) = false := by decide

/-! attribute types, required attributes, output element types -/
def exA : Schemas :=
  [("Cast", [⟨21, 1, 1, 1, 1, false, ["saturate", "to"], [[1, 6, 7, 10]], [1], false,
              [("saturate", 2), ("to", 2)], ["to"], [[1, 6, 7, 10]], [2], false⟩]),
   ("Relu", [⟨14, 1, 1, 1, 1, false, [], [[1, 6, 10]], [1], false, [], [], [[1, 6, 10]], [1], false⟩]),
   ("ReduceSum", [⟨13, 1, 2, 1, 1, false, ["keepdims", "noop_with_empty_axes"], [[1, 6, 10], [7]], [1, 0], false,
              [("keepdims", 2), ("noop_with_empty_axes", 2)], [], [[1, 6, 10]], [1], false⟩])]

example : attrName "to:2" = "to" ∧ attrKind "to:2" = some 2 ∧ attrName "to" = "to" ∧ attrKind "to" = none
    ∧ attrKind "axes:7" = some 7 ∧ attrKind "value:11" = some 11 := by decide
-- a typed attribute name is still checked by the arity / name checker
example : opsetLegal exA (exTM 23 [.mk "" "Cast" ["a"] ["y"] ["to:2"] []] []) = true := by decide
example : opsetLegal exA (exTM 23 [.mk "" "Cast" ["a"] ["y"] ["too:2"] []] []) = false := by decide
-- Cast without its required `to`; with `to` given as a FLOAT attribute; correct
example : typesLegal exA (exTM 23 [.mk "" "Cast" ["a"] ["y"] ["saturate:2"] []] []) = false := by decide
example : typesLegal exA (exTM 23 [.mk "" "Cast" ["a"] ["y"] ["to:1"] []] []) = false := by decide
example : typesLegal exA (exTM 23 [.mk "" "Cast" ["a"] ["y"] ["to:2"] []] []) = true := by decide
-- Relu declared float16 → float (one type variable, two element types), also in a loop body
example : typesLegal exA (exTM 23 [.mk "" "Relu" ["a"] ["y"] [] []]
    [("a", ⟨some 10, none⟩), ("y", ⟨some 1, none⟩)]) = false := by decide
example : typesLegal exA (exTM 23 [.mk "" "Loop" ["c"] ["y"] ["body"]
    [.mk ["i"] [] [.mk "" "Relu" ["a"] ["z"] [] []] ["z"] [("z", ⟨some 1, none⟩)]]]
    [("a", ⟨some 10, none⟩)]) = false := by decide
-- an output element type the signature does not admit (bfloat16 = 16)
example : typesLegal exA (exTM 23 [.mk "" "Cast" ["a"] ["y"] ["to:2"] []]
    [("a", ⟨some 1, none⟩), ("y", ⟨some 16, none⟩)]) = false := by decide
-- ReduceSum with `axes` still an attribute-typed INTS where the schema wants an input: name check
example : opsetLegal exA (exTM 23 [.mk "" "ReduceSum" ["a"] ["y"] ["axes:7"] []] []) = false := by decide
example : TypesHonoured exA (exTM 23 [.mk "" "Cast" ["a"] ["y"] ["to:2"] []]
    [("a", ⟨some 1, none⟩), ("y", ⟨some 6, none⟩)]) := typesLegal_sound _ _ (by decide)

end J2O.C11
