/-
C07 (round 2) — property theorems about the FULL key tuple and about name/domain allocation.

* `encKey_injective`            the nested Python tuple (`qualified_name`, `input_sig`, `capture_sig` laid out as
                                `_lower_and_call` / `_build_unique_signature` / `_value_fingerprint` do) determines the
                                model key: dictionary equality of live keys = equality of model keys
* `keyFields_determine_key`     the three dataclass fields together determine the key; `keyField_known` : the model
                                has a value for a field name iff it is one of `knownKeyFields`
* `structure_of_key`            equal keys ⇒ equal target, mode, shapes, DTYPES, SYMBOL PATTERN, keyword names (in call
                                order), kind/shape/dtype of every keyword — with NO assumption on the digests
* `shared_only_if_equal_key_full`  over every history: two call sites that use one definition have equal key TUPLES,
                                equal structure (no digest assumption) and — digests injective — equal captures incl.
                                bytes and the same instance / equal state
* `never_shared_if_structure_differs`, `never_shared_if_dtype_differs`, `never_shared_if_symbol_pattern_differs`,
  `never_shared_if_kwarg_order_differs`   the contrapositives the seeds of this class violate
* `component_in_field_*`        which dataclass field separates which component (rows of `fieldOfComponent`)
* `domain_name_unique_keys`     over every history: two call sites with DIFFERENT keys never get the same
                                (domain, name) — any namespace depth, base name ≠ "unique"; decimal counters
* `alloc_history_unique`        over every history of calls of `_allocate_friendly_name` on one context: no two calls
                                return the same (name, domain)
* `alloc_history_unique_refuted`   false for a base name literally `unique` (known finding F-C07-domain-collision)
* `domain_string_injective`     the dotted rendering of the segment list can be split back (dot-free segments)
* `step_miss_allocates`, `step_hit_keeps_counters`, `domainOf_render`   the registry machine allocates exactly through
                                `allocate`; the round-1 segment rendering equals `domSegs`
-/
import Std.Data.String.ToNat
import J2O.Lemmas.C07Key
import J2O.Props.C07
set_option linter.unusedSimpArgs false
set_option linter.unusedVariables false

namespace J2O.C07

/-! ### The key tuple -/

/-- **The tuple layout is injective.** Two model keys whose flattened Python tuples are equal are
    equal: `FunctionRegistry._defs` (a dict on the tuple) identifies exactly the keys the model
    identifies — tags, arities and the `(id, captures)` / `(("target", …), …)` layouts never clash. -/
theorem encKey_injective (k1 k2 : Key) (h : encKey k1 = encKey k2) : k1 = k2 := by
  unfold encKey at h
  have := pyT_inj _ _ h
  simp only [List.cons.injEq, PyVal.str.injEq, and_true] at this
  cases k1; cases k2
  simp only [Key.mk.injEq]
  exact ⟨this.1, encInSig_inj _ _ this.2.1, encCapSig_inj _ _ this.2.2⟩

/-- the model has a value for a field name iff the name is one of the known dataclass fields -/
theorem keyField_known (k : Key) (f : String) : (keyField k f).isSome = true ↔ f ∈ knownKeyFields := by
  unfold keyField knownKeyFields
  split <;> simp_all

/-- **The known fields determine the key**: nothing of the key lives outside the three fields. -/
theorem keyFields_determine_key (k1 k2 : Key)
    (h : ∀ f ∈ knownKeyFields, keyField k1 f = keyField k2 f) : k1 = k2 := by
  have h1 := h "qualified_name" (by decide)
  have h2 := h "input_sig" (by decide)
  have h3 := h "capture_sig" (by decide)
  simp only [keyField, Option.some.injEq, PyVal.str.injEq] at h1 h2 h3
  cases k1; cases k2
  simp only [Key.mk.injEq]
  exact ⟨h1, encInSig_inj _ _ h2, encCapSig_inj _ _ h3⟩

-- non-vacuity: two keys that differ only in the dtype of the second input have different tuples
example : encKey (mkKey exH exH (exSite [1,2] [7] "float32" false 1)) ≠
    encKey (mkKey exH exH (exSite [1,2] [7] "int32" false 1)) := by
  intro h
  exact absurd (encKey_injective _ _ h) (by decide)
example : ∃ k1 k2 : Key, k1 ≠ k2 ∧ keyField k1 "qualified_name" = keyField k2 "qualified_name" ∧
    keyField k1 "capture_sig" = keyField k2 "capture_sig" :=
  ⟨mkKey exH exH (exSite [1,2] [7] "float32" false 1), mkKey exH exH (exSite [1,2] [7] "int32" false 1),
   by decide, rfl, rfl⟩

/-- **What the key holds without any digest.** Equal keys ⇒ same target, same mode, same shapes,
    same dtypes, same symbol pattern of the positional inputs, same keyword names in the same
    order, same kind / shape / dtype of every keyword.  No hypothesis on `H`, `S`. -/
theorem structure_of_key (H S : Bytes → Nat) (c1 c2 : CallSite) (h : mkKey H S c1 = mkKey H S c2) :
    structureOf c1 = structureOf c2 := by
  have hq : c1.target = c2.target := by simpa [mkKey] using congrArg Key.qname h
  have hi : c1.inSig = c2.inSig := by simpa [mkKey] using congrArg Key.inSig h
  have hu : c1.unique = c2.unique := by
    rw [← isUniqueSig_mkKey H S c1, ← isUniqueSig_mkKey H S c2, h]
  have hc : mapSnd (capKey H) (effCaps c1) = mapSnd (capKey H) (effCaps c2) := by
    rw [← capsOf_mkKey H S c1, ← capsOf_mkKey H S c2, h]
  have hn := congrArg (fun l => l.map (fun p : String × CapKey => p.1)) hc
  have hs := congrArg (fun l => l.map (fun p : String × CapKey => capKeySkel p.2)) hc
  simp only [mapSnd_names, mapSnd_skels] at hn hs
  unfold structureOf
  rw [hq, hi, hu, hn, hs]

/-! ### Sharing over all call histories, full tuple -/

/-- **Shared only if equal key — the full tuple.** For every history of `enter`/`exit` events
    (any length, any nesting), two call sites that use the same definition have
    (1) equal key tuples as Python compares them, (2) the same digest-free structure: target,
    mode, shapes, dtypes, symbol pattern, keyword names/order/kinds, and (3) with injective digests
    the same captures incl. bytes and the same instance (default) / type and full state (unique). -/
theorem shared_only_if_equal_key_full (H S : Bytes → Nat) (ops : List Op) (e1 e2 : Entry)
    (h1 : e1 ∈ (run H S ops).log) (h2 : e2 ∈ (run H S ops).log) (h : e1.d.idx = e2.d.idx) :
    encKey (mkKey H S e1.site) = encKey (mkKey H S e2.site) ∧
    structureOf e1.site = structureOf e2.site ∧
    ((∀ a b, H a = H b → a = b) → (∀ a b, S a = S b → a = b) →
      effCaps e1.site = effCaps e2.site ∧ calleeAgrees e1.site e2.site) := by
  have hk := shared_only_if_equal_key H S ops e1 e2 h1 h2 h
  refine ⟨by rw [hk], structure_of_key H S _ _ hk, fun hH hS => ?_⟩
  have := key_injective H S hH hS _ _ hk
  exact ⟨this.2.2.1, this.2.2.2.2⟩

/-- Contrapositive, digest-free: call sites whose structure differs never share a definition. -/
theorem never_shared_if_structure_differs (H S : Bytes → Nat) (ops : List Op) (e1 e2 : Entry)
    (h1 : e1 ∈ (run H S ops).log) (h2 : e2 ∈ (run H S ops).log)
    (hd : structureOf e1.site ≠ structureOf e2.site) : e1.d.idx ≠ e2.d.idx :=
  fun h => hd (shared_only_if_equal_key_full H S ops e1 e2 h1 h2 h).2.1

/-- … in particular when an input dtype differs (same shapes allowed), -/
theorem never_shared_if_dtype_differs (H S : Bytes → Nat) (ops : List Op) (e1 e2 : Entry)
    (h1 : e1 ∈ (run H S ops).log) (h2 : e2 ∈ (run H S ops).log)
    (hd : e1.site.inSig.map (fun t => t.dtype) ≠ e2.site.inSig.map (fun t => t.dtype)) :
    e1.d.idx ≠ e2.d.idx :=
  never_shared_if_structure_differs H S ops e1 e2 h1 h2
    (fun h => hd (by simpa [structureOf] using congrArg Structure.dtypes h))

/-- … when the symbol pattern differs (`f(x:(B,), x)` vs `f(x:(B,), y:(N,))`), -/
theorem never_shared_if_symbol_pattern_differs (H S : Bytes → Nat) (ops : List Op) (e1 e2 : Entry)
    (h1 : e1 ∈ (run H S ops).log) (h2 : e2 ∈ (run H S ops).log)
    (hd : symPattern e1.site.inSig ≠ symPattern e2.site.inSig) : e1.d.idx ≠ e2.d.idx :=
  never_shared_if_structure_differs H S ops e1 e2 h1 h2
    (fun h => hd (by simpa [structureOf] using congrArg Structure.pattern h))

/-- … and when the same keywords are passed in a different order. -/
theorem never_shared_if_kwarg_order_differs (H S : Bytes → Nat) (ops : List Op) (e1 e2 : Entry)
    (h1 : e1 ∈ (run H S ops).log) (h2 : e2 ∈ (run H S ops).log)
    (hd : (effCaps e1.site).map (fun p => p.1) ≠ (effCaps e2.site).map (fun p => p.1)) :
    e1.d.idx ≠ e2.d.idx :=
  never_shared_if_structure_differs H S ops e1 e2 h1 h2
    (fun h => hd (by simpa [structureOf] using congrArg Structure.capNames h))

-- non-vacuity: histories whose two sites differ in dtype only / symbol pattern only / keyword order only
section
def exSym (a b : String) : CallSite :=
  { exSite [1] [7] "float32" false 1 with inSig := [⟨[a], "float32"⟩, ⟨[b], "float32"⟩] }
def exKw (names : List String) : CallSite :=
  { exSite [1] [7] "float32" false 1 with caps := names.map (fun n => (n, CapVal.dynamic ["3"] "float32")) }
example : symPattern (exSym "B" "B").inSig = [0, 0] ∧ symPattern (exSym "B" "N").inSig = [0, 1] := by decide
example : ((run exH exH [.enter (exSym "B" "B"), .exit, .enter (exSym "B" "N"), .exit,
    .enter (exSym "N" "N"), .exit]).log.map (fun e => e.d.idx)).reverse = [0, 1, 2] := by decide
example : ((run exH exH [.enter (exSite [1] [7] "float32" false 1), .exit,
    .enter (exSite [1] [7] "int32" false 1), .exit,
    .enter (exSite [1] [7] "float32" false 1), .exit]).log.map (fun e => e.d.idx)).reverse = [0, 1, 0] := by
  decide
example : ((run exH exH [.enter (exKw ["scale", "shift"]), .exit, .enter (exKw ["shift", "scale"]), .exit]).log.map
    (fun e => e.d.idx)).reverse = [0, 1] := by decide
example : structureOf (exSym "B" "B") ≠ structureOf (exSym "B" "N") := by decide
end

/-! ### Which dataclass field separates which component (rows of `fieldOfComponent`) -/

theorem component_in_field_target (H S : Bytes → Nat) (c1 c2 : CallSite) (hd : c1.target ≠ c2.target) :
    keyField (mkKey H S c1) "qualified_name" ≠ keyField (mkKey H S c2) "qualified_name" := by
  simpa [keyField, mkKey] using hd

/-- shape, dtype and symbol pattern all live in `input_sig` -/
theorem component_in_field_input_sig (H S : Bytes → Nat) (c1 c2 : CallSite)
    (hd : c1.inSig.map (fun t => t.shape) ≠ c2.inSig.map (fun t => t.shape) ∨
          c1.inSig.map (fun t => t.dtype) ≠ c2.inSig.map (fun t => t.dtype) ∨
          symPattern c1.inSig ≠ symPattern c2.inSig) :
    keyField (mkKey H S c1) "input_sig" ≠ keyField (mkKey H S c2) "input_sig" := by
  intro h
  simp only [keyField, Option.some.injEq, mkKey] at h
  have := encInSig_inj _ _ h
  rcases hd with hd | hd | hd <;> exact hd (by rw [this])

/-- keyword names / order / kinds / bytes, identity (default) and state (unique) live in `capture_sig` -/
theorem component_in_field_capture_sig (H S : Bytes → Nat) (hH : ∀ a b, H a = H b → a = b)
    (hS : ∀ a b, S a = S b → a = b) (c1 c2 : CallSite) (ht : c1.target = c2.target)
    (hi : c1.inSig = c2.inSig)
    (hd : effCaps c1 ≠ effCaps c2 ∨ c1.unique ≠ c2.unique ∨ ¬ calleeAgrees c1 c2) :
    keyField (mkKey H S c1) "capture_sig" ≠ keyField (mkKey H S c2) "capture_sig" := by
  intro h
  simp only [keyField, Option.some.injEq] at h
  have hc := encCapSig_inj _ _ h
  have hk : mkKey H S c1 = mkKey H S c2 := by
    have e1 : (mkKey H S c1).qname = (mkKey H S c2).qname := by simpa [mkKey] using ht
    have e2 : (mkKey H S c1).inSig = (mkKey H S c2).inSig := by simpa [mkKey] using hi
    cases hk1 : mkKey H S c1; cases hk2 : mkKey H S c2
    rw [hk1, hk2] at e1 e2 hc
    simp only at e1 e2 hc
    rw [e1, e2, hc]
  have := key_injective H S hH hS c1 c2 hk
  rcases hd with hd | hd | hd
  · exact hd this.2.2.1
  · exact hd this.2.2.2.1
  · exact hd this.2.2.2.2

example : fieldOfComponent "dtype" = some "input_sig" ∧ fieldOfComponent "symbol" = some "input_sig" ∧
    fieldOfComponent "target" = some "qualified_name" ∧ fieldOfComponent "weight" = some "capture_sig" := by
  decide
example : ∀ c, mustSeparate c = true → ∃ f ∈ knownKeyFields, fieldOfComponent c = some f := by
  intro c hc
  simp only [mustSeparate, List.mem_cons, decide_eq_true_eq] at hc
  rcases hc with rfl | rfl | rfl | rfl | rfl | rfl | rfl | rfl | rfl | rfl | rfl | h <;>
    first | exact ⟨_, by decide, rfl⟩ | simp at h

/-! ### Names -/

theorem repr_ne_unique (k : Nat) : Nat.repr k ≠ "unique" := by
  intro h
  have h2 : 'u' ∈ Nat.toDigits 10 k := by
    rw [← Nat.toList_repr, h]; simp
  have := Nat.isDigit_of_mem_toDigits (by decide) (by decide) h2
  exact absurd this (by decide)

/-- **(domain, name) unique per key.** In every history, two call sites whose keys differ never
    receive the same (domain, name) — at ANY namespace depth — provided the friendly base name is
    not literally `unique`.  `dec` = rendering of the counter (injective, never `unique`). -/
theorem domain_name_unique_keys (H S : Bytes → Nat) (dec : Nat → String)
    (hdec : ∀ a b, dec a = dec b → a = b) (hnum : ∀ k, dec k ≠ "unique")
    (ops : List Op) (e1 e2 : Entry)
    (h1 : e1 ∈ (run H S ops).log) (h2 : e2 ∈ (run H S ops).log)
    (hbase : e1.d.name ≠ "unique")
    (hne : mkKey H S e1.site ≠ mkKey H S e2.site) :
    (e1.d.name, e1.d.domainS dec) ≠ (e2.d.name, e2.d.domainS dec) := by
  have hI := inv_run H S ops
  intro heq
  simp only [Prod.mk.injEq, Def.name, Def.domainS] at heq
  obtain ⟨hck, hcnt⟩ := domSegs_inj dec hdec hnum _ _ _ _ heq.1 hbase heq.2
  have hidx := hI.cntInj e1 h1 e2 h2 hck hcnt
  have := (hI.idxKey e1 h1 e2 h2 hidx).1
  rw [hI.keyOk e1 h1, hI.keyOk e2 h2] at this
  exact hne this

/-- the same with Python's decimal `str(idx)` (= `Nat.repr`): no hypothesis on the rendering left -/
theorem domain_name_unique_keys_decimal (H S : Bytes → Nat) (ops : List Op) (e1 e2 : Entry)
    (h1 : e1 ∈ (run H S ops).log) (h2 : e2 ∈ (run H S ops).log)
    (hbase : e1.d.name ≠ "unique") (hne : mkKey H S e1.site ≠ mkKey H S e2.site) :
    (e1.d.name, e1.d.domainS Nat.repr) ≠ (e2.d.name, e2.d.domainS Nat.repr) :=
  domain_name_unique_keys H S Nat.repr (fun _ _ h => Nat.repr_injective h) repr_ne_unique ops e1 e2 h1 h2
    hbase hne

/-- **Allocator histories.** For every sequence of calls of `_allocate_friendly_name` on one
    context (any targets, namespaces of any depth, unique and shared mixed, any length), no two
    calls return the same (name, domain) — base names ≠ `unique`. -/
theorem alloc_history_unique (dec : Nat → String) (hdec : ∀ a b, dec a = dec b → a = b)
    (hnum : ∀ k, dec k ≠ "unique") (reqs : List CKey) (hb : ∀ ck ∈ reqs, ck.base ≠ "unique") :
    (allocRun dec [] reqs).Nodup := by
  rw [allocRun_eq_map]
  apply nodup_map_on _ _ _ (allocTags_nodup reqs [])
  intro a ha b hb' hab
  simp only [renderTag, Prod.mk.injEq] at hab
  obtain ⟨e1, e2⟩ := domSegs_inj dec hdec hnum a.1 b.1 a.2 b.2 hab.1
    (hb _ (allocTags_req reqs [] a ha)) hab.2
  exact Prod.ext e1 e2

/-- Without the side condition the statement is false: class `unique` in namespace `a`
    (unique=True, second definition) and class `unique` in namespace `a.unique` (default, second
    definition) both get `("unique", a.unique.unique.2)`.  (Replayed: F-C07-domain-collision.) -/
theorem alloc_history_unique_refuted :
    ¬ (∀ (dec : Nat → String) (reqs : List CKey), (∀ a b, dec a = dec b → a = b) →
        (allocRun dec [] reqs).Nodup) := by
  intro hall
  have := hall Nat.repr [⟨["a"], "unique", true⟩, ⟨["a"], "unique", true⟩, ⟨["a", "unique"], "unique", false⟩,
    ⟨["a", "unique"], "unique", false⟩] (fun _ _ h => Nat.repr_injective h)
  simp [allocRun, allocate, domSegs, count] at this

-- non-vacuity: same friendly name for two targets / two namespaces / both modes, six calls, six identifiers
example : allocRun Nat.repr [] [⟨["custom"], "Block", false⟩, ⟨["custom"], "Block", false⟩, ⟨["custom"], "Block", true⟩,
      ⟨["custom"], "Block", true⟩, ⟨["custom", "Block"], "Block", false⟩, ⟨["custom"], "Other", false⟩]
    = [("Block", ["custom", "Block", Nat.repr 1]), ("Block", ["custom", "Block", Nat.repr 2]),
       ("Block", ["custom", "Block", "unique"]), ("Block", ["custom", "Block", "unique", Nat.repr 2]),
       ("Block", ["custom", "Block", "Block", Nat.repr 1]), ("Other", ["custom", "Other", Nat.repr 1])] := by
  simp [allocRun, allocate, domSegs, count]

/-- the round-1 segment model (`domainOf`, what `drivers/C07.lean` prints) renders to `domSegs` -/
theorem domainOf_render (dec : Nat → String) (ck : CKey) (cnt : Nat) :
    (domainOf ck cnt).map (renderSeg dec) = domSegs dec ck cnt := by
  unfold domainOf domSegs
  cases ck.uniq <;> simp [renderSeg, List.map_append, Function.comp_def]
  split <;> simp [renderSeg]

/-- **A registry miss is one call of the allocator**: the definition `step` creates carries the
    (name, domain) that `allocate` returns, and the counter table is updated the same way — the
    allocator histories driven on the live `_allocate_friendly_name` and the registry machine
    driven by the exports are one model. -/
theorem step_miss_allocates (H S : Bytes → Nat) (dec : Nat → String) (st : St) (c : CallSite)
    (hmiss : find (mkKey H S c) st.reg = none) :
    ∃ e, (step H S st (.enter c)).log.head? = some e ∧ e.hit = false ∧
      (e.d.name, e.d.domainS dec) = (allocate dec st.counters ⟨c.ns, c.base, c.unique⟩).1 ∧
      (step H S st (.enter c)).counters = (allocate dec st.counters ⟨c.ns, c.base, c.unique⟩).2 := by
  simp [step, hmiss, allocate, Def.name, Def.domainS]

/-- a registry hit allocates nothing -/
theorem step_hit_keeps_counters (H S : Bytes → Nat) (st : St) (c : CallSite) (d : Def)
    (hhit : find (mkKey H S c) st.reg = some d) :
    (step H S st (.enter c)).counters = st.counters := by
  simp [step, hhit]

example : find (mkKey exH exH (exSite [1] [7] "float32" false 1)) ({} : St).reg = none := by decide
example : (find (mkKey exH exH (exSite [1] [7] "float32" false 1))
    (run exH exH [.enter (exSite [1] [7] "float32" false 1), .exit]).reg).isSome = true := by decide
example : (domainOf ⟨["a"], "Blk", true⟩ 2).map (renderSeg Nat.repr) = ["a", "Blk", "unique", Nat.repr 2] := by
  simp [domainOf, renderSeg]

/-- **The dotted domain string determines the segments** (segments without dots, at least one):
    distinct segment lists are distinct strings. -/
theorem domain_string_injective (l1 l2 : List (List Char)) (n1 : l1 ≠ []) (n2 : l2 ≠ [])
    (d1 : ∀ s ∈ l1, dotFree s) (d2 : ∀ s ∈ l2, dotFree s) (h : joinDot l1 = joinDot l2) : l1 = l2 := by
  rw [← splitDot_joinDot l1 n1 d1, ← splitDot_joinDot l2 n2 d2, h]

example : joinDot ["custom".toList, "Blk".toList, "unique".toList, "2".toList] = "custom.Blk.unique.2".toList := by
  decide
example : splitDot "a.unique.unique.2".toList = ["a".toList, "unique".toList, "unique".toList, "2".toList] := by
  decide

end J2O.C07
