/-
C02 — property theorems about the optimizer's own GUARDS (the predicates of
`jax2onnx/converter/ir_optimizations.py` that decide whether a rewrite is applied; executable models
in `Model/C02Guards.lean`, tied to the live functions by correspondence on every run):
*whatever the code's guard accepts satisfies the semantic precondition of the rewrite it licenses*,
for every rank, every tensor, every binding of the symbolic dimensions.

* `shapesCompatible_sound`       : `_shapes_compatible(src, dst)` ⇒ two tensors with those (true) annotations
                                   and equal element count have the same rank and extents
* `reshape_pair_guard_sound`     : … hence `Reshape(Reshape(x, s₁), s₂) = x` (the reshape-pair fold)
* `reshape_pair_across_unary`    : the same across a chain node: `Reshape(f(Reshape(x,s₁)), s₂) = f(x)`
* `identityReshapeGuard_sound`   : the decision of `remove_identity_reshapes_ir` ⇒ `Reshape(x, target) = x`
* `inversePerm_guard_sound`      : `_is_inverse_perm(p₁, p₂)` on valid perms ⇒ `T_{p₂}(T_{p₁}(x)) = x`
* `chainSideOk_fold_sound`       : `_chain_side_inputs_ok` ⇒ the transpose pair folds across the n-ary node
* `chainSideOk_castLike_sound`   : for CastLike the chain value must be the data operand, and then the fold is sound
* refutations: the guards a seeded change typically weakens (symbols as wildcards, a second uncomparable
  extent, a zero/symbolic extent next to the uncomparable one, a non-scalar side operand, CastLike's type
  operand) are rejected by the model, with the concrete tensors on which the rewrite would be wrong.
-/
import J2O.Lemmas.C02Guards

namespace J2O.C02.Guards
open J2O J2O.C02

variable {α : Type} (I : Interp α) (WT : Tensor α → Prop)

/-- **`_shapes_compatible` is sound.** -/
theorem shapesCompatible_sound (so sa : List Dim) (r x : Tensor α)
    (h : shapesCompatible (some so) (some sa) = true)
    (hr : shapeOK I so r) (hx : shapeOK I sa x) (hnum : numel r = numel x) :
    r.rank = x.rank ∧ ∀ k, k < x.rank → r.dim k = x.dim k :=
  tokens_same_shape I so sa r x hr hx hnum (shapesCompatible_tokens so sa h)

/-- **The reshape-pair fold is sound under the code's guard**: if `_shapes_compatible` accepts the
    annotation of the source `x` and of the second Reshape's output (both true at run time), the pair
    is the identity. -/
theorem reshape_pair_guard_sound (L : Laws I WT) (ssrc sdst : List Dim) (x s1 s2 : Tensor α)
    (h : shapesCompatible (some ssrc) (some sdst) = true)
    (hx : shapeOK I ssrc x) (hd : shapeOK I sdst (I.reshape (I.reshape x s1) s2)) :
    I.reshape (I.reshape x s1) s2 = x := by
  have hnum : numel (I.reshape (I.reshape x s1) s2) = numel x := by
    rw [L.reshape_numel, L.reshape_numel]
  -- `_shapes_compatible` is called as (src, dst); the loop is symmetric in what it proves
  have hsym : ((sdst = ssrc && sdst.all (fun d => !d.isUnk)) || oneOff sdst ssrc) = true := by
    have := shapesCompatible_tokens ssrc sdst h
    simp only [Bool.or_eq_true, Bool.and_eq_true, decide_eq_true_eq] at this ⊢
    rcases this with ⟨he, hk⟩ | ho
    · left; subst he; exact ⟨rfl, hk⟩
    · right; exact oneOff_symm ssrc sdst ho
  obtain ⟨h1, h2⟩ := tokens_same_shape I sdst ssrc _ x hd hx hnum hsym
  exact L.reshape_same2 x s1 s2 h1 h2

/-- … and across a unary elementwise node on the chain (`ALLOWED_ELEMWISE`, any scalar function). -/
theorem reshape_pair_across_unary (L : Laws I WT) (f : List α → α) (ssrc sdst : List Dim)
    (x s1 s2 : Tensor α)
    (h : shapesCompatible (some ssrc) (some sdst) = true)
    (hx : shapeOK I ssrc x) (hd : shapeOK I sdst (I.reshape (pw f [I.reshape x s1]) s2)) :
    I.reshape (pw f [I.reshape x s1]) s2 = pw f [x] := by
  have hxf : shapeOK I ssrc (pw f [x]) := by
    obtain ⟨hr, hdm⟩ := hx
    refine ⟨by simpa [pw, maxRank] using hr, ?_⟩
    intro k hk
    have := hdm k hk
    simpa [pw, maxRank, bdim, bstep_self] using this
  rw [L.reshape_pw] at hd ⊢
  exact reshape_pair_guard_sound I WT L ssrc sdst (pw f [x]) s1 s2 h hxf hd

/-- **`remove_identity_reshapes_ir` is sound**: a constant target without `-1`/`0` that literally equals
    the (true) annotation of the operand — and, ONNX Reshape producing exactly the target extents then —
    makes the Reshape the identity. (`hshape` is the ONNX fact about a zero-free, wildcard-free target.) -/
theorem identityReshapeGuard_sound (L : Laws I WT) (ssrc : List Dim) (dst : Option (List Dim))
    (tgt : List Int) (x s : Tensor α)
    (h : identityReshapeGuard (some ssrc) dst tgt = true) (hx : shapeOK I ssrc x)
    (hshape : (I.reshape x s).rank = tgt.length ∧
      ∀ k (hk : k < tgt.length), ((I.reshape x s).dim k : Int) = tgt[k]) :
    I.reshape x s = x := by
  simp only [identityReshapeGuard, Bool.and_eq_true] at h
  obtain ⟨⟨⟨_, _⟩, hm⟩, _⟩ := h
  obtain ⟨hl, hk⟩ := matchExact_spec ssrc tgt hm
  obtain ⟨hr, hdm⟩ := hx
  apply L.reshape_same
  · rw [hshape.1, hr, hl]
  · intro k hkx
    have h1 : k < ssrc.length := by omega
    have h2 : k < tgt.length := by omega
    obtain ⟨n, e1, e2⟩ := hk k h1 h2
    have a1 := hdm k h1
    simp only [e1, dimOK] at a1
    have a2 := hshape.2 k h2
    rw [e2] at a2
    omega

/-- **`_is_inverse_perm` is sound** on permutations (ONNX `perm` attributes): the pair cancels. -/
theorem inversePerm_guard_sound {p1 p2 : List Nat} (h1 : validPerm p1 = true)
    (h2 : validPerm p2 = true) (h : isInversePerm p1 p2 = true) (t : Tensor α) :
    transpose p2 (transpose p1 t) = t :=
  transpose_cancel h1 h2 h t

/-- operands of a chain node: the tensor and what `_chain_side_inputs_ok` sees of it -/
def sideSem (n : Nat) : Operand × Tensor α → Prop
  | (.chain, t) => t.rank = n
  | (.scalarConst, c) => c.ScalarLike ∧ c.rank ≤ n
  | _ => False

/-- **`_chain_side_inputs_ok` is sound for the transpose fold**: if the guard accepts an n-ary
    elementwise node (no absent operands), the chain operand has the common rank `n` and the operands
    classified `scalarConst` are size-1 constants, then the node applied to the transposed chain value
    (side operands untouched) is the transpose of the node applied to the untransposed one. -/
theorem chainSideOk_fold_sound (f : List α → α) (p : List Nat) (hp : validPerm p = true) (n : Nat)
    (ops : List (Operand × Tensor α))
    (h : chainSideOk false (ops.map (·.1)) = true)
    (hsem : ∀ o ∈ ops, o.1 ≠ .absent → sideSem n o)
    (hpres : ∀ o ∈ ops, o.1 ≠ .absent) (hex : ∃ o ∈ ops, o.1 = .chain) :
    pw f (ops.map (fun o => if o.1 = .chain then transpose p o.2 else o.2)) =
      transpose p (pw f (ops.map (·.2))) := by
  have hspec := chainSideOk_spec _ h
  have hpull : ∀ t ∈ ops.map (·.2), PullOK n t := by
    intro t ht
    obtain ⟨o, ho, rfl⟩ := List.mem_map.mp ht
    have hs := hsem o ho (hpres o ho)
    have hk := hspec o.1 (List.mem_map.mpr ⟨o, ho, rfl⟩)
    rcases o with ⟨k, t⟩
    rcases hk with hk | hk | hk <;> simp only at hk <;> subst hk
    · exact Or.inl hs
    · exact absurd rfl (hpres _ ho)
    · exact Or.inr hs
  have hex' : ∃ t ∈ ops.map (·.2), t.rank = n := by
    obtain ⟨o, ho, hc⟩ := hex
    refine ⟨o.2, List.mem_map.mpr ⟨o, ho, rfl⟩, ?_⟩
    have hs := hsem o ho (hpres o ho)
    rcases o with ⟨k, t⟩
    simp only at hc; subst hc
    exact hs
  rw [← pw_transpose f p hp (ops.map (·.2)) n hpull hex']
  congr 1
  rw [List.map_map]
  apply List.map_congr_left
  intro o ho
  have hs := hsem o ho (hpres o ho)
  have hk := hspec o.1 (List.mem_map.mpr ⟨o, ho, rfl⟩)
  rcases o with ⟨k, t⟩
  rcases hk with hk | hk | hk <;> simp only at hk <;> subst hk
  · simp
  · exact absurd rfl (hpres _ ho)
  · simp only [Function.comp, reduceCtorEq, if_false]
    exact (transpose_scalarLike p t hs.1).symm

/-- **CastLike on a chain**: the guard demands that the chain value is the DATA operand; then the fold
    is sound for any type operand (`CastLike(T(x), l) = T(CastLike(x, l))`). -/
theorem chainSideOk_castLike_sound (c : Nat → Nat → α → α) (p : List Nat) (ins : List Operand)
    (h : chainSideOk true ins = true) (x l : Tensor α) :
    ins.head? = some .chain ∧
      castT c l.dtype (transpose p x) = transpose p (castT c l.dtype x) :=
  ⟨chainSideOk_castLike ins h, castT_transpose c l.dtype p x⟩

/-! ### Non-vacuity and refutations (what the guards must reject, and why) -/

-- accepted: literal-equal; same symbol; one uncomparable extent among positive literals
example : shapesCompatible (some [.known 2, .known 3]) (some [.known 2, .known 3]) = true := by decide
example : shapesCompatible (some [.sym "B", .known 3]) (some [.sym "B", .known 3]) = true := by decide
example : shapesCompatible (some [.sym "A", .known 3]) (some [.sym "B", .known 3]) = true := by decide
example : shapesCompatible (some [.unk, .known 3, .known 4]) (some [.known 5, .known 3, .known 4]) = true := by
  decide
-- rejected: two uncomparable extents — `(A, B) → (B, A)`
example : shapesCompatible (some [.sym "A", .sym "B"]) (some [.sym "B", .sym "A"]) = false := by decide
-- rejected: one uncomparable extent next to an extent that may be zero (symbol / literal 0): the
-- element-count argument does not determine it (empty batch: `(B, X)` vs `(B, Y)`, `(0, 3)` vs `(0, 5)`)
example : shapesCompatible (some [.sym "B", .sym "X"]) (some [.sym "B", .sym "Y"]) = false := by decide
example : shapesCompatible (some [.known 0, .sym "X"]) (some [.known 0, .sym "Y"]) = false := by decide
example : shapesCompatible (some [.known 2, .known 3]) (some [.known 3, .known 2]) = false := by decide
example : shapesCompatible (some [.known 6]) (some [.known 2, .known 3]) = false := by decide
example : shapesCompatible none (some [.known 2]) = false := by decide

/-- … and rightly so: `(0, 3)` and `(0, 5)` both hold zero elements, satisfy `(B, X)` / `(B, Y)` for
    `B = 0`, and are different shapes — the conclusion of `shapesCompatible_sound` fails for them. -/
example : ∃ (r x : Tensor Nat), numel r = numel x ∧ r.rank = x.rank ∧ r.dim 0 = x.dim 0 ∧
    r.dim 1 ≠ x.dim 1 :=
  ⟨⟨1, 2, fun k => [0, 3].getD k 1, fun _ => 0⟩, ⟨1, 2, fun k => [0, 5].getD k 1, fun _ => 0⟩,
    by decide, rfl, rfl, by decide⟩

example : identityReshapeGuard (some [.known 2, .known 3]) none [2, 3] = true := by decide
example : identityReshapeGuard (some [.known 2, .known 3]) (some [.known 2, .known 3]) [2, 3] = true := by decide
example : identityReshapeGuard (some [.known 2, .known 3]) none [3, 2] = false := by decide
example : identityReshapeGuard (some [.known 2, .known 3]) none [2, -1] = false := by decide
example : identityReshapeGuard (some [.known 2, .known 3]) none [0, 3] = false := by decide
example : identityReshapeGuard (some [.sym "B", .known 3]) none [2, 3] = false := by decide
example : identityReshapeGuard (some [.known 2, .known 3]) (some [.known 3, .known 2]) [2, 3] = false := by
  decide

example : chainSideOk false [.chain, .scalarConst] = true := by decide
example : chainSideOk false [.scalarConst, .chain, .absent] = true := by decide
example : chainSideOk false [.chain, .other] = false := by decide
example : chainSideOk true [.chain, .other] = true := by decide
-- CastLike whose chain value is only the TYPE operand: rejected
example : chainSideOk true [.other, .chain] = false := by decide

example : isScalarConst (some 1) false none = true := by decide
example : isScalarConst (some 6) true (some [.known 1]) = false := by decide
example : isScalarConst none true (some [.known 1, .known 1]) = true := by decide
example : isScalarConst none true (some [.known 1, .sym "B"]) = false := by decide
example : isScalarConst none false (some [.known 1]) = false := by decide

end J2O.C02.Guards
