/-
C02 — property theorems: the equivalence validator is sound for every graph pair, every
interpretation of the operators satisfying the stated laws, every input and every rank.

* `transpose_pair_cancels`, `transpose_commutes_pointwise` : the two algebraic facts every
  transpose-folding pass relies on, for all tensors / ranks / valid permutations
* `norm_sound`     : normalisation preserves the meaning of every term
* `certify_sound`  : `certify before after = true` ⇒ `after` computes exactly what `before` does
                     (same number of outputs, same element types, ranks, extents, values)
* `cast_laws_of_C17` : the two cast fields of `Laws` (`cast_same`, `cast_rt`) hold for every
                     interpretation whose scalar conversion is a `C17.CastSem` (C17's round-trip theorem)
* `reduce_transpose_of_monoid` : the `reduce_transpose` field of `Laws` holds for keepdims reductions by
                     any commutative monoid (concrete `sumAxes` on the tensor model)
* refutations: the rewrites the validator must *not* accept (side operand not transposed,
  intermediate observed as output) really change results — concrete counter-models
-/
import J2O.Lemmas.C02Rules
import J2O.Lemmas.C02C17
import J2O.Lemmas.Reduce

namespace J2O.C02
open J2O Term

variable {α : Type} (I : Interp α) (ρ : Nat → Tensor α) (WT : Tensor α → Prop)

/-- `T₂(T₁(x)) = x` whenever the code's inverse test accepts two valid permutations. -/
theorem transpose_pair_cancels {p1 p2 : List Nat} (h1 : validPerm p1 = true)
    (h2 : validPerm p2 = true) (h : isInversePerm p1 p2 = true) (t : Tensor α) :
    transpose p2 (transpose p1 t) = t :=
  transpose_cancel h1 h2 h t

/-- A broadcasting pointwise operator applied to operands that are all transposed by the same
    valid permutation (or are size-1 constants) is the transpose of the operator applied to the
    untransposed operands — any arity, any scalar function. -/
theorem transpose_commutes_pointwise (f : List α → α) (p : List Nat) (hp : validPerm p = true)
    (ts : List (Tensor α)) (n : Nat) (h : ∀ t ∈ ts, PullOK n t) (hex : ∃ t ∈ ts, t.rank = n) :
    pw f (ts.map (transpose p)) = transpose p (pw f ts) :=
  pw_transpose f p hp ts n h hex

/-- **Normalisation is sound**: same meaning, and annotations stay sound. -/
theorem norm_sound (L : Laws I WT) (hWT : ∀ t x, x ∈ eval I ρ t → WT x) :
    ∀ t : Term, AnnotSound I ρ t → eval I ρ (norm t) = eval I ρ t ∧ AnnotSound I ρ (norm t) := by
  intro t
  induction t with
  | leaf id ann s => intro hs; exact ⟨rfl, hs⟩
  | boolc b => intro hs; exact ⟨rfl, hs⟩
  | nil => intro hs; exact ⟨rfl, hs⟩
  | cons t ts iht ihts =>
    intro hs
    obtain ⟨e1, s1⟩ := iht hs.1
    obtain ⟨e2, s2⟩ := ihts hs.2
    exact ⟨by simp [norm, eval, e1, e2], ⟨s1, s2⟩⟩
  | app h ann args ih =>
    intro hs
    obtain ⟨e, s⟩ := ih hs.1
    have hs' : AnnotSound I ρ (.app h ann (norm args)) := ⟨s, by rw [e]; exact hs.2⟩
    obtain ⟨e', s'⟩ := mk_sound I ρ WT L hWT h ann (norm args) hs'
    refine ⟨?_, s'⟩
    show eval I ρ (mk h ann (norm args)) = _
    rw [e']; simp [eval, e]

theorem normN_sound (L : Laws I WT) (hWT : ∀ t x, x ∈ eval I ρ t → WT x) :
    ∀ (n : Nat) (t : Term), AnnotSound I ρ t →
      eval I ρ (normN n t) = eval I ρ t ∧ AnnotSound I ρ (normN n t) := by
  intro n
  induction n with
  | zero => intro t hs; exact ⟨rfl, hs⟩
  | succ n ih =>
    intro t hs
    obtain ⟨e, s⟩ := norm_sound I ρ WT L hWT t hs
    obtain ⟨e', s'⟩ := ih (norm t) s
    exact ⟨by simp [normN, e', e], s'⟩

/-- **The validator is sound.** If `certify before after` holds then, for every interpretation
    satisfying the laws, every assignment of tensors to the graph inputs/initializers under which
    the annotations of `before` (and the leaf annotations of `after`) are true, the output lists
    of the two graphs are equal: same count, element types, ranks, extents and values. -/
theorem certify_sound (L : Laws I WT) (hWT : ∀ t x, x ∈ eval I ρ t → WT x)
    (before after : Term) (hb : AnnotSound I ρ before) (ha : AnnotSound I ρ after)
    (h : certify before after = true) : eval I ρ after = eval I ρ before := by
  have ea := (normN_sound I ρ WT L hWT 3 after ha).1
  simp only [certify, certify1, Bool.or_eq_true, beq_iff_eq] at h
  rcases h with h | h
  · have eb := (normN_sound I ρ WT L hWT 3 before hb).1
    rw [← ea, ← eb, ← erase_eval I ρ (normN 3 after), ← erase_eval I ρ (normN 3 before), h]
  · have eb := (normN_sound I ρ WT L hWT 3 (stripApp before) (annotSound_stripApp I ρ before hb)).1
    rw [← ea, ← eval_stripApp I ρ before, ← eb, ← erase_eval I ρ (normN 3 after),
      ← erase_eval I ρ (normN 3 (stripApp before)), h]

/-! ### The cast laws are theorems over the C17 value model -/

/-- **The cast laws of `Laws` are theorems, not assumptions, over the C17 value model**: for every
    cast semantics that is exact on commonly representable values (`C17.CastSem`), a cast to the
    same type is the identity and every round trip accepted by the reference decision is the
    identity on well-typed tensors. -/
theorem cast_laws_of_C17 (C : C17.CastSem) :
    (∀ d v, castSOf C d d v = v) ∧
    (∀ s m (t : Tensor C17.Val), castRefOk s m = true → t.dtype = s → WTVal t →
      castT (castSOf C) s (castT (castSOf C) m t) = t) := by
  refine ⟨fun d v => by simp [castSOf], ?_⟩
  intro s m t hok hd hwt
  cases t with
  | mk dtype rank dim get =>
    simp only at hd
    subst hd
    simp only [castT, Tensor.mk.injEq, true_and]
    funext i
    by_cases hsm : dtype = m
    · subst hsm; simp [castSOf]
    · have hms : ¬ m = dtype := fun h => hsm h.symm
      simp only [castSOf, hsm, hms, if_false]
      exact C17.castOk_roundtrip C _ _ hok _ (hwt i)


/-! ### The reduction law is a theorem for reductions by a commutative monoid -/

/-- **`reduce_transpose` is a theorem, not an assumption, for every interpretation whose keepdims
    reductions are sums in a commutative monoid** (ReduceSum over exact numbers, ReduceProd, ReduceMax/
    Min with a neutral element, logical and/or): all tensors, ranks, valid permutations, axis lists.
    (Floating-point re-association inside one reduction is outside the model.) -/
theorem reduce_transpose_of_monoid {β : Type} [AddCommMonoid β] (J : Interp β)
    (hJ : ∀ nm axes t, J.reduce nm axes t = sumAxes axes t) :
    ∀ nm axes p (t : Tensor β), validPerm p = true → t.rank = p.length →
      (∀ a ∈ axes, a < p.length) →
      J.reduce nm axes (transpose p t) =
        transpose p (J.reduce nm (sortNat (axes.map (permFn p))) t) := by
  intro nm axes p t hp _ _
  rw [hJ, hJ]
  exact sumAxes_transpose_sorted p hp axes t

/-- the concrete reduction computes row sums / the total of a 2×3 matrix (non-vacuity of `sumAxes`) -/
def m23 : Tensor Int := ⟨7, 2, fun k => [2, 3].getD k 1, fun i => 10 * i 0 + i 1⟩

example : (sumAxes [1] m23).get (fun _ => 0) = 0 + 1 + 2 ∧ (sumAxes [1] m23).dim 1 = 1 ∧
    (sumAxes [1] m23).dim 0 = 2 ∧ (sumAxes [0, 1] m23).get (fun _ => 5) = 0 + 1 + 2 + 10 + 11 + 12 := by
  simp [sumAxes, sumAxis, m23, upd, Finset.sum_range_succ]

/-! ### Non-vacuity: a concrete interpretation satisfying the laws, and concrete verdicts -/

/-- integers; every dtype's scalar cast is the identity (so all laws hold trivially). -/
def demoI : Interp Int where
  fn := fun nm _ xs => match nm, xs with
    | "Relu", [x] => max x 0
    | "Add", [x, y] => x + y
    | "Max", [x, y] => max x y
    | "Mul", [x, y] => x * y
    | "Sigmoid", [x] => x          -- any scalar function will do for the demo
    | "Swish", [x] => x * x
    | "Not", [x] => 1 - x
    | _, _ => 0
  castS := fun _ _ v => v
  opq := fun _ _ _ _ => ⟨0, 0, fun _ => 1, fun _ => 0⟩
  reshape := fun x _ => x
  reduce := fun _ _ x => x
  boolT := fun b => ⟨9, 0, fun _ => 1, fun _ => if b then 1 else 0⟩
  junk := ⟨0, 0, fun _ => 1, fun _ => 0⟩
  sym := fun _ => 3

theorem demoI_laws : Laws demoI (fun _ => True) where
  cast_same := fun _ _ => rfl
  cast_rt := by
    intro s m t _ hd _
    apply Tensor.ext'
    · simp [castT, hd]
    · rfl
    · rfl
    · rfl
  not_const := by
    intro b
    apply Tensor.ext'
    · rfl
    · simp [pw, maxRank, demoI]
    · funext j; simp [pw, maxRank, bdim, bstep, demoI]
    · funext i; cases b <;> simp [pw, maxRank, demoI]
  swish := by intro v; simp [demoI]
  swish' := by intro v; simp [demoI]
  reshape_same2 := by intros; rfl
  reshape_numel := by intros; rfl
  reshape_same := by intros; rfl
  reshape_pw := by intros; rfl
  reshape_pw_sc := by intros; rfl
  reshape_cast := by intros; rfl
  reduce_transpose := by intros; rfl

def annF32 (sh : List Nat) : Ann := ⟨some 1, some (sh.map Dim.known)⟩

/-- `T(0,2,1) → Relu → T(0,2,1)` on a rank-3 input is certified equal to `Relu`. -/
example :
    certify
      (.cons (.app (.transpose [0, 2, 1]) Ann.none (.cons (.app (.pw "Relu" "") Ann.none
        (.cons (.app (.transpose [0, 2, 1]) Ann.none (.cons (.leaf 0 (annF32 [2, 3, 4]) false) .nil))
          .nil)) .nil)) .nil)
      (.cons (.app (.pw "Relu" "") Ann.none (.cons (.leaf 0 (annF32 [2, 3, 4]) false) .nil)) .nil)
      = true := by decide

/-- `T → Max(·, y) → T` with a rank-3 side operand that is *not* transposed is rejected … -/
example :
    certify
      (.cons (.app (.transpose [0, 2, 1]) Ann.none (.cons (.app (.pw "Max" "") Ann.none
        (.cons (.app (.transpose [0, 2, 1]) Ann.none (.cons (.leaf 0 (annF32 [2, 3, 4]) false) .nil))
          (.cons (.leaf 1 (annF32 [2, 4, 3]) false) .nil))) .nil)) .nil)
      (.cons (.app (.pw "Max" "") Ann.none (.cons (.leaf 0 (annF32 [2, 3, 4]) false)
          (.cons (.leaf 1 (annF32 [2, 4, 3]) false) .nil))) .nil)
      = false := by decide

/-- … and rightly so: on a concrete input the two graphs differ (`x[0,1,0]=5`, `y[0,0,1]=7`;
    before: `out[0,1,0] = max(x[0,1,0], y[0,0,1]) = 7`; after reads `y[0,1,0] = 0`, giving 5). -/
def xT : Tensor Int := ⟨1, 3, fun k => [2, 3, 4].getD k 1, fun i => if i 0 = 0 ∧ i 1 = 1 ∧ i 2 = 0 then 5 else 0⟩
def yT : Tensor Int := ⟨1, 3, fun k => [2, 4, 3].getD k 1, fun i => if i 0 = 0 ∧ i 1 = 0 ∧ i 2 = 1 then 7 else 0⟩

example :
    (transpose [0, 2, 1] (pw (demoI.fn "Max" "") [transpose [0, 2, 1] xT, yT])).get
        (fun k => [0, 1, 0].getD k 0) = 7 ∧
    (pw (demoI.fn "Max" "") [xT, yT]).get (fun k => [0, 1, 0].getD k 0) = 5 := by
  decide

/-- Two reshapes in a row are NOT collapsed into the outer one (with `allowzero = 0` a zero entry of
    the outer target copies the extent of the *operand*, which the collapse would change): the pair
    `Reshape(Reshape(x, s₁), s₂)` / `Reshape(x, s₂)` is rejected … -/
example :
    certify
      (.cons (.app .reshape Ann.none (.cons (.app .reshape Ann.none
        (.cons (.leaf 0 (annF32 [2, 3, 4]) false) (.cons (.leaf 1 Ann.none false) .nil)))
          (.cons (.leaf 2 Ann.none false) .nil))) .nil)
      (.cons (.app .reshape Ann.none
        (.cons (.leaf 0 (annF32 [2, 3, 4]) false) (.cons (.leaf 2 Ann.none false) .nil))) .nil)
      = false := by decide

/-- … while a reshape chain whose (trusted) final annotation restores the static shape of the source
    is certified equal to the source. -/
example :
    certify
      (.cons (.app .reshape (annF32 [2, 3, 4]) (.cons (.app .reshape Ann.none
        (.cons (.leaf 0 (annF32 [2, 3, 4]) false) (.cons (.leaf 1 Ann.none false) .nil)))
          (.cons (.leaf 2 Ann.none false) .nil))) .nil)
      (.cons (.leaf 0 (annF32 [2, 3, 4]) false) .nil)
      = true := by decide

end J2O.C02
