/-
C08 — property theorems.

Semantics of an annotation: `annotHolds σ a t` — under the symbol binding `σ`, the declared dtype
(if any) is the runtime dtype and the declared dims (if any) have the runtime rank and each
`known n` / `sym s` dim equals the runtime extent (`unk` says nothing).

Order: `AnnotLe a' a` — `a'` says less than `a`: same dtype, same rank, each dim kept or `unk`.
`annotLe_sound`: whatever is true of `a` is true of `a'`, for every binding and every tensor.

Post-processing (`loosenGraph`, mirror of ir_postprocess):
* `loosen_weakens`   for EVERY scope at EVERY depth of any graph tree: the loosened tree has the
                     loosened scope at the same path, with identical structure, and every annotation
                     of it is `AnnotLe` the original (dtype and rank kept) …
* `loosen_keeps_io`  … and the annotations of that scope's graph inputs and outputs are unchanged;
* `loosen_sound`     true annotations stay true; `loosenModel_weakens` adds the function bodies.
* `promote_keeps_type_in_sync`.

Metadata propagation (`broadcastDims`, mirror of `_broadcast_shape_dims`):
* `broadcastDims_sound` under the hypotheses (H1) the runtime shapes are consistent with the input
  annotations under one binding, (H2) the runtime shapes are numpy-broadcastable with result `out`:
  every dim of the computed annotation is true of `out`.
-/
import J2O.Model.C08
set_option linter.unusedSimpArgs false
set_option linter.unusedVariables false

namespace J2O.C08
open J2O.MT

/-- pointwise relation of two lists of equal length (core Lean has no `List.Forall₂`) -/
inductive Forall₂ {α β : Type} (R : α → β → Prop) : List α → List β → Prop
  | nil : Forall₂ R [] []
  | cons {a : α} {b : β} {l₁ : List α} {l₂ : List β} : R a b → Forall₂ R l₁ l₂ → Forall₂ R (a :: l₁) (b :: l₂)

theorem Forall₂.length_eq {α β : Type} {R : α → β → Prop} {l₁ : List α} {l₂ : List β}
    (h : Forall₂ R l₁ l₂) : l₁.length = l₂.length := by
  induction h with
  | nil => rfl
  | cons _ _ ih => simp [ih]

/-! ## semantics and order -/

structure RT where
  dtype : Nat
  shape : List Nat

abbrev Binding := String → Nat

def dimHolds (σ : Binding) : Dim → Nat → Prop
  | .known n, k => k = n
  | .sym s, k => k = σ s
  | .unk, _ => True

def annotHolds (σ : Binding) (a : Annot) (t : RT) : Prop :=
  (∀ d, a.dtype = some d → t.dtype = d) ∧
  (∀ ds, a.dims = some ds → Forall₂ (dimHolds σ) ds t.shape)

def DimLe (d' d : Dim) : Prop := d' = d ∨ d' = .unk

def AnnotLe (a' a : Annot) : Prop :=
  a'.dtype = a.dtype ∧
  ((a'.dims = none ∧ a.dims = none) ∨
   ∃ l' l, a'.dims = some l' ∧ a.dims = some l ∧ Forall₂ DimLe l' l)

theorem dimLe_sound (σ : Binding) (d' d : Dim) (k : Nat) (h : DimLe d' d) (hd : dimHolds σ d k) :
    dimHolds σ d' k := by
  rcases h with rfl | rfl
  · exact hd
  · trivial

theorem forall₂_dimLe_sound (σ : Binding) {l' l : List Dim} (hle : Forall₂ DimLe l' l) :
    ∀ s : List Nat, Forall₂ (dimHolds σ) l s → Forall₂ (dimHolds σ) l' s := by
  induction hle with
  | nil => intro s h; cases h; exact .nil
  | cons h1 _ ih =>
    intro s h
    cases h with
    | cons g1 g2 => exact .cons (dimLe_sound σ _ _ _ h1 g1) (ih _ g2)

/-- **Weaker annotations are true whenever the stronger one is.** -/
theorem annotLe_sound (σ : Binding) (a' a : Annot) (t : RT) (h : AnnotLe a' a)
    (ha : annotHolds σ a t) : annotHolds σ a' t := by
  obtain ⟨hdt, hdims⟩ := h
  refine ⟨?_, ?_⟩
  · intro d hd; exact ha.1 d (hdt ▸ hd)
  · intro ds hds
    rcases hdims with ⟨h1, _⟩ | ⟨l', l, h1, h2, h3⟩
    · rw [h1] at hds; cases hds
    · rw [h1] at hds
      cases hds
      exact forall₂_dimLe_sound σ h3 t.shape (ha.2 l h2)

/-- rank is kept by `AnnotLe` -/
theorem annotLe_rank (a' a : Annot) (h : AnnotLe a' a) :
    a'.dims.map List.length = a.dims.map List.length := by
  rcases h.2 with ⟨h1, h2⟩ | ⟨l', l, h1, h2, h3⟩
  · rw [h1, h2]
  · rw [h1, h2]; simp [h3.length_eq]

/-! ## loosening: one annotation, one scope -/

theorem loosenDim_le (r : Bool) (d : Dim) : DimLe (loosenDim r d) d := by
  unfold loosenDim DimLe
  split
  · exact Or.inr rfl
  · split
    · exact Or.inl rfl
    · exact Or.inr rfl

theorem forall₂_loosen (r : Bool) : ∀ l : List Dim, Forall₂ DimLe (l.map (loosenDim r)) l
  | [] => .nil
  | d :: l => .cons (loosenDim_le r d) (forall₂_loosen r l)

theorem loosenAnnot_le (r : Bool) (a : Annot) : AnnotLe (loosenAnnot r a) a := by
  refine ⟨rfl, ?_⟩
  cases h : a.dims with
  | none => exact Or.inl ⟨by simp [loosenAnnot, h], rfl⟩
  | some l => exact Or.inr ⟨l.map (loosenDim r), l, by simp [loosenAnnot, h], rfl, forall₂_loosen r l⟩

theorem forall₂_dimLe_refl : ∀ l : List Dim, Forall₂ DimLe l l
  | [] => .nil
  | _ :: l => .cons (Or.inl rfl) (forall₂_dimLe_refl l)

theorem annotLe_refl (a : Annot) : AnnotLe a a := by
  refine ⟨rfl, ?_⟩
  cases h : a.dims with
  | none => exact Or.inl ⟨rfl, rfl⟩
  | some l => exact Or.inr ⟨l, l, rfl, rfl, forall₂_dimLe_refl l⟩

/-- relation between an entry of the processed `vinfo` and the original entry -/
def EntryWeaker (io : List String) (e' e : String × Annot) : Prop :=
  e'.1 = e.1 ∧ AnnotLe e'.2 e.2 ∧ (e.1 ∈ io → e'.2 = e.2)

structure ScopeWeaker (g' g : Graph) : Prop where
  inputs_eq : g'.inputs = g.inputs
  inits_eq : g'.inits = g.inits
  outputs_eq : g'.outputs = g.outputs
  entries : Forall₂ (EntryWeaker (g.inputs ++ g.outputs)) g'.vinfo g.vinfo

theorem touched_not_io (i t : List String) (ns : List Node) (o : List String) (r : Bool) (x : String)
    (h : (touched i t ns o r).contains x = true) : x ∉ i ++ o := by
  have hm := List.contains_iff_mem.mp h
  unfold touched at hm
  have := (List.mem_filter.mp hm).2
  simp only [Bool.not_eq_true', ← Bool.not_eq_true] at this
  intro hx
  exact this (List.contains_iff_mem.mpr hx)

theorem loosenVinfo_weaker (r : Bool) (names io : List String)
    (hn : ∀ x, names.contains x = true → x ∉ io) :
    ∀ vi : List (String × Annot), Forall₂ (EntryWeaker io) (loosenVinfo r names vi) vi
  | [] => .nil
  | e :: vi => by
    refine .cons ?_ (loosenVinfo_weaker r names io hn vi)
    by_cases hc : names.contains e.1 = true
    · simp only [hc, if_true]
      exact ⟨rfl, loosenAnnot_le r e.2, fun hio => absurd hio (hn e.1 hc)⟩
    · simp only [hc, if_false]
      exact ⟨rfl, annotLe_refl e.2, fun _ => rfl⟩

theorem loosenGraph_scope (r : Bool) (g : Graph) : ScopeWeaker (loosenGraph r g) g := by
  cases g with
  | mk i t ns o vi =>
    refine ⟨rfl, rfl, rfl, ?_⟩
    simp only [loosenGraph, Graph.vinfo, Graph.inputs, Graph.outputs]
    exact loosenVinfo_weaker r _ _ (touched_not_io i t ns o r) vi

/-! ## loosening commutes with descending into bodies (any depth) -/

theorem loosenNodes_get (r : Bool) : ∀ (ns : List Node) (k : Nat),
    (loosenNodes r ns)[k]? = (ns[k]?).map (loosenNode r)
  | [], k => by simp [loosenNodes]
  | n :: ns, 0 => by simp [loosenNodes]
  | n :: ns, k + 1 => by simp [loosenNodes, loosenNodes_get r ns k]

theorem loosenBodies_get (r : Bool) : ∀ (bs : List Graph) (k : Nat),
    (loosenBodies r bs)[k]? = (bs[k]?).map (loosenGraph r)
  | [], k => by simp [loosenBodies]
  | b :: bs, 0 => by simp [loosenBodies]
  | b :: bs, k + 1 => by simp [loosenBodies, loosenBodies_get r bs k]

theorem loosenGraph_nodes (r : Bool) (g : Graph) : (loosenGraph r g).nodes = loosenNodes r g.nodes := by
  cases g; rfl

theorem loosenNode_bodies (r : Bool) (n : Node) :
    (loosenNode r n).bodies = loosenBodies (r || forcesRankOnly n.op) n.bodies := by
  cases n; rfl

theorem loosen_sub (r : Bool) (g b : Graph) (i j : Nat) (h : g.sub? i j = some b) :
    ∃ r', (loosenGraph r g).sub? i j = some (loosenGraph r' b) := by
  unfold Graph.sub? at h ⊢
  rw [loosenGraph_nodes, loosenNodes_get]
  split at h
  · cases h
  · rename_i n hn
    refine ⟨r || forcesRankOnly n.op, ?_⟩
    simp only [hn, Option.map_some, loosenNode_bodies, loosenBodies_get, h]

theorem loosen_at : ∀ (p : List (Nat × Nat)) (r : Bool) (g g' : Graph), g.at? p = some g' →
    ∃ r', (loosenGraph r g).at? p = some (loosenGraph r' g')
  | [], r, g, g', h => by
    simp only [Graph.at?, Option.some.injEq] at h
    subst h
    exact ⟨r, rfl⟩
  | (i, j) :: p, r, g, g', h => by
    simp only [Graph.at?] at h ⊢
    split at h
    · cases h
    · rename_i b hb
      obtain ⟨r1, h1⟩ := loosen_sub r g b i j hb
      rw [h1]
      exact loosen_at p r1 b g' h

/-- **Loosening only weakens**, for every scope at every depth of every graph tree: same path,
    same inputs / initializers / outputs, and each annotation `AnnotLe` the original (so dtype and
    rank are kept and every dim is kept or forgotten). -/
theorem loosen_weakens (r : Bool) (g : Graph) :
    ∀ p g', g.at? p = some g' →
      ∃ g'', (loosenGraph r g).at? p = some g'' ∧ ScopeWeaker g'' g' := by
  intro p g' h
  obtain ⟨r', hr⟩ := loosen_at p r g g' h
  exact ⟨_, hr, loosenGraph_scope r' g'⟩

theorem lookup_of_entries (io : List String) (x : String) (hx : x ∈ io)
    {vi' vi : List (String × Annot)} (h : Forall₂ (EntryWeaker io) vi' vi) :
    lookup x vi' = lookup x vi := by
  induction h with
  | nil => rfl
  | @cons e' e _ _ h1 _ ih =>
    obtain ⟨k', a'⟩ := e'
    obtain ⟨k, a⟩ := e
    obtain ⟨hk, _, hio⟩ := h1
    simp only at hk hio
    subst hk
    simp only [lookup]
    by_cases hkx : k' = x
    · subst hkx
      simp [hio hx]
    · simp only [hkx, if_false]
      exact ih

/-- **Graph input/output annotations are untouched**, in every scope at every depth. -/
theorem loosen_keeps_io (r : Bool) (g : Graph) :
    ∀ p g', g.at? p = some g' →
      ∃ g'', (loosenGraph r g).at? p = some g'' ∧
        ∀ x ∈ g'.inputs ++ g'.outputs, lookup x g''.vinfo = lookup x g'.vinfo := by
  intro p g' h
  obtain ⟨g'', h1, h2⟩ := loosen_weakens r g p g' h
  exact ⟨g'', h1, fun x hx => lookup_of_entries _ x hx h2.entries⟩

/-- all annotations of a scope are true of the runtime valuation `ρ` -/
def ScopeTrue (σ : Binding) (ρ : String → RT) (g : Graph) : Prop :=
  ∀ e ∈ g.vinfo, annotHolds σ e.2 (ρ e.1)

theorem entries_true (σ : Binding) (ρ : String → RT) (io : List String)
    {vi' vi : List (String × Annot)} (h : Forall₂ (EntryWeaker io) vi' vi) :
    (∀ e ∈ vi, annotHolds σ e.2 (ρ e.1)) → ∀ e ∈ vi', annotHolds σ e.2 (ρ e.1) := by
  induction h with
  | nil => intro _ e he; cases he
  | @cons e' e _ _ h1 _ ih =>
    intro ht x hx
    rcases List.mem_cons.mp hx with rfl | hx
    · obtain ⟨hk, hle, _⟩ := h1
      rw [hk]
      exact annotLe_sound σ _ _ _ hle (ht e List.mem_cons_self)
    · exact ih (fun e he => ht e (List.mem_cons_of_mem _ he)) x hx

/-- **True annotations stay true**: if every annotation of the original scope holds at run time
    (any binding, any runtime valuation), so does every annotation of the processed scope. -/
theorem loosen_sound (σ : Binding) (ρ : String → RT) (r : Bool) (g : Graph) :
    ∀ p g', g.at? p = some g' → ScopeTrue σ ρ g' →
      ∃ g'', (loosenGraph r g).at? p = some g'' ∧ ScopeTrue σ ρ g'' := by
  intro p g' h ht
  obtain ⟨g'', h1, h2⟩ := loosen_weakens r g p g' h
  exact ⟨g'', h1, entries_true σ ρ _ h2.entries ht⟩

/-- whole model: main graph and every function body (processed with `rankOnly = false`) -/
theorem loosenModel_weakens (m : Model) :
    (∀ p g', m.graph.at? p = some g' →
        ∃ g'', (loosenModel m).graph.at? p = some g'' ∧ ScopeWeaker g'' g') ∧
    (Forall₂ (fun f' f => f'.domain = f.domain ∧ f'.name = f.name ∧
        ∀ p g', f.asGraph.at? p = some g' → ∃ g'', f'.asGraph.at? p = some g'' ∧ ScopeWeaker g'' g')
      (loosenModel m).funcs m.funcs) := by
  refine ⟨loosen_weakens false m.graph, ?_⟩
  simp only [loosenModel]
  induction m.funcs with
  | nil => exact .nil
  | cons f fs ih =>
    refine .cons ⟨rfl, rfl, ?_⟩ ih
    intro p g' h
    have := loosen_weakens false f.asGraph p g' h
    have e : (loosenFunc f).asGraph = loosenGraph false f.asGraph := by
      simp only [loosenFunc, Func.asGraph, loosenGraph, Graph.nodes, Graph.vinfo]
    rw [e]
    exact this

/-! ## promotion -/

/-- a constant: its declared annotation and the dtype of its payload -/
def promoteVal (a : Annot) (payload : Nat) : Annot × Nat :=
  if payload = 1 then ({ a with dtype := some DOUBLE }, DOUBLE) else (a, payload)

/-- **Promotion keeps the declared type in sync with the payload.** -/
theorem promote_keeps_type_in_sync (a : Annot) (payload : Nat) (h : a.dtype = some payload) :
    (promoteVal a payload).1.dtype = some (promoteVal a payload).2 ∧
    (promoteVal a payload).1.dims = a.dims := by
  unfold promoteVal
  split <;> simp [h]

theorem promoteVinfo_entry (c : List String) (e : String × Annot) (payload : Nat)
    (hc : c.contains e.1 = true ↔ payload = 1) :
    (if c.contains e.1 then (e.1, { e.2 with dtype := some DOUBLE }) else e).2 = (promoteVal e.2 payload).1 := by
  unfold promoteVal
  by_cases h : payload = 1
  · have hm : e.1 ∈ c := List.contains_iff_mem.mp (hc.mpr h)
    simp [h, hm]
  · have hm : e.1 ∉ c := fun hh => h (hc.mp (List.contains_iff_mem.mpr hh))
    simp [h, hm]

/-! ## `_broadcast_shape_dims` -/

/-- numpy broadcasting of one axis: every extent is 1 or the common value `m`
    (`m = 1` when all are 1) -/
def AxisB (col : List Nat) (m : Nat) : Prop :=
  (∀ c ∈ col, c = 1 ∨ c = m) ∧ (m = 1 ∨ m ∈ col)

def headN (s : List Nat) : Nat := s.headD 1

/-- numpy broadcasting of shapes already padded to rank `r` -/
def NpPadded : Nat → List (List Nat) → List Nat → Prop
  | 0, _, out => out = []
  | r + 1, cs, out => ∃ m rest, out = m :: rest ∧ AxisB (cs.map headN) m ∧ NpPadded r (cs.map List.tail) rest

def maxRankN : List (List Nat) → Nat
  | [] => 0
  | s :: rest => max s.length (maxRankN rest)

def padNat (r : Nat) (s : List Nat) : List Nat := List.replicate (r - s.length) 1 ++ s

/-- `out` is the numpy broadcast of the concrete shapes `cs` (left-pad with 1 to the maximal rank,
    then axis by axis) -/
def NpBroadcast (cs : List (List Nat)) (out : List Nat) : Prop :=
  NpPadded (maxRankN cs) (cs.map (padNat (maxRankN cs))) out

/-- invariant of the per-axis loop; `P` = runtime extents already processed, `m` = the broadcast
    extent of the whole axis -/
def Inv (σ : Binding) (m : Nat) (r : Dim) (P : List Nat) : Prop :=
  dimHolds σ r m ∨ (dimHolds σ r 1 ∧ ∀ c ∈ P, c = 1)

theorem stepDim_inv (σ : Binding) (m : Nat) (r d r' : Dim) (c : Nat) (P : List Nat)
    (hinv : Inv σ m r P) (hd : dimHolds σ d c) (hc : c = 1 ∨ c = m) (hs : stepDim r d = some r') :
    Inv σ m r' (c :: P) := by
  have all1 : c = 1 → (∀ x ∈ P, x = 1) → ∀ x ∈ c :: P, x = 1 := by
    intro h1 hP x hx
    rcases List.mem_cons.mp hx with rfl | hx
    · exact h1
    · exact hP x hx
  cases d with
  | known n =>
    simp only [dimHolds] at hd
    subst hd
    simp only [stepDim] at hs
    by_cases h1 : c = 1
    · simp only [h1, if_true, Option.some.injEq] at hs
      subst hs
      rcases hinv with h | ⟨h, hP⟩
      · exact Or.inl h
      · exact Or.inr ⟨h, all1 h1 hP⟩
    · simp only [h1, if_false] at hs
      have hm : c = m := by rcases hc with h | h; exact absurd h h1; exact h
      cases r with
      | known k =>
        simp only at hs
        by_cases hk1 : k = 1
        · simp only [hk1, if_true, Option.some.injEq] at hs
          subst hs
          exact Or.inl (by simp [dimHolds, hm])
        · simp only [hk1, if_false] at hs
          by_cases hkc : k = c
          · simp only [hkc, if_true, Option.some.injEq] at hs
            subst hs
            exact Or.inl (by simp [dimHolds, hm])
          · simp [hkc] at hs
      | sym s =>
        simp only [Option.some.injEq] at hs
        subst hs
        exact Or.inl (by simp [dimHolds, hm])
      | unk =>
        simp only [Option.some.injEq] at hs
        subst hs
        exact Or.inl (by simp [dimHolds, hm])
  | sym s =>
    simp only [dimHolds] at hd
    cases r with
    | known k =>
      simp only [stepDim] at hs
      by_cases hk1 : k = 1
      · simp only [hk1, if_true, Option.some.injEq] at hs
        subst hs
        rcases hc with h1 | hm
        · rcases hinv with h | ⟨_, hP⟩
          · simp only [dimHolds, hk1] at h
            exact Or.inl (by simp only [dimHolds]; omega)
          · exact Or.inr ⟨by simp only [dimHolds]; omega, all1 h1 hP⟩
        · exact Or.inl (by simp only [dimHolds]; omega)
      · simp only [hk1, if_false, Option.some.injEq] at hs
        subst hs
        rcases hinv with h | ⟨h, _⟩
        · exact Or.inl h
        · simp only [dimHolds] at h; exact absurd h.symm hk1
    | sym s' =>
      simp only [stepDim] at hs
      by_cases he : Dim.sym s' = Dim.sym s
      · simp only [he, if_true, Option.some.injEq] at hs
        subst hs
        rcases hinv with h | ⟨h, hP⟩
        · exact Or.inl (he ▸ h)
        · have h' : dimHolds σ (Dim.sym s) 1 := he ▸ h
          simp only [dimHolds] at h'
          exact Or.inr ⟨by simp only [dimHolds]; exact h', all1 (by omega) hP⟩
      · simp [he] at hs
    | unk =>
      simp only [stepDim] at hs
      simp at hs
  | unk =>
    cases r with
    | known k =>
      simp only [stepDim] at hs
      by_cases hk1 : k = 1
      · simp only [hk1, if_true, Option.some.injEq] at hs
        subst hs
        exact Or.inl trivial
      · simp only [hk1, if_false, Option.some.injEq] at hs
        subst hs
        rcases hinv with h | ⟨h, _⟩
        · exact Or.inl h
        · simp only [dimHolds] at h; exact absurd h.symm hk1
    | sym s' =>
      simp only [stepDim] at hs
      simp at hs
    | unk =>
      simp only [stepDim] at hs
      simp only [if_true, Option.some.injEq] at hs
      subst hs
      exact Or.inl trivial

theorem foldStep_inv (σ : Binding) (m : Nat) {ds : List Dim} {cs : List Nat}
    (hf : Forall₂ (dimHolds σ) ds cs) : ∀ (r res : Dim) (P : List Nat),
    (∀ c ∈ cs, c = 1 ∨ c = m) → Inv σ m r P →
    foldStep r ds = some res → Inv σ m res (cs.reverse ++ P) := by
  induction hf with
  | nil =>
    intro r res P _ hinv hs
    simp only [foldStep, Option.some.injEq] at hs
    subst hs
    simpa using hinv
  | @cons d c ds cs h1 _ ih =>
    intro r res P hc hinv hs
    simp only [foldStep] at hs
    split at hs
    · cases hs
    · rename_i r' hr'
      have hi := stepDim_inv σ m r d r' c P hinv h1 (hc c List.mem_cons_self) hr'
      have := ih r' res (c :: P) (fun x hx => hc x (List.mem_cons_of_mem _ hx)) hi hs
      simpa [List.reverse_cons, List.append_assoc] using this

/-- one axis: the resolved dim is true of the broadcast extent -/
theorem axis_sound (σ : Binding) (ds : List Dim) (cs : List Nat) (m : Nat) (res : Dim)
    (hf : Forall₂ (dimHolds σ) ds cs) (hb : AxisB cs m)
    (hs : foldStep (.known 1) ds = some res) : dimHolds σ res m := by
  have h0 : Inv σ m (.known 1) [] := Or.inr ⟨by simp [dimHolds], by intro c hc; cases hc⟩
  have := foldStep_inv σ m hf (.known 1) res [] hb.1 h0 hs
  rcases this with h | ⟨h, hall⟩
  · exact h
  · have hm1 : m = 1 := by
      rcases hb.2 with h1 | hm
      · exact h1
      · exact hall m (by simpa using hm)
    rw [hm1]; exact h

theorem heads_hold (σ : Binding) {shapes : List (List Dim)} {cs : List (List Nat)}
    (h : Forall₂ (Forall₂ (dimHolds σ)) shapes cs) :
    Forall₂ (dimHolds σ) (shapes.map headD) (cs.map headN) := by
  induction h with
  | nil => exact .nil
  | cons h1 _ ih =>
    refine .cons ?_ ih
    cases h1 with
    | nil => simp [headD, headN, dimHolds]
    | cons g1 _ => simpa [headD, headN] using g1

theorem tails_hold (σ : Binding) {shapes : List (List Dim)} {cs : List (List Nat)}
    (h : Forall₂ (Forall₂ (dimHolds σ)) shapes cs) :
    Forall₂ (Forall₂ (dimHolds σ)) (shapes.map List.tail) (cs.map List.tail) := by
  induction h with
  | nil => exact .nil
  | cons h1 _ ih =>
    refine .cons ?_ ih
    cases h1 with
    | nil => exact .nil
    | cons _ g2 => simpa using g2

theorem bcastPadded_sound (σ : Binding) : ∀ (r : Nat) (shapes : List (List Dim)) (cs : List (List Nat))
    (res : List Dim) (out : List Nat), Forall₂ (Forall₂ (dimHolds σ)) shapes cs →
    NpPadded r cs out → bcastPadded r shapes = some res → Forall₂ (dimHolds σ) res out
  | 0, shapes, cs, res, out, _, hn, hs => by
    simp only [NpPadded] at hn
    simp only [bcastPadded, Option.some.injEq] at hs
    subst hn; subst hs
    exact .nil
  | r + 1, shapes, cs, res, out, hf, hn, hs => by
    obtain ⟨m, rest, ho, hax, hrest⟩ := hn
    simp only [bcastPadded] at hs
    split at hs
    · cases hs
    · rename_i d hd
      split at hs
      · cases hs
      · rename_i rs hrs
        simp only [Option.some.injEq] at hs
        subst hs; subst ho
        exact .cons (axis_sound σ _ _ m d (heads_hold σ hf) hax hd)
          (bcastPadded_sound σ r _ _ rs rest (tails_hold σ hf) hrest hrs)

theorem maxRank_eq (σ : Binding) {shapes : List (List Dim)} {cs : List (List Nat)}
    (h : Forall₂ (Forall₂ (dimHolds σ)) shapes cs) : maxRank shapes = maxRankN cs := by
  induction h with
  | nil => rfl
  | cons h1 _ ih => simp only [maxRank, maxRankN, h1.length_eq, ih]

theorem replicate_hold (σ : Binding) : ∀ k : Nat,
    Forall₂ (dimHolds σ) (List.replicate k (Dim.known 1)) (List.replicate k 1)
  | 0 => .nil
  | k + 1 => by
    simp only [List.replicate_succ]
    exact .cons (by simp [dimHolds]) (replicate_hold σ k)

theorem forall₂_append {α β : Type} (R : α → β → Prop) {a₁ : List α} {b₁ : List β}
    (h1 : Forall₂ R a₁ b₁) : ∀ {a₂ : List α} {b₂ : List β}, Forall₂ R a₂ b₂ →
    Forall₂ R (a₁ ++ a₂) (b₁ ++ b₂) := by
  induction h1 with
  | nil => intro _ _ h2; exact h2
  | cons g1 _ ih => intro _ _ h2; exact .cons g1 (ih h2)

theorem pads_hold (σ : Binding) (r : Nat) {shapes : List (List Dim)} {cs : List (List Nat)}
    (h : Forall₂ (Forall₂ (dimHolds σ)) shapes cs) :
    Forall₂ (Forall₂ (dimHolds σ)) (shapes.map (padDims r)) (cs.map (padNat r)) := by
  induction h with
  | nil => exact .nil
  | cons h1 _ ih =>
    refine .cons ?_ ih
    unfold padDims padNat
    rw [h1.length_eq]
    exact forall₂_append _ (replicate_hold σ _) h1

/-- **Soundness of the broadcast annotation.**  (H1) `cs` are runtime shapes consistent with the
    input annotations `shapes` under ONE binding `σ`; (H2) `cs` are numpy-broadcastable with result
    `out`.  Then every dim of the annotation computed by the code's algorithm is true of `out`
    (and it has the right rank). -/
theorem broadcastDims_sound (σ : Binding) (shapes : List (List Dim)) (cs : List (List Nat))
    (res : List Dim) (out : List Nat)
    (H1 : Forall₂ (Forall₂ (dimHolds σ)) shapes cs) (H2 : NpBroadcast cs out)
    (h : broadcastDims shapes = some res) : Forall₂ (dimHolds σ) res out := by
  unfold broadcastDims at h
  split at h
  · cases h
  · unfold NpBroadcast at H2
    rw [← maxRank_eq σ H1] at H2
    exact bcastPadded_sound σ _ _ _ res out (pads_hold σ _ H1) H2 h

/-! ## verified consistency checker for the small vocabulary -/

theorem dimsLeB_sound : ∀ (l' l : List Dim), dimsLeB l' l = true → Forall₂ DimLe l' l
  | [], [], _ => .nil
  | d' :: l', d :: l, h => by
    simp only [dimsLeB, Bool.and_eq_true] at h
    refine .cons ?_ (dimsLeB_sound l' l h.2)
    simp only [dimLeB, Bool.or_eq_true, beq_iff_eq] at h
    exact h.1
  | [], _ :: _, h => by simp [dimsLeB] at h
  | _ :: _, [], h => by simp [dimsLeB] at h

theorem annotWeakerB_sound (σ : Binding) (a' a : Annot) (t : RT) (h : annotWeakerB a' a = true)
    (ha : annotHolds σ a t) : annotHolds σ a' t := by
  simp only [annotWeakerB, Bool.and_eq_true, Bool.or_eq_true] at h
  obtain ⟨hdt, hdims⟩ := h
  refine ⟨?_, ?_⟩
  · intro d hd
    rcases hdt with h1 | h1
    · rw [hd] at h1; simp at h1
    · have : a'.dtype = a.dtype := by simpa using h1
      exact ha.1 d (this ▸ hd)
  · intro ds hds
    rw [hds] at hdims
    cases hl : a.dims with
    | none => rw [hl] at hdims; simp at hdims
    | some l =>
      rw [hl] at hdims
      exact forall₂_dimLe_sound σ (dimsLeB_sound ds l hdims) t.shape (ha.2 l hl)

/-- What the run time does at a vocabulary node (`ρ` = runtime dtype and shape of every value). -/
def NodeSem (ρ : String → RT) (n : Node) : Prop :=
  match vocabKind n with
  | .unary x y => ρ y = ρ x
  | .binary a b y => (ρ y).dtype = (ρ a).dtype ∧ NpBroadcast [(ρ a).shape, (ρ b).shape] (ρ y).shape
  | .other => True

def holdsAt (σ : Binding) (ρ : String → RT) (vi : List (String × Annot)) (x : String) : Prop :=
  annotHolds σ (annotOf vi x) (ρ x)

theorem vocab_unary_shape (n : Node) (x y : String) (h : vocabKind n = .unary x y) :
    n.ins = [x] ∧ n.outsRaw = [y] := by
  unfold vocabKind at h
  split at h
  · cases h
  · split at h
    · split at h
      · rename_i x' y' hi ho
        simp only [VocabKind.unary.injEq] at h
        exact ⟨by rw [hi, h.1], by rw [ho, h.2]⟩
      · cases h
    · split at h
      · split at h <;> cases h
      · cases h

theorem vocab_binary_shape (n : Node) (a b y : String) (h : vocabKind n = .binary a b y) :
    n.ins = [a, b] ∧ n.outsRaw = [y] := by
  unfold vocabKind at h
  split at h
  · cases h
  · split at h
    · split at h <;> cases h
    · split at h
      · split at h
        · rename_i a' b' y' hi ho
          simp only [VocabKind.binary.injEq] at h
          exact ⟨by rw [hi, h.1, h.2.1], by rw [ho, h.2.2]⟩
        · cases h
      · cases h

/-- one accepted vocabulary node: true input annotations + runtime semantics ⇒ true output annotations -/
theorem nodeConsistent_sound (σ : Binding) (ρ : String → RT) (vi : List (String × Annot)) (n : Node)
    (hc : nodeConsistent vi n = true) (hv : inVocab n = true) (hs : NodeSem ρ n)
    (hin : ∀ x ∈ n.ins, holdsAt σ ρ vi x) : ∀ y ∈ n.outsRaw, holdsAt σ ρ vi y := by
  unfold nodeConsistent at hc
  unfold NodeSem at hs
  unfold inVocab at hv
  cases hk : vocabKind n with
  | unary x y =>
    rw [hk] at hc hs
    obtain ⟨hi, ho⟩ := vocab_unary_shape n x y hk
    intro y' hy'
    rw [ho] at hy'
    simp only [List.mem_singleton] at hy'
    subst hy'
    have hx := hin x (by rw [hi]; exact List.mem_singleton_self x)
    unfold holdsAt at hx ⊢
    simp only at hs
    rw [hs]
    exact annotWeakerB_sound σ _ _ _ hc hx
  | binary a b y =>
    rw [hk] at hc hs
    obtain ⟨hi, ho⟩ := vocab_binary_shape n a b y hk
    intro y' hy'
    rw [ho] at hy'
    simp only [List.mem_singleton] at hy'
    subst hy'
    have ha := hin a (by rw [hi]; simp)
    have hb := hin b (by rw [hi]; simp)
    unfold holdsAt at ha hb ⊢
    simp only [Bool.and_eq_true, Bool.or_eq_true] at hc
    obtain ⟨hdt, hdims⟩ := hc
    simp only at hs
    obtain ⟨hsd, hsb⟩ := hs
    refine ⟨?_, ?_⟩
    · intro d hd
      rcases hdt with h1 | h1
      · rw [hd] at h1; simp at h1
      · have e : (annotOf vi y').dtype = (annotOf vi a).dtype := by simpa using h1
        rw [hsd]
        exact ha.1 d (e ▸ hd)
    · intro ds hds
      rw [hds] at hdims
      simp only at hdims
      cases hla : (annotOf vi a).dims with
      | none => rw [hla] at hdims; simp at hdims
      | some la =>
        cases hlb : (annotOf vi b).dims with
        | none => rw [hla, hlb] at hdims; simp at hdims
        | some lb =>
          rw [hla, hlb] at hdims
          simp only at hdims
          cases hr : broadcastDims [la, lb] with
          | none => rw [hr] at hdims; simp at hdims
          | some r =>
            rw [hr] at hdims
            simp only at hdims
            have H1 : Forall₂ (Forall₂ (dimHolds σ)) [la, lb] [(ρ a).shape, (ρ b).shape] :=
              .cons (ha.2 la hla) (.cons (hb.2 lb hlb) .nil)
            have hres := broadcastDims_sound σ [la, lb] _ r _ H1 hsb hr
            exact forall₂_dimLe_sound σ (dimsLeB_sound ds r hdims) _ hres
  | other => rw [hk] at hv; cases hv

theorem definedBy_append (l₁ l₂ : List Node) : definedBy (l₁ ++ l₂) = definedBy l₁ ++ definedBy l₂ := by
  simp [definedBy]

theorem outs_sub_outsRaw (n : Node) : ∀ y ∈ n.outs, y ∈ n.outsRaw := by
  cases n with
  | mk d o i u a b =>
    intro y hy
    simp only [Node.outs] at hy
    exact (List.mem_filter.mp hy).1

/-- **Soundness of the consistency checker** (one scope; the driver runs it on every scope).
    Hypotheses: the run time behaves as ONNX says at vocabulary nodes (`hsem`); annotations of values
    not defined by a node of this scope — graph inputs, initializers, captured outer values — are true
    (`hext`); output annotations of nodes OUTSIDE the vocabulary are true (`hother`, the part that is
    only observed in ORT); nodes are in definition-before-use order (`htopo`, property C03).
    Then every annotation of every node output of the scope is true at run time. -/
theorem annotConsistent_sound (σ : Binding) (ρ : String → RT) (g : Graph)
    (hc : annotConsistent g = true)
    (hsem : ∀ n ∈ g.nodes, NodeSem ρ n)
    (hext : ∀ x, x ∉ definedBy g.nodes → holdsAt σ ρ g.vinfo x)
    (hother : ∀ n ∈ g.nodes, inVocab n = false → ∀ y ∈ n.outs, holdsAt σ ρ g.vinfo y)
    (htopo : ∀ i n, g.nodes[i]? = some n → ∀ x ∈ n.ins, x ∈ definedBy g.nodes →
        x ∈ definedBy (g.nodes.take i)) :
    ∀ y ∈ definedBy g.nodes, holdsAt σ ρ g.vinfo y := by
  have key : ∀ k, ∀ y ∈ definedBy (g.nodes.take k), holdsAt σ ρ g.vinfo y := by
    intro k
    induction k with
    | zero => intro y hy; simp [definedBy] at hy
    | succ k ih =>
      intro y hy
      cases hn : g.nodes[k]? with
      | none =>
        have hlen : g.nodes.length ≤ k := by
          rcases Nat.lt_or_ge k g.nodes.length with h | h
          · have := List.getElem?_eq_getElem h; rw [this] at hn; cases hn
          · exact h
        rw [List.take_of_length_le (by omega)] at hy
        rw [List.take_of_length_le hlen] at ih
        exact ih y hy
      | some n =>
        have hk : k < g.nodes.length := by
          rcases Nat.lt_or_ge k g.nodes.length with h | h
          · exact h
          · have := List.getElem?_eq_none h; rw [this] at hn; cases hn
        have htake : g.nodes.take (k + 1) = g.nodes.take k ++ [n] := by
          rw [List.take_add_one, hn]; rfl
        rw [htake, definedBy_append] at hy
        rcases List.mem_append.mp hy with hy | hy
        · exact ih y hy
        · have hy' : y ∈ n.outs := by simpa [definedBy] using hy
          have hmem : n ∈ g.nodes := List.mem_of_getElem? hn
          by_cases hv : inVocab n = true
          · have hcn : nodeConsistent g.vinfo n = true := (List.all_eq_true.mp hc) n hmem
            refine nodeConsistent_sound σ ρ g.vinfo n hcn hv (hsem n hmem) ?_ y (outs_sub_outsRaw n y hy')
            intro x hx
            by_cases hd : x ∈ definedBy g.nodes
            · exact ih x (htopo k n hn x hx hd)
            · exact hext x hd
          · have hv' : inVocab n = false := by simpa using hv
            exact hother n hmem hv' y hy'
  intro y hy
  have := key g.nodes.length y (by rw [List.take_length]; exact hy)
  exact this

/-! ## non-vacuity -/

def exLoop : Graph :=
  .mk ["x"] ["w"] [.mk "" "Loop" ["n", "c", "x"] ["y"] ["body"]
      [.mk ["i", "cin", "xin"] ["k"] [.mk "" "Add" ["xin", "k"] ["t"] [] [], .mk "" "Identity" ["t"] ["xout"] [] []]
        ["cin", "xout"]
        [("xin", ⟨some 1, some [.sym "B", .known 3]⟩), ("k", ⟨some 1, some [.known 3]⟩),
         ("t", ⟨some 1, some [.sym "B", .known 3]⟩), ("xout", ⟨some 1, some [.sym "B", .known 3]⟩)]],
     .mk "" "Relu" ["y"] ["z"] [] [], .mk "" "Neg" ["z"] ["q"] [] []] ["q"]
    [("x", ⟨some 1, some [.sym "B", .known 3]⟩), ("y", ⟨some 1, some [.sym "B", .sym "?"]⟩),
     ("z", ⟨some 1, some [.sym "B", .known 3]⟩), ("q", ⟨some 1, some [.sym "B", .known 3]⟩)]

-- top scope: `y` loses only its unknown-ish dim; the Loop body is rank-only except its I/O
example : (loosenGraph false exLoop).vinfo =
    [("x", ⟨some 1, some [.sym "B", .known 3]⟩), ("y", ⟨some 1, some [.sym "B", .unk]⟩),
     ("z", ⟨some 1, some [.sym "B", .known 3]⟩), ("q", ⟨some 1, some [.sym "B", .known 3]⟩)] := by decide
example : ((loosenGraph false exLoop).at? [(0, 0)]).map Graph.vinfo = some
    [("xin", ⟨some 1, some [.sym "B", .known 3]⟩), ("k", ⟨some 1, some [.unk]⟩),
     ("t", ⟨some 1, some [.unk, .unk]⟩), ("xout", ⟨some 1, some [.sym "B", .known 3]⟩)] := by decide
example : broadcastDims [[.sym "B", .known 1, .known 3], [.known 4, .known 1], [.unk, .known 1, .known 1]]
    = none := by decide
example : broadcastDims [[.sym "B", .known 1, .known 3], [.known 4, .known 1], [.sym "B", .known 1, .known 1]]
    = some [.sym "B", .known 4, .known 3] := by decide
example : broadcastDims [[.sym "B", .known 3], [.known 5, .known 3]] = some [.known 5, .known 3] := by decide
example : broadcastDims [[.known 2, .known 3], [.known 4, .known 3]] = none := by decide
example : NpBroadcast [[5, 1, 3], [4, 1]] [5, 4, 3] :=
  ⟨5, [4, 3], rfl, ⟨by decide, by decide⟩, 4, [3], rfl, ⟨by decide, by decide⟩, 3, [], rfl,
    ⟨by decide, by decide⟩, rfl⟩
example : dimHolds (fun _ => 5) (.sym "B") 5 := rfl

def exVocab (yAnn : Annot) : Graph :=
  .mk ["x", "b"] [] [.mk "" "Add" ["x", "b"] ["s"] [] [], .mk "" "Tanh" ["s"] ["y"] [] []] ["y"]
    [("x", ⟨some 1, some [.sym "B", .known 3]⟩), ("b", ⟨some 1, some [.known 3]⟩),
     ("s", ⟨some 1, some [.sym "B", .known 3]⟩), ("y", yAnn)]

example : annotConsistent (exVocab ⟨some 1, some [.sym "B", .known 3]⟩) = true := by decide
example : annotConsistent (exVocab ⟨some 1, some [.unk, .known 3]⟩) = true := by decide
example : annotConsistent (exVocab ⟨some 1, some [.known 3, .known 3]⟩) = false := by decide   -- wrong dim
example : annotConsistent (exVocab ⟨some 11, some [.sym "B", .known 3]⟩) = false := by decide  -- wrong dtype
example : annotConsistent (exVocab ⟨some 1, some [.known 3]⟩) = false := by decide             -- wrong rank
example : consistentStats (exVocab ⟨some 1, some [.sym "B", .known 3]⟩) = (2, 2) := by decide

/-! The full-strength statement "every annotation of every export holds for some binding" is REFUTED on the
    unchanged tree: `to_onnx` of two scans of lengths 5 and 100 declares both outputs
    `[JAX2ONNX_DYNAMIC_DIM_SENTINEL]`; ONNX Runtime returns shapes `(5,)` and `(100,)`.  No binding makes
    both annotations true (known finding F-C08-dynamic-sentinel). -/
theorem sentinel_annotations_refuted :
    ¬ ∃ σ : Binding,
        annotHolds σ ⟨some 1, some [.sym "JAX2ONNX_DYNAMIC_DIM_SENTINEL"]⟩ ⟨1, [5]⟩ ∧
        annotHolds σ ⟨some 1, some [.sym "JAX2ONNX_DYNAMIC_DIM_SENTINEL"]⟩ ⟨1, [100]⟩ := by
  rintro ⟨σ, h1, h2⟩
  have a := h1.2 _ rfl
  have b := h2.2 _ rfl
  cases a with
  | cons ha _ =>
    cases b with
    | cons hb _ =>
      simp only [dimHolds] at ha hb
      omega

/-- … while with `unk` instead of the shared symbol both annotations hold (what the sentinel means) -/
example : ∀ σ : Binding, annotHolds σ ⟨some 1, some [.unk]⟩ ⟨1, [5]⟩ ∧ annotHolds σ ⟨some 1, some [.unk]⟩ ⟨1, [100]⟩ := by
  intro σ
  refine ⟨⟨?_, ?_⟩, ⟨?_, ?_⟩⟩
  · intro d hd; cases hd; rfl
  · intro ds hds; cases hds; exact .cons trivial .nil
  · intro d hd; cases hd; rfl
  · intro ds hds; cases hds; exact .cons trivial .nil

end J2O.C08
