/-
C15 — the post-save clean-up decision of `_save_model_proto` (standard mode), with tensors of NESTED
graphs in the picture (`onnx.save_model(..., save_as_external_data=True)` spills the initializers of every
graph, the clean-up test looks at the top-level initializers only).

* `removes_only_if_nothing_spilled` : the code's decision — "no top-level initializer is external AND the
  sidecar is empty" — removes the sidecar only when NO tensor of ANY graph was spilled, so no referenced
  byte is ever lost (every size threshold ≥ 1, every tensor list).
* `kept_when_nested_spilled`        : a tensor above the threshold that lives only in a Loop/If body keeps the
  sidecar.
* `noGuard_loses_nested_tensor`     : without the emptiness guard (seeded change C15-4) a model whose only
  large tensor is nested loses its sidecar — refutation with the concrete sizes of the harness request
  `fori_bigconst`.

Tie: the histories with the requests `fori_bigconst` / `fori_smallconst` (harness/props/c15.py) run the
real `to_onnx(return_mode="file")` and compare files, sidecar length and per-initializer storage of all
graphs with the driver's prediction.
-/
namespace J2O.C15.Cleanup

/-- an initializer: does it live in a nested graph, and its byte length -/
structure T where
  nested : Bool
  len : Nat
  deriving DecidableEq, Repr

/-- `size_threshold`: tensors of at least `thr` bytes are written to the sidecar -/
def spills (thr : Nat) (t : T) : Bool := decide (thr ≤ t.len)

/-- bytes `onnx.save_model` writes to the (fresh) sidecar: the spilled tensors of ALL graphs -/
def sideLen (thr : Nat) : List T → Nat
  | [] => 0
  | t :: ts => (if spills thr t then t.len else 0) + sideLen thr ts

/-- `any(init.external_data for init in model_proto.graph.initializer)` — top level only -/
def topExt (thr : Nat) (ts : List T) : Bool := ts.any (fun t => !t.nested && spills thr t)

/-- the decision of the code: remove the sidecar? -/
def removes (thr : Nat) (ts : List T) : Bool := !topExt thr ts && sideLen thr ts == 0

/-- the seeded variant C15-4: the emptiness guard dropped -/
def removesNoGuard (thr : Nat) (ts : List T) : Bool := !topExt thr ts

theorem sideLen_ge (thr : Nat) : ∀ (ts : List T) (t : T), t ∈ ts → spills thr t = true → t.len ≤ sideLen thr ts := by
  intro ts
  induction ts with
  | nil => intro t h; cases h
  | cons a as ih =>
    intro t h hs
    rcases List.mem_cons.mp h with rfl | h'
    · simp [sideLen, hs]
    · have := ih t h' hs
      simp only [sideLen]
      omega

/-- **The clean-up never removes a sidecar that holds a referenced tensor**, wherever that tensor lives. -/
theorem removes_only_if_nothing_spilled (thr : Nat) (hthr : 0 < thr) (ts : List T)
    (h : removes thr ts = true) : ∀ t ∈ ts, spills thr t = false := by
  intro t ht
  cases hs : spills thr t with
  | false => rfl
  | true =>
    simp only [removes, Bool.and_eq_true, beq_iff_eq] at h
    have h1 := sideLen_ge thr ts t ht hs
    have h2 : thr ≤ t.len := by simpa [spills] using hs
    omega

/-- a large tensor that lives only inside a nested graph keeps the sidecar -/
theorem kept_when_nested_spilled (thr : Nat) (hthr : 0 < thr) (ts : List T) (t : T) (ht : t ∈ ts)
    (hs : spills thr t = true) : removes thr ts = false := by
  cases h : removes thr ts with
  | false => rfl
  | true => have := removes_only_if_nothing_spilled thr hthr ts h t ht; simp [hs] at this

/-- **Without the emptiness guard the nested tensor is lost** (C15-4): the request `fori_bigconst` — one
    float32 tensor of 262 200 elements inside the Loop body, nothing large at top level. -/
theorem noGuard_loses_nested_tensor :
    removesNoGuard 1048576 [⟨true, 1048800⟩, ⟨false, 16⟩] = true ∧
    spills 1048576 (⟨true, 1048800⟩ : T) = true ∧
    removes 1048576 [⟨true, 1048800⟩, ⟨false, 16⟩] = false := by decide

-- non-vacuity: nothing spilled → the (empty) sidecar is removed; a top-level spill keeps it
example : removes 1048576 [⟨false, 100⟩, ⟨true, 400⟩] = true := by decide
example : removes 1048576 [⟨false, 1048600⟩] = false := by decide

end J2O.C15.Cleanup
