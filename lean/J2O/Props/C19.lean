/-
C19 — property theorems: the finite search over representative call forms decides, for ALL call
forms (any positional count, any keyword names, repetitions or not), whether the substitute
signature accepts every call the original accepts.

* `binds_abs`            : abstraction — capping the positional count and collapsing unknown
                            keyword names to one fresh name does not change the verdict
* `findUncoveredWith_some` / `findUncovered_some` : a returned form is a genuine witness
* `findUncoveredWith_none` / `findUncovered_none` : no witness in the finite family ⇒ the
                            substitute accepts every call form the original accepts
* `findUncovered_some_distinct` : the witness passes every keyword once
* `generic_covers_all`   : a `(*args, **kwargs)` substitute accepts every call form
-/
import J2O.Lemmas.C19
set_option linter.unusedSimpArgs false
set_option linter.unusedVariables false
set_option linter.unusedSectionVars false

namespace J2O.C19
variable {α : Type} [DecidableEq α]

/-- **Abstraction lemma.** For `S` any signature whose names are among the known names (in
    particular `S = O` and `S = W`), and whose positional parameters are fewer than the cap, the
    verdict on a call form equals the verdict on its abstraction. -/
theorem binds_abs (O W S : Sig α) (fresh : α) (c : Call α)
    (hS : ∀ k ∈ names S, k ∈ knownNames O W) (hcap : (posParams S).length < posCap O W)
    (hf : fresh ∉ knownNames O W) :
    binds S (absCall O W fresh c) = binds S c := by
  obtain ⟨n, kw⟩ := c
  simp only [absCall]
  rw [binds_cap S n (posCap O W) _ hcap, binds_collapse S (knownNames O W) fresh n kw hS hf]

theorem posCap_left (O W : Sig α) : (posParams O).length < posCap O W := by
  simp only [posCap]; omega

theorem posCap_right (O W : Sig α) : (posParams W).length < posCap O W := by
  simp only [posCap]; omega

theorem binds_abs_orig (O W : Sig α) (fresh : α) (c : Call α) (hf : fresh ∉ knownNames O W) :
    binds O (absCall O W fresh c) = binds O c :=
  binds_abs O W O fresh c (names_subset_known_left O W) (posCap_left O W) hf

theorem binds_abs_subst (O W : Sig α) (fresh : α) (c : Call α) (hf : fresh ∉ knownNames O W) :
    binds W (absCall O W fresh c) = binds W c :=
  binds_abs O W W fresh c (names_subset_known_right O W) (posCap_right O W) hf

/-- **Soundness of a witness.** -/
theorem findUncoveredWith_some (O W : Sig α) (fresh : α) (c : Call α)
    (h : findUncoveredWith O W fresh = some c) : binds O c = true ∧ binds W c = false := by
  have := List.find?_some h
  simpa [uncoveredBy] using this

/-- **Completeness of the finite search.** If no representative call form is accepted by `O`
    and rejected by `W`, then *every* call form accepted by `O` is accepted by `W`. -/
theorem findUncoveredWith_none (O W : Sig α) (fresh : α) (hf : fresh ∉ knownNames O W)
    (h : findUncoveredWith O W fresh = none) :
    ∀ c : Call α, binds O c = true → binds W c = true := by
  intro c hc
  -- abstraction
  have hO' : binds O (absCall O W fresh c) = true := by rw [binds_abs_orig O W fresh c hf]; exact hc
  rw [← binds_abs_subst O W fresh c hf]
  generalize hc' : absCall O W fresh c = c' at hO'
  have hn : c'.npos ≤ posCap O W := by rw [← hc']; simp only [absCall]; exact Nat.min_le_right _ _
  have hkwK : ∀ k ∈ c'.kw, k ∈ knownNames O W ++ [fresh] := by
    intro k hk
    rw [← hc'] at hk
    simp only [absCall, List.mem_map] at hk
    obtain ⟨k0, _, rfl⟩ := hk
    unfold collapse
    split
    · rename_i h1; exact List.mem_append_left _ h1
    · simp
  -- every keyword of the abstraction lies in the search universe
  have hU : ∀ k ∈ c'.kw, k ∈ kwUniverse O W fresh := by
    intro k hk
    unfold kwUniverse
    by_cases hv : hasVarKw O = true
    · rw [if_pos hv]; exact hkwK k hk
    · rw [if_neg hv]
      exact kw_subset_of_binds O c' (by simpa using hv) hO' k hk
  -- the representative with the same keyword set
  let s := (kwUniverse O W fresh).filter (fun k => decide (k ∈ c'.kw))
  have hs : ∀ k, k ∈ s ↔ k ∈ c'.kw := by
    intro k
    simp only [s, List.mem_filter, decide_eq_true_eq]
    exact ⟨fun a => a.2, fun a => ⟨hU k a, a⟩⟩
  have hmem : (⟨c'.npos, s⟩ : Call α) ∈ candidates O W fresh := by
    simp only [candidates, List.mem_flatMap, List.mem_map, List.mem_range]
    exact ⟨s, filter_mem_subsets _ _, c'.npos, by omega, rfl⟩
  have hnone := List.find?_eq_none.mp h _ hmem
  have e1 : binds O ⟨c'.npos, s⟩ = binds O c' := binds_set_congr O c'.npos s c'.kw hs
  have e2 : binds W ⟨c'.npos, s⟩ = binds W c' := binds_set_congr W c'.npos s c'.kw hs
  simp only [uncoveredBy, e1, e2, hO', Bool.true_and, Bool.not_eq_true', Bool.not_eq_false] at hnone
  simpa using hnone

/-! ### Names as natural numbers (the generated tables) -/

theorem findUncovered_some (O W : Sig Nat) (c : Call Nat) (h : findUncovered O W = some c) :
    binds O c = true ∧ binds W c = false :=
  findUncoveredWith_some O W _ c h

theorem findUncovered_none (O W : Sig Nat) (h : findUncovered O W = none) :
    ∀ c : Call Nat, binds O c = true → binds W c = true :=
  findUncoveredWith_none O W _ (freshNat_not_mem _) h

/-- The search decides coverage: it fails exactly when all call forms are covered. -/
theorem findUncovered_none_iff (O W : Sig Nat) :
    findUncovered O W = none ↔ ∀ c : Call Nat, binds O c = true → binds W c = true := by
  constructor
  · exact findUncovered_none O W
  · intro h
    cases hc : findUncovered O W with
    | none => rfl
    | some c =>
      have := findUncovered_some O W c hc
      rw [h c this.1] at this
      exact absurd this.2 (by simp)

/-- With distinct parameter names in both signatures the witness passes each keyword once,
    i.e. it is a call one can write down. -/
theorem findUncovered_some_distinct (O W : Sig Nat) (c : Call Nat)
    (hO : (names O).Nodup) (hW : (names W).Nodup)
    (h : findUncovered O W = some c) : c.kw.Nodup := by
  have hm := List.mem_of_find?_eq_some h
  simp only [candidates, List.mem_flatMap, List.mem_map] at hm
  obtain ⟨s, hs, n, _, rfl⟩ := hm
  have hsub := sublist_of_mem_subsets _ _ hs
  refine List.Nodup.sublist hsub ?_
  unfold kwUniverse
  split
  · have hK : (knownNames O W).Nodup := by
      simp only [knownNames]
      refine List.nodup_append.mpr ⟨hO, hW.filter _, ?_⟩
      intro a ha b hb
      simp only [List.mem_filter, Bool.not_eq_eq_eq_not, Bool.not_true, decide_eq_false_iff_not] at hb
      rintro rfl
      exact hb.2 ha
    refine List.nodup_append.mpr ⟨hK, by simp, ?_⟩
    intro a ha b hb
    simp only [List.mem_singleton] at hb
    rintro rfl
    subst hb
    exact freshNat_not_mem _ ha
  · have : ((O.filter (fun p => p.kind.isKwAddr)).map (·.name)).Sublist (names O) := by
      simp only [names]
      exact List.Sublist.map _ List.filter_sublist
    exact List.Nodup.sublist this hO

/-- A substitute `(*args, **kwargs)` accepts every call form. -/
theorem generic_covers_all (a k : α) (c : Call α) :
    binds [⟨a, .varPos, false⟩, ⟨k, .varKw, false⟩] c = true := by
  simp [binds, posParams, hasVarPos, hasVarKw, kwAccepted, checkPos, checkKwOnly,
        Kind.isPos, Kind.isVarPos, Kind.isVarKw, Kind.isKwOnly]

/-! ### Non-vacuity and worked instances (names: 0 = a, 1 = axis, 2 = kind, 3 = stable) -/

/-- `jnp.sort`-like: original `(a, axis=-1, *, kind=None, stable=True)`,
    substitute `(a, axis=-1, kind=None)`. -/
def exO : Sig Nat := [⟨0, .posOrKw, false⟩, ⟨1, .posOrKw, true⟩, ⟨2, .kwOnly, true⟩, ⟨3, .kwOnly, true⟩]
def exW : Sig Nat := [⟨0, .posOrKw, false⟩, ⟨1, .posOrKw, true⟩, ⟨2, .posOrKw, true⟩]

-- the substitute misses `stable=`: a witness is found, and it is a real one
example : (findUncovered exO exW).isSome = true := by decide +kernel
example : binds exO ⟨1, [3]⟩ = true ∧ binds exW ⟨1, [3]⟩ = false := by decide +kernel
-- a faithful substitute: the hypothesis of `findUncovered_none` is satisfiable non-trivially
example : findUncovered exO exO = none := by decide +kernel
example : findUncovered exW [⟨7, .varPos, false⟩, ⟨8, .varKw, false⟩] = none := by decide +kernel
-- positional-only by keyword lands in **kwargs, and is an error without it
example : binds [⟨0, .posOnly, false⟩, ⟨9, .varKw, false⟩] ⟨1, [0]⟩ = true := by decide +kernel
example : binds [⟨0, .posOnly, false⟩] ⟨1, [0]⟩ = false := by decide +kernel
-- multiple values, with or without **kwargs
example : binds [⟨0, .posOrKw, false⟩, ⟨9, .varKw, false⟩] ⟨1, [0]⟩ = false := by decide +kernel
-- the abstraction hypotheses are satisfiable
example : freshNat (knownNames exO exW) ∉ knownNames exO exW := freshNat_not_mem _
example : (names exO).Nodup ∧ (names exW).Nodup := by decide +kernel

end J2O.C19
