/-
C19 — property theorems: the finite search over representative call forms decides, for ALL call
forms (any positional count, any keyword names, repetitions or not), whether the substitute
signature accepts every call the original accepts.

* `binds_abs`            : abstraction — capping the positional count and collapsing unknown
                            keyword names to one fresh name does not change the verdict
* `findUncoveredWith_some` / `findUncovered_some` : a returned form is a genuine witness
* `findUncoveredWith_none` / `findUncovered_none` : no witness in the finite family ⇒ the
                            substitute accepts every call form the original accepts
* `uncovered_core` / `allUncovered_core` : every mis-bound call contains one of the listed
                            minimal single-deviation forms
* `findUncovered_some_distinct` : the witness passes every keyword once
* `generic_covers_all`   : a `(*args, **kwargs)` substitute accepts every call form
-/
import J2O.Lemmas.C19
set_option linter.unusedSimpArgs false
set_option linter.unusedVariables false
set_option linter.unusedSectionVars false

namespace J2O.C19
variable {α : Type} [DecidableEq α]

/-- **Abstraction lemma.** For `S` any signature whose names are among the known names (in
    particular `S = O` and `S = W`), and whose positional parameters are fewer than the cap, the
    verdict on a call form equals the verdict on its abstraction. -/
theorem binds_abs (O W S : Sig α) (fresh : α) (c : Call α)
    (hS : ∀ k ∈ names S, k ∈ knownNames O W) (hcap : (posParams S).length < posCap O W)
    (hf : fresh ∉ knownNames O W) :
    binds S (absCall O W fresh c) = binds S c := by
  obtain ⟨n, kw⟩ := c
  simp only [absCall]
  rw [binds_cap S n (posCap O W) _ hcap, binds_collapse S (knownNames O W) fresh n kw hS hf]

theorem posCap_left (O W : Sig α) : (posParams O).length < posCap O W := by
  simp only [posCap]; omega

theorem posCap_right (O W : Sig α) : (posParams W).length < posCap O W := by
  simp only [posCap]; omega

theorem binds_abs_orig (O W : Sig α) (fresh : α) (c : Call α) (hf : fresh ∉ knownNames O W) :
    binds O (absCall O W fresh c) = binds O c :=
  binds_abs O W O fresh c (names_subset_known_left O W) (posCap_left O W) hf

theorem binds_abs_subst (O W : Sig α) (fresh : α) (c : Call α) (hf : fresh ∉ knownNames O W) :
    binds W (absCall O W fresh c) = binds W c :=
  binds_abs O W W fresh c (names_subset_known_right O W) (posCap_right O W) hf

/-- **Soundness of a witness.** -/
theorem findUncoveredWith_some (O W : Sig α) (fresh : α) (c : Call α)
    (h : findUncoveredWith O W fresh = some c) : binds O c = true ∧ binds W c = false := by
  have := List.find?_some h
  simpa [uncoveredBy] using this

theorem mem_candidates_base (O W : Sig α) (fresh : α) (n : Nat) (hn : n ≤ posCap O W) :
    (⟨n, reqNames O n⟩ : Call α) ∈ candidates O W fresh := by
  simp only [candidates, List.mem_flatMap, List.mem_range]
  exact ⟨n, by omega, List.mem_cons_self ..⟩

theorem mem_candidates_one (O W : Sig α) (fresh : α) (n : Nat) (hn : n ≤ posCap O W) (k : α)
    (hk : k ∈ kwUniverse O W fresh) (hr : k ∉ reqNames O n) :
    (⟨n, k :: reqNames O n⟩ : Call α) ∈ candidates O W fresh := by
  simp only [candidates, List.mem_flatMap, List.mem_range]
  refine ⟨n, by omega, List.mem_cons_of_mem _ (List.mem_map.mpr ⟨k, ?_, rfl⟩)⟩
  simp [List.mem_filter, hk, hr]

/-- **Minimal core of a mis-bound call.** Whenever a call form is accepted by the original and
    rejected by the substitute, one of the representative single-deviation forms — at the capped
    positional count, with keywords taken from the (abstracted) call — is already mis-bound. -/
theorem uncovered_core (O W : Sig α) (fresh : α) (hf : fresh ∉ knownNames O W) (c : Call α)
    (hO : binds O c = true) (hW : binds W c = false) :
    ∃ c0 ∈ candidates O W fresh, uncoveredBy O W c0 = true ∧
      c0.npos = min c.npos (posCap O W) ∧ ∀ k ∈ c0.kw, k ∈ (absCall O W fresh c).kw := by
  have hO' : binds O (absCall O W fresh c) = true := by rw [binds_abs_orig O W fresh c hf]; exact hO
  have hW' : binds W (absCall O W fresh c) = false := by rw [binds_abs_subst O W fresh c hf]; exact hW
  have hnpos : (absCall O W fresh c).npos = min c.npos (posCap O W) := rfl
  have hkwK : ∀ k ∈ (absCall O W fresh c).kw, k ∈ knownNames O W ++ [fresh] := by
    intro k hk
    simp only [absCall, List.mem_map] at hk
    obtain ⟨k0, _, rfl⟩ := hk
    unfold collapse
    split
    · rename_i h1; exact List.mem_append_left _ h1
    · simp
  generalize absCall O W fresh c = c' at hO' hW' hnpos hkwK ⊢
  obtain ⟨n, kw⟩ := c'
  simp only at hnpos
  have hn : n ≤ posCap O W := by rw [hnpos]; exact Nat.min_le_right _ _
  rw [← hnpos]
  have hreq := req_subset_of_binds O n kw hO'
  -- the minimal call is accepted by the original
  have hbO : binds O ⟨n, reqNames O n⟩ = true :=
    binds_shrink O n kw _ hO' hreq (fun k hk => hk)
  by_cases hbW : binds W ⟨n, reqNames O n⟩ = true
  · -- some single further keyword must be rejected by the substitute
    have : ¬ ∀ k ∈ kw, binds W ⟨n, k :: reqNames O n⟩ = true := by
      intro hall
      have := binds_compose W n (reqNames O n) kw hbW hreq hall
      rw [this] at hW'; exact absurd hW' (by simp)
    have : ∃ k ∈ kw, binds W ⟨n, k :: reqNames O n⟩ = false := by
      apply Classical.byContradiction
      intro hne
      apply this
      intro k hk
      cases hb : binds W ⟨n, k :: reqNames O n⟩ with
      | true => rfl
      | false => exact absurd ⟨k, hk, hb⟩ hne
    obtain ⟨k, hk, hkW⟩ := this
    have hkr : k ∉ reqNames O n := by
      intro hkr
      have e : binds W ⟨n, k :: reqNames O n⟩ = binds W ⟨n, reqNames O n⟩ :=
        binds_set_congr W n _ _ (fun x => by
          simp only [List.mem_cons]
          exact ⟨fun h => h.elim (fun e => e ▸ hkr) id, Or.inr⟩)
      rw [e, hbW] at hkW; exact absurd hkW (by simp)
    have hkO : binds O ⟨n, k :: reqNames O n⟩ = true :=
      binds_shrink O n kw _ hO'
        (fun x hx => (List.mem_cons.mp hx).elim (fun e => e ▸ hk) (hreq x))
        (fun x hx => List.mem_cons_of_mem _ hx)
    -- k lies in the search universe
    have hU : k ∈ kwUniverse O W fresh := by
      unfold kwUniverse
      by_cases hv : hasVarKw O = true
      · rw [if_pos hv]
        exact hkwK k hk
      · rw [if_neg hv]
        exact kw_subset_of_binds O ⟨n, kw⟩ (by simpa using hv) hO' k hk
    exact ⟨⟨n, k :: reqNames O n⟩, mem_candidates_one O W fresh n hn k hU hkr,
      by simp [uncoveredBy, hkO, hkW], rfl,
      fun x hx => (List.mem_cons.mp hx).elim (fun e => e ▸ hk) (hreq x)⟩
  · exact ⟨⟨n, reqNames O n⟩, mem_candidates_base O W fresh n hn,
      by simp [uncoveredBy, hbO, hbW], rfl, hreq⟩

/-- **Completeness of the finite search.** If no representative call form is accepted by `O`
    and rejected by `W`, then *every* call form accepted by `O` is accepted by `W`. -/
theorem findUncoveredWith_none (O W : Sig α) (fresh : α) (hf : fresh ∉ knownNames O W)
    (h : findUncoveredWith O W fresh = none) :
    ∀ c : Call α, binds O c = true → binds W c = true := by
  intro c hc
  cases hW : binds W c with
  | true => rfl
  | false =>
    obtain ⟨c0, hmem, hunc, _, _⟩ := uncovered_core O W fresh hf c hc hW
    have := List.find?_eq_none.mp h c0 hmem
    exact absurd hunc this

/-- `allUncoveredWith` lists genuine witnesses only … -/
theorem allUncoveredWith_sound (O W : Sig α) (fresh : α) (c : Call α)
    (h : c ∈ allUncoveredWith O W fresh) : binds O c = true ∧ binds W c = false := by
  simp only [allUncoveredWith, List.mem_filter, uncoveredBy, Bool.and_eq_true,
    Bool.not_eq_true', Bool.not_eq_eq_eq_not, Bool.not_true] at h
  exact h.2

/-- … and is empty exactly when the search finds nothing. -/
theorem allUncoveredWith_nil_iff (O W : Sig α) (fresh : α) :
    allUncoveredWith O W fresh = [] ↔ findUncoveredWith O W fresh = none := by
  simp only [allUncoveredWith, findUncoveredWith, List.filter_eq_nil_iff, List.find?_eq_none]

/-! ### Names as natural numbers (the generated tables) -/

theorem findUncovered_some (O W : Sig Nat) (c : Call Nat) (h : findUncovered O W = some c) :
    binds O c = true ∧ binds W c = false :=
  findUncoveredWith_some O W _ c h

theorem findUncovered_none (O W : Sig Nat) (h : findUncovered O W = none) :
    ∀ c : Call Nat, binds O c = true → binds W c = true :=
  findUncoveredWith_none O W _ (freshNat_not_mem _) h

/-- The search decides coverage: it fails exactly when all call forms are covered. -/
theorem findUncovered_none_iff (O W : Sig Nat) :
    findUncovered O W = none ↔ ∀ c : Call Nat, binds O c = true → binds W c = true := by
  constructor
  · exact findUncovered_none O W
  · intro h
    cases hc : findUncovered O W with
    | none => rfl
    | some c =>
      have := findUncovered_some O W c hc
      rw [h c this.1] at this
      exact absurd this.2 (by simp)

/-- Every mis-bound call form contains one of the listed minimal forms. -/
theorem allUncovered_core (O W : Sig Nat) (c : Call Nat)
    (hO : binds O c = true) (hW : binds W c = false) :
    ∃ c0 ∈ allUncovered O W, c0.npos = min c.npos (posCap O W) ∧
      ∀ k ∈ c0.kw, k ∈ (absCall O W (freshNat (knownNames O W)) c).kw := by
  obtain ⟨c0, hmem, hunc, h1, h2⟩ :=
    uncovered_core O W _ (freshNat_not_mem (knownNames O W)) c hO hW
  exact ⟨c0, by simp [allUncovered, allUncoveredWith, List.mem_filter, hmem, hunc], h1, h2⟩

theorem eq_of_nodup_map {γ β : Type} (f : γ → β) :
    ∀ (l : List γ), (l.map f).Nodup → ∀ a ∈ l, ∀ b ∈ l, f a = f b → a = b := by
  intro l
  induction l with
  | nil => intro _ a ha; simp at ha
  | cons x xs ih =>
    intro h a ha b hb hab
    simp only [List.map_cons, List.nodup_cons, List.mem_map, not_exists, not_and] at h
    rcases List.mem_cons.mp ha with rfl | ha' <;> rcases List.mem_cons.mp hb with rfl | hb'
    · rfl
    · exact absurd hab.symm (h.1 b hb')
    · exact absurd hab (h.1 a ha')
    · exact ih h.2 a ha' b hb' hab

theorem nodup_reqNames (S : Sig α) (n : Nat) (h : (names S).Nodup) : (reqNames S n).Nodup := by
  -- the two halves are names of disjoint sub-lists of `S`: positional vs keyword-only parameters
  have hsub1 : (((posParams S).drop n).filter (fun p => !p.hasDefault)).Sublist (posParams S) :=
    List.filter_sublist.trans (List.drop_sublist _ _)
  have hpos : ((posParams S).map (·.name)).Nodup :=
    List.Nodup.sublist (List.Sublist.map _ List.filter_sublist) h
  have hko : ((S.filter (fun p => p.kind.isKwOnly && !p.hasDefault)).map (·.name)).Nodup :=
    List.Nodup.sublist (List.Sublist.map _ List.filter_sublist) h
  simp only [reqNames]
  refine List.nodup_append.mpr ⟨List.Nodup.sublist (List.Sublist.map _ hsub1) hpos, hko, ?_⟩
  intro a ha b hb
  rintro rfl
  obtain ⟨p, hp, hpa⟩ := List.mem_map.mp ha
  obtain ⟨q, hq, hqa⟩ := List.mem_map.mp hb
  have hpS : p ∈ S := mem_posParams (hsub1.subset hp)
  have hpk : p.kind.isPos = true := by
    have := hsub1.subset hp
    simp only [posParams, List.mem_filter] at this
    exact this.2
  simp only [List.mem_filter, Bool.and_eq_true] at hq
  have hqS : q ∈ S := hq.1
  -- equal names in a Nodup name list ⇒ same parameter
  have : p = q := by
    exact eq_of_nodup_map (fun (x : Param α) => x.name) S h p hpS q hqS (hpa.trans hqa.symm)
  subst this
  cases hk : p.kind <;> simp [hk, Kind.isPos, Kind.isKwOnly] at hpk hq

/-- With distinct parameter names in the original, every representative form passes each keyword
    once, i.e. it is a call one can write down. -/
theorem candidates_distinct (O W : Sig α) (fresh : α) (c : Call α) (hO : (names O).Nodup)
    (h : c ∈ candidates O W fresh) : c.kw.Nodup := by
  simp only [candidates, List.mem_flatMap, List.mem_range, List.mem_cons, List.mem_map,
    List.mem_filter] at h
  obtain ⟨n, _, h⟩ := h
  rcases h with rfl | ⟨k, ⟨_, hk⟩, rfl⟩
  · exact nodup_reqNames O n hO
  · refine List.nodup_cons.mpr ⟨by simpa using hk, nodup_reqNames O n hO⟩

theorem findUncovered_some_distinct (O W : Sig Nat) (c : Call Nat) (hO : (names O).Nodup)
    (h : findUncovered O W = some c) : c.kw.Nodup :=
  candidates_distinct O W _ c hO (List.mem_of_find?_eq_some h)

/-- A substitute `(*args, **kwargs)` accepts every call form. -/
theorem generic_covers_all (a k : α) (c : Call α) :
    binds [⟨a, .varPos, false⟩, ⟨k, .varKw, false⟩] c = true := by
  simp [binds, posParams, hasVarPos, hasVarKw, kwAccepted, checkPos, checkKwOnly,
        Kind.isPos, Kind.isVarPos, Kind.isVarKw, Kind.isKwOnly]

/-! ### Non-vacuity and worked instances (names: 0 = a, 1 = axis, 2 = kind, 3 = stable) -/

/-- `jnp.sort`-like: original `(a, axis=-1, *, kind=None, stable=True)`,
    substitute `(a, axis=-1, kind=None)`. -/
def exO : Sig Nat := [⟨0, .posOrKw, false⟩, ⟨1, .posOrKw, true⟩, ⟨2, .kwOnly, true⟩, ⟨3, .kwOnly, true⟩]
def exW : Sig Nat := [⟨0, .posOrKw, false⟩, ⟨1, .posOrKw, true⟩, ⟨2, .posOrKw, true⟩]

-- the substitute misses `stable=`: a witness is found, and it is a real one
example : (findUncovered exO exW).isSome = true := by decide +kernel
example : binds exO ⟨1, [3]⟩ = true ∧ binds exW ⟨1, [3]⟩ = false := by decide +kernel
-- a faithful substitute: the hypothesis of `findUncovered_none` is satisfiable non-trivially
example : findUncovered exO exO = none := by decide +kernel
example : findUncovered exW [⟨7, .varPos, false⟩, ⟨8, .varKw, false⟩] = none := by decide +kernel
-- positional-only by keyword lands in **kwargs, and is an error without it
example : binds [⟨0, .posOnly, false⟩, ⟨9, .varKw, false⟩] ⟨1, [0]⟩ = true := by decide +kernel
example : binds [⟨0, .posOnly, false⟩] ⟨1, [0]⟩ = false := by decide +kernel
-- multiple values, with or without **kwargs
example : binds [⟨0, .posOrKw, false⟩, ⟨9, .varKw, false⟩] ⟨1, [0]⟩ = false := by decide +kernel
-- the abstraction hypotheses are satisfiable
example : freshNat (knownNames exO exW) ∉ knownNames exO exW := freshNat_not_mem _
example : (names exO).Nodup ∧ (names exW).Nodup := by decide +kernel
-- all minimal mis-bound forms: `stable=` with 0 (a by keyword), 1 or 2 positionals
example : allUncovered exO exW = [⟨0, [3, 0]⟩, ⟨1, [3]⟩, ⟨2, [3]⟩] := by decide +kernel

end J2O.C19
