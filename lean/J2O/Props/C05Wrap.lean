/-
C05 — declared-shape soundness at the interface, on top of C12's adapter model.

`predictOutDims` (Model/C05) permutes the DECLARED dims of a flagged output with `permNCHW`; C12's
`wrap` appends `Transpose(nhwcToNchw)` to the flagged outputs and `wrap_spec` says what the wrapped
graph computes.  Here the two are joined: if the plain declarations describe the plain results
(rank and every extent, symbols read through any valuation), then the predicted declarations of
the flagged export describe the results of the wrapped graph — the declared dims are permuted by
the same permutation as the values, for every graph, every flag subset, every input.

* `permNCHW_describes_transpose`  — one output
* `predicted_interface_describes_wrapped` — the whole output list of `wrap fin fout g`
-/
import J2O.Props.C05
import J2O.Props.C12

namespace J2O.C05
open J2O J2O.C02 J2O.C02.Term

variable {α : Type}

/-- Declared dims `d` describe tensor `t` under the valuation `val` of dim strings ("3" ↦ 3,
    "B" ↦ the batch size of the run). -/
def Describes (val : String → Nat) (d : List String) (t : Tensor α) : Prop :=
  t.rank = d.length ∧ ∀ j (hj : j < d.length), t.dim j = val d[j]

/-- The declared dims of an `outputs_as_nchw` output are permuted exactly like its value. -/
theorem permNCHW_describes_transpose (val : String → Nat) (d : List String) (t : Tensor α)
    (h4 : d.length = 4) (h : Describes val d t) :
    Describes val (permNCHW d) (transpose C12.nhwcToNchw t) := by
  match d, h4 with
  | [n, hh, w, c], _ =>
    obtain ⟨hr, hd⟩ := h
    refine ⟨by simpa [transpose, permNCHW] using hr, ?_⟩
    intro j hj
    have h0 := hd 0 (by simp)
    have h1 := hd 1 (by simp)
    have h2 := hd 2 (by simp)
    have h3 := hd 3 (by simp)
    simp only [permNCHW, List.length_cons, List.length_nil] at hj
    have hj' : j = 0 ∨ j = 1 ∨ j = 2 ∨ j = 3 := by omega
    rcases hj' with rfl | rfl | rfl | rfl <;>
      simp [transpose, permFn, C12.nhwcToNchw, permNCHW] <;> simp_all

/-- The predicted declarations of all outputs (positions counted from `k`). -/
def predictAllDims (fout : List Nat) : Nat → List (List String) → List (List String)
  | _, [] => []
  | k, d :: ds => predictOutDims d (fout.contains k) false :: predictAllDims fout (k + 1) ds

/-- `_LayoutAdapter._require_4d`: every flagged output has rank 4. -/
def flaggedRank4 (fout : List Nat) : Nat → List (List String) → Prop
  | _, [] => True
  | k, d :: ds => (fout.contains k = true → d.length = 4) ∧ flaggedRank4 fout (k + 1) ds

/-- position-wise `Describes` for a list of declarations and a list of results (same length) -/
def DescribesAll (val : String → Nat) : List (List String) → List (Tensor α) → Prop
  | [], [] => True
  | d :: ds, t :: ts => Describes val d t ∧ DescribesAll val ds ts
  | _, _ => False

theorem predictAll_describes_mapFlagged (val : String → Nat) (fout : List Nat) :
    ∀ (dims : List (List String)) (ts : List (Tensor α)) (k : Nat),
      DescribesAll val dims ts → flaggedRank4 fout k dims →
      DescribesAll val (predictAllDims fout k dims) (C12.mapFlagged fout k ts) := by
  intro dims
  induction dims with
  | nil =>
    intro ts k hf _
    cases ts with
    | nil => simp [predictAllDims, C12.mapFlagged, DescribesAll]
    | cons t ts => simp [DescribesAll] at hf
  | cons d ds ih =>
    intro ts k hf h4
    cases ts with
    | nil => simp [DescribesAll] at hf
    | cons t ts' =>
      obtain ⟨hd, hrest⟩ := hf
      obtain ⟨h4a, h4b⟩ := h4
      simp only [predictAllDims, C12.mapFlagged, DescribesAll]
      refine ⟨?_, ih ts' (k + 1) hrest h4b⟩
      by_cases hc : fout.contains k = true
      · simp only [hc, if_true, predictOutDims, Bool.false_eq_true, if_false]
        exact permNCHW_describes_transpose val d t (h4a hc) hd
      · have hc' : fout.contains k = false := by simpa using hc
        simp only [hc', Bool.false_eq_true, if_false, predictOutDims]
        exact hd

/-- **Declared-shape soundness of the layout flags.**  For every graph `g` (chain of output terms),
    every `inputs_as_nchw = fin`, `outputs_as_nchw = fout` and every input assignment: if `dims`
    (the dims of `jax.eval_shape`) describe the results of the plain graph, then the interface
    predicted by `predictOutDims` describes the results of the flagged export `wrap fin fout g`
    fed the NCHW versions of the flagged inputs. -/
theorem predicted_interface_describes_wrapped (I : Interp α) (val : String → Nat)
    (fin fout : List Nat) (g : Term) (hg : C12.chainProper g = true) (ρ : Nat → Tensor α)
    (dims : List (List String))
    (hdesc : DescribesAll val dims (eval I ρ g))
    (h4 : flaggedRank4 fout 0 dims) :
    DescribesAll val (predictAllDims fout 0 dims)
      (eval I (C12.nchwEnv fin ρ) (C12.wrap fin fout g)) := by
  rw [C12.wrap_spec I fin fout g hg ρ]
  exact predictAll_describes_mapFlagged val fout dims _ 0 hdesc h4

-- non-vacuity: a rank-4 tensor with extents (2,4,5,3) declared ["B","4","5","3"], flagged
def exT : Tensor Nat := ⟨1, 4, fun k => [2, 4, 5, 3].getD k 1, fun _ => 0⟩
def exVal : String → Nat := fun s => if s = "B" then 2 else if s = "4" then 4 else if s = "5" then 5 else 3

theorem exT_described : Describes exVal ["B", "4", "5", "3"] exT := by
  refine ⟨rfl, ?_⟩
  intro j hj
  simp only [List.length_cons, List.length_nil] at hj
  have : j = 0 ∨ j = 1 ∨ j = 2 ∨ j = 3 := by omega
  rcases this with rfl | rfl | rfl | rfl <;> simp [exT, exVal]

example :
    Describes exVal (predictOutDims ["B", "4", "5", "3"] true false) (transpose C12.nhwcToNchw exT) ∧
      predictOutDims ["B", "4", "5", "3"] true false = ["B", "3", "4", "5"] ∧
      flaggedRank4 [0] 0 [["B", "4", "5", "3"], ["7"]] ∧
      DescribesAll exVal [["B", "4", "5", "3"]] [exT] :=
  ⟨permNCHW_describes_transpose exVal _ exT rfl exT_described, by decide, by simp [flaggedRank4],
   ⟨exT_described, trivial⟩⟩

end J2O.C05
