/-
C10 — property theorems (statements + proofs + non-vacuity examples only).

* `broadcast_batcher_correct`        lane `b` of what `broadcast_batcher_compat` returns = the pointwise
                                     primitive bound to lane `b` of every operand: any arity ≥ 2, any
                                     placement of batch dims, unmapped operands of any rank, scalars, any
                                     rank (tensors are functions from index lists)
* `broadcast_batcher_shape`          the result SHAPE of the batcher: the batch size inserted at the reported
                                     out dim into the numpy broadcast of the per-example shapes — all ranks,
                                     all arities, both code paths, same hypotheses
* `broadcast_batcher_lower_rank_refuted`  without the rank hypothesis the statement is FALSE: a mapped
                                     operand of lower (non-zero) per-example rank gets trailing instead
                                     of leading singleton axes
* `reduction_batch_rule_shape`       the vmap rule of the jnp reductions (batch axis to the front, axes
                                     shifted by one, batch dim 0) yields the per-example result shape with the
                                     batch axis in front — any axes, with or without keepdims;
                                     `inPlace_rule_refuted_with_keepdims`: the in-place shortcut is wrong
* `inline_fresh_sound`               inlining a closed jaxpr under an injective renaming into fresh
                                     variables (JitPlugin._freshen_closed_jaxpr + lower) agrees with the
                                     opaque call on every variable outside the fresh ones
* `inline_no_alias`, `two_inlinings_no_alias`  nothing that was bound before is overwritten; two
                                     inlinings of the same jaxpr do not disturb each other
* `inline_without_renaming_not_ssa`  … whereas without the renaming the second inlining re-defines the
                                     variables of the first (the spliced equations are not SSA)
* `forwarded_only_if_allowlisted`    the decision of `register_original_rule_forwarding`
  (the live allow/block lists are tabulated into `Gen/C10.lean`; obligations in `GenProps/C10.lean`)
-/
import J2O.Lemmas.C10
import J2O.Lemmas.C10Shape
set_option linter.unusedSimpArgs false
set_option linter.unusedVariables false
set_option linter.unreachableTactic false
set_option linter.unusedTactic false
set_option linter.unnecessarySeqFocus false

namespace J2O.C10
open J2O.C01

/-! ## the generic broadcast batcher -/

/-- **Correctness of `broadcast_batcher_compat`.**  `f` is any pointwise primitive (a function of
    the list of operand elements), `args` the operands with their batch dimensions (`none` =
    `NOT_MAPPED`), `B` the common batch size.  If every mapped operand has its batch dimension in
    range and — `hR` — is of full rank or a per-example scalar, then for every lane `b < B` and
    every index of per-example rank, lane `b` of the batched result equals `f` bound (with numpy
    broadcasting) to lane `b` of each operand.  Covers both paths of the code (direct bind when
    all batch dims agree; `bdim_at_front` + trailing-axis expansion otherwise), unmapped operands
    of lower rank and scalars. -/
theorem broadcast_batcher_correct {α : Type} (f : List α → α) (args : List (Tensor α × Option Nat))
    (B b : Nat) (hb : b < B)
    (hwf : ∀ p ∈ args, ∀ k, p.2 = some k → k < p.1.rank ∧ p.1.shape.getD k 1 = B)
    (hR : ∀ p ∈ args, ∀ k, p.2 = some k → p.1.rank = ndimOf args ∨ p.1.rank = 1)
    (out : Tensor α) (od : Nat) (hrun : broadcastBatcher f args = some (out, od))
    (idx : List Nat) (hidx : idx.length + 1 = ndimOf args) :
    (lane out (some od) b).get idx =
      (bindPointwise f (args.map fun p => lane p.1 p.2 b)).get idx :=
  broadcast_batcher_correct_aux f args B b hb hwf hR out od hrun idx hidx

/-- **Result shape of `broadcast_batcher_compat`.**  Under the hypotheses of
    `broadcast_batcher_correct` (batch dims in range with common size `B`; every mapped operand of full
    rank or a per-example scalar), the tensor the batcher returns has the shape obtained by inserting
    `B` at the reported out dim into the numpy broadcast of the per-example operand shapes (the
    shapes of the lanes) — for every arity, every rank, every placement of batch dims, scalars and
    lower-rank unmapped operands, on both code paths.  Together with `broadcast_batcher_correct`
    (values at every index) this determines the result completely. -/
theorem broadcast_batcher_shape {α : Type} (f : List α → α) (args : List (Tensor α × Option Nat))
    (B b : Nat)
    (hwf : ∀ p ∈ args, ∀ k, p.2 = some k → k < p.1.rank ∧ p.1.shape.getD k 1 = B)
    (hR : ∀ p ∈ args, ∀ k, p.2 = some k → p.1.rank = ndimOf args ∨ p.1.rank = 1)
    (out : Tensor α) (od : Nat) (hrun : broadcastBatcher f args = some (out, od)) :
    out.shape = insertAt od B (bshape (args.map fun p => (lane p.1 p.2 b).shape)) :=
  broadcast_batcher_shape_aux f args B b hwf hR out od hrun

section Examples
/-- a tensor whose element at `idx` encodes `idx` (base 10) plus an offset -/
def enc (shape : List Nat) (off : Nat) : Tensor Nat := ⟨shape, fun idx => idx.foldl (fun a i => 10 * a + i) off⟩
def sub2 : List Nat → Nat
  | [a, b] => 1000 * a + b
  | _ => 0

-- non-vacuity: x:(2,4,3) mapped at axis 0, y:(4,3) unmapped — the broadcasting path
example : ∃ out od, broadcastBatcher sub2 [(enc [2, 4, 3] 100, some 0), (enc [4, 3] 7, none)] = some (out, od) ∧
    (lane out (some od) 1).get [2, 1] = sub2 [(enc [2, 4, 3] 100).get [1, 2, 1], (enc [4, 3] 7).get [2, 1]] :=
  ⟨_, _, rfl, by decide⟩
-- batch dims that agree (axis 1 on both): the direct path, result batched at axis 1
example : (broadcastBatcher sub2 [(enc [4, 2, 3] 0, some 1), (enc [4, 2, 3] 5, some 1)]).map (·.2) = some 1 := by
  decide

-- non-vacuity of `broadcast_batcher_shape`: x:(2,4,1) mapped at 0, y:(3,) unmapped, z scalar →
-- (2,4,3) = 2 inserted at 0 into broadcast((4,1),(3,),()); and the direct path with out dim 1
example : ∃ out od, broadcastBatcher sub2 [(enc [2, 4, 1] 0, some 0), (enc [3] 7, none), (enc [] 1, none)] = some (out, od) ∧
    out.shape = [2, 4, 3] ∧
    insertAt od 2 (bshape ([(enc [2, 4, 1] 0, some 0), (enc [3] 7, none), (enc [] 1, none)].map
      fun p => (lane p.1 p.2 0).shape)) = [2, 4, 3] :=
  ⟨_, _, rfl, by decide, by decide⟩
example : ∃ out od, broadcastBatcher sub2 [(enc [4, 2, 3] 0, some 1), (enc [4, 2, 3] 5, some 1)] = some (out, od) ∧
    od = 1 ∧ out.shape = insertAt od 2 (bshape [[4, 3], [4, 3]]) :=
  ⟨_, _, rfl, by decide, by decide⟩

/-- The rank hypothesis `hR` cannot be dropped: `x` of per-example shape `(3,)` (mapped, batch
    size 2) combined with an unmapped `y:(3,3)`.  JAX's lane 1 at index `[0,2]` is
    `f(x[1,2], y[0,2])`; the batcher appends a *trailing* axis to `x` and so reads `x[1,0]`. -/
theorem broadcast_batcher_lower_rank_refuted :
    ∃ out od, broadcastBatcher sub2 [(enc [2, 3] 0, some 0), (enc [3, 3] 0, none)] = some (out, od) ∧
      (lane out (some od) 1).get [0, 2] ≠
        (bindPointwise sub2 ([(enc [2, 3] 0, some 0), (enc [3, 3] 0, none)].map fun p => lane p.1 p.2 1)).get [0, 2] :=
  ⟨_, _, rfl, by decide⟩
end Examples

/-! ## the reduction batch rule -/

theorem reduceShapeFrom_shift (kd : Bool) (axes : List Nat) (i : Nat) (s : List Nat) :
    reduceShapeFrom kd (axes.map (· + 1)) (i + 1) s = reduceShapeFrom kd axes i s := by
  induction s generalizing i with
  | nil => rfl
  | cons d ds ih =>
    have hm : (i + 1 ∈ axes.map (· + 1)) ↔ i ∈ axes := by
      simp [List.mem_map]
    simp only [reduceShapeFrom, hm, ih]

/-- **Shape correctness of the reduction batch rule.**  Moving the batch axis to the front and
    reducing over the per-example axes shifted by one gives, for every per-example shape `s`,
    every set of axes, every batch size and with or without `keepdims`, the per-example result
    shape with the batch axis in front — i.e. the reported batch dim `0` is right in all cases. -/
theorem reduction_batch_rule_shape (kd : Bool) (B : Nat) (s : List Nat) (axes : List Nat) :
    reduceShape kd (axes.map (· + 1)) (B :: s) = B :: reduceShape kd axes s := by
  have h0 : ¬ (0 ∈ axes.map (· + 1)) := by simp [List.mem_map]
  simp only [reduceShape, reduceShapeFrom, h0, if_false]
  rw [reduceShapeFrom_shift]

/-- the rule always reports batch dim 0 and shifts every normalised axis by one -/
theorem reduction_batch_rule_dims (shape : List Nat) (bdim : Nat) (axes : Option (List Int)) :
    (reductionBatchRule shape bdim axes).2.2 = 0 ∧
    ∀ a ∈ (reductionBatchRule shape bdim axes).2.1, 1 ≤ a := by
  refine ⟨rfl, ?_⟩
  intro a ha
  simp only [reductionBatchRule, List.mem_map] at ha
  obtain ⟨b, _, rfl⟩ := ha
  omega

example : reductionBatchRule [4, 2, 3] 1 (some [0]) = ([2, 4, 3], [1], 0) := by decide
example : reduceShape true [1] [2, 4, 3] = [2, 1, 3] ∧ reduceShape false [1, 2] [2, 4, 3] = [2] := by decide

/-- The "reduce in place and report `bdim − #reduced axes in front`" rule is WRONG with
    `keepdims`: operand `(4,2,3)` batched at axis 1, per-example reduction over axis 0 with
    keepdims: the result has shape `(1,2,3)` with the batch axis still at 1, the formula says 0. -/
theorem inPlace_rule_refuted_with_keepdims :
    reduceShape true [0] [4, 2, 3] = [1, 2, 3] ∧ inPlaceOutDim 1 [0] = 0 := by decide

/-! ## jaxpr inlining with fresh variables -/

/-- **Inlining under a fresh injective renaming is sound.**  `ρ` renames the variables of the
    closed jaxpr `j` injectively into variables that are unbound in the outer environment.
    Binding the renamed const/in-vars, evaluating the renamed equations in the *shared*
    environment and binding the outer outvars (what `JitPlugin.lower` does) succeeds whenever the
    opaque application of `j` does, and yields the same environment on every variable outside
    the fresh ones. -/
theorem inline_fresh_sound {P W : Type} (sem : P → List W → List W) (env : Env W) (ρ : Nat → Nat)
    (j : Jaxpr P W) (consts : List W) (args : List (Atom W)) (outs : List (Option Nat))
    (hinj : InjOn ρ (jaxprVars j)) (hfresh : ∀ x ∈ jaxprVars j, env (ρ x) = none)
    (env' : Env W) (hop : opaqueEval sem env j consts args outs = some env') :
    ∃ env'', inlineEval sem env ρ j consts args outs = some env'' ∧
      ∀ y, y ∉ (jaxprVars j).map ρ → env'' y = env' y :=
  inline_fresh_sound_aux sem env ρ j consts args outs hinj hfresh env' hop

/-- No aliasing: every variable that was bound before the inlining keeps its value, unless it
    is one of the outer outvars of the `jit` equation itself. -/
theorem inline_no_alias {P W : Type} (sem : P → List W → List W) (env : Env W) (ρ : Nat → Nat)
    (j : Jaxpr P W) (consts : List W) (args : List (Atom W)) (outs : List (Option Nat))
    (hinj : InjOn ρ (jaxprVars j)) (hfresh : ∀ x ∈ jaxprVars j, env (ρ x) = none)
    (env' : Env W) (hop : opaqueEval sem env j consts args outs = some env')
    (env'' : Env W) (hin : inlineEval sem env ρ j consts args outs = some env'')
    (y : Nat) (a : W) (hy : env y = some a) (hout : some y ∉ outs) : env'' y = some a := by
  obtain ⟨e2, he2, hagree⟩ := inline_fresh_sound sem env ρ j consts args outs hinj hfresh env' hop
  rw [hin] at he2
  simp only [Option.some.injEq] at he2
  subst he2
  have hnot : y ∉ (jaxprVars j).map ρ := by
    intro hm
    obtain ⟨x, hx, rfl⟩ := List.mem_map.mp hm
    rw [hfresh x hx] at hy
    exact absurd hy (by simp)
  rw [hagree y hnot]
  -- the opaque evaluation only touches the outvars
  unfold opaqueEval at hop
  cases hv : evalAtoms env args with
  | none => rw [hv] at hop; exact absurd hop (by simp)
  | some vals =>
    rw [hv] at hop
    dsimp only at hop
    cases hj : evalJaxpr sem j consts vals with
    | none => rw [hj] at hop; exact absurd hop (by simp)
    | some rs =>
      rw [hj] at hop
      dsimp only at hop
      split at hop
      · simp only [Option.some.injEq] at hop
        subst hop
        rw [bindOuts_eq, bindOuts_none_of_not_mem outs rs y hout]
        exact hy
      · exact absurd hop (by simp)

/-- Two inlinings (of the same or of different jaxprs) do not disturb each other: whatever the
    first one bound — its internal fresh variables included — survives the second, whose
    renaming is fresh for the environment the first one left behind. -/
theorem two_inlinings_no_alias {P W : Type} (sem : P → List W → List W) (env0 env1 : Env W)
    (ρ2 : Nat → Nat) (j : Jaxpr P W) (consts : List W) (args2 : List (Atom W)) (outs2 : List (Option Nat))
    (hinj2 : InjOn ρ2 (jaxprVars j)) (hfresh2 : ∀ x ∈ jaxprVars j, env1 (ρ2 x) = none)
    (envO : Env W) (hop : opaqueEval sem env1 j consts args2 outs2 = some envO)
    (env2 : Env W) (hin : inlineEval sem env1 ρ2 j consts args2 outs2 = some env2) :
    ∀ y a, env1 y = some a → some y ∉ outs2 → env2 y = some a :=
  fun y a hy hout => inline_no_alias sem env1 ρ2 j consts args2 outs2 hinj2 hfresh2 envO hop env2 hin y a hy hout

section Examples
def semI : String → List Int → List Int
  | "neg", [a] => [-a]
  | "add", [a, b] => [a + b]
  | _, _ => []
/-- `f(x) = let t = -x in t + x`  (variables 0: x, 1: t, 2: result) -/
def body : Jaxpr String Int :=
  ⟨[], [0], [⟨"neg", [.var 0], [some 1]⟩, ⟨"add", [.var 1, .var 0], [some 2]⟩], [.var 2]⟩
def envX : Env Int := (Env.empty.set 50 7)

-- non-vacuity of `inline_fresh_sound`: renaming `+100`, outer argument variable 50, outvar 51
example : InjOn (· + 100) (jaxprVars body) := by
  intro a _ b _ h; simp only [Nat.add_right_cancel_iff] at h; exact h
example : ∀ x ∈ jaxprVars body, envX (x + 100) = none := by decide
example : (opaqueEval semI envX body [] [.var 50] [some 51]).map (fun e => e 51) = some (some 0) := by
  decide
example : (inlineEval semI envX (· + 100) body [] [.var 50] [some 51]).map (fun e => (e 51, e 50)) =
    some (some 0, some 7) := by decide

/-- Without the renaming the equations spliced in by two inlinings of the same jaxpr define the
    same variables twice — the combined equation list is not in SSA form, which is what the
    converter's `var2val` pre-allocation of outvars relies on. -/
theorem inline_without_renaming_not_ssa :
    ¬ (definedVars (body.eqns.map (renameEqn id) ++ body.eqns.map (renameEqn id))).Nodup := by decide

example : (definedVars (body.eqns.map (renameEqn (· + 100)) ++ body.eqns.map (renameEqn (· + 200)))).Nodup := by
  decide
end Examples

/-! ## rule forwarding policy -/

/-- `register_original_rule_forwarding` forwards only allowlisted pairs. -/
theorem forwarded_only_if_allowlisted (allow : List (String × String)) (pair : String × String)
    (h : forwardAllowed allow pair = true) : pair ∈ allow := by
  simpa [forwardAllowed] using h

example : forwardAllowed [("add", "jax.numpy.add")] ("add", "jax.numpy.add") = true := by decide
example : forwardAllowed [("add", "jax.numpy.add")] ("gather", "jax.numpy.take") = false := by decide

end J2O.C10
