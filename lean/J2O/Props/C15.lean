/-
C15 — property theorems for the on-disk state machine (`J2O.Model.C15`).

All statements hold for EVERY spill rule `spills` (any threshold), every prior disk content
(no main file, any main file, no / empty / arbitrary sidecar) and every model.

* `load_export`            one export (standard or web, not refused): what `onnx.load` returns is
                           exactly the exported model — graph and every tensor, byte for byte
* `load_history`, `load_last`  every history of exports to one path: what is loaded afterwards is
                           exactly the last export that was carried out
* `web_self_contained`     after a web export: no external reference, no sidecar; the load does
                           not depend on any sidecar content
* `stale_never_referenced` after a standard export every external reference lies inside the bytes
                           appended by THAT export; the older sidecar bytes are kept but unreachable
* `modes_agree`            for one request both file modes (from arbitrary, different prior disks)
                           load to the same model, which is the in-memory (`proto`) result
* `layout_step`            the length-level machine the driver runs is the projection of the byte level
* `export_succeeds_partial` / `export_always_succeeds_refuted`
                           a standard export is carried out unless a file with the sidecar's name
                           exists in the current working directory; the unconditional statement is
                           false (replayed on the real code: two standard exports to a relative path
                           raise FileExistsError the second time)
-/
import J2O.Lemmas.C15
set_option linter.unusedSimpArgs false
set_option linter.unusedVariables false

namespace J2O.C15

theorem load_exportStd (spills : Tensor → Bool) (m : Model) (d : Disk) :
    load (exportStd spills m d) = some m := by
  unfold exportStd
  split
  · simp only [load]
    have := place_read spills m.tensors (d.side.getD []) []
    simp only [List.append_nil] at this
    rw [this]
    rfl
  · simp only [load]
    rw [inlineAll_read]
    rfl

theorem load_exportWeb (m : Model) (d : Disk) : load (exportWeb m d) = some m := by
  simp only [exportWeb, load]
  rw [inlineAll_read]
  rfl

/-- **One export.** If the export is carried out, the loaded model is the exported one. -/
theorem load_export (spills : Tensor → Bool) (d : Disk) (op : Op)
    (hok : (step spills d op).2 = true) : load (step spills d op).1 = some op.model := by
  unfold step at hok ⊢
  cases hm : op.mode with
  | web => simp only [hm]; exact load_exportWeb _ _
  | standard =>
    simp only [hm] at hok ⊢
    cases hc : op.clash with
    | true => simp [hc] at hok
    | false => simp only [hc, Bool.false_eq_true, if_false]; exact load_exportStd _ _ _

/-- a refused export leaves the disk untouched -/
theorem step_refused_unchanged (spills : Tensor → Bool) (d : Disk) (op : Op)
    (h : (step spills d op).2 = false) : (step spills d op).1 = d := by
  unfold step at h ⊢
  cases hm : op.mode with
  | web => simp [hm] at h
  | standard =>
    simp only [hm] at h ⊢
    cases hc : op.clash with
    | true => simp [hc]
    | false => simp [hc] at h

/-- is the export carried out? (depends on the request only) -/
def Op.ok (op : Op) : Bool :=
  match op.mode with
  | .web => true
  | .standard => !op.clash

theorem step_ok_eq (spills : Tensor → Bool) (d : Disk) (op : Op) : (step spills d op).2 = op.ok := by
  unfold step Op.ok
  cases op.mode <;> cases op.clash <;> simp

/-- the model a reader of the path gets after the history, given what was loadable before -/
def lastOk : List Op → Option Model → Option Model
  | [], acc => acc
  | op :: rest, acc => lastOk rest (if op.ok then some op.model else acc)

/-- **Every history.** -/
theorem load_history (spills : Tensor → Bool) : ∀ (h : List Op) (d : Disk),
    load (run spills d h) = lastOk h (load d) := by
  intro h
  induction h with
  | nil => intro d; rfl
  | cons op rest ih =>
    intro d
    simp only [run, lastOk]
    rw [ih]
    cases hok : op.ok with
    | true =>
      have := load_export spills d op (by rw [step_ok_eq]; exact hok)
      simp [this]
    | false =>
      have := step_refused_unchanged spills d op (by rw [step_ok_eq]; exact hok)
      simp [this]

theorem lastOk_append (pre : List Op) (op : Op) : ∀ acc,
    lastOk (pre ++ [op]) acc = if op.ok then some op.model else lastOk pre acc := by
  induction pre with
  | nil => intro acc; simp [lastOk]
  | cons p ps ih => intro acc; simp only [List.cons_append, lastOk]; exact ih _

/-- **What you load is exactly the last export**, whatever was exported to the path before
    (standard then web, large then small, any number of times). -/
theorem load_last (spills : Tensor → Bool) (pre : List Op) (op : Op) (d : Disk) (hok : op.ok = true) :
    load (run spills d (pre ++ [op])) = some op.model := by
  rw [load_history, lastOk_append, hok]
  rfl

/-- **Web mode is a single self-contained file.** -/
theorem web_self_contained (m : Model) (d : Disk) :
    (exportWeb m d).side = none ∧
    (∀ (mf : MainFile) (e : Entry) (off len : Nat),
      (exportWeb m d).main = some mf → e ∈ mf.entries → e.stored ≠ .ext off len) ∧
    (∀ anySide, load ⟨(exportWeb m d).main, anySide⟩ = some m) := by
  refine ⟨rfl, ?_, ?_⟩
  · intro mf e off len hmf he
    simp only [exportWeb, Option.some.injEq] at hmf
    subst hmf
    exact inlineAll_no_ext _ e off len he
  · intro anySide
    simp only [exportWeb, load]
    rw [inlineAll_read]
    rfl

/-- **A stale sidecar is never picked up**: after a standard export every external reference
    lies inside the bytes this export appended (beyond everything that was there before), and the
    old bytes are still where they were. -/
theorem stale_never_referenced (spills : Tensor → Bool) (m : Model) (d : Disk) (mf : MainFile)
    (hmf : (exportStd spills m d).main = some mf) (e : Entry) (off len : Nat) (he : e ∈ mf.entries)
    (hst : e.stored = .ext off len) :
    ∃ newSide, (exportStd spills m d).side = some newSide ∧
      (d.side.getD []).length ≤ off ∧ off + len ≤ newSide.length ∧
      ∃ suf, newSide = d.side.getD [] ++ suf := by
  unfold exportStd at hmf ⊢
  split at hmf
  · rename_i hany
    simp only [hany, if_true]
    simp only [Option.some.injEq] at hmf
    subst hmf
    have := place_refs spills m.tensors (d.side.getD []) e off len he hst
    exact ⟨_, rfl, this.1, this.2, place_appends spills m.tensors (d.side.getD [])⟩
  · simp only [Option.some.injEq] at hmf
    subst hmf
    exact absurd hst (inlineAll_no_ext _ e off len he)

/-- **The modes agree.** For one request, the standard and the web file — written over arbitrary,
    different earlier contents — load to the same model, and that model is the request's
    in-memory result (what `return_mode="proto"` hands out). -/
theorem modes_agree (spills : Tensor → Bool) (m : Model) (d₁ d₂ : Disk) :
    load (step spills d₁ ⟨.standard, m, false⟩).1 = some m ∧
    load (step spills d₂ ⟨.web, m, false⟩).1 = some m :=
  ⟨load_export spills d₁ ⟨.standard, m, false⟩ (by simp [step]),
   load_export spills d₂ ⟨.web, m, false⟩ (by simp [step])⟩

/-- the driver's length-level machine is the projection of the byte-level machine (with the
    spill rule of the installed onnx) -/
theorem layout_step (d : Disk) (op : Op) :
    (step spillsReal d op).1.toL = (stepL d.toL op.mode op.model.req op.clash).1 ∧
    (step spillsReal d op).2 = (stepL d.toL op.mode op.model.req op.clash).2 := by
  obtain ⟨dm, ds⟩ := d
  unfold step stepL
  cases hm : op.mode with
  | web =>
    simp only [exportWeb, Disk.toL, Model.req, Option.map]
    refine ⟨?_, ?_⟩
    · rw [inlineAll_toL]
    · trivial
  | standard =>
    cases hc : op.clash with
    | true => simp
    | false =>
      simp only [Bool.false_eq_true, if_false, exportStd, Model.req]
      have hany := any_spills_toL op.model.tensors
      by_cases ha : op.model.tensors.any spillsReal = true
      · have ha' : (op.model.tensors.map fun t => (t.name, t.raw, t.data.length)).any
            (fun (x : String × Bool × Nat) => spillsSize x.2.1 x.2.2) = true := by rw [hany]; exact ha
        simp only [ha, ha', if_true, Disk.toL, Option.map]
        have := place_toL op.model.tensors (ds.getD [])
        have hl : (ds.getD []).length = (Option.map List.length ds).getD 0 := by
          cases ds <;> simp
        rw [hl] at this
        refine ⟨?_, ?_⟩
        · simp only [Option.map] at this ⊢
          rw [this.1, this.2]
        · trivial
      · have ha1 : op.model.tensors.any spillsReal = false := by simpa using ha
        have ha' : (op.model.tensors.map fun t => (t.name, t.raw, t.data.length)).any
            (fun (x : String × Bool × Nat) => spillsSize x.2.1 x.2.2) = false := by rw [hany]; exact ha1
        simp only [ha1, ha', Bool.false_eq_true, if_false, Disk.toL, Option.map]
        refine ⟨?_, ?_⟩
        · rw [inlineAll_toL]
          cases ds with
          | none => simp
          | some s =>
            cases s with
            | nil => simp
            | cons x xs => simp
        · trivial

/-- **Exports are carried out (partial)**: unless a file with the sidecar's name exists in the
    current working directory. -/
theorem export_succeeds_partial (spills : Tensor → Bool) (d : Disk) (op : Op) (h : op.clash = false) :
    (step spills d op).2 = true := by
  rw [step_ok_eq]
  unfold Op.ok
  cases op.mode <;> simp [h]

def big : Model := ⟨1, [⟨"c", true, List.replicate 8 7⟩]⟩
def smallSpill (t : Tensor) : Bool := decide (4 ≤ t.data.length)

/-- **The unconditional statement is refuted**: the second standard export to a path in the
    current working directory (the first one left `<name>.onnx.data` there) is refused. -/
theorem export_always_succeeds_refuted :
    ¬ (∀ (spills : Tensor → Bool) (d : Disk) (op : Op), (step spills d op).2 = true) := by
  intro h
  have := h smallSpill (step smallSpill ⟨none, none⟩ ⟨.standard, big, false⟩).1 ⟨.standard, big, true⟩
  simp [step] at this

-- non-vacuity: a history large → large → small → web on one path (threshold 4 bytes):
-- the sidecar grows by appending, the small export leaves it stale, the web export removes it
example : (run smallSpill ⟨none, none⟩ [⟨.standard, big, false⟩, ⟨.standard, big, false⟩]).toL
    = ⟨some [("c", .ext 8 8)], some 16⟩ := by decide
example : (run smallSpill ⟨none, none⟩
    [⟨.standard, big, false⟩, ⟨.standard, ⟨2, [⟨"c", true, [1, 2]⟩]⟩, false⟩]).toL
    = ⟨some [("c", .inline 2)], some 8⟩ := by decide
example : (run smallSpill ⟨none, some [9, 9, 9]⟩ [⟨.standard, big, false⟩, ⟨.web, big, false⟩]).toL
    = ⟨some [("c", .inline 8)], none⟩ := by decide
example : load (run smallSpill ⟨none, some [9, 9, 9]⟩ [⟨.standard, big, false⟩]) = some big := by decide
example : spillsSize true 1048543 = true ∧ spillsSize true 1048542 = false ∧
    spillsSize false 5000000 = false := by decide

end J2O.C15
