/-
C15 — property theorems for the on-disk state machine (`J2O.Model.C15`), the code after fix
f6799b2 (a stale sidecar is removed before a standard export).

All statements hold for EVERY spill rule `spills` (any threshold), every prior disk content
(no main file, any main file, no / empty / arbitrary sidecar) and every model.

* `load_export`            one export (standard or web) that is carried out: what `onnx.load`
                           returns is exactly the exported model — graph and every tensor, byte for byte
* `load_last`              every history of exports to one path: if the last export is carried out,
                           what is loaded afterwards is exactly that export (earlier exports, refused
                           exports, garbage on disk do not matter)
* `load_history`           … and for histories without refused exports, after every prefix
* `export_history_independent`  the files a standard/web export leaves depend on the request only —
                           not on anything that was on disk before (no append, no growth)
* `sidecar_is_exactly_the_spilled_tensors`, `stale_never_referenced`
                           the sidecar after a standard export consists of exactly the payloads this
                           export spilled, in order; every external reference lies inside it
* `web_self_contained`     after a web export: no external reference, no sidecar; the load does
                           not depend on any sidecar content
* `modes_agree`            for one request both file modes (from arbitrary, different prior disks)
                           load to the same model, which is the in-memory (`proto`) result
* `layout_step`            the length-level machine the driver runs is the projection of the byte level
* `export_succeeds_partial` / `export_always_succeeds_refuted` / `refused_export_drops_sidecar`
                           RESIDUAL after the fix: a standard export is still refused
                           (FileExistsError from onnx) when a FOREIGN file with the sidecar's name
                           exists in the current working directory; the destination's sidecar has
                           already been removed by then (replayed on the real code)
* regression (old step `exportStdOld`): `old_export_appends`, `old_sidecar_grows_new_does_not`
-/
import J2O.Lemmas.C15
set_option linter.unusedSimpArgs false
set_option linter.unusedVariables false

namespace J2O.C15

theorem load_exportStd (spills : Tensor → Bool) (m : Model) (d : Disk) :
    load (exportStd spills m d) = some m := by
  unfold exportStd
  split
  · simp only [load]
    have := place_read spills m.tensors [] []
    simp only [List.append_nil] at this
    rw [this]
    rfl
  · simp only [load]
    rw [inlineAll_read]
    rfl

theorem load_exportWeb (m : Model) (d : Disk) : load (exportWeb m d) = some m := by
  simp only [exportWeb, load]
  rw [inlineAll_read]
  rfl

/-- **One export.** If the export is carried out, the loaded model is the exported one. -/
theorem load_export (spills : Tensor → Bool) (d : Disk) (op : Op)
    (hok : (step spills d op).2 = true) : load (step spills d op).1 = some op.model := by
  unfold step at hok ⊢
  cases hm : op.mode with
  | web => simp only [hm]; exact load_exportWeb _ _
  | standard =>
    simp only [hm] at hok ⊢
    cases hc : op.clash with
    | true => simp [hc] at hok
    | false => simp only [hc, Bool.false_eq_true, if_false]; exact load_exportStd _ _ _

/-- is the export carried out? (depends on the request only) -/
def Op.ok (op : Op) : Bool :=
  match op.mode with
  | .web => true
  | .standard => !op.clash

theorem step_ok_eq (spills : Tensor → Bool) (d : Disk) (op : Op) : (step spills d op).2 = op.ok := by
  unfold step Op.ok
  cases op.mode <;> cases op.clash <;> simp

theorem run_append (spills : Tensor → Bool) : ∀ (pre : List Op) (op : Op) (d : Disk),
    run spills d (pre ++ [op]) = (step spills (run spills d pre) op).1 := by
  intro pre
  induction pre with
  | nil => intro op d; rfl
  | cons p ps ih => intro op d; simp only [List.cons_append, run]; exact ih op _

/-- **What you load is exactly the last export**, whatever was exported to the path before
    (standard then web, large then small, any number of times, refused exports in between). -/
theorem load_last (spills : Tensor → Bool) (pre : List Op) (op : Op) (d : Disk) (hok : op.ok = true) :
    load (run spills d (pre ++ [op])) = some op.model := by
  rw [run_append]
  exact load_export spills _ op (by rw [step_ok_eq]; exact hok)

/-- the model a reader gets after a history in which every export is carried out -/
def lastModel : List Op → Option Model → Option Model
  | [], acc => acc
  | op :: rest, _ => lastModel rest (some op.model)

/-- **Every history without refused exports.** -/
theorem load_history (spills : Tensor → Bool) : ∀ (h : List Op) (d : Disk),
    (∀ op ∈ h, op.ok = true) → load (run spills d h) = lastModel h (load d) := by
  intro h
  induction h with
  | nil => intro d _; rfl
  | cons op rest ih =>
    intro d hall
    simp only [run, lastModel]
    rw [ih _ (fun o ho => hall o (by simp [ho]))]
    rw [load_export spills d op (by rw [step_ok_eq]; exact hall op (by simp))]

/-- **History independence**: what an export that is carried out leaves on disk does not depend
    on what was there before — no append, no growth, no stale bytes. -/
theorem export_history_independent (spills : Tensor → Bool) (op : Op) (d d' : Disk)
    (hok : op.ok = true) : (step spills d op).1 = (step spills d' op).1 := by
  unfold step Op.ok at *
  cases hm : op.mode with
  | web => simp [exportWeb]
  | standard =>
    simp only [hm] at hok
    have hc : op.clash = false := by cases h : op.clash <;> simp_all
    simp [hc, exportStd]

/-- **The sidecar is exactly this export's spilled tensors**, in order. -/
theorem sidecar_is_exactly_the_spilled_tensors (spills : Tensor → Bool) (m : Model) (d : Disk)
    (hany : m.tensors.any spills = true) :
    (exportStd spills m d).side = some ((m.tensors.filter spills).flatMap (fun t => t.data)) := by
  simp only [exportStd, hany, if_true]
  rw [place_bytes]
  simp

/-- every external reference lies inside the sidecar written by this export -/
theorem stale_never_referenced (spills : Tensor → Bool) (m : Model) (d : Disk) (mf : MainFile)
    (hmf : (exportStd spills m d).main = some mf) (e : Entry) (off len : Nat) (he : e ∈ mf.entries)
    (hst : e.stored = .ext off len) :
    ∃ newSide, (exportStd spills m d).side = some newSide ∧ off + len ≤ newSide.length := by
  unfold exportStd at hmf ⊢
  split at hmf
  · rename_i hany
    simp only [hany, if_true]
    simp only [Option.some.injEq] at hmf
    subst hmf
    have := place_refs spills m.tensors [] e off len he hst
    exact ⟨_, rfl, this.2⟩
  · simp only [Option.some.injEq] at hmf
    subst hmf
    exact absurd hst (inlineAll_no_ext _ e off len he)

/-- **Web mode is a single self-contained file.** -/
theorem web_self_contained (m : Model) (d : Disk) :
    (exportWeb m d).side = none ∧
    (∀ (mf : MainFile) (e : Entry) (off len : Nat),
      (exportWeb m d).main = some mf → e ∈ mf.entries → e.stored ≠ .ext off len) ∧
    (∀ anySide, load ⟨(exportWeb m d).main, anySide⟩ = some m) := by
  refine ⟨rfl, ?_, ?_⟩
  · intro mf e off len hmf he
    simp only [exportWeb, Option.some.injEq] at hmf
    subst hmf
    exact inlineAll_no_ext _ e off len he
  · intro anySide
    simp only [exportWeb, load]
    rw [inlineAll_read]
    rfl

/-- **The modes agree.** For one request, the standard and the web file — written over arbitrary,
    different earlier contents — load to the same model, and that model is the request's
    in-memory result (what `return_mode="proto"` hands out). -/
theorem modes_agree (spills : Tensor → Bool) (m : Model) (d₁ d₂ : Disk) :
    load (step spills d₁ ⟨.standard, m, false⟩).1 = some m ∧
    load (step spills d₂ ⟨.web, m, false⟩).1 = some m :=
  ⟨load_export spills d₁ ⟨.standard, m, false⟩ (by simp [step]),
   load_export spills d₂ ⟨.web, m, false⟩ (by simp [step])⟩

/-- the driver's length-level machine is the projection of the byte-level machine (with the
    spill rule of the installed onnx) -/
theorem layout_step (d : Disk) (op : Op) :
    (step spillsReal d op).1.toL = (stepL d.toL op.mode op.model.req op.clash).1 ∧
    (step spillsReal d op).2 = (stepL d.toL op.mode op.model.req op.clash).2 := by
  obtain ⟨dm, ds⟩ := d
  unfold step stepL
  cases hm : op.mode with
  | web =>
    simp only [exportWeb, Disk.toL, Model.req, Option.map]
    refine ⟨?_, ?_⟩
    · rw [inlineAll_toL]
    · trivial
  | standard =>
    cases hc : op.clash with
    | true => simp [Disk.toL]
    | false =>
      simp only [Bool.false_eq_true, if_false, exportStd, Model.req]
      have hany := any_spills_toL op.model.tensors
      by_cases ha : op.model.tensors.any spillsReal = true
      · have ha' : (op.model.tensors.map fun t => (t.name, t.raw, t.data.length)).any
            (fun (x : String × Bool × Nat) => spillsSize x.2.1 x.2.2) = true := by rw [hany]; exact ha
        simp only [ha, ha', if_true, Disk.toL, Option.map]
        have := place_toL op.model.tensors []
        simp only [List.length_nil] at this
        refine ⟨?_, ?_⟩
        · rw [this.1, this.2]
        · trivial
      · have ha1 : op.model.tensors.any spillsReal = false := by simpa using ha
        have ha' : (op.model.tensors.map fun t => (t.name, t.raw, t.data.length)).any
            (fun (x : String × Bool × Nat) => spillsSize x.2.1 x.2.2) = false := by rw [hany]; exact ha1
        simp only [ha1, ha', Bool.false_eq_true, if_false, Disk.toL, Option.map]
        refine ⟨?_, ?_⟩
        · rw [inlineAll_toL]
        · trivial

/-! ### residual: a foreign file with the sidecar's name in the current working directory -/

/-- **Exports are carried out (partial)**: unless a foreign file with the sidecar's name exists
    in the current working directory.  Still needed after the fix: the check is inside
    `onnx.save_model` and looks at the cwd, not at the destination directory. -/
theorem export_succeeds_partial (spills : Tensor → Bool) (d : Disk) (op : Op) (h : op.clash = false) :
    (step spills d op).2 = true := by
  rw [step_ok_eq]
  unfold Op.ok
  cases op.mode <;> simp [h]

def big : Model := ⟨1, [⟨"c", true, List.replicate 8 7⟩]⟩
def small : Model := ⟨2, [⟨"c", true, [1, 2]⟩]⟩
def smallSpill (t : Tensor) : Bool := decide (4 ≤ t.data.length)

/-- **The unconditional statement is refuted** (replayed on the real code: exporting even a small
    model to `/out/model.onnx` from a directory that contains a file `model.onnx.data` raises
    FileExistsError). -/
theorem export_always_succeeds_refuted :
    ¬ (∀ (spills : Tensor → Bool) (d : Disk) (op : Op), (step spills d op).2 = true) := by
  intro h
  have := h smallSpill ⟨none, none⟩ ⟨.standard, small, true⟩
  simp [step] at this

/-- … and the refused export has already removed the destination's sidecar: a previous export
    with external tensors is no longer loadable (main file unchanged). -/
theorem refused_export_drops_sidecar (spills : Tensor → Bool) (d : Disk) (op : Op)
    (h : (step spills d op).2 = false) : (step spills d op).1 = ⟨d.main, none⟩ := by
  unfold step at h ⊢
  cases hm : op.mode with
  | web => simp [hm] at h
  | standard =>
    simp only [hm] at h ⊢
    cases hc : op.clash with
    | true => simp
    | false => simp [hc] at h

example : load (run smallSpill ⟨none, none⟩ [⟨.standard, big, false⟩, ⟨.standard, small, true⟩]) = none := by
  decide

/-! ### regression: the step function before fix f6799b2 -/

/-- the old standard export appended to an existing sidecar … -/
theorem old_export_appends :
    (exportStdOld smallSpill big (exportStdOld smallSpill big ⟨none, none⟩)).toL
      = ⟨some [("c", .ext 8 8)], some 16⟩ := by decide

/-- … so the sidecar grew with every re-export; the repaired export starts afresh -/
theorem old_sidecar_grows_new_does_not :
    ((exportStdOld smallSpill big (exportStdOld smallSpill big (exportStdOld smallSpill big ⟨none, none⟩))).side.map
        List.length = some 24) ∧
    ((run smallSpill ⟨none, none⟩ [⟨.standard, big, false⟩, ⟨.standard, big, false⟩, ⟨.standard, big, false⟩]).toL
        = ⟨some [("c", .ext 0 8)], some 8⟩) := by decide

-- non-vacuity: large → small (no sidecar left), garbage sidecar → standard → web, threshold pinned
example : (run smallSpill ⟨none, none⟩ [⟨.standard, big, false⟩, ⟨.standard, small, false⟩]).toL
    = ⟨some [("c", .inline 2)], none⟩ := by decide
example : (run smallSpill ⟨none, some [9, 9, 9]⟩ [⟨.standard, big, false⟩]).toL
    = ⟨some [("c", .ext 0 8)], some 8⟩ := by decide
example : (run smallSpill ⟨none, some [9, 9, 9]⟩ [⟨.standard, big, false⟩, ⟨.web, big, false⟩]).toL
    = ⟨some [("c", .inline 8)], none⟩ := by decide
example : load (run smallSpill ⟨none, some [9, 9, 9]⟩ [⟨.standard, big, false⟩]) = some big := by decide
example : spillsSize true 1048543 = true ∧ spillsSize true 1048542 = false ∧
    spillsSize false 5000000 = false := by decide

end J2O.C15
