/-
C06 — obligation about the table regenerated from /repo on every run (`J2O.Gen.C06`): the live
plugins raised at export exactly for the variants the model's `accepts` rejects.  Together with
`reject_iff_unsupported` (Props): a variant is exported iff its lowering scheme is proved.
-/
import J2O.Model.C06
import J2O.Gen.C06

namespace J2O.C06
open J2O.Gen.C06

def constructOf : Nat → Construct
  | 0 => .whileLoop
  | 1 => .foriLoop
  | 2 => .scan
  | _ => .cond

def rowVariant (r : Nat × Bool × Nat × Bool × Nat × Bool × Bool × Nat × Bool) : Variant :=
  { construct := constructOf r.1, reverse := r.2.1, nXs := r.2.2.1, staticLength := r.2.2.2.1,
    nState := r.2.2.2.2.1, dynamicBounds := r.2.2.2.2.2.1, capturesTracer := r.2.2.2.2.2.2.1,
    nBranches := r.2.2.2.2.2.2.2.1 }

/-- every variant program run on the real code: `to_onnx` raised ⇔ the model rejects the variant -/
theorem rejectTable_matches :
    ∀ r ∈ rejectTable, r.2.2.2.2.2.2.2.2 = !accepts (rowVariant r) := by
  decide +kernel

/-- the table exercises both outcomes for every construct that has a rejected variant -/
theorem rejectTable_covers :
    (rejectTable.any fun r => r.1 = 2 && r.2.2.2.2.2.2.2.2) = true ∧
    (rejectTable.any fun r => r.1 = 2 && !r.2.2.2.2.2.2.2.2) = true ∧
    (rejectTable.any fun r => r.1 = 3 && r.2.2.2.2.2.2.2.2) = true ∧
    (rejectTable.any fun r => r.1 = 1 && r.2.2.2.2.2.2.2.2) = true ∧
    (rejectTable.any fun r => r.1 = 0 && r.2.2.2.2.2.2.2.2) = true := by
  decide +kernel

end J2O.C06
