/-
C14 — obligations about the iteration sites regenerated from /repo on every run (`J2O.Gen.C14`).

`reviewed` is the hand-written list of every site whose order-(in)dependence was reviewed,
with its justification class.  A site is identified by (file, function, kind, iterable, loop
target, hash of the normalised loop body): a NEW site, or a reviewed site whose body was EDITED,
is not in the list and breaks `sites_reviewed`; the harness then searches for differing exports.

Justification classes and the theorem of `J2O.Props.C14` that carries each:
  commutingRemove  `removeAll_perm_invariant`   nodes picked by a predicate on the *unchanged* graph,
                                                then `graph.remove` — a filter
  commutingSubst   `substUses_perm_invariant`   replace_all_uses_with for distinct values; targets are
                                                outputs of nodes that are not removed
  commutingLocal   `ownSlot_perm_invariant`     each member rewrites only its own inputs
  collect          `collect_perm_invariant` + `reduction_perm_invariant`  accumulate into a set, verdict = all(…)
  reduction        `permLoop_perm_invariant` / `reduction_perm_invariant`
  dictFill         `assocInsert_perm_invariant` dict with distinct keys, only looked up
  sorted           `sorted_perm_invariant`
  keyOnly          `hash_not_in_output`         hash()/id() used as dict/set key or compared for equality only
  registryOrder    `registry_order_irrelevant`  registry enumerated to enter per-plugin contexts; insertion
                                                order = sorted package walk; validated by pre-import shuffles
  (F-C14-1, the shape refresh in set order, was fixed in /repo by 4ccbe6a: the refresh now runs in graph order,
   `refresh_graph_order_invariant`; `refresh_perm_invariant_refuted` documents the old loop)
  (F-C14-2, function inputs appended in `set[str]` order, was fixed in /repo by 8f5c416: the loop now iterates the
   insertion-ordered literal map and only tests membership in the set — `inRefOrder_perm_invariant`; a dict that is not
   identity-keyed is no site; `append_perm_invariant_refuted` documents the old loop)
-/
import J2O.Gen.C14
import J2O.Gen.C14State

namespace J2O.C14
open J2O.Gen.C14

inductive Cls where
  | commutingRemove | commutingSubst | commutingLocal | collect | reduction | dictFill | sorted
  | keyOnly | registryOrder
  deriving DecidableEq, Repr

def reviewed : List (Site × Cls) := [
  -- conversion_api.py
  (("conversion_api.py", "_activate_plugin_worlds", "for-registry", "PLUGIN_REGISTRY.values()", "plugin_instance", "25149e93449f"), .registryOrder),
  -- ir_optimizations.py
  -- Dropout pass: Not nodes without remaining uses are picked (uses are read before any removal), then removed
  (("ir_optimizations.py", "inline_dropout_training_mode_constants_ir", "for-set", "del_not_nodes", "not_node", "2e2012337c7e"), .commutingRemove),
  -- Add forests: input transposes without consumers in the snapshot `live_nodes` are picked, then removed
  (("ir_optimizations.py", "remove_redundant_transpose_add_forests_ir", "for-set", "input_transposes", "in_transpose", "ad4dd5bc0afe"), .commutingRemove),
  (("ir_optimizations.py", "remove_redundant_transpose_add_forests_ir", "for-set", "output_transposes", "out_transpose", "60d838a5dd6f"), .commutingSubst),
  (("ir_optimizations.py", "remove_redundant_transpose_add_forests_ir", "materialize-set-list", "list(output_transposes)", "", "20888ee41a6f"), .commutingRemove),
  -- transpose pairs, pass -0.5 / pass 0: `any(_value_is_observed(…) for node in elem_nodes)`
  (("ir_optimizations.py", "remove_redundant_transpose_pairs_ir", "comp-set", "elem_nodes", "node", "10b53583ce07"), .reduction),
  -- pass 0: each elementwise node replaces its own inputs `t1_out -> t1_in` (the refresh that follows is in graph order)
  (("ir_optimizations.py", "remove_redundant_transpose_pairs_ir", "for-set", "elem_nodes", "node", "0712616364f8"), .commutingLocal),
  -- pass -0.5 (since fix 4ccbe6a of F-C14-1): the set loop only replaces each node's own inputs; the refresh then
  -- runs `for node in nodes: if node in elem_nodes` (a list: no site; `refresh_graph_order_invariant`)
  (("ir_optimizations.py", "remove_redundant_transpose_pairs_ir", "for-set", "elem_nodes", "node", "68b4499ac49e"), .commutingLocal),
  -- pass 0: consumers of every elementwise node stay inside the chain (flag loop with break)
  (("ir_optimizations.py", "remove_redundant_transpose_pairs_ir", "for-set", "elem_nodes", "node", "9a1cf34e66f9"), .reduction),
  -- pass -0.5: collect `output_transposes`, verdict `ok` = all consumers admissible
  (("ir_optimizations.py", "remove_redundant_transpose_pairs_ir", "for-set", "elem_nodes", "node", "e48abd3401c5"), .collect),
  (("ir_optimizations.py", "remove_redundant_transpose_pairs_ir", "for-set", "output_transposes", "t_out_node", "b9e2ca55287d"), .commutingSubst),
  -- pass -0.5: `trans_in_map[t_out] = t_src`
  (("ir_optimizations.py", "remove_redundant_transpose_pairs_ir", "for-set", "transpose_nodes", "t_node", "77249819d693"), .dictFill),
  -- pass -0.5: all input transposes carry the same permutation
  (("ir_optimizations.py", "remove_redundant_transpose_pairs_ir", "for-set", "transpose_nodes", "t_node", "9f688aa2dcae"), .reduction),
  -- pass -0.5: input transposes without consumers in the snapshot `live_nodes` are removed
  (("ir_optimizations.py", "remove_redundant_transpose_pairs_ir", "for-set", "transpose_nodes", "t_node", "e8e67105a07d"), .commutingRemove),
  (("ir_optimizations.py", "remove_redundant_transpose_pairs_ir", "materialize-set-list", "list(output_transposes)", "", "20888ee41a6f"), .commutingRemove),
  (("ir_optimizations.py", "remove_redundant_transpose_pairs_ir", "materialize-set-list", "list(to_remove)", "", "24efa780bc34"), .commutingRemove),
  -- plugin_system.py
  (("plugin_system.py", "FunctionPlugin._lower_and_call", "id-call", "id(callee)", "", "5233142390de"), .keyOnly),
  (("plugin_system.py", "FunctionPlugin._lower_and_call._capture_const", "hash-call", "hash(arr.tobytes())", "", "d04277e11de7"), .keyOnly),
  (("plugin_system.py", "FunctionPlugin._lower_and_call._resolve_tracer_var", "id-call", "id(tracer)", "", "f09fcf475814"), .keyOnly),
  (("plugin_system.py", "FunctionPlugin._make_patch_fn.patch.wrapped", "id-call", "id(instance)", "", "9cc75904a8c4"), .keyOnly),
  (("plugin_system.py", "_DynamicParamWrapper.__hash__", "hash-call", "hash(id(self.value))", "", "ab32ba9b7343"), .keyOnly),
  (("plugin_system.py", "_DynamicParamWrapper.__hash__", "id-call", "id(self.value)", "", "ab32ba9b7343"), .keyOnly),
  (("plugin_system.py", "_activate_full_plugin_worlds_for_body", "for-registry", "PLUGIN_REGISTRY.values()", "plugin", "0850c7643191"), .registryOrder),
  (("plugin_system.py", "_iter_patch_specs", "for-registry", "PLUGIN_REGISTRY.values()", "plugin", "0ba9f9ce4121"), .registryOrder)
]

def isReviewed (s : Site) : Bool := reviewed.any (fun r => r.1 == s)

/-- Justification classes the scanner may establish BY ITSELF with its dataflow check (round 2), and the theorem
    that carries each:
      sorted     `sorted_perm_invariant`      the enumeration goes through `sorted(..)` first
      toset      `collect_perm_invariant`     the enumeration only feeds another set
      reduction  `reduction_perm_invariant`   the enumeration only feeds any/all/len or a constant flag
      keyonly    `hash_not_in_output`         the id()/hash() value is only a key / membership operand
    Such a site needs no reviewed row: its loop body may be edited freely as long as the check still passes. -/
def autoClasses : List String := ["sorted", "toset", "reduction", "keyonly"]

def isAuto (s : Site) : Bool := auto.any (fun a => a.1 == s && autoClasses.contains a.2)

/-- **Coverage, site side.** Every iteration site / hash call found in the live sources is either
    auto-justified by the scanner's dataflow check or a reviewed one (same loop body) carrying a theorem
    instance.  A NEW site whose order can reach the output (e.g. `for d in <set of str>: d2.setdefault(d, …)`)
    is neither, and breaks this obligation with the site named by the harness. -/
theorem sites_reviewed : ∀ s ∈ sites, (isAuto s || isReviewed s) = true := by decide +kernel

/-- The scanner claims only justification classes that have a theorem. -/
theorem auto_classes_known : ∀ a ∈ auto, a.2 ∈ autoClasses := by decide +kernel

/-- **Coverage, review side.** An auto-justification never overrides a review that found the site
    order-dependent: no auto-justified site is listed in a class outside the order-independent ones
    (today every class is; the statement guards future refuted rows). -/
theorem auto_consistent_with_review :
    ∀ a ∈ auto, ∀ r ∈ reviewed, r.1 = a.1 →
      r.2 ∈ [Cls.collect, .reduction, .sorted, .keyOnly, .commutingRemove, .commutingSubst, .commutingLocal,
             .dictFill, .registryOrder] := by decide +kernel

/-- All anchored files were present and scanned. -/
theorem scan_complete : missingFiles = [] := by decide +kernel

/-- No reviewed site rests on a refuted statement any more: the two loops that were order-dependent
    (F-C14-1, F-C14-2) were repaired in /repo, and no set-iteration site of those two functions
    appends to an ordered output. -/
theorem no_reviewed_site_is_order_dependent :
    ∀ r ∈ reviewed, r.2 ∈ [Cls.commutingRemove, .commutingSubst, .commutingLocal, .collect, .reduction,
                            .dictFill, .sorted, .keyOnly, .registryOrder] := by decide +kernel

/-! ## Process-wide state that survives a conversion (`J2O.Gen.C14State`, probed on every run) -/

open J2O.Gen.C14State in
/-- Behavioural classes of surviving state and the theorem of the state machine of each kind:
      saturating   a container / cache / flag that changes only the FIRST time a request is seen and never
                   again when the same requests are repeated (registries, memo tables, lazy imports):
                   `memo_transparent`, `registry_order_irrelevant`, `fresh_context_independent`
      instanceMap  weak map from `id(instance)` to the instance, written and read inside one conversion:
                   `fresh_context_independent` (hypothesis `wellScoped`)
      scratchVar   a ContextVar that failing conversions may leave filled but every successful conversion
                   leaves at its initial value and whose value after round 2 equals the value after round 1
                   (`_ONNX_FN_HITS`: cleared at the start of every conversion — `scratch_cleared_independent`;
                   validated by the poison test of the harness)
    A ContextVar with flag `dirty` / `net` (left changed by a conversion: the `_IN_FUNCTION_BUILD` leak of
    C14-2/C14-4), a container with `r2`/`net` (a module-level counter or name table: accumulates history)
    has no class — `contextvar_restored` is the theorem the code must satisfy for it. -/
inductive StateCls where
  | saturating | instanceMap | scratchVar
  deriving DecidableEq, Repr

open J2O.Gen.C14State in
def classifyState (r : Row) : Option StateCls :=
  if r.2.1 == "weakmap" then some .instanceMap
  else if r.2.1 == "ctxvar" then
    (if r.2.2.contains "dirty" || r.2.2.contains "net" then none else some .scratchVar)
  else if ["map", "set", "list", "lru", "scalar", "weakset"].contains r.2.1 && r.2.2 == ["r1"] then some .saturating
  else none

/-- **State coverage.** Every piece of module-level / class-level state or ContextVar of jax2onnx that some
    conversion of the probe changed falls in a class whose state machine has an independence theorem. -/
theorem state_classified : ∀ r ∈ J2O.Gen.C14State.surviving, (classifyState r).isSome = true := by
  decide +kernel

/-- The probe really inventoried the process (non-vacuity of `state_classified`): state objects were found,
    among them at least one ContextVar. -/
theorem state_inventory_nonempty :
    J2O.Gen.C14State.inventorySize > 100 ∧ J2O.Gen.C14State.ctxvars ≠ [] := by decide +kernel

example : classifyState ("m:_IN_FUNCTION_BUILD", "ctxvar", ["dirty", "r1"]) = none ∧
    classifyState ("m:_counters", "map", ["net", "r1", "r2"]) = none ∧
    classifyState ("m:_CACHE", "map", ["r1"]) = some .saturating := by decide

end J2O.C14
