/-
C05 — obligations about the tables regenerated from /repo on every run (`J2O.Gen.C05`): the live
dtype policy, the live Cast/keep decision and the live always-keep rule ARE the reference
functions on the tabulated domain; the universally quantified theorems of `J2O.Props.C05`
then apply to what the code decides.
-/
import J2O.Props.C05
import J2O.Gen.C05

namespace J2O.C05
open J2O.Gen.C05

/-- The live `numpy_dtype_to_ir_with_float_policy` equals the reference on every numpy dtype
    that has an ONNX counterpart, for both values of the flag. -/
theorem policyTable_eq_ref : ∀ r ∈ policyTable, r.2.2 = policy r.1 r.2.1 := by decide +kernel

/-- The live `add_outputs_from_vars` declares exactly the type the reference reconciles, inserts
    a Cast exactly when the reference does, and adds a trailing dimension exactly for complex
    results. -/
theorem outTable_eq_ref :
    ∀ r ∈ outTable, (r.2.2.2.1, r.2.2.2.2.1) = reconcile r.1 r.2.1 r.2.2.1 ∧
      r.2.2.2.2.2 = (if classOf r.1 = .complex then 1 else 0) := by decide +kernel

/-- The live always-keep rule of `prune_unused_graph_inputs_ir` equals the reference on the name
    family, in particular `in_<i>_nchw` is kept (reverting /repo dfda5c9 breaks this obligation). -/
theorem keepTable_eq_ref : ∀ r ∈ keepTable, r.2 = alwaysKeep r.1 := by decide +kernel

/-- Consequences for the live tables, stated directly. -/
theorem gen_dtype_class_preserved : ∀ r ∈ policyTable, classOf r.2.2 = classOf r.1 := by
  intro r hr
  rw [policyTable_eq_ref r hr]; exact dtype_class_preserved _ _

theorem gen_float_width_follows_flag :
    ∀ r ∈ policyTable, r.1 = 1 → r.2.2 = (if r.2.1 then 11 else 1) := by
  intro r hr h
  rw [policyTable_eq_ref r hr, h]; exact float_width_follows_flag _

theorem gen_output_class_preserved :
    ∀ r ∈ outTable, classOf r.2.2.2.1 = (if classOf r.1 = .complex then .float else classOf r.1) := by
  intro r hr
  have h := (outTable_eq_ref r hr).1
  have : r.2.2.2.1 = (reconcile r.1 r.2.1 r.2.2.1).1 := congrArg Prod.fst h
  rw [this]; exact reconcile_class_preserved _ _ _

theorem gen_int_kept_or_int64 :
    ∀ r ∈ outTable, classOf r.1 = .int → r.2.2.2.1 = r.1 ∨ r.2.2.2.1 = 7 := by
  intro r hr hi
  have h := (outTable_eq_ref r hr).1
  have : r.2.2.2.1 = (reconcile r.1 r.2.1 r.2.2.1).1 := congrArg Prod.fst h
  rw [this]; exact int_kept_or_int64 _ _ _ hi

end J2O.C05
