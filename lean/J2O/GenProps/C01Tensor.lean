/-
C01 (round 2) — obligations about the DATAFLOW recipes regenerated from /repo on every run
(`J2O.Gen.C01Tensor`): for each tensor-level catalogue entry, for all inputs of the stated domain,
evaluating the whole ONNX graph the real `to_onnx` emitted for the one-call program (every node,
shape plumbing included) equals the JAX-side semantics (`Jax.*` in `Model/C01Tensor.lean`).

Statements are over lists of mathematical integers (no-overflow reading, as in `GenProps/C01`);
booleans are 0/1 (`Bits`), float entries (`*_f32`) carry integer-valued floats (they only compare /
negate).  Recipes that do not mention the extent are proved for ALL lengths (the harness checks on
every run that the exporter emits the same recipe for other extents); recipes that contain the
extent as a constant are proved for every list of that extent (6; index lists 4).
-/
import J2O.Lemmas.C01Tensor
import J2O.Gen.C01Tensor
set_option linter.unusedSimpArgs false
set_option linter.unusedVariables false
set_option linter.unusedTactic false

namespace J2O.C01
open J2O.Gen.C01

/-! ### structure: reversal, rotation, padding (sign of the amount), iota / arange -/

theorem rev_i32_correct (l : List Int) : g_rev_i32.eval [Tn.vec l] = some [Tn.vec (Jax.rev l)] := by
  simp only [g_rev_i32]
  grecipe_simp
  simp only [onnx_range_nat, Option.map_some, Tn.vec]
  have hne : ¬ ([((List.range l.length).map fun (i : Nat) => (i : Int)).length] = ([] : List Nat)) := by simp
  simp only [hne, if_false, List.map_map]
  rw [gather1_map l _ _ (by intro x hx; simp at hx; simp; omega)]
  simp [Jax.rev]
  have := map_getD_rev l
  simpa [Function.comp_def] using this

theorem pad_pos_i32_correct (l : List Int) :
    g_pad_pos_i32.eval [Tn.vec l] = some [Tn.vec (Jax.pad 2 1 7 l)] := by
  simp only [g_pad_pos_i32]
  grecipe_simp
  rw [pad1_eq_jaxPad l 2 1 7 (by omega) (by omega)]
  simp [Tn.vec]

theorem pad_neglo_i32_correct (l : List Int) (h : 2 ≤ l.length) :
    g_pad_neglo_i32.eval [Tn.vec l] = some [Tn.vec (Jax.pad (-2) 1 7 l)] := by
  simp only [g_pad_neglo_i32]
  grecipe_simp
  rw [pad1_eq_jaxPad l (-2) 1 7 (by omega) (by omega)]
  simp [Tn.vec]

theorem reduce_max_i32_correct (l : List Int) (m : Int) (h : Jax.maxList l = some m) :
    g_reduce_max_i32.eval [Tn.vec l] = some [Tn.scalar m] := by
  cases l with
  | nil => simp [Jax.maxList] at h
  | cons x xs =>
    rw [maxList_eq_foldMax] at h
    simp only [g_reduce_max_i32]
    grecipe_simp
    simpa [Onnx.reduceAll] using h

theorem reduce_sum_i32_correct (l : List Int) :
    g_reduce_sum_i32.eval [Tn.vec l] = some [Tn.scalar (Jax.sum l)] := by
  simp only [g_reduce_sum_i32]
  grecipe_simp
  simp [Onnx.reduceAll, sumList_eq_jaxSum]

theorem reduce_all_bool_correct (l : List Int) (h : Bits l) :
    g_reduce_all_bool.eval [Tn.vec l] = some [Tn.scalar (if Jax.all l then 1 else 0)] := by
  simp only [g_reduce_all_bool]
  grecipe_simp
  have := reduceMin_bits l h
  by_cases hz : Onnx.reduceAll RedKind.min DT.i64 l = 0
  · simp [hz, this.mp hz]
  · have : Jax.all l = true := by
      cases hb : Jax.all l
      · exact absurd (this.mpr hb) hz
      · rfl
    simp [hz, this]


theorem flip_i32_correct (l : List Int) : g_flip_i32.eval [Tn.vec l] = some [Tn.vec (Jax.rev l)] := by
  simp only [g_flip_i32]
  grecipe_simp
  simp only [onnx_range_nat, Option.map_some, Tn.vec]
  have hne : ¬ ([((List.range l.length).map fun (i : Nat) => (i : Int)).length] = ([] : List Nat)) := by simp
  simp only [hne, if_false, List.map_map]
  rw [gather1_map l _ _ (by intro x hx; simp at hx; simp; omega)]
  simp [Jax.rev]
  have := map_getD_rev l
  simpa [Function.comp_def] using this

theorem pad_neghi_i32_correct (l : List Int) (h : 2 ≤ l.length) :
    g_pad_neghi_i32.eval [Tn.vec l] = some [Tn.vec (Jax.pad 1 (-3) 7 l)] := by
  simp only [g_pad_neghi_i32]
  grecipe_simp
  rw [pad1_eq_jaxPad l 1 (-3) 7 (by omega) (by omega)]
  simp [Tn.vec]

/-- `jnp.roll(x, 2)` on extent 6. -/
theorem roll_p2_i32_correct (l : List Int) (h : l.length = 6) :
    g_roll_p2_i32.eval [Tn.vec l] = some [Tn.vec (Jax.roll 2 l)] := by
  match l, h with
  | [a, b, c, d, e, f], _ =>
    simp only [g_roll_p2_i32]
    grecipe_simp
    simp [Jax.roll]

theorem roll_m1_i32_correct (l : List Int) (h : l.length = 6) :
    g_roll_m1_i32.eval [Tn.vec l] = some [Tn.vec (Jax.roll (-1) l)] := by
  match l, h with
  | [a, b, c, d, e, f], _ =>
    simp only [g_roll_m1_i32]
    grecipe_simp
    simp [Jax.roll]

theorem iota_i32_correct (l : List Int) (h : l.length = 6) :
    g_iota_i32.eval [Tn.vec l] = some [Tn.vec (List.zipWith (· + ·) l (Jax.iota 6))] := by
  match l, h with
  | [a, b, c, d, e, f], _ =>
    simp only [g_iota_i32]
    grecipe_simp [Onnx.range, Jax.iota]

theorem arange_i32_correct (l : List Int) (h : l.length = 6) :
    g_arange_i32.eval [Tn.vec l] = some [Tn.vec (List.zipWith (· + ·) l (Jax.arange 2 14 2))] := by
  match l, h with
  | [a, b, c, d, e, f], _ =>
    simp only [g_arange_i32]
    grecipe_simp [Onnx.range, Jax.arange, Jax.arangeAux]

/-! ### reductions (identity of the empty reduction included where JAX defines it) -/

theorem reduce_min_i32_correct (l : List Int) (m : Int) (h : Jax.minList l = some m) :
    g_reduce_min_i32.eval [Tn.vec l] = some [Tn.scalar m] := by
  cases l with
  | nil => simp [Jax.minList] at h
  | cons x xs =>
    rw [minList_eq_foldMin] at h
    simp only [g_reduce_min_i32]
    grecipe_simp
    simpa [Onnx.reduceAll] using h

theorem reduce_prod_i32_correct (l : List Int) :
    g_reduce_prod_i32.eval [Tn.vec l] = some [Tn.scalar (Jax.prod l)] := by
  simp only [g_reduce_prod_i32]
  grecipe_simp
  simp [Onnx.reduceAll, prodList_eq_jaxProd]

theorem reduce_any_bool_correct (l : List Int) (h : Bits l) :
    g_reduce_any_bool.eval [Tn.vec l] = some [Tn.scalar (if Jax.any l then 1 else 0)] := by
  simp only [g_reduce_any_bool]
  grecipe_simp
  have := (sumList_bits l h).2
  by_cases hz : Onnx.reduceAll RedKind.sum DT.i64 l = 0
  · simp [hz, this.mp (by simpa [Onnx.reduceAll] using hz)]
  · have : Jax.any l = true := by
      cases hb : Jax.any l
      · exact absurd (by simpa [Onnx.reduceAll] using this.mpr hb) hz
      · rfl
    simp [hz, this]

example : Bits [1, 0, 1] ∧ Jax.all [1, 0, 1] = false ∧ Jax.any [1, 0, 1] = true ∧ Jax.all [] = true := by
  refine ⟨?_, by decide, by decide, by decide⟩
  intro x hx; simp at hx; omega

/-! ### running extrema through `MaxPool` (float tensors); integer tensors are rejected -/

theorem cummax_f32_correct (l : List Int) (h : l.length = 6) :
    g_cummax_f32.eval [Tn.vec l] = some [Tn.vec (Jax.cummax false l)] := by
  match l, h with
  | [a, b, c, d, e, f], _ =>
    have hp := maxPool1_cummax a [b, c, d, e, f]
    simp only [List.length_cons, List.length_nil, Nat.reduceAdd] at hp
    have hlen : (Jax.cummax false [a, b, c, d, e, f]).length = 6 := by
      simp [Jax.cummax, Jax.cumExt, Jax.scan1, Jax.scanl1]
    simp only [g_cummax_f32]
    grecipe_simp [DT.isFloat, hp, hlen]

theorem cummax_rev_f32_correct (l : List Int) (h : l.length = 6) :
    g_cummax_rev_f32.eval [Tn.vec l] = some [Tn.vec (Jax.cummax true l)] := by
  match l, h with
  | [a, b, c, d, e, f], _ =>
    have hp := maxPool1_cummax_rev a [b, c, d, e, f]
    simp only [List.length_cons, List.length_nil, Nat.reduceAdd] at hp
    have hlen : (Jax.cummax true [a, b, c, d, e, f]).length = 6 := by
      simp [Jax.cummax, Jax.cumExt, Jax.scan1, Jax.scanl1]
    simp only [g_cummax_rev_f32]
    grecipe_simp [DT.isFloat, hp, hlen]

theorem cummin_f32_correct (l : List Int) (h : l.length = 6) :
    g_cummin_f32.eval [Tn.vec l] = some [Tn.vec (Jax.cummin false l)] := by
  match l, h with
  | [a, b, c, d, e, f], _ =>
    have hp := neg_maxPool1_neg_cummin a [b, c, d, e, f]
    simp only [List.length_cons, List.length_nil, Nat.reduceAdd, List.map_cons, List.map_nil] at hp
    have hlen : (Jax.cummin false [a, b, c, d, e, f]).length = 6 := by
      simp [Jax.cummin, Jax.cumExt, Jax.scan1, Jax.scanl1]
    cases hm : Onnx.maxPool1 6 5 0 [-a, -b, -c, -d, -e, -f] with
    | none => rw [hm] at hp; simp at hp
    | some r =>
      rw [hm] at hp
      simp only [Option.map_some, Option.some.injEq] at hp
      have hr : r.length = 6 := by
        have := congrArg List.length hp
        simpa [hlen] using this
      simp only [g_cummin_f32]
      grecipe_simp [DT.isFloat, hm, hr, hp, hlen]

/-- `lax.cummax` on **int32**: /repo emits `MaxPool` on an int32 tensor, which ONNX Runtime does not
    implement — the model is rejected; the operator model has no value for ANY input (known finding). -/
theorem cummax_i32_refuted (l : List Int) : g_cummax_i32.eval [Tn.vec l] = none := by
  simp only [g_cummax_i32]
  have hs : (6 = l.length) ↔ (l.length = 6) := ⟨fun h => h.symm, fun h => h.symm⟩
  by_cases h6 : l.length = 6 <;> grecipe_simp [DT.isFloat, hs, h6]

/-- `lax.cumprod`: /repo emits an operator `CumProd`, which is not an ONNX operator — the model is
    rejected by ONNX Runtime; no value for ANY input (known finding). -/
theorem cumprod_i32_refuted (l : List Int) : g_cumprod_i32.eval [Tn.vec l] = none := by
  simp only [g_cumprod_i32]
  grecipe_simp

-- non-vacuity / sanity: concrete instances of the statements above (kernel-evaluated on the regenerated recipes)
example : g_rev_i32.eval [Tn.vec [1, 2, 3]] = some [Tn.vec [3, 2, 1]] ∧
    g_rev_i32.eval [Tn.vec []] = some [Tn.vec []] := by decide +kernel
example : g_roll_p2_i32.eval [Tn.vec [1, 2, 3, 4, 5, 6]] = some [Tn.vec [5, 6, 1, 2, 3, 4]] ∧
    g_roll_m1_i32.eval [Tn.vec [1, 2, 3, 4, 5, 6]] = some [Tn.vec [2, 3, 4, 5, 6, 1]] := by decide +kernel
example : g_pad_pos_i32.eval [Tn.vec [1, 2]] = some [Tn.vec [7, 7, 1, 2, 7]] ∧
    g_pad_neglo_i32.eval [Tn.vec [1, 2, 3]] = some [Tn.vec [3, 7]] ∧
    g_pad_neghi_i32.eval [Tn.vec [1, 2, 3, 4]] = some [Tn.vec [7, 1]] ∧ (2 ≤ [1, 2, 3].length) := by decide +kernel
example : g_iota_i32.eval [Tn.vec [10, 10, 10, 10, 10, 10]] = some [Tn.vec [10, 11, 12, 13, 14, 15]] ∧
    g_arange_i32.eval [Tn.vec [0, 0, 0, 0, 0, 0]] = some [Tn.vec [2, 4, 6, 8, 10, 12]] := by decide +kernel
example : Jax.maxList [3, -1, 4] = some 4 ∧ g_reduce_max_i32.eval [Tn.vec [3, -1, 4]] = some [Tn.scalar 4] ∧
    g_reduce_min_i32.eval [Tn.vec [3, -1, 4]] = some [Tn.scalar (-1)] ∧
    g_reduce_sum_i32.eval [Tn.vec []] = some [Tn.scalar 0] ∧ g_reduce_prod_i32.eval [Tn.vec []] = some [Tn.scalar 1] ∧
    g_reduce_all_bool.eval [Tn.vec []] = some [Tn.scalar 1] ∧ g_reduce_any_bool.eval [Tn.vec [0, 1, 0]] = some [Tn.scalar 1]
    := by decide +kernel
example : g_cummax_f32.eval [Tn.vec [3, -1, 4, 1, -5, 9]] = some [Tn.vec [3, 3, 4, 4, 4, 9]] ∧
    g_cummax_rev_f32.eval [Tn.vec [3, -1, 4, 1, -5, 9]] = some [Tn.vec [9, 9, 9, 9, 9, 9]] ∧
    g_cummin_f32.eval [Tn.vec [3, -1, 4, 1, -5, 9]] = some [Tn.vec [3, -1, -1, -1, -5, -5]] := by decide +kernel


end J2O.C01
