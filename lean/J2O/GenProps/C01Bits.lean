/-
C01 — obligations about the regenerated recipes where fixed width is the point
(`J2O.Gen.C01Bits`, 8-bit dtypes; `Mode.fixed` = two's-complement wrap, what ORT computes).
Statements quantify over *all* values of the dtype.  Entries not listed here (`popcnt_*`,
`clz_*`, `shra_i8`) are swept exhaustively (all 2⁸ / 2¹⁶ inputs) through the Lean interpreter
and, on the real exported model, through ONNX Runtime against eager JAX by the harness.
-/
import J2O.Lemmas.C01
import J2O.Gen.C01Bits
set_option linter.unusedSimpArgs false
set_option linter.unusedVariables false
set_option linter.unreachableTactic false
set_option linter.unusedTactic false
set_option linter.unnecessarySeqFocus false

namespace J2O.C01
open J2O.Gen.C01

theorem band_i8_correct (x y : Int) :
    recipe_band_i8.eval .fixed [.i x, .i y] = bitsOp .i8 (· &&& ·) x y := by
  simp only [recipe_band_i8]; recipe_simp; rfl
theorem bor_u8_correct (x y : Int) :
    recipe_bor_u8.eval .fixed [.i x, .i y] = bitsOp .u8 (· ||| ·) x y := by
  simp only [recipe_bor_u8]; recipe_simp; rfl
theorem bxor_i8_correct (x y : Int) :
    recipe_bxor_i8.eval .fixed [.i x, .i y] = bitsOp .i8 (· ^^^ ·) x y := by
  simp only [recipe_bxor_i8]; recipe_simp; rfl

/-- `~x` on int8 / uint8: all bits flipped, for every integer `x` (read modulo 2⁸). -/
theorem bnot_i8_correct (x : Int) :
    recipe_bnot_i8.eval .fixed [.i x] = .i (ofBits .i8 (2 ^ 8 - 1 - toBits .i8 x)) := by
  simp only [recipe_bnot_i8]; recipe_simp
  simp only [ofBits, toBits, wrap, DT.isInt, DT.bits, DT.signed, if_true, Bool.true_and, Val.i.injEq]
  norm_num
  omega
theorem bnot_u8_correct (x : Int) :
    recipe_bnot_u8.eval .fixed [.i x] = .i (ofBits .u8 (2 ^ 8 - 1 - toBits .u8 x)) := by
  simp only [recipe_bnot_u8]; recipe_simp
  simp only [ofBits, toBits, wrap, DT.isInt, DT.bits, DT.signed, if_true, Bool.false_and, Val.i.injEq]
  norm_num
  omega

/-- negation / absolute value wrap at the minimum (−128 ↦ −128). -/
theorem neg_i8_correct (x : Int) : recipe_neg_i8.eval .fixed [.i x] = .i (wrap .i8 (-x)) := by
  simp only [recipe_neg_i8]; recipe_simp
theorem abs_i8_correct (x : Int) : recipe_abs_i8.eval .fixed [.i x] = .i (wrap .i8 (Jax.abs x)) := by
  simp only [recipe_abs_i8]; recipe_simp; rfl
example : recipe_neg_i8.eval .fixed [.i (-128)] = .i (-128) := by decide +kernel

theorem pow_mod_zero (s : Nat) (hs : 8 ≤ s) (x : Nat) : (x * 2 ^ s) % 256 = 0 := by
  obtain ⟨k, rfl⟩ := Nat.exists_eq_add_of_le hs
  rw [Nat.pow_add]
  have : x * (2 ^ 8 * 2 ^ k) = 256 * (x * 2 ^ k) := by ring
  rw [this, Nat.mul_mod_right]

theorem div_pow_zero (s : Nat) (hs : 8 ≤ s) (x : Nat) (hx : x < 256) : x / 2 ^ s = 0 := by
  apply Nat.div_eq_of_lt
  calc x < 2 ^ 8 := hx
    _ ≤ 2 ^ s := Nat.pow_le_pow_right (by norm_num) hs

/-- `lax.shift_left` on uint8, every value and every shift amount 0..255 (amounts ≥ 8 give 0). -/
theorem shl_u8_correct (x s : Nat) (hx : x < 256) (hs : s < 256) :
    recipe_shl_u8.eval .fixed [.i x, .i s] = bitsOp .u8 (Jax.shiftLeft 8) x s := by
  simp only [recipe_shl_u8]; recipe_simp
  have hns : ¬ (((s : ℤ) < 0) ∨ ((x : ℤ) < 0)) := by omega
  simp only [DT.signed, Bool.false_or, decide_eq_true_eq, Bool.or_eq_true, hns, if_false]
  simp only [bitsOp, ofBits, toBits, wrap, DT.isInt, DT.bits, DT.signed, Jax.shiftLeft, Val.i.injEq,
    Bool.false_and, Bool.false_eq_true, if_false, if_true, Int.toNat_natCast]
  have e1 : ((x : ℤ) % 2 ^ 8).toNat = x := by omega
  have e2 : ((s : ℤ) % 2 ^ 8).toNat = s := by omega
  simp only [e1, e2]
  by_cases h8 : 8 ≤ s
  · simp [h8]
  · have h8' : ¬ s ≥ 8 := h8
    simp only [ge_iff_le, h8, if_false]
    norm_cast
    omega

theorem shrl_u8_correct (x s : Nat) (hx : x < 256) (hs : s < 256) :
    recipe_shrl_u8.eval .fixed [.i x, .i s] = bitsOp .u8 (Jax.shiftRightLogical 8) x s := by
  simp only [recipe_shrl_u8]; recipe_simp
  have hns : ¬ (((s : ℤ) < 0) ∨ ((x : ℤ) < 0)) := by omega
  simp only [DT.signed, Bool.false_or, decide_eq_true_eq, Bool.or_eq_true, hns, if_false]
  simp only [bitsOp, ofBits, toBits, wrap, DT.isInt, DT.bits, DT.signed, Jax.shiftRightLogical,
    Val.i.injEq, Bool.false_and, Bool.false_eq_true, if_false, if_true, Int.toNat_natCast]
  have e1 : ((x : ℤ) % 2 ^ 8).toNat = x := by omega
  have e2 : ((s : ℤ) % 2 ^ 8).toNat = s := by omega
  simp only [e1, e2]
  by_cases h8 : 8 ≤ s
  · simp [h8]
  · simp only [ge_iff_le, h8, if_false]
    have hlt : x / 2 ^ s < 256 := lt_of_le_of_lt (Nat.div_le_self _ _) hx
    norm_cast
    exact (Nat.mod_eq_of_lt (by norm_num; exact hlt)).symm

/-- `lax.shift_right_arithmetic` on **uint8**: /repo emits a logical `BitShift`; that is right
    only while the top bit is clear (partial: `x < 128`) … -/
theorem shra_u8_correct_partial (x s : Nat) (hx : x < 128) (hs : s < 256) :
    recipe_shra_u8.eval .fixed [.i x, .i s] = bitsOp .u8 (Jax.shiftRightArithmetic 8) x s := by
  simp only [recipe_shra_u8]; recipe_simp
  have hns : ¬ (((s : ℤ) < 0) ∨ ((x : ℤ) < 0)) := by omega
  simp only [DT.signed, Bool.false_or, decide_eq_true_eq, Bool.or_eq_true, hns, if_false]
  simp only [bitsOp, ofBits, toBits, wrap, DT.isInt, DT.bits, DT.signed, Jax.shiftRightArithmetic,
    Val.i.injEq, Bool.false_and, Bool.false_eq_true, if_false, if_true, Int.toNat_natCast]
  have e1 : ((x : ℤ) % 2 ^ 8).toNat = x := by omega
  have e2 : ((s : ℤ) % 2 ^ 8).toNat = s := by omega
  have hneg : ¬ (x ≥ 2 ^ (8 - 1)) := by norm_num; omega
  simp only [e1, e2, hneg, decide_false, Bool.false_eq_true, if_false]
  by_cases h8 : 8 ≤ s
  · simp [h8]
  · simp only [ge_iff_le, h8, if_false]
    have hlt : x / 2 ^ s < 256 := lt_of_le_of_lt (Nat.div_le_self _ _) (by omega)
    norm_cast
    exact (Nat.mod_eq_of_lt (by norm_num; exact hlt)).symm

/-- … and wrong when it is set: JAX sign-extends the bit pattern (128 >> 1 = 192), ORT gives 64. -/
theorem shra_u8_refuted :
    recipe_shra_u8.eval .fixed [.i 128, .i 1] = .i 64 ∧
    bitsOp .u8 (Jax.shiftRightArithmetic 8) 128 1 = .i 192 := by decide +kernel

/-- `lax.shift_left` / `shift_right_logical` on **signed** integers: /repo emits `BitShift`, which
    ONNX defines for unsigned tensors only — the model is rejected by ONNX Runtime (the operator
    model evaluates to `err` for every input, so no correctness statement exists). -/
theorem shl_i8_refuted (x s : Int) : recipe_shl_i8.eval .fixed [.i x, .i s] = .err := by
  simp only [recipe_shl_i8]; recipe_simp; simp [DT.signed]
theorem shrl_i8_refuted (x s : Int) : recipe_shrl_i8.eval .fixed [.i x, .i s] = .err := by
  simp only [recipe_shrl_i8]; recipe_simp; simp [DT.signed]

end J2O.C01
