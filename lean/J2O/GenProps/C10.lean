/-
C10 — obligations about the rule-forwarding policy tabulated from the live /repo on every run
(`J2O.Gen.C10`): the allow/block lists of `_autodiff_utils`, the decisions of the real
`register_original_rule_forwarding` / `backfill_missing_transpose_rules` on stub primitives over a
finite domain of names, and the rule objects actually shared between lax primitives and plugin
primitives in JAX's registries after `import_all_plugins()`.
-/
import J2O.Model.C10
import J2O.Model.C10Rules
import J2O.Gen.C10

namespace J2O.C10
open J2O.Gen.C10

/-- The allowlist and the blocklist of original-rule forwarding are disjoint. -/
theorem allow_block_disjoint : ∀ p ∈ forwardAllow, p ∉ forwardBlock := by decide +kernel

/-- The real `register_original_rule_forwarding` accepted a pair (did not raise) only if the
    model's decision `forwardAllowed` on the live allowlist accepts it, and never a blocklisted
    one (complete table over the name domain). -/
theorem forward_table_sound :
    ∀ e ∈ forwardTable, e.2 = true → forwardAllowed forwardAllow e.1 = true ∧ e.1 ∉ forwardBlock := by
  decide +kernel

/-- … and it accepts exactly those (two-sided correspondence of the decision). -/
theorem forward_table_exact : ∀ e ∈ forwardTable, e.2 = forwardAllowed forwardAllow e.1 := by
  decide +kernel

/-- Every AD rule object that a plugin primitive actually shares with a lax primitive in JAX's
    registries (identity of the rule object) belongs to an allowlisted, non-blocklisted pair. -/
theorem observed_forwarded_allowlisted :
    ∀ p ∈ observedForwarded, p ∈ forwardAllow ∧ p ∉ forwardBlock := by decide +kernel

/-- `backfill_missing_transpose_rules` installed the generic linear-transpose fallback only for
    allowlisted primitive names (decision tabulated on stub primitives). -/
theorem backfill_only_allowlisted :
    ∀ e ∈ backfillTable, e.2 = true → e.1 ∈ linearTransposeAllow := by decide +kernel

/-- The generic fallback transposes present in the live registry are allowlisted. -/
theorem observed_fallback_transposes_allowlisted :
    ∀ n ∈ observedFallbackTransposes, n ∈ linearTransposeAllow := by decide +kernel

/-- No target of an allow-listed pair is the source of another one: hypothesis `NoChain` of
    `ad_pipeline_provenance` holds for the live allow-list. -/
theorem allow_no_chain : ∀ p ∈ forwardAllow, ∀ q ∈ forwardAllow, p.2 ≠ q.1 := by decide +kernel

/-- The operand-shape domains in the model are the live ones: over the tabulated shape pairs, `lax.add`'s
    JVP rule (the rule object that is forwarded to `jax.numpy.add`) runs exactly on `laxAddDom`, and the
    plugin primitive `jax.numpy.add` accepts exactly `jnpAddDom` (numpy broadcasting). -/
theorem add_domain_table_sound :
    ∀ r ∈ addDomainTable, r.2.1 = laxAddDom r.1 ∧ r.2.2 = jnpAddDom r.1 := by decide +kernel

/-- … so the contract `dom new ⊆ dom orig` of `forwarded_rule_defined_on_new_domain` is violated on the
    tabulated domain (F-C10-add-forwarded-ad-rule); whether the pair is still allow-listed is
    `addPairForwarded` (reported by the harness, not an obligation). -/
theorem add_contract_violated_on_table : ∃ r ∈ addDomainTable, r.2.2 = true ∧ r.2.1 = false := by decide +kernel

def addPairForwarded : Bool := forwardAllow.contains ("add", "jax.numpy.add")

end J2O.C10
