/-
C11 — reduce gate and Swish gate (obligations about the tables regenerated on every run; split from GenProps/C11.lean so that Lake
checks the kernel evaluations in parallel).
-/
import J2O.GenProps.C11

namespace J2O.C11
open J2O.MT J2O.Gen.C11

/-- **Reduce gate.** For EVERY opset 21..max and every reduction operator of
    `_REDUCTION_AXES_INPUT_SINCE`, the node the live `builder_reduce_with_axes` emits (explicit axes:
    attribute or second input, and the axes-free form) is legal at that opset. -/
theorem reduce_gate_legal :
    ∀ e ∈ reduceForms, 21 ≤ e.1 → formLegal e.1 e.2 = true := by decide +kernel

/-- the table really contains a row for every claimed opset and every operator of the gate table -/
theorem reduce_gate_complete :
    ∀ v ∈ claimedOpsets, ∀ op ∈ reduceAxesSince.map (·.1),
      (reduceForms.any fun e => e.1 == v && e.2.1 == op && e.2.2.1 == 2
          || e.1 == v && e.2.1 == op && e.2.2.2.2.contains "axes") = true := by decide +kernel

/-- **Swish gate.** For EVERY opset 21..max the nodes left by the live
    `rewrite_mul_sigmoid_as_swish_ir` on `x * Sigmoid(x)` are legal at that opset. -/
theorem swish_gate_legal :
    ∀ e ∈ swishForms, 21 ≤ e.1 → e.2.all (formLegal e.1) = true := by decide +kernel

theorem swish_gate_complete :
    ∀ v ∈ claimedOpsets, (swishForms.any fun e => e.1 == v) = true := by decide +kernel

end J2O.C11
