/-
C12 — obligations about the constants regenerated from /repo (`J2O.Gen.C12`).
-/
import J2O.Model.C12
import J2O.Gen.C12

namespace J2O.C12

/-- the live boundary permutations of /repo are the reference ones (for which `wrap_spec` and
    `perms_inverse` are proved) -/
theorem gen_perms_eq_ref :
    J2O.Gen.C12.nhwcToNchw = nhwcToNchw ∧ J2O.Gen.C12.nchwToNhwc = nchwToNhwc := by decide

end J2O.C12
