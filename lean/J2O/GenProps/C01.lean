/-
C01 — obligations about the recipes regenerated from /repo on every run (`J2O.Gen.C01`):
for each catalogue entry, *for all inputs of the stated exact domain*, evaluating the ONNX
sub-graph that the real `to_onnx` emitted for the one-primitive program equals the JAX-side
semantics of that primitive.

Reading of the integer statements: `Mode.ideal` = ℤ arithmetic.  By
`fixed_eq_ideal_of_noOverflow` (Props/C01) the fixed-width evaluation ONNX Runtime performs is
the same whenever no intermediate result leaves its dtype — that is the explicit no-overflow
hypothesis of these statements; where wrap-around is the point (`cvt_i32_i8`, everything in
`GenProps/C01Bits.lean`) the statement is about `Mode.fixed` directly.
Float entries are over ℚ (exact for the inputs that matter: half-integers, small dyadics).
-/
import J2O.Lemmas.C01
import J2O.Gen.C01
set_option linter.unusedSimpArgs false
set_option linter.unusedVariables false
set_option linter.unreachableTactic false
set_option linter.unusedTactic false
set_option linter.unnecessarySeqFocus false

namespace J2O.C01
open J2O.Gen.C01

/-! ### integer arithmetic (ℤ; no-overflow reading) -/

theorem div_i32_correct (x y : Int) :
    recipe_div_i32.eval .ideal [.i x, .i y] = .i (Jax.div x y) := by
  simp only [recipe_div_i32]; recipe_simp; rfl

theorem rem_i32_correct (x y : Int) :
    recipe_rem_i32.eval .ideal [.i x, .i y] = .i (Jax.rem x y) := by
  simp only [recipe_rem_i32]; recipe_simp
  simp [Jax.rem, Int.tmod_def, Int.mul_comm]

theorem fmod_i32_correct (x y : Int) :
    recipe_fmod_i32.eval .ideal [.i x, .i y] = .i (Jax.rem x y) := by
  simp only [recipe_fmod_i32]; recipe_simp
  simp [Jax.rem, Int.tmod_def, Int.mul_comm]

theorem floor_divide_i32_correct (x y : Int) (hy : y ≠ 0) :
    recipe_floor_divide_i32.eval .ideal [.i x, .i y] = .i (Jax.floorDivide x y) := by
  simp only [recipe_floor_divide_i32]; recipe_simp
  have hm : x - x.tdiv y * y = x.tmod y := by rw [Int.tmod_def, Int.mul_comm]
  have hm' : x - y * x.tdiv y = x.tmod y := by rw [Int.tmod_def]
  simp only [Jax.floorDivide, fdiv_eq_tdiv_adjust x y hy, hm, hm']
  by_cases h0 : x.tmod y = 0 <;> by_cases h1 : x.tmod y < 0 <;> by_cases h2 : y < 0 <;>
    simp [h0, h1, h2] <;> omega

theorem mod_i32_correct (x y : Int) (hy : y ≠ 0) :
    recipe_mod_i32.eval .ideal [.i x, .i y] = .i (Jax.pyMod x y) := by
  simp only [recipe_mod_i32]; recipe_simp
  have hy' : (y == 0) = false := by simpa using hy
  simp only [hy', Bool.false_eq_true, if_false]
  have hm : x - x.tdiv y * y = x.tmod y := by rw [Int.tmod_def, Int.mul_comm]
  have hm' : x - y * x.tdiv y = x.tmod y := by rw [Int.tmod_def]
  simp only [Jax.pyMod, fmod_eq_tmod_adjust x y hy, hm, hm']
  by_cases h0 : x.tmod y = 0 <;> by_cases h1 : x.tmod y < 0 <;> by_cases h2 : y < 0 <;>
    simp [h0, h1, h2] <;> omega

theorem sign_i32_correct (x : Int) : recipe_sign_i32.eval .ideal [.i x] = .i (Jax.sign x) := by
  simp only [recipe_sign_i32]; recipe_simp; rw [int_sign_eq]

theorem jnp_sign_i32_correct (x : Int) : recipe_jnp_sign_i32.eval .ideal [.i x] = .i (Jax.sign x) := by
  simp only [recipe_jnp_sign_i32]; recipe_simp; rw [int_sign_eq]

theorem abs_i32_correct (x : Int) : recipe_abs_i32.eval .ideal [.i x] = .i (Jax.abs x) := by
  simp only [recipe_abs_i32]; recipe_simp; rfl

theorem neg_i32_correct (x : Int) : recipe_neg_i32.eval .ideal [.i x] = .i (-x) := by
  simp only [recipe_neg_i32]; recipe_simp

theorem max_i32_correct (x y : Int) : recipe_max_i32.eval .ideal [.i x, .i y] = .i (Jax.max x y) := by
  simp only [recipe_max_i32]; recipe_simp
  simp only [Jax.max, Val.i.injEq]; split_ifs <;> omega

theorem min_i32_correct (x y : Int) : recipe_min_i32.eval .ideal [.i x, .i y] = .i (Jax.min x y) := by
  simp only [recipe_min_i32]; recipe_simp
  simp only [Jax.min, Val.i.injEq]; split_ifs <;> omega

/-- `lax.clamp(lo, x, hi)`; argument order as in JAX.  (Also for `lo > hi`: both sides give `hi`.) -/
theorem clamp_i32_correct (lo x hi : Int) :
    recipe_clamp_i32.eval .ideal [.i lo, .i x, .i hi] = .i (Jax.clamp lo x hi) := by
  simp only [recipe_clamp_i32]; recipe_simp
  simp only [Jax.clamp, Jax.max, Jax.min, Val.i.injEq]; split_ifs <;> omega

theorem clip_i32_correct (x lo hi : Int) :
    recipe_clip_i32.eval .ideal [.i x, .i lo, .i hi] = .i (Jax.clamp lo x hi) := by
  simp only [recipe_clip_i32]; recipe_simp
  simp only [Jax.clamp, Jax.max, Jax.min, Val.i.injEq]; split_ifs <;> omega

theorem ipow0_i32_correct (x : Int) : recipe_ipow0_i32.eval .ideal [.i x] = .i (Jax.integerPow x 0) := by
  simp only [recipe_ipow0_i32]; recipe_simp; simp [Jax.integerPow]
theorem ipow1_i32_correct (x : Int) : recipe_ipow1_i32.eval .ideal [.i x] = .i (Jax.integerPow x 1) := by
  simp only [recipe_ipow1_i32]; recipe_simp; simp [Jax.integerPow]
theorem ipow2_i32_correct (x : Int) : recipe_ipow2_i32.eval .ideal [.i x] = .i (Jax.integerPow x 2) := by
  simp only [recipe_ipow2_i32]; recipe_simp; simp [Jax.integerPow]
theorem ipow3_i32_correct (x : Int) : recipe_ipow3_i32.eval .ideal [.i x] = .i (Jax.integerPow x 3) := by
  simp only [recipe_ipow3_i32]; recipe_simp; simp [Jax.integerPow]
theorem ipow4_i32_correct (x : Int) : recipe_ipow4_i32.eval .ideal [.i x] = .i (Jax.integerPow x 4) := by
  simp only [recipe_ipow4_i32]; recipe_simp; simp [Jax.integerPow]

/-! ### comparisons, selection, booleans, conversions -/

theorem eq_i32_correct (x y : Int) : recipe_eq_i32.eval .ideal [.i x, .i y] = .b (decide (x = y)) := by
  simp only [recipe_eq_i32]; recipe_simp
  simp only [Val.b.injEq]; rw [Bool.eq_iff_iff]; simp
theorem ne_i32_correct (x y : Int) : recipe_ne_i32.eval .ideal [.i x, .i y] = .b (decide (x ≠ y)) := by
  simp only [recipe_ne_i32]; recipe_simp
  simp only [Val.b.injEq]; rw [Bool.eq_iff_iff]; simp
theorem lt_i32_correct (x y : Int) : recipe_lt_i32.eval .ideal [.i x, .i y] = .b (decide (x < y)) := by
  simp only [recipe_lt_i32]; recipe_simp
theorem le_i32_correct (x y : Int) : recipe_le_i32.eval .ideal [.i x, .i y] = .b (decide (x ≤ y)) := by
  simp only [recipe_le_i32]; recipe_simp
theorem gt_i32_correct (x y : Int) : recipe_gt_i32.eval .ideal [.i x, .i y] = .b (decide (y < x)) := by
  simp only [recipe_gt_i32]; recipe_simp
theorem ge_i32_correct (x y : Int) : recipe_ge_i32.eval .ideal [.i x, .i y] = .b (decide (y ≤ x)) := by
  simp only [recipe_ge_i32]; recipe_simp

/-- `lax.select_n(pred, a, b)` with a boolean predicate: `False` selects the first case. -/
theorem select_n2_i32_correct (p : Bool) (a b : Int) :
    recipe_select_n2_i32.eval .ideal [.b p, .i a, .i b] =
      .i (Jax.selectN (if p then 1 else 0) [a, b]) := by
  simp only [recipe_select_n2_i32]; recipe_simp
  cases p <;> simp [Jax.selectN]

/-- three-way `select_n` with an integer selector in range. -/
theorem select_n3_i32_correct (p a b c : Int) (hp : 0 ≤ p ∧ p < 3) :
    recipe_select_n3_i32.eval .ideal [.i p, .i a, .i b, .i c] = .i (Jax.selectN p.toNat [a, b, c]) := by
  simp only [recipe_select_n3_i32]; recipe_simp
  obtain ⟨h0, h3⟩ := hp
  have : p = 0 ∨ p = 1 ∨ p = 2 := by omega
  rcases this with rfl | rfl | rfl <;> simp [DT.isInt, Jax.selectN]

theorem select_i32_correct (p : Bool) (a b : Int) :
    recipe_select_i32.eval .ideal [.b p, .i a, .i b] = .i (if p then a else b) := by
  simp only [recipe_select_i32]; recipe_simp
  cases p <;> simp

theorem where_i32_correct (p : Bool) (a b : Int) :
    recipe_where_i32.eval .ideal [.b p, .i a, .i b] = .i (if p then a else b) := by
  simp only [recipe_where_i32]; recipe_simp
  cases p <;> simp

theorem not_bool_correct (x : Bool) : recipe_not_bool.eval .ideal [.b x] = .b (!x) := by
  simp only [recipe_not_bool]; recipe_simp
theorem and_bool_correct (x y : Bool) : recipe_and_bool.eval .ideal [.b x, .b y] = .b (x && y) := by
  simp only [recipe_and_bool]; recipe_simp
theorem or_bool_correct (x y : Bool) : recipe_or_bool.eval .ideal [.b x, .b y] = .b (x || y) := by
  simp only [recipe_or_bool]; recipe_simp
theorem xor_bool_correct (x y : Bool) : recipe_xor_bool.eval .ideal [.b x, .b y] = .b (x != y) := by
  simp only [recipe_xor_bool]; recipe_simp

theorem cvt_i32_bool_correct (x : Int) : recipe_cvt_i32_bool.eval .ideal [.i x] = .b (Jax.toBool x) := by
  simp only [recipe_cvt_i32_bool]; recipe_simp; simp [Jax.toBool]
theorem cvt_bool_i32_correct (x : Bool) :
    recipe_cvt_bool_i32.eval .ideal [.b x] = .i (if x then 1 else 0) := by
  simp only [recipe_cvt_bool_i32]; recipe_simp; simp [DT.isInt]

/-- narrowing integer conversion wraps (fixed width is the point; any `x`). -/
theorem cvt_i32_i8_correct (x : Int) : recipe_cvt_i32_i8.eval .fixed [.i x] = .i (wrap .i8 x) := by
  simp only [recipe_cvt_i32_i8]; recipe_simp; simp [DT.isInt]
theorem cvt_i32_u8_correct (x : Int) : recipe_cvt_i32_u8.eval .fixed [.i x] = .i (wrap .u8 x) := by
  simp only [recipe_cvt_i32_u8]; recipe_simp; simp [DT.isInt]

/-- `lax.shift_left` / `shift_right_logical` on **int32**: /repo emits `BitShift` on a signed
    tensor, outside ONNX's type constraint — ONNX Runtime rejects the model; the operator model
    evaluates to `err` for every input (no correctness statement exists; known finding). -/
theorem shl_i32_refuted (x s : Int) : recipe_shl_i32.eval .fixed [.i x, .i s] = .err := by
  simp only [recipe_shl_i32]; recipe_simp; simp [DT.signed]
theorem shrl_i32_refuted (x s : Int) : recipe_shrl_i32.eval .fixed [.i x, .i s] = .err := by
  simp only [recipe_shrl_i32]; recipe_simp; simp [DT.signed]

/-! ### ℚ: rounding and friends -/

theorem round_even_f32_correct (x : ℚ) :
    recipe_round_even_f32.eval .ideal [.q x] = .q (Jax.round .toNearestEven x) := by
  simp only [recipe_round_even_f32]; recipe_simp; rw [roundHalfEven_eq_jax]

theorem jnp_round_f32_correct (x : ℚ) :
    recipe_jnp_round_f32.eval .ideal [.q x] = .q (Jax.round .toNearestEven x) := by
  simp only [recipe_jnp_round_f32]; recipe_simp; rw [roundHalfEven_eq_jax]

/-- `lax.round(x)` (default AWAY_FROM_ZERO), full strength on all of ℚ: the lowering /repo emits
    since commit 3e0a3fd (`Sign(x) * Where(|x| - Floor|x| >= 1/2, Floor|x| + 1, Floor|x|)`) rounds
    ties away from zero.  (Before that commit the recipe was a bare `Round` and only
    `round_away_f32_correct_partial` held; see the regression example below.) -/
theorem round_away_f32_correct (x : ℚ) :
    recipe_round_away_f32.eval .ideal [.q x] = .q (Jax.round .awayFromZero x) := by
  simp only [recipe_round_away_f32]; recipe_simp
  rw [← roundAwayFix_eq, ← roundAwayFix_cast]
  simp only [mkRat_half, mkRat_one]
  by_cases h : (if x < 0 then -x else x) - ((ratFloor (if x < 0 then -x else x) : ℤ) : ℚ) ≥ 1 / 2
  -- the tail is written for any algebraically equal formulation of the magnitude
  -- (`Where(c, f+1, f)`, `f + Cast(c)`, …): evaluate what is left, then compare in ℚ
  · first
      | (simp only [h, decide_true, if_true]; done)
      | (simp [h, DT.isInt]; split_ifs <;> ring)
      | (simp [h, DT.isInt]; done)
  · first
      | (simp only [h, decide_false, Bool.false_eq_true, if_false]; done)
      | (simp [h, DT.isInt]; split_ifs <;> ring)
      | (simp [h, DT.isInt]; done)

-- regression example (about ONNX Round alone, not about /repo's current recipe): the lowering that
-- was repaired — a bare `Round` — does not implement AWAY_FROM_ZERO at the tie 1/2.
example : ({ inputs := [.f32], nodes := [⟨.round, .f32, .f32, [0]⟩], out := 1 } : Recipe).eval .ideal [.q (1 / 2)]
    ≠ .q (Jax.round .awayFromZero (1 / 2)) := by decide +kernel

theorem floor_f32_correct (x : ℚ) : recipe_floor_f32.eval .ideal [.q x] = .q (Jax.floor x) := by
  simp only [recipe_floor_f32]; recipe_simp; rfl
theorem ceil_f32_correct (x : ℚ) : recipe_ceil_f32.eval .ideal [.q x] = .q (Jax.ceil x) := by
  simp only [recipe_ceil_f32]; recipe_simp; rfl
theorem sign_f32_correct (x : ℚ) :
    recipe_sign_f32.eval .ideal [.q x] = .q (if x > 0 then 1 else if x < 0 then -1 else 0) := by
  simp only [recipe_sign_f32]; recipe_simp; rfl
theorem abs_f32_correct (x : ℚ) : recipe_abs_f32.eval .ideal [.q x] = .q (if x < 0 then -x else x) := by
  simp only [recipe_abs_f32]; recipe_simp
theorem neg_f32_correct (x : ℚ) : recipe_neg_f32.eval .ideal [.q x] = .q (-x) := by
  simp only [recipe_neg_f32]; recipe_simp
theorem max_f32_correct (x y : ℚ) :
    recipe_max_f32.eval .ideal [.q x, .q y] = .q (if x < y then y else x) := by
  simp only [recipe_max_f32]; recipe_simp
  simp only [Val.q.injEq]; split_ifs <;> first | rfl | linarith
theorem min_f32_correct (x y : ℚ) :
    recipe_min_f32.eval .ideal [.q x, .q y] = .q (if y < x then y else x) := by
  simp only [recipe_min_f32]; recipe_simp
  simp only [Val.q.injEq]; split_ifs <;> first | rfl | linarith
theorem clamp_f32_correct (lo x hi : ℚ) :
    recipe_clamp_f32.eval .ideal [.q lo, .q x, .q hi] = .q (Jax.clampQ lo x hi) := by
  simp only [recipe_clamp_f32]; recipe_simp
  simp only [Jax.clampQ, Val.q.injEq]; split_ifs <;> first | rfl | linarith
/-- `lax.rem` on floats: ONNX `Mod(fmod=1)` (sign of the dividend). -/
theorem rem_f32_correct (x y : ℚ) :
    recipe_rem_f32.eval .ideal [.q x, .q y] = .q (x - y * (Jax.f2i (x / y) : ℚ)) := by
  simp only [recipe_rem_f32]; recipe_simp; rfl
/-- float → int32 truncates toward zero (values whose truncation fits the target). -/
theorem cvt_f32_i32_correct (x : ℚ) : recipe_cvt_f32_i32.eval .ideal [.q x] = .i (Jax.f2i x) := by
  simp only [recipe_cvt_f32_i32]; recipe_simp; simp [DT.isInt, ratTrunc, Jax.f2i]
theorem cvt_f32_bool_correct (x : ℚ) : recipe_cvt_f32_bool.eval .ideal [.q x] = .b (Jax.toBoolQ x) := by
  simp only [recipe_cvt_f32_bool]; recipe_simp; simp [Jax.toBoolQ]

/-! ### tensor level: tie-breaking, scan direction, index handling -/

theorem argmax_i32_correct (l : List Int) : t_argmax_i32.evalArg l = Jax.argmax l := by
  simp [t_argmax_i32, TRecipe.evalArg, TNode.attr, List.find?]; exact argMax_first_eq l
theorem jnp_argmax_i32_correct (l : List Int) : t_jnp_argmax_i32.evalArg l = Jax.argmax l := by
  simp [t_jnp_argmax_i32, TRecipe.evalArg, TNode.attr, List.find?]; exact argMax_first_eq l
theorem argmin_i32_correct (l : List Int) : t_argmin_i32.evalArg l = Jax.argmin l := by
  simp [t_argmin_i32, TRecipe.evalArg, TNode.attr, List.find?]; exact argMin_first_eq l

theorem cumsum_i32_correct (l : List Int) : t_cumsum_i32.evalCum l = some (Jax.cumsum false l) := by
  simp [t_cumsum_i32, TRecipe.evalCum, TNode.attr, List.find?]; exact cumSum_eq false l
theorem jnp_cumsum_i32_correct (l : List Int) :
    t_jnp_cumsum_i32.evalCum l = some (Jax.cumsum false l) := by
  simp [t_jnp_cumsum_i32, TRecipe.evalCum, TNode.attr, List.find?]; exact cumSum_eq false l
theorem cumsum_rev_i32_correct (l : List Int) :
    t_cumsum_rev_i32.evalCum l = some (Jax.cumsum true l) := by
  simp [t_cumsum_rev_i32, TRecipe.evalCum, TNode.attr, List.find?]; exact cumSum_eq true l

/-- `jax.nn.one_hot(i, 5)`: agreement for every non-negative index (partial). -/
theorem one_hot_5_correct_partial (i : Int) (h : 0 ≤ i) :
    t_one_hot_5.evalOneHot i = some (Jax.oneHot 5 i) := by
  have hn : ¬ i < 0 := by omega
  simp [t_one_hot_5, TRecipe.evalOneHot, TNode.attr, List.find?, Onnx.oneHot, Jax.oneHot, hn]
/-- … and the refutation of the full statement: index −1. -/
theorem one_hot_5_refuted : t_one_hot_5.evalOneHot (-1) ≠ some (Jax.oneHot 5 (-1)) := by decide

end J2O.C01
