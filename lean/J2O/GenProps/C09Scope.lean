/-
C09 (round 2) — obligations about the tables regenerated from /repo on every run
(`J2O.Gen.C09Scope`): real child contexts, constants pushed through them, `const_i64`,
`ir_dtype_to_numpy`. Each is closed by kernel evaluation over the complete table.
-/
import J2O.Model.C09Scope
import J2O.Gen.C09Scope

namespace J2O.C09
open J2O.Gen.C09Scope

def kindOf : String → Option Child
  | "fn" => some .fnScope
  | "sub" => some .subgraph
  | "subkeep" => some .subgraphKeep
  | _ => none

def pathOf : List String → Option (List Child)
  | [] => some []
  | k :: ks =>
    match kindOf k, pathOf ks with
    | some c, some cs => some (c :: cs)
    | _, _ => none

/-- **The precision flag is inherited** by every real child context (builder and context), whatever
    the parent's mode — the fact `descend_flag` rests on. -/
theorem ctx_flag_inherited : ∀ r ∈ ctxTable, r.cbflag = r.pflag ∧ r.cflag = r.pflag := by
  decide +kernel

/-- The real constructions are exactly the model's `child` (function mode on in context and builder;
    keep-float32 reset by a function scope, inherited by a subgraph context). -/
theorem ctx_rows_match_child :
    ∀ r ∈ ctxTable,
      (kindOf r.kind).map (child ⟨r.pflag, r.pfm, r.pkeep⟩) = some ⟨r.cflag, r.cfm, r.ckeep⟩ ∧
        r.cbfm = r.cfm := by
  decide +kernel

/-- Chains of real constructions (depth ≤ 3, every kind) end where `descend` says. -/
theorem chain_rows_match_descend :
    ∀ r ∈ chainTable,
      (pathOf r.2.1).map (descend (rootCtx r.1)) = some ⟨r.2.2.1, r.2.2.2.1, r.2.2.2.2.1⟩ ∧
        r.2.2.2.2.2 = true := by
  decide +kernel

/-- Flag off at the root and no float64 handed in ⇒ no float64 payload, no double-precision type at
    any real location; helper scalars / arrays and static float keywords are immune even to float64. -/
theorem site_single_no_double :
    ∀ r ∈ siteTable, r.flag = false → r.aval ≠ 64 →
      (r.src ≠ 64 ∨ r.kind = "hscalar" ∨ r.kind = "harray" ∨ r.kind = "kw") →
      r.out ≠ 64 ∧ isDouble r.code = false := by
  decide +kernel

/-- Flag on, all-float64 context ⇒ stored values ARE the source values, stored dtype not narrower;
    closure constants, helper constants built in float64 and static keywords are float64 / DOUBLE. -/
theorem site_double_exact :
    ∀ r ∈ siteTable, r.flag = true → (r.aval = 0 ∨ r.aval = 64) → (r.kind ≠ "hbind" ∨ r.src = 64) →
      r.exact = true ∧ r.src ≤ r.out ∧
      (r.kind ≠ "hscalar" → r.out = 64 ∧ r.code = 11) := by
  decide +kernel

/-- Below the root every constant is a `Constant` node; at the root an initializer. -/
theorem site_container : ∀ r ∈ siteTable, r.node = !r.path.isEmpty := by
  decide +kernel

/-- `const_i64` is INT64 at every location under both flags. -/
theorem consti64_rows : ∀ r ∈ i64Table, r.2.2.1 = "int64" ∧ r.2.2.2.1 = 7 := by
  decide +kernel

def npName : Nat → Option String
  | 1 => some "float32"
  | 10 => some "float16"
  | 11 => some "float64"
  | _ => none

/-- A missing IR dtype yields exactly the caller's default (`None` stays `None`: the lowering then
    consults the JAX aval) … -/
theorem irnp_missing_is_default :
    ∀ r ∈ irnpTable, r.1 = "none" → r.2.2.1 ≠ "omitted" → r.2.2.2 = r.2.2.1 := by
  decide +kernel

/-- … and float element types (as `ir.DataType`, integer code or numpy dtype) map to the numpy dtype
    of the same width, whatever the default. -/
theorem irnp_float_roundtrip :
    ∀ r ∈ irnpTable, (r.1 = "ir" ∨ r.1 = "int" ∨ r.1 = "np") → ∀ n, npName r.2.1 = some n → r.2.2.2 = n := by
  decide +kernel

end J2O.C09
