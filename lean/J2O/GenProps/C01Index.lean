/-
C01 (round 2) — obligations about the DATAFLOW recipes regenerated from /repo (`J2O.Gen.C01Tensor`),
part 2: index handling (clamping, wrapping, negative indices) and sorting (tie order).
See `GenProps/C01Tensor.lean` for the reading of the statements.
-/
import J2O.Lemmas.C01Tensor
import J2O.Gen.C01Tensor
set_option linter.unusedSimpArgs false
set_option linter.unusedVariables false
set_option linter.unusedTactic false

namespace J2O.C01
open J2O.Gen.C01

/-! ### index handling: clamping, wrapping, negative indices -/

/-- `lax.dynamic_slice(x, (i,), (3,))` on extent 6 — PARTIAL: only for starts that need no clamping
    (`0 ≤ i ≤ 3`, or `-6 ≤ i ≤ -3` counted from the end).  Missing: the clamp of the start. -/
theorem dynamic_slice_3_correct_partial (l : List Int) (h : l.length = 6) (i : Int)
    (hi : (0 ≤ i ∧ i ≤ 3) ∨ (-6 ≤ i ∧ i ≤ -3)) :
    g_dynamic_slice_3.eval [Tn.vec l, Tn.vec [i]] = some [Tn.vec (Jax.dynamicSlice 3 l i)] := by
  match l, h with
  | [a, b, c, d, e, f], _ =>
    have : i = 0 ∨ i = 1 ∨ i = 2 ∨ i = 3 ∨ i = -6 ∨ i = -5 ∨ i = -4 ∨ i = -3 := by omega
    simp only [g_dynamic_slice_3]
    rcases this with rfl | rfl | rfl | rfl | rfl | rfl | rfl | rfl <;>
      grecipe_simp [Jax.dynamicSlice]

/-- … and the refutation of the full statement: start 5 (JAX clamps it to 3 and returns 3 elements,
    the exported `Slice` returns the single element that is left) and start −2. -/
theorem dynamic_slice_3_refuted :
    g_dynamic_slice_3.eval [Tn.vec [10, 11, 12, 13, 14, 15], Tn.vec [5]] = some [Tn.vec [15]] ∧
    Jax.dynamicSlice 3 [10, 11, 12, 13, 14, 15] 5 = [13, 14, 15] ∧
    g_dynamic_slice_3.eval [Tn.vec [10, 11, 12, 13, 14, 15], Tn.vec [-2]] = some [Tn.vec [14, 15]] ∧
    Jax.dynamicSlice 3 [10, 11, 12, 13, 14, 15] (-2) = [13, 14, 15] := by
  decide +kernel

/-- `jnp.take(x, idx, mode="clip")`, extent 6, four indices: every integer index. -/
theorem take_clip_i32_correct (l : List Int) (h : l.length = 6) (idx : List Int) (hk : idx.length = 4) :
    g_take_clip_i32.eval [Tn.vec l, Tn.vec idx] = some [Tn.vec (Jax.takeClip l idx)] := by
  match l, h, idx, hk with
  | [a, b, c, d, e, f], _, [i, j, k, m], _ =>
    simp only [g_take_clip_i32]
    grecipe_simp0 [Jax.takeClip]
    rw [gather1_ints _ _ (by
      intro x hx
      simp only [List.mem_cons, List.not_mem_nil, or_false] at hx
      simp only [List.length_cons, List.length_nil]
      rcases hx with rfl | rfl | rfl | rfl <;> (split_ifs <;> omega))]
    simp
    refine ⟨?_, ?_, ?_, ?_⟩ <;> (apply getD_congr; split_ifs <;> omega)

/-- `jnp.take(x, idx, mode="wrap")`: every integer index (Python modulo through truncated division). -/
theorem take_wrap_i32_correct (l : List Int) (h : l.length = 6) (idx : List Int) (hk : idx.length = 4) :
    g_take_wrap_i32.eval [Tn.vec l, Tn.vec idx] = some [Tn.vec (Jax.takeWrap l idx)] := by
  match l, h, idx, hk with
  | [a, b, c, d, e, f], _, [i, j, k, m], _ =>
    simp only [g_take_wrap_i32]
    grecipe_simp0 [Jax.takeWrap, tdiv_six]
    rw [gather1_ints _ _ (by
      intro x hx
      simp only [List.mem_cons, List.not_mem_nil, or_false] at hx
      simp only [List.length_cons, List.length_nil]
      rcases hx with rfl | rfl | rfl | rfl <;> (split_ifs <;> omega))]
    simp
    refine ⟨?_, ?_, ?_, ?_⟩ <;> (apply getD_congr; split_ifs <;> omega)

/-- `x[idx]` (negative indices count from the end) — PARTIAL: indices inside `[-6, 6)`.
    Missing: JAX clamps out-of-bounds indices, the exported `Gather` fails at run time. -/
theorem index_i32_correct_partial (l : List Int) (h : l.length = 6) (idx : List Int) (hk : idx.length = 4)
    (hb : ∀ i ∈ idx, -6 ≤ i ∧ i < 6) :
    g_index_i32.eval [Tn.vec l, Tn.vec idx] = some [Tn.vec (Jax.index l idx)] := by
  match l, h, idx, hk with
  | [a, b, c, d, e, f], _, [i, j, k, m], _ =>
    have hi := hb i (by simp)
    have hj := hb j (by simp)
    have hk' := hb k (by simp)
    have hm := hb m (by simp)
    simp only [g_index_i32]
    grecipe_simp0 [Jax.index]
    rw [gather1_ints _ _ (by
      intro x hx
      simp only [List.mem_cons, List.not_mem_nil, or_false] at hx
      simp only [List.length_cons, List.length_nil]
      rcases hx with rfl | rfl | rfl | rfl <;> (split_ifs <;> omega))]
    simp
    refine ⟨?_, ?_, ?_, ?_⟩ <;> (apply getD_congr; split_ifs <;> omega)

/-- … and the refutation of the full statement: index 6 (JAX: the last element; the model has no value —
    ONNX Runtime raises "indices element out of data bounds"). -/
theorem index_i32_refuted :
    g_index_i32.eval [Tn.vec [10, 11, 12, 13, 14, 15], Tn.vec [6, 0, 0, 0]] = none ∧
    Jax.index [10, 11, 12, 13, 14, 15] [6, 0, 0, 0] = [15, 10, 10, 10] := by
  decide +kernel

/-! ### sorting: tie order -/

/-- `lax.sort(x)` = the values of `TopK(k = 6, largest = 0)`. -/
theorem sort_i32_correct (l : List Int) (h : l.length = 6) :
    g_sort_i32.eval [Tn.vec l] = some [Tn.vec (Jax.sort l)] := by
  have ht := topk_all false 6 l (by omega)
  have hl : (Jax.sortPairs false l).length = 6 := by simp [Jax.sortPairs, length_sortBy, length_enumFrom, h]
  have hs : Jax.sort l = (Jax.sortPairs false l).map (·.1) := (map_fst_sortPairs 0 l).symm
  simp only [g_sort_i32]
  grecipe_simp [h, ht, hl, hs]

/-- `lax.top_k(x, 3)`: values and indices; equal values come out in index order (stable). -/
theorem top_k3_i32_correct (l : List Int) (h : l.length = 6) :
    g_top_k3_i32.eval [Tn.vec l] =
      some [Tn.vec ((Jax.topK 3 l).map (·.1)), Tn.vec ((Jax.topK 3 l).map fun p => (p.2 : Int))] := by
  have ht : Onnx.topk true 3 l = Jax.topK 3 l := by
    simp only [Onnx.topk, Jax.topK, Jax.sortPairs, sortBy_topk_eq_stable]
  have hl : (Jax.topK 3 l).length = 3 := by
    simp [Jax.topK, Jax.sortPairs, length_sortBy, length_enumFrom, h]
  simp only [g_top_k3_i32]
  grecipe_simp [h, ht, hl]

/-- `jnp.argsort(x)` (stable): `GatherElements(iota, TopK-indices)`. -/
theorem argsort_i32_correct (l : List Int) (h : l.length = 6) :
    g_argsort_i32.eval [Tn.vec l] = some [Tn.vec ((Jax.argsort l).map fun (n : Nat) => (n : Int))] := by
  have ht := topk_all false 6 l (by omega)
  have hl : (Jax.sortPairs false l).length = 6 := by simp [Jax.sortPairs, length_sortBy, length_enumFrom, h]
  have hg : Onnx.gather1 [0, 1, 2, 3, 4, 5] ((Jax.sortPairs false l).map fun p => (p.2 : Int)) =
      some ((Jax.sortPairs false l).map fun p => (p.2 : Int)) := by
    rw [gather1_ints _ _ (by
      intro x hx
      simp only [List.mem_map] at hx
      obtain ⟨q, hq, rfl⟩ := hx
      have := mem_sortPairs_lt false l q hq
      simp only [List.length_cons, List.length_nil]; omega)]
    simp only [List.map_map, Option.some.injEq]
    apply List.map_congr_left
    intro q hq
    have := mem_sortPairs_lt false l q hq
    have h6 : q.2 < 6 := by omega
    have hn : ¬ ((q.2 : Int) < 0) := by omega
    simp only [Function.comp, hn, if_false, Int.toNat_natCast]
    have : q.2 = 0 ∨ q.2 = 1 ∨ q.2 = 2 ∨ q.2 = 3 ∨ q.2 = 4 ∨ q.2 = 5 := by omega
    rcases this with e | e | e | e | e | e <;> simp [e]
  simp only [g_argsort_i32]
  grecipe_simp0 [h, ht, hl, hg, Onnx.range, Jax.argsort]

example : Jax.argsort [2, 1, 2, 1, 0, 2] = [4, 1, 3, 0, 2, 5] ∧
    (Jax.topK 3 [2, 1, 2, 1, 0, 2]).map (·.2) = [0, 2, 5] ∧ Jax.sort [2, 1, 2, 1, 0, 2] = [0, 1, 1, 2, 2, 2] := by
  decide

-- non-vacuity / sanity: concrete instances (kernel-evaluated on the regenerated recipes)
example : g_dynamic_slice_3.eval [Tn.vec [10, 11, 12, 13, 14, 15], Tn.vec [-4]] = some [Tn.vec [12, 13, 14]] ∧
    Jax.dynamicSlice 3 [10, 11, 12, 13, 14, 15] (-4) = [12, 13, 14] := by decide +kernel
example : g_take_clip_i32.eval [Tn.vec [10, 11, 12, 13, 14, 15], Tn.vec [-1, 7, 3, -9]] = some [Tn.vec [10, 15, 13, 10]] ∧
    g_take_wrap_i32.eval [Tn.vec [10, 11, 12, 13, 14, 15], Tn.vec [-1, 7, 3, -9]] = some [Tn.vec [15, 11, 13, 13]] ∧
    g_index_i32.eval [Tn.vec [10, 11, 12, 13, 14, 15], Tn.vec [-1, 5, 3, -6]] = some [Tn.vec [15, 15, 13, 10]] := by
  decide +kernel
example : g_argsort_i32.eval [Tn.vec [2, 1, 2, 1, 0, 2]] = some [Tn.vec [4, 1, 3, 0, 2, 5]] ∧
    g_top_k3_i32.eval [Tn.vec [2, 1, 2, 1, 0, 2]] = some [Tn.vec [2, 2, 2], Tn.vec [0, 2, 5]] ∧
    g_sort_i32.eval [Tn.vec [2, 1, 2, 1, 0, 2]] = some [Tn.vec [0, 1, 1, 2, 2, 2]] := by decide +kernel

end J2O.C01
