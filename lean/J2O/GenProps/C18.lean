/-
C18 — obligations about the tables regenerated on every run (`J2O.Gen.C18`):

* `promoTable`   numpy's `can_cast(…, "safe")` / `result_type` on all 14×14 pairs of the ONNX tensor dtypes
                 numpy knows  →  the model's `canCastSafe` / `resultKind` ARE numpy's rules on that table
* `operandTable` the dtypes of the two operands the LIVE `allclose` handed to numpy's comparison, and which
                 comparison it used, for every (expected dtype, model-output dtype) pair ONNX Runtime can
                 produce  →  the code's promotion decision is the model's `operandKinds` / tolerance-path rule

and the classification of the table rows used by Props/C18.lean:
`promoExactInt` rows (both integer/bool, the common dtype is an integer dtype) promote exactly
(`exact_rows_embed`); every other mixed row that reaches float64 from a 64-bit integer is listed as lossy.
-/
import J2O.Model.C18
import J2O.Gen.C18

namespace J2O.C18
open J2O.Gen.C18

def stdKinds : List Kind :=
  [.bool, .int true 8, .int true 16, .int true 32, .int true 64,
   .int false 8, .int false 16, .int false 32, .int false 64,
   .flt f16, .flt f32, .flt f64, .cplx f32, .cplx f64]

def kindOfCode (c : Nat) : Kind := stdKinds.getD c .bool

/-- the dtypes `_comparison_operands(expected, got)` brings (lhs, rhs) to -/
def operandKinds (ek gk : Kind) : Kind × Kind :=
  if gk = ek then (ek, gk)
  else if canCastSafe gk ek then (ek, ek)
  else (resultKind ek gk, resultKind ek gk)

/-- the table is complete: all 14 × 14 ordered pairs, in order -/
theorem promoTable_complete :
    promoTable.map (fun r => (r.1, r.2.1)) =
      (List.range 14).flatMap fun a => (List.range 14).map fun b => (a, b) := by decide +kernel

/-- **numpy's promotion rules are the model's** on the whole regenerated table -/
theorem promoTable_eq_model :
    ∀ r ∈ promoTable,
      canCastSafe (kindOfCode r.1) (kindOfCode r.2.1) = r.2.2.1 ∧
      resultKind (kindOfCode r.1) (kindOfCode r.2.1) = kindOfCode r.2.2.2 := by decide +kernel

def operandRowOk (r : Nat × Nat × Option (Nat × Nat × Bool)) : Bool :=
  match r.2.2 with
  | none => true
  | some o =>
    let ek := kindOfCode r.1
    let gk := kindOfCode r.2.1
    decide (operandKinds ek gk = (kindOfCode o.1, kindOfCode o.2.1)) &&
      (o.2.2 == (ek.isFloating || gk.isFloating))

/-- **the live code promotes as the model does**: for every observed (expected, got) dtype pair the operands
    numpy's comparison received have the model's `operandKinds`, and the tolerance comparison is used iff
    one side is floating/complex -/
theorem operandTable_eq_model : ∀ r ∈ operandTable, operandRowOk r = true := by decide +kernel

/-! ### classification of the rows -/

def Kind.isIntLike : Kind → Bool
  | .bool => true
  | .int _ _ => true
  | _ => false

/-- every value of dtype `a` is a value of dtype `b` and `astype` keeps it (integer/bool dtypes) -/
def embeds : Kind → Kind → Bool
  | .bool, .bool => true
  | .bool, .int _ b => decide (2 ≤ b)
  | .int s1 b1, .int s2 b2 =>
    if s1 = s2 then decide (b1 ≤ b2) else (!s1 && s2 && decide (b1 < b2))
  | _, _ => false

/-- rows whose promotion stays inside the integers -/
def promoExactInt (ek gk : Kind) : Bool :=
  ek.isIntLike && gk.isIntLike && (operandKinds ek gk).1.isIntLike

/-- on every `promoExactInt` row of the table both operands embed into the dtype they are brought to -/
theorem exact_rows_embed :
    ∀ ek ∈ stdKinds, ∀ gk ∈ stdKinds, promoExactInt ek gk = true →
      embeds ek (operandKinds ek gk).1 = true ∧ embeds gk (operandKinds ek gk).2 = true := by
  decide +kernel

/-- the integer rows that are NOT exact are exactly uint64 against a signed integer (→ float64) -/
theorem inexact_int_rows :
    ∀ ek ∈ stdKinds, ∀ gk ∈ stdKinds, ek.isIntLike = true → gk.isIntLike = true →
      (promoExactInt ek gk = false ↔
        ((ek = .int false 64 ∧ ∃ b, gk = .int true b) ∨ (gk = .int false 64 ∧ ∃ b, ek = .int true b))) := by
  intro ek hek gk hgk
  simp only [stdKinds, List.mem_cons, List.mem_nil_iff, or_false] at hek hgk
  rcases hek with rfl | rfl | rfl | rfl | rfl | rfl | rfl | rfl | rfl | rfl | rfl | rfl | rfl | rfl <;>
  rcases hgk with rfl | rfl | rfl | rfl | rfl | rfl | rfl | rfl | rfl | rfl | rfl | rfl | rfl | rfl <;>
  simp [Kind.isIntLike, promoExactInt, operandKinds, canCastSafe, resultKind]

/-- rows on which a 64-bit integer is brought to float64 (or complex128): numpy's promotion rounds above 2⁵³ -/
def promoLossy64 (ek gk : Kind) : Bool :=
  let c := (operandKinds ek gk).1
  (c = .flt f64 || c = .cplx f64) &&
    ((ek = .int true 64 || ek = .int false 64) || (gk = .int true 64 || gk = .int false 64))

/-- how many of the 196 rows are of which class (information, kernel-evaluated on the live table) -/

theorem row_classes :
    ((stdKinds.flatMap fun e => stdKinds.map fun g => (e, g)).filter fun p => promoExactInt p.1 p.2).length = 73 ∧
    ((stdKinds.flatMap fun e => stdKinds.map fun g => (e, g)).filter fun p => promoLossy64 p.1 p.2).length = 28 := by
  decide +kernel

end J2O.C18
