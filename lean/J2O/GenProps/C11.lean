/-
C11 — obligations about the tables regenerated on every run (`J2O.Gen.C11`):
`schemas` (installed onnx.defs), the forms emitted by the LIVE `builder_reduce_with_axes` and
`rewrite_mul_sigmoid_as_swish_ir` for every opset 13..max, and the distinct node forms of the gate
programs exported by the live `to_onnx` at every opset 21..max.  All closed by kernel evaluation.
-/
import J2O.Model.C11
import J2O.Gen.C11

namespace J2O.C11
open J2O.MT J2O.Gen.C11

/-- a node with `nIn` inputs, `nOut` outputs and the given attribute names -/
def formNode (op : String) (nIn nOut : Nat) (attrs : List String) : Node :=
  .mk "" op (List.replicate nIn "x") (List.replicate nOut "y") attrs []

def formLegal (v : Nat) (f : String × Nat × Nat × List String) : Bool :=
  nodeLegalB schemas v (formNode f.1 f.2.1 f.2.2.1 f.2.2.2)

/-- opsets carrying the claim: 21 .. newest defined by the installed onnx -/
def claimedOpsets : List Nat := List.range' 21 (maxOpset - 20)

/-- **Reduce gate.** For EVERY opset 21..max and every reduction operator of
    `_REDUCTION_AXES_INPUT_SINCE`, the node the live `builder_reduce_with_axes` emits (explicit axes:
    attribute or second input, and the axes-free form) is legal at that opset. -/
theorem reduce_gate_legal :
    ∀ e ∈ reduceForms, 21 ≤ e.1 → formLegal e.1 e.2 = true := by decide +kernel

/-- the table really contains a row for every claimed opset and every operator of the gate table -/
theorem reduce_gate_complete :
    ∀ v ∈ claimedOpsets, ∀ op ∈ reduceAxesSince.map (·.1),
      (reduceForms.any fun e => e.1 == v && e.2.1 == op && e.2.2.1 == 2
          || e.1 == v && e.2.1 == op && e.2.2.2.2.contains "axes") = true := by decide +kernel

/-- **Swish gate.** For EVERY opset 21..max the nodes left by the live
    `rewrite_mul_sigmoid_as_swish_ir` on `x * Sigmoid(x)` are legal at that opset. -/
theorem swish_gate_legal :
    ∀ e ∈ swishForms, 21 ≤ e.1 → e.2.all (formLegal e.1) = true := by decide +kernel

theorem swish_gate_complete :
    ∀ v ∈ claimedOpsets, (swishForms.any fun e => e.1 == v) = true := by decide +kernel

/-- **Gate programs.** Every distinct node form (any depth, function bodies included) of the gate
    programs exported by the live `to_onnx` at every opset 21..max is legal at that opset. This is the
    `_partial` form of "every emitted operator is legal": it covers the catalogue `gatePrograms`
    (opset-gated lowerings: reductions, silu/swish, rms_norm, dynamic_update_slice, reduce_window, …),
    NOT all ~600 plugins – those are checked per export by the proven checker. -/
theorem gate_programs_legal_partial :
    ∀ e ∈ gateForms, formLegal e.1 e.2 = true := by decide +kernel

theorem gate_programs_complete :
    ∀ v ∈ claimedOpsets, ∀ p ∈ gatePrograms, (gateExports.contains (p, v)) = true := by decide +kernel

/-! The full-strength statement "every operator a plugin emits exists at the declared opset" is
    REFUTED on the unchanged tree by `lax.cumprod` / `jnp.cumprod` (CumProd) and
    `lax.bitcast_convert_type` (BitCast); the witnesses, against the installed onnx.defs: -/

def cumProdNode : Node := formNode "CumProd" 2 1 ["exclusive", "reverse"]
def bitCastNode : Node := formNode "BitCast" 1 1 ["to"]

theorem cumprod_illegal_before_26 :
    ∀ v ∈ [21, 22, 23, 24, 25], nodeLegalB schemas v cumProdNode = false := by decide +kernel
theorem bitcast_illegal_before_26 :
    ∀ v ∈ [21, 22, 23, 24, 25], nodeLegalB schemas v bitCastNode = false := by decide +kernel
theorem cumprod_bitcast_legal_at_26 :
    nodeLegalB schemas 26 cumProdNode = true ∧ nodeLegalB schemas 26 bitCastNode = true := by
  decide +kernel

/-- the full statement fails: a model consisting of the node `lax.cumprod` emits, stamped opset 23 -/
theorem every_emitted_operator_legal_refuted :
    ¬ (∀ v ∈ claimedOpsets, ∀ n ∈ [cumProdNode, bitCastNode],
        opsetLegal schemas { imports := [("", v)], graph := .mk ["x"] [] [n] ["y"] [], funcs := [] } = true) := by
  decide +kernel

end J2O.C11
