/-
C11 — obligations about the tables regenerated on every run (`J2O.Gen.C11`):
`schemas` (installed onnx.defs), the forms emitted by the LIVE `builder_reduce_with_axes` and
`rewrite_mul_sigmoid_as_swish_ir` for every opset 13..max, and the distinct node forms of the gate
programs exported by the live `to_onnx` at every opset 21..max.  All closed by kernel evaluation.
-/
import J2O.Model.C11
import J2O.Gen.C11

namespace J2O.C11
open J2O.MT J2O.Gen.C11

/-- a node with `nIn` inputs, `nOut` outputs and the given attribute names -/
def formNode (op : String) (nIn nOut : Nat) (attrs : List String) : Node :=
  .mk "" op (List.replicate nIn "x") (List.replicate nOut "y") attrs []

def formLegal (v : Nat) (f : String × Nat × Nat × List String) : Bool :=
  nodeLegalB schemas v (formNode f.1 f.2.1 f.2.2.1 f.2.2.2)

/-- inputs `x0, x1, …` with the declared dtype codes `dts` (0 = not declared) -/
def typedIns (dts : List Nat) : List String := (List.range dts.length).map (fun k => "x" ++ toString k)

def typedVis (dts : List Nat) : List (String × Annot) :=
  ((List.range dts.length).zip dts).filterMap
    (fun p => if p.2 = 0 then none else some ("x" ++ toString p.1, (⟨some p.2, none⟩ : Annot)))

def typedOuts (dts : List Nat) : List String := (List.range dts.length).map (fun k => "y" ++ toString k)

def typedVisOut (dts : List Nat) : List (String × Annot) :=
  ((List.range dts.length).zip dts).filterMap
    (fun p => if p.2 = 0 then none else some ("y" ++ toString p.1, (⟨some p.2, none⟩ : Annot)))

/-- typed form `(op, #in, #out, attributes as name:AttributeType, input dtypes, output dtypes)`: operator, arity,
    attribute names legal AND attribute types, required attributes, declared input / output element types and
    type variables admitted by the signature in force -/
def tformLegal (v : Nat) (f : String × Nat × Nat × List String × List Nat × List Nat) : Bool :=
  let n : Node := .mk "" f.1 (typedIns f.2.2.2.2.1) (typedOuts f.2.2.2.2.2) f.2.2.2.1 []
  decide (f.2.1 = f.2.2.2.2.1.length) && decide (f.2.2.1 = f.2.2.2.2.2.length) && nodeLegalB schemas v n
    && nodeTypedB schemas v (typedVis f.2.2.2.2.1 ++ typedVisOut f.2.2.2.2.2) n

/-- opsets carrying the claim: 21 .. newest defined by the installed onnx -/
def claimedOpsets : List Nat := List.range' 21 (maxOpset - 20)

/-! The typed tables are grouped by operator (`op ↦ rows (opset, #in, #out, attributes, input dtypes, output
    dtypes)`), so that the kernel looks an operator up in the 200-operator table ONCE per group. -/

abbrev Row := Nat × Nat × Nat × List String × List Nat × List Nat

def rowNode (op : String) (r : Row) : Node :=
  .mk "" op (typedIns r.2.2.2.2.1) (typedOuts r.2.2.2.2.2) r.2.2.2.1 []

def rowVis (r : Row) : List (String × Annot) := typedVis r.2.2.2.2.1 ++ typedVisOut r.2.2.2.2.2

/-- `tformLegal` with the operator's version list already looked up -/
def rowLegalWith (sigs : List Sig) (op : String) (r : Row) : Bool :=
  match sigAt sigs r.1 with
  | none => false
  | some s => decide (r.2.1 = r.2.2.2.2.1.length) && decide (r.2.2.1 = r.2.2.2.2.2.length)
      && sigAdmits s (rowNode op r) && sigTyped s (rowVis r) (rowNode op r)

def groupLegal (g : String × List Row) : Bool :=
  match lookupOp schemas g.1 with
  | none => false
  | some sigs => g.2.all (rowLegalWith sigs g.1)

theorem tformLegal_of_rowLegalWith (op : String) (sigs : List Sig) (r : Row)
    (hl : lookupOp schemas op = some sigs) (h : rowLegalWith sigs op r = true) :
    tformLegal r.1 (op, r.2) = true := by
  unfold rowLegalWith at h
  split at h
  · cases h
  · rename_i s hs
    simp only [Bool.and_eq_true] at h
    obtain ⟨⟨⟨h1, h2⟩, h3⟩, h4⟩ := h
    have e1 : nodeLegalB schemas r.1 (rowNode op r) = true := by
      simp only [nodeLegalB, rowNode, Node.op, hl, hs]; exact h3
    have e2 : nodeTypedB schemas r.1 (rowVis r) (rowNode op r) = true := by
      have hd : ((rowNode op r).domain != "") = false := by simp [rowNode, Node.domain]
      simp only [nodeTypedB, hd, Bool.false_eq_true, if_false]
      simp only [rowNode, Node.op, hl, hs]; exact h4
    simp only [tformLegal, Bool.and_eq_true]
    exact ⟨⟨⟨h1, h2⟩, e1⟩, e2⟩

theorem groupLegal_sound (g : String × List Row) (h : groupLegal g = true) :
    ∀ r ∈ g.2, tformLegal r.1 (g.1, r.2) = true := by
  unfold groupLegal at h
  split at h
  · cases h
  · rename_i sigs hl
    intro r hr
    exact tformLegal_of_rowLegalWith g.1 sigs r hl (List.all_eq_true.mp h r hr)

/-! The full-strength statement "every operator a plugin emits exists at the declared opset" is
    REFUTED on the unchanged tree by `lax.cumprod` / `jnp.cumprod` (CumProd) and
    `lax.bitcast_convert_type` (BitCast); the witnesses, against the installed onnx.defs: -/

def cumProdNode : Node := formNode "CumProd" 2 1 ["exclusive", "reverse"]
def bitCastNode : Node := formNode "BitCast" 1 1 ["to"]

theorem cumprod_illegal_before_26 :
    ∀ v ∈ [21, 22, 23, 24, 25], nodeLegalB schemas v cumProdNode = false := by decide +kernel
theorem bitcast_illegal_before_26 :
    ∀ v ∈ [21, 22, 23, 24, 25], nodeLegalB schemas v bitCastNode = false := by decide +kernel
theorem cumprod_bitcast_legal_at_26 :
    nodeLegalB schemas 26 cumProdNode = true ∧ nodeLegalB schemas 26 bitCastNode = true := by
  decide +kernel

/-- half-precision `Range` operands are admitted by the installed onnx only from opset 27 on (the gate
    of `lax.iota` / `jnp.arange` must therefore not be below 27) -/
theorem range_half_floats_since_27 :
    ∀ d ∈ [10, 16], (∀ v ∈ [21, 22, 23, 24, 25, 26],
        tformLegal v ("Range", 3, 1, [], [d, d, d], [d]) = false) ∧ tformLegal 27 ("Range", 3, 1, [], [d, d, d], [d]) = true := by
  decide +kernel

/-! attribute types / required attributes / output types against the INSTALLED onnx.defs (hand-written node
    forms, every claimed opset) -/

/-- `Cast` needs its `to` (an INT attribute); a FLOAT `to`, a missing `to`, and a `Relu` whose declared output
    element type differs from its input's are rejected at every claimed opset; the well-formed ones accepted -/
theorem attr_and_output_types_enforced :
    ∀ v ∈ claimedOpsets,
      tformLegal v ("Cast", 1, 1, ["to:2"], [1], [7]) = true ∧
      tformLegal v ("Cast", 1, 1, ["to:1"], [1], [7]) = false ∧
      tformLegal v ("Cast", 1, 1, [], [1], [7]) = false ∧
      tformLegal v ("Relu", 1, 1, [], [10], [10]) = true ∧
      tformLegal v ("Relu", 1, 1, [], [10], [1]) = false ∧
      tformLegal v ("Transpose", 1, 1, ["perm:7"], [1], [1]) = true ∧
      tformLegal v ("Transpose", 1, 1, ["perm:2"], [1], [1]) = false := by decide +kernel

/-- the full statement fails: a model consisting of the node `lax.cumprod` emits, stamped opset 23 -/
theorem every_emitted_operator_legal_refuted :
    ¬ (∀ v ∈ claimedOpsets, ∀ n ∈ [cumProdNode, bitCastNode],
        opsetLegal schemas { imports := [("", v)], graph := .mk ["x"] [] [n] ["y"] [], funcs := [] } = true) := by
  decide +kernel

end J2O.C11
