/-
C11 — obligations about the tables regenerated on every run (`J2O.Gen.C11`):
`schemas` (installed onnx.defs), the forms emitted by the LIVE `builder_reduce_with_axes` and
`rewrite_mul_sigmoid_as_swish_ir` for every opset 13..max, and the distinct node forms of the gate
programs exported by the live `to_onnx` at every opset 21..max.  All closed by kernel evaluation.
-/
import J2O.Model.C11
import J2O.Gen.C11

namespace J2O.C11
open J2O.MT J2O.Gen.C11

/-- a node with `nIn` inputs, `nOut` outputs and the given attribute names -/
def formNode (op : String) (nIn nOut : Nat) (attrs : List String) : Node :=
  .mk "" op (List.replicate nIn "x") (List.replicate nOut "y") attrs []

def formLegal (v : Nat) (f : String × Nat × Nat × List String) : Bool :=
  nodeLegalB schemas v (formNode f.1 f.2.1 f.2.2.1 f.2.2.2)

/-- inputs `x0, x1, …` with the declared dtype codes `dts` (0 = not declared) -/
def typedIns (dts : List Nat) : List String := (List.range dts.length).map (fun k => "x" ++ toString k)

def typedVis (dts : List Nat) : List (String × Annot) :=
  ((List.range dts.length).zip dts).filterMap
    (fun p => if p.2 = 0 then none else some ("x" ++ toString p.1, (⟨some p.2, none⟩ : Annot)))

/-- typed form: operator, arity, attribute names legal AND the declared input element types admitted -/
def tformLegal (v : Nat) (f : String × Nat × Nat × List String × List Nat) : Bool :=
  let n : Node := .mk "" f.1 (typedIns f.2.2.2.2) (List.replicate f.2.2.1 "y") f.2.2.2.1 []
  decide (f.2.1 = f.2.2.2.2.length) && nodeLegalB schemas v n && nodeTypedB schemas v (typedVis f.2.2.2.2) n

/-- opsets carrying the claim: 21 .. newest defined by the installed onnx -/
def claimedOpsets : List Nat := List.range' 21 (maxOpset - 20)

/-- **Reduce gate.** For EVERY opset 21..max and every reduction operator of
    `_REDUCTION_AXES_INPUT_SINCE`, the node the live `builder_reduce_with_axes` emits (explicit axes:
    attribute or second input, and the axes-free form) is legal at that opset. -/
theorem reduce_gate_legal :
    ∀ e ∈ reduceForms, 21 ≤ e.1 → formLegal e.1 e.2 = true := by decide +kernel

/-- the table really contains a row for every claimed opset and every operator of the gate table -/
theorem reduce_gate_complete :
    ∀ v ∈ claimedOpsets, ∀ op ∈ reduceAxesSince.map (·.1),
      (reduceForms.any fun e => e.1 == v && e.2.1 == op && e.2.2.1 == 2
          || e.1 == v && e.2.1 == op && e.2.2.2.2.contains "axes") = true := by decide +kernel

/-- **Swish gate.** For EVERY opset 21..max the nodes left by the live
    `rewrite_mul_sigmoid_as_swish_ir` on `x * Sigmoid(x)` are legal at that opset. -/
theorem swish_gate_legal :
    ∀ e ∈ swishForms, 21 ≤ e.1 → e.2.all (formLegal e.1) = true := by decide +kernel

theorem swish_gate_complete :
    ∀ v ∈ claimedOpsets, (swishForms.any fun e => e.1 == v) = true := by decide +kernel

/-- **Gate programs.** Every distinct node form (any depth, function bodies included; with the declared
    element type of every input) of the gate programs exported by the live `to_onnx` at every opset
    21..max is legal at that opset: operator version, arity, attribute names AND input element types
    against the type constraints of the signature in force. This is the
    `_partial` form of "every emitted operator is legal": it covers the catalogue `gatePrograms`
    (opset-gated lowerings: reductions, silu/swish, rms_norm, dynamic_update_slice, reduce_window, …),
    NOT all ~600 plugins – those are checked per export by the proven checker. -/
theorem gate_programs_legal_partial :
    ∀ e ∈ gateForms, tformLegal e.1 e.2 = true := by decide +kernel

theorem gate_programs_complete :
    ∀ v ∈ claimedOpsets, ∀ p ∈ gatePrograms, (gateExports.contains (p, v)) = true := by decide +kernel

/-! The full-strength statement "every operator a plugin emits exists at the declared opset" is
    REFUTED on the unchanged tree by `lax.cumprod` / `jnp.cumprod` (CumProd) and
    `lax.bitcast_convert_type` (BitCast); the witnesses, against the installed onnx.defs: -/

def cumProdNode : Node := formNode "CumProd" 2 1 ["exclusive", "reverse"]
def bitCastNode : Node := formNode "BitCast" 1 1 ["to"]

theorem cumprod_illegal_before_26 :
    ∀ v ∈ [21, 22, 23, 24, 25], nodeLegalB schemas v cumProdNode = false := by decide +kernel
theorem bitcast_illegal_before_26 :
    ∀ v ∈ [21, 22, 23, 24, 25], nodeLegalB schemas v bitCastNode = false := by decide +kernel
theorem cumprod_bitcast_legal_at_26 :
    nodeLegalB schemas 26 cumProdNode = true ∧ nodeLegalB schemas 26 bitCastNode = true := by
  decide +kernel

/-- half-precision `Range` operands are admitted by the installed onnx only from opset 27 on (the gate
    of `lax.iota` / `jnp.arange` must therefore not be below 27) -/
theorem range_half_floats_since_27 :
    ∀ d ∈ [10, 16], (∀ v ∈ [21, 22, 23, 24, 25, 26],
        tformLegal v ("Range", 3, 1, [], [d, d, d]) = false) ∧ tformLegal 27 ("Range", 3, 1, [], [d, d, d]) = true := by
  decide +kernel

/-- the full statement fails: a model consisting of the node `lax.cumprod` emits, stamped opset 23 -/
theorem every_emitted_operator_legal_refuted :
    ¬ (∀ v ∈ claimedOpsets, ∀ n ∈ [cumProdNode, bitCastNode],
        opsetLegal schemas { imports := [("", v)], graph := .mk ["x"] [] [n] ["y"] [], funcs := [] } = true) := by
  decide +kernel

end J2O.C11
