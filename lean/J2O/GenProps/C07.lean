/-
C07 — obligations about the GENERATED table `Gen/C07.lean` (regenerated from the live jax2onnx on
every run by harness/props/c07.py).

* `live_key_fields_known`      the dataclass fields of the live `FunctionKey` are exactly the fields
                               the model covers (`knownKeyFields`, `keyField`, `encKey`): a field the
                               model does not know — or one that disappeared — breaks this
* `live_response_separates`    for every cover program whose two call sites differ in a component
                               that changes the callee's function, SOME live key field differs
* `live_response_in_model_field`  … and the field that `fieldOfComponent` names for this component
                               (the `component_in_field_*` theorems) is among them
-/
import J2O.Gen.C07
import J2O.Model.C07Key

namespace J2O.C07

theorem live_key_fields_known : Gen.liveKeyFields = knownKeyFields := by decide

theorem live_response_separates :
    ∀ r ∈ Gen.liveResponse, mustSeparate r.1 = true → r.2.2.2 ≠ [] := by decide

theorem live_response_in_model_field :
    ∀ r ∈ Gen.liveResponse, mustSeparate r.1 = true →
      ∀ f, fieldOfComponent r.1 = some f → f ∈ r.2.2.2 ∨ r.2.2.2 = ["<no-export>"] := by
  intro r hr hm f hf
  have key : ∀ r ∈ Gen.liveResponse, mustSeparate r.1 = true →
      (match fieldOfComponent r.1 with
        | some f => decide (f ∈ r.2.2.2) || decide (r.2.2.2 = ["<no-export>"])
        | none => true) = true := by decide
  have := key r hr hm
  rw [hf] at this
  simpa using this

-- non-vacuity: the table is not empty and contains a dtype row and a symbol row
example : Gen.liveResponse ≠ [] := by decide
example : ∃ r ∈ Gen.liveResponse, r.1 = "dtype" ∧ mustSeparate r.1 = true := by decide
example : ∃ r ∈ Gen.liveResponse, r.1 = "symbol" ∧ mustSeparate r.1 = true := by decide

end J2O.C07
