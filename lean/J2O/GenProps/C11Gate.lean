/-
C11 — gate programs (obligations about the tables regenerated on every run; split from GenProps/C11.lean so that Lake
checks the kernel evaluations in parallel).
-/
import J2O.GenProps.C11

namespace J2O.C11
open J2O.MT J2O.Gen.C11

/-- **Gate programs.** Every distinct node form (any depth, function bodies included; attributes with their
    types, the declared element type of every input and output) of the gate programs exported by the live
    `to_onnx` at every opset 21..max is legal at that opset: operator version, arity, attribute names AND attribute
    types, required attributes, input / output element types against the type constraints of the signature in
    force. This is the `_partial` form of "every emitted operator is legal": it covers the catalogue `gatePrograms`
    (opset-gated lowerings: reductions, silu/swish, rms_norm, dynamic_update_slice, reduce_window, …),
    NOT all ~600 plugins – those are checked per export by the proven checker. -/
theorem gate_programs_legal_partial :
    ∀ g ∈ gateForms, ∀ r ∈ g.2, tformLegal r.1 (g.1, r.2) = true := by
  have h : gateForms.all groupLegal = true := by decide +kernel
  intro g hg
  exact groupLegal_sound g (List.all_eq_true.mp h g hg)

/-- every program of `gatePrograms` was exported at EVERY claimed opset (`gatePrograms` is exactly the list of
    catalogue programs with that property; one string comparison per program for the kernel) -/
theorem gate_programs_complete :
    ∀ p ∈ gatePrograms, ∃ e ∈ gateExports, e.1 = p ∧ ∀ v ∈ claimedOpsets, v ∈ e.2 := by
  have h : gatePrograms = (gateExports.filter fun e => claimedOpsets.all (e.2.contains ·)).map (·.1) := by
    decide +kernel
  intro p hp
  rw [h] at hp
  obtain ⟨e, he, rfl⟩ := List.mem_map.mp hp
  have hf := List.mem_filter.mp he
  exact ⟨e, hf.1, rfl, fun v hv => List.contains_iff_mem.mp (List.all_eq_true.mp hf.2 v hv)⟩

end J2O.C11
