/-
C17 — obligations about the tables regenerated from /repo on every run (`J2O.Gen.C17`).
Each states an *inclusion of the code's behaviour in the proven reference*; all are closed by
kernel evaluation over the complete finite table.
-/
import J2O.Model.C17
import J2O.Gen.C17

namespace J2O.C17
open J2O.Gen.C17

/-- Operators through which integer value bounds may be propagated: every output element is
    an element of input 0 (validated against ONNX Runtime by the harness). -/
def refShapeOnlyOps : List String :=
  ["Expand", "Flatten", "Identity", "Reshape", "Squeeze", "Transpose", "Unsqueeze"]

/-- Every (source, intermediate) pair accepted by the real `_cast_roundtrip_is_value_preserving`
    (tabulated on all codes 0..31 × 0..31, invalid codes included) is an identity pair or is
    accepted by the reference decision. -/
theorem castTable_le_ref :
    ∀ e ∈ castTable, e.2.2 = true → (e.1 = e.2.1 ∨ castOk (kindOf e.1) (kindOf e.2.1) = true) := by
  decide +kernel

/-- Whenever the real `remove_redundant_casts_ir` removed the pair `Cast(s→m); Cast(m→s)` from
    the two-node probe graph, the pair is an identity pair or accepted by the reference. -/
theorem foldTable_le_ref :
    ∀ e ∈ foldTable, e.2.2 = true → (e.1 = e.2.1 ∨ castOk (kindOf e.1) (kindOf e.2.1) = true) := by
  decide +kernel

/-- Row check: a claimed interval lies inside the interval of the type. -/
def boundsRowOk (e : Nat × Option (Int × Int)) : Bool :=
  match e.2 with
  | none => true
  | some b =>
    match kindBounds (kindOf e.1) with
    | none => false
    | some r => decide (r.1 ≤ b.1) && decide (b.2 ≤ r.2)

/-- The real `_integer_dtype_bounds` never claims a wider interval than the type has. -/
theorem boundsTable_le_ref : ∀ e ∈ boundsTable, boundsRowOk e = true := by decide +kernel

theorem shapeOnlyOps_le_ref : ∀ o ∈ shapeOnlyOps, o ∈ refShapeOnlyOps := by decide +kernel

end J2O.C17
