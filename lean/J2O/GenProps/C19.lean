/-
C19 — obligations about the signature pairs regenerated from the live plugin registry on every
run (`J2O.Gen.C19`).  All are closed by kernel evaluation over the complete table, then combined
with the universally quantified theorems of `J2O.Props.C19`.
-/
import J2O.Props.C19
import J2O.Gen.C19

namespace J2O.C19
open J2O.Gen.C19

/-- Every extracted signature is well formed in the sense `inspect.Signature` enforces (kinds in
    order, no required positional after an optional one, distinct names): the extraction did not
    mangle anything. -/
theorem gen_sigs_wf : ∀ e ∈ pairs, Sig.wf e.orig = true ∧ Sig.wf e.subst = true := by
  decide +kernel

/-- The extractor's flag is exactly the verdict of the proven search. -/
theorem gen_flags_exact : ∀ e ∈ pairs, (findUncovered e.orig e.subst).isSome = e.flagged := by
  decide +kernel

/-- **Coverage of every unflagged pair, for all call forms**: whatever call the installed
    library function accepts, its tracing-time substitute accepts. -/
theorem gen_unflagged_covered :
    ∀ e ∈ pairs, e.flagged = false →
      ∀ c : Call Nat, binds e.orig c = true → binds e.subst c = true := by
  intro e he hf
  have h := gen_flags_exact e he
  rw [hf] at h
  apply findUncovered_none
  cases hc : findUncovered e.orig e.subst with
  | none => rfl
  | some c => rw [hc] at h; simp at h

/-- Every flagged pair has a genuine uncovered call form (these go to the search on the real
    code; on the unchanged tree they are the listed known findings). -/
theorem gen_flagged_witness :
    ∀ e ∈ pairs, e.flagged = true →
      ∃ c : Call Nat, binds e.orig c = true ∧ binds e.subst c = false := by
  intro e he hf
  have h := gen_flags_exact e he
  rw [hf] at h
  cases hc : findUncovered e.orig e.subst with
  | none => rw [hc] at h; simp at h
  | some c => exact ⟨c, findUncovered_some _ _ c hc⟩

end J2O.C19
