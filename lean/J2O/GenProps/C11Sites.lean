/-
C11 — gate sites (obligations about the tables regenerated on every run; split from GenProps/C11.lean so that Lake
checks the kernel evaluations in parallel).
-/
import J2O.GenProps.C11

namespace J2O.C11
open J2O.MT J2O.Gen.C11

/-- **Gate sites.** Every plugin module of the live tree whose source compares the opset with a literal (or calls
    the shared reduce gate) is exercised through its own plugin testcases at EVERY opset 21..max; every distinct
    typed node form (any depth) of those exports is legal at the opset it was exported for: the operator form each
    gate chooses at each opset exists at that opset, with admitted attribute types, required attributes and
    input / output element types. `_partial`: per site one or two testcases, not every configuration of the plugin. -/
theorem gate_sites_legal_partial :
    ∀ g ∈ siteForms, ∀ r ∈ g.2, tformLegal r.1 (g.1, r.2) = true := by
  have h : siteForms.all groupLegal = true := by decide +kernel
  intro g hg
  exact groupLegal_sound g (List.all_eq_true.mp h g hg)

/-- every gate site was run at every claimed opset: it exported (and its forms are in `siteForms`) or it raised
    (the explicit error the property allows) -/
theorem gate_sites_complete :
    ∀ p ∈ gateSites, ∃ e ∈ siteRuns, e.1 = p ∧ ∀ v ∈ claimedOpsets, v ∈ e.2.1 ∨ v ∈ e.2.2 := by
  have h : gateSites = (siteRuns.filter fun e => claimedOpsets.all
      (fun v => e.2.1.contains v || e.2.2.contains v)).map (·.1) := by decide +kernel
  intro p hp
  rw [h] at hp
  obtain ⟨e, he, rfl⟩ := List.mem_map.mp hp
  have hf := List.mem_filter.mp he
  refine ⟨e, hf.1, rfl, fun v hv => ?_⟩
  have := List.all_eq_true.mp hf.2 v hv
  simp only [Bool.or_eq_true] at this
  exact this.imp List.contains_iff_mem.mp List.contains_iff_mem.mp

end J2O.C11
