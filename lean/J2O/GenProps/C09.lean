/-
C09 — obligations about the tables regenerated from /repo on every run (`J2O.Gen.C09`).
All are property-directed and one-sided where the property is one-sided (making the code more
conservative keeps them true); each is closed by kernel evaluation over the complete table.
-/
import J2O.Model.C09
import J2O.Gen.C09

namespace J2O.C09
open J2O.Gen.C09

/-! ### the dtype policy -/

def polLookup (name : String) (flag : Bool) : Option Nat :=
  match policyTable.find? (fun r => r.1 == name && r.2.2.1 == flag) with
  | some r => r.2.2.2
  | none => none

def fkName : Option FK → String
  | none => "None"
  | some .f16 => "float16"
  | some .f32 => "float32"
  | some .f64 => "float64"

/-- The live policy function, restricted to what the converter's own paths ask for. -/
def genP : Policy := ⟨fun k flag => (polLookup (fkName k) flag).getD 0⟩

/-- The table is a function of (dtype name, flag): different spellings of one dtype agree. -/
theorem policy_functional :
    ∀ r1 ∈ policyTable, ∀ r2 ∈ policyTable,
      (r1.1 == r2.1 && r1.2.2.1 == r2.2.2.1) = true → r1.2.2.2 = r2.2.2.2 := by
  decide +kernel

/-- The rows the theorems lean on exist for both flags and are not errors. -/
theorem policy_core_rows_present :
    ∀ n ∈ ["None", "float16", "float32", "float64"], ∀ b ∈ [false, true],
      (polLookup n b).isSome = true := by
  decide +kernel

/-- **The regenerated policy satisfies `Policy.ok`**, so `single_no_double`,
    `double_no_f32_detour`, … of `J2O.Props.C09` hold for the code's own policy. -/
theorem genP_ok : genP.ok := by
  constructor
  · intro k
    cases k with
    | none => decide +kernel
    | some f => cases f <;> decide +kernel
  all_goals decide +kernel

def optIsDouble : Option Nat → Bool
  | some c => isDouble c
  | none => false

/-- `single_never_double`, stated exactly as the table shows: with the flag off a
    double-precision element type comes out only for float64 and complex128 — over ALL numpy and
    ml_dtypes dtypes, `None`, Python types and invalid objects. -/
theorem policy_single_never_double :
    ∀ r ∈ policyTable, r.2.2.1 = false → optIsDouble r.2.2.2 = true →
      (r.1 = "float64" ∨ r.1 = "complex128") := by
  decide +kernel

/-- `double_keeps_f64` (+ promotion): with the flag on, unspecified / float32 / float64 are DOUBLE;
    float64 is DOUBLE under both flags. -/
theorem policy_double_keeps_f64 :
    ∀ r ∈ policyTable,
      ((r.2.2.1 = true ∧ (r.1 = "None" ∨ r.1 = "float32" ∨ r.1 = "float64")) ∨ r.1 = "float64") →
      r.2.2.2 = some 11 := by
  decide +kernel

/-- Flag off: unspecified and float32 are FLOAT ("float outputs are float32"). -/
theorem policy_single_is_float :
    ∀ r ∈ policyTable, r.2.2.1 = false → (r.1 = "None" ∨ r.1 = "float32") → r.2.2.2 = some 1 := by
  decide +kernel

def floatCode (c : Nat) : Bool := c == 1 || c == 10 || c == 11

/-- Class preservation: a floating dtype gets a floating element type; a non-floating dtype
    gets exactly its own ONNX code (hand-written in `classify`) or is rejected — never a float. -/
theorem policy_class_preserved :
    ∀ r ∈ policyTable, ∀ c, r.2.2.2 = some c →
      (r.2.1 = true → floatCode c = true) ∧
      (r.2.1 = false → r.1 ≠ "None" → refPolicy (classify r.1) r.2.2.1 = some c) := by
  decide +kernel

/-! ### constant entry points -/

def f64ctxRow (r : EntryRow) : Bool :=
  (r.aval == 0 || r.aval == 64) && (r.prefer == 0 || r.prefer == 64)

/-- Flag off and no float64 handed in ⇒ no float64 payload, no double-precision type — every
    entry point × top graph / function-or-loop body × keep-float32 on/off. For a literal the
    float64-ness of the Python value itself does not count (only its aval does). -/
theorem entry_single_no_double :
    ∀ r ∈ entryTable, r.flag = false → r.aval ≠ 64 → r.prefer ≠ 64 →
      (r.src ≠ 64 ∨ (r.entry = "lit" ∧ r.aval ≠ 0)) →
      r.out ≠ 64 ∧ isDouble r.code = false := by
  decide +kernel

/-- `add_initializer_from_scalar` downcasts EVERY float with the flag off (Python floats and
    float64 scalars / arrays included): helper constants of plugins cannot be double. -/
theorem entry_initScalar_immune :
    ∀ r ∈ entryTable, r.entry = "is" → r.flag = false → r.out ≠ 64 ∧ isDouble r.code = false := by
  decide +kernel

/-- Flag on, all-float64 context ⇒ the stored values ARE the source values and the stored
    dtype is not narrower than the source dtype: no float32 detour on any constant path. -/
theorem entry_double_exact :
    ∀ r ∈ entryTable, r.flag = true → f64ctxRow r = true → r.exact = true ∧ r.src ≤ r.out := by
  decide +kernel

/-- … and arrays / literals / closed-over constants are stored as float64, declared DOUBLE. -/
theorem entry_double_type :
    ∀ r ∈ entryTable, r.flag = true → f64ctxRow r = true → r.entry ≠ "is" →
      r.out = 64 ∧ r.code = 11 := by
  decide +kernel

/-- In function / loop-body mode constants are `Constant` nodes, otherwise initializers. -/
theorem entry_container : ∀ r ∈ entryTable, r.node = r.fm := by
  decide +kernel

theorem nonfloat_untouched :
    ∀ r ∈ nonfloatTable, r.2.2.1 = r.2.2.2.1 ∧ isDouble r.2.2.2.2 = false := by
  decide +kernel

/-! ### declared types of intermediates and inputs -/

/-- Flag off: a fresh intermediate is never double (even for a float64 aval); an input is double
    only for a float64 aval. -/
theorem type_single_no_double :
    ∀ r ∈ typeTable, r.2.1 = false → (r.1 = "av" ∨ r.2.2.2.2.1 ≠ 64) →
      isDouble r.2.2.2.2.2 = false := by
  decide +kernel

/-- Flag on: float64 avals are declared DOUBLE in every mode. -/
theorem type_double_f64 :
    ∀ r ∈ typeTable, r.2.1 = true → r.2.2.2.2.1 = 64 → r.2.2.2.2.2 = 11 := by
  decide +kernel

/-! ### promotion helpers and post-processing -/

/-- `_promote_float_array` / `_maybe_promote_float_array`: identity with the flag off; floats
    become float64 with it on; values never change. `_np_float_dtype` follows the flag. -/
theorem promote_rows :
    ∀ r ∈ promoteTable,
      r.2.2.2.2 = true ∧
      (r.1 = "default" → r.2.2.2.1 = (if r.2.2.1 then "float64" else "float32")) ∧
      (r.1 ≠ "default" → r.2.2.1 = false → r.2.2.2.1 = r.2.1) ∧
      (r.1 ≠ "default" → r.2.2.1 = true →
        r.2.2.2.1 = (if r.2.1 = "float16" ∨ r.2.1 = "float32" ∨ r.2.1 = "float64" then "float64"
                     else r.2.1)) := by
  decide +kernel

/-- Post-processing promotes float32 payloads to float64 / DOUBLE exactly, and touches nothing
    else. -/
theorem post_rows :
    ∀ r ∈ postTable,
      r.2.2.2.2 = true ∧
      (r.2.1 = "float32" → r.2.2.1 = "float64" ∧ r.2.2.2.1 = 11) ∧
      (r.2.1 ≠ "float32" → r.2.2.1 = r.2.1) := by
  decide +kernel

end J2O.C09
