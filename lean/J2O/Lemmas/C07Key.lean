/-
C07 (round 2) — helper lemmas: injectivity of the tuple layout `encKey`, the digest-free part of
the key, injectivity of the domain segments at any namespace depth, allocator histories,
`splitDot ∘ joinDot`.
-/
import J2O.Lemmas.C07
import J2O.Model.C07Key
set_option linter.unusedSimpArgs false
set_option linter.unusedVariables false

namespace J2O.C07

/-! ### tuple layout -/

theorem ofList_inj : ∀ (a b : List PyVal), PyList.ofList a = PyList.ofList b → a = b
  | [], [], _ => rfl
  | [], _ :: _, h => by simp [PyList.ofList] at h
  | _ :: _, [], h => by simp [PyList.ofList] at h
  | x :: a, y :: b, h => by
    simp only [PyList.ofList, PyList.cons.injEq] at h
    rw [h.1, ofList_inj a b h.2]

theorem pyT_inj (a b : List PyVal) (h : pyT a = pyT b) : a = b := by
  simp only [pyT, PyVal.tup.injEq] at h
  exact ofList_inj a b h

theorem map_inj {α β : Type} (f : α → β) (hf : ∀ a b, f a = f b → a = b) :
    ∀ (l1 l2 : List α), l1.map f = l2.map f → l1 = l2
  | [], [], _ => rfl
  | [], _ :: _, h => by simp at h
  | _ :: _, [], h => by simp at h
  | x :: a, y :: b, h => by
    simp only [List.map_cons, List.cons.injEq] at h
    rw [hf _ _ h.1, map_inj f hf a b h.2]

theorem encShape_inj (a b : List String) (h : encShape a = encShape b) : a = b := by
  unfold encShape at h
  exact map_inj PyVal.str (fun x y hxy => by simpa using hxy) _ _ (pyT_inj _ _ h)

theorem encTSig_inj (a b : TSig) (h : encTSig a = encTSig b) : a = b := by
  unfold encTSig at h
  have := pyT_inj _ _ h
  simp only [List.cons.injEq, PyVal.str.injEq, and_true] at this
  cases a; cases b
  simp only [TSig.mk.injEq]
  exact ⟨encShape_inj _ _ this.1, this.2⟩

theorem encInSig_inj (a b : List TSig) (h : encInSig a = encInSig b) : a = b :=
  map_inj encTSig encTSig_inj _ _ (pyT_inj _ _ h)

theorem encCapKey_inj (a b : CapKey) (h : encCapKey a = encCapKey b) : a = b := by
  cases a <;> cases b <;> simp only [encCapKey] at h <;> have h' := pyT_inj _ _ h <;>
    simp only [List.cons.injEq, PyVal.str.injEq, PyVal.int.injEq, and_true, reduceCtorEq,
      List.cons_ne_nil, List.nil_eq, and_false, false_and, true_and, String.reduceEq] at h'
  all_goals first
    | exact absurd h' (by decide)
    | (obtain ⟨h1, h2, h3⟩ := h'; rw [encShape_inj _ _ h1, h2, h3])
    | (obtain ⟨h1, h2⟩ := h'; rw [encShape_inj _ _ h1, h2])
    | (rw [h'])

theorem encCapItem_inj (a b : String × CapKey) (h : encCapItem a = encCapItem b) : a = b := by
  unfold encCapItem at h
  have := pyT_inj _ _ h
  simp only [List.cons.injEq, PyVal.str.injEq, and_true] at this
  exact Prod.ext this.1 (encCapKey_inj _ _ this.2)

theorem encCaps_inj (a b : List (String × CapKey)) (h : encCaps a = encCaps b) : a = b :=
  map_inj encCapItem encCapItem_inj _ _ (pyT_inj _ _ h)

theorem encFpKey_inj (a b : FpKey) (h : encFpKey a = encFpKey b) : a = b := by
  cases a <;> cases b
  case none.none => rfl
  all_goals
    simp only [encFpKey] at h
    have h' := pyT_inj _ _ h
    simp only [List.cons.injEq, PyVal.str.injEq, PyVal.int.injEq, and_true, reduceCtorEq,
      List.cons_ne_nil, List.nil_eq, and_false, false_and, true_and, String.reduceEq] at h'
  all_goals first
    | exact absurd h' (by decide)
    | (obtain ⟨h1, h2, h3⟩ := h'; rw [encShape_inj _ _ h1, h2, h3])
    | (obtain ⟨h1, h2⟩ := h'; rw [h1, h2])

theorem encFpItem_inj (a b : String × FpKey) (h : encFpItem a = encFpItem b) : a = b := by
  unfold encFpItem at h
  have := pyT_inj _ _ h
  simp only [List.cons.injEq, PyVal.str.injEq, and_true] at this
  exact Prod.ext this.1 (encFpKey_inj _ _ this.2)

theorem encState_inj (a b : List (String × FpKey)) (h : encState a = encState b) : a = b :=
  map_inj encFpItem encFpItem_inj _ _ (pyT_inj _ _ h)

/-- a tagged pair `("tag", v)` determines `v` -/
theorem tagged_inj (t1 t2 : String) (a b : PyVal) (h : pyT [.str t1, a] = pyT [.str t2, b]) :
    t1 = t2 ∧ a = b := by
  have := pyT_inj _ _ h
  simpa using this

theorem encCapSig_inj (a b : CapSig) (h : encCapSig a = encCapSig b) : a = b := by
  cases a <;> cases b <;> simp only [encCapSig] at h <;> have h' := pyT_inj _ _ h
  · simp only [List.cons.injEq, PyVal.int.injEq, and_true] at h'
    rw [h'.1, encCaps_inj _ _ h'.2]
  · simp [pyT] at h'
  · simp [pyT] at h'
  · simp [pyT] at h'
  · simp only [List.cons.injEq, and_true] at h'
    obtain ⟨h1, h2, h3, h4⟩ := h'
    have e1 := (tagged_inj _ _ _ _ h1).2
    have e2 := (tagged_inj _ _ _ _ h2).2
    have e3 := (tagged_inj _ _ _ _ h3).2
    have e4 := (tagged_inj _ _ _ _ h4).2
    simp only [PyVal.str.injEq] at e1 e3
    rw [e1, encCaps_inj _ _ e2, e3, encState_inj _ _ e4]
  · simp only [List.cons.injEq, and_true] at h'
    have := (tagged_inj _ _ _ _ h'.2.2.1).1
    exact absurd this (by decide)
  · simp [pyT] at h'
  · simp only [List.cons.injEq, and_true] at h'
    have := (tagged_inj _ _ _ _ h'.2.2.1).1
    exact absurd this (by decide)
  · simp only [List.cons.injEq, and_true] at h'
    obtain ⟨h1, h2, h3, h4⟩ := h'
    have e1 := (tagged_inj _ _ _ _ h1).2
    have e2 := (tagged_inj _ _ _ _ h2).2
    have e3 := (tagged_inj _ _ _ _ h3).2
    have e4 := (tagged_inj _ _ _ _ h4).2
    simp only [PyVal.str.injEq] at e1 e3 e4
    rw [e1, encCaps_inj _ _ e2, e3, e4]

/-! ### the digest-free part of the key -/

theorem capKey_skel (H : Bytes → Nat) (v : CapVal) : capKeySkel (capKey H v) = capSkel v := by
  cases v <;> rfl

theorem mapSnd_names {α β : Type} (f : α → β) (l : List (String × α)) :
    (mapSnd f l).map (fun p => p.1) = l.map (fun p => p.1) := by
  simp [mapSnd, List.map_map, Function.comp_def]

theorem mapSnd_skels (H : Bytes → Nat) (l : List (String × CapVal)) :
    (mapSnd (capKey H) l).map (fun p => capKeySkel p.2) = l.map (fun p => capSkel p.2) := by
  simp [mapSnd, List.map_map, Function.comp_def, capKey_skel]

theorem capsOf_mkKey (H S : Bytes → Nat) (c : CallSite) :
    capsOf (mkKey H S c).capSig = mapSnd (capKey H) (effCaps c) := by
  unfold mkKey
  simp only
  split
  · split <;> rfl
  · rfl

/-- mode of a key, read off its `capture_sig` -/
def isUniqueSig : CapSig → Bool
  | .byId _ _ => false
  | _ => true

theorem isUniqueSig_mkKey (H S : Bytes → Nat) (c : CallSite) :
    isUniqueSig (mkKey H S c).capSig = c.unique := by
  unfold mkKey
  simp only
  cases hu : c.unique
  · simp [isUniqueSig]
  · simp only [if_true]
    split <;> rfl

/-! ### domain segments at any namespace depth -/

theorem snoc1_eq {α : Type} (a b : List α) (x y : α) (h : a ++ [x] = b ++ [y]) : a = b ∧ x = y := by
  have := List.append_inj' h rfl
  simpa using this

theorem snoc2_eq {α : Type} (a b : List α) (x y x' y' : α) (h : a ++ [x, y] = b ++ [x', y']) :
    a = b ∧ x = x' ∧ y = y' := by
  have := List.append_inj' h rfl
  simpa using this

theorem snoc3_eq {α : Type} (a b : List α) (x y z x' y' z' : α)
    (h : a ++ [x, y, z] = b ++ [x', y', z']) : a = b ∧ x = x' ∧ y = y' ∧ z = z' := by
  have := List.append_inj' h rfl
  simpa using this

theorem snoc2_3 {α : Type} (a b : List α) (x y x' y' z' : α)
    (h : a ++ [x, y] = b ++ [x', y', z']) : a = b ++ [x'] ∧ x = y' ∧ y = z' := by
  have h2 : a ++ [x, y] = (b ++ [x']) ++ [y', z'] := by simpa using h
  exact snoc2_eq _ _ _ _ _ _ h2

/-- `domSegs` determines counter key and counter value — at ANY namespace depth — as long as the
    base name is not literally `unique` and the decimal rendering never yields `unique`. -/
theorem domSegs_inj (dec : Nat → String) (hdec : ∀ a b, dec a = dec b → a = b)
    (hnum : ∀ k, dec k ≠ "unique") (ck1 ck2 : CKey) (n1 n2 : Nat)
    (hb : ck1.base = ck2.base) (hu : ck1.base ≠ "unique")
    (h : domSegs dec ck1 n1 = domSegs dec ck2 n2) : ck1 = ck2 ∧ n1 = n2 := by
  cases ck1 with | mk ns1 b1 u1 =>
  cases ck2 with | mk ns2 b2 u2 =>
  simp only at hb hu
  subst hb
  unfold domSegs at h
  simp only [List.append_assoc, List.cons_append, List.nil_append] at h
  cases u1 <;> cases u2 <;> simp only [Bool.false_eq_true, if_false, if_true] at h
  · obtain ⟨e1, _, e3⟩ := snoc2_eq _ _ _ _ _ _ h
    exact ⟨by rw [e1], hdec _ _ e3⟩
  · split at h
    · obtain ⟨_, _, e3⟩ := snoc2_eq _ _ _ _ _ _ h
      exact absurd e3 (hnum _)
    · exact absurd (snoc2_3 _ _ _ _ _ _ _ h).2.1 hu
  · split at h
    · obtain ⟨_, _, e3⟩ := snoc2_eq _ _ _ _ _ _ h
      exact absurd e3.symm (hnum _)
    · have := (snoc2_3 _ _ _ _ _ _ _ h.symm).2.1
      exact absurd this hu
  · split at h <;> split at h
    · rename_i a b
      obtain ⟨e1, _, _⟩ := snoc2_eq _ _ _ _ _ _ h
      exact ⟨by rw [e1], by omega⟩
    · have := (snoc2_3 _ _ _ _ _ _ _ h).2.2
      exact absurd this.symm (hnum _)
    · have := (snoc2_3 _ _ _ _ _ _ _ h.symm).2.2
      exact absurd this.symm (hnum _)
    · obtain ⟨e1, _, _, e4⟩ := snoc3_eq _ _ _ _ _ _ _ _ h
      exact ⟨by rw [e1], hdec _ _ e4⟩

/-! ### allocator histories -/

theorem count_le_cons (p : CKey) (ck : CKey) (n : Nat) (cs : List (CKey × Nat))
    (h : count ck cs ≤ n) : count p cs ≤ count p ((ck, n) :: cs) ∨ p = ck := by
  by_cases hp : ck = p
  · right; exact hp.symm
  · left; rw [count_cons_ne _ _ _ _ hp]; exact Nat.le_refl _

/-- every allocation of a history gets a counter value above the value the table held before -/
theorem allocTags_gt : ∀ (reqs : List CKey) (cs : List (CKey × Nat)) (p : CKey × Nat),
    p ∈ allocTags cs reqs → count p.1 cs < p.2
  | [], _, p, h => by simp [allocTags] at h
  | ck :: r, cs, p, h => by
    simp only [allocTags, List.mem_cons] at h
    rcases h with rfl | h
    · simp
    · have ih := allocTags_gt r _ p h
      by_cases hp : ck = p.1
      · rw [← hp, count_cons_self] at ih; rw [← hp]; omega
      · rw [count_cons_ne _ _ _ _ hp] at ih; exact ih

theorem allocTags_pos (reqs : List CKey) (cs : List (CKey × Nat)) (p : CKey × Nat)
    (h : p ∈ allocTags cs reqs) : 1 ≤ p.2 := by
  have := allocTags_gt reqs cs p h; omega

theorem allocTags_req : ∀ (reqs : List CKey) (cs : List (CKey × Nat)) (p : CKey × Nat),
    p ∈ allocTags cs reqs → p.1 ∈ reqs
  | [], _, p, h => by simp [allocTags] at h
  | ck :: r, cs, p, h => by
    simp only [allocTags, List.mem_cons] at h
    rcases h with rfl | h
    · simp
    · exact List.mem_cons_of_mem _ (allocTags_req r _ p h)

/-- no two allocations of a history get the same (counter key, counter value) -/
theorem allocTags_nodup : ∀ (reqs : List CKey) (cs : List (CKey × Nat)), (allocTags cs reqs).Nodup
  | [], _ => by simp [allocTags]
  | ck :: r, cs => by
    simp only [allocTags, List.nodup_cons]
    refine ⟨?_, allocTags_nodup r _⟩
    intro hmem
    have := allocTags_gt r _ _ hmem
    simp only [count_cons_self] at this
    omega

theorem allocRun_eq_map (dec : Nat → String) : ∀ (reqs : List CKey) (cs : List (CKey × Nat)),
    allocRun dec cs reqs = (allocTags cs reqs).map (renderTag dec)
  | [], _ => rfl
  | ck :: r, cs => by
    simp only [allocRun, allocTags, List.map_cons, allocate, renderTag]
    rw [allocRun_eq_map dec r]

theorem nodup_map_on {α β : Type} (f : α → β) : ∀ (l : List α),
    (∀ a ∈ l, ∀ b ∈ l, f a = f b → a = b) → l.Nodup → (l.map f).Nodup
  | [], _, _ => by simp
  | x :: r, hf, hn => by
    simp only [List.nodup_cons] at hn
    simp only [List.map_cons, List.nodup_cons, List.mem_map, not_exists, not_and]
    refine ⟨?_, nodup_map_on f r (fun a ha b hb => hf a (List.mem_cons_of_mem _ ha) b
      (List.mem_cons_of_mem _ hb)) hn.2⟩
    intro y hy hxy
    have := hf y (List.mem_cons_of_mem _ hy) x List.mem_cons_self hxy
    subst this
    exact hn.1 hy

/-! ### dotted strings -/

def dotFree (s : List Char) : Prop := '.' ∉ s

theorem splitDot_ne_nil : ∀ (s : List Char), splitDot s ≠ []
  | [] => by simp [splitDot]
  | c :: r => by
    simp only [splitDot]
    split
    · simp
    · split <;> simp

theorem splitDot_dotFree : ∀ (s : List Char), dotFree s → splitDot s = [s]
  | [], _ => rfl
  | c :: r, h => by
    have hc : c ≠ '.' := by intro e; apply h; simp [e]
    have hr : dotFree r := by intro e; apply h; simp [e]
    simp only [splitDot, hc, if_false, splitDot_dotFree r hr]

theorem splitDot_append : ∀ (a : List Char) (rest : List Char), dotFree a →
    splitDot (a ++ '.' :: rest) = a :: splitDot rest
  | [], rest, _ => by simp [splitDot]
  | c :: r, rest, h => by
    have hc : c ≠ '.' := by intro e; apply h; simp [e]
    have hr : dotFree r := by intro e; apply h; simp [e]
    simp only [List.cons_append, splitDot, hc, if_false, splitDot_append r rest hr]

/-- splitting the dotted string gives the segments back (segments without dots, at least one) -/
theorem splitDot_joinDot : ∀ (l : List (List Char)), l ≠ [] → (∀ s ∈ l, dotFree s) →
    splitDot (joinDot l) = l
  | [], h, _ => absurd rfl h
  | [a], _, hd => by
    simp only [joinDot]
    exact splitDot_dotFree a (hd a (by simp))
  | a :: b :: r, _, hd => by
    simp only [joinDot]
    rw [splitDot_append a _ (hd a (by simp)),
      splitDot_joinDot (b :: r) (by simp) (fun s hs => hd s (List.mem_cons_of_mem _ hs))]

end J2O.C07
