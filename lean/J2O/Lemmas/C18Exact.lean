/-
C18 — helper lemmas for Props/C18Exact.lean: numpy's `astype` is the identity along every promotion the table
chooses between non-complex dtypes, except where a 64-bit integer is brought to float64:
`roundFmt_int_exact` (IEEE rounding keeps every integer below 2^p — via `ilog2_intCast`, the exponent the model
computes for an integer is `Nat.log2`), `castEl_exact_R`, `exact_rows_embedR` (kernel-evaluated on the table),
`operands_eq_kinds` (`operands` is "cast both sides to `operandKinds`"), `operands_exact_R`.
-/
import J2O.Lemmas.C18Float
set_option linter.unusedSimpArgs false
set_option linter.unusedVariables false

namespace J2O.C18

theorem ilog2_intCast (n : Nat) (hn : 0 < n) : ilog2 ((n : ℤ) : ℚ) = (Nat.log2 n : ℤ) := by
  unfold ilog2
  have hnum : (((n : ℤ) : ℚ)).num.natAbs = n := by simp
  have hden : (((n : ℤ) : ℚ)).den = 1 := by simp
  simp only [hnum, hden]
  have hl1 : Nat.log2 1 = 0 := by decide
  simp only [hl1, Int.natCast_zero, Int.sub_zero]
  have h1 : pow2 (Nat.log2 n : ℤ) ≤ ((n : ℤ) : ℚ) := by
    rw [pow2_eq_zpow, zpow_natCast]
    have := Nat.log2_self_le (Nat.pos_iff_ne_zero.mp hn)
    exact_mod_cast this
  have h2 : ¬ pow2 ((Nat.log2 n : ℤ) + 1) ≤ ((n : ℤ) : ℚ) := by
    rw [pow2_eq_zpow]
    have : ((Nat.log2 n : ℤ) + 1) = ((Nat.log2 n + 1 : ℕ) : ℤ) := by push_cast; rfl
    rw [this, zpow_natCast]
    have := Nat.lt_log2_self (n := n)
    intro hh
    have hh' : (2 : ℚ) ^ (Nat.log2 n + 1) ≤ (n : ℚ) := by exact_mod_cast hh
    have : (n : ℚ) < (2 : ℚ) ^ (Nat.log2 n + 1) := by exact_mod_cast this
    linarith
  simp only [h1, h2, if_true, if_false]

/-- **IEEE rounding is the identity on every integer below 2^p** (any format with emin ≤ 0 and p ≤ emax+1) -/
theorem roundFmt_int_exact (f : Fmt) (hmin : f.emin ≤ 0) (hpm : f.p ≤ f.emax + 1) (z : ℤ)
    (hz : ((z.natAbs : ℤ) : ℚ) < pow2 f.p) : roundFmt f (z : ℚ) = .fin (z : ℚ) := by
  by_cases h0 : z = 0
  · subst h0; simp [roundFmt]
  · have hq0 : (z : ℚ) ≠ 0 := by exact_mod_cast h0
    have hn : 0 < z.natAbs := by omega
    have habs : (z : ℚ).abs = ((z.natAbs : ℤ) : ℚ) := by
      rcases le_total 0 z with h | h
      · rw [Rat.abs_of_nonneg (by exact_mod_cast h)]
        congr 1; omega
      · rw [Rat.abs_of_nonpos (by exact_mod_cast h)]
        have : (z.natAbs : ℤ) = -z := by omega
        rw [this]; push_cast; rfl
    unfold roundFmt
    simp only [hq0, if_false]
    rw [habs, ilog2_intCast _ hn]
    have h1 : pow2 (Nat.log2 z.natAbs : ℤ) ≤ ((z.natAbs : ℤ) : ℚ) := by
      rw [pow2_eq_zpow, zpow_natCast]
      have := Nat.log2_self_le (Nat.pos_iff_ne_zero.mp hn)
      exact_mod_cast this
    have he : (Nat.log2 z.natAbs : ℤ) < f.p := by
      by_contra hcon
      have := pow2_mono (not_lt.mp hcon)
      linarith
    obtain ⟨k, hk⟩ : ∃ k : ℕ, max ((Nat.log2 z.natAbs : ℤ) - f.p + 1) f.emin + k = 0 :=
      ⟨(-(max ((Nat.log2 z.natAbs : ℤ) - f.p + 1) f.emin)).toNat, by omega⟩
    generalize max ((Nat.log2 z.natAbs : ℤ) - f.p + 1) f.emin = qe at hk ⊢
    have hpq : pow2 qe * ((2 ^ k : ℕ) : ℚ) = 1 := by
      rw [← pow2_add_nat, hk]; simp [pow2]
    have hpos := pow2_pos qe
    have hcast : ∀ m : ℤ, ((m * 2 ^ k : ℤ) : ℚ) = (m : ℚ) * ((2 ^ k : ℕ) : ℚ) := by
      intro m; push_cast; ring
    have hx : ((z.natAbs : ℤ) : ℚ) / pow2 qe = (((z.natAbs : ℤ) * 2 ^ k : ℤ) : ℚ) := by
      rw [div_eq_iff (ne_of_gt hpos), hcast, mul_assoc, mul_comm ((2 ^ k : ℕ) : ℚ), hpq, mul_one]
    rw [hx, roundHalfEven_int]
    have hM : ((((z.natAbs : ℤ) * 2 ^ k : ℤ)) : ℚ) * pow2 qe = ((z.natAbs : ℤ) : ℚ) := by
      rw [hcast, mul_assoc, mul_comm ((2 ^ k : ℕ) : ℚ), hpq, mul_one]
    rw [hM]
    have hov : ¬ pow2 (f.emax + 1) ≤ ((z.natAbs : ℤ) : ℚ) := by
      intro hh
      have := pow2_mono hpm
      linarith
    simp only [hov, if_false]
    congr 1
    by_cases hneg : (z : ℚ) < 0
    · simp only [hneg, if_true]
      have hz' : z < 0 := by exact_mod_cast hneg
      have : (z.natAbs : ℤ) = -z := by omega
      rw [this]; push_cast; ring
    · simp only [hneg, if_false]
      have hz' : 0 ≤ z := by exact_mod_cast (not_lt.mp hneg)
      have : (z.natAbs : ℤ) = z := by omega
      rw [this]

/-! ### all non-complex rows of the table -/

def realKinds : List Kind :=
  [.bool, .int true 8, .int true 16, .int true 32, .int true 64,
   .int false 8, .int false 16, .int false 32, .int false 64,
   .flt f16, .flt f32, .flt f64]

/-- `v` is a value of the (non-complex) dtype `k` -/
def InVal (k : Kind) (v : El) : Prop :=
  match k with
  | .bool => InKind .bool v
  | .int s b => InKind (.int s b) v
  | .flt f => InFlt (.flt f) v
  | .cplx _ => False

def WellTypedR (t : Tn) : Prop := ∀ v ∈ t.vals, InVal t.kind v

/-- every value of dtype `a` is a value of dtype `b` and `astype` keeps it (non-complex dtypes of the table) -/
def embedsR : Kind → Kind → Bool
  | .flt a, .flt b => decide (a.p ≤ b.p)
  | .bool, .flt _ => true
  | .int _ b, .flt f => decide ((b : Int) ≤ f.p)
  | a, b => embeds a b

theorem realKinds_std : ∀ k ∈ realKinds, k ∈ stdKinds := by decide +kernel

theorem flt_mem_std (f : Fmt) (h : Kind.flt f ∈ stdKinds) : f ∈ stdFmts := by
  simp [stdKinds, stdFmts] at h ⊢
  exact h

theorem std_fmt_facts (f : Fmt) (hf : f ∈ stdFmts) : f.emin ≤ 0 ∧ f.p ≤ f.emax + 1 ∧ 1 ≤ f.p := by
  simp only [stdFmts, List.mem_cons, List.mem_nil_iff, or_false] at hf
  rcases hf with rfl | rfl | rfl <;> simp [f16, f32, f64]

theorem natAbs_lt_pow2 (s : Bool) (b : Nat) (hb : b ∈ stdBits) (p : Int) (hbp : (b : Int) ≤ p) (z : Int)
    (hz : inRange s b z = true) : ((z.natAbs : ℤ) : ℚ) < pow2 p := by
  have h1 : ((z.natAbs : ℤ) : ℚ) < pow2 (b : Int) := by
    rw [pow2_eq_zpow, zpow_natCast]
    simp only [stdBits, List.mem_cons, List.mem_nil_iff, or_false] at hb
    have : z.natAbs < 2 ^ b := by
      rcases hb with rfl | rfl | rfl | rfl <;> cases s <;> simp [inRange] at hz <;> omega
    exact_mod_cast this
  exact lt_of_lt_of_le h1 (pow2_mono hbp)

theorem castEl_exact_R (src dst : Kind) (hs : src ∈ stdKinds) (hd : dst ∈ stdKinds)
    (he : embedsR src dst = true) (v : El) (hv : InVal src v) : castEl src dst v = some v := by
  cases dst with
  | bool =>
    cases src with
    | bool => exact castEl_exact_std _ _ hd (by simpa [embedsR] using he) v hv
    | int s b => exact castEl_exact_std _ _ hd (by simpa [embedsR] using he) v hv
    | flt f => simp [embedsR, embeds] at he
    | cplx f => simp [embedsR, embeds] at he
  | int s2 b2 =>
    cases src with
    | bool => exact castEl_exact_std _ _ hd (by simpa [embedsR] using he) v hv
    | int s b => exact castEl_exact_std _ _ hd (by simpa [embedsR] using he) v hv
    | flt f => simp [embedsR, embeds] at he
    | cplx f => simp [embedsR, embeds] at he
  | flt g =>
    have hg := flt_mem_std g hd
    obtain ⟨g1, g2, g3⟩ := std_fmt_facts g hg
    cases src with
    | bool =>
      obtain ⟨z, rfl, hz⟩ := hv
      have hlt : ((z.natAbs : ℤ) : ℚ) < pow2 g.p := by
        have : ((z.natAbs : ℤ) : ℚ) < pow2 1 := by
          rcases hz with rfl | rfl <;> simp [pow2]
        exact lt_of_lt_of_le this (pow2_mono g3)
      simp [castEl, roundSc, roundFmt_int_exact g g1 g2 z hlt]
    | int s b =>
      obtain ⟨z, rfl, hz⟩ := hv
      have hb := int_mem_std s b hs
      have hlt := natAbs_lt_pow2 s b hb g.p (by simpa [embedsR] using he) z hz
      simp [castEl, roundSc, roundFmt_int_exact g g1 g2 z hlt]
    | flt f =>
      exact castEl_widen_std f g (flt_mem_std f hs) hg (by simpa [embedsR] using he) v hv
    | cplx f => simp [embedsR, embeds] at he
  | cplx g => cases src <;> simp [embedsR, embeds] at he

theorem castList_exact_R (src dst : Kind) (hs : src ∈ stdKinds) (hd : dst ∈ stdKinds)
    (he : embedsR src dst = true) :
    ∀ (vs : List El), (∀ v ∈ vs, InVal src v) → castList src dst vs = some vs := by
  intro vs
  induction vs with
  | nil => intro _; rfl
  | cons v vs ih =>
    intro h
    simp only [castList]
    rw [castEl_exact_R src dst hs hd he v (h v (by simp)), ih (fun w hw => h w (by simp [hw]))]

/-- on every non-complex row of the table that does not bring a 64-bit integer to float64, both operands embed
    into the dtype `_comparison_operands` brings them to -/
theorem exact_rows_embedR :
    ∀ ek ∈ realKinds, ∀ gk ∈ realKinds, promoLossy64 ek gk = false →
      embedsR ek (operandKinds ek gk).1 = true ∧ embedsR gk (operandKinds ek gk).2 = true := by
  decide +kernel

theorem operandKinds_std : ∀ ek ∈ stdKinds, ∀ gk ∈ stdKinds,
    (operandKinds ek gk).1 ∈ stdKinds ∧ (operandKinds ek gk).2 ∈ stdKinds := by decide +kernel

theorem castList_same (k : Kind) : ∀ vs : List El, castList k k vs = some vs := by
  intro vs
  induction vs with
  | nil => rfl
  | cons v vs ih => simp [castList, castEl, ih]

theorem operands_eq_kinds (ek gk : Kind) (evals gvals : List El) :
    operands ek evals gk gvals =
      match castList ek (operandKinds ek gk).1 evals, castList gk (operandKinds ek gk).2 gvals with
      | some l, some r => some (l, r)
      | _, _ => none := by
  unfold operands operandKinds
  by_cases h1 : gk = ek
  · subst h1; simp [castList_same]
  · by_cases h2 : canCastSafe gk ek = true
    · simp only [h1, h2, if_false, if_true, castList_same]
      cases castList gk ek gvals <;> rfl
    · simp only [h1, h2, if_false, Bool.false_eq_true]
      cases castList ek (resultKind ek gk) evals <;> cases castList gk (resultKind ek gk) gvals <;> rfl

theorem operands_exact_R (ek gk : Kind) (hek : ek ∈ realKinds) (hgk : gk ∈ realKinds)
    (hx : promoLossy64 ek gk = false) (evals gvals : List El)
    (he : ∀ v ∈ evals, InVal ek v) (hg : ∀ v ∈ gvals, InVal gk v) :
    operands ek evals gk gvals = some (evals, gvals) := by
  obtain ⟨e1, e2⟩ := exact_rows_embedR ek hek gk hgk hx
  have s1 := realKinds_std ek hek
  have s2 := realKinds_std gk hgk
  obtain ⟨k1, k2⟩ := operandKinds_std ek s1 gk s2
  rw [operands_eq_kinds, castList_exact_R ek _ s1 k1 e1 evals he, castList_exact_R gk _ s2 k2 e2 gvals hg]

theorem inVal_zero (k : Kind) (hk : k ∈ realKinds) : InVal k (El.ofRat 0) := by
  have hs := realKinds_std k hk
  cases k with
  | bool => exact inKind_zero .bool hs rfl
  | int s b => exact inKind_zero (.int s b) hs rfl
  | flt f => exact inFlt_zero f
  | cplx f => simp [realKinds] at hk

theorem real_not_complex (k : Kind) (hk : k ∈ realKinds) : k.isComplex = false := by
  cases k with
  | cplx f => simp [realKinds] at hk
  | _ => rfl

end J2O.C18
