/-
C07 — helper lemmas (core Lean only): substitution, inlining, key components, registry invariant.
-/
import J2O.Model.C07
set_option linter.unusedSimpArgs false
set_option linter.unusedVariables false

namespace J2O.C07

/-! ### Part A -/

theorem get_eval (I : Interp) (C : CallSem) : ∀ (σ : Args) (env vs : List Val) (i : Nat) (v : Val),
    evalA I C σ env = some vs → vs[i]? = some v →
    ∃ e, σ.get? i = some e ∧ evalE I C e env = some v
  | .nil, env, vs, i, v, h, hv => by
    simp [evalA] at h; subst h; simp at hv
  | .cons e r, env, vs, i, v, h, hv => by
    simp only [evalA] at h
    split at h
    · exact absurd h (by simp)
    · rename_i v0 hv0
      split at h
      · exact absurd h (by simp)
      · rename_i vs0 hvs0
        simp only [Option.some.injEq] at h; subst h
        cases i with
        | zero => simp at hv; subst hv; exact ⟨e, rfl, hv0⟩
        | succ n =>
          simp at hv
          obtain ⟨e', he', hev⟩ := get_eval I C r env vs0 n v hvs0 hv
          exact ⟨e', by simpa [Args.get?] using he', hev⟩

mutual
theorem subst_evalE (I : Interp) (C : CallSem) (σ : Args) (env vs : List Val)
    (hσ : evalA I C σ env = some vs) : ∀ (e : Expr) (v : Val),
    evalE I C e vs = some v → evalE I C (substE σ e) env = some v
  | .var i, v, h => by
    simp only [evalE] at h
    obtain ⟨e, he, hev⟩ := get_eval I C σ env vs i v hσ h
    simp only [substE, he]; exact hev
  | .op n as k, v, h => by
    simp only [evalE] at h
    split at h
    · exact absurd h (by simp)
    · rename_i ws hws
      have := subst_evalA I C σ env vs hσ as ws hws
      simp only [substE, evalE, this]; exact h
  | .call f as k, v, h => by
    simp only [evalE] at h
    split at h
    · exact absurd h (by simp)
    · rename_i ws hws
      have := subst_evalA I C σ env vs hσ as ws hws
      simp only [substE, evalE, this]; exact h
theorem subst_evalA (I : Interp) (C : CallSem) (σ : Args) (env vs : List Val)
    (hσ : evalA I C σ env = some vs) : ∀ (as : Args) (ws : List Val),
    evalA I C as vs = some ws → evalA I C (substA σ as) env = some ws
  | .nil, ws, h => by simpa [substA, evalA] using h
  | .cons e r, ws, h => by
    simp only [evalA] at h
    split at h
    · exact absurd h (by simp)
    · rename_i v0 hv0
      split at h
      · exact absurd h (by simp)
      · rename_i vs0 hvs0
        have h1 := subst_evalE I C σ env vs hσ e v0 hv0
        have h2 := subst_evalA I C σ env vs hσ r vs0 hvs0
        simp only [substA, evalA, h1, h2]; exact h
end

/-- The link between a call semantics and an inlining table: whenever the call of `f` yields `r`,
    the table has a call-free body that yields `r` without any call semantics. -/
def Agree (I : Interp) (C : CallSem) (L : InlSem) : Prop :=
  ∀ f vs r, C f vs = some r → ∃ body, L f = some body ∧ callFreeA body = true ∧
    evalA I noCalls body vs = some r

theorem callFree_get : ∀ (as : Args) (k : Nat) (e : Expr), callFreeA as = true → as.get? k = some e →
    callFreeE e = true
  | .nil, k, e, _, h => by simp [Args.get?] at h
  | .cons a r, 0, e, hc, h => by
    simp [Args.get?] at h; subst h; simp [callFreeA] at hc; exact hc.1
  | .cons a r, k+1, e, hc, h => by
    simp [Args.get?] at h; simp [callFreeA] at hc; exact callFree_get r k e hc.2 h

mutual
theorem callFree_substE (σ : Args) (hσ : callFreeA σ = true) : ∀ e, callFreeE e = true →
    callFreeE (substE σ e) = true
  | .var i, _ => by
    simp only [substE]; split
    · rename_i e he; exact callFree_get σ i e hσ he
    · rfl
  | .op n as k, h => by
    simp only [callFreeE] at h; simp only [substE, callFreeE]; exact callFree_substA σ hσ as h
  | .call f as k, h => by simp [callFreeE] at h
theorem callFree_substA (σ : Args) (hσ : callFreeA σ = true) : ∀ as, callFreeA as = true →
    callFreeA (substA σ as) = true
  | .nil, _ => by simp [substA, callFreeA]
  | .cons e r, h => by
    simp only [callFreeA, Bool.and_eq_true] at h
    simp only [substA, callFreeA, Bool.and_eq_true]
    exact ⟨callFree_substE σ hσ e h.1, callFree_substA σ hσ r h.2⟩
end

mutual
theorem inline_soundE (I : Interp) (C : CallSem) (L : InlSem) (hA : Agree I C L) :
    ∀ (e : Expr) (env : List Val) (v : Val), evalE I C e env = some v →
    ∃ e', inlineE L e = some e' ∧ callFreeE e' = true ∧ evalE I noCalls e' env = some v
  | .var i, env, v, h => ⟨.var i, rfl, rfl, by simpa [evalE] using h⟩
  | .op n as k, env, v, h => by
    simp only [evalE] at h
    split at h
    · exact absurd h (by simp)
    · rename_i vs hvs
      obtain ⟨as', h1, h2, h3⟩ := inline_soundA I C L hA as env vs hvs
      exact ⟨.op n as' k, by simp [inlineE, h1], by simpa [callFreeE] using h2, by simp [evalE, h3, h]⟩
  | .call f as k, env, v, h => by
    simp only [evalE] at h
    split at h
    · exact absurd h (by simp)
    · rename_i vs hvs
      split at h
      · exact absurd h (by simp)
      · rename_i r hr
        obtain ⟨as', h1, h2, h3⟩ := inline_soundA I C L hA as env vs hvs
        obtain ⟨body, hb1, hb2, hb3⟩ := hA f vs r hr
        obtain ⟨e, he1, he2⟩ := get_eval I noCalls body vs r k v hb3 h
        refine ⟨substE as' e, by simp [inlineE, h1, hb1, he1], ?_, ?_⟩
        · exact callFree_substE as' h2 e (callFree_get body k e hb2 he1)
        · exact subst_evalE I noCalls as' env vs h3 e v he2
theorem inline_soundA (I : Interp) (C : CallSem) (L : InlSem) (hA : Agree I C L) :
    ∀ (as : Args) (env : List Val) (vs : List Val), evalA I C as env = some vs →
    ∃ as', inlineA L as = some as' ∧ callFreeA as' = true ∧ evalA I noCalls as' env = some vs
  | .nil, env, vs, h => ⟨.nil, rfl, rfl, by simpa [evalA] using h⟩
  | .cons e r, env, vs, h => by
    simp only [evalA] at h
    split at h
    · exact absurd h (by simp)
    · rename_i v0 hv0
      split at h
      · exact absurd h (by simp)
      · rename_i vs0 hvs0
        obtain ⟨e', a1, a2, a3⟩ := inline_soundE I C L hA e env v0 hv0
        obtain ⟨r', b1, b2, b3⟩ := inline_soundA I C L hA r env vs0 hvs0
        exact ⟨.cons e' r', by simp [inlineA, a1, b1], by simp [callFreeA, a2, b2],
          by simp [evalA, a3, b3, h]⟩
end

theorem agree_fuel (I : Interp) (defs : Defs) :
    ∀ fuel, Agree I (evalFn I defs fuel) (inlineFn defs fuel)
  | 0 => by intro f vs r h; simp [evalFn] at h
  | fuel+1 => by
    intro f vs r h
    simp only [evalFn] at h
    split at h
    · exact absurd h (by simp)
    · rename_i body hb
      obtain ⟨b', h1, h2, h3⟩ := inline_soundA I _ _ (agree_fuel I defs fuel) body vs r h
      exact ⟨b', by simp [inlineFn, hb, h1], h2, h3⟩

mutual
/-- A call-free term means the same under every call semantics. -/
theorem callFree_indepE (I : Interp) (C C' : CallSem) : ∀ (e : Expr) (env : List Val),
    callFreeE e = true → evalE I C e env = evalE I C' e env
  | .var i, env, _ => by simp [evalE]
  | .op n as k, env, h => by
    simp only [callFreeE] at h
    simp only [evalE, callFree_indepA I C C' as env h]
  | .call f as k, env, h => by simp [callFreeE] at h
theorem callFree_indepA (I : Interp) (C C' : CallSem) : ∀ (as : Args) (env : List Val),
    callFreeA as = true → evalA I C as env = evalA I C' as env
  | .nil, env, _ => by simp [evalA]
  | .cons e r, env, h => by
    simp only [callFreeA, Bool.and_eq_true] at h
    simp only [evalA, callFree_indepE I C C' e env h.1, callFree_indepA I C C' r env h.2]
end

/-! ### Part B -/

theorem mapSnd_inj {α β : Type} (f : α → β) (hf : ∀ a b, f a = f b → a = b) :
    ∀ (l1 l2 : List (String × α)), mapSnd f l1 = mapSnd f l2 → l1 = l2
  | [], [], _ => rfl
  | [], _ :: _, h => by simp [mapSnd] at h
  | _ :: _, [], h => by simp [mapSnd] at h
  | (n1, a1) :: r1, (n2, a2) :: r2, h => by
    simp only [mapSnd, List.map_cons, List.cons.injEq, Prod.mk.injEq] at h
    obtain ⟨⟨hn, ha⟩, hr⟩ := h
    have := mapSnd_inj f hf r1 r2 (by simpa [mapSnd] using hr)
    rw [hn, hf _ _ ha, this]

theorem capKey_inj (H : Bytes → Nat) (hH : ∀ a b, H a = H b → a = b) :
    ∀ a b, capKey H a = capKey H b → a = b := by
  intro a b h
  cases a <;> cases b <;> simp only [capKey, CapKey.const.injEq, CapKey.dynamic.injEq,
    CapKey.callInput.injEq, CapKey.static.injEq, reduceCtorEq] at h
  · obtain ⟨h1, h2, h3⟩ := h; rw [h1, h2, hH _ _ h3]
  · obtain ⟨h1, h2⟩ := h; rw [h1, h2]
  · obtain ⟨h1, h2⟩ := h; rw [h1, h2]
  · rw [h]

theorem fpKey_inj (S : Bytes → Nat) (hS : ∀ a b, S a = S b → a = b) :
    ∀ a b, fpKey S a = fpKey S b → a = b := by
  intro a b h
  cases a <;> cases b <;> simp only [fpKey, FpKey.lit.injEq, FpKey.arr.injEq, FpKey.obj.injEq,
    reduceCtorEq] at h
  · rfl
  · obtain ⟨h1, h2⟩ := h; rw [h1, h2]
  · obtain ⟨h1, h2, h3⟩ := h; rw [h1, h2, hS _ _ h3]
  · obtain ⟨h1, h2⟩ := h; rw [h1, h2]

theorem isDyn_capKey (H : Bytes → Nat) (v : CapVal) : isDynKey (capKey H v) = isDynVal v := by
  cases v <;> rfl

theorem filter_mapSnd_len (H : Bytes → Nat) : ∀ (l : List (String × CapVal)),
    ((mapSnd (capKey H) l).filter (fun p => isDynKey p.2)).length
      = (l.filter (fun p => isDynVal p.2)).length
  | [] => rfl
  | (n, v) :: r => by
    have ih := filter_mapSnd_len H r
    simp only [mapSnd, List.map_cons, List.filter_cons, isDyn_capKey] at ih ⊢
    split <;> simp [ih]

/-- The arity the code derives from a call site is a function of its key. -/
theorem nInOf_eq_nInKey (H S : Bytes → Nat) (c : CallSite) : nInOf c = nInKey (mkKey H S c) := by
  unfold nInOf nInKey mkKey
  simp only
  split
  · cases c.callee <;> simp only [capsOf, filter_mapSnd_len]
  · simp only [capsOf, filter_mapSnd_len]

/-- No static keyword argument is named like an input param, and nothing is auto-injected:
    then the code sees exactly the call site's own captures. -/
def NoShadow (c : CallSite) : Prop :=
  c.injected = [] ∧ ∀ p ∈ c.caps, p.1 ∈ c.paramNames → isDynVal p.2 = true ∨ ∃ t, p.2 = .static t

theorem effCaps_of_noShadow (c : CallSite) (h : NoShadow c) : effCaps c = c.caps := by
  obtain ⟨hi, hs⟩ := h
  unfold effCaps
  rw [hi, List.append_nil]
  have : ∀ (l : List (String × CapVal)), (∀ p ∈ l, p.1 ∈ c.paramNames →
      isDynVal p.2 = true ∨ ∃ t, p.2 = .static t) → l.map (effCap c.paramNames) = l := by
    intro l
    induction l with
    | nil => intro _; rfl
    | cons p r ih =>
      intro hl
      have hr := ih (fun q hq => hl q (List.mem_cons_of_mem _ hq))
      have hp := hl p List.mem_cons_self
      simp only [List.map_cons, hr, List.cons.injEq, and_true]
      obtain ⟨n, v⟩ := p
      cases v with
      | const s d b =>
        simp only [effCap]
        split
        · rename_i hmem
          rcases hp hmem with h1 | ⟨t, h2⟩
          · simp [isDynVal] at h1
          · simp at h2
        · rfl
      | dynamic s d => rfl
      | callInput s d => rfl
      | static t => rfl
  exact this c.caps hs

theorem find_mem (k : Key) : ∀ (l : List (Key × Def)) (d : Def), find k l = some d → (k, d) ∈ l
  | [], d, h => by simp [find] at h
  | (k', d') :: r, d, h => by
    simp only [find] at h
    split at h
    · rename_i hk; simp only [Option.some.injEq] at h; subst hk; subst h; exact List.mem_cons_self
    · exact List.mem_cons_of_mem _ (find_mem k r d h)

theorem count_cons_self (ck : CKey) (n : Nat) (cs : List (CKey × Nat)) :
    count ck ((ck, n) :: cs) = n := by simp [count]

theorem count_cons_ne (ck ck' : CKey) (n : Nat) (cs : List (CKey × Nat)) (h : ck' ≠ ck) :
    count ck ((ck', n) :: cs) = count ck cs := by simp [count, h]

/-- Invariant of the registry machine, over every reachable state. -/
structure Inv (H S : Bytes → Nat) (st : St) : Prop where
  regLog : ∀ k d, (k, d) ∈ st.reg → ∃ e ∈ st.log, e.key = k ∧ e.d = d
  stackLog : ∀ k d, some (k, d) ∈ st.stack → ∃ e ∈ st.log, e.key = k ∧ e.d = d
  fresh : ∀ e ∈ st.log, e.d.idx < st.next
  idxKey : ∀ e1 ∈ st.log, ∀ e2 ∈ st.log, e1.d.idx = e2.d.idx → e1.key = e2.key ∧ e1.d = e2.d
  keyOk : ∀ e ∈ st.log, e.key = mkKey H S e.site
  nInOk : ∀ e ∈ st.log, e.d.nIn = nInKey e.key
  cntOk : ∀ e ∈ st.log, 1 ≤ e.d.cnt ∧ e.d.cnt ≤ count e.d.ck st.counters
  cntInj : ∀ e1 ∈ st.log, ∀ e2 ∈ st.log, e1.d.ck = e2.d.ck → e1.d.cnt = e2.d.cnt →
    e1.d.idx = e2.d.idx

theorem inv_init (H S : Bytes → Nat) : Inv H S {} := by
  constructor <;> intros <;> simp_all

theorem inv_step (H S : Bytes → Nat) (st : St) (op : Op) (hI : Inv H S st) :
    Inv H S (step H S st op) := by
  cases op with
  | exit =>
    simp only [step]
    split
    · exact hI
    · rename_i r hs
      exact { hI with
        stackLog := fun k d h => hI.stackLog k d (by rw [hs]; exact List.mem_cons_of_mem _ h) }
    · rename_i k0 d0 r hs
      refine { hI with regLog := ?_, stackLog := ?_ }
      · intro k d h
        simp only [List.mem_cons, Prod.mk.injEq] at h
        rcases h with ⟨rfl, rfl⟩ | h
        · exact hI.stackLog k d (by rw [hs]; exact List.mem_cons_self)
        · exact hI.regLog k d h
      · intro k d h
        exact hI.stackLog k d (by rw [hs]; exact List.mem_cons_of_mem _ h)
  | enter c =>
    simp only [step]
    split
    · -- hit
      rename_i d hf
      have hmem := find_mem _ _ _ hf
      obtain ⟨e0, he0, hk0, hd0⟩ := hI.regLog _ _ hmem
      constructor
      · intro k d' h
        obtain ⟨e, he, h1, h2⟩ := hI.regLog k d' h
        exact ⟨e, List.mem_cons_of_mem _ he, h1, h2⟩
      · intro k d' h
        simp only [List.mem_cons, reduceCtorEq, false_or] at h
        obtain ⟨e, he, h1, h2⟩ := hI.stackLog k d' h
        exact ⟨e, List.mem_cons_of_mem _ he, h1, h2⟩
      · intro e he
        simp only [List.mem_cons] at he
        rcases he with rfl | he
        · simpa [hd0] using hI.fresh e0 he0
        · exact hI.fresh e he
      · intro e1 h1 e2 h2 hidx
        simp only [List.mem_cons] at h1 h2
        rcases h1 with rfl | h1 <;> rcases h2 with rfl | h2
        · exact ⟨rfl, rfl⟩
        · simp only at hidx ⊢
          have := hI.idxKey e0 he0 e2 h2 (by rw [hd0]; exact hidx)
          rw [hk0, hd0] at this; exact this
        · simp only at hidx ⊢
          have := hI.idxKey e1 h1 e0 he0 (by rw [hd0]; exact hidx)
          rw [hk0, hd0] at this; exact this
        · exact hI.idxKey e1 h1 e2 h2 hidx
      · intro e he
        simp only [List.mem_cons] at he
        rcases he with rfl | he
        · rfl
        · exact hI.keyOk e he
      · intro e he
        simp only [List.mem_cons] at he
        rcases he with rfl | he
        · simp only; have := hI.nInOk e0 he0; rw [hk0, hd0] at this; exact this
        · exact hI.nInOk e he
      · intro e he
        simp only [List.mem_cons] at he
        rcases he with rfl | he
        · simp only; have := hI.cntOk e0 he0; rw [hd0] at this; exact this
        · exact hI.cntOk e he
      · intro e1 h1 e2 h2 hck hcnt
        simp only [List.mem_cons] at h1 h2
        rcases h1 with rfl | h1 <;> rcases h2 with rfl | h2
        · rfl
        · simp only at hck hcnt ⊢
          have := hI.cntInj e0 he0 e2 h2 (by rw [hd0]; exact hck) (by rw [hd0]; exact hcnt)
          rw [hd0] at this; exact this
        · simp only at hck hcnt ⊢
          have := hI.cntInj e1 h1 e0 he0 (by rw [hd0]; exact hck) (by rw [hd0]; exact hcnt)
          rw [hd0] at this; exact this
        · exact hI.cntInj e1 h1 e2 h2 hck hcnt
    · -- miss
      rename_i hf
      constructor
      · intro k d' h
        obtain ⟨e, he, h1, h2⟩ := hI.regLog k d' h
        exact ⟨e, List.mem_cons_of_mem _ he, h1, h2⟩
      · intro k d' h
        simp only [List.mem_cons, Option.some.injEq, Prod.mk.injEq] at h
        rcases h with ⟨rfl, rfl⟩ | h
        · exact ⟨_, List.mem_cons_self, rfl, rfl⟩
        · obtain ⟨e, he, h1, h2⟩ := hI.stackLog k d' h
          exact ⟨e, List.mem_cons_of_mem _ he, h1, h2⟩
      · intro e he
        simp only [List.mem_cons] at he
        rcases he with rfl | he
        · simp
        · have := hI.fresh e he; simp only; omega
      · intro e1 h1 e2 h2 hidx
        simp only [List.mem_cons] at h1 h2
        rcases h1 with rfl | h1 <;> rcases h2 with rfl | h2
        · exact ⟨rfl, rfl⟩
        · have := hI.fresh e2 h2; simp only at hidx; omega
        · have := hI.fresh e1 h1; simp only at hidx; omega
        · exact hI.idxKey e1 h1 e2 h2 hidx
      · intro e he
        simp only [List.mem_cons] at he
        rcases he with rfl | he
        · rfl
        · exact hI.keyOk e he
      · intro e he
        simp only [List.mem_cons] at he
        rcases he with rfl | he
        · exact nInOf_eq_nInKey H S c
        · exact hI.nInOk e he
      · intro e he
        simp only [List.mem_cons] at he
        rcases he with rfl | he
        · simp only [count_cons_self]; omega
        · have := hI.cntOk e he
          by_cases hck : (⟨c.ns, c.base, c.unique⟩ : CKey) = e.d.ck
          · rw [← hck, count_cons_self]; rw [← hck] at this; omega
          · rw [count_cons_ne _ _ _ _ hck]; exact this
      · intro e1 h1 e2 h2 hck hcnt
        simp only [List.mem_cons] at h1 h2
        rcases h1 with rfl | h1 <;> rcases h2 with rfl | h2
        · rfl
        · have := hI.cntOk e2 h2; simp only at hck hcnt; rw [← hck] at this; omega
        · have := hI.cntOk e1 h1; simp only at hck hcnt; rw [hck] at this; omega
        · exact hI.cntInj e1 h1 e2 h2 hck hcnt

theorem inv_foldl (H S : Bytes → Nat) : ∀ (ops : List Op) (st : St), Inv H S st →
    Inv H S (ops.foldl (step H S) st)
  | [], st, h => h
  | op :: r, st, h => inv_foldl H S r _ (inv_step H S st op h)

theorem inv_run (H S : Bytes → Nat) (ops : List Op) : Inv H S (run H S ops) :=
  inv_foldl H S ops {} (inv_init H S)

theorem foldl_log_sites (H S : Bytes → Nat) : ∀ (ops : List Op) (st : St) (e : Entry),
    e ∈ (ops.foldl (step H S) st).log → e ∈ st.log ∨ e.site ∈ sitesOf ops
  | [], st, e, h => Or.inl h
  | .exit :: r, st, e, h => by
    have := foldl_log_sites H S r (step H S st .exit) e h
    rcases this with h' | h'
    · left
      simp only [step] at h'
      split at h' <;> exact h'
    · right; simpa [sitesOf] using h'
  | .enter c :: r, st, e, h => by
    have := foldl_log_sites H S r (step H S st (.enter c)) e h
    rcases this with h' | h'
    · simp only [step] at h'
      split at h'
      · simp only [List.mem_cons] at h'
        rcases h' with rfl | h'
        · right; simp [sitesOf]
        · left; exact h'
      · simp only [List.mem_cons] at h'
        rcases h' with rfl | h'
        · right; simp [sitesOf]
        · left; exact h'
    · right; simp only [sitesOf, List.mem_cons]; exact Or.inr h'

/-- Output arity recorded in a definition is the one determined by its key. -/
def OutOk (outOf : Key → Nat) (st : St) : Prop := ∀ e ∈ st.log, e.d.nOut = outOf e.key

def opOutOk (H S : Bytes → Nat) (outOf : Key → Nat) : Op → Prop
  | .enter c => c.nOut = outOf (mkKey H S c)
  | .exit => True

theorem out_step (H S : Bytes → Nat) (outOf : Key → Nat) (st : St) (op : Op) (hI : Inv H S st)
    (hO : OutOk outOf st) (hop : opOutOk H S outOf op) : OutOk outOf (step H S st op) := by
  cases op with
  | exit =>
    simp only [step]
    split <;> exact hO
  | enter c =>
    simp only [step]
    split
    · rename_i d hf
      obtain ⟨e0, he0, hk0, hd0⟩ := hI.regLog _ _ (find_mem _ _ _ hf)
      intro e he
      simp only [List.mem_cons] at he
      rcases he with rfl | he
      · simp only; have := hO e0 he0; rw [hk0, hd0] at this; exact this
      · exact hO e he
    · intro e he
      simp only [List.mem_cons] at he
      rcases he with rfl | he
      · exact hop
      · exact hO e he

theorem out_foldl (H S : Bytes → Nat) (outOf : Key → Nat) : ∀ (ops : List Op) (st : St),
    Inv H S st → OutOk outOf st → (∀ op ∈ ops, opOutOk H S outOf op) →
    OutOk outOf (ops.foldl (step H S) st)
  | [], st, _, hO, _ => hO
  | op :: r, st, hI, hO, hops =>
    out_foldl H S outOf r _ (inv_step H S st op hI)
      (out_step H S outOf st op hI hO (hops op List.mem_cons_self))
      (fun o ho => hops o (List.mem_cons_of_mem _ ho))

theorem map_s_inj : ∀ (a b : List String), a.map Seg.s = b.map Seg.s → a = b
  | [], [], _ => rfl
  | [], _ :: _, h => by simp at h
  | _ :: _, [], h => by simp at h
  | x :: a, y :: b, h => by
    simp only [List.map_cons, List.cons.injEq, Seg.s.injEq] at h
    rw [h.1, map_s_inj a b h.2]

/-- `domainOf` determines counter key and counter value among namespaces of equal depth. -/
theorem domainOf_inj (ck1 ck2 : CKey) (n1 n2 : Nat) (hlen : ck1.ns.length = ck2.ns.length)
    (hb : ck1.base = ck2.base) (h1 : 1 ≤ n1) (h2 : 1 ≤ n2)
    (h : domainOf ck1 n1 = domainOf ck2 n2) : ck1 = ck2 ∧ n1 = n2 := by
  unfold domainOf at h
  rw [List.append_assoc, List.append_assoc] at h
  have hl : (ck1.ns.map Seg.s).length = (ck2.ns.map Seg.s).length := by simp [hlen]
  obtain ⟨hns, hrest⟩ := List.append_inj h hl
  have hns' : ck1.ns = ck2.ns := map_s_inj _ _ hns
  simp only [List.cons_append, List.nil_append, List.cons.injEq] at hrest
  obtain ⟨_, htail⟩ := hrest
  cases ck1 with | mk ns1 b1 u1 =>
  cases ck2 with | mk ns2 b2 u2 =>
  simp only at hns' hb htail ⊢
  subst hns'; subst hb
  cases u1 <;> cases u2 <;> simp only [Bool.false_eq_true, if_false, if_true] at htail
  · simp only [List.cons.injEq, Seg.n.injEq, and_true] at htail; exact ⟨rfl, htail⟩
  · split at htail <;> simp at htail
  · split at htail <;> simp at htail
  · split at htail <;> split at htail
    · rename_i a b; exact ⟨rfl, by omega⟩
    · simp at htail
    · simp at htail
    · simp only [List.cons.injEq, Seg.n.injEq, and_true, true_and] at htail; exact ⟨rfl, htail⟩

end J2O.C07
