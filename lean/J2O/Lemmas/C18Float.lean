/-
C18 — helper lemmas for Props/C18Float.lean: IEEE rounding (`roundFmt`, the model of numpy's `astype` to a float
dtype) is the identity on every value that is representable in a NARROWER format (`roundFmt_widen`), hence numpy's
promotion float16 → float32 → float64 changes no value.
-/
import J2O.Lemmas.C18Promo
import Mathlib.Analysis.Real.Sqrt
import Mathlib.Tactic.Linarith
import Mathlib.Tactic.Ring
import Mathlib.Tactic.Positivity
set_option linter.unusedSimpArgs false
set_option linter.unusedVariables false

namespace J2O.C18

theorem pow2_eq_zpow (k : Int) : pow2 k = (2 : ℚ) ^ k := by
  unfold pow2
  split
  · rename_i h
    obtain ⟨n, rfl⟩ := Int.eq_ofNat_of_zero_le h
    simp
  · rename_i h
    have hk : k = -(((-k).toNat : ℕ) : ℤ) := by omega
    rw [Rat.mkRat_eq_div]
    conv_rhs => rw [hk]
    rw [zpow_neg, zpow_natCast]
    push_cast
    simp

theorem pow2_pos (k : Int) : 0 < pow2 k := by
  rw [pow2_eq_zpow]; exact zpow_pos (by norm_num) k

theorem pow2_add_nat (k : Int) (n : Nat) : pow2 (k + n) = pow2 k * ((2 ^ n : Nat) : ℚ) := by
  rw [pow2_eq_zpow, pow2_eq_zpow, zpow_add₀ (by norm_num), zpow_natCast]
  push_cast; rfl

theorem pow2_mono {a b : Int} (h : a ≤ b) : pow2 a ≤ pow2 b := by
  rw [pow2_eq_zpow, pow2_eq_zpow]
  exact zpow_le_zpow_right₀ (by norm_num) h

theorem roundHalfEven_int (z : Int) : roundHalfEven (z : ℚ) = z := by
  unfold roundHalfEven
  simp [Rat.floor_intCast]


theorem roundFmt_widen (f g : Fmt) (hp : f.p ≤ g.p) (hmin : g.emin ≤ f.emin) (hmax : f.emax ≤ g.emax)
    (q : ℚ) (hq : roundFmt f q = .fin q) : roundFmt g q = .fin q := by
  by_cases h0 : q = 0
  · subst h0; simp [roundFmt]
  · unfold roundFmt at hq ⊢
    simp only [h0, if_false] at hq ⊢
    generalize ilog2 q.abs = e at hq ⊢
    obtain ⟨n, hn⟩ : ∃ n : Nat, max (e - f.p + 1) f.emin = max (e - g.p + 1) g.emin + n :=
      ⟨(max (e - f.p + 1) f.emin - max (e - g.p + 1) g.emin).toNat, by omega⟩
    generalize max (e - g.p + 1) g.emin = qg at hn ⊢
    rw [hn] at hq
    split at hq
    · split at hq <;> simp at hq
    · rename_i hno
      have hM := Sc.fin.inj hq
      generalize hN : roundHalfEven (q.abs / pow2 (qg + ↑n)) = N at hM hno
      have ha : (N : ℚ) * pow2 (qg + n) = q.abs := by
        by_cases hneg : q < 0
        · simp only [hneg, if_true] at hM
          rw [Rat.abs_of_nonpos (le_of_lt hneg)]; linarith
        · simp only [hneg, if_false] at hM
          rw [Rat.abs_of_nonneg (not_lt.mp hneg)]; exact hM
      have hpos := pow2_pos qg
      have hx : q.abs / pow2 qg = ((N * 2 ^ n : Int) : ℚ) := by
        rw [← ha, pow2_add_nat]
        field_simp
        push_cast; ring
      rw [hx, roundHalfEven_int]
      have hM' : ((N * 2 ^ n : Int) : ℚ) * pow2 qg = q.abs := by
        rw [← ha, pow2_add_nat]; push_cast; ring
      rw [hM']
      have hov : ¬ pow2 (g.emax + 1) ≤ q.abs := by
        intro hh
        apply hno
        rw [ha]
        exact le_trans (pow2_mono (by omega)) hh
      simp only [hov, if_false]
      congr 1
      by_cases hneg : q < 0
      · simp only [hneg, if_true]; rw [Rat.abs_of_nonpos (le_of_lt hneg)]; ring
      · simp only [hneg, if_false]; exact Rat.abs_of_nonneg (not_lt.mp hneg)


def stdFmts : List Fmt := [f16, f32, f64]

/-- `s` is a value of the float format (NaN, ±inf, or a rational the format represents exactly) -/
def RepSc (f : Fmt) (s : Sc) : Prop := roundSc f s = s

/-- `v` is a value of the real float dtype `k` -/
def InFlt (k : Kind) (v : El) : Prop :=
  match k with
  | .flt f => RepSc f v.re ∧ v.im = zero
  | _ => False

def WellTypedF (t : Tn) : Prop := ∀ v ∈ t.vals, InFlt t.kind v

theorem roundSc_widen (f g : Fmt) (hp : f.p ≤ g.p) (hmin : g.emin ≤ f.emin) (hmax : f.emax ≤ g.emax)
    (s : Sc) (h : RepSc f s) : RepSc g s := by
  unfold RepSc at h ⊢
  cases s with
  | fin q => exact roundFmt_widen f g hp hmin hmax q h
  | nan => rfl
  | pinf => rfl
  | ninf => rfl

/-- on the table's float formats a smaller precision means a sub-format -/
theorem std_fmt_le (f g : Fmt) (hf : f ∈ stdFmts) (hg : g ∈ stdFmts) (hp : f.p ≤ g.p) :
    g.emin ≤ f.emin ∧ f.emax ≤ g.emax := by
  simp only [stdFmts, List.mem_cons, List.mem_nil_iff, or_false] at hf hg
  rcases hf with rfl | rfl | rfl <;> rcases hg with rfl | rfl | rfl <;>
    simp [f16, f32, f64] at hp ⊢

/-- **`astype` float → wider float is exact** -/
theorem castEl_widen_std (f g : Fmt) (hf : f ∈ stdFmts) (hg : g ∈ stdFmts) (hp : f.p ≤ g.p) (v : El)
    (hv : InFlt (.flt f) v) : castEl (.flt f) (.flt g) v = some v := by
  obtain ⟨h1, h2⟩ := hv
  obtain ⟨a, b⟩ := std_fmt_le f g hf hg hp
  have := roundSc_widen f g hp a b v.re h1
  unfold RepSc at this
  unfold castEl
  split
  · rfl
  · simp only [this]
    obtain ⟨re, im⟩ := v
    simp at h2
    simp [h2]

theorem castList_widen_std (f g : Fmt) (hf : f ∈ stdFmts) (hg : g ∈ stdFmts) (hp : f.p ≤ g.p) :
    ∀ (vs : List El), (∀ v ∈ vs, InFlt (.flt f) v) → castList (.flt f) (.flt g) vs = some vs := by
  intro vs
  induction vs with
  | nil => intro _; rfl
  | cons v vs ih =>
    intro h
    simp only [castList]
    rw [castEl_widen_std f g hf hg hp v (h v (by simp)), ih (fun w hw => h w (by simp [hw]))]

theorem inFlt_zero (f : Fmt) : InFlt (.flt f) (El.ofRat 0) := by
  refine ⟨?_, rfl⟩
  simp [RepSc, El.ofRat, roundSc, roundFmt]

end J2O.C18
