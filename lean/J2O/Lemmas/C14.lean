/-
C14 — helper lemmas for `J2O.Props.C14` (core Lean only).
-/
import J2O.Model.C14
set_option linter.unusedSimpArgs false
set_option linter.unusedVariables false

namespace J2O.C14

/-- Decidable equality of conversion outcomes (used only by the non-vacuity examples). -/
instance outcomeDecEq {ε α : Type} [DecidableEq ε] [DecidableEq α] : DecidableEq (Except ε α) :=
  fun a b =>
    match a, b with
    | .ok x, .ok y => if h : x = y then isTrue (by rw [h]) else isFalse (fun e => h (by cases e; rfl))
    | .error x, .error y =>
      if h : x = y then isTrue (by rw [h]) else isFalse (fun e => h (by cases e; rfl))
    | .ok _, .error _ => isFalse (fun e => by cases e)
    | .error _, .ok _ => isFalse (fun e => by cases e)

/-! ### generic -/

theorem visit_cons {α σ : Type} (step : α → σ → σ) (s : σ) (a : α) (l : List α) :
    visit step s (a :: l) = visit step (step a s) l := rfl

theorem visit_nil {α σ : Type} (step : α → σ → σ) (s : σ) : visit step s [] = s := rfl

/-- A `lookup` that succeeds returns a member. -/
theorem mem_of_lookup {κ ν : Type} [BEq κ] [LawfulBEq κ] (l : List (κ × ν)) (k : κ) (v : ν)
    (h : l.lookup k = some v) : (k, v) ∈ l := by
  induction l with
  | nil => simp [List.lookup] at h
  | cons kv l ih =>
    obtain ⟨k', v'⟩ := kv
    simp only [List.lookup_cons] at h
    by_cases hk : k == k'
    · simp only [hk, if_true] at h
      have : k = k' := by simpa using hk
      cases h; subst this; exact List.mem_cons_self
    · simp only [hk] at h
      exact List.mem_cons_of_mem _ (ih h)

/-- Swapping two entries with different keys does not change any lookup. -/
theorem lookup_swap {κ ν : Type} [BEq κ] [LawfulBEq κ] (a b : κ × ν) (l : List (κ × ν))
    (hab : a.1 ≠ b.1) (k : κ) : (a :: b :: l).lookup k = (b :: a :: l).lookup k := by
  obtain ⟨ka, va⟩ := a
  obtain ⟨kb, vb⟩ := b
  simp only [List.lookup_cons]
  by_cases h1 : k == ka <;> by_cases h2 : k == kb <;> simp [h1, h2]
  · have e1 : k = ka := by simpa using h1
    have e2 : k = kb := by simpa using h2
    exact absurd (e1.symm.trans e2) hab

/-- Lookups in an association list with distinct keys do not depend on its order. -/
theorem lookup_perm {κ ν : Type} [BEq κ] [LawfulBEq κ] {l l' : List (κ × ν)} (h : l.Perm l') :
    (l.map Prod.fst).Nodup → ∀ k, l.lookup k = l'.lookup k := by
  induction h with
  | nil => intro _ _; rfl
  | cons x _ ih =>
    intro hn k
    rw [List.map_cons, List.nodup_cons] at hn
    obtain ⟨xk, xv⟩ := x
    simp only [List.lookup_cons, ih hn.2 k]
  | swap x y l =>
    intro hn k
    rw [List.map_cons, List.map_cons, List.nodup_cons] at hn
    have hne : y.1 ≠ x.1 := by
      intro e
      apply hn.1
      simp [e]
    exact lookup_swap y x l hne k
  | trans h1 _ ih1 ih2 =>
    intro hn k
    have hn2 := (List.Perm.nodup_iff (h1.map Prod.fst)).mp hn
    rw [ih1 hn k, ih2 hn2 k]

/-- In an association list with distinct keys, members with the same key are the same member. -/
theorem eq_of_nodup_keys {κ ν : Type} (l : List (κ × ν)) (hk : (l.map Prod.fst).Nodup)
    (a b : κ × ν) (ha : a ∈ l) (hb : b ∈ l) (h : a.1 = b.1) : a = b := by
  induction l with
  | nil => cases ha
  | cons x l ih =>
    rw [List.map_cons, List.nodup_cons] at hk
    rcases List.mem_cons.mp ha with rfl | ha' <;> rcases List.mem_cons.mp hb with rfl | hb'
    · rfl
    · exact absurd (List.mem_map.mpr ⟨b, hb', h.symm⟩) hk.1
    · exact absurd (List.mem_map.mpr ⟨a, ha', h⟩) hk.1
    · exact ih hk.2 ha' hb'

/-! ### the edits -/

theorem removeNode_comm (a b : Nat) (g : Graph) :
    removeNode a (removeNode b g) = removeNode b (removeNode a g) := by
  simp only [removeNode, List.filter_filter]
  apply List.filter_congr
  intro m _
  exact Bool.and_comm _ _

theorem visit_removeNode (l : List Nat) (g : Graph) : visit removeNode g l = removeAll l g := by
  induction l generalizing g with
  | nil =>
    show g = List.filter (fun m => !([] : List Nat).contains m.id) g
    exact (List.filter_eq_self.mpr (by simp)).symm
  | cons a l ih =>
    rw [visit_cons, ih]
    simp only [removeAll, removeNode, List.filter_filter]
    apply List.filter_congr
    intro m _
    simp only [List.contains_cons, Bool.not_or, bne]
    exact Bool.and_comm _ _

theorem subst_comm (o1 n1 o2 n2 v : Nat) (h1 : o1 ≠ o2) (h2 : n1 ≠ o2) (h3 : n2 ≠ o1) :
    subst o1 n1 (subst o2 n2 v) = subst o2 n2 (subst o1 n1 v) := by
  unfold subst
  by_cases a : v = o2 <;> by_cases b : v = o1 <;> simp [a, b, h1, h2, h3] <;> omega

theorem mem_visit_collect {α β : Type} (f : α → List β) (l : List α) (acc : List β) (x : β) :
    x ∈ visit (collectStep f) acc l ↔ x ∈ acc ∨ ∃ a ∈ l, x ∈ f a := by
  induction l generalizing acc with
  | nil => simp [visit]
  | cons a l ih =>
    rw [visit_cons, ih]
    simp only [collectStep, List.mem_append, List.mem_cons, exists_eq_or_imp]
    constructor
    · rintro ((h | h) | h)
      · exact Or.inr (Or.inl h)
      · exact Or.inl h
      · exact Or.inr (Or.inr h)
    · rintro (h | h | h)
      · exact Or.inl (Or.inr h)
      · exact Or.inl (Or.inl h)
      · exact Or.inr h

theorem permLoop_swap {β : Type} [DecidableEq β] (x y : Option β) (l : List (Option β))
    (acc : Option β) : permLoop (x :: y :: l) acc = permLoop (y :: x :: l) acc := by
  rcases x with _ | p <;> rcases y with _ | q <;> rcases acc with _ | r <;>
    simp only [permLoop] <;> (try split) <;> (try split) <;> (try split) <;> simp_all

theorem visit_assocInsert {κ ν : Type} (l m : List (κ × ν)) :
    visit assocInsert m l = l.reverse ++ m := by
  induction l generalizing m with
  | nil => rfl
  | cons a l ih => rw [visit_cons, ih]; simp [assocInsert]

/-! ### refresh -/

theorem refresh_other (n : Node) (ann : Ann) (w : Nat) (hw : w ≠ n.out) :
    refresh n ann w = ann w := by
  unfold refresh
  cases hi : n.ins with
  | nil => rfl
  | cons src rest =>
    simp only
    cases ann src <;> cases broadcast (List.filterMap ann (src :: rest)) <;> simp [upd, hw]

theorem filterMap_congr' {α β : Type} (f g : α → Option β) (l : List α)
    (h : ∀ x ∈ l, f x = g x) : l.filterMap f = l.filterMap g := by
  induction l with
  | nil => rfl
  | cons a l ih =>
    simp only [List.filterMap_cons, h a List.mem_cons_self]
    rw [ih (fun x hx => h x (List.mem_cons_of_mem _ hx))]

theorem refresh_out_congr (n : Node) (ann ann' : Ann) (hin : ∀ v ∈ n.ins, ann v = ann' v)
    (hout : ann n.out = ann' n.out) : refresh n ann n.out = refresh n ann' n.out := by
  unfold refresh
  cases hi : n.ins with
  | nil => exact hout
  | cons src rest =>
    have hfm : List.filterMap ann (src :: rest) = List.filterMap ann' (src :: rest) := by
      apply filterMap_congr'
      intro v hv
      exact hin v (by rw [hi]; exact hv)
    have hsrc : ann src = ann' src := hin src (by rw [hi]; exact List.mem_cons_self)
    simp only [hfm, hsrc]
    cases ann' src <;> cases broadcast (List.filterMap ann' (src :: rest)) <;> simp [upd, hout]

theorem refresh_comm (a b : Node) (ann : Ann) (h1 : b.out ∉ a.ins) (h2 : a.out ∉ b.ins)
    (h3 : a.out ≠ b.out) : refresh a (refresh b ann) = refresh b (refresh a ann) := by
  funext w
  by_cases ha : w = a.out
  · subst ha
    rw [refresh_other b (refresh a ann) a.out h3]
    apply refresh_out_congr
    · intro v hv
      exact refresh_other b ann v (fun e => h1 (e ▸ hv))
    · exact refresh_other b ann a.out h3
  · by_cases hb : w = b.out
    · subst hb
      rw [refresh_other a (refresh b ann) b.out (fun e => h3 e.symm)]
      apply Eq.symm
      apply refresh_out_congr
      · intro v hv
        exact refresh_other a ann v (fun e => h2 (e ▸ hv))
      · exact refresh_other a ann b.out (fun e => h3 e.symm)
    · rw [refresh_other a _ w ha, refresh_other b _ w hb, refresh_other b _ w hb,
        refresh_other a _ w ha]

/-! ### memo -/

/-- The cache is a sub-relation of the graph of the pure function. -/
def MemoOK {κ ν : Type} (f : κ → ν) (cache : List (κ × ν)) : Prop := ∀ k v, (k, v) ∈ cache → v = f k

theorem memoCall_val {κ ν : Type} [BEq κ] [LawfulBEq κ] (f : κ → ν) (cache : List (κ × ν))
    (h : MemoOK f cache) (k : κ) : (memoCall f cache k).1 = f k := by
  unfold memoCall
  cases hl : cache.lookup k with
  | none => rfl
  | some v => exact h k v (mem_of_lookup cache k v hl)

theorem memoCall_ok {κ ν : Type} [BEq κ] [LawfulBEq κ] (f : κ → ν) (cache : List (κ × ν))
    (h : MemoOK f cache) (k : κ) : MemoOK f (memoCall f cache k).2 := by
  unfold memoCall
  cases hl : cache.lookup k with
  | some v => exact h
  | none =>
    intro k' v' hm
    simp only [List.mem_cons, Prod.mk.injEq] at hm
    rcases hm with ⟨rfl, rfl⟩ | hm
    · rfl
    · exact h k' v' hm

/-! ### conversions -/

/-- Invariant of the process-wide state: the memo cache only holds true answers. -/
def GlobalOK (sig : Nat → Bool) (g : Global) : Prop := MemoOK sig g.memo

/-- Two process-wide states a request cannot tell apart: same plugin *lookups*, both memo
    caches consistent, same instance-map answers on the keys `w` written by the request. -/
def Rel (sig : Nat → Bool) (w : List Nat) (g g' : Global) : Prop :=
  (∀ p, g.plugins.lookup p = g'.plugins.lookup p) ∧ GlobalOK sig g ∧ GlobalOK sig g' ∧
  (∀ k ∈ w, g.instances.lookup k = g'.instances.lookup k)

/-- Keys written after an operation. -/
def wAfter {κ : Type} (w : List Nat) : Op κ → List Nat
  | .bind k _ => k :: w
  | _ => w

def opScoped {κ : Type} (w : List Nat) : Op κ → Bool
  | .resolve k => w.contains k
  | _ => true

theorem wellScoped_cons {κ : Type} (w : List Nat) (op : Op κ) (ops : List (Op κ)) :
    wellScoped w (op :: ops) = (opScoped w op && wellScoped (wAfter w op) ops) := by
  cases op <;> simp [wellScoped, opScoped, wAfter]

theorem step_rel {κ : Type} [BEq κ] (sig : Nat → Bool) (w : List Nat) (g g' : Global) (c : Ctx κ)
    (op : Op κ) (hr : Rel sig w g g') (hs : opScoped w op = true) :
    (step sig g c op).1 = (step sig g' c op).1 ∧
    Rel sig (wAfter w op) (step sig g c op).2 (step sig g' c op).2 := by
  obtain ⟨hp, hg, hg', hi⟩ := hr
  cases op with
  | fresh b => exact ⟨rfl, hp, hg, hg', hi⟩
  | bfresh b => exact ⟨rfl, hp, hg, hg', hi⟩
  | call k ns b u =>
    simp only [step]
    cases c.freg.lookup k <;> exact ⟨rfl, hp, hg, hg', hi⟩
  | lower p =>
    simp only [step, ← hp p]
    cases hl : g.plugins.lookup p with
    | none => exact ⟨rfl, hp, hg, hg', hi⟩
    | some fn =>
      have v1 := memoCall_val sig g.memo hg fn
      have v2 := memoCall_val sig g'.memo hg' fn
      refine ⟨?_, hp, memoCall_ok sig g.memo hg fn, memoCall_ok sig g'.memo hg' fn, hi⟩
      simp only [v1, v2]
  | bind k v =>
    refine ⟨rfl, hp, hg, hg', ?_⟩
    intro k' hk'
    simp only [step, List.lookup_cons]
    by_cases e : k' == k
    · simp [e]
    · simp only [e]
      have : k' ∈ w := by
        simp only [wAfter, List.mem_cons] at hk'
        rcases hk' with rfl | h
        · simp at e
        · exact h
      exact hi k' this
  | resolve k =>
    have hk : k ∈ w := by simpa [opScoped] using hs
    simp only [step, ← hi k hk]
    cases g.instances.lookup k <;> exact ⟨rfl, hp, hg, hg', hi⟩
  | fail => exact ⟨rfl, hp, hg, hg', hi⟩

theorem runOps_rel {κ : Type} [BEq κ] (sig : Nat → Bool) (ops : List (Op κ)) :
    ∀ (w : List Nat) (g g' : Global) (c : Ctx κ), Rel sig w g g' → wellScoped w ops = true →
      (runOps sig g c ops).1 = (runOps sig g' c ops).1 := by
  induction ops with
  | nil => intro w g g' c _ _; rfl
  | cons op ops ih =>
    intro w g g' c hr hs
    rw [wellScoped_cons, Bool.and_eq_true] at hs
    obtain ⟨e1, r1⟩ := step_rel sig w g g' c op hr hs.1
    simp only [runOps]
    generalize hA : step sig g c op = A at e1 r1
    generalize hB : step sig g' c op = B at e1 r1
    obtain ⟨a1, a2⟩ := A
    obtain ⟨b1, b2⟩ := B
    simp only at e1 r1
    subst e1
    cases a1 with
    | error e => rfl
    | ok oc =>
      obtain ⟨out, c1⟩ := oc
      simp only
      have := ih (wAfter w op) a2 b2 c1 r1 hs.2
      generalize hC : runOps sig a2 c1 ops = C at this
      generalize hD : runOps sig b2 c1 ops = D at this
      obtain ⟨c1', c2'⟩ := C
      obtain ⟨d1', d2'⟩ := D
      simp only at this
      subst this
      cases c1' <;> rfl

/-- A conversion leaves the plugin registry alone and keeps the memo cache consistent. -/
theorem step_preserves {κ : Type} [BEq κ] (sig : Nat → Bool) (g : Global) (c : Ctx κ) (op : Op κ)
    (hg : GlobalOK sig g) :
    (step sig g c op).2.plugins = g.plugins ∧ GlobalOK sig (step sig g c op).2 := by
  cases op with
  | fresh b => exact ⟨rfl, hg⟩
  | bfresh b => exact ⟨rfl, hg⟩
  | call k ns b u => simp only [step]; cases c.freg.lookup k <;> exact ⟨rfl, hg⟩
  | lower p =>
    simp only [step]
    cases g.plugins.lookup p with
    | none => exact ⟨rfl, hg⟩
    | some fn => exact ⟨rfl, memoCall_ok sig g.memo hg fn⟩
  | bind k v => exact ⟨rfl, hg⟩
  | resolve k => simp only [step]; cases g.instances.lookup k <;> exact ⟨rfl, hg⟩
  | fail => exact ⟨rfl, hg⟩

theorem runOps_preserves {κ : Type} [BEq κ] (sig : Nat → Bool) (ops : List (Op κ)) :
    ∀ (g : Global) (c : Ctx κ), GlobalOK sig g →
      (runOps sig g c ops).2.plugins = g.plugins ∧ GlobalOK sig (runOps sig g c ops).2 := by
  induction ops with
  | nil => intro g c hg; exact ⟨rfl, hg⟩
  | cons op ops ih =>
    intro g c hg
    obtain ⟨p1, k1⟩ := step_preserves sig g c op hg
    simp only [runOps]
    generalize hA : step sig g c op = A at p1 k1
    obtain ⟨a1, a2⟩ := A
    simp only at p1 k1
    cases a1 with
    | error e => exact ⟨p1, k1⟩
    | ok oc =>
      obtain ⟨out, c1⟩ := oc
      simp only
      obtain ⟨p2, k2⟩ := ih a2 c1 k1
      generalize hC : runOps sig a2 c1 ops = C at p2 k2
      obtain ⟨c1', c2'⟩ := C
      simp only at p2 k2
      cases c1' <;> exact ⟨p2.trans p1, k2⟩

theorem after_preserves {κ : Type} [BEq κ] (sig : Nat → Bool) (hist : List (Request κ)) :
    ∀ (g : Global), GlobalOK sig g →
      (after sig g hist).plugins = g.plugins ∧ GlobalOK sig (after sig g hist) := by
  induction hist with
  | nil => intro g hg; exact ⟨rfl, hg⟩
  | cons r hist ih =>
    intro g hg
    obtain ⟨p1, k1⟩ := runOps_preserves sig r g Ctx.fresh hg
    obtain ⟨p2, k2⟩ := ih (convert sig g r).2 k1
    exact ⟨p2.trans p1, k2⟩

/-! ### keys reach the registry only through an encoding -/

def Ctx.mapKey {κ κ' : Type} (f : κ → κ') (c : Ctx κ) : Ctx κ' :=
  { names := c.names, bnames := c.bnames, fnames := c.fnames,
    freg := c.freg.map (fun kd => (f kd.1, kd.2)) }

theorem lookup_map_inj {κ κ' ν : Type} [DecidableEq κ] [DecidableEq κ'] (f : κ → κ')
    (inj : Function.Injective f) (l : List (κ × ν)) (k : κ) :
    (l.map (fun kd => (f kd.1, kd.2))).lookup (f k) = l.lookup k := by
  induction l with
  | nil => rfl
  | cons kd l ih =>
    obtain ⟨k', d⟩ := kd
    simp only [List.map_cons, List.lookup_cons, ih]
    by_cases e : k = k'
    · subst e; simp
    · have hf : ¬ f k = f k' := fun h => e (inj h)
      have b1 : (k == k') = false := by simpa using e
      have b2 : (f k == f k') = false := by simpa using hf
      rw [b1, b2]

theorem step_mapKey {κ κ' : Type} [DecidableEq κ] [DecidableEq κ'] (f : κ → κ')
    (inj : Function.Injective f) (sig : Nat → Bool) (g : Global) (c : Ctx κ) (op : Op κ) :
    step sig g (c.mapKey f) (op.mapKey f) =
      ((step sig g c op).1.map (fun oc => (oc.1, oc.2.mapKey f)), (step sig g c op).2) := by
  cases op with
  | fresh b => rfl
  | bfresh b => rfl
  | call k ns b u =>
    simp only [step, Op.mapKey, Ctx.mapKey, lookup_map_inj f inj]
    cases c.freg.lookup k <;> rfl
  | lower p =>
    simp only [step, Op.mapKey]
    cases g.plugins.lookup p <;> rfl
  | bind k v => rfl
  | resolve k =>
    simp only [step, Op.mapKey]
    cases g.instances.lookup k <;> rfl
  | fail => rfl

theorem runOps_mapKey {κ κ' : Type} [DecidableEq κ] [DecidableEq κ'] (f : κ → κ')
    (inj : Function.Injective f) (sig : Nat → Bool) (ops : List (Op κ)) :
    ∀ (g : Global) (c : Ctx κ),
      runOps sig g (c.mapKey f) (ops.map (Op.mapKey f)) = runOps sig g c ops := by
  induction ops with
  | nil => intro g c; rfl
  | cons op ops ih =>
    intro g c
    simp only [List.map_cons, runOps, step_mapKey f inj]
    generalize step sig g c op = A
    obtain ⟨a1, a2⟩ := A
    cases a1 with
    | error e => rfl
    | ok oc =>
      obtain ⟨out, c1⟩ := oc
      simp only [Except.map, ih]

/-- Hashing the constants of a key pointwise with an injective hash is an injective encoding. -/
theorem encode_injective {α β γ : Type} (h : β → γ) (inj : Function.Injective h) :
    Function.Injective (fun (k : α × List β) => (k.1, k.2.map h)) := by
  intro a b e
  obtain ⟨a1, a2⟩ := a
  obtain ⟨b1, b2⟩ := b
  simp only [Prod.mk.injEq] at e
  obtain ⟨e1, e2⟩ := e
  subst e1
  congr 1
  induction a2 generalizing b2 with
  | nil => cases b2 <;> simp_all
  | cons x xs ih =>
    cases b2 with
    | nil => simp at e2
    | cons y ys =>
      simp only [List.map_cons, List.cons.injEq] at e2
      rw [inj e2.1, ih ys e2.2]

end J2O.C14
