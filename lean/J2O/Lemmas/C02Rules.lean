/-
C02 — every local rule of the smart constructor `mk` preserves the meaning of the term and the
soundness of its annotations.
-/
import J2O.Lemmas.C02

namespace J2O.C02
open J2O Term

variable {α : Type} (I : Interp α) (ρ : Nat → Tensor α) (WT : Tensor α → Prop)

/-- statement of soundness of one `mk` step -/
def MkStmt (h : Head) (ann : Ann) (args : Term) (r : Term) : Prop :=
  AnnotSound I ρ (.app h ann args) →
    eval I ρ r = eval I ρ (.app h ann args) ∧ AnnotSound I ρ r

theorem mk_dflt (h : Head) (ann : Ann) (args : Term) (hs : AnnotSound I ρ (.app h ann args)) :
    eval I ρ (.app h ann args) = eval I ρ (.app h ann args) ∧ AnnotSound I ρ (.app h ann args) :=
  ⟨rfl, hs⟩

theorem annOK_none (t : Tensor α) : annOK I Ann.none t := by
  constructor <;> intro _ h <;> simp [Ann.none] at h

theorem castT_same (L : Laws I WT) (to : Nat) (x : Tensor α) (h : x.dtype = to) :
    castT I.castS to x = x := by
  apply Tensor.ext'
  · simp [castT, h]
  · rfl
  · rfl
  · funext i; simp [castT, h, L.cast_same]

theorem mk_identity (ann : Ann) (args : Term) :
    MkStmt I ρ .identity ann args (mkIdentity ann args) := by
  intro hs
  unfold mkIdentity
  split
  · rename_i a
    split
    · rename_i hp
      obtain ⟨x, hx⟩ := eval_proper I ρ hp
      refine ⟨by simp [eval, hx, applyHead], hs.1.1⟩
    · exact mk_dflt I ρ _ _ _ hs
  · exact mk_dflt I ρ _ _ _ hs

theorem mk_transpose (q : List Nat) (ann : Ann) (args : Term) :
    MkStmt I ρ (.transpose q) ann args (mkTranspose q ann args) := by
  intro hs
  unfold mkTranspose
  split
  · rename_i p an2 a
    split
    · rename_i hc
      simp only [Bool.and_eq_true] at hc
      obtain ⟨⟨⟨hp, hv1⟩, hv2⟩, hinv⟩ := hc
      obtain ⟨x, hx⟩ := eval_proper I ρ hp
      refine ⟨?_, hs.1.1.1.1⟩
      simp [eval, hx, applyHead, transpose_cancel hv1 hv2 hinv]
    · exact mk_dflt I ρ _ _ _ hs
  · exact mk_dflt I ρ _ _ _ hs

theorem mk_cast (L : Laws I WT) (hWT : ∀ t x, x ∈ eval I ρ t → WT x) (to : Nat) (ann : Ann)
    (args : Term) : MkStmt I ρ (.cast to) ann args (mkCast to ann args) := by
  intro hs
  unfold mkCast
  split
  · rename_i a
    split
    · -- identity cast by annotation
      rename_i hd
      obtain ⟨x, hx⟩ := eval_proper I ρ (dtypeOf_some_proper hd)
      have hdt := (dtypeOf_sound_aux I ρ a).1 hs.1.1 to hd x hx
      refine ⟨?_, hs.1.1⟩
      simp [eval, hx, applyHead, castT_same I WT L to x hdt]
    · split
      · -- cast pair
        rename_i m an2 b hneg
        split
        · rename_i hc
          simp only [Bool.and_eq_true, decide_eq_true_eq] at hc
          obtain ⟨hd, hok⟩ := hc
          obtain ⟨y, hy⟩ := eval_proper I ρ (dtypeOf_some_proper hd)
          have hsb : AnnotSound I ρ b := hs.1.1.1.1
          have hdt := (dtypeOf_sound_aux I ρ b).1 hsb to hd y hy
          have hwt : WT y := hWT b y (by simp [hy])
          refine ⟨?_, hsb⟩
          simp [eval, hy, applyHead, L.cast_rt to m y hok hdt hwt]
        · exact mk_dflt I ρ _ _ _ hs
      · -- pull the cast below the transpose
        rename_i p an2 b hneg
        split
        · rename_i hp
          obtain ⟨y, hy⟩ := eval_proper I ρ hp
          have hsb : AnnotSound I ρ b := hs.1.1.1.1
          refine ⟨?_, ?_⟩
          · simp [eval, hy, applyHead, castT_transpose]
          · simp only [AnnotSound]
            exact ⟨⟨⟨⟨hsb, trivial⟩, annOK_none I _⟩, trivial⟩, annOK_none I _⟩
        · exact mk_dflt I ρ _ _ _ hs
      · -- pull the cast below the reshape
        rename_i an2 b sT hneg
        split
        · rename_i hc
          simp only [Bool.and_eq_true] at hc
          obtain ⟨hpb, hps⟩ := hc
          obtain ⟨y, hy⟩ := eval_proper I ρ hpb
          obtain ⟨z, hz⟩ := eval_proper I ρ hps
          have hsb : AnnotSound I ρ b := hs.1.1.1.1
          have hss : AnnotSound I ρ sT := hs.1.1.1.2.1
          refine ⟨?_, ?_⟩
          · simp [eval, hy, hz, applyHead, L.reshape_cast]
          · simp only [AnnotSound]
            exact ⟨⟨⟨⟨hsb, trivial⟩, annOK_none I _⟩, hss, trivial⟩, annOK_none I _⟩
        · exact mk_dflt I ρ _ _ _ hs
      · exact mk_dflt I ρ _ _ _ hs
  · exact mk_dflt I ρ _ _ _ hs

theorem mk_castLike (ann : Ann) (args : Term) :
    MkStmt I ρ .castLike ann args (mkCastLike ann args) := by
  intro hs
  unfold mkCastLike
  split
  · rename_i p an2 b l
    split
    · rename_i hc
      simp only [Bool.and_eq_true] at hc
      obtain ⟨hpb, hpl⟩ := hc
      obtain ⟨y, hy⟩ := eval_proper I ρ hpb
      obtain ⟨z, hz⟩ := eval_proper I ρ hpl
      have hsb : AnnotSound I ρ b := hs.1.1.1.1
      have hsl : AnnotSound I ρ l := hs.1.2.1
      refine ⟨?_, ?_⟩
      · simp [eval, hy, hz, applyHead, castT_transpose]
      · simp only [AnnotSound]
        exact ⟨⟨⟨⟨hsb, hsl, trivial⟩, annOK_none I _⟩, trivial⟩, annOK_none I _⟩
    · exact mk_dflt I ρ _ _ _ hs
  · exact mk_dflt I ρ _ _ _ hs

/-! ### pulling a transpose above a pointwise operator -/

theorem eval_ofList (l : List Term) : eval I ρ (ofList l) = l.flatMap (eval I ρ) := by
  induction l with
  | nil => rfl
  | cons t ts ih => simp [ofList, eval, ih]

theorem annot_ofList (l : List Term) : AnnotSound I ρ (ofList l) ↔ ∀ t ∈ l, AnnotSound I ρ t := by
  induction l with
  | nil => simp [ofList, AnnotSound]
  | cons t ts ih => simp [ofList, AnnotSound, ih]

theorem annot_toList (t : Term) (h : AnnotSound I ρ t) : ∀ a ∈ t.toList, AnnotSound I ρ a := by
  induction t with
  | cons a ts _ ih2 =>
    intro b hb
    simp only [toList, List.mem_cons] at hb
    rcases hb with rfl | hb
    · exact h.1
    · exact ih2 h.2 b hb
  | nil => intro b hb; simp [toList] at hb
  | leaf id ann s => intro b hb; simp [toList] at hb; subst hb; exact h
  | boolc v => intro b hb; simp [toList] at hb; subst hb; exact h
  | app hd ann args _ => intro b hb; simp [toList] at hb; subst hb; exact h

theorem pull1_sem (p : List Nat) (n : Option Nat) (a x : Term) (h : pull1 p n a = some x)
    (hs : AnnotSound I ρ a) :
    ∃ t, eval I ρ x = [t] ∧ eval I ρ a = [transpose p t] ∧ AnnotSound I ρ x ∧
      (∀ k, n = some k → PullOK k t) ∧
      (∀ an y, a = .app (.transpose p) an (.cons y .nil) → y = x) := by
  unfold pull1 at h
  split at h
  · rename_i q an y
    split at h
    · rename_i hc
      simp only [Bool.and_eq_true, decide_eq_true_eq] at hc
      obtain ⟨⟨hq, hp⟩, hr⟩ := hc
      simp only [Option.some.injEq] at h
      subst h; subst hq
      obtain ⟨t, ht⟩ := eval_proper I ρ hp
      have hsy : AnnotSound I ρ y := hs.1.1
      refine ⟨t, ht, by simp [eval, ht, applyHead], hsy, ?_, ?_⟩
      · intro k hk
        subst hk
        simp only [rankCond, beq_iff_eq] at hr
        exact Or.inl (rankOf_sound I ρ y hsy k hr t ht)
      · intro an' y' he; cases he; rfl
    · simp at h
  · rename_i id ann
    split at h
    · rename_i o1 o2 kv rv hr
      split at h
      · rename_i hle
        simp only [Option.some.injEq] at h
        subst h
        have hsl := hs.2 rfl
        have hrank : (ρ id).rank = rv := by
          simp only [annRank, Option.map_eq_some_iff] at hr
          obtain ⟨sh, hsh, hlen⟩ := hr
          rw [← hlen]
          exact (hs.1.2 sh hsh).1
        refine ⟨ρ id, by simp [eval], ?_, hs, ?_, ?_⟩
        · simp [eval, transpose_scalarLike p _ hsl]
        · intro k' hk'
          simp only [Option.some.injEq] at hk'
          subst hk'
          exact Or.inr ⟨hsl, by omega⟩
        · intro an y he; cases he
      · simp at h
    · simp at h
  · simp at h

theorem pullAll_sem (p : List Nat) (n : Option Nat) : ∀ (as xs : List Term),
    pullAll p n as = some xs → (∀ a ∈ as, AnnotSound I ρ a) →
    ∃ ts, eval I ρ (ofList xs) = ts ∧ eval I ρ (ofList as) = ts.map (transpose p) ∧
      (∀ x ∈ xs, AnnotSound I ρ x) ∧ (∀ k, n = some k → ∀ t ∈ ts, PullOK k t) ∧
      (∀ an y, .app (.transpose p) an (.cons y .nil) ∈ as → ∃ t ∈ ts, eval I ρ y = [t]) := by
  intro as
  induction as with
  | nil =>
    intro xs h _
    simp only [pullAll, Option.some.injEq] at h
    subst h
    exact ⟨[], by simp [ofList, eval], by simp [ofList, eval], by simp, by simp, by simp⟩
  | cons a as ih =>
    intro xs h hs
    simp only [pullAll] at h
    split at h
    · rename_i x xs' h1 h2
      simp only [Option.some.injEq] at h
      subst h
      obtain ⟨t, hx, ha, hsx, hok, hT⟩ := pull1_sem I ρ p n a x h1 (hs a (List.mem_cons_self ..))
      obtain ⟨ts, hxs, has, hsxs, hoks, hTs⟩ := ih xs' h2 (fun b hb => hs b (List.mem_cons_of_mem _ hb))
      refine ⟨t :: ts, ?_, ?_, ?_, ?_, ?_⟩
      · simp [ofList, eval, hx, hxs]
      · simp [ofList, eval, ha, has]
      · intro y hy
        rcases List.mem_cons.1 hy with rfl | hy
        · exact hsx
        · exact hsxs y hy
      · intro k hk t' ht'
        rcases List.mem_cons.1 ht' with rfl | ht'
        · exact hok k hk
        · exact hoks k hk t' ht'
      · intro an y hy
        rcases List.mem_cons.1 hy with he | hy
        · have := hT an y he.symm
          subst this
          exact ⟨t, List.mem_cons_self .., hx⟩
        · obtain ⟨t', ht', he'⟩ := hTs an y hy
          exact ⟨t', List.mem_cons_of_mem _ ht', he'⟩
    · simp at h

theorem firstT_mem : ∀ (as : List Term) (p : List Nat) (x : Term), firstT as = some (p, x) →
    ∃ an, Term.app (.transpose p) an (.cons x .nil) ∈ as := by
  intro as
  induction as with
  | nil => intro p x h; simp [firstT] at h
  | cons a as ih =>
    intro p x h
    simp only [firstT] at h
    split at h
    · rename_i r hr
      simp only [Option.some.injEq] at h
      subst h
      unfold asTranspose at hr
      split at hr
      · rename_i p' an a'
        simp only [Option.some.injEq, Prod.mk.injEq] at hr
        obtain ⟨rfl, rfl⟩ := hr
        exact ⟨an, List.mem_cons_self ..⟩
      · simp at hr
    · obtain ⟨an, hm⟩ := ih p x h
      exact ⟨an, List.mem_cons_of_mem _ hm⟩

theorem splitMain_spec : ∀ (l pre post : List Term) (m : Term),
    splitMain l = some (pre, m, post) →
      l = pre ++ [m] ++ post ∧ (∀ c ∈ pre, isScalar0 c = true) ∧ (∀ c ∈ post, isScalar0 c = true) := by
  intro l
  induction l with
  | nil => intro pre post m h; simp [splitMain] at h
  | cons a rest ih =>
    intro pre post m h
    simp only [splitMain] at h
    split at h
    · rename_i ha
      split at h
      · rename_i pre' m' post' hrec
        simp only [Option.some.injEq, Prod.mk.injEq] at h
        obtain ⟨rfl, rfl, rfl⟩ := h
        obtain ⟨e, h1, h2⟩ := ih pre' post' m' hrec
        refine ⟨by simp [e], ?_, h2⟩
        intro c hc
        rcases List.mem_cons.1 hc with rfl | hc
        · exact ha
        · exact h1 c hc
      · simp at h
    · split at h
      · rename_i hall
        simp only [Option.some.injEq, Prod.mk.injEq] at h
        obtain ⟨rfl, rfl, rfl⟩ := h
        exact ⟨by simp, by simp, by simpa [List.all_eq_true] using hall⟩
      · simp at h

theorem eval_scalars0 : ∀ (cs : List Term), (∀ c ∈ cs, isScalar0 c = true) →
    (∀ c ∈ cs, AnnotSound I ρ c) →
    (∀ t ∈ eval I ρ (ofList cs), Scalar0 t) := by
  intro cs
  induction cs with
  | nil => intro _ _ t ht; simp [ofList, eval] at ht
  | cons c cs ih =>
    intro h1 h2 t ht
    have hc := h1 c (List.mem_cons_self ..)
    have hsc := h2 c (List.mem_cons_self ..)
    cases c with
    | leaf id ann sc =>
      cases sc with
      | false => simp [isScalar0] at hc
      | true =>
        simp only [isScalar0, beq_iff_eq, annRank, Option.map_eq_some_iff] at hc
        obtain ⟨sh, hsh, hlen⟩ := hc
        simp only [ofList, eval, List.singleton_append, List.mem_cons] at ht
        rcases ht with rfl | ht
        · refine ⟨hsc.2 rfl, ?_⟩
          rw [(hsc.1.2 sh hsh).1, hlen]
        · exact ih (fun c' hc' => h1 c' (List.mem_cons_of_mem _ hc'))
            (fun c' hc' => h2 c' (List.mem_cons_of_mem _ hc')) t ht
    | _ => simp [isScalar0] at hc

theorem mk_pw (L : Laws I WT) (nm att : String) (ann : Ann) (args : Term) :
    MkStmt I ρ (.pw nm att) ann args (mkPw nm att ann args) := by
  intro hs
  unfold mkPw
  split
  · -- Not(const)
    rename_i b
    exact ⟨by simp [eval, applyHead, L.not_const], trivial⟩
  · -- x * Sigmoid(x)
    rename_i x an2 y
    split
    · rename_i hc
      simp only [Bool.and_eq_true, beq_iff_eq] at hc
      obtain ⟨hp, he⟩ := hc
      obtain ⟨t, ht⟩ := eval_proper I ρ hp
      have hy : eval I ρ y = [t] := by
        rw [← erase_eval I ρ y, ← he, erase_eval I ρ x, ht]
      refine ⟨by simp [eval, ht, hy, applyHead, pw_self_compose _ _ _ L.swish], ?_⟩
      simp only [AnnotSound]
      exact ⟨⟨hs.1.1, trivial⟩, annOK_none I _⟩
    · exact mk_dflt I ρ _ _ _ hs
  · -- Sigmoid(x) * x
    rename_i an2 y x hneg
    split
    · rename_i hc
      simp only [Bool.and_eq_true, beq_iff_eq] at hc
      obtain ⟨hp, he⟩ := hc
      obtain ⟨t, ht⟩ := eval_proper I ρ hp
      have hy : eval I ρ y = [t] := by
        rw [← erase_eval I ρ y, ← he, erase_eval I ρ x, ht]
      refine ⟨by simp [eval, ht, hy, applyHead, pw_compose_self _ _ _ L.swish'], ?_⟩
      simp only [AnnotSound]
      exact ⟨⟨hs.1.2.1, trivial⟩, annOK_none I _⟩
    · exact mk_dflt I ρ _ _ _ hs
  · -- pull a unary pointwise operator below a reshape
    rename_i an2 b sT
    split
    · rename_i hc
      simp only [Bool.and_eq_true] at hc
      obtain ⟨hpb, hps⟩ := hc
      obtain ⟨y, hy⟩ := eval_proper I ρ hpb
      obtain ⟨z, hz⟩ := eval_proper I ρ hps
      have hsb : AnnotSound I ρ b := hs.1.1.1.1
      have hss : AnnotSound I ρ sT := hs.1.1.1.2.1
      refine ⟨?_, ?_⟩
      · simp [eval, hy, hz, applyHead, L.reshape_pw]
      · simp only [AnnotSound]
        refine ⟨⟨⟨⟨hsb, trivial⟩, ?_⟩, hss, trivial⟩, annOK_none I _⟩
        obtain ⟨pr, pd, _⟩ := pw_unary_spec (I.fn nm att) y
        constructor
        · intro d hd
          simp only [derivedAnn] at hd
          have hdt := (dtypeOf_sound_aux I ρ b).1 hsb d hd y hy
          simp [eval, hy, applyHead, pw, hdt]
        · intro sh hsh
          simp only [derivedAnn, Option.map_eq_some_iff] at hsh
          obtain ⟨n, hn, rfl⟩ := hsh
          have hr := rankOf_sound I ρ b hsb n hn y hy
          refine ⟨by simp [eval, hy, applyHead, pr, hr], ?_⟩
          intro k' hk'
          simp [dimOK]
    · exact mk_dflt I ρ _ _ _ hs
  · split
    · -- one reshaped operand among rank-0 scalar constants
      rename_i pre an2 b sT post hsplit
      split
      · rename_i hc
        simp only [Bool.and_eq_true, beq_iff_eq] at hc
        obtain ⟨⟨hpb, hps⟩, hargs⟩ := hc
        obtain ⟨hl, hpre, hpost⟩ := splitMain_spec _ _ _ _ hsplit
        obtain ⟨y, hy⟩ := eval_proper I ρ hpb
        obtain ⟨z, hz⟩ := eval_proper I ρ hps
        have hsa : ∀ a ∈ args.toList, AnnotSound I ρ a := annot_toList I ρ args hs.1
        have hmemR : Term.app .reshape an2 (.cons b (.cons sT .nil)) ∈ args.toList := by
          rw [hl]; simp
        have hsR := hsa _ hmemR
        have hsb : AnnotSound I ρ b := hsR.1.1
        have hss : AnnotSound I ρ sT := hsR.1.2.1
        have hspre : ∀ c ∈ pre, AnnotSound I ρ c := fun c hc => hsa c (by rw [hl]; simp [hc])
        have hspost : ∀ c ∈ post, AnnotSound I ρ c := fun c hc => hsa c (by rw [hl]; simp [hc])
        have s0pre := eval_scalars0 I ρ pre hpre hspre
        have s0post := eval_scalars0 I ρ post hpost hspost
        have eR : eval I ρ (.app .reshape an2 (.cons b (.cons sT .nil))) = [I.reshape y z] := by
          simp [eval, hy, hz, applyHead]
        have eargs : eval I ρ args =
            eval I ρ (ofList pre) ++ [I.reshape y z] ++ eval I ρ (ofList post) := by
          rw [hargs, hl, eval_ofList]
          simp only [List.flatMap_append, List.flatMap_cons, List.flatMap_nil, List.append_nil, eR]
          rw [← eval_ofList, ← eval_ofList]
        have enew : eval I ρ (ofList (pre ++ [b] ++ post)) =
            eval I ρ (ofList pre) ++ [y] ++ eval I ρ (ofList post) := by
          rw [eval_ofList]
          simp only [List.flatMap_append, List.flatMap_cons, List.flatMap_nil, List.append_nil, hy]
          rw [← eval_ofList, ← eval_ofList]
        refine ⟨?_, ?_⟩
        · simp only [eval, applyHead, eargs, enew, hz, List.append_nil]
          rw [L.reshape_pw_sc _ _ _ y z s0pre s0post]
          rfl
        · simp only [AnnotSound]
          refine ⟨⟨⟨?_, ?_⟩, hss, trivial⟩, annOK_none I _⟩
          · rw [annot_ofList]
            intro t ht
            simp only [List.mem_append, List.mem_singleton] at ht
            rcases ht with (ht | rfl) | ht
            · exact hspre t ht
            · exact hsb
            · exact hspost t ht
          · obtain ⟨pr, pd⟩ := pw_scalars_spec (I.fn nm att) _ _ y s0pre s0post
            constructor
            · intro d hd
              simp only [shapeAnn] at hd
              rw [enew]
              cases pre with
              | nil =>
                simp only [List.nil_append, List.singleton_append] at hd
                have hdt := (dtypeOf_sound_aux I ρ b).1 hsb d hd y hy
                simp [ofList, eval, applyHead, pw, hdt]
              | cons c0 cr =>
                simp only [List.cons_append] at hd
                obtain ⟨t0, ht0⟩ := eval_proper I ρ (dtypeOf_some_proper hd)
                have hdt := (dtypeOf_sound_aux I ρ c0).1 (hspre c0 (List.mem_cons_self ..)) d hd t0 ht0
                simp [ofList, eval, ht0, applyHead, pw, hdt]
            · intro sh hsh
              simp only [shapeAnn] at hsh
              obtain ⟨r1, d1⟩ := shapeOf_sound I ρ b hsb sh hsh y hy
              rw [enew]
              refine ⟨by simp only [applyHead]; rw [pr, r1], ?_⟩
              intro k hk
              simp only [applyHead]
              rw [pd]; exact d1 k hk
      · exact mk_dflt I ρ _ _ _ hs
    · split
      · rename_i p xs kk hpa
        split
        · rename_i hargs
          simp only [beq_iff_eq] at hargs
          -- unpack pullArgs
          unfold pullArgs at hpa
          split at hpa
          · simp at hpa
          · rename_i p' x hfirst
            split at hpa
            · simp at hpa
            · rename_i hvalid
              simp only [Bool.not_eq_true, Bool.not_eq_false'] at hvalid
              have hsa : ∀ a ∈ args.toList, AnnotSound I ρ a := annot_toList I ρ args hs.1
              obtain ⟨an0, hmem⟩ := firstT_mem _ _ _ hfirst
              have hsx : AnnotSound I ρ x := (hsa _ hmem).1.1
              have key : ∃ ts, eval I ρ (ofList xs) = ts ∧ p = p' ∧
                  eval I ρ (ofList args.toList) = ts.map (transpose p') ∧
                  (∀ y ∈ xs, AnnotSound I ρ y) ∧
                  ∃ k, (∀ t ∈ ts, PullOK k t) ∧ (∃ t ∈ ts, t.rank = k) ∧ (∀ k', kk = some k' → k' = k) := by
                split at hpa
                · -- unary
                  rename_i a0 hl
                  simp only [Option.map_eq_some_iff, Prod.mk.injEq] at hpa
                  obtain ⟨xs', hall, rfl, rfl, rfl⟩ := hpa
                  obtain ⟨ts, h1, h2, h3, _, h5⟩ := pullAll_sem I ρ p' Option.none _ _ hall hsa
                  obtain ⟨t, ht, hy⟩ := h5 an0 x hmem
                  have hlen : ts = [t] := by
                    have e : args.toList = [a0] := hl
                    rw [e] at h2 hmem
                    simp only [List.mem_singleton] at hmem
                    subst hmem
                    simp [ofList, eval, hy, applyHead] at h2
                    cases ts with
                    | nil => simp at h2
                    | cons t0 ts0 =>
                      cases ts0 with
                      | nil => simp at ht; subst ht; rfl
                      | cons _ _ => simp at h2
                  subst hlen
                  refine ⟨[t], h1, rfl, h2, h3, t.rank, ?_, ⟨t, by simp, rfl⟩, ?_⟩
                  · intro t' ht'; simp at ht'; subst ht'; exact Or.inl rfl
                  · intro k' hk'
                    exact (rankOf_sound I ρ x hsx k' hk' t hy).symm
                · -- n-ary
                  split at hpa
                  · simp at hpa
                  · rename_i k hk
                    simp only [Option.map_eq_some_iff, Prod.mk.injEq] at hpa
                    obtain ⟨xs', hall, rfl, rfl, rfl⟩ := hpa
                    obtain ⟨ts, h1, h2, h3, h4, h5⟩ := pullAll_sem I ρ p' (some k) _ _ hall hsa
                    obtain ⟨t, ht, hy⟩ := h5 an0 x hmem
                    have hr := rankOf_sound I ρ x hsx k hk t hy
                    exact ⟨ts, h1, rfl, h2, h3, k, h4 k rfl, ⟨t, ht, hr⟩, by intro k' hk'; cases hk'; rfl⟩
              obtain ⟨ts, h1, hpp, h2, h3, k, hok, hex, hkk⟩ := key
              subst hpp
              have hpv : validPerm p = true := hvalid
              have hrank : maxRank ts = k := maxRank_eq ts k hok hex
              refine ⟨?_, ?_⟩
              · have e : eval I ρ args = ts.map (transpose p) := by rw [hargs]; exact h2
                simp only [eval, applyHead, e, h1, List.append_nil]
                rw [pw_transpose (I.fn nm att) p hpv ts k hok hex]
              · simp only [AnnotSound]
                refine ⟨⟨⟨(annot_ofList I ρ xs).2 h3, ?_⟩, trivial⟩, annOK_none I _⟩
                -- the derived annotation of the new inner node is true
                constructor
                · intro d hd
                  simp only [derivedAnn] at hd
                  cases xs with
                  | nil => simp at hd
                  | cons x0 xr =>
                    simp only at hd
                    have hsx0 : AnnotSound I ρ x0 := h3 x0 (List.mem_cons_self ..)
                    obtain ⟨t0, ht0⟩ := eval_proper I ρ (dtypeOf_some_proper hd)
                    have hdt := (dtypeOf_sound_aux I ρ x0).1 hsx0 d hd t0 ht0
                    simp [ofList, eval, ht0, applyHead, pw, hdt]
                · intro sh hsh
                  simp only [derivedAnn, Option.map_eq_some_iff] at hsh
                  obtain ⟨n, hn, rfl⟩ := hsh
                  have := hkk n hn
                  subst this
                  refine ⟨by simp [applyHead, pw, h1, hrank], ?_⟩
                  intro k' hk'
                  simp [dimOK]
        · exact mk_dflt I ρ _ _ _ hs
      · exact mk_dflt I ρ _ _ _ hs

  theorem mk_reduce (L : Laws I WT) (nm : String) (axes : List Nat) (ann : Ann) (args : Term) :
      MkStmt I ρ (.reduce nm axes) ann args (mkReduce nm axes ann args) := by
    intro hs
    unfold mkReduce
    split
    · rename_i p an2 a
      split
      · rename_i hc
        simp only [Bool.and_eq_true, beq_iff_eq, List.all_eq_true, decide_eq_true_eq] at hc
        obtain ⟨⟨⟨hp, hv⟩, hr⟩, hax⟩ := hc
        obtain ⟨t, ht⟩ := eval_proper I ρ hp
        have hsa : AnnotSound I ρ a := hs.1.1.1.1
        have hrk := rankOf_sound I ρ a hsa _ hr t ht
        refine ⟨?_, ?_⟩
        · simp [eval, ht, applyHead, L.reduce_transpose nm axes p t hv hrk hax]
        · simp only [AnnotSound]
          exact ⟨⟨⟨⟨hsa, trivial⟩, annOK_none I _⟩, trivial⟩, annOK_none I _⟩
      · exact mk_dflt I ρ _ _ _ hs
    · exact mk_dflt I ρ _ _ _ hs

/-- **Token-level shape argument** (shared by the validator's Reshape rules and by the proof that the
    code's `_shapes_compatible` guard is sound): two tensors whose (true) shape annotations are the same
    token list without unknowns, or agree on equal positive literals everywhere except at one position,
    and that hold the same number of elements, have the same rank and the same extents — for every
    binding of the symbols. -/
theorem tokens_same_shape (so sa : List Dim) (r x : Tensor α)
    (hr : shapeOK I so r) (hx : shapeOK I sa x) (hnum : numel r = numel x)
    (hok : ((so = sa && so.all (fun d => !d.isUnk)) || oneOff so sa) = true) :
    r.rank = x.rank ∧ ∀ k, k < x.rank → r.dim k = x.dim k := by
  obtain ⟨r1, d1⟩ := hr
  obtain ⟨r2, d2⟩ := hx
  simp only [Bool.or_eq_true] at hok
  rcases hok with hc | hoo
  · simp only [Bool.and_eq_true, decide_eq_true_eq, List.all_eq_true] at hc
    obtain ⟨heq, hknown⟩ := hc
    subst heq
    refine ⟨by rw [r1, r2], ?_⟩
    intro k hk
    have hk' : k < so.length := by omega
    have a1 := d1 k hk'
    have a2 := d2 k hk'
    have hnu := hknown so[k] (List.getElem_mem hk')
    cases hd : so[k] with
    | known m => simp only [hd, dimOK] at a1 a2; omega
    | sym sy => simp only [hd, dimOK] at a1 a2; omega
    | unk => simp [hd, Dim.isUnk] at hnu
  · obtain ⟨hlen, k, hk, hothers⟩ := oneOff_spec so sa hoo
    have hrank : r.rank = x.rank := by rw [r1, r2, hlen]
    have hoth : ∀ j, j < x.rank → j ≠ k → r.dim j = x.dim j ∧ 0 < r.dim j := by
      intro j hj hne
      have h1 : j < so.length := by omega
      have h2 : j < sa.length := by omega
      obtain ⟨m, hm, e1, e2⟩ := hothers j h1 h2 hne
      have a1 := d1 j h1
      have a2 := d2 j h2
      simp only [e1, dimOK] at a1
      simp only [e2, dimOK] at a2
      omega
    simp only [numel, hrank] at hnum
    have hkd : r.dim k = x.dim k := prodTo_cancel _ _ k x.rank (by omega) hoth hnum
    refine ⟨hrank, ?_⟩
    intro j hj
    by_cases hjk : j = k
    · rw [hjk]; exact hkd
    · exact (hoth j hj hjk).1

/-- core of the Reshape rules: a tensor `r` with the (true) annotation `ann` that has as many
    elements as `x` and is `x` as soon as rank and extents agree, IS `x` when `reshapeIdOk`. -/
theorem reshapeIdOk_eq (ann : Ann) (a : Term) (x r : Tensor α)
    (hx : eval I ρ a = [x]) (hsa : AnnotSound I ρ a) (hann : annOK I ann r)
    (hnum : numel r = numel x)
    (hsame : r.rank = x.rank → (∀ k, k < x.rank → r.dim k = x.dim k) → r = x)
    (hok : reshapeIdOk ann a = true) : r = x := by
  unfold reshapeIdOk at hok
  split at hok
  · rename_i so sa hso hsa'
    obtain ⟨h1, h2⟩ := tokens_same_shape I so sa r x (hann.2 so hso)
      (shapeOf_sound I ρ a hsa sa hsa' x hx) hnum hok
    exact hsame h1 h2
  · exact absurd hok (by simp)

theorem reshapeId_sound (L : Laws I WT) (ann : Ann) (a sT : Term) (x z : Tensor α)
    (hx : eval I ρ a = [x]) (hz : eval I ρ sT = [z]) (hsa : AnnotSound I ρ a)
    (hss : AnnotSound I ρ sT) (hann : annOK I ann (I.reshape x z)) :
    eval I ρ (reshapeId ann a sT) = [I.reshape x z] ∧ AnnotSound I ρ (reshapeId ann a sT) := by
  unfold reshapeId
  split
  · rename_i hok
    have hsame : I.reshape x z = x :=
      reshapeIdOk_eq I ρ ann a x _ hx hsa hann (L.reshape_numel x z) (L.reshape_same x z) hok
    exact ⟨by rw [hsame]; exact hx, hsa⟩
  · refine ⟨by simp [eval, hx, hz, applyHead], ?_⟩
    simp only [AnnotSound]
    exact ⟨⟨hsa, hss, trivial⟩, by simpa [eval, hx, hz, applyHead] using hann⟩

theorem mk_reshape (L : Laws I WT) (ann : Ann) (args : Term) :
    MkStmt I ρ .reshape ann args (mkReshape ann args) := by
  intro hs
  unfold mkReshape
  split
  · rename_i a sT
    split
    · rename_i hc
      simp only [Bool.and_eq_true] at hc
      obtain ⟨hpa, hps⟩ := hc
      obtain ⟨x, hx⟩ := eval_proper I ρ hpa
      obtain ⟨z, hz⟩ := eval_proper I ρ hps
      have hsa : AnnotSound I ρ a := hs.1.1
      have hss : AnnotSound I ρ sT := hs.1.2.1
      have hann : annOK I ann (I.reshape x z) := by
        have := hs.2; simpa [eval, hx, hz, applyHead] using this
      have tgt : eval I ρ (.app .reshape ann (.cons a (.cons sT .nil))) = [I.reshape x z] := by
        simp [eval, hx, hz, applyHead]
      split
      · rename_i an2 b s1
        split
        · rename_i hc2
          simp only [Bool.and_eq_true] at hc2
          obtain ⟨⟨hpb, hps1⟩, hok⟩ := hc2
          obtain ⟨y, hy⟩ := eval_proper I ρ hpb
          obtain ⟨w, hw⟩ := eval_proper I ρ hps1
          have hxe : x = I.reshape y w := by
            have : eval I ρ (.app .reshape an2 (.cons b (.cons s1 .nil))) = [I.reshape y w] := by
              simp [eval, hy, hw, applyHead]
            rw [this] at hx; simpa using hx.symm
          have hsb : AnnotSound I ρ b := hsa.1.1
          have hann' : annOK I ann (I.reshape (I.reshape y w) z) := by rw [← hxe]; exact hann
          have hnum : numel (I.reshape (I.reshape y w) z) = numel y := by
            rw [L.reshape_numel, L.reshape_numel]
          have hsame : I.reshape (I.reshape y w) z = y :=
            reshapeIdOk_eq I ρ ann b y _ hy hsb hann' hnum (L.reshape_same2 y w z) hok
          exact ⟨by rw [tgt, hxe, hsame]; exact hy, hsb⟩
        · obtain ⟨e, s'⟩ := reshapeId_sound I ρ WT L ann _ sT x z hx hz hsa hss hann
          exact ⟨by rw [e, tgt], s'⟩
      · obtain ⟨e, s'⟩ := reshapeId_sound I ρ WT L ann a sT x z hx hz hsa hss hann
        exact ⟨by rw [e, tgt], s'⟩
    · exact mk_dflt I ρ _ _ _ hs
  · exact mk_dflt I ρ _ _ _ hs

/-- **Every rule is sound.** -/
theorem mk_sound (L : Laws I WT) (hWT : ∀ t x, x ∈ eval I ρ t → WT x) (h : Head) (ann : Ann)
    (args : Term) : MkStmt I ρ h ann args (mk h ann args) := by
  cases h with
  | identity => exact mk_identity I ρ ann args
  | transpose q => exact mk_transpose I ρ q ann args
  | cast to => exact mk_cast I ρ WT L hWT to ann args
  | castLike => exact mk_castLike I ρ ann args
  | pw nm att => exact mk_pw I ρ WT L nm att ann args
  | reshape => exact mk_reshape I ρ WT L ann args
  | reduce nm ax => exact mk_reduce I ρ WT L nm ax ann args
  | opq op att k => exact fun hs => mk_dflt I ρ _ _ _ hs

end J2O.C02
