/-
C18 — specification (`Close`, `Agrees`, `NoLossyCast`) and helper lemmas for Props/C18.lean.
-/
import J2O.Model.C18
set_option linter.unusedSimpArgs false
set_option linter.unusedVariables false

namespace J2O.C18

/-! ### specification -/

/-- |x − y| ≤ atol + rtol·|y| for complex x, y, written without square roots:
    d² = |x−y|², n² = |y|², L = d² − atol² − rtol²n², then (for tolerances ≥ 0)
    √d² ≤ atol + rtol·√n²  ⇔  L ≤ 0 ∨ L² ≤ (2·atol·rtol)²·n². -/
def ModulusLe (rtol atol xr xi yr yi : Rat) : Prop :=
  let d2 := sq (xr - yr) + sq (xi - yi)
  let n2 := sq yr + sq yi
  let l := d2 - sq atol - sq rtol * n2
  l ≤ 0 ∨ sq l ≤ sq (2 * atol * rtol) * n2

def Close (rtol atol : Rat) (x y : El) : Prop :=
  match x.re, x.im, y.re, y.im with
  | .fin xr, .fin xi, .fin yr, .fin yi =>
    if xi = 0 ∧ yi = 0 then (xr - yr).abs ≤ atol + rtol * yr.abs
    else ModulusLe rtol atol xr xi yr yi
  | _, _, _, _ => (x.isNan = true ∧ y.isNan = true) ∨ (x.isNan = false ∧ y.isNan = false ∧ x = y)

/-- pointwise relation on two lists of equal length -/
def Pointwise (r : El → El → Prop) (xs ys : List El) : Prop :=
  xs.length = ys.length ∧ ∀ j (h₁ : j < xs.length) (h₂ : j < ys.length), r xs[j] ys[j]

def AgreesOne (cfg : Cfg) (i : Nat) (e g : Tn) : Prop :=
  e.shape = (normExact cfg i e g).shape ∧
    Pointwise (Close cfg.rtol cfg.atol) e.vals (normExact cfg i e g).vals

def Agrees (cfg : Cfg) (es gs : List Tn) : Prop :=
  es.length = gs.length ∧ ∀ i (h₁ : i < es.length) (h₂ : i < gs.length), AgreesOne cfg i es[i] gs[i]

/-- The promotion `_comparison_operands` applies before comparing changes no value, for every
    output, on either side.  Since fix 61b87cb this can only fail where numpy's own promotion is
    lossy: a 64-bit integer brought to float64 (int64/uint64 → float64 is "safe" for numpy;
    int64 with uint64, or with a float, promotes to float64) with a magnitude above 2⁵³. -/
def NoLossyCast (cfg : Cfg) (es gs : List Tn) : Prop :=
  ∀ i (h₁ : i < es.length) (h₂ : i < gs.length),
    operands es[i].kind es[i].vals (normExact cfg i es[i] gs[i]).kind (normExact cfg i es[i] gs[i]).vals
      = some (es[i].vals, (normExact cfg i es[i] gs[i]).vals)

/-! ### element level -/

theorem closeEl_iff (rtol atol : Rat) (x y : El) :
    closeEl rtol atol x y = true ↔ Close rtol atol x y := by
  obtain ⟨a, b⟩ := x
  obtain ⟨c, d⟩ := y
  cases a <;> cases b <;> cases c <;> cases d <;>
    simp [closeEl, Close, closeReal, closeCplx, ModulusLe, El.isNan, Sc.isNan]

theorem all2_iff (p : El → El → Bool) (r : El → El → Prop) (hp : ∀ x y, p x y = true ↔ r x y) :
    ∀ xs ys, all2 p xs ys = true ↔ Pointwise r xs ys := by
  intro xs
  induction xs with
  | nil =>
    intro ys
    cases ys with
    | nil => simp [all2, Pointwise]
    | cons y ys => simp [all2, Pointwise]
  | cons x xs ih =>
    intro ys
    cases ys with
    | nil => simp [all2, Pointwise]
    | cons y ys =>
      simp only [all2, Bool.and_eq_true, hp, ih ys, Pointwise, List.length_cons]
      constructor
      · rintro ⟨h0, hl, hr⟩
        refine ⟨by omega, ?_⟩
        intro j h1 h2
        cases j with
        | zero => simpa using h0
        | succ j => simpa using hr j (by omega) (by omega)
      · rintro ⟨hl, hr⟩
        refine ⟨by simpa using hr 0 (by omega) (by omega), by omega, ?_⟩
        intro j h1 h2
        have := hr (j + 1) (by omega) (by omega)
        simp only [List.getElem_cons_succ] at this
        exact this

theorem sq_nonneg' (a : Rat) : 0 ≤ sq a := by
  unfold sq
  rcases Rat.le_total (a := 0) (b := a) with h | h
  · exact Rat.mul_nonneg h h
  · have h' : 0 ≤ -a := by grind
    have := Rat.mul_nonneg h' h'
    grind

/-- equal elements without NaN are `Close` for non-negative tolerances -/
theorem close_of_eq (rtol atol : Rat) (hr : 0 ≤ rtol) (ha : 0 ≤ atol) (x : El)
    (hx : x.isNan = false) : Close rtol atol x x := by
  unfold Close
  split
  · rename_i xr xi yr yi h1 h2 h3 h4
    have e1 : xr = yr := by rw [h1] at h3; injection h3
    have e2 : xi = yi := by rw [h2] at h4; injection h4
    subst e1; subst e2
    split
    · have h0 : (xr - xr).abs = 0 := by
        have : xr - xr = 0 := by grind
        rw [this]; rfl
      rw [h0]
      have := Rat.mul_nonneg hr (Rat.abs_nonneg (x := xr))
      grind
    · left
      have a1 := sq_nonneg' atol
      have a2 := Rat.mul_nonneg (sq_nonneg' rtol) (show 0 ≤ sq xr + sq xi by
        have := sq_nonneg' xr; have := sq_nonneg' xi; grind)
      have z1 : sq (xr - xr) = 0 := by
        have : xr - xr = 0 := by grind
        rw [this]; simp [sq]
      have z2 : sq (xi - xi) = 0 := by
        have : xi - xi = 0 := by grind
        rw [this]; simp [sq]
      show sq (xr - xr) + sq (xi - xi) - sq atol - sq rtol * (sq xr + sq xi) ≤ 0
      rw [z1, z2]
      grind
  · exact Or.inr ⟨hx, hx, rfl⟩

theorem eqEl_close (rtol atol : Rat) (hr : 0 ≤ rtol) (ha : 0 ≤ atol) (x y : El)
    (h : eqEl x y = true) : Close rtol atol x y := by
  unfold eqEl at h
  simp only [Bool.and_eq_true, Bool.not_eq_true', decide_eq_true_eq] at h
  obtain ⟨⟨h1, _⟩, h3⟩ := h
  subst h3
  exact close_of_eq rtol atol hr ha x h1

theorem normModel_shape (cfg : Cfg) (i : Nat) (e g : Tn) :
    (normModel cfg i e g).shape = (normExact cfg i e g).shape := by
  unfold normModel normExact
  simp only
  split <;> rfl

/-! ### one output -/

theorem decideOne_sound (cfg : Cfg) (hr : 0 ≤ cfg.rtol) (ha : 0 ≤ cfg.atol) (i : Nat) (e g : Tn)
    (hc : operands e.kind e.vals (normExact cfg i e g).kind (normExact cfg i e g).vals
      = some (e.vals, (normExact cfg i e g).vals))
    (h : decideOne cfg i e g = none) : AgreesOne cfg i e g := by
  unfold decideOne at h
  simp only at h
  split at h
  · exact absurd h (by simp)
  · rename_i hshape
    have hs : e.shape = (normExact cfg i e g).shape := by
      by_cases hh : e.shape = (normExact cfg i e g).shape
      · exact hh
      · exact absurd hh hshape
    rw [hc] at h
    simp only at h
    refine ⟨hs, ?_⟩
    split at h
    · split at h
      · rename_i hall
        exact (all2_iff _ _ (closeEl_iff cfg.rtol cfg.atol) _ _).mp hall
      · exact absurd h (by simp)
    · split at h
      · rename_i hall
        have := (all2_iff eqEl (fun x y => eqEl x y = true) (fun _ _ => Iff.rfl) _ _).mp hall
        exact ⟨this.1, fun j h1 h2 => eqEl_close _ _ hr ha _ _ (this.2 j h1 h2)⟩
      · exact absurd h (by simp)

theorem decideFrom_sound (cfg : Cfg) (hr : 0 ≤ cfg.rtol) (ha : 0 ≤ cfg.atol) :
    ∀ (es gs : List Tn) (k : Nat), es.length = gs.length →
      (∀ j (h₁ : j < es.length) (h₂ : j < gs.length),
        operands es[j].kind es[j].vals (normExact cfg (k + j) es[j] gs[j]).kind (normExact cfg (k + j) es[j] gs[j]).vals
      = some (es[j].vals, (normExact cfg (k + j) es[j] gs[j]).vals)) →
      decideFrom cfg k es gs = .isMatch →
      ∀ j (h₁ : j < es.length) (h₂ : j < gs.length), AgreesOne cfg (k + j) es[j] gs[j] := by
  intro es
  induction es with
  | nil => intro gs k _ _ _ j h₁; simp at h₁
  | cons e es ih =>
    intro gs k hl hc h j h₁ h₂
    cases gs with
    | nil => simp at hl
    | cons g gs =>
      simp only [decideFrom] at h
      split at h
      · rename_i v hv
        -- a failing output returns its verdict, which is never `isMatch`
        subst h
        unfold decideOne at hv
        simp only at hv
        split at hv
        · simp at hv
        · split at hv
          · simp at hv
          · split at hv
            · split at hv <;> simp at hv
            · split at hv <;> simp at hv
      · rename_i hnone
        cases j with
        | zero =>
          have h0 := hc 0 (by simp) (by simp)
          simp only [List.getElem_cons_zero, Nat.add_zero] at h0
          have := decideOne_sound cfg hr ha k e g h0 hnone
          simpa using this
        | succ j =>
          have hc' : ∀ j (h₁ : j < es.length) (h₂ : j < gs.length),
              operands es[j].kind es[j].vals (normExact cfg (k + 1 + j) es[j] gs[j]).kind (normExact cfg (k + 1 + j) es[j] gs[j]).vals
      = some (es[j].vals, (normExact cfg (k + 1 + j) es[j] gs[j]).vals) := by
            intro j h₁ h₂
            have := hc (j + 1) (by simp; omega) (by simp; omega)
            have e1 : k + (j + 1) = k + 1 + j := by omega
            simpa [e1] using this
          have := ih gs (k + 1) (by simpa using hl) hc' h j (by simpa using h₁) (by simpa using h₂)
          have e1 : k + (j + 1) = k + 1 + j := by omega
          simpa [e1] using this

theorem agreesFrom_iff (cfg : Cfg) : ∀ (es gs : List Tn) (k : Nat),
    agreesFrom cfg k es gs = true ↔
      (es.length = gs.length ∧
        ∀ j (h₁ : j < es.length) (h₂ : j < gs.length), AgreesOne cfg (k + j) es[j] gs[j]) := by
  intro es
  induction es with
  | nil =>
    intro gs k
    cases gs with
    | nil => simp [agreesFrom]
    | cons g gs => simp [agreesFrom]
  | cons e es ih =>
    intro gs k
    cases gs with
    | nil => simp [agreesFrom]
    | cons g gs =>
      simp only [agreesFrom, Bool.and_eq_true, ih gs (k + 1), List.length_cons]
      have hone : agreesOne cfg k e g = true ↔ AgreesOne cfg k e g := by
        unfold agreesOne AgreesOne
        simp only [Bool.and_eq_true, decide_eq_true_eq,
          all2_iff _ _ (closeEl_iff cfg.rtol cfg.atol)]
      rw [hone]
      constructor
      · rintro ⟨h0, hl, hrest⟩
        refine ⟨by omega, ?_⟩
        intro j h₁ h₂
        cases j with
        | zero => simpa using h0
        | succ j =>
          have := hrest j (by omega) (by omega)
          have e1 : k + (j + 1) = k + 1 + j := by omega
          simpa [e1] using this
      · rintro ⟨hl, hall⟩
        refine ⟨by simpa using hall 0 (by omega) (by omega), by omega, ?_⟩
        intro j h₁ h₂
        have := hall (j + 1) (by omega) (by omega)
        have e1 : k + (j + 1) = k + 1 + j := by omega
        simpa [e1] using this

theorem noLossyFrom_iff (cfg : Cfg) : ∀ (es gs : List Tn) (k : Nat),
    noLossyFrom cfg k es gs = true ↔
      ∀ j (h₁ : j < es.length) (h₂ : j < gs.length),
        operands es[j].kind es[j].vals (normExact cfg (k + j) es[j] gs[j]).kind (normExact cfg (k + j) es[j] gs[j]).vals
      = some (es[j].vals, (normExact cfg (k + j) es[j] gs[j]).vals) := by
  intro es
  induction es with
  | nil => intro gs k; simp [noLossyFrom]
  | cons e es ih =>
    intro gs k
    cases gs with
    | nil => simp [noLossyFrom]
    | cons g gs =>
      simp only [noLossyFrom, Bool.and_eq_true, ih gs (k + 1), List.length_cons]
      have hone : noLossyOne cfg k e g = true ↔
          operands e.kind e.vals (normExact cfg k e g).kind (normExact cfg k e g).vals
      = some (e.vals, (normExact cfg k e g).vals) := by
        unfold noLossyOne
        simp
      rw [hone]
      constructor
      · rintro ⟨h0, hrest⟩ j h₁ h₂
        cases j with
        | zero => simpa using h0
        | succ j =>
          have := hrest j (by omega) (by omega)
          have e1 : k + (j + 1) = k + 1 + j := by omega
          simpa [e1] using this
      · intro hall
        refine ⟨by simpa using hall 0 (by omega) (by omega), ?_⟩
        intro j h₁ h₂
        have := hall (j + 1) (by omega) (by omega)
        have e1 : k + (j + 1) = k + 1 + j := by omega
        simpa [e1] using this

theorem ite_restore (r f : Bool) : (if (r != f) = true then f else r) = f := by
  cases r <;> cases f <;> rfl

end J2O.C18
