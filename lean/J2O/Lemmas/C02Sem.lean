/-
C02 — semantics of terms for an arbitrary interpretation of the operators, the annotation
soundness predicate, and the laws assumed of the interpretation.
-/
import J2O.Model.C02
import J2O.Lemmas.Tensor

namespace J2O.C02
open J2O Term

/-- Meaning of the operator vocabulary.  Everything the rewrite rules do not inspect is an
    arbitrary function (`fn`: scalar function of a pointwise operator, `opq`: any other operator,
    including Conv, MatMul, Loop/If with their captured values as extra arguments, …). -/
structure Interp (α : Type) where
  fn : String → String → List α → α
  castS : Nat → Nat → α → α
  opq : String → String → Nat → List (Tensor α) → Tensor α
  reshape : Tensor α → Tensor α → Tensor α
  reduce : String → List Nat → Tensor α → Tensor α
  boolT : Bool → Tensor α
  junk : Tensor α
  /-- run-time value of each symbolic dimension name -/
  sym : String → Nat

variable {α : Type}

def applyHead (I : Interp α) : Head → List (Tensor α) → Tensor α
  | .transpose p, [t] => transpose p t
  | .pw nm att, ts => pw (I.fn nm att) ts
  | .cast to, [t] => castT I.castS to t
  | .castLike, [x, l] => castT I.castS l.dtype x
  | .identity, [t] => t
  | .reshape, [x, s] => I.reshape x s
  | .reduce nm ax, [t] => I.reduce nm ax t
  | .opq op att k, ts => I.opq op att k ts
  | _, _ => I.junk

/-- A term denotes a list of tensors (a proper term a singleton, an argument chain the list of
    its members). `ρ` assigns tensors to graph inputs / initializers. -/
def eval (I : Interp α) (ρ : Nat → Tensor α) : Term → List (Tensor α)
  | .leaf id _ _ => [ρ id]
  | .boolc b => [I.boolT b]
  | .app h _ args => [applyHead I h (eval I ρ args)]
  | .nil => []
  | .cons t ts => eval I ρ t ++ eval I ρ ts

/-- a dimension token is true of an extent -/
def dimOK (I : Interp α) (d : Dim) (n : Nat) : Prop :=
  match d with
  | .known m => n = m
  | .sym s => n = I.sym s
  | .unk => True

/-- a shape annotation is true of a tensor: rank and every known / symbolic extent -/
def shapeOK (I : Interp α) (sh : List Dim) (t : Tensor α) : Prop :=
  t.rank = sh.length ∧ ∀ k (h : k < sh.length), dimOK I sh[k] (t.dim k)

/-- the annotation says nothing false about the tensor -/
def annOK (I : Interp α) (a : Ann) (t : Tensor α) : Prop :=
  (∀ d, a.dtype = some d → t.dtype = d) ∧ (∀ sh, a.shape = some sh → shapeOK I sh t)

/-- structural well-formedness: argument positions hold chains of proper terms -/
def wf : Term → Bool
  | .leaf .. => true
  | .boolc _ => true
  | .app _ _ args => (match args with | .nil => true | .cons .. => true | _ => false) && wf args
  | .nil => true
  | .cons t ts => proper t && wf t && (match ts with | .nil => true | .cons .. => true | _ => false)
      && wf ts

/-- **Annotation soundness** (the statement of C08 for the input graph): every annotation
    occurring in the term is true of the tensor the sub-term evaluates to, and every leaf flagged
    as a size-1 constant is one. -/
def AnnotSound (I : Interp α) (ρ : Nat → Tensor α) : Term → Prop
  | .leaf id ann s => annOK I ann (ρ id) ∧ (s = true → (ρ id).ScalarLike)
  | .boolc _ => True
  | .app h ann args => AnnotSound I ρ args ∧ annOK I ann (applyHead I h (eval I ρ args))
  | .nil => True
  | .cons t ts => AnnotSound I ρ t ∧ AnnotSound I ρ ts

/-- product of the first `n` extents -/
def prodTo (d : Nat → Nat) : Nat → Nat
  | 0 => 1
  | n + 1 => prodTo d n * d n

/-- number of elements of a tensor -/
def numel (t : Tensor α) : Nat := prodTo t.dim t.rank

/-- What is assumed of the interpretation (ONNX operator facts used by the rules). `WT` is
    run-time well-typedness of a tensor (its elements belong to its element type). -/
structure Laws (I : Interp α) (WT : Tensor α → Prop) : Prop where
  /-- a cast to the type a tensor already has is the identity -/
  cast_same : ∀ d v, I.castS d d v = v
  /-- C17: an accepted round trip is the identity on well-typed tensors of the source type -/
  cast_rt : ∀ s m (t : Tensor α), castRefOk s m = true → t.dtype = s → WT t →
    castT I.castS s (castT I.castS m t) = t
  /-- `Not` of a scalar boolean constant is the negated constant -/
  not_const : ∀ b, pw (I.fn "Not" "") [I.boolT b] = I.boolT (!b)
  /-- definition of ONNX `Swish` (alpha = 1) on scalars: `x * Sigmoid(x)`, either operand order -/
  swish : ∀ v, I.fn "Mul" "" [v, I.fn "Sigmoid" "" [v]] = I.fn "Swish" "" [v]
  swish' : ∀ v, I.fn "Mul" "" [I.fn "Sigmoid" "" [v], v] = I.fn "Swish" "" [v]
  /-- Reshape facts (ONNX semantics, assumed): a reshape keeps the number of elements and their
      row-major order, so one reshape — or two in a row — that restore rank and extents are the
      identity; reshapes commute with unary pointwise operators and casts. (`Reshape(Reshape(x,s₁),s₂)
      = Reshape(x,s₂)` is NOT assumed: it is false when `s₂` has a zero entry and `allowzero = 0`.) -/
  reshape_same2 : ∀ (x s1 s2 : Tensor α), (I.reshape (I.reshape x s1) s2).rank = x.rank →
    (∀ k, k < x.rank → (I.reshape (I.reshape x s1) s2).dim k = x.dim k) →
    I.reshape (I.reshape x s1) s2 = x
  reshape_numel : ∀ (x s : Tensor α), numel (I.reshape x s) = numel x
  reshape_same : ∀ (x s : Tensor α), (I.reshape x s).rank = x.rank →
    (∀ k, k < x.rank → (I.reshape x s).dim k = x.dim k) → I.reshape x s = x
  reshape_pw : ∀ (f : List α → α) (x s : Tensor α), pw f [I.reshape x s] = I.reshape (pw f [x]) s
  reshape_pw_sc : ∀ (f : List α → α) (pre post : List (Tensor α)) (x s : Tensor α),
    (∀ c ∈ pre, Scalar0 c) → (∀ c ∈ post, Scalar0 c) →
    pw f (pre ++ [I.reshape x s] ++ post) = I.reshape (pw f (pre ++ [x] ++ post)) s
  reshape_cast : ∀ to (x s : Tensor α),
    castT I.castS to (I.reshape x s) = I.reshape (castT I.castS to x) s
  /-- a keepdims reduction over axes commutes with a transpose when the axes are mapped through it
      (assumed ONNX fact; float re-association inside one reduction is not modelled) -/
  reduce_transpose : ∀ nm axes p (t : Tensor α), validPerm p = true → t.rank = p.length →
    (∀ a ∈ axes, a < p.length) →
    I.reduce nm axes (transpose p t) = transpose p (I.reduce nm (sortNat (axes.map (permFn p))) t)

end J2O.C02
