/-
C18 — helper lemmas for Props/C18Promo.lean: numpy's `astype` between the integer/bool dtypes of the
regenerated promotion table is the identity on every value of the source dtype whenever the source dtype
`embeds` into the target dtype.
-/
import J2O.Lemmas.C18
import J2O.GenProps.C18
set_option linter.unusedSimpArgs false
set_option linter.unusedVariables false

namespace J2O.C18

def stdBits : List Nat := [8, 16, 32, 64]

/-- `v` is a value of the integer/bool dtype `k` (an integer inside the range of the dtype) -/
def InKind (k : Kind) (v : El) : Prop :=
  match k with
  | .bool => ∃ z : Int, v = ⟨.fin (z : Rat), zero⟩ ∧ (z = 0 ∨ z = 1)
  | .int s b => ∃ z : Int, v = ⟨.fin (z : Rat), zero⟩ ∧ inRange s b z = true
  | _ => False

/-- every element of the tensor is a value of the tensor's dtype -/
def WellTyped (t : Tn) : Prop := ∀ v ∈ t.vals, InKind t.kind v

theorem wrapInt_std (s : Bool) (b : Nat) (hb : b ∈ stdBits) (z : Int) (h : inRange s b z = true) :
    wrapInt s b z = z := by
  simp only [stdBits, List.mem_cons, List.mem_nil_iff, or_false] at hb
  rcases hb with rfl | rfl | rfl | rfl <;> cases s <;>
    simp [wrapInt, inRange] at h ⊢ <;> omega

theorem inRange_mono (s1 s2 : Bool) (b1 b2 : Nat) (h1 : b1 ∈ stdBits) (h2 : b2 ∈ stdBits)
    (he : embeds (.int s1 b1) (.int s2 b2) = true) (z : Int) (h : inRange s1 b1 z = true) :
    inRange s2 b2 z = true := by
  simp only [stdBits, List.mem_cons, List.mem_nil_iff, or_false] at h1 h2
  rcases h1 with rfl | rfl | rfl | rfl <;> rcases h2 with rfl | rfl | rfl | rfl <;>
    cases s1 <;> cases s2 <;> simp [embeds, inRange] at he h ⊢ <;> omega

theorem inRange_bit (s : Bool) (b : Nat) (hb : b ∈ stdBits) (z : Int) (hz : z = 0 ∨ z = 1) :
    inRange s b z = true := by
  simp only [stdBits, List.mem_cons, List.mem_nil_iff, or_false] at hb
  rcases hb with rfl | rfl | rfl | rfl <;> cases s <;> rcases hz with rfl | rfl <;> decide

theorem int_mem_std (s : Bool) (b : Nat) (h : Kind.int s b ∈ stdKinds) : b ∈ stdBits := by
  simp [stdKinds, stdBits] at h ⊢
  omega

/-- **`astype` is exact along `embeds`** (integer/bool dtypes of the table) -/
theorem castEl_exact_std (src dst : Kind) (hd : dst ∈ stdKinds) (he : embeds src dst = true) (v : El)
    (hv : InKind src v) : castEl src dst v = some v := by
  cases src with
  | bool =>
    cases dst with
    | bool => simp [castEl]
    | int s b =>
      obtain ⟨z, rfl, hz⟩ := hv
      have hb := int_mem_std s b hd
      have hw := wrapInt_std s b hb z (inRange_bit s b hb z hz)
      simp [castEl, Kind.isFloating, Rat.floor_intCast, hw]
    | flt f => simp [embeds] at he
    | cplx f => simp [embeds] at he
  | int s1 b1 =>
    cases dst with
    | bool => simp [embeds] at he
    | int s2 b2 =>
      obtain ⟨z, rfl, hz⟩ := hv
      by_cases hsame : Kind.int s1 b1 = Kind.int s2 b2
      · simp [castEl, hsame]
      · have hb2 := int_mem_std s2 b2 hd
        -- the source width is one of the table's too: `embeds` bounds it by the target width, but we only
        -- need monotonicity of the range, which holds for every source width ≤ the target's
        have hr : inRange s2 b2 z = true := by
          simp only [stdBits, List.mem_cons, List.mem_nil_iff, or_false] at hb2
          have hpow : ∀ a c : Nat, a ≤ c → (2 : Int) ^ a ≤ (2 : Int) ^ c := by
            intro a c hac
            have := Nat.pow_le_pow_right (n := 2) (by decide) hac
            exact_mod_cast this
          cases s1 <;> cases s2 <;> simp [embeds] at he <;> simp [inRange] at hz ⊢
          · -- unsigned → unsigned
            exact ⟨hz.1, Int.lt_of_lt_of_le hz.2 (hpow _ _ he)⟩
          · -- unsigned → signed, strictly wider
            refine ⟨?_, Int.lt_of_lt_of_le hz.2 (hpow _ _ (by omega))⟩
            have : (0 : Int) ≤ 2 ^ (b2 - 1) := Int.pow_nonneg (by decide)
            omega
          · -- signed → signed
            have h1 := hpow (b1 - 1) (b2 - 1) (by omega)
            omega
        have hw := wrapInt_std s2 b2 hb2 z hr
        simp [castEl, hsame, Kind.isFloating, Rat.floor_intCast, hw]
    | flt f => simp [embeds] at he
    | cplx f => simp [embeds] at he
  | flt f => cases dst <;> simp [embeds] at he
  | cplx f => cases dst <;> simp [embeds] at he

theorem castList_exact_std (src dst : Kind) (hd : dst ∈ stdKinds) (he : embeds src dst = true) :
    ∀ (vs : List El), (∀ v ∈ vs, InKind src v) → castList src dst vs = some vs := by
  intro vs
  induction vs with
  | nil => intro _; rfl
  | cons v vs ih =>
    intro h
    simp only [castList]
    rw [castEl_exact_std src dst hd he v (h v (by simp)), ih (fun w hw => h w (by simp [hw]))]

theorem resultKind_std : ∀ ek ∈ stdKinds, ∀ gk ∈ stdKinds, resultKind ek gk ∈ stdKinds := by
  decide +kernel

theorem inKind_zero (k : Kind) (hk : k ∈ stdKinds) (hi : k.isIntLike = true) : InKind k (El.ofRat 0) := by
  cases k with
  | bool => exact ⟨0, by simp [El.ofRat], Or.inl rfl⟩
  | int s b =>
    refine ⟨0, by simp [El.ofRat], inRange_bit s b (int_mem_std s b hk) 0 (Or.inl rfl)⟩
  | flt f => simp [Kind.isIntLike] at hi
  | cplx f => simp [Kind.isIntLike] at hi

/-- for a non-complex expectation, layout handling keeps the dtype of the model output and produces only
    elements of the model output (or the padding value 0, never reached for consistent shapes) -/
theorem normExact_noncomplex (cfg : Cfg) (i : Nat) (e g : Tn) (he : e.kind.isComplex = false) :
    (normExact cfg i e g).kind = g.kind ∧
      ∀ v ∈ (normExact cfg i e g).vals, v ∈ g.vals ∨ v = El.ofRat 0 := by
  unfold normExact
  simp only [repackCond, he, Bool.false_and, Bool.false_eq_true, if_false]
  unfold layout
  split
  · unfold nchwToNhwc
    split
    · refine ⟨rfl, ?_⟩
      intro v hv
      simp only [List.mem_map] at hv
      obtain ⟨j, _, rfl⟩ := hv
      simp only [Array.getD]
      split
      · left
        simp
      · right; rfl
    · exact ⟨rfl, fun v hv => Or.inl hv⟩
  · exact ⟨rfl, fun v hv => Or.inl hv⟩

end J2O.C18
