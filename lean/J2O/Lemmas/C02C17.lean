/-
Link between the C02 validator and the C17 value model: a tensor interpretation over `C17.Val`
whose scalar conversion comes from a `C17.CastSem` (definitions only; the theorem is in Props/C02).
-/
import J2O.Lemmas.C02Sem
import J2O.Props.C17
namespace J2O.C02
open J2O

/-- scalar conversion of a tensor interpretation built on a C17 cast semantics: a Cast to the
    type a value already has does nothing (ONNX), any other Cast is the semantics' conversion
    between the kinds of the two dtype codes -/
def castSOf (C : C17.CastSem) (frm tgt : Nat) (v : C17.Val) : C17.Val :=
  if frm = tgt then v else C.cast (C17.kindOf frm) (C17.kindOf tgt) v

/-- run-time well-typedness over `C17.Val`: every element belongs to the value domain of the
    tensor's element type -/
def WTVal (t : Tensor C17.Val) : Prop := ∀ i, C17.Dom (C17.kindOf t.dtype) (t.get i)

end J2O.C02
