/-
C09 — helper lemmas (core Lean only): list/scanner facts and invariants of the x64 machine.
-/
import J2O.Model.C09
set_option linter.unusedSimpArgs false
set_option linter.unusedVariables false

namespace J2O.C09

/-! ### scanner -/

theorem findOcc_none_iff (bad : Nat → Bool) (occs : List Occ) :
    findOcc bad occs = none ↔ occs.all (fun o => !bad o.code) = true := by
  induction occs with
  | nil => simp [findOcc]
  | cons o os ih =>
    unfold findOcc
    by_cases h : bad o.code = true
    · simp [h]
    · have h' : bad o.code = false := by simpa using h
      simp [h', ih]

theorem findOcc_some (bad : Nat → Bool) (occs : List Occ) (o : Occ)
    (h : findOcc bad occs = some o) : o ∈ occs ∧ bad o.code = true := by
  induction occs with
  | nil => simp [findOcc] at h
  | cons a os ih =>
    unfold findOcc at h
    by_cases hb : bad a.code = true
    · simp [hb] at h
      subst h
      exact ⟨List.mem_cons_self, hb⟩
    · have hb' : bad a.code = false := by simpa using hb
      simp [hb'] at h
      have := ih h
      exact ⟨List.mem_cons_of_mem _ this.1, this.2⟩

/-! ### x64 machine: the thread-local override is never touched -/

theorem update_loc (s : Cfg) (v : Bool) : (s.update v).loc = s.loc := rfl

theorem run_loc (p : Prog) : ∀ s, (run p s).cfg.loc = s.loc := by
  induction p with
  | skip => intro s; rfl
  | raise => intro s; rfl
  | set v => intro s; rfl
  | seq a b iha ihb =>
    intro s
    simp only [run]
    split
    · exact iha s
    · simp only []
      rw [ihb, iha]
  | withCm c body ih =>
    intro s
    cases c with
    | temp e =>
      simp only [run]
      split <;> split <;> simp [update_loc, ih]
    | force t =>
      simp only [run]
      split <;> simp [update_loc, ih]

/-- Without an override, reading returns the process-wide value. -/
theorem read_of_loc_none (s : Cfg) (h : s.loc = none) : s.read = s.glob := by
  simp [Cfg.read, h]

theorem cfg_ext (a b : Cfg) (hg : a.glob = b.glob) (hl : a.loc = b.loc) : a = b := by
  cases a; cases b; simp_all

/-! ### scanner: soundness and completeness by mutual structural recursion -/

mutual
theorem noCodes_sound_aux (bad : Nat → Bool) : ∀ (t : Tree), noCodes bad t = true →
    ∀ o, Occurs o t → bad o.code = false
  | .node l occs kids, h, o, ho => by
    simp only [noCodes, Bool.and_eq_true] at h
    cases ho with
    | atRoot hm =>
      have := (List.all_eq_true.mp h.1) o hm
      simpa using this
    | inKid hk hok => exact noCodesL_sound_aux bad kids h.2 _ hk o hok
theorem noCodesL_sound_aux (bad : Nat → Bool) : ∀ (ts : List Tree), noCodesL bad ts = true →
    ∀ k, k ∈ ts → ∀ o, Occurs o k → bad o.code = false
  | [], _, k, hk, _, _ => by simp at hk
  | t :: ts, h, k, hk, o, ho => by
    simp only [noCodesL, Bool.and_eq_true] at h
    have ih1 := noCodes_sound_aux bad t h.1
    have ih2 := noCodesL_sound_aux bad ts h.2
    rcases List.mem_cons.mp hk with e | hk'
    · subst e; exact ih1 o ho
    · exact ih2 k hk' o ho
end

mutual
theorem noCodes_complete_aux (bad : Nat → Bool) : ∀ (t : Tree), noCodes bad t = false →
    ∃ o, Occurs o t ∧ bad o.code = true
  | .node l occs kids, h => by
    simp only [noCodes, Bool.and_eq_false_iff] at h
    rcases h with h | h
    · have : ¬ (occs.all (fun o => !bad o.code) = true) := by simp [h]
      rw [List.all_eq_true] at this
      have ⟨o, hm, hb⟩ : ∃ o, o ∈ occs ∧ bad o.code = true := by
        apply Classical.byContradiction
        intro hn
        apply this
        intro x hx
        cases hbx : bad x.code with
        | false => rfl
        | true => exact absurd ⟨x, hx, hbx⟩ hn
      exact ⟨o, Occurs.atRoot hm, hb⟩
    · obtain ⟨k, hk, o, ho, hb⟩ := noCodesL_complete_aux bad kids h
      exact ⟨o, Occurs.inKid hk ho, hb⟩
theorem noCodesL_complete_aux (bad : Nat → Bool) : ∀ (ts : List Tree), noCodesL bad ts = false →
    ∃ k, k ∈ ts ∧ ∃ o, Occurs o k ∧ bad o.code = true
  | [], h => by simp [noCodesL] at h
  | t :: ts, h => by
    simp only [noCodesL, Bool.and_eq_false_iff] at h
    rcases h with h | h
    · obtain ⟨o, ho, hb⟩ := noCodes_complete_aux bad t h
      exact ⟨t, List.mem_cons_self, o, ho, hb⟩
    · obtain ⟨k, hk, r⟩ := noCodesL_complete_aux bad ts h
      exact ⟨k, List.mem_cons_of_mem _ hk, r⟩
end


mutual
theorem firstBad_none_aux (bad : Nat → Bool) : ∀ t : Tree, (firstBad bad t = none ↔ noCodes bad t = true)
  | .node l occs kids => by
    have ihk := firstBadL_none_aux bad kids
    simp only [firstBad, noCodes, Bool.and_eq_true]
    cases hf : findOcc bad occs with
    | some o =>
      have : ¬ (occs.all (fun o => !bad o.code) = true) := by
        rw [← findOcc_none_iff]; simp [hf]
      simp [this]
    | none =>
      have h1 := (findOcc_none_iff bad occs).mp hf
      cases hk : firstBadL bad kids with
      | some r => 
        have : ¬ (noCodesL bad kids = true) := by rw [← ihk]; simp [hk]
        simp [this]
      | none => 
        have := ihk.mp hk
        simp [h1, this]
theorem firstBadL_none_aux (bad : Nat → Bool) : ∀ ts : List Tree, (firstBadL bad ts = none ↔ noCodesL bad ts = true)
  | [] => by simp [firstBadL, noCodesL]
  | t :: ts => by
    have iht := firstBad_none_aux bad t
    have ihts := firstBadL_none_aux bad ts
    simp only [firstBadL, noCodesL, Bool.and_eq_true]
    cases hf : firstBad bad t with
    | some r =>
      have : ¬ (noCodes bad t = true) := by rw [← iht]; simp [hf]
      simp [this]
    | none =>
      have := iht.mp hf
      simp [this, ihts]
end

mutual
theorem firstBad_some_aux (bad : Nat → Bool) : ∀ (t : Tree) p o, firstBad bad t = some (p, o) →
    Occurs o t ∧ bad o.code = true
  | .node l occs kids, p, o, h => by
    simp only [firstBad] at h
    cases hf : findOcc bad occs with
    | some o' =>
      simp [hf] at h
      obtain ⟨_, rfl⟩ := h
      have := findOcc_some bad occs o' hf
      exact ⟨Occurs.atRoot this.1, this.2⟩
    | none =>
      simp [hf] at h
      cases hk : firstBadL bad kids with
      | none => simp [hk] at h
      | some r =>
        obtain ⟨p', o'⟩ := r
        simp [hk] at h
        obtain ⟨_, rfl⟩ := h
        obtain ⟨k, hkm, hoc, hb⟩ := firstBadL_some_aux bad kids p' o' hk
        exact ⟨Occurs.inKid hkm hoc, hb⟩
theorem firstBadL_some_aux (bad : Nat → Bool) : ∀ (ts : List Tree) p o, firstBadL bad ts = some (p, o) →
    ∃ k, k ∈ ts ∧ Occurs o k ∧ bad o.code = true
  | [], p, o, h => by simp [firstBadL] at h
  | t :: ts, p, o, h => by
    simp only [firstBadL] at h
    cases hf : firstBad bad t with
    | some r =>
      obtain ⟨p', o'⟩ := r
      simp [hf] at h
      obtain ⟨rfl, rfl⟩ := h
      have := firstBad_some_aux bad t p' o' hf
      exact ⟨t, List.mem_cons_self, this.1, this.2⟩
    | none =>
      simp [hf] at h
      obtain ⟨k, hk, r⟩ := firstBadL_some_aux bad ts p o h
      exact ⟨k, List.mem_cons_of_mem _ hk, r⟩
end



/-! ### value-level semantics of a dtype path -/

/-- What is assumed of numpy's `astype` between float formats: `rep k v` says the value `v` is
    representable in format `k`; representability is monotone in the precision order (C17's
    `fitsFF_sound`), and a conversion between two formats that both represent `v` is exact. -/
structure CastSem (V : Type) where
  rep : FK → V → Prop
  cast : FK → FK → V → V
  rep_mono : ∀ a b v, a.le b = true → rep a v → rep b v
  exact : ∀ a b v, rep a v → rep b v → cast a b v = v

def runPath {V : Type} (C : CastSem V) : List FK → V → V
  | a :: b :: rest, v => runPath C (b :: rest) (C.cast a b v)
  | _, v => v

theorem widening_exact {V : Type} (C : CastSem V) (p : List FK) (h : widening p = true) (v : V)
    (hv : ∀ a, p.head? = some a → C.rep a v) : runPath C p v = v := by
  induction p generalizing v with
  | nil => rfl
  | cons a rest ih =>
    cases rest with
    | nil => rfl
    | cons b rest2 =>
      simp only [widening, Bool.and_eq_true] at h
      have ha : C.rep a v := hv a rfl
      have hb : C.rep b v := C.rep_mono a b v h.1 ha
      simp only [runPath]
      rw [C.exact a b v ha hb]
      apply ih h.2
      intro x hx
      simp at hx
      subst hx
      exact hb


/-! ### x64 machine: straight-line code leaves the configuration alone -/

theorem run_plain (p : Prog) : ∀ (s : Cfg), p.plain = true → (run p s).cfg = s := by
  induction p with
  | skip => intro s _; rfl
  | raise => intro s _; rfl
  | set w => intro s h; simp [Prog.plain] at h
  | seq a b iha ihb =>
    intro s h
    simp only [Prog.plain, Bool.and_eq_true] at h
    simp only [run]
    split
    · exact iha s h.1
    · simp only []
      rw [iha s h.1]
      exact ihb s h.2
  | withCm c body ih => intro s h; simp [Prog.plain] at h


end J2O.C09
