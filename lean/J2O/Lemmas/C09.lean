/-
C09 — helper lemmas (core Lean only): list/scanner facts and invariants of the x64 machine.
-/
import J2O.Model.C09
set_option linter.unusedSimpArgs false
set_option linter.unusedVariables false

namespace J2O.C09

/-! ### scanner -/

theorem findOcc_none_iff (bad : Nat → Bool) (occs : List Occ) :
    findOcc bad occs = none ↔ occs.all (fun o => !bad o.code) = true := by
  induction occs with
  | nil => simp [findOcc]
  | cons o os ih =>
    unfold findOcc
    by_cases h : bad o.code = true
    · simp [h]
    · have h' : bad o.code = false := by simpa using h
      simp [h', ih]

theorem findOcc_some (bad : Nat → Bool) (occs : List Occ) (o : Occ)
    (h : findOcc bad occs = some o) : o ∈ occs ∧ bad o.code = true := by
  induction occs with
  | nil => simp [findOcc] at h
  | cons a os ih =>
    unfold findOcc at h
    by_cases hb : bad a.code = true
    · simp [hb] at h
      subst h
      exact ⟨List.mem_cons_self, hb⟩
    · have hb' : bad a.code = false := by simpa using hb
      simp [hb'] at h
      have := ih h
      exact ⟨List.mem_cons_of_mem _ this.1, this.2⟩

/-! ### x64 machine: the thread-local override is never touched -/

theorem update_loc (s : Cfg) (v : Bool) : (s.update v).loc = s.loc := rfl

theorem run_loc (p : Prog) : ∀ s, (run p s).cfg.loc = s.loc := by
  induction p with
  | skip => intro s; rfl
  | raise => intro s; rfl
  | set v => intro s; rfl
  | seq a b iha ihb =>
    intro s
    simp only [run]
    split
    · exact iha s
    · simp only []
      rw [ihb, iha]
  | withCm c body ih =>
    intro s
    cases c with
    | temp e =>
      simp only [run]
      split <;> split <;> simp [update_loc, ih]
    | force t =>
      simp only [run]
      split <;> split <;> simp [update_loc, ih]

/-- Without an override, reading returns the process-wide value. -/
theorem read_of_loc_none (s : Cfg) (h : s.loc = none) : s.read = s.glob := by
  simp [Cfg.read, h]

theorem cfg_ext (a b : Cfg) (hg : a.glob = b.glob) (hl : a.loc = b.loc) : a = b := by
  cases a; cases b; simp_all

end J2O.C09
