/-
C15 — helper lemmas for Props/C15.lean (placing tensors in the sidecar and reading them back).
-/
import J2O.Model.C15
set_option linter.unusedSimpArgs false
set_option linter.unusedVariables false

namespace J2O.C15

theorem tensor_eta (t : Tensor) : (⟨t.name, t.raw, t.data⟩ : Tensor) = t := by cases t; rfl

theorem read_slice (s x rest : Bytes) :
    readStored (some (s ++ (x ++ rest))) (.ext s.length x.length) = some x := by
  simp only [readStored]
  have h : s.length + x.length ≤ (s ++ (x ++ rest)).length := by simp
  simp only [h, if_true]
  congr 1
  rw [List.drop_left]
  exact List.take_left

/-- the sidecar only grows: what was there stays where it was -/
theorem place_appends (spills : Tensor → Bool) : ∀ (ts : List Tensor) (s : Bytes),
    ∃ suf, (place spills ts s).2 = s ++ suf := by
  intro ts
  induction ts with
  | nil => intro s; exact ⟨[], by simp [place]⟩
  | cons t ts ih =>
    intro s
    simp only [place]
    split
    · obtain ⟨suf, h⟩ := ih (s ++ t.data)
      exact ⟨t.data ++ suf, by simp [h]⟩
    · exact ih s

/-- everything `place` wrote is read back bit-exactly, whatever the sidecar held before (`s`)
    and whatever is appended later (`tail`) -/
theorem place_read (spills : Tensor → Bool) : ∀ (ts : List Tensor) (s tail : Bytes),
    readEntries (some ((place spills ts s).2 ++ tail)) (place spills ts s).1 = some ts := by
  intro ts
  induction ts with
  | nil => intro s tail; simp [place, readEntries]
  | cons t ts ih =>
    intro s tail
    simp only [place]
    split
    · simp only [readEntries]
      obtain ⟨suf, hs⟩ := place_appends spills ts (s ++ t.data)
      have hr : readStored (some ((place spills ts (s ++ t.data)).2 ++ tail))
          (.ext s.length t.data.length) = some t.data := by
        rw [hs]
        have : s ++ t.data ++ suf ++ tail = s ++ (t.data ++ (suf ++ tail)) := by simp
        rw [this]
        exact read_slice s t.data (suf ++ tail)
      rw [hr, ih (s ++ t.data) tail]
    · simp only [readEntries, readStored]
      rw [ih s tail]

theorem inlineAll_read (side : Option Bytes) : ∀ (ts : List Tensor),
    readEntries side (inlineAll ts) = some ts := by
  intro ts
  induction ts with
  | nil => simp [inlineAll, readEntries]
  | cons t ts ih =>
    simp only [inlineAll, List.map_cons, readEntries, readStored] at ih ⊢
    rw [ih]

/-- every external reference `place` creates points into the region it appended itself -/
theorem place_refs (spills : Tensor → Bool) : ∀ (ts : List Tensor) (s : Bytes) (e : Entry) (off len : Nat),
    e ∈ (place spills ts s).1 → e.stored = .ext off len →
      s.length ≤ off ∧ off + len ≤ (place spills ts s).2.length := by
  intro ts
  induction ts with
  | nil => intro s e off len h; simp [place] at h
  | cons t ts ih =>
    intro s e off len h hst
    simp only [place] at h ⊢
    split at h
    · rename_i hsp
      simp only [hsp, if_true]
      obtain ⟨suf, hs⟩ := place_appends spills ts (s ++ t.data)
      simp only [List.mem_cons] at h
      rcases h with h | h
      · subst h
        simp only [Stored.ext.injEq] at hst
        obtain ⟨rfl, rfl⟩ := hst
        rw [hs]
        simp
      · have := ih (s ++ t.data) e off len h hst
        simp at this
        omega
    · rename_i hsp
      simp only [hsp, if_false]
      simp only [List.mem_cons] at h
      rcases h with h | h
      · subst h; simp at hst
      · exact ih s e off len h hst

theorem inlineAll_no_ext (ts : List Tensor) (e : Entry) (off len : Nat) (h : e ∈ inlineAll ts) :
    e.stored ≠ .ext off len := by
  simp only [inlineAll, List.mem_map] at h
  obtain ⟨t, _, rfl⟩ := h
  simp

/-- the length-level placement is the projection of the byte-level one -/
theorem place_toL : ∀ (ts : List Tensor) (s : Bytes),
    (place spillsReal ts s).1.map (fun e => (e.name, e.stored.toL))
        = (placeL (ts.map fun t => (t.name, t.raw, t.data.length)) s.length).1 ∧
      (place spillsReal ts s).2.length
        = (placeL (ts.map fun t => (t.name, t.raw, t.data.length)) s.length).2 := by
  intro ts
  induction ts with
  | nil => intro s; simp [place, placeL]
  | cons t ts ih =>
    intro s
    by_cases hsp : spillsSize t.raw t.data.length = true
    · have := ih (s ++ t.data)
      simp only [List.length_append] at this
      simp only [place, placeL, List.map_cons, spillsReal, hsp, if_true]
      refine ⟨?_, this.2⟩
      simp only [List.map_cons, this.1]
      rfl
    · have := ih s
      have hsp' : spillsSize t.raw t.data.length = false := by simpa using hsp
      simp only [place, placeL, List.map_cons, spillsReal, hsp', Bool.false_eq_true, if_false]
      refine ⟨?_, this.2⟩
      simp only [List.map_cons, this.1]
      rfl

theorem inlineAll_toL (ts : List Tensor) :
    (inlineAll ts).map (fun e => (e.name, e.stored.toL))
      = inlineAllL (ts.map fun t => (t.name, t.raw, t.data.length)) := by
  simp [inlineAll, inlineAllL, Stored.toL, Function.comp_def]

theorem any_spills_toL (ts : List Tensor) :
    (ts.map fun t => (t.name, t.raw, t.data.length)).any (fun (x : String × Bool × Nat) => spillsSize x.2.1 x.2.2)
      = ts.any spillsReal := by
  induction ts with
  | nil => rfl
  | cons t ts ih => simp [List.any_cons, spillsReal, ih]

end J2O.C15

namespace J2O.C15

/-- the sidecar `place` produces is the old content followed by exactly the spilled payloads,
    in order — nothing else -/
theorem place_bytes (spills : Tensor → Bool) : ∀ (ts : List Tensor) (s : Bytes),
    (place spills ts s).2 = s ++ (ts.filter spills).flatMap (fun t => t.data) := by
  intro ts
  induction ts with
  | nil => intro s; simp [place]
  | cons t ts ih =>
    intro s
    by_cases h : spills t = true
    · simp [place, h, ih, List.filter_cons]
    · have h' : spills t = false := by simpa using h
      simp [place, h', ih, List.filter_cons]

end J2O.C15
