/-
C17 — value domains of element kinds (definitions used by the property statements) and
helper lemmas.  Property theorems live in `J2O.Props.C17`.
-/
import J2O.Lemmas.FloatFmt
set_option linter.unusedSimpArgs false
set_option linter.unusedVariables false

namespace J2O.C17

/-- A scalar: a finite rational or one of the IEEE specials. -/
inductive Sc where
  | fin (q : ℚ) | nan | pinf | ninf | nzero

/-- A value: real and imaginary component (imaginary `fin 0` for real kinds). -/
structure Val where
  re : Sc
  im : Sc

def RepSc (f : FloatFmt) : Sc → Prop
  | .fin q => Rep f q
  | _ => True          -- NaN, ±∞, −0 exist in every standard binary format

def IntIn (signed : Bool) (bits : Nat) (q : ℚ) : Prop :=
  ∃ n : ℤ, q = n ∧ (intBounds signed bits).1 ≤ n ∧ n ≤ (intBounds signed bits).2

/-- Value domain of a kind. (`other` is unconstrained; the decision never accepts it.) -/
def Dom : Kind → Val → Prop
  | .bool, v => (v.re = .fin 0 ∨ v.re = .fin 1) ∧ v.im = .fin 0
  | .int s b, v => (∃ q, v.re = .fin q ∧ IntIn s b q) ∧ v.im = .fin 0
  | .flt f, v => RepSc f v.re ∧ v.im = .fin 0
  | .cplx f, v => RepSc f v.re ∧ RepSc f v.im
  | .other, _ => True

theorem wf_iff (f : FloatFmt) : f.wf = true ↔ 1 ≤ f.p ∧ f.emin ≤ 0 ∧ 0 ≤ f.emax := by
  simp [FloatFmt.wf, and_assoc]

theorem rep_one (f : FloatFmt) (h : f.wf = true) : Rep f 1 := by
  obtain ⟨hp, he, hx⟩ := (wf_iff f).1 h
  have := int_rep f 1 1 (by norm_num) (by simpa using hp) (by simp; omega) he
  simpa using this

theorem rep_zero (f : FloatFmt) (h : f.wf = true) : Rep f 0 := by
  obtain ⟨hp, he, hx⟩ := (wf_iff f).1 h
  exact zero_rep f (by omega) he (by omega)

theorem pow_pos_int (k : ℕ) : (0:ℤ) < 2 ^ k := by positivity

/-- Every integer of an integer kind is representable when `fitsIF` accepts. -/
theorem fitsIF_rep (ss : Bool) (sb : Nat) (t : FloatFmt) (h : fitsIF ss sb t = true)
    (q : ℚ) (hq : IntIn ss sb q) : Rep t q := by
  simp only [fitsIF, Bool.and_eq_true, decide_eq_true_eq] at h
  obtain ⟨⟨⟨hreq, hem⟩, hwf⟩, hsb⟩ := h
  obtain ⟨hp, he, _⟩ := (wf_iff t).1 hwf
  obtain ⟨n, rfl, hlo, hhi⟩ := hq
  cases ss with
  | false =>
    simp only [intBounds, Bool.false_eq_true, if_false] at hlo hhi hreq
    have hpos := pow_pos_int sb
    have habs : |n| < 2 ^ sb := by rw [abs_lt]; constructor <;> omega
    exact int_rep t n sb habs hreq (by omega) he
  | true =>
    simp only [intBounds, if_true] at hlo hhi hreq
    obtain ⟨k, rfl⟩ : ∃ k, sb = k + 1 := ⟨sb - 1, by omega⟩
    simp only [Nat.add_sub_cancel] at hlo hhi
    have hpos := pow_pos_int k
    by_cases hmin : n = -(2 ^ k : ℤ)
    · have := neg_pow_rep t k hp (by push_cast at hem; omega) he
      rw [hmin]; push_cast; simpa using this
    · have habs : |n| < 2 ^ k := by rw [abs_lt]; constructor <;> omega
      exact int_rep t n k habs (by push_cast at hreq; omega) (by push_cast at hem; omega) he

theorem fitsII_in (ss : Bool) (sb : Nat) (ts : Bool) (tb : Nat)
    (h : fitsII ss sb ts tb = true) (q : ℚ) (hq : IntIn ss sb q) : IntIn ts tb q := by
  obtain ⟨n, rfl, hlo, hhi⟩ := hq
  refine ⟨n, rfl, ?_⟩
  have mono : ∀ a b : ℕ, a ≤ b → (2:ℤ) ^ a ≤ 2 ^ b :=
    fun a b hab => pow_le_pow_right₀ (by norm_num) hab
  cases ss <;> cases ts
  · simp only [fitsII, intBounds, Bool.false_eq_true, if_false, decide_eq_true_eq] at h hlo hhi ⊢
    have := mono sb tb h; omega
  · simp only [fitsII, intBounds, Bool.false_eq_true, if_false, if_true,
      decide_eq_true_eq] at h hlo hhi ⊢
    have := mono sb (tb - 1) (by omega); have := pow_pos_int sb; omega
  · simp [fitsII] at h
  · simp only [fitsII, intBounds, if_true, Bool.true_and, decide_eq_true_eq] at h hlo hhi ⊢
    have := mono (sb - 1) (tb - 1) (by omega); omega

theorem fitsFF_repSc (s t : FloatFmt) (h : fitsFF s t = true) (x : Sc) (hx : RepSc s x) :
    RepSc t x := by
  simp only [fitsFF, Bool.and_eq_true, decide_eq_true_eq] at h
  obtain ⟨⟨⟨h1, h2⟩, h3⟩, hwf⟩ := h
  obtain ⟨hp, _, _⟩ := (wf_iff s).1 hwf
  cases x with
  | fin q => exact fitsFF_rep s t h1 h2 h3 (by omega) q hx
  | _ => trivial

theorem fitsFF_wf (s t : FloatFmt) (h : fitsFF s t = true) : t.wf = true := by
  simp only [fitsFF, Bool.and_eq_true, decide_eq_true_eq] at h
  obtain ⟨⟨⟨h1, h2⟩, h3⟩, hwf⟩ := h
  obtain ⟨hp, he, hx⟩ := (wf_iff s).1 hwf
  exact (wf_iff t).2 ⟨by omega, by omega, by omega⟩

theorem fitsIF_wf (ss : Bool) (sb : Nat) (t : FloatFmt) (h : fitsIF ss sb t = true) :
    t.wf = true := by
  simp only [fitsIF, Bool.and_eq_true, decide_eq_true_eq] at h
  exact h.1.2

theorem fdiv_pos (a b : Int) (hb : 0 < b) : Int.fdiv a b = a / b :=
  Int.fdiv_eq_ediv_of_nonneg a (Int.le_of_lt hb)

end J2O.C17
