/-
C02 — soundness of the static analyses and of every local rewrite rule of the validator.
-/
import J2O.Lemmas.C02Sem

namespace J2O.C02
open J2O Term

variable {α : Type} (I : Interp α) (ρ : Nat → Tensor α)

theorem eval_proper {t : Term} (h : proper t = true) : ∃ x, eval I ρ t = [x] := by
  cases t <;> simp [proper] at h <;> simp [eval]

theorem erase_eval : ∀ t : Term, eval I ρ t.erase = eval I ρ t := by
  intro t
  induction t with
  | leaf id ann s => rfl
  | boolc b => rfl
  | nil => rfl
  | cons t ts iht ihts => simp [erase, eval, iht, ihts]
  | app h ann args ih => simp [erase, eval, ih]

theorem eval_cons_nil (a : Term) : eval I ρ (.cons a .nil) = eval I ρ a := by
  simp [eval]

theorem pw_unary_rank (f : List α → α) (x : Tensor α) : (pw f [x]).rank = x.rank := by
  simp [pw, maxRank]

theorem pw_dtype_cons (f : List α → α) (x : Tensor α) (xs : List (Tensor α)) :
    (pw f (x :: xs)).dtype = x.dtype := rfl

theorem rankOf_some_proper {t : Term} {n : Nat} (h : rankOf t = some n) : proper t = true := by
  cases t <;> simp_all [rankOf, proper]

def RankStmt (t : Term) : Prop :=
  AnnotSound I ρ t → ∀ n, rankOf t = some n → ∀ x, eval I ρ t = [x] → x.rank = n

theorem rankOf_sound_aux : ∀ (t : Term),
    RankStmt I ρ t ∧ (∀ a rest, t = .cons a rest → RankStmt I ρ a) := by
  intro t
  induction t with
  | leaf id ann s =>
    refine ⟨?_, by intro a r h; cases h⟩
    intro hs n hn x hx
    simp only [eval, List.cons.injEq, and_true] at hx
    subst hx
    simp only [rankOf, annRank, Option.map_eq_some_iff] at hn
    obtain ⟨sh, hsh, rfl⟩ := hn
    exact (hs.1.2 sh hsh).1
  | boolc b => exact ⟨by intro _ n hn; simp [rankOf] at hn, by intro a r h; cases h⟩
  | nil => exact ⟨by intro _ n hn; simp [rankOf] at hn, by intro a r h; cases h⟩
  | cons t ts iht _ =>
    refine ⟨by intro _ n hn; simp [rankOf] at hn, ?_⟩
    intro a r h; cases h; exact iht.1
  | app h ann args ih =>
    refine ⟨?_, by intro a r h; cases h⟩
    intro hs n hn x hx
    simp only [eval, List.cons.injEq, and_true] at hx
    subst hx
    obtain ⟨hargs, hann⟩ := hs
    have fromAnn : annRank ann = some n → (applyHead I h (eval I ρ args)).rank = n := by
      intro hr
      simp only [annRank, Option.map_eq_some_iff] at hr
      obtain ⟨sh, hsh, rfl⟩ := hr
      exact (hann.2 sh hsh).1
    -- the single-argument pass-through: the argument's rank is known and it is proper
    have pass : ∀ (t : Term), args = .cons t .nil → rankOf t = some n →
        ∃ y, eval I ρ args = [y] ∧ y.rank = n := by
      intro t ht hr
      subst ht
      have hst := ih.2 t .nil rfl
      simp only [AnnotSound] at hargs
      -- a term with a known rank is proper, hence evaluates to a singleton
      obtain ⟨y, hy⟩ := eval_proper I ρ (rankOf_some_proper hr)
      exact ⟨y, by simp [eval, hy], hst hargs.1 n hr y hy⟩
    cases h with
    | transpose p =>
      cases args with
      | cons t ts =>
        cases ts with
        | nil =>
          obtain ⟨y, hy, hr⟩ := pass t rfl (by simpa [rankOf] using hn)
          rw [hy]; simp [applyHead, transpose, hr]
        | _ => simp [rankOf] at hn
      | _ => simp [rankOf] at hn
    | cast to =>
      cases args with
      | cons t ts =>
        cases ts with
        | nil =>
          obtain ⟨y, hy, hr⟩ := pass t rfl (by simpa [rankOf] using hn)
          rw [hy]; simp [applyHead, castT, hr]
        | _ => simp [rankOf] at hn
      | _ => simp [rankOf] at hn
    | identity =>
      cases args with
      | cons t ts =>
        cases ts with
        | nil =>
          obtain ⟨y, hy, hr⟩ := pass t rfl (by simpa [rankOf] using hn)
          rw [hy]; simp [applyHead, hr]
        | _ => simp [rankOf] at hn
      | _ => simp [rankOf] at hn
    | castLike => exact fromAnn (by simpa [rankOf] using hn)
    | pw nm att =>
      cases args with
      | cons t ts =>
        cases ts with
        | nil =>
          obtain ⟨y, hy, hr⟩ := pass t rfl (by simpa [rankOf] using hn)
          rw [hy]; simp [applyHead, pw_unary_rank, hr]
        | _ => exact fromAnn (by simpa [rankOf] using hn)
      | _ => exact fromAnn (by simpa [rankOf] using hn)
    | reshape => exact fromAnn (by simpa [rankOf] using hn)
    | reduce nm ax => exact fromAnn (by simpa [rankOf] using hn)
    | opq op att k => exact fromAnn (by simpa [rankOf] using hn)

theorem rankOf_sound (t : Term) (hs : AnnotSound I ρ t) (n : Nat) (hn : rankOf t = some n)
    (x : Tensor α) (hx : eval I ρ t = [x]) : x.rank = n :=
  (rankOf_sound_aux I ρ t).1 hs n hn x hx

/-! ### dtype analysis -/

theorem dtypeOf_some_proper {t : Term} {n : Nat} (h : dtypeOf t = some n) : proper t = true := by
  cases t <;> simp_all [dtypeOf, proper]

def DtypeStmt (t : Term) : Prop :=
  AnnotSound I ρ t → ∀ n, dtypeOf t = some n → ∀ x, eval I ρ t = [x] → x.dtype = n

theorem dtypeOf_sound_aux : ∀ (t : Term),
    DtypeStmt I ρ t ∧ (∀ a rest, t = .cons a rest → DtypeStmt I ρ a) := by
  intro t
  induction t with
  | leaf id ann s =>
    refine ⟨?_, by intro a r h; cases h⟩
    intro hs n hn x hx
    simp only [eval, List.cons.injEq, and_true] at hx
    subst hx
    exact hs.1.1 n (by simpa [dtypeOf] using hn)
  | boolc b => exact ⟨by intro _ n hn; simp [dtypeOf] at hn, by intro a r h; cases h⟩
  | nil => exact ⟨by intro _ n hn; simp [dtypeOf] at hn, by intro a r h; cases h⟩
  | cons t ts iht _ =>
    refine ⟨by intro _ n hn; simp [dtypeOf] at hn, ?_⟩
    intro a r h; cases h; exact iht.1
  | app h ann args ih =>
    refine ⟨?_, by intro a r h; cases h⟩
    intro hs n hn x hx
    simp only [eval, List.cons.injEq, and_true] at hx
    subst hx
    obtain ⟨hargs, hann⟩ := hs
    have fromAnn : ann.dtype = some n → (applyHead I h (eval I ρ args)).dtype = n :=
      fun hr => hann.1 n hr
    have pass : ∀ (t : Term), args = .cons t .nil → dtypeOf t = some n →
        ∃ y, eval I ρ args = [y] ∧ y.dtype = n := by
      intro t ht hr
      subst ht
      have hst := ih.2 t .nil rfl
      simp only [AnnotSound] at hargs
      obtain ⟨y, hy⟩ := eval_proper I ρ (dtypeOf_some_proper hr)
      exact ⟨y, by simp [eval, hy], hst hargs.1 n hr y hy⟩
    cases h with
    | transpose p =>
      cases args with
      | cons t ts =>
        cases ts with
        | nil =>
          obtain ⟨y, hy, hr⟩ := pass t rfl (by simpa [dtypeOf] using hn)
          rw [hy]; simp [applyHead, transpose, hr]
        | _ => simp [dtypeOf] at hn
      | _ => simp [dtypeOf] at hn
    | cast to =>
      cases args with
      | cons t ts =>
        cases ts with
        | nil =>
          simp only [dtypeOf] at hn
          split at hn
          · rename_i hp
            obtain ⟨y, hy⟩ := eval_proper I ρ hp
            simp only [Option.some.injEq] at hn
            simp [eval, hy, applyHead, castT, hn]
          · simp at hn
        | _ => simp [dtypeOf] at hn
      | _ => simp [dtypeOf] at hn
    | identity =>
      cases args with
      | cons t ts =>
        cases ts with
        | nil =>
          obtain ⟨y, hy, hr⟩ := pass t rfl (by simpa [dtypeOf] using hn)
          rw [hy]; simp [applyHead, hr]
        | _ => simp [dtypeOf] at hn
      | _ => simp [dtypeOf] at hn
    | castLike => exact fromAnn (by simpa [dtypeOf] using hn)
    | pw nm att => exact fromAnn (by simpa [dtypeOf] using hn)
    | reshape => exact fromAnn (by simpa [dtypeOf] using hn)
    | reduce nm ax => exact fromAnn (by simpa [dtypeOf] using hn)
    | opq op att k => exact fromAnn (by simpa [dtypeOf] using hn)

/-! ### shape analysis -/

theorem shapeOf_some_proper {t : Term} {sh : List Dim} (h : shapeOf t = some sh) :
    proper t = true := by
  cases t <;> simp_all [shapeOf, proper]

def ShapeStmt (t : Term) : Prop :=
  AnnotSound I ρ t → ∀ sh, shapeOf t = some sh → ∀ x, eval I ρ t = [x] → shapeOK I sh x

theorem shapeOf_sound_aux : ∀ (t : Term),
    ShapeStmt I ρ t ∧ (∀ a rest, t = .cons a rest → ShapeStmt I ρ a) := by
  intro t
  induction t with
  | leaf id ann s =>
    refine ⟨?_, by intro a r h; cases h⟩
    intro hs sh hn x hx
    simp only [eval, List.cons.injEq, and_true] at hx
    subst hx
    exact hs.1.2 sh (by simpa [shapeOf] using hn)
  | boolc b => exact ⟨by intro _ n hn; simp [shapeOf] at hn, by intro a r h; cases h⟩
  | nil => exact ⟨by intro _ n hn; simp [shapeOf] at hn, by intro a r h; cases h⟩
  | cons t ts iht _ =>
    refine ⟨by intro _ n hn; simp [shapeOf] at hn, ?_⟩
    intro a r h; cases h; exact iht.1
  | app h ann args ih =>
    refine ⟨?_, by intro a r h; cases h⟩
    intro hs sh hn x hx
    simp only [eval, List.cons.injEq, and_true] at hx
    subst hx
    obtain ⟨hargs, hann⟩ := hs
    have fromAnn : ann.shape = some sh → shapeOK I sh (applyHead I h (eval I ρ args)) :=
      fun hr => hann.2 sh hr
    have pass : ∀ (t : Term) (sh' : List Dim), args = .cons t .nil → shapeOf t = some sh' →
        ∃ y, eval I ρ args = [y] ∧ shapeOK I sh' y := by
      intro t sh' ht hr
      subst ht
      have hst := ih.2 t .nil rfl
      simp only [AnnotSound] at hargs
      obtain ⟨y, hy⟩ := eval_proper I ρ (shapeOf_some_proper hr)
      exact ⟨y, by simp [eval, hy], hst hargs.1 sh' hr y hy⟩
    cases h with
    | transpose p =>
      cases args with
      | cons t ts =>
        cases ts with
        | nil =>
          simp only [shapeOf] at hn
          split at hn
          · rename_i sh0 hsh0
            split at hn
            · rename_i hc
              simp only [Bool.and_eq_true, beq_iff_eq] at hc
              obtain ⟨hv, hlen⟩ := hc
              simp only [Option.some.injEq] at hn
              subst hn
              obtain ⟨y, hy, hr, hd⟩ := pass t sh0 rfl hsh0
              rw [hy]
              refine ⟨by simp [applyHead, transpose, hr, hlen], ?_⟩
              intro k hk
              simp only [List.length_map] at hk
              have hpk : permFn p k < sh0.length := by
                rw [← hlen]; exact permFn_lt hv hk
              have := hd (permFn p k) hpk
              simp only [applyHead, transpose, List.getElem_map]
              have e : sh0.getD p[k] Dim.unk = sh0[permFn p k] := by
                simp [permFn, hk, List.getD_eq_getElem?_getD]
                rw [List.getElem?_eq_getElem (by simpa [permFn, hk] using hpk)]
                simp
              rw [e]; exact this
            · simp at hn
          · simp at hn
        | _ => simp [shapeOf] at hn
      | _ => simp [shapeOf] at hn
    | cast to =>
      cases args with
      | cons t ts =>
        cases ts with
        | nil =>
          obtain ⟨y, hy, hr⟩ := pass t sh rfl (by simpa [shapeOf] using hn)
          rw [hy]; exact hr
        | _ => simp [shapeOf] at hn
      | _ => simp [shapeOf] at hn
    | identity =>
      cases args with
      | cons t ts =>
        cases ts with
        | nil =>
          obtain ⟨y, hy, hr⟩ := pass t sh rfl (by simpa [shapeOf] using hn)
          rw [hy]; exact hr
        | _ => simp [shapeOf] at hn
      | _ => simp [shapeOf] at hn
    | pw nm att =>
      cases args with
      | cons t ts =>
        cases ts with
        | nil =>
          obtain ⟨y, hy, hr, hd⟩ := pass t sh rfl (by simpa [shapeOf] using hn)
          rw [hy]
          obtain ⟨pr, pd, _⟩ := pw_unary_spec (I.fn nm att) y
          exact ⟨by simp [applyHead, pr, hr], by intro k hk; simp only [applyHead, pd]; exact hd k hk⟩
        | _ => exact fromAnn (by simpa [shapeOf] using hn)
      | _ => exact fromAnn (by simpa [shapeOf] using hn)
    | castLike => exact fromAnn (by simpa [shapeOf] using hn)
    | reshape => exact fromAnn (by simpa [shapeOf] using hn)
    | reduce nm ax => exact fromAnn (by simpa [shapeOf] using hn)
    | opq op att k => exact fromAnn (by simpa [shapeOf] using hn)

theorem shapeOf_sound (t : Term) (hs : AnnotSound I ρ t) (sh : List Dim)
    (hn : shapeOf t = some sh) (x : Tensor α) (hx : eval I ρ t = [x]) : shapeOK I sh x :=
  (shapeOf_sound_aux I ρ t).1 hs sh hn x hx

/-! ### element-count rule for Reshape, annotation-free normalisation -/

theorem prodTo_congr_pos (d d' : Nat → Nat) : ∀ n, (∀ j, j < n → d j = d' j ∧ 0 < d j) →
    prodTo d n = prodTo d' n ∧ 0 < prodTo d n := by
  intro n
  induction n with
  | zero => intro _; simp [prodTo]
  | succ n ih =>
    intro h
    obtain ⟨e, p⟩ := ih (fun j hj => h j (by omega))
    obtain ⟨e2, p2⟩ := h n (by omega)
    refine ⟨by simp [prodTo, e, e2], ?_⟩
    simp only [prodTo]; exact Nat.mul_pos p p2

theorem prodTo_cancel (d d' : Nat → Nat) (k : Nat) : ∀ n, k < n →
    (∀ j, j < n → j ≠ k → d j = d' j ∧ 0 < d j) → prodTo d n = prodTo d' n → d k = d' k := by
  intro n
  induction n with
  | zero => intro h; omega
  | succ n ih =>
    intro hk h he
    simp only [prodTo] at he
    by_cases hkn : k = n
    · subst hkn
      obtain ⟨e, p⟩ := prodTo_congr_pos d d' k (fun j hj => h j (by omega) (by omega))
      rw [← e] at he
      exact Nat.eq_of_mul_eq_mul_left p he
    · obtain ⟨e2, p2⟩ := h n (by omega) (by omega)
      rw [← e2] at he
      have := Nat.eq_of_mul_eq_mul_right p2 he
      exact ih (by omega) (fun j hj hne => h j (by omega) hne) this

theorem posEq_spec {a b : Dim} (h : a.posEq b = true) : ∃ m, 0 < m ∧ a = .known m ∧ b = .known m := by
  cases a <;> cases b <;> simp [Dim.posEq] at h
  rename_i m n
  exact ⟨m, h.2, rfl, by rw [h.1]⟩

theorem allPos_spec : ∀ (as bs : List Dim), allPos as bs = true →
    as.length = bs.length ∧ ∀ j (h1 : j < as.length) (h2 : j < bs.length),
      ∃ m, 0 < m ∧ as[j] = .known m ∧ bs[j] = .known m := by
  intro as
  induction as with
  | nil => intro bs h; cases bs <;> simp [allPos] at h; simp
  | cons a as ih =>
    intro bs h
    cases bs with
    | nil => simp [allPos] at h
    | cons b bs =>
      simp only [allPos, Bool.and_eq_true] at h
      obtain ⟨l, r⟩ := ih bs h.2
      refine ⟨by simp [l], ?_⟩
      intro j h1 h2
      cases j with
      | zero => simpa using posEq_spec h.1
      | succ j => simpa using r j (by simpa using h1) (by simpa using h2)

theorem oneOff_spec : ∀ (as bs : List Dim), oneOff as bs = true →
    as.length = bs.length ∧ ∃ k, k < as.length ∧ ∀ j (h1 : j < as.length) (h2 : j < bs.length), j ≠ k →
      ∃ m, 0 < m ∧ as[j] = .known m ∧ bs[j] = .known m := by
  intro as
  induction as with
  | nil => intro bs h; simp [oneOff] at h
  | cons a as ih =>
    intro bs h
    cases bs with
    | nil => simp [oneOff] at h
    | cons b bs =>
      simp only [oneOff, Bool.or_eq_true, Bool.and_eq_true] at h
      rcases h with ⟨hp, ho⟩ | ha
      · obtain ⟨l, k, hk, r⟩ := ih bs ho
        refine ⟨by simp [l], k + 1, by simpa using hk, ?_⟩
        intro j h1 h2 hne
        cases j with
        | zero => simpa using posEq_spec hp
        | succ j => simpa using r j (by simpa using h1) (by simpa using h2) (by omega)
      · obtain ⟨l, r⟩ := allPos_spec as bs ha
        refine ⟨by simp [l], 0, by simp, ?_⟩
        intro j h1 h2 hne
        cases j with
        | zero => omega
        | succ j => simpa using r j (by simpa using h1) (by simpa using h2)

theorem eval_stripApp : ∀ t : Term, eval I ρ (stripApp t) = eval I ρ t := by
  intro t
  induction t with
  | leaf id ann s => rfl
  | boolc b => rfl
  | nil => rfl
  | cons t ts iht ihts => simp [stripApp, eval, iht, ihts]
  | app h ann args ih => simp [stripApp, eval, ih]

theorem annotSound_stripApp : ∀ t : Term, AnnotSound I ρ t → AnnotSound I ρ (stripApp t) := by
  intro t
  induction t with
  | leaf id ann s => intro h; exact h
  | boolc b => intro h; exact h
  | nil => intro h; exact h
  | cons t ts iht ihts => intro h; exact ⟨iht h.1, ihts h.2⟩
  | app h ann args ih =>
    intro hs
    refine ⟨ih hs.1, ?_⟩
    simp [annOK, Ann.none]

end J2O.C02
