/-
C01 (round 2) — helper lemmas about the tensor-level operator models (`J2O.Model.C01Tensor`);
the property theorems are in `J2O.Props.C01Tensor`, the obligations about the regenerated dataflow
recipes in `J2O.GenProps.C01Tensor`.
-/
import Mathlib.Tactic.SplitIfs
import J2O.Model.C01Tensor
set_option linter.unusedSimpArgs false
set_option linter.unusedVariables false
set_option linter.unusedTactic false

namespace J2O.C01

/-! ## Range -/

theorem onnx_range_nat (n : Nat) :
    Onnx.range 0 (n : Int) 1 = some ((List.range n).map fun (i : Nat) => (i : Int)) := by
  have h : Int.fdiv (-((n : Int) - 0)) 1 = -(n : Int) := by simp
  simp only [Onnx.range, h]
  have hn : ¬ (-(-(n : Int)) < 0) := by omega
  have ht : (-(-(n : Int))).toNat = n := by omega
  have hn' : ¬ ((n : Int) < 0) := by omega
  simp [hn, ht, hn']

/-! ## Gather -/

theorem gather1_map (l : List Int) (g : Nat → Int) (xs : List Nat)
    (h : ∀ x ∈ xs, 0 ≤ g x ∧ g x < (l.length : Int)) :
    Onnx.gather1 l (xs.map g) = some (xs.map fun x => l.getD (g x).toNat 0) := by
  induction xs with
  | nil => simp [Onnx.gather1]
  | cons x xs ih =>
    have hx := h x (by simp)
    have hr := ih (fun y hy => h y (by simp [hy]))
    have h1 : -(l.length : Int) ≤ g x ∧ g x < (l.length : Int) := by omega
    have h2 : ¬ g x < 0 := by omega
    simp only [List.map_cons, Onnx.gather1, h1, and_self, if_true, hr, h2, if_false]

theorem gather1_ints (l : List Int) (idx : List Int)
    (h : ∀ i ∈ idx, -(l.length : Int) ≤ i ∧ i < (l.length : Int)) :
    Onnx.gather1 l idx =
      some (idx.map fun i => l.getD (if i < 0 then i + (l.length : Int) else i).toNat 0) := by
  induction idx with
  | nil => simp [Onnx.gather1]
  | cons x xs ih =>
    have hx := h x (by simp)
    have hr := ih (fun y hy => h y (by simp [hy]))
    simp only [List.map_cons, Onnx.gather1, hx, and_self, if_true, hr]

theorem map_getD_rev (l : List Int) :
    (List.range l.length).map (fun (i : Nat) => l.getD ((l.length : Int) - 1 - (i : Int)).toNat 0) = l.reverse := by
  apply List.ext_getElem
  · simp
  · intro i h1 h2
    have hi : i < l.length := by simpa using h1
    have e : ((l.length : Int) - 1 - (i : Int)).toNat = l.length - 1 - i := by omega
    simp only [List.getElem_map, List.getElem_range, e, List.getElem_reverse]
    rw [List.getD_eq_getElem?_getD, List.getElem?_eq_getElem (by omega)]
    rfl

/-! ## Pad -/

theorem pad1_eq_jaxPad (l : List Int) (lo hi v : Int)
    (hlo : -lo ≤ (l.length : Int)) (hhi : -hi ≤ (l.length : Int) + lo) :
    Onnx.pad1 l lo hi v = some (Jax.pad lo hi v l) := by
  have hn : ¬ ((l.length : Int) + lo + hi < 0) := by omega
  simp only [Onnx.pad1, hn, if_false, Option.some.injEq]
  apply List.ext_getElem?
  intro i
  by_cases hlo0 : lo ≥ 0 <;> by_cases hhi0 : hi ≥ 0 <;>
    simp only [Jax.pad, Jax.padEdge, hlo0, hhi0, if_true, if_false] <;>
    simp only [List.getElem?_map, List.getElem?_range, List.getElem?_append, List.getElem?_replicate,
      List.getElem?_drop, List.getElem?_take, List.length_append, List.length_replicate,
      List.length_drop, List.length_take, List.getD_eq_getElem?_getD] <;>
    grind

/-! ## Reductions -/

theorem foldMax_step (a x : Int) (xs : List Int) :
    Onnx.foldMax (if x > a then x else a) xs =
      if a < Onnx.foldMax x xs then Onnx.foldMax x xs else a := by
  induction xs generalizing a x with
  | nil => simp only [Onnx.foldMax]; split_ifs <;> omega
  | cons y ys ih =>
    simp only [Onnx.foldMax, ih]
    split_ifs <;> omega

theorem maxList_eq_foldMax (a : Int) (xs : List Int) :
    Jax.maxList (a :: xs) = some (Onnx.foldMax a xs) := by
  induction xs generalizing a with
  | nil => simp [Jax.maxList, Onnx.foldMax]
  | cons x xs ih =>
    simp only [Jax.maxList] at ih ⊢
    rw [ih x]
    simp only [Onnx.foldMax, foldMax_step]

theorem foldMin_step (a x : Int) (xs : List Int) :
    Onnx.foldMin (if x < a then x else a) xs =
      if Onnx.foldMin x xs < a then Onnx.foldMin x xs else a := by
  induction xs generalizing a x with
  | nil => simp only [Onnx.foldMin]; split_ifs <;> omega
  | cons y ys ih =>
    simp only [Onnx.foldMin, ih]
    split_ifs <;> omega

theorem minList_eq_foldMin (a : Int) (xs : List Int) :
    Jax.minList (a :: xs) = some (Onnx.foldMin a xs) := by
  induction xs generalizing a with
  | nil => simp [Jax.minList, Onnx.foldMin]
  | cons x xs ih =>
    simp only [Jax.minList] at ih ⊢
    rw [ih x]
    simp only [Onnx.foldMin, foldMin_step]

theorem sumList_eq_jaxSum (l : List Int) : Onnx.sumList l = Jax.sum l := by
  induction l with
  | nil => rfl
  | cons x xs ih => simp [Onnx.sumList, Jax.sum, ih]

theorem prodList_eq_jaxProd (l : List Int) : Onnx.prodList l = Jax.prod l := by
  induction l with
  | nil => rfl
  | cons x xs ih => simp [Onnx.prodList, Jax.prod, ih]

/-- a boolean tensor holds 0/1 -/
def Bits (l : List Int) : Prop := ∀ x ∈ l, x = 0 ∨ x = 1

theorem foldMin_bits (a : Int) (xs : List Int) (ha : a = 0 ∨ a = 1) (h : Bits xs) :
    Onnx.foldMin a xs = if a ≠ 0 ∧ Jax.all xs = true then 1 else 0 := by
  induction xs generalizing a with
  | nil => rcases ha with rfl | rfl <;> simp [Onnx.foldMin, Jax.all]
  | cons x xs ih =>
    have hx : x = 0 ∨ x = 1 := h x (by simp)
    have hxs : Bits xs := fun y hy => h y (by simp [hy])
    simp only [Onnx.foldMin, Jax.all]
    rcases ha with rfl | rfl <;> rcases hx with rfl | rfl <;> simp [ih _ _ hxs]

theorem reduceMin_bits (l : List Int) (h : Bits l) :
    (Onnx.reduceAll .min .i64 l = 0) ↔ Jax.all l = false := by
  cases l with
  | nil => simp [Onnx.reduceAll, Jax.all, DT.hi, DT.signed, DT.bits]
  | cons a xs =>
    have ha : a = 0 ∨ a = 1 := h a (by simp)
    have hxs : Bits xs := fun y hy => h y (by simp [hy])
    simp only [Onnx.reduceAll, foldMin_bits a xs ha hxs, Jax.all]
    rcases ha with rfl | rfl <;> cases hb : Jax.all xs <;> simp

theorem sumList_bits (l : List Int) (h : Bits l) :
    0 ≤ Onnx.sumList l ∧ ((Onnx.sumList l = 0) ↔ Jax.any l = false) := by
  induction l with
  | nil => simp [Onnx.sumList, Jax.any]
  | cons a xs ih =>
    have ha : a = 0 ∨ a = 1 := h a (by simp)
    have hxs : Bits xs := fun y hy => h y (by simp [hy])
    obtain ⟨h0, h1⟩ := ih hxs
    simp only [Onnx.sumList, Jax.any]
    rcases ha with rfl | rfl
    · simpa using ⟨h0, h1⟩
    · constructor
      · omega
      · simp; omega

/-! ## Sorting: ONNX TopK (value, then lower index) = stable insertion sort by value -/

theorem mem_insertBy (bf : Int × Nat → Int × Nat → Bool) (p q : Int × Nat) (s : List (Int × Nat)) :
    q ∈ Onnx.insertBy bf p s ↔ q = p ∨ q ∈ s := by
  induction s with
  | nil => simp [Onnx.insertBy]
  | cons r rs ih =>
    simp only [Onnx.insertBy]
    split
    · simp
    · simp only [List.mem_cons, ih]
      constructor
      · rintro (h | h | h) <;> simp [h]
      · rintro (h | h | h) <;> simp [h]

theorem mem_sortBy (bf : Int × Nat → Int × Nat → Bool) (q : Int × Nat) (s : List (Int × Nat)) :
    q ∈ Onnx.sortBy bf s ↔ q ∈ s := by
  induction s with
  | nil => simp [Onnx.sortBy]
  | cons r rs ih => simp [Onnx.sortBy, mem_insertBy, ih]

theorem length_insertBy (bf : Int × Nat → Int × Nat → Bool) (p : Int × Nat) (s : List (Int × Nat)) :
    (Onnx.insertBy bf p s).length = s.length + 1 := by
  induction s with
  | nil => simp [Onnx.insertBy]
  | cons r rs ih =>
    simp only [Onnx.insertBy]
    split <;> simp [ih]

theorem length_sortBy (bf : Int × Nat → Int × Nat → Bool) (s : List (Int × Nat)) :
    (Onnx.sortBy bf s).length = s.length := by
  induction s with
  | nil => rfl
  | cons r rs ih => simp [Onnx.sortBy, length_insertBy, ih]

theorem length_enumFrom (i : Nat) (l : List Int) : (Onnx.enumFrom i l).length = l.length := by
  induction l generalizing i with
  | nil => rfl
  | cons x xs ih => simp [Onnx.enumFrom, ih]

theorem mem_enumFrom (i : Nat) (l : List Int) (q : Int × Nat) (h : q ∈ Onnx.enumFrom i l) :
    i ≤ q.2 ∧ q.2 < i + l.length := by
  induction l generalizing i with
  | nil => simp [Onnx.enumFrom] at h
  | cons x xs ih =>
    simp only [Onnx.enumFrom, List.mem_cons] at h
    rcases h with rfl | h
    · simp
    · have := ih (i + 1) h
      simp only [List.length_cons]; omega

/-- inserting an element whose position is lower than every position already present: the
    specification order of TopK and the stable order agree. -/
theorem insertBy_topk_eq_stable (lg : Bool) (x : Int) (i : Nat) (s : List (Int × Nat))
    (h : ∀ q ∈ s, i < q.2) :
    Onnx.insertBy (Onnx.topkBefore lg) (x, i) s = Onnx.insertBy (Jax.stableBefore lg) (x, i) s := by
  induction s with
  | nil => rfl
  | cons q qs ih =>
    have hq : i < q.2 := h q (by simp)
    have hqs : ∀ r ∈ qs, i < r.2 := fun r hr => h r (by simp [hr])
    have hc : Onnx.topkBefore lg (x, i) q = Jax.stableBefore lg (x, i) q := by
      rw [Bool.eq_iff_iff]
      cases lg <;> simp [Onnx.topkBefore, Jax.stableBefore] <;> omega
    simp only [Onnx.insertBy, hc, ih hqs]

theorem sortBy_topk_eq_stable (lg : Bool) (i : Nat) (l : List Int) :
    Onnx.sortBy (Onnx.topkBefore lg) (Onnx.enumFrom i l) =
      Onnx.sortBy (Jax.stableBefore lg) (Onnx.enumFrom i l) := by
  induction l generalizing i with
  | nil => rfl
  | cons x xs ih =>
    simp only [Onnx.enumFrom, Onnx.sortBy, ih (i + 1)]
    apply insertBy_topk_eq_stable
    intro q hq
    have := mem_enumFrom (i + 1) xs q ((mem_sortBy _ q _).mp hq)
    omega

theorem map_fst_insertBy (x : Int) (i : Nat) (s : List (Int × Nat)) :
    (Onnx.insertBy (Jax.stableBefore false) (x, i) s).map (·.1) = Jax.insertVal x (s.map (·.1)) := by
  induction s with
  | nil => rfl
  | cons q qs ih =>
    simp only [Onnx.insertBy, Jax.stableBefore, List.map_cons, Jax.insertVal]
    by_cases h : x ≤ q.1 <;> simp [h, ih]

theorem map_fst_sortPairs (i : Nat) (l : List Int) :
    (Onnx.sortBy (Jax.stableBefore false) (Onnx.enumFrom i l)).map (·.1) = Jax.sort l := by
  induction l generalizing i with
  | nil => rfl
  | cons x xs ih => simp only [Onnx.enumFrom, Onnx.sortBy, map_fst_insertBy, ih (i + 1), Jax.sort]

theorem topk_all (lg : Bool) (k : Nat) (l : List Int) (h : l.length ≤ k) :
    Onnx.topk lg k l = Jax.sortPairs lg l := by
  simp only [Onnx.topk, Jax.sortPairs, sortBy_topk_eq_stable]
  apply List.take_of_length_le
  simp [length_sortBy, length_enumFrom, h]

theorem mem_sortPairs_lt (lg : Bool) (l : List Int) (q : Int × Nat) (h : q ∈ Jax.sortPairs lg l) :
    q.2 < l.length := by
  have := mem_enumFrom 0 l q ((mem_sortBy _ q _).mp h)
  omega

/-! ## MaxPool windows = running extrema -/

theorem prefixMax (x : Int) (xs : List Int) :
    (List.range (xs.length + 1)).map (fun i => Onnx.foldMax x (xs.take i)) =
      x :: Jax.scanl1 (fun a y => if y > a then y else a) x xs := by
  induction xs generalizing x with
  | nil => simp [Onnx.foldMax, Jax.scanl1]
  | cons y ys ih =>
    rw [List.length_cons, List.range_succ_eq_map (n := ys.length + 1)]
    simp only [List.map_cons, List.map_map, List.take_zero, Onnx.foldMax, Jax.scanl1, List.cons.injEq, true_and]
    have : ((fun i => Onnx.foldMax x (List.take i (y :: ys))) ∘ Nat.succ) =
        fun i => Onnx.foldMax (if y > x then y else x) (ys.take i) := by
      funext i; simp [Onnx.foldMax]
    rw [this, ih]

theorem prefixMin (x : Int) (xs : List Int) :
    (List.range (xs.length + 1)).map (fun i => Onnx.foldMin x (xs.take i)) =
      x :: Jax.scanl1 (fun a y => if y < a then y else a) x xs := by
  induction xs generalizing x with
  | nil => simp [Onnx.foldMin, Jax.scanl1]
  | cons y ys ih =>
    rw [List.length_cons, List.range_succ_eq_map (n := ys.length + 1)]
    simp only [List.map_cons, List.map_map, List.take_zero, Onnx.foldMin, Jax.scanl1, List.cons.injEq, true_and]
    have : ((fun i => Onnx.foldMin x (List.take i (y :: ys))) ∘ Nat.succ) =
        fun i => Onnx.foldMin (if y < x then y else x) (ys.take i) := by
      funext i; simp [Onnx.foldMin]
    rw [this, ih]

/-- the windows of `MaxPool(kernel = n, pads = [n-1, 0])` on `n` elements are the prefixes. -/
theorem maxPool1_prefix_windows (x : Int) (xs : List Int) :
    Onnx.maxPool1 (xs.length + 1) xs.length 0 (x :: xs) =
      some ((List.range (xs.length + 1)).map fun i => Onnx.foldMax x (xs.take i)) := by
  have hg : ¬ (xs.length + 1 = 0 ∨ xs.length ≥ xs.length + 1 ∨ 0 ≥ xs.length + 1 ∨ (x :: xs).length = 0 ∨
      (x :: xs).length + xs.length + 0 < xs.length + 1) := by simp
  have hc : (x :: xs).length + xs.length + 0 - (xs.length + 1) + 1 = xs.length + 1 := by simp
  simp only [Onnx.maxPool1, hg, if_false, hc, Option.some.injEq]
  apply List.map_congr_left
  intro i hi
  have hi' : i < xs.length + 1 := by simpa using hi
  have e1 : i + (xs.length + 1) - xs.length = i + 1 := by omega
  have e2 : i - xs.length = 0 := by omega
  simp [e1, e2]

theorem maxPool1_cummax (x : Int) (xs : List Int) :
    Onnx.maxPool1 (xs.length + 1) xs.length 0 (x :: xs) = some (Jax.cummax false (x :: xs)) := by
  rw [maxPool1_prefix_windows, prefixMax]
  simp [Jax.cummax, Jax.cumExt, Jax.scan1]

theorem foldMax_neg (x : Int) (xs : List Int) :
    Onnx.foldMax (-x) (xs.map fun y => -y) = -(Onnx.foldMin x xs) := by
  induction xs generalizing x with
  | nil => rfl
  | cons y ys ih =>
    simp only [List.map_cons, Onnx.foldMax, Onnx.foldMin]
    have : (if -y > -x then -y else -x) = -(if y < x then y else x) := by split_ifs <;> omega
    rw [this, ih]

/-- `Neg ∘ MaxPool(prefix windows) ∘ Neg` = running minimum. -/
theorem neg_maxPool1_neg_cummin (x : Int) (xs : List Int) :
    (Onnx.maxPool1 (xs.length + 1) xs.length 0 ((x :: xs).map fun y => -y)).map (fun r => r.map fun y => -y) =
      some (Jax.cummin false (x :: xs)) := by
  have := maxPool1_prefix_windows (-x) (xs.map fun y => -y)
  simp only [List.length_map, List.map_cons] at this ⊢
  rw [this]
  simp only [Option.map_some, List.map_map, Option.some.injEq]
  have h2 : ((fun y => -y) ∘ fun i => Onnx.foldMax (-x) (List.take i (List.map (fun y => -y) xs))) =
      fun i => Onnx.foldMin x (xs.take i) := by
    funext i
    simp only [Function.comp, ← List.map_take, foldMax_neg]; omega
  rw [h2, prefixMin]
  simp [Jax.cummin, Jax.cumExt, Jax.scan1]

/-! ### suffix windows (`pads = [0, n-1]`) = running maximum from the right -/

def foldMaxL : List Int → Int
  | [] => 0
  | y :: ys => Onnx.foldMax y ys

theorem foldMax_spec (a : Int) (xs : List Int) :
    Onnx.foldMax a xs ∈ a :: xs ∧ ∀ y ∈ a :: xs, y ≤ Onnx.foldMax a xs := by
  induction xs generalizing a with
  | nil => simp [Onnx.foldMax]
  | cons x xs ih =>
    simp only [Onnx.foldMax]
    obtain ⟨hm, hle⟩ := ih (if x > a then x else a)
    have hf : (if x > a then x else a) ≤ Onnx.foldMax (if x > a then x else a) xs := hle _ (by simp)
    constructor
    · rcases List.mem_cons.mp hm with h | h
      · rw [h]; split_ifs <;> simp
      · simp [h]
    · have ha : a ≤ (if x > a then x else a) := by split_ifs <;> omega
      have hx : x ≤ (if x > a then x else a) := by split_ifs <;> omega
      intro y hy
      rcases List.mem_cons.mp hy with h | hy
      · rw [h]; exact Int.le_trans ha hf
      · rcases List.mem_cons.mp hy with h | hy
        · rw [h]; exact Int.le_trans hx hf
        · exact hle y (by simp [hy])

/-- the maximum does not depend on the order of the elements. -/
theorem foldMaxL_perm (s t : List Int) (h : ∀ y, y ∈ s ↔ y ∈ t) : foldMaxL s = foldMaxL t := by
  cases s with
  | nil =>
    cases t with
    | nil => rfl
    | cons b bs => exact absurd ((h b).mpr (by simp)) (by simp)
  | cons a as =>
    cases t with
    | nil => exact absurd ((h a).mp (by simp)) (by simp)
    | cons b bs =>
      simp only [foldMaxL]
      obtain ⟨m1, l1⟩ := foldMax_spec a as
      obtain ⟨m2, l2⟩ := foldMax_spec b bs
      have := l2 _ ((h _).mp m1)
      have := l1 _ ((h _).mpr m2)
      omega

theorem maxPool1_suffix_windows (x : Int) (xs : List Int) :
    Onnx.maxPool1 (xs.length + 1) 0 xs.length (x :: xs) =
      some ((List.range (xs.length + 1)).map fun i => foldMaxL ((x :: xs).drop i)) := by
  have hg : ¬ (xs.length + 1 = 0 ∨ 0 ≥ xs.length + 1 ∨ xs.length ≥ xs.length + 1 ∨ (x :: xs).length = 0 ∨
      (x :: xs).length + 0 + xs.length < xs.length + 1) := by simp
  have hc : (x :: xs).length + 0 + xs.length - (xs.length + 1) + 1 = xs.length + 1 := by simp
  simp only [Onnx.maxPool1, hg, if_false, hc, Option.some.injEq]
  apply List.map_congr_left
  intro i hi
  have e1 : List.take (i + (xs.length + 1)) (x :: xs) = x :: xs :=
    List.take_of_length_le (by simp)
  simp only [Nat.sub_zero, e1]
  cases (x :: xs).drop i <;> rfl

theorem cummax_rev_eq (l : List Int) :
    Jax.cummax true l = (List.range l.length).map fun i => foldMaxL (l.drop i) := by
  have hgo : ∀ r : List Int, Jax.scan1 (fun a y => if y > a then y else a) r =
      (List.range r.length).map fun i => foldMaxL (r.take (i + 1)) := by
    intro r
    cases r with
    | nil => rfl
    | cons z zs =>
      simp only [Jax.scan1, ← prefixMax, List.length_cons]
      apply List.map_congr_left
      intro i _
      simp [foldMaxL]
  simp only [Jax.cummax, Jax.cumExt, if_true]
  rw [hgo]
  apply List.ext_getElem
  · simp
  · intro j h1 h2
    have hj : j < l.length := by simpa using h2
    simp only [List.getElem_reverse, List.getElem_map, List.getElem_range, List.length_map, List.length_range,
      List.length_reverse]
    have e : l.length - 1 - j + 1 = l.length - j := by omega
    rw [e, List.take_reverse]
    have e2 : l.length - (l.length - j) = j := by omega
    rw [e2]
    exact foldMaxL_perm _ _ (fun y => by simp)

theorem maxPool1_cummax_rev (x : Int) (xs : List Int) :
    Onnx.maxPool1 (xs.length + 1) 0 xs.length (x :: xs) = some (Jax.cummax true (x :: xs)) := by
  rw [maxPool1_suffix_windows, cummax_rev_eq]
  simp

/-! ## automation shared by the dataflow-recipe obligations (`GenProps/C01Tensor.lean`) -/

theorem gather1_single (x : Int) : Onnx.gather1 [x] [0] = some [x] := by simp [Onnx.gather1]

/-- Evaluate a concrete dataflow recipe on symbolic inputs down to the operator models.
    (`grecipe_simp0`: `Gather` is left folded, for symbolic index lists.) -/
macro "grecipe_simp0" "[" ts:Lean.Parser.Tactic.simpLemma,* "]" : tactic =>
  `(tactic| simp [$ts,*, GRecipe.eval, evalGNodes, evalGNode, getAll, GOp.eval, Tn.vec, Tn.scalar,
      Onnx.slice1, Onnx.clampI, Onnx.bcast2, Onnx.bcastTo, Onnx.where3, Onnx.normAxis, Onnx.squeezeShape,
      Onnx.unsqueezeShape, Onnx.insertAt, BinOp.app, prodNat, List.range_succ, gather1_single])

macro "grecipe_simp" "[" ts:Lean.Parser.Tactic.simpLemma,* "]" : tactic =>
  `(tactic| grecipe_simp0 [$ts,*, Onnx.gather1])

macro "grecipe_simp" : tactic => `(tactic| grecipe_simp0 [Onnx.gather1])

theorem tdiv_six (i : Int) : i.tdiv 6 = if 0 ≤ i then i / 6 else -((-i) / 6) := by
  split
  · next h => exact Int.tdiv_eq_ediv_of_nonneg h
  · next h =>
    have h1 : (-i).tdiv 6 = (-i) / 6 := Int.tdiv_eq_ediv_of_nonneg (by omega)
    have h2 : (-i).tdiv 6 = -(i.tdiv 6) := Int.neg_tdiv i 6
    omega

theorem getD_congr (l : List Int) (x y : Int) (h : x = y) : l[x.toNat]?.getD 0 = l[y.toNat]?.getD 0 := by
  rw [h]

end J2O.C01
